/-
  C07 liveness lemmas, part H: list and range exchanges.
-/
import NutsModel.C07.Round
import NutsProofs.Lemmas.C07
import NutsProofs.Lemmas.C07LiveG
open Nuts.Proto Nuts Nuts.Proto.L

namespace Nuts.Proto.Live

/-! ### Part H: the two final exchanges of a round (list query, range query) -/

/-- constants and oracle contracts the liveness argument relies on -/
structure Hyp (cfg : Cfg) (env : Env) : Prop where
  ps : 0 < cfg.pageSize
  bs : cfg.blockState = false
  rp : 1 ≤ cfg.rangePages
  n1 : cfg.nextOne = (1, 2)
  n2 : cfg.nextTwo = (1, 3)
  dc : DC env
  ord : OrderOK env

theorem refFun_grow {a a' b : List Tx} (hf : RefFun a b) (h : ∀ t ∈ a', t ∈ a ∨ t ∈ b) : RefFun a' b := by
  intro t ht t' ht' he
  have conv : ∀ z, (z ∈ a' ∨ z ∈ b) → (z ∈ a ∨ z ∈ b) := by
    intro z hz
    rcases hz with hz | hz
    · exact h z hz
    · exact Or.inr hz
  exact hf t (conv t ht) t' (conv t' ht') he

theorem have_present (d : List Tx) : ∀ r ∈ d.map (·.ref), present d r = true := by
  intro r hr
  obtain ⟨t, ht, rfl⟩ := List.mem_map.mp hr
  exact present_iff.mpr ⟨t, ht, rfl⟩

theorem findBetween_iff {d : List Tx} {s e : Nat} {t : Tx} : t ∈ findBetween d s e ↔ t ∈ d ∧ s ≤ t.clock ∧ t.clock < e := by
  unfold findBetween
  rw [(sortBy_perm txLt _).mem_iff]
  simp [List.mem_filter]

theorem findBetween_sorted (d : List Tx) (s e : Nat) : (findBetween d s e).Pairwise (fun x y => x.clock ≤ y.clock) := by
  unfold findBetween
  have hasym : ∀ a b : Tx, txLt a b = true → txLt b a = false := by
    intro a b h
    unfold txLt at h ⊢
    simp only [Bool.or_eq_true, decide_eq_true_eq, Bool.and_eq_true, beq_iff_eq] at h
    simp only [Bool.or_eq_false_iff, decide_eq_false_iff_not, Bool.and_eq_false_iff, beq_eq_false_iff_ne]
    rcases h with h | ⟨h1, h2⟩
    · exact ⟨by omega, Or.inl (by omega)⟩
    · exact ⟨by omega, Or.inr (Nat.lt_asymm h2)⟩
  have htrans : ∀ a b c : Tx, txLt b a = false → txLt c b = false → txLt c a = false := by
    intro a b c h1 h2
    unfold txLt at h1 h2 ⊢
    simp only [Bool.or_eq_false_iff, decide_eq_false_iff_not, Bool.and_eq_false_iff, beq_eq_false_iff_ne] at h1 h2 ⊢
    obtain ⟨a1, a2⟩ := h1
    obtain ⟨b1, b2⟩ := h2
    refine ⟨by omega, ?_⟩
    by_cases hc : c.clock = a.clock
    · right
      rcases a2 with h | h
      · exfalso; omega
      · rcases b2 with h' | h'
        · exfalso; omega
        · exact Nat.not_lt.mpr (Nat.le_trans (Nat.not_lt.mp h) (Nat.not_lt.mp h'))
    · left; exact hc
  have hp := sortBy_pairwise txLt hasym htrans (d.filter (fun t => s ≤ t.clock && t.clock < e))
  refine hp.imp ?_
  intro x y hle
  unfold leOf txLt at hle
  simp only [Bool.or_eq_false_iff, decide_eq_false_iff_not] at hle
  omega

/-- **range exchange**: `a` asks for clocks [s, e); `b` replies (at most `rangePages` pages); if `a` already has
    everything of `b` below `s`, it ends up with everything of `b` on the page starting at `s` -/
theorem finish_range {cfg : Cfg} {env : Env} (H : Hyp cfg env) (b : Node) (hB : DagOK b.dag) (hpb : PayloadsOK b) (pA pB : Peer)
    (a1 : Node) (c : Conv) (s e : Nat) (hse : s + cfg.pageSize ≤ e)
    (ha : DagOK a1.dag) (hf : RefFun a1.dag b.dag) (hroot : RootIn a1.dag b.dag) (hc : a1.convs = [c]) (hd : c.data = .rangeQuery s e)
    (hlow : ∀ t ∈ b.dag, t.clock < s → t ∈ a1.dag) (f : Nat) :
    ∃ a2, pingPong cfg env pA pB (f + 1) a1 b [.rangeQuery c.cid s e] = (a2, b) ∧ DagOK a2.dag ∧
      (∀ t ∈ a1.dag, t ∈ a2.dag) ∧ (∀ t ∈ a2.dag, t ∈ a1.dag ∨ t ∈ b.dag) ∧
      (∀ t ∈ b.dag, s ≤ t.clock → t.clock < s + cfg.pageSize → t ∈ a2.dag) := by
  have hps := H.ps
  have hlt : s < e := by omega
  obtain ⟨ls, hfl, hserve⟩ := serve_rangeQuery cfg env b hpb pA c.cid s e hlt
  rw [pingPong_step _ _ _ _ _ _ _ _ (by simp), hserve]
  simp only
  let stop' := if e > s + cfg.rangePages * cfg.pageSize then s + cfg.rangePages * cfg.pageSize else e
  have hstop : s + cfg.pageSize ≤ stop' ∧ stop' ≤ e := by
    have : cfg.pageSize ≤ cfg.rangePages * cfg.pageSize := Nat.le_mul_of_pos_left _ H.rp
    simp only [stop']
    split <;> omega
  have hmem_b : ∀ t ∈ ls.flatten, t ∈ b.dag := by
    intro t ht; rw [hfl] at ht; exact (findBetween_iff.mp ht).1
  have hacc : ∀ ch ∈ ls, Accepts (.rangeQuery s e) ch := by
    intro ch hch t ht
    have : t ∈ ls.flatten := List.mem_flatten.mpr ⟨ch, hch, ht⟩
    rw [hfl] at this
    have := findBetween_iff.mp this
    exact ⟨this.2.1, by have := this.2.2; show t.clock < e; omega⟩
  have hpc : PrevClosed (a1.dag.map (·.ref)) ls.flatten := by
    rw [hfl]
    apply prevClosed_of_sorted hB _ _ (findBetween_sorted _ _ _) (fun t ht => (findBetween_iff.mp ht).1)
    intro t ht p hp
    obtain ⟨hb1, hb2, hb3⟩ := findBetween_iff.mp ht
    obtain ⟨tb, htb, hrb, hclk⟩ := dagOK_prev hB hb1 hp
    by_cases hs : s ≤ tb.clock
    · exact Or.inr ⟨tb, findBetween_iff.mpr ⟨htb, hs, by omega⟩, hrb⟩
    · exact Or.inl (List.mem_map.mpr ⟨tb, hlow tb htb (by omega), hrb⟩)
  obtain ⟨g1, g2, g3, g4, g5, _, _, _, _⟩ := absorb_chunks cfg env b hB hpb pB c.cid (.rangeQuery s e) ls.length ls 0 a1 c
    (a1.dag.map (·.ref)) ha hf hroot hc rfl hd hacc (by omega) hmem_b (have_present a1.dag) hpc
  refine ⟨_, ?_, g2, g5, ?_, ?_⟩
  · rw [g1, pingPong_nil]
  · intro t ht
    rcases g4 t ht with h | h
    · exact Or.inl h
    · exact Or.inr (hmem_b t h)
  · intro t ht h1 h2
    have hin : t ∈ ls.flatten := by
      rw [hfl]; exact findBetween_iff.mpr ⟨ht, h1, by omega⟩
    have hf2 := refFun_grow hf (fun z hz => by
      rcases g4 z hz with h | h
      · exact Or.inl h
      · exact Or.inr (hmem_b z h))
    exact mem_of_present hf2 ht (g3 t hin)

/-- **list exchange**: `a` asks for `refs` (all of them transactions of `b`, closed under prevs relative to `a`);
    it ends up with all of them -/
theorem finish_list {cfg : Cfg} {env : Env} (H : Hyp cfg env) (b : Node) (hB : DagOK b.dag) (hpb : PayloadsOK b) (pA pB : Peer)
    (a1 : Node) (c : Conv) (refs : List Ref) (hne : refs ≠ [])
    (ha : DagOK a1.dag) (hf : RefFun a1.dag b.dag) (hroot : RootIn a1.dag b.dag) (hc : a1.convs = [c]) (hd : c.data = .listQuery refs)
    (hclosed : ∀ t ∈ b.dag, t.ref ∈ refs → ∀ p ∈ t.prevs, present a1.dag p = true ∨ p ∈ refs) (f : Nat) :
    ∃ a2, pingPong cfg env pA pB (f + 1) a1 b [.listQuery c.cid refs] = (a2, b) ∧ DagOK a2.dag ∧
      (∀ t ∈ a1.dag, t ∈ a2.dag) ∧ (∀ t ∈ a2.dag, t ∈ a1.dag ∨ t ∈ b.dag) ∧
      (∀ t ∈ b.dag, t.ref ∈ refs → t ∈ a2.dag) := by
  obtain ⟨ls, hfl, hserve⟩ := serve_listQuery cfg env b hpb H.ord.sub pA c.cid refs hne
  rw [pingPong_step _ _ _ _ _ _ _ _ (by simp), hserve]
  simp only
  have hl_iff : ∀ t, t ∈ ls.flatten ↔ ∃ r ∈ refs, getTx b.dag r = some t := by
    intro t
    rw [hfl, (H.ord.perm _).mem_iff, List.mem_filterMap]
  have hmem_b : ∀ t ∈ ls.flatten, t ∈ b.dag := by
    intro t ht; obtain ⟨r, _, hr⟩ := (hl_iff t).mp ht; exact getTx_mem hr
  have href : ∀ t ∈ ls.flatten, t.ref ∈ refs := by
    intro t ht; obtain ⟨r, hr, hg⟩ := (hl_iff t).mp ht; rw [getTx_ref hg]; exact hr
  have hin : ∀ t ∈ b.dag, t.ref ∈ refs → t ∈ ls.flatten := by
    intro t ht hr
    exact (hl_iff t).mpr ⟨t.ref, hr, getTx_some_of_mem_nodup (dagOK_unique hB) ht⟩
  have hacc : ∀ ch ∈ ls, Accepts (.listQuery refs) ch := by
    intro ch hch t ht
    exact href t (List.mem_flatten.mpr ⟨ch, hch, ht⟩)
  have hpc : PrevClosed (a1.dag.map (·.ref)) ls.flatten := by
    apply prevClosed_of_sorted hB _ _ (by rw [hfl]; exact H.ord.sorted _) hmem_b
    intro t ht p hp
    obtain ⟨tb, htb, hrb, _⟩ := dagOK_prev hB (hmem_b t ht) hp
    rcases hclosed t (hmem_b t ht) (href t ht) p hp with h | h
    · obtain ⟨t', ht', hr'⟩ := present_iff.mp h
      exact Or.inl (List.mem_map.mpr ⟨t', ht', hr'⟩)
    · exact Or.inr ⟨tb, hin tb htb (by rw [hrb]; exact h), hrb⟩
  obtain ⟨g1, g2, g3, g4, g5, _, _, _, _⟩ := absorb_chunks cfg env b hB hpb pB c.cid (.listQuery refs) ls.length ls 0 a1 c
    (a1.dag.map (·.ref)) ha hf hroot hc rfl hd hacc (by omega) hmem_b (have_present a1.dag) hpc
  refine ⟨_, ?_, g2, g5, ?_, ?_⟩
  · rw [g1, pingPong_nil]
  · intro t ht
    rcases g4 t ht with h | h
    · exact Or.inl h
    · exact Or.inr (hmem_b t h)
  · intro t ht hr
    have hf2 := refFun_grow hf (fun z hz => by
      rcases g4 z hz with h | h
      · exact Or.inl h
      · exact Or.inr (hmem_b z h))
    exact mem_of_present hf2 ht (g3 t (hin t ht hr))

end Nuts.Proto.Live
