/-
  C19 — helper lemmas for NutsProofs/Props/C19.lean (core Lean only).
-/
import NutsModel.C19.Sites
import NutsModel.C19.Murmur

namespace Nuts.C19.Lemmas
open Nuts Nuts.C19

section DpopLemmas

/-! ## dpop -/
theorem claimCheck_no_panic (c : Dpop.Cfg) (n : String) (v : Option J) : ∀ s, Dpop.claimCheck c n v ≠ .panic s := by
  intro s
  unfold Dpop.claimCheck
  cases v with
  | none => simp
  | some j =>
    simp only
    split
    · simp
    · split
      · cases j <;> simp
      · simp

theorem claimString_checked (site : String) (v : Option J) : ∀ s, Dpop.claimString true site v ≠ .panic s := by
  intro s; unfold Dpop.claimString
  cases v with
  | none => simp
  | some j => cases j <;> simp

theorem parseHeader_no_panic (i : Dpop.ParseIn) : ∀ s, Dpop.parseHeader i ≠ .panic s := by
  intro s
  unfold Dpop.parseHeader
  repeat' split
  all_goals first | (simp; done) | (simp_all (maxSteps := 2000000))

theorem parseClaims_no_panic (c : Dpop.Cfg) (i : Dpop.ParseIn) : ∀ s, Dpop.parseClaims c i ≠ .panic s := by
  intro s
  unfold Dpop.parseClaims
  repeat' split
  all_goals first | (exact absurd ‹_› (claimCheck_no_panic _ _ _ _)) | (simp; done)

theorem parse_no_panic (c : Dpop.Cfg) (i : Dpop.ParseIn) : ∀ s, Dpop.parse c i ≠ .panic s := by
  intro s
  unfold Dpop.parse
  split
  · simp
  · exact absurd ‹_› (parseHeader_no_panic i _)
  · exact parseClaims_no_panic c i s

/-- Parse only lets string-valued htu/htm through (repaired source) -/
theorem claimCheck_ok_str (n : String) (v : Option J) (h : Dpop.claimCheck Dpop.Cfg.fixed n v = .ok ()) :
    ∃ s, v = some (.str s) ∧ s ≠ "" := by
  unfold Dpop.claimCheck at h
  cases v with
  | none => simp at h
  | some j =>
    cases j <;> simp [Dpop.Cfg.fixed, J.isEmptyString] at h ⊢
    exact h

theorem htm_fixed_no_panic (t : Dpop.Token) : ∀ s, Dpop.htm Dpop.Cfg.fixed t ≠ .panic s :=
  claimString_checked _ _
theorem htu_fixed_no_panic (t : Dpop.Token) : ∀ s, Dpop.htu Dpop.Cfg.fixed t ≠ .panic s :=
  claimString_checked _ _

theorem strip_fixed_no_panic (up : Dpop.UrlParse) (raw : String) : ∀ s, Dpop.strip Dpop.Cfg.fixed up raw ≠ .panic s := by
  intro s; unfold Dpop.strip; cases up raw <;> simp [Dpop.Cfg.fixed]

theorem match_fixed_no_panic (up : Dpop.UrlParse) (t : Dpop.Token) (tp : Bool) (m u : String) :
    ∀ s, Dpop.matchDpop Dpop.Cfg.fixed up t tp m u ≠ .panic s := by
  intro s
  unfold Dpop.matchDpop
  repeat' split
  all_goals first | (intro h; cases h; done) | skip
  all_goals first
    | (exact absurd ‹_› (htm_fixed_no_panic _ _))
    | (exact absurd ‹_› (htu_fixed_no_panic _ _))
    | (exact absurd ‹_› (strip_fixed_no_panic _ _ _))
    | simp_all

theorem claimString_sites (chk : Bool) (site : String) (v : Option J) (s : String) (h : Dpop.claimString chk site v = .panic s) : s = site := by
  unfold Dpop.claimString at h
  repeat' split at h
  all_goals first | (cases h; rfl) | (cases h; done) | simp at h

theorem strip_sites (c : Dpop.Cfg) (up : Dpop.UrlParse) (raw s : String) (h : Dpop.strip c up raw = .panic s) :
    s = "strip:url.Scheme(nil *url.URL)" := by
  unfold Dpop.strip at h
  repeat' split at h
  all_goals first | (cases h; rfl) | (cases h; done) | simp at h

theorem match_sites (c : Dpop.Cfg) (up : Dpop.UrlParse) (t : Dpop.Token) (tp : Bool) (m u s : String)
    (h : Dpop.matchDpop c up t tp m u = .panic s) : s ∈ Dpop.sites.map (·.2) := by
  unfold Dpop.matchDpop at h
  repeat' split at h
  all_goals first | (cases h; done) | skip
  all_goals first
    | (cases h; rename_i h'; have := claimString_sites _ _ _ _ h'; subst this; simp [Dpop.sites]; done)
    | (cases h; rename_i h'; have := strip_sites _ _ _ _ h'; subst this; simp [Dpop.sites]; done)
    | skip

theorem dpop_validate_sites (c : Dpop.Cfg) (up : Dpop.UrlParse) (i : Dpop.ParseIn) (tp : Bool) (m u s : String)
    (h : Dpop.validate c up i tp m u = .panic s) : s ∈ Dpop.sites.map (·.2) := by
  unfold Dpop.validate at h
  split at h
  · simp at h
  · rename_i p hp; exact absurd hp (parse_no_panic c i p)
  · exact match_sites c up _ tp m u s h

end DpopLemmas

section ResolverLemmas
open Nuts.C19.Resolver

theorem baseUrl_fixed_no_panic (c : Cfg) (hc : c.baseChecked = true) (ctx : List J) : ∀ s, baseUrl c ctx ≠ .panic s := by
  intro s
  induction ctx with
  | nil => simp [baseUrl]
  | cons x rest ih =>
    cases x with
    | obj kvs =>
      unfold baseUrl
      split
      · exact ih
      · simp
      · simp [hc]; exact ih
    | _ => unfold baseUrl; exact ih

/-- the go-did contract: PublicKey() does not panic on any relationship of the list -/
def KeysTotal (l : List Rel) : Prop := ∀ r ∈ l, r.key ≠ .libPanic

theorem publicKey_no_panic (fn : String) (r : Rel) (h : r.key ≠ .libPanic) : ∀ s, publicKey fn r ≠ .panic s := by
  intro s; unfold publicKey; cases hk : r.key <;> simp_all

theorem findKey_no_panic (c : Cfg) (hc : c.nilVMChecked = true) (keyID : String) (base : Option String) (l : List Rel)
    (hk : KeysTotal l) : ∀ s, findKey c keyID base l ≠ .panic s := by
  intro s
  induction l with
  | nil => simp [findKey]
  | cons r rest ih =>
    have hr : r.key ≠ .libPanic := hk r (by simp)
    have ih' := ih (fun x hx => hk x (by simp [hx]))
    unfold findKey
    repeat' split
    all_goals first | exact ih' | exact publicKey_no_panic _ _ hr s | simp_all

theorem firstKey_no_panic (c : Cfg) (hc : c.nilVMChecked = true) (l : List Rel) (hk : KeysTotal l) :
    ∀ s, firstKey c l ≠ .panic s := by
  intro s
  induction l with
  | nil => simp [firstKey]
  | cons r rest ih =>
    have hr : r.key ≠ .libPanic := hk r (by simp)
    have ih' := ih (fun x hx => hk x (by simp [hx]))
    unfold firstKey
    split
    · simp; exact ih'
    · exact publicKey_no_panic _ _ hr s

theorem resolveEx_spec (env : Env) (maxDepth : Int) :
    ∀ (n : Nat) (depth : Int) (endpoint : String), (maxDepth - depth).toNat = n →
      (resolveEx env false endpoint depth maxDepth).2 ≤ n + 1 ∧
      ∀ s, (resolveEx env false endpoint depth maxDepth).1 ≠ .panic s := by
  intro n
  induction n with
  | zero =>
    intro depth endpoint h
    have hd : depth ≥ maxDepth := by omega
    rw [resolveEx]; simp [hd]
  | succ n ih =>
    intro depth endpoint h
    have hd : ¬ depth ≥ maxDepth := by omega
    have hrec := fun url => ih (depth + 1) url (by omega)
    rw [resolveEx]
    simp only [hd, ↓reduceDIte, Bool.false_eq_true, ↓reduceIte]
    repeat' split
    all_goals first
      | (constructor
         · simp
         · intro s; simp
         done)
      | (constructor
         · have := (hrec ‹String›).1; simp only; omega
         · exact (hrec ‹String›).2)


theorem publicKey_sites (fn : String) (hfn : fn = "ResolveKeyByID" ∨ fn = "ResolveKey") (r : Rel) (s : String)
    (h : publicKey fn r = .panic s) : s ∈ Resolver.sites.map (·.2) := by
  unfold publicKey at h
  split at h
  · simp at h
  · simp at h
  · cases h
    rcases hfn with rfl | rfl <;> decide

theorem baseUrl_sites (c : Cfg) (ctx : List J) (s : String) (h : baseUrl c ctx = .panic s) : s ∈ Resolver.sites.map (·.2) := by
  induction ctx with
  | nil => simp [baseUrl] at h
  | cons x rest ih =>
    cases x with
    | obj kvs =>
      unfold baseUrl at h
      split at h
      · exact ih h
      · simp at h
      · split at h
        · exact ih h
        · cases h; decide
    | _ => unfold baseUrl at h; exact ih h

theorem findKey_sites (c : Cfg) (keyID : String) (base : Option String) (l : List Rel) (s : String)
    (h : findKey c keyID base l = .panic s) : s ∈ Resolver.sites.map (·.2) := by
  induction l with
  | nil => simp [findKey] at h
  | cons r rest ih =>
    unfold findKey at h
    repeat' split at h
    all_goals first
      | exact ih h
      | exact publicKey_sites _ (Or.inl rfl) _ _ h
      | (cases h; decide)

theorem firstKey_sites (c : Cfg) (l : List Rel) (s : String) (h : firstKey c l = .panic s) : s ∈ Resolver.sites.map (·.2) := by
  induction l with
  | nil => simp [firstKey] at h
  | cons r rest ih =>
    unfold firstKey at h
    repeat' split at h
    all_goals first
      | exact ih h
      | exact publicKey_sites _ (Or.inr rfl) _ _ h
      | (cases h; decide)

theorem resolveKeyByID_sites (c : Cfg) (keyID : String) (didOk : Bool) (doc : Option KeyDoc) (rt : Nat) (s : String)
    (h : resolveKeyByID c keyID didOk doc rt = .panic s) : s ∈ Resolver.sites.map (·.2) := by
  unfold resolveKeyByID at h
  repeat' split at h
  all_goals first
    | (cases h; done)
    | (cases h; rename_i hb; exact baseUrl_sites _ _ _ hb)
    | exact findKey_sites _ _ _ _ _ h

theorem resolveKey_sites (c : Cfg) (doc : Option KeyDoc) (rt : Nat) (s : String)
    (h : resolveKey c doc rt = .panic s) : s ∈ Resolver.sites.map (·.2) := by
  unfold resolveKey at h
  repeat' split at h
  all_goals first
    | (cases h; done)
    | exact firstKey_sites _ _ _ h

end ResolverLemmas

section BitstringLemmas
open Nuts.C19.Bitstring

theorem tdiv8_bounds (idx : Int) (n : Nat) (h0 : ¬ idx < 0) (h1 : ¬ idx.tdiv 8 ≥ (n : Int)) :
    (idx.tdiv 8).toNat < n := by
  have h : idx.tdiv 8 = idx / 8 := Int.tdiv_eq_ediv_of_nonneg (by omega)
  rw [h] at h1 ⊢
  omega

theorem bit_no_panic (bs : List Nat) (idx : Int) : ∀ s, bit bs idx ≠ .panic s := by
  intro s
  unfold bit
  simp only
  split
  · simp
  · rename_i h
    have h' : ¬ idx < 0 ∧ ¬ idx.tdiv 8 ≥ (bs.length : Int) := by
      constructor <;> (intro hh; exact h (by simp [hh]))
    have hlt := tdiv8_bounds idx bs.length h'.1 h'.2
    rw [List.getElem?_eq_getElem hlt]
    simp

theorem setBit_spec (bs : List Nat) (idx : Int) (v : Bool) :
    (∀ s, setBit bs idx v ≠ .panic s) ∧ (∀ r, setBit bs idx v = .ok r → r.length = bs.length) := by
  unfold setBit
  simp only
  split
  · simp
  · rename_i h
    have h' : ¬ idx < 0 ∧ ¬ idx.tdiv 8 ≥ (bs.length : Int) := by
      constructor <;> (intro hh; exact h (by simp [hh]))
    have hlt := tdiv8_bounds idx bs.length h'.1 h'.2
    rw [List.getElem?_eq_getElem hlt]
    simp only
    split
    · constructor
      · simp
      · intro r hr; cases hr; simp
    · constructor
      · simp
      · intro r hr; cases hr; rfl

/-- an index is rejected exactly when it is negative or beyond the last bit -/
theorem bit_err_iff (bs : List Nat) (idx : Int) :
    (∃ e, bit bs idx = .err e) ↔ (idx < 0 ∨ idx ≥ 8 * (bs.length : Int)) := by
  unfold bit
  simp only
  constructor
  · intro ⟨e, he⟩
    split at he
    · rename_i h
      rcases h with h | h
      · exact Or.inl h
      · by_cases h0 : idx < 0
        · exact Or.inl h0
        · right
          have : idx.tdiv 8 = idx / 8 := Int.tdiv_eq_ediv_of_nonneg (by omega)
          rw [this] at h; omega
    · split at he <;> simp at he
  · intro h
    refine ⟨"ErrIndexNotInBitstring", ?_⟩
    have : idx < 0 ∨ idx.tdiv 8 ≥ (bs.length : Int) := by
      rcases h with h | h
      · exact Or.inl h
      · by_cases h0 : idx < 0
        · exact Or.inl h0
        · right
          have : idx.tdiv 8 = idx / 8 := Int.tdiv_eq_ediv_of_nonneg (by omega)
          rw [this]; omega
    simp [this]

end BitstringLemmas

section CallbackLemmas
open Nuts.C19.Callback

theorem withCallbackURI_oauth2 (c : Cfg) (code : String) : withCallbackURI c (.oauth2 code) = .ok (.oauth2 code) := rfl

theorem audience_not_raw (p : Pres) (h : extractChallengeErr p = false) :
    ∀ m, validatePresentationAudience p ≠ some (.raw m) := by
  intro m
  unfold validatePresentationAudience
  unfold extractChallengeErr at h
  simp [h]

theorem audienceLoop_no_panic (c : Cfg) (ps : List (Pres × Bool))
    (h : ∀ p ∈ ps, extractChallengeErr p.1 = false) : ∀ s, audienceLoop c ps ≠ .panic s := by
  intro s
  induction ps with
  | nil => simp [audienceLoop]
  | cons x rest ih =>
    obtain ⟨p, signerOk⟩ := x
    have hp : extractChallengeErr p = false := h (p, signerOk) (by simp)
    have ih' := ih (fun q hq => h q (by simp [hq]))
    unfold audienceLoop
    split
    · simp [withCallbackURI]
    · split
      · rename_i e he
        cases e with
        | oauth2 code => simp [withCallbackURI]
        | raw m => exact absurd he (audience_not_raw p hp m)
      · exact ih'

theorem nonce_not_raw (ps : List Pres) (storeOk : Bool) : ∀ m, validatePresentationNonce ps storeOk ≠ .ok (some (.raw m)) := by
  intro m; unfold validatePresentationNonce
  repeat' split
  all_goals simp

theorem nonce_none_no_extract_err (ps : List Pres) (storeOk : Bool) (h : validatePresentationNonce ps storeOk = .ok none) :
    ∀ p ∈ ps, extractChallengeErr p = false := by
  unfold validatePresentationNonce at h
  split at h
  · simp at h
  · rename_i hany
    intro p hp
    cases hx : extractChallengeErr p
    · rfl
    · exact absurd (List.any_eq_true.mpr ⟨p, hp, hx⟩) hany

theorem mem_eraseDups_of_mem (l : List String) (x : String) (h : x ∈ l) : l.eraseDups ≠ [] := by
  cases l with
  | nil => simp at h
  | cons a t => rw [List.eraseDups_cons]; simp

/-- with at least one presentation and every nonce present, `nonces` is not empty: `nonces[0]` is in range -/
theorem nonce_no_panic (ps : List Pres) (storeOk : Bool) (hne : ps ≠ []) : ∀ s, validatePresentationNonce ps storeOk ≠ .panic s := by
  intro s
  unfold validatePresentationNonce
  split
  · simp
  · split
    · simp
    · rename_i hall
      split
      · simp
      · split
        · rename_i hnil
          exfalso
          cases ps with
          | nil => exact hne rfl
          | cons p t =>
            have hp : ¬ (p.nonce == "") = true := by
              intro hh; exact hall (List.any_eq_true.mpr ⟨p, by simp, hh⟩)
            have hmem : p.nonce ∈ ((p :: t).map (·.nonce)).filter (· != "") := by
              simp [List.mem_filter]; simpa using hp
            exact mem_eraseDups_of_mem _ _ hmem (by simpa [noncesOf] using hnil)
        · split <;> simp

theorem handleSubmission_no_panic (c : Cfg) (hg : c.envelopeGuard = true) (ps : List (Pres × Bool)) (storeOk : Bool) :
    ∀ s, handleSubmission c ps storeOk ≠ .panic s := by
  intro s
  unfold handleSubmission
  by_cases hemp : ps.isEmpty = true
  · simp [hg, hemp]
  · have hne : ps.map (·.1) ≠ [] := by
      intro h; apply hemp; cases ps <;> simp_all
    simp only [hg, hemp, Bool.and_false, Bool.false_eq_true, ↓reduceIte]
    cases hv : validatePresentationNonce (ps.map (·.1)) storeOk with
    | panic p => exact absurd hv (nonce_no_panic _ _ hne p)
    | err e => simp
    | ok o =>
      cases o with
      | some e =>
        cases e with
        | oauth2 code => simp [withCallbackURI]
        | raw m => exact absurd hv (nonce_not_raw _ _ m)
      | none =>
        simp only
        apply audienceLoop_no_panic
        intro p hp
        exact nonce_none_no_extract_err _ _ hv p.1 (List.mem_map.mpr ⟨p, hp, rfl⟩)

end CallbackLemmas

section IbltLemmas
open Nuts.C19.Iblt

/-! ## counting -/
theorem nodup_lt_length_le (n : Nat) (l : List Nat) (hn : l.Nodup) (hlt : ∀ x ∈ l, x < n) : l.length ≤ n := by
  have hsub : l ⊆ List.range n := fun x hx => List.mem_range.mpr (hlt x hx)
  have := List.Nodup.length_le_of_subset hn hsub
  simpa using this

theorem nodup_keys_length_le (l : List Key) (hn : l.Nodup) : l.length ≤ keySpace := by
  have h1 : (l.map BitVec.toNat).Nodup :=
    List.Pairwise.map BitVec.toNat (fun a b hab h => hab (BitVec.toNat_inj.mp h)) hn
  have h2 : ∀ x ∈ l.map BitVec.toNat, x < 2 ^ 256 := by
    intro x hx
    obtain ⟨k, _, rfl⟩ := List.mem_map.mp hx
    exact k.isLt
  have := nodup_lt_length_le (2 ^ 256) _ h1 h2
  simpa [keySpace] using this

/-! ## UnmarshalBinary -/
theorem bucketUnmarshal_ok (data : List Nat) (h : data.length = bucketBytes) : ∃ b, bucketUnmarshal data = .ok b := by
  unfold bucketUnmarshal
  simp [h]

theorem unmarshalLoop_ok : ∀ (n : Nat) (buf : List Nat) (acc : Array Bucket), buf.length = n * bucketBytes →
    ∃ bs, unmarshalLoop n buf acc = .ok bs ∧ bs.size = acc.size + n := by
  intro n
  induction n with
  | zero => intro buf acc _; exact ⟨acc, rfl, rfl⟩
  | succ n ih =>
    intro buf acc h
    have h44 : (buf.take bucketBytes).length = bucketBytes := by
      simp [List.length_take, h, bucketBytes]; omega
    obtain ⟨b, hb⟩ := bucketUnmarshal_ok _ h44
    have hrest : (buf.drop bucketBytes).length = n * bucketBytes := by
      simp [List.length_drop, h, bucketBytes]; omega
    obtain ⟨bs, hbs, hsz⟩ := ih (buf.drop bucketBytes) (acc.push b) hrest
    refine ⟨bs, ?_, ?_⟩
    · unfold unmarshalLoop; rw [hb]; exact hbs
    · rw [hsz]; simp; omega

theorem unmarshal_spec (data : List Nat) :
    (data.length % bucketBytes = 0 → ∃ bs, unmarshal data = .ok bs ∧ bs.size = data.length / bucketBytes) ∧
    (data.length % bucketBytes ≠ 0 → unmarshal data = .err "invalid data length") := by
  unfold unmarshal
  simp only
  constructor
  · intro h
    have hlen : data.length = data.length / bucketBytes * bucketBytes := by
      have := Nat.div_add_mod data.length bucketBytes
      rw [h] at this; rw [Nat.mul_comm]; omega
    have hne : ¬ data.length ≠ data.length / bucketBytes * bucketBytes := by omega
    simp only [hne, ↓reduceIte]
    obtain ⟨bs, h1, h2⟩ := unmarshalLoop_ok (data.length / bucketBytes) data #[] hlen
    exact ⟨bs, h1, by simpa using h2⟩
  · intro h
    have hne : data.length ≠ data.length / bucketBytes * bucketBytes := by
      intro heq
      apply h
      rw [heq]; exact Nat.mul_mod_left _ _
    simp [hne]

/-! ## Subtract -/
theorem subtractLoop_ok (ob : Array Bucket) : ∀ (t idx : Nat) (ib : Array Bucket), idx + t = ib.size → ib.size = ob.size →
    ∃ r, subtractLoop ob t idx ib = .ok r ∧ r.size = ib.size := by
  intro t
  induction t with
  | zero => intro idx ib _ _; exact ⟨ib, rfl, rfl⟩
  | succ t ih =>
    intro idx ib h hsz
    have hi : idx < ib.size := by omega
    have ho : idx < ob.size := by omega
    unfold subtractLoop
    rw [Array.getElem?_eq_getElem hi, Array.getElem?_eq_getElem ho]
    simp only
    obtain ⟨r, hr, hrs⟩ := ih (idx + 1) (ib.setIfInBounds idx (ib[idx].sub ob[idx])) (by simp; omega) (by simp; exact hsz)
    exact ⟨r, hr, by simpa using hrs⟩

theorem validate_spec (i o : Table) :
    (∀ s, validate i o ≠ .panic s) ∧ (validate i o = .ok () → i.buckets.size = o.buckets.size) ∧
    (i.buckets.size ≠ o.buckets.size → validate i o = .err "number of buckets do not match") := by
  unfold validate
  refine ⟨?_, ?_, ?_⟩
  · intro s; repeat' split
    all_goals simp
  · intro h
    by_cases hsz : i.buckets.size = o.buckets.size
    · exact hsz
    · simp [hsz] at h
  · intro h; simp [h]

theorem subtract_spec (i o : Table) :
    (i.buckets.size ≠ o.buckets.size → subtract i o = .err "number of buckets do not match") ∧
    (∀ s, subtract i o ≠ .panic s) ∧
    (∀ r, subtract i o = .ok r → r.buckets.size = i.buckets.size) := by
  obtain ⟨hv1, hv2, hv3⟩ := validate_spec i o
  unfold subtract
  refine ⟨?_, ?_, ?_⟩
  · intro h; rw [hv3 h]
  · intro s
    cases hv : validate i o with
    | ok u =>
      cases u
      obtain ⟨r, hr, _⟩ := subtractLoop_ok o.buckets i.buckets.size 0 i.buckets (by simp) (hv2 hv)
      simp [hr]
    | err e => simp
    | panic p => exact absurd hv (hv1 p)
  · intro r
    cases hv : validate i o with
    | ok u =>
      cases u
      obtain ⟨r', hr, hrs⟩ := subtractLoop_ok o.buckets i.buckets.size 0 i.buckets (by simp) (hv2 hv)
      simp only [hr]
      intro h; cases h; exact hrs
    | err e => simp
    | panic p => simp

theorem addIndex_lt (ind : List Nat) (b n : Nat) (hb : b < n) (h : ∀ i ∈ ind, i < n) : ∀ i ∈ addIndex ind b, i < n := by
  intro i hi
  unfold addIndex at hi
  split at hi
  · exact h i hi
  · rcases List.mem_append.mp hi with h1 | h1
    · exact h i h1
    · simp at h1; omega

/-- phase 1 never divides by zero when k ≤ n, and keeps all indices (and the last bucket) below n -/
theorem chainPhase_spec (H : Hash) (n k : Nat) (hk : k ≤ n) :
    ∀ (s : Nat) (nx : BitVec 32) (last : Nat) (ind : List Nat), (∀ i ∈ ind, i < n) → (n = 0 ∨ last < n) →
      ∃ ind' last', chainPhase H n k s nx last ind = .ok (ind', last') ∧ (∀ i ∈ ind', i < n) ∧ (n = 0 ∨ last' < n) := by
  intro s
  induction s with
  | zero => intro nx last ind h hl; exact ⟨ind, last, rfl, h, hl⟩
  | succ s ih =>
    intro nx last ind h hl
    unfold chainPhase
    by_cases hlen : ind.length ≥ k
    · simp only [hlen, ↓reduceIte]; exact ⟨ind, last, rfl, h, hl⟩
    · simp only [hlen, ↓reduceIte]
      have hn : n ≠ 0 := by omega
      rw [if_neg hn]
      have hb : nx.toNat % n < n := Nat.mod_lt _ (by omega)
      exact ih (H.next nx) (nx.toNat % n) (addIndex ind (nx.toNat % n)) (addIndex_lt ind _ n hb h) (Or.inr hb)

theorem probePhase_spec (n k last : Nat) (hk : k ≤ n) :
    ∀ (s off : Nat) (ind : List Nat), (∀ i ∈ ind, i < n) →
      ∃ ind', probePhase n k last s off ind = .ok ind' ∧ (∀ i ∈ ind', i < n) := by
  intro s
  induction s with
  | zero => intro off ind h; exact ⟨ind, rfl, h⟩
  | succ s ih =>
    intro off ind h
    unfold probePhase
    by_cases hlen : ind.length ≥ k
    · simp only [hlen, ↓reduceIte]; exact ⟨ind, rfl, h⟩
    · simp only [hlen, ↓reduceIte]
      have hn : n ≠ 0 := by omega
      rw [if_neg hn]
      have hb : (last + off) % two32 % n < n := Nat.mod_lt _ (by omega)
      exact ih (off + 1) (addIndex ind _) (addIndex_lt ind _ n hb h)

/-- the repaired bucketIndices is total for EVERY hash function, key and table size, and its indices are in range -/
theorem bucketIndicesNew_spec (c : Cfg) (hk : c.k < two32) (H : Hash) (numBuckets : Nat) (hash : BitVec 64) :
    ∃ ind, bucketIndicesNew c H numBuckets hash = .ok ind ∧ ∀ i ∈ ind, i < numBuckets := by
  unfold bucketIndicesNew
  simp only
  have hk' : (if c.k % two32 > numBuckets % two32 then numBuckets % two32 else c.k) ≤ numBuckets % two32 := by
    split
    · exact Nat.le_refl _
    · rename_i h; rw [Nat.mod_eq_of_lt hk] at h; omega
  obtain ⟨ind1, last1, h1, hlt1, _⟩ := chainPhase_spec H (numBuckets % two32) _ hk' c.maxChain (H.first hash) 0 []
    (by simp) (by omega)
  rw [h1]
  simp only
  obtain ⟨ind2, h2, hlt2⟩ := probePhase_spec (numBuckets % two32) _ last1 hk' (numBuckets % two32 - 1) 1 ind1 hlt1
  refine ⟨ind2, h2, ?_⟩
  intro i hi
  have := hlt2 i hi
  have := Nat.mod_le numBuckets two32
  omega

theorem applyAt_spec (dc : BitVec 32) (key : Key) (h : BitVec 64) :
    ∀ (ind : List Nat) (bs : Array Bucket), (∀ i ∈ ind, i < bs.size) →
      ∃ r, applyAt bs dc key h ind = .ok r ∧ r.size = bs.size := by
  intro ind
  induction ind with
  | nil => intro bs _; exact ⟨bs, rfl, rfl⟩
  | cons i rest ih =>
    intro bs hlt
    have hi : i < bs.size := hlt i (by simp)
    unfold applyAt
    simp only [hi, ↓reduceDIte]
    obtain ⟨r, hr, hs⟩ := ih (bs.set i (bs[i].upd dc key h)) (by intro j hj; simp; exact hlt j (by simp [hj]))
    exact ⟨r, hr, by simpa using hs⟩

theorem insDel_spec (c : Cfg) (hb : c.chainBounded = true) (hk : c.k < two32) (H : Hash) (bs : Array Bucket) (dc : BitVec 32) (key : Key) :
    ∃ r, insDel c H bs dc key = .ok r ∧ r.size = bs.size := by
  unfold insDel bucketIndices
  simp only [hb, ↓reduceIte]
  obtain ⟨ind, hi, hlt⟩ := bucketIndicesNew_spec c hk H bs.size (H.hashKey key)
  rw [hi]
  exact applyAt_spec dc key _ ind bs hlt

/-- what one inner pass does to the decode state -/
structure PassInv (s s' : DState) (upd upd' : Bool) : Prop where
  size : s'.buckets.size = s.buckets.size
  nodup : s.pures.Nodup → s'.pures.Nodup
  mono : s.pures.length ≤ s'.pures.length
  grow : upd = false → upd' = true → s.pures.length < s'.pures.length
  passes : s'.passes = s.passes
  cnt : s'.remaining.length + s'.missing.length + s.pures.length = s.remaining.length + s.missing.length + s'.pures.length

theorem pass_spec (c : Cfg) (hb : c.chainBounded = true) (hk : c.k < two32) (H : Hash) :
    ∀ (t idx : Nat) (s : DState) (upd : Bool), idx + t = s.buckets.size →
      (∃ s' upd', pass c H t idx s upd = .ok (s', upd') ∧ PassInv s s' upd upd') ∨ pass c H t idx s upd = .err "ErrDecodeLoop" := by
  intro t
  induction t with
  | zero =>
    intro idx s upd _
    exact Or.inl ⟨s, upd, rfl, ⟨rfl, id, Nat.le_refl _, fun h1 h2 => by simp_all, rfl, by omega⟩⟩
  | succ t ih =>
    intro idx s upd h
    have hi : idx < s.buckets.size := by omega
    unfold pass
    rw [Array.getElem?_eq_getElem hi]
    simp only
    by_cases hp : isPure H s.buckets[idx] = true
    · simp only [hp, ↓reduceIte]
      by_cases hin : s.pures.contains s.buckets[idx].keySum = true
      · rw [if_pos hin]; exact Or.inr rfl
      · simp only [hin]
        have hnotin : s.buckets[idx].keySum ∉ s.pures := by
          intro hmem; exact hin (List.contains_iff_mem.mpr hmem |> fun h => by simpa using h)
        by_cases hc1 : (s.buckets[idx].count == 1) = true
        · simp only [hc1, ↓reduceIte, Bool.false_eq_true]
          obtain ⟨bs, hbs, hsz⟩ := insDel_spec c hb hk H s.buckets (-1) s.buckets[idx].keySum
          unfold Iblt.delete; rw [hbs]
          simp only
          rcases ih (idx + 1) { s with buckets := bs, pures := s.buckets[idx].keySum :: s.pures, remaining := s.buckets[idx].keySum :: s.remaining } true
              (by simp; omega) with ⟨s', upd', hs', inv⟩ | herr
          · refine Or.inl ⟨s', upd', hs', ⟨?_, ?_, ?_, ?_, ?_, ?_⟩⟩
            · rw [inv.size]; exact hsz
            · intro hnd; exact inv.nodup (List.nodup_cons.mpr ⟨hnotin, hnd⟩)
            · have := inv.mono; simp at this; omega
            · intro _ _; have := inv.mono; simp at this; omega
            · exact inv.passes
            · have := inv.cnt; simp at this; omega
          · exact Or.inr herr
        · simp only [hc1, ↓reduceIte, Bool.false_eq_true]
          obtain ⟨bs, hbs, hsz⟩ := insDel_spec c hb hk H s.buckets 1 s.buckets[idx].keySum
          unfold Iblt.insert; rw [hbs]
          simp only
          rcases ih (idx + 1) { s with buckets := bs, pures := s.buckets[idx].keySum :: s.pures, missing := s.buckets[idx].keySum :: s.missing } true
              (by simp; omega) with ⟨s', upd', hs', inv⟩ | herr
          · refine Or.inl ⟨s', upd', hs', ⟨?_, ?_, ?_, ?_, ?_, ?_⟩⟩
            · rw [inv.size]; exact hsz
            · intro hnd; exact inv.nodup (List.nodup_cons.mpr ⟨hnotin, hnd⟩)
            · have := inv.mono; simp at this; omega
            · intro _ _; have := inv.mono; simp at this; omega
            · exact inv.passes
            · have := inv.cnt; simp at this; omega
          · exact Or.inr herr
    · simp only [hp, Bool.false_eq_true, ↓reduceIte]
      exact ih (idx + 1) s upd (by omega)

/-! ## Decode terminates -/

/-- a decode state result is never a panic and the loop returns: for any fuel that exceeds the number of keys not yet peeled -/
theorem decodeLoop_terminates (c : Cfg) (hb : c.chainBounded = true) (hk : c.k < two32) (H : Hash) :
    ∀ (fuel : Nat) (s : DState), s.pures.Nodup → fuel + s.pures.length > keySpace →
      ∃ r, decodeLoop c H fuel s = some r ∧ ∀ p, r ≠ .panic p := by
  intro fuel
  induction fuel with
  | zero =>
    intro s hnd hf
    have := nodup_keys_length_le s.pures hnd
    omega
  | succ f ih =>
    intro s hnd hf
    unfold decodeLoop
    rcases pass_spec c hb hk H s.buckets.size 0 s false (by simp) with ⟨s', upd', hs', inv⟩ | herr
    · rw [hs']
      cases upd' with
      | true =>
        simp only
        have hgrow := inv.grow rfl rfl
        exact ih { s' with passes := s'.passes + 1 } (inv.nodup hnd) (by simp; omega)
      | false =>
        simp only
        refine ⟨_, rfl, ?_⟩
        intro p; split <;> simp
    · rw [herr]; exact ⟨_, rfl, by simp⟩

/-- more fuel never changes the result: the value of Decode is well defined -/
theorem decodeLoop_fuel_mono (c : Cfg) (H : Hash) :
    ∀ (f : Nat) (s : DState) (r : Res DState), decodeLoop c H f s = some r → ∀ g, f ≤ g → decodeLoop c H g s = some r := by
  intro f
  induction f with
  | zero => intro s r h; simp [decodeLoop] at h
  | succ f ih =>
    intro s r h g hg
    obtain ⟨g', rfl⟩ : ∃ g', g = g' + 1 := ⟨g - 1, by omega⟩
    unfold decodeLoop at h ⊢
    split at h
    · exact ih _ _ h g' (by omega)
    · exact h
    · exact h
    · exact h

theorem decode_spec (c : Cfg) (hb : c.chainBounded = true) (hk : c.k < two32) (H : Hash) (bs : Array Bucket) :
    ∃ r, decode c H bs = some r ∧ ∀ p, r ≠ .panic p := by
  unfold decode
  exact decodeLoop_terminates c hb hk H (keySpace + 1) (DState.init bs) (by simp [DState.init]) (by simp [DState.init])

/-- the number of passes of Decode is at most the number of keys it peeled, plus one -/
theorem decodeLoop_pass_bound (c : Cfg) (hb : c.chainBounded = true) (hk : c.k < two32) (H : Hash) :
    ∀ (fuel : Nat) (s r : DState), decodeLoop c H fuel s = some (.ok r) → s.passes ≤ s.pures.length →
      s.pures.length = s.remaining.length + s.missing.length →
      r.passes ≤ r.remaining.length + r.missing.length + 1 := by
  intro fuel
  induction fuel with
  | zero => intro s r h; simp [decodeLoop] at h
  | succ f ih =>
    intro s r h hp hc
    unfold decodeLoop at h
    rcases pass_spec c hb hk H s.buckets.size 0 s false (by simp) with ⟨s', upd', hs', inv⟩ | herr
    · rw [hs'] at h
      have hcnt := inv.cnt
      have hpass := inv.passes
      cases upd' with
      | true =>
        simp only at h
        have hgrow := inv.grow rfl rfl
        exact ih _ r h (by simp; omega) (by simp; omega)
      | false =>
        simp only at h
        have hmono := inv.mono
        split at h
        · simp at h; subst h; simp; omega
        · simp at h
    · rw [herr] at h; simp at h

/-! ## witnesses: the unbounded chain of the unrepaired source -/

/-- the 32-bit chain of murmur3 (seed 1) has a fixed point, a 2-cycle and a 3-cycle -/
theorem murmur_cycles :
    Murmur.hash.next 4101757383 = 4101757383 ∧
    Murmur.hash.next 2381736504 = 3264639879 ∧ Murmur.hash.next 3264639879 = 2381736504 ∧
    Murmur.hash.next 1532747441 = 4107318918 ∧ Murmur.hash.next 4107318918 = 2685067771 ∧
    Murmur.hash.next 2685067771 = 1532747441 := by decide

theorem addIndex_mem (ind : List Nat) (b : Nat) (h : b ∈ ind) : addIndex ind b = ind := by
  unfold addIndex
  have : ind.contains b = true := by simpa using h
  rw [if_pos this]

/-- on a fixed point of the chain the loop of the unrepaired bucketIndices never exits (k ≥ 2) -/
theorem chainOld_fixed_point_hangs (H : Hash) (n k : Nat) (hn : n ≠ 0) (hk : 2 ≤ k) (x : BitVec 32) (hx : H.next x = x) :
    ∀ fuel, chainOld H n k fuel x [x.toNat % n] = none := by
  intro fuel
  induction fuel with
  | zero => unfold chainOld; simp; omega
  | succ f ih =>
    unfold chainOld
    have h1 : ¬ ([x.toNat % n].length ≥ k) := by simp; omega
    rw [if_neg h1, if_neg hn, hx, addIndex_mem _ _ (by simp)]
    exact ih

theorem chainOld_fixed_point_hangs' (H : Hash) (n k : Nat) (hn : n ≠ 0) (hk : 2 ≤ k) (x : BitVec 32) (hx : H.next x = x) :
    ∀ fuel, chainOld H n k fuel x [] = none := by
  intro fuel
  cases fuel with
  | zero => unfold chainOld; simp; omega
  | succ f =>
    unfold chainOld
    have h1 : ¬ (([] : List Nat).length ≥ k) := by simp; omega
    rw [if_neg h1, if_neg hn, hx]
    have : addIndex [] (x.toNat % n) = [x.toNat % n] := by simp [addIndex]
    rw [this]
    exact chainOld_fixed_point_hangs H n k hn hk x hx f

theorem addIndex_nodup (ind : List Nat) (b : Nat) (h : ind.Nodup) : (addIndex ind b).Nodup := by
  unfold addIndex
  split
  · exact h
  · rename_i hc
    have hb : b ∉ ind := by intro hm; exact hc (by simpa using hm)
    rw [List.nodup_append]
    refine ⟨h, by simp, ?_⟩
    intro a ha c hc'
    simp at hc'
    subst hc'
    intro heq; subst heq; exact hb ha

theorem addIndex_lt' (ind : List Nat) (b n : Nat) (hb : b < n) (h : ∀ i ∈ ind, i < n) : ∀ i ∈ addIndex ind b, i < n := by
  intro i hi
  unfold addIndex at hi
  split at hi
  · exact h i hi
  · rcases List.mem_append.mp hi with h1 | h1
    · exact h i h1
    · simp at h1; omega

/-- with fewer buckets than k the loop of the unrepaired bucketIndices never exits, whatever the hash function -/
theorem chainOld_small_table_hangs (H : Hash) (n k : Nat) (hn : n ≠ 0) (hk : n < k) :
    ∀ fuel nx ind, ind.Nodup → (∀ i ∈ ind, i < n) → chainOld H n k fuel nx ind = none := by
  intro fuel
  induction fuel with
  | zero =>
    intro nx ind hnd hlt
    have := nodup_lt_length_le n ind hnd hlt
    unfold chainOld
    have h1 : ¬ (ind.length ≥ k) := by omega
    rw [if_neg h1]
  | succ f ih =>
    intro nx ind hnd hlt
    have := nodup_lt_length_le n ind hnd hlt
    unfold chainOld
    have h1 : ¬ (ind.length ≥ k) := by omega
    rw [if_neg h1, if_neg hn]
    exact ih _ _ (addIndex_nodup _ _ hnd) (addIndex_lt' _ _ n (Nat.mod_lt _ (by omega)) hlt)

/-- with 0 buckets the unrepaired loop divides by zero as soon as it runs (k > 0) -/
theorem chainOld_zero_buckets_panics (H : Hash) (k : Nat) (hk : 0 < k) (fuel : Nat) (nx : BitVec 32) :
    chainOld H 0 k (fuel + 1) nx [] = some (.panic "bucketIndices:next % numBuckets") := by
  unfold chainOld
  have h1 : ¬ (([] : List Nat).length ≥ k) := by simp; omega
  rw [if_neg h1]; simp


theorem addIndex_length_le (ind : List Nat) (b : Nat) : (addIndex ind b).length ≤ ind.length + 1 := by
  unfold addIndex; split <;> simp

theorem addIndex_mem_self (ind : List Nat) (b : Nat) : b ∈ addIndex ind b := by
  unfold addIndex
  split
  · rename_i h; simpa using h
  · simp

theorem addIndex_subset (ind : List Nat) (b x : Nat) (h : x ∈ ind) : x ∈ addIndex ind b := by
  unfold addIndex; split
  · exact h
  · simp [h]

/-- phase 1 keeps the list duplicate-free and at most k long; if it made a step, the last bucket is in the list -/
theorem chainPhase_card (H : Hash) (n k : Nat) (hk : k ≤ n) :
    ∀ (s : Nat) (nx : BitVec 32) (last : Nat) (ind : List Nat), ind.Nodup → ind.length ≤ k → (ind = [] ∨ last ∈ ind) →
      ∀ ind' last', chainPhase H n k s nx last ind = .ok (ind', last') →
        ind'.Nodup ∧ ind'.length ≤ k ∧ (ind' = [] ∨ last' ∈ ind') ∧ (0 < s → 0 < k → ind' ≠ []) := by
  intro s
  induction s with
  | zero =>
    intro nx last ind hnd hlen hl ind' last' h
    simp [chainPhase] at h
    obtain ⟨rfl, rfl⟩ := h
    exact ⟨hnd, hlen, hl, by omega⟩
  | succ s ih =>
    intro nx last ind hnd hlen hl ind' last' h
    unfold chainPhase at h
    by_cases hge : ind.length ≥ k
    · rw [if_pos hge] at h
      simp at h
      obtain ⟨rfl, rfl⟩ := h
      refine ⟨hnd, hlen, hl, ?_⟩
      intro _ hk0 hempty; subst hempty; simp at hge; omega
    · rw [if_neg hge] at h
      have hn : n ≠ 0 := by omega
      rw [if_neg hn] at h
      have hlen' : (addIndex ind (nx.toNat % n)).length ≤ k := by
        have := addIndex_length_le ind (nx.toNat % n); omega
      obtain ⟨h1, h2, h3, _⟩ := ih (H.next nx) (nx.toNat % n) (addIndex ind (nx.toNat % n)) (addIndex_nodup _ _ hnd) hlen'
        (Or.inr (addIndex_mem_self _ _)) ind' last' h
      refine ⟨h1, h2, h3, ?_⟩
      intro _ _ hempty
      rcases h3 with h3 | h3
      · -- ind' = [] is impossible: the list only grows
        have hsub : ∀ x ∈ addIndex ind (nx.toNat % n), x ∈ ind' := chainPhase_mono H n k s _ _ _ ind' last' h
        have := hsub _ (addIndex_mem_self ind (nx.toNat % n))
        rw [hempty] at this; simp at this
      · rw [hempty] at h3; simp at h3
where
  chainPhase_mono (H : Hash) (n k : Nat) : ∀ (s : Nat) (nx : BitVec 32) (last : Nat) (ind ind' : List Nat) (last' : Nat),
      chainPhase H n k s nx last ind = .ok (ind', last') → ∀ x ∈ ind, x ∈ ind' := by
    intro s
    induction s with
    | zero => intro nx last ind ind' last' h; simp [chainPhase] at h; obtain ⟨rfl, rfl⟩ := h; exact fun x hx => hx
    | succ s ih =>
      intro nx last ind ind' last' h
      unfold chainPhase at h
      split at h
      · simp at h; obtain ⟨rfl, rfl⟩ := h; exact fun x hx => hx
      · split at h
        · simp at h
        · intro x hx; exact ih _ _ _ _ _ h x (addIndex_subset _ _ _ hx)

/-- phase 2 keeps the list duplicate-free and at most k long, and records which offsets it has tried -/
theorem probePhase_card (n k last : Nat) (hk : k ≤ n) :
    ∀ (s off : Nat) (ind : List Nat), ind.Nodup → ind.length ≤ k →
      (∀ o, 1 ≤ o → o < off → ((last + o) % two32) % n ∈ ind) →
      ∀ ind', probePhase n k last s off ind = .ok ind' →
        ind'.Nodup ∧ ind'.length ≤ k ∧ (∀ x ∈ ind, x ∈ ind') ∧
        (k ≤ ind'.length ∨ ∀ o, 1 ≤ o → o < off + s → ((last + o) % two32) % n ∈ ind') := by
  intro s
  induction s with
  | zero =>
    intro off ind hnd hlen hoff ind' h
    simp [probePhase] at h; subst h
    exact ⟨hnd, hlen, fun x hx => hx, Or.inr (by simpa using hoff)⟩
  | succ s ih =>
    intro off ind hnd hlen hoff ind' h
    unfold probePhase at h
    by_cases hge : ind.length ≥ k
    · rw [if_pos hge] at h; simp at h; subst h
      exact ⟨hnd, hlen, fun x hx => hx, Or.inl hge⟩
    · rw [if_neg hge] at h
      have hn : n ≠ 0 := by omega
      rw [if_neg hn] at h
      have hlen' : (addIndex ind (((last + off) % two32) % n)).length ≤ k := by
        have := addIndex_length_le ind (((last + off) % two32) % n); omega
      have hoff' : ∀ o, 1 ≤ o → o < off + 1 → ((last + o) % two32) % n ∈ addIndex ind (((last + off) % two32) % n) := by
        intro o h1 h2
        by_cases ho : o = off
        · subst ho; exact addIndex_mem_self _ _
        · exact addIndex_subset _ _ _ (hoff o h1 (by omega))
      obtain ⟨h1, h2, h3, h4⟩ := ih (off + 1) _ (addIndex_nodup _ _ hnd) hlen' hoff' ind' h
      refine ⟨h1, h2, fun x hx => h3 x (addIndex_subset _ _ _ hx), ?_⟩
      rcases h4 with h4 | h4
      · exact Or.inl h4
      · right; intro o ho1 ho2; exact h4 o ho1 (by omega)

/-- every residue other than `last` is reached by one of the offsets 1 … n-1 -/
theorem residue_reached (n last r : Nat) (hl : last < n) (hr : r < n) (hne : r ≠ last) (h31 : n ≤ 2147483648) :
    ∃ o, 1 ≤ o ∧ o < n ∧ ((last + o) % two32) % n = r := by
  by_cases hge : r > last
  · refine ⟨r - last, by omega, by omega, ?_⟩
    have : last + (r - last) = r := by omega
    have e1 : r % two32 = r := Nat.mod_eq_of_lt (by unfold two32; omega)
    rw [this, e1, Nat.mod_eq_of_lt hr]
  · refine ⟨r + n - last, by omega, by omega, ?_⟩
    have : last + (r + n - last) = r + n := by omega
    have e2 : (r + n) % two32 = r + n := Nat.mod_eq_of_lt (by unfold two32; omega)
    rw [this, e2, Nat.add_mod_right, Nat.mod_eq_of_lt hr]

/-- the repaired bucketIndices returns EXACTLY min(k, numBuckets) DISTINCT bucket indices — what Insert/Delete need — for
    every hash function (numBuckets < 2^31, at least one chain step) -/
theorem bucketIndicesNew_card (c : Cfg) (hk : c.k < two32) (hmc : 0 < c.maxChain) (H : Hash) (numBuckets : Nat)
    (hnb : numBuckets ≤ 2147483648) (hash : BitVec 64) (ind : List Nat)
    (h : bucketIndicesNew c H numBuckets hash = .ok ind) :
    ind.Nodup ∧ ind.length = min c.k numBuckets := by
  unfold bucketIndicesNew at h
  simp only at h
  have hmod : numBuckets % two32 = numBuckets := Nat.mod_eq_of_lt (by unfold two32; omega)
  rw [hmod, Nat.mod_eq_of_lt hk] at h
  generalize hkk : (if c.k > numBuckets then numBuckets else c.k) = k at h
  have hk' : k ≤ numBuckets := by rw [← hkk]; split <;> omega
  have hkmin : k = min c.k numBuckets := by rw [← hkk]; split <;> omega
  obtain ⟨ind1, last1, h1, hlt1, hl1⟩ := chainPhase_spec H numBuckets k hk' c.maxChain (H.first hash) 0 [] (by simp) (by omega)
  rw [h1] at h
  simp only at h
  obtain ⟨hnd1, hlen1, hlast1, hne1⟩ := chainPhase_card H numBuckets k hk' c.maxChain (H.first hash) 0 [] (by simp) (by simp) (Or.inl rfl) ind1 last1 h1
  obtain ⟨hnd, hlen, hsub, hfull⟩ := probePhase_card numBuckets k last1 hk' (numBuckets - 1) 1 ind1 hnd1 hlen1 (by intro o h1 h2; omega) ind h
  refine ⟨hnd, ?_⟩
  rw [← hkmin]
  rcases hfull with hfull | hfull
  · omega
  · -- all offsets tried: every residue is in the list, so it has at least numBuckets ≥ k elements
    by_cases hk0 : k = 0
    · omega
    · have hne : ind1 ≠ [] := hne1 hmc (by omega)
      have hlast_in : last1 ∈ ind1 := by rcases hlast1 with h | h; exact absurd h hne; exact h
      have hn0 : numBuckets ≠ 0 := by omega
      have hlastlt : last1 < numBuckets := by rcases hl1 with h | h; exact absurd h hn0; exact h
      have hall : ∀ r ∈ List.range numBuckets, r ∈ ind := by
        intro r hr
        have hr' : r < numBuckets := List.mem_range.mp hr
        by_cases hrl : r = last1
        · subst hrl; exact hsub _ hlast_in
        · obtain ⟨o, ho1, ho2, ho3⟩ := residue_reached numBuckets last1 r hlastlt hr' hrl hnb
          rw [← ho3]; exact hfull o ho1 (by omega)
      have := List.Nodup.length_le_of_subset List.nodup_range hall
      simp at this
      omega

end IbltLemmas

section SmallModels

theorem sl_validateSubjects_no_panic (c : StatusList.Cfg) (hg : c.singleSubjectGuard = true) (subs : List StatusList.Subject) :
    ∀ s, StatusList.validateSubjects c subs ≠ .panic s := by
  intro s
  unfold StatusList.validateSubjects
  cases subs with
  | nil => simp [hg]
  | cons a t =>
    simp only [hg, Bool.true_and]
    repeat' split
    all_goals simp

theorem sl_validate_no_panic (c : StatusList.Cfg) (hg : c.singleSubjectGuard = true) (cr : StatusList.Cred) :
    ∀ s, StatusList.validate c cr ≠ .panic s := by
  intro s
  unfold StatusList.validate
  repeat' split
  all_goals first | exact sl_validateSubjects_no_panic c hg _ s | simp

theorem sl_expiry_no_panic (c : StatusList.Cfg) (h2 : c.expirationNilGuard = true) (e : Option Bool) (r : StatusList.Record) :
    ∀ s, StatusList.expiry c e r ≠ .panic s := by
  intro s; unfold StatusList.expiry; cases e <;> simp [h2]

theorem sl_update_no_panic (c : StatusList.Cfg) (h1 : c.singleSubjectGuard = true) (h2 : c.expirationNilGuard = true)
    (url : String) (d : Option StatusList.Cred) (ex : String → Option (List Nat)) (sig : Bool) :
    ∀ s, StatusList.update c url d ex sig ≠ .panic s := by
  intro s
  unfold StatusList.update
  repeat' split
  all_goals first
    | exact sl_expiry_no_panic c h2 _ _ s
    | (exact absurd ‹_› (sl_validate_no_panic c h1 _ _))
    | simp

theorem sl_verifyEntries_no_panic (l : List StatusList.Entry) : ∀ s, StatusList.verifyEntries l ≠ .panic s := by
  intro s
  induction l with
  | nil => simp [StatusList.verifyEntries]
  | cons e rest ih =>
    unfold StatusList.verifyEntries
    repeat' split
    all_goals first | exact ih | (exact absurd ‹_› (bit_no_panic _ _ _)) | simp

/-- update returns a record only after download, validate, expand, the signature check and the subject-id check all
    succeeded: a rejected credential produces nothing to store -/
theorem sl_update_ok_checked (c : StatusList.Cfg) (url : String) (d : Option StatusList.Cred) (ex : String → Option (List Nat)) (sig : Bool) (r : StatusList.Record)
    (h : StatusList.update c url d ex sig = .ok r) :
    ∃ cr subj bits, d = some cr ∧ StatusList.validate c cr = .ok subj ∧ ex subj.encodedList = some bits ∧ sig = true ∧ url = subj.id := by
  unfold StatusList.update at h
  split at h
  · simp at h
  · rename_i cr
    split at h
    · simp at h
    · simp at h
    · rename_i subj hv
      split at h
      · simp at h
      · rename_i bits hex
        split at h
        · simp at h
        · rename_i hsig
          split at h
          · simp at h
          · rename_i hurl
            exact ⟨cr, subj, bits, rfl, hv, hex, by simpa using hsig, by simpa using hurl⟩

theorem didkey_codec_no_panic (i : DidKey.In) (kt : Nat) : ∀ s, DidKey.codecCheck i kt ≠ .panic s := by
  intro s
  unfold DidKey.codecCheck
  simp only
  repeat' split
  all_goals simp

theorem didkey_decode_no_panic (i : DidKey.In) : ∀ s, DidKey.decode i ≠ .panic s := by
  intro s
  unfold DidKey.decode
  repeat' split
  all_goals first | exact didkey_codec_no_panic i _ s | simp

theorem didkey_no_panic (c : DidKey.Cfg) (hg : c.emptyGuard = true) (i : DidKey.In) : ∀ s, DidKey.resolve c i ≠ .panic s := by
  intro s
  unfold DidKey.resolve
  repeat' split
  all_goals first | exact didkey_decode_no_panic i s | (exact absurd hg ‹_›) | simp

end SmallModels

end Nuts.C19.Lemmas
