import NutsModel.C06.Late
import NutsProofs.Lemmas.C06
/-! C06 — lemmas for NutsModel/C06/Late.lean (payloadEvents shelf, handleTransactionPayload / WritePayload, state.Verify) -/
namespace Nuts.C06.Late
open Nuts Nuts.C06

theorem writeBody_txs {env : Env} {subs : List Sub} {s w : St} {tx : Tx} {p : Option Nat}
    (h : writeBody env subs s tx p = .ok w) : w.txs = tx :: s.txs := by
  unfold writeBody at h
  split at h
  · rename_i w1 hw1
    split at h
    · rename_i w2 hw2
      simp only [Res.ok.injEq] at h
      obtain ⟨_, a2, _⟩ := writePayloadStep_spec hw1
      obtain ⟨_, b2⟩ := graphAdd_spec hw2
      subst h; subst b2
      simp [finishWrite, a2]
    · cases h
    · cases h
  · cases h
  · cases h

theorem addP_st (env : Env) (subs : List Sub) (sp : StP) (tx : Tx) (p : Option Nat) :
    (addP env subs sp tx p).1.st = (add env subs sp.st tx p).1 ∧ (addP env subs sp tx p).2 = (add env subs sp.st tx p).2 := by
  unfold addP add
  cases hph : phase1 env sp.st tx
  case verified =>
    simp only []
    unfold phase2P phase2 writeBodyP
    split
    · exact ⟨rfl, rfl⟩
    · cases hw : writeBody env subs sp.st tx p <;> simp
  all_goals exact ⟨rfl, rfl⟩

theorem afterCommit_txs (subs : List Sub) (w : St) (tx : Tx) (p : Option Nat) : (afterCommit subs w tx p).txs = w.txs := by
  unfold afterCommit; rfl

theorem cons_ne_self {α : Type} (a : α) (l : List α) : l ≠ a :: l := by
  intro h
  have := congrArg List.length h
  simp at this

/-- `Add` on the extended state: nothing changes at all, or the transaction is admitted (as `Admitted` spells out) and the
    marker is set exactly when a payload came with it -/
theorem addP_cases (env : Env) (subs : List Sub) (sp : StP) (tx : Tx) (p : Option Nat) :
    (addP env subs sp tx p).1 = sp ∨
    ((addP env subs sp tx p).2 = .ok () ∧ Admitted env sp.st tx p (addP env subs sp tx p).1.st ∧
     (addP env subs sp tx p).1.pev = if p.isSome then markPayloadEventSaved sp.pev tx.ref else sp.pev) := by
  have hst := addP_st env subs sp tx p
  have hc := @add_cases env subs sp.st tx p
  rw [← hst.1, ← hst.2] at hc
  unfold addP at hc ⊢
  cases hph : phase1 env sp.st tx
  case verified =>
    simp only [hph] at hc ⊢
    unfold phase2P writeBodyP at hc ⊢
    split
    · exact Or.inl rfl
    · rename_i hpres
      simp only [hpres, Bool.false_eq_true, if_false] at hc
      cases hw : writeBody env subs sp.st tx p with
      | ok w =>
        simp only [hw] at hc ⊢
        refine Or.inr ?_
        rcases hc with hc | hc
        · exfalso
          have h1 := congrArg St.txs hc
          simp only [afterCommit_txs, writeBody_txs hw] at h1
          exact cons_ne_self _ _ h1.symm
        · exact ⟨trivial, hc.2, trivial⟩
      | err e => exact Or.inl rfl
      | panic e => exact Or.inl rfl
  all_goals exact Or.inl rfl

theorem mark_contains (pev : List Nat) (r : Nat) : isPayloadEventSaved (markPayloadEventSaved pev r) r = true := by
  unfold isPayloadEventSaved markPayloadEventSaved
  split
  · assumption
  · simp

theorem mem_mark {pev : List Nat} {r x : Nat} (h : x ∈ markPayloadEventSaved pev r) : x ∈ pev ∨ x = r := by
  unfold markPayloadEventSaved at h
  split at h
  · exact Or.inl h
  · cases h with
    | head => exact Or.inr rfl
    | tail _ h => exact Or.inl h

theorem writePayload_txs (subs : List Sub) (sp : StP) (tx : Tx) (h p : Nat) : (writePayload subs sp tx h p).st.txs = sp.st.txs := by
  unfold writePayload
  split <;> rfl

theorem writePayload_marked (subs : List Sub) (sp : StP) (tx : Tx) (h p : Nat) :
    isPayloadEventSaved (writePayload subs sp tx h p).pev tx.ref = true := by
  unfold writePayload
  split
  · assumption
  · exact mark_contains _ _

/-- a late payload that was accepted: the ref is not empty, the transaction is stored and declares the hash of the data,
    the stored transactions are the same, and the marker of that transaction is set afterwards -/
theorem handlePayload_ok {env : Env} {subs : List Sub} {sp : StP} {ref : Nat} {d : Option Nat}
    (h : (handlePayload env subs sp ref d).2 = "ok") :
    ref ≠ 0 ∧ (∃ p tx, d = some p ∧ sp.st.find ref = some tx ∧ env.sha p = tx.payloadHash) ∧
    (handlePayload env subs sp ref d).1.st.txs = sp.st.txs ∧
    isPayloadEventSaved (handlePayload env subs sp ref d).1.pev ref = true := by
  unfold handlePayload at h ⊢
  split at h
  · simp at h
  · rename_i hr
    split at h
    · simp at h
    · rename_i p
      split at h
      · simp at h
      · rename_i tx hf
        split at h
        · simp at h
        · rename_i hs
          simp only [hr, hf, hs, if_false]
          have href : tx.ref = ref := (findTx_some_ref hf).1
          refine ⟨hr, ⟨p, tx, rfl, rfl, by simpa using hs⟩, writePayload_txs _ _ _ _ _, ?_⟩
          rw [← href]; exact writePayload_marked _ _ _ _ _

/-- whatever arrives for a transaction whose marker is set changes nothing -/
theorem handlePayload_marked {env : Env} {subs : List Sub} {sp : StP} {ref : Nat}
    (hm : isPayloadEventSaved sp.pev ref = true) (d : Option Nat) : (handlePayload env subs sp ref d).1 = sp := by
  unfold handlePayload
  split
  · rfl
  · split
    · rfl
    · split
      · rfl
      · rename_i tx hf
        split
        · rfl
        · have href : tx.ref = ref := (findTx_some_ref hf).1
          simp only [writePayload, href, hm, if_true]


/-! ### invariant of the `payloadEvents` shelf over all histories -/

/-- every marker belongs to a stored transaction whose payload is in the payload store -/
def PevInv (sp : StP) : Prop :=
  ∀ r ∈ sp.pev, ∃ tx, sp.st.find r = some tx ∧ ∃ q ∈ sp.st.payloads, q.1 = tx.payloadHash

theorem putPayload_keeps_key {pls : List (Nat × Nat)} {q : Nat × Nat} (hq : q ∈ pls) (h : Nat) (p : Option Nat) :
    ∃ q' ∈ putPayload pls h p, q'.1 = q.1 := by
  cases p with
  | none => exact ⟨q, hq, rfl⟩
  | some v =>
    unfold putPayload
    by_cases hk : q.1 = h
    · exact ⟨(h, v), List.mem_cons_self, hk.symm⟩
    · exact ⟨q, List.mem_cons_of_mem _ (List.mem_filter.mpr ⟨hq, by simpa using hk⟩), rfl⟩

theorem putPayload_has_key (pls : List (Nat × Nat)) (h v : Nat) : ∃ q ∈ putPayload pls h (some v), q.1 = h :=
  ⟨(h, v), by unfold putPayload; exact List.mem_cons_self, rfl⟩

theorem pevInv_addP {env : Env} {subs : List Sub} {sp : StP} (hi : PevInv sp) (tx : Tx) (p : Option Nat) :
    PevInv (addP env subs sp tx p).1 := by
  rcases addP_cases env subs sp tx p with h | ⟨_, had, hpev⟩
  · rw [h]; exact hi
  · intro r hr
    rw [hpev] at hr
    have hfind : ∀ x, (addP env subs sp tx p).1.st.find x = if tx.ref = x then some tx else sp.st.find x := by
      intro x
      unfold St.find findTx
      rw [had.txs, List.find?_cons]
      by_cases hx : tx.ref = x <;> simp [hx]
    have old : r ∈ sp.pev → ∃ t, (addP env subs sp tx p).1.st.find r = some t ∧ ∃ q ∈ (addP env subs sp tx p).1.st.payloads, q.1 = t.payloadHash := by
      intro hr0
      obtain ⟨t, ht, q, hq, hqk⟩ := hi r hr0
      have hne : tx.ref ≠ r := by
        intro he
        have := (findTx_some_ref ht)
        apply had.fresh
        unfold refsOf
        exact List.mem_map.mpr ⟨t, this.2, by rw [this.1, he]⟩
      refine ⟨t, by rw [hfind, if_neg hne]; exact ht, ?_⟩
      rw [had.payloads]
      obtain ⟨q', hq', hk'⟩ := putPayload_keeps_key hq tx.payloadHash p
      exact ⟨q', hq', hk'.trans hqk⟩
    split at hr
    · rename_i hsome
      rcases mem_mark hr with h0 | h0
      · exact old h0
      · subst h0
        refine ⟨tx, by rw [hfind, if_pos rfl], ?_⟩
        rw [had.payloads]
        cases p with
        | none => simp at hsome
        | some v => exact putPayload_has_key _ _ _
    · exact old hr

theorem find_congr {a b : St} (h : a.txs = b.txs) (x : Nat) : a.find x = b.find x := by
  unfold St.find; rw [h]

theorem pevInv_handlePayload {env : Env} {subs : List Sub} {sp : StP} (hi : PevInv sp) (ref : Nat) (d : Option Nat) :
    PevInv (handlePayload env subs sp ref d).1 := by
  unfold handlePayload
  split
  · exact hi
  · split
    · exact hi
    · rename_i p
      split
      · exact hi
      · rename_i tx hf
        split
        · exact hi
        · rename_i hs
          have hs' : env.sha p = tx.payloadHash := by simpa using hs
          unfold writePayload
          split
          · exact hi
          · intro r hr
            simp only at hr ⊢
            rcases mem_mark hr with h0 | h0
            · obtain ⟨t, ht, q, hq, hqk⟩ := hi r h0
              obtain ⟨q', hq', hk'⟩ := putPayload_keeps_key hq (env.sha p) (some p)
              exact ⟨t, (find_congr (b := sp.st) rfl r).trans ht, q', hq', hk'.trans hqk⟩
            · have href : tx.ref = ref := (findTx_some_ref hf).1
              refine ⟨tx, (find_congr (b := sp.st) rfl r).trans (by rw [h0, href]; exact hf), ?_⟩
              rw [← hs']
              exact putPayload_has_key _ _ _

theorem pevInv_run (cfg : Cfg) (b64 : String → Bool) (env : Env) (subs : List Sub) :
    ∀ (ops : List Op) (sp : StP), PevInv sp → PevInv (runOps cfg b64 env subs sp ops) := by
  intro ops
  induction ops with
  | nil => intro sp h; exact h
  | cons o rest ih =>
    intro sp h
    unfold runOps
    rw [List.foldl_cons]
    apply ih
    cases o with
    | offer hd pl =>
      cases hp : parse cfg b64 hd <;> simp only [stepOp, hp]
      · exact pevInv_addP h _ _
      · exact h
      · exact h
    | late ref d => simp only [stepOp]; exact pevInv_handlePayload h ref d

/-! ### `state.Verify` -/

theorem highest_cons_fresh {l : List Tx} {t' : Tx} (hf : t'.ref ∉ refsOf l) :
    ∀ {ps : List Nat} {h v : Int}, highest l ps h = .ok v → highest (t' :: l) ps h = .ok v := by
  intro ps
  induction ps with
  | nil => intro h v hh; simpa [highest] using hh
  | cons p ps ih =>
    intro h v hh
    unfold highest at hh ⊢
    split at hh
    · cases hh
    · rename_i t ht
      have hp : p ∈ refsOf l := by
        have := findTx_some_ref ht
        unfold refsOf; exact List.mem_map.mpr ⟨t, this.2, this.1⟩
      have hne : t'.ref ≠ p := fun he => hf (he ▸ hp)
      have hft : findTx (t' :: l) p = some t := by
        unfold findTx at ht ⊢
        rw [List.find?_cons]
        simp [hne, ht]
      rw [hft]
      exact ih hh

theorem verifyPrevs_cons_fresh {l : List Tx} {t' t : Tx} (hf : t'.ref ∉ refsOf l) (h : verifyPrevs l t = .ok ()) :
    verifyPrevs (t' :: l) t = .ok () := by
  unfold verifyPrevs at h ⊢
  split at h
  · rename_i v hv
    rw [highest_cons_fresh hf hv]
    exact h
  · cases h
  · cases h

/-- in a reachable store every stored transaction passes the prevs verifier against the WHOLE store (not only against the
    part that was there when it was admitted) -/
theorem chain_verifyPrevs {env : Env} : ∀ {l : List Tx}, ChainOK env l → ∀ t ∈ l, verifyPrevs l t = .ok () := by
  intro l
  induction l with
  | nil => intro _ t ht; cases ht
  | cons t' rest ih =>
    intro h t ht
    cases ht with
    | head => exact verifyPrevs_cons_fresh h.2.1 h.2.2.1
    | tail _ ht => exact verifyPrevs_cons_fresh h.2.1 (ih h.1 t ht)

theorem verifyEach_ok_iff {env : Env} {s : St} : ∀ {scan : List Tx},
    verifyEach env s scan = .ok () ↔ ∀ t ∈ scan, verify env s t = .ok () := by
  intro scan
  induction scan with
  | nil => simp [verifyEach]
  | cons t rest ih =>
    unfold verifyEach
    constructor
    · intro h
      split at h
      · rename_i u hu
        cases u
        intro x hx
        cases hx with
        | head => exact hu
        | tail _ hx => exact (ih.mp h) x hx
      · cases h
      · cases h
    · intro h
      have h1 := h t List.mem_cons_self
      rw [h1]
      exact ih.mpr (fun x hx => h x (List.mem_cons_of_mem _ hx))

theorem verify_stored {env : Env} {s : St} (hc : ChainOK env s.txs) {t : Tx} (ht : t ∈ s.txs) : verify env s t = .ok () := by
  unfold verify
  rw [chain_verifyPrevs hc t ht]
  exact chain_sig hc t ht

theorem writeBody_count {env : Env} {subs : List Sub} {s w : St} {tx : Tx} {p : Option Nat}
    (h : writeBody env subs s tx p = .ok w) : w.count = s.count + 1 := by
  unfold writeBody at h
  split at h
  · rename_i w1 hw1
    split at h
    · rename_i w2 hw2
      simp only [Res.ok.injEq] at h
      have b := (graphAdd_spec hw2).2
      have c1 : w1.count = s.count := by
        unfold writePayloadStep at hw1
        split at hw1
        · simp only [Res.ok.injEq] at hw1; rw [← hw1]
        · split at hw1
          · cases hw1
          · simp only [Res.ok.injEq] at hw1; rw [← hw1]
      rw [← h, b]; unfold finishWrite; simp [c1]
    · cases h
    · cases h
  · cases h
  · cases h


end Nuts.C06.Late
