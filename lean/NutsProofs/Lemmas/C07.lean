/-
  Helper lemmas shared by C07 and C15 about the protocol model: chunking and the shape of handler outputs.
-/
import NutsModel.C07.Net
import NutsProofs.Lemmas.Sort
open Nuts.Proto Nuts

namespace Nuts.Proto.L

def chunkFlat (st : List (List NetTx) × List NetTx × Nat) : List NetTx := st.1.reverse.flatten ++ st.2.1.reverse

theorem chunkStep_flat (cfg : Cfg) (st : List (List NetTx) × List NetTx × Nat) (t : NetTx) :
    chunkFlat (chunkStep cfg st t) = chunkFlat st ++ [t] := by
  obtain ⟨done, cur, size⟩ := st
  unfold chunkStep chunkFlat
  simp only
  split <;> simp

theorem chunk_fold_flat (cfg : Cfg) : ∀ (l : List NetTx) (st : List (List NetTx) × List NetTx × Nat),
    chunkFlat (l.foldl (chunkStep cfg) st) = chunkFlat st ++ l := by
  intro l
  induction l with
  | nil => intro st; simp
  | cons t ts ih => intro st; simp [List.foldl_cons, ih, chunkStep_flat]

theorem chunks_flatten (cfg : Cfg) (l : List NetTx) : (chunkTransactionList cfg l).flatten = l := by
  have h := chunk_fold_flat cfg l ([], [], 0)
  unfold chunkTransactionList
  generalize l.foldl (chunkStep cfg) ([], [], 0) = st at h
  obtain ⟨done, cur, size⟩ := st
  simp only [chunkFlat] at h
  simp only
  split
  · rename_i hc
    have : cur = [] := by simpa using hc
    subst this
    simpa using h
  · simpa using h

theorem numberChunks_mem (cid : Cid) (total : Nat) : ∀ (chunks : List (List NetTx)) (i : Nat) (m : Msg),
    m ∈ numberChunks cid total i chunks → ∃ k c, m = .txList cid k total c ∧ c ∈ chunks := by
  intro chunks
  induction chunks with
  | nil => intro i m h; simp [numberChunks] at h
  | cons c cs ih =>
    intro i m h
    simp only [numberChunks, List.mem_cons] at h
    rcases h with rfl | h
    · exact ⟨i + 1, c, rfl, List.mem_cons_self⟩
    · obtain ⟨k, c', h1, h2⟩ := ih (i + 1) m h
      exact ⟨k, c', h1, List.mem_cons_of_mem _ h2⟩

/-- every message produced by `sendTransactionList` is a TransactionList for the given conversation whose
    elements all come from the list handed to it -/
theorem sendTransactionList_mem (cfg : Cfg) (peer : Nat) (cid : Cid) (l : List NetTx) (o : Nat × Msg)
    (h : o ∈ sendTransactionList cfg peer cid l) :
    o.1 = peer ∧ ∃ k total c, o.2 = .txList cid k total c ∧ ∀ e ∈ c, e ∈ l := by
  unfold sendTransactionList at h
  simp only [List.mem_map] at h
  obtain ⟨m, hm, rfl⟩ := h
  obtain ⟨k, c, h1, h2⟩ := numberChunks_mem cid _ _ _ m hm
  refine ⟨rfl, k, _, c, h1, fun e he => ?_⟩
  have : e ∈ (chunkTransactionList cfg l).flatten := List.mem_flatten.mpr ⟨c, h2, he⟩
  rwa [chunks_flatten] at this

end Nuts.Proto.L

namespace Nuts.Proto.L

theorem sendRequest_out (cfg : Cfg) (n : Node) (peer : Nat) (data : ConvData) (mk : Cid → Msg) (o : Nat × Msg)
    (h : o ∈ (sendRequest cfg n peer data mk).out) : ∃ cid, o = (peer, mk cid) := by
  unfold sendRequest at h
  split at h
  · cases h
  · rename_i n' cid _
    simp only [List.mem_singleton] at h
    exact ⟨cid, h⟩

/-- kinds of messages that carry no payload bytes at all -/
def isRequest : Msg → Bool
  | .state .. => true | .listQuery .. => true | .rangeQuery .. => true | .payloadQuery .. => true
  | .txSet .. => true | .gossip .. => true
  | _ => false

theorem privateRetry_out (env : Env) (n : Node) (tx : Tx) (o : Nat × Msg) (h : o ∈ privateRetry env n tx) :
    o.2 = .payloadQuery tx.ref := by
  unfold privateRetry at h
  split at h
  · cases h
  · split at h
    · simp only [List.mem_filterMap] at h
      obtain ⟨d, _, hd⟩ := h
      cases hf : firstConn n d with
      | none => simp [hf] at hd
      | some p => simp [hf] at hd; rw [← hd]
    · cases h

theorem notifyPrivate_out (env : Env) (n : Node) (tx : Tx) (o : Nat × Msg) (h : o ∈ notifyPrivate env n tx) :
    o.2 = .payloadQuery tx.ref := by
  unfold notifyPrivate at h
  split at h
  · exact privateRetry_out _ _ _ _ h
  · cases h

theorem addTx_out (cfg : Cfg) (env : Env) (n : Node) (tx : Tx) (pl : Option Payload) (o : Nat × Msg)
    (h : o ∈ (addTx cfg env n tx pl).2.1) : o.2 = .payloadQuery tx.ref := by
  unfold addTx at h
  split at h
  · exact notifyPrivate_out _ _ _ _ h
  · cases h

theorem addLoop_out (cfg : Cfg) (env : Env) : ∀ (l : List (Tx × Option Payload)) (n : Node) (o : Nat × Msg),
    o ∈ (addLoop cfg env n l).out → ∃ r, o.2 = .payloadQuery r := by
  intro l
  induction l with
  | nil => intro n o h; simp [addLoop] at h
  | cons x xs ih =>
    intro n o h
    obtain ⟨tx, pl⟩ := x
    unfold addLoop at h
    split at h
    · cases h
    · split at h
      · rename_i n1 out1 hadd
        simp only [List.mem_append] at h
        rcases h with h | h
        · have := addTx_out cfg env n tx pl o (by rw [hadd]; exact h)
          exact ⟨_, this⟩
        · exact ih n1 o h
      · rename_i n1 _ hadd
        exact ih n1 o h
      · cases h
      · cases h

theorem retryOut_out (env : Env) (n : Node) (txs : List Tx) (o : Nat × Msg) (h : o ∈ retryOut env n txs) :
    ∃ r, o.2 = .payloadQuery r := by
  unfold retryOut at h
  simp only [List.mem_flatMap] at h
  obtain ⟨t, _, ht⟩ := h
  exact ⟨_, privateRetry_out _ _ _ _ ht⟩


/-! ### membership helpers -/

theorem getTx_mem {d : List Tx} {r : Ref} {t : Tx} (h : getTx d r = some t) : t ∈ d :=
  List.mem_of_find?_eq_some h

theorem getTx_ref {d : List Tx} {r : Ref} {t : Tx} (h : getTx d r = some t) : t.ref = r := by
  have := List.find?_some h
  simpa using this

theorem findBetween_mem {d : List Tx} {a b : Nat} {t : Tx} (h : t ∈ findBetween d a b) : t ∈ d := by
  unfold findBetween at h
  have := (sortBy_perm txLt _).mem_iff.mp h
  exact (List.mem_filter.mp this).1

/-- every element of a collected list with a payload is a public transaction of the input, carrying exactly
    what the store holds under its payload hash; private transactions carry nothing -/
theorem collect_elems (n : Node) : ∀ (l : List Tx) (r : List NetTx), collect n l = some r →
    ∀ e ∈ r, ∃ t ∈ l, e.tx = some t ∧
      ((t.pal = [] ∧ e.payload = readPayload n t.payloadHash ∧ e.payload.isSome) ∨ (t.pal ≠ [] ∧ e.payload = none)) := by
  intro l
  induction l with
  | nil => intro r h e he; simp [collect] at h; subst h; cases he
  | cons t ts ih =>
    intro r h e he
    unfold collect at h
    split at h
    · rename_i hp
      split at h
      · cases h
      · rename_i p hrp
        cases hc : collect n ts with
        | none => simp [hc] at h
        | some r' =>
          simp [hc] at h
          subst h
          rcases List.mem_cons.mp he with rfl | he'
          · exact ⟨t, List.mem_cons_self, rfl, Or.inl ⟨by simpa using hp, by simp [hrp], by simp⟩⟩
          · obtain ⟨t', ht', h2⟩ := ih r' hc e he'
            exact ⟨t', List.mem_cons_of_mem _ ht', h2⟩
    · rename_i hp
      cases hc : collect n ts with
      | none => simp [hc] at h
      | some r' =>
        simp [hc] at h
        subst h
        rcases List.mem_cons.mp he with rfl | he'
        · exact ⟨t, List.mem_cons_self, rfl, Or.inr ⟨by simpa using hp, rfl⟩⟩
        · obtain ⟨t', ht', h2⟩ := ih r' hc e he'
          exact ⟨t', List.mem_cons_of_mem _ ht', h2⟩


/-! ### the DAG field is touched only by `addTx` -/

@[simp] theorem sendRequest_dag (cfg : Cfg) (n : Node) (peer : Nat) (data : ConvData) (mk : Cid → Msg) :
    (sendRequest cfg n peer data mk).node.dag = n.dag := by
  unfold sendRequest startConversation
  split
  · rfl
  · rename_i n' cid h
    split at h
    · cases h
    · simp only [Option.some.injEq, Prod.mk.injEq] at h
      obtain ⟨h1, _⟩ := h
      subst h1
      split <;> rfl

@[simp] theorem sendRequest_payloads (cfg : Cfg) (n : Node) (peer : Nat) (data : ConvData) (mk : Cid → Msg) :
    (sendRequest cfg n peer data mk).node.payloads = n.payloads := by
  unfold sendRequest startConversation
  split
  · rfl
  · rename_i n' cid h
    split at h
    · cases h
    · simp only [Option.some.injEq, Prod.mk.injEq] at h
      obtain ⟨h1, _⟩ := h
      subst h1
      split <;> rfl

@[simp] theorem sendState_dag (cfg : Cfg) (n : Node) (peer : Nat) (x : Ref) (c : Nat) : (sendState cfg n peer x c).node.dag = n.dag := by
  unfold sendState; simp
@[simp] theorem sendListQuery_dag (cfg : Cfg) (n : Node) (peer : Nat) (r : List Ref) : (sendListQuery cfg n peer r).node.dag = n.dag := by
  unfold sendListQuery; simp
@[simp] theorem sendRangeQuery_dag (cfg : Cfg) (n : Node) (peer : Nat) (a b : Nat) : (sendRangeQuery cfg n peer a b).node.dag = n.dag := by
  unfold sendRangeQuery; simp
@[simp] theorem convDone_dag (n : Node) (cid : Cid) : (convDone n cid).dag = n.dag := rfl
@[simp] theorem resetTimeout_dag (cfg : Cfg) (n : Node) (cid : Cid) : (resetTimeout cfg n cid).dag = n.dag := rfl
@[simp] theorem gossipReceived_dag (cfg : Cfg) (n : Node) (p : Nat) (r : List Ref) : (gossipReceived cfg n p r).dag = n.dag := rfl
@[simp] theorem transactionRegistered_dag (cfg : Cfg) (n : Node) (r : Ref) : (transactionRegistered cfg n r).dag = n.dag := rfl
@[simp] theorem evict_dag (n : Node) : (evict n).dag = n.dag := rfl

theorem handleGossip_dag (cfg : Cfg) (n : Node) (peer : Peer) (x : Ref) (lc : Nat) (refs : List Ref) :
    (handleGossip cfg n peer x lc refs).node.dag = n.dag := by
  unfold handleGossip
  simp only
  split
  · rfl
  · split <;> (simp; split <;> rfl)

theorem handleState_dag (cfg : Cfg) (n : Node) (peer : Peer) (cid : Cid) (x : Ref) (lc : Nat) :
    (handleState cfg n peer cid x lc).node.dag = n.dag := by
  unfold handleState; split <;> rfl

theorem handleTransactionSet_dag (cfg : Cfg) (env : Env) (n : Node) (peer : Peer) (cid : Cid) (a b : Nat) (i : IbltV) :
    (handleTransactionSet cfg env n peer cid a b i).node.dag = n.dag := by
  unfold handleTransactionSet
  split
  · rfl
  · simp only
    split
    · rfl
    · split <;> simp
    · split
      · simp
      · split
        · split <;> simp
        · rfl

theorem handleListQuery_node (cfg : Cfg) (env : Env) (n : Node) (peer : Peer) (cid : Cid) (refs : List Ref) :
    (handleTransactionListQuery cfg env n peer cid refs).node = n := by
  unfold handleTransactionListQuery
  split
  · rfl
  · split <;> rfl

theorem handleRangeQuery_node (cfg : Cfg) (n : Node) (peer : Peer) (cid : Cid) (a b : Nat) :
    (handleTransactionRangeQuery cfg n peer cid a b).node = n := by
  unfold handleTransactionRangeQuery
  split
  · rfl
  · simp only; split <;> rfl

theorem handlePayloadQuery_node (env : Env) (n : Node) (peer : Peer) (ref : Ref) :
    (handleTransactionPayloadQuery env n peer ref).node = n := by
  unfold handleTransactionPayloadQuery
  split
  · rfl
  · simp only
    split
    · split
      · rfl
      · split
        · rfl
        · rfl
        · split
          · rfl
          · split <;> rfl
    · split <;> rfl

theorem handlePayload_dag (n : Node) (ref : Ref) (data : Option Payload) :
    (handleTransactionPayload n ref data).node.dag = n.dag := by
  unfold handleTransactionPayload
  split
  · rfl
  · split
    · rfl
    · split
      · rfl
      · split
        · rfl
        · split
          · rfl
          · rfl

/-- a valid DAG, newest first: every transaction has a good signature verdict, is new, has all its prevs before it,
    carries the right clock, and there is at most one root -/
inductive DagOK : List Tx → Prop where
  | nil : DagOK []
  | cons (tx : Tx) (d : List Tx) : DagOK d → tx.sigOK = true → present d tx.ref = false →
      (∀ p ∈ tx.prevs, present d p = true) → tx.clock = expectedClock d tx.prevs →
      (tx.prevs = [] → ∀ t ∈ d, t.clock ≠ 0) → DagOK (tx :: d)

theorem addCheck_added {d : List Tx} {tx : Tx} {pl : Option Payload} (h : addCheck d tx pl = .added) :
    tx.sigOK = true ∧ present d tx.ref = false ∧ (∀ p ∈ tx.prevs, present d p = true) ∧
    tx.clock = expectedClock d tx.prevs ∧ (tx.prevs = [] → ∀ t ∈ d, t.clock ≠ 0) ∧
    (∀ p, pl = some p → p.sha = tx.payloadHash) := by
  unfold addCheck at h
  split at h
  · cases h
  · rename_i h1
    split at h
    · cases h
    · rename_i h2
      split at h
      · cases h
      · rename_i h3
        split at h
        · cases h
        · rename_i h4
          split at h
          · cases h
          · rename_i h5
            split at h
            · cases h
            · rename_i h6
              refine ⟨by simpa using h4, by simpa using h1, ?_, by simpa using h3, ?_, ?_⟩
              · intro p hp
                have := h2
                simp only [Bool.not_eq_true, Bool.not_eq_eq_eq_not, Bool.not_true, Bool.not_eq_false] at this
                exact List.all_eq_true.mp this p hp
              · intro he t ht hc
                apply h6
                simp only [Bool.and_eq_true, List.isEmpty_iff, List.any_eq_true]
                exact ⟨he, t, ht, by simpa using hc⟩
              · intro p hp
                subst hp
                simpa [payloadMismatch] using h5

theorem addTx_cases (cfg : Cfg) (env : Env) (n : Node) (tx : Tx) (pl : Option Payload) :
    ((addTx cfg env n tx pl).2.2 = .added ∧ addCheck n.dag tx pl = .added ∧ (addTx cfg env n tx pl).1 = commitTx cfg n tx pl) ∨
    ((addTx cfg env n tx pl).2.2 ≠ .added ∧ (addTx cfg env n tx pl).1 = n ∧ (addTx cfg env n tx pl).2.2 = addCheck n.dag tx pl) := by
  unfold addTx
  split
  · rename_i h; exact Or.inl ⟨rfl, h, rfl⟩
  · rename_i r h; exact Or.inr ⟨by simpa using h, rfl, rfl⟩

@[simp] theorem commitTx_dag (cfg : Cfg) (n : Node) (tx : Tx) (pl : Option Payload) : (commitTx cfg n tx pl).dag = tx :: n.dag := rfl

theorem dagOK_commit (cfg : Cfg) (n : Node) (tx : Tx) (pl : Option Payload) (h : DagOK n.dag) (ha : addCheck n.dag tx pl = .added) :
    DagOK (commitTx cfg n tx pl).dag := by
  obtain ⟨h1, h2, h3, h4, h5, _⟩ := addCheck_added ha
  exact DagOK.cons tx n.dag h h1 h2 h3 h4 h5

/-- what `addLoop` does to the DAG: it prepends some of the offered transactions, each admitted by `addCheck` -/
theorem addLoop_dag (cfg : Cfg) (env : Env) : ∀ (l : List (Tx × Option Payload)) (n : Node), DagOK n.dag →
    DagOK (addLoop cfg env n l).node.dag ∧
    ∃ added, (addLoop cfg env n l).node.dag = added ++ n.dag ∧ ∀ t ∈ added, t.sigOK = true ∧ ∃ x ∈ l, x.1 = t := by
  intro l
  induction l with
  | nil => intro n h; exact ⟨by simpa [addLoop] using h, [], by simp [addLoop], by simp⟩
  | cons x xs ih =>
    intro n h
    obtain ⟨tx, pl⟩ := x
    unfold addLoop
    split
    · exact ⟨h, [], by simp, by simp⟩
    · rcases addTx_cases cfg env n tx pl with ⟨hr, hc, hn⟩ | ⟨hr, hn, hres⟩
      · split
        · rename_i n1 out1 heq
          have hn1 : n1 = commitTx cfg n tx pl := by rw [← hn, heq]
          subst hn1
          obtain ⟨ok, added, hd, hmem⟩ := ih (commitTx cfg n tx pl) (dagOK_commit cfg n tx pl h hc)
          refine ⟨ok, added ++ [tx], by simp [hd], ?_⟩
          intro t ht
          rcases List.mem_append.mp ht with ht | ht
          · obtain ⟨s, y, hy, hy2⟩ := hmem t ht
            exact ⟨s, y, List.mem_cons_of_mem _ hy, hy2⟩
          · simp only [List.mem_singleton] at ht
            subst ht
            exact ⟨(addCheck_added hc).1, (t, pl), List.mem_cons_self, rfl⟩
        · rename_i heq; rw [heq] at hr; cases hr
        · rename_i heq; rw [heq] at hr; cases hr
        · rename_i r hne1 hne2 hne3 heq
          exact ⟨h, [], by simp, by simp⟩
      · split
        · rename_i heq; rw [heq] at hr; exact absurd rfl hr
        · rename_i n1 _ heq
          have hn1 : n1 = n := by rw [← hn, heq]
          subst hn1
          obtain ⟨ok, added, hd, hmem⟩ := ih n1 h
          refine ⟨ok, added, hd, ?_⟩
          intro t ht
          obtain ⟨s, y, hy, hy2⟩ := hmem t ht
          exact ⟨s, y, List.mem_cons_of_mem _ hy, hy2⟩
        · exact ⟨h, [], by simp, by simp⟩
        · exact ⟨h, [], by simp, by simp⟩


/-- transactions a message carries -/
def msgTxs : Msg → List Tx
  | .txList _ _ _ txs => txs.filterMap (·.tx)
  | _ => []

theorem parseAll_mem : ∀ (txs : List NetTx) (ps : List (Tx × Option Payload)), parseAll txs = some ps →
    ∀ x ∈ ps, x.1 ∈ txs.filterMap (·.tx) := by
  intro txs
  induction txs with
  | nil => intro ps h x hx; simp [parseAll] at h; subst h; cases hx
  | cons t ts ih =>
    intro ps h x hx
    unfold parseAll at h
    split at h
    · cases h
    · rename_i y hy
      cases hp : parseAll ts with
      | none => simp [hp] at h
      | some ps' =>
        simp [hp] at h
        subst h
        rcases List.mem_cons.mp hx with rfl | hx'
        · simp [List.filterMap_cons, hy]
        · have := ih ps' hp x hx'
          simp only [List.filterMap_cons, hy]
          exact List.mem_cons_of_mem _ this

/-- **the only way a DAG changes**: a TransactionList whose conversation check passed; what is added is a list of
    transactions of that message with a good signature verdict, each admitted by `addCheck`; the result is a valid DAG -/
theorem handleTransactionList_dag (cfg : Cfg) (env : Env) (n : Node) (peer : Peer) (cid : Cid) (num total : Nat) (txs : List NetTx)
    (h : DagOK n.dag) :
    DagOK (handleTransactionList cfg env n peer cid num total txs).node.dag ∧
    ∃ added, (handleTransactionList cfg env n peer cid num total txs).node.dag = added ++ n.dag ∧
      (added ≠ [] → convCheck n cid (.txList cid num total txs) = none) ∧
      ∀ t ∈ added, t.sigOK = true ∧ t ∈ txs.filterMap (·.tx) := by
  unfold handleTransactionList
  split
  · exact ⟨h, [], by simp, by simp, by simp⟩
  · rename_i hcheck
    split
    · exact ⟨h, [], by simp, by simp, by simp⟩
    · rename_i ps hps
      obtain ⟨ok, added, hd, hmem⟩ := addLoop_dag cfg env ps n h
      have hm : ∀ t ∈ added, t.sigOK = true ∧ t ∈ txs.filterMap (·.tx) := by
        intro t ht
        obtain ⟨s, x, hx, hx2⟩ := hmem t ht
        exact ⟨s, by rw [← hx2]; exact parseAll_mem txs ps hps x hx⟩
      simp only
      split
      · refine ⟨?_, added, ?_, fun _ => hcheck, hm⟩
        · split <;> simpa using ok
        · split <;> simpa using hd
      · exact ⟨ok, added, hd, fun _ => hcheck, hm⟩
      · exact ⟨by simpa using ok, added, by simpa using hd, fun _ => hcheck, hm⟩
      · exact ⟨ok, added, hd, fun _ => hcheck, hm⟩

theorem handle_dag (cfg : Cfg) (env : Env) (n : Node) (peer : Peer) (m : Msg) (h : DagOK n.dag) :
    DagOK (handle cfg env n peer m).node.dag ∧
    ∃ added, (handle cfg env n peer m).node.dag = added ++ n.dag ∧
      (added ≠ [] → ∃ cid num total txs, m = .txList cid num total txs ∧ convCheck n cid m = none) ∧
      ∀ t ∈ added, t.sigOK = true ∧ t ∈ msgTxs m := by
  have same : ∀ r : HR, r.node.dag = n.dag → DagOK r.node.dag ∧ ∃ added, r.node.dag = added ++ n.dag ∧
      (added ≠ [] → ∃ cid num total txs, m = .txList cid num total txs ∧ convCheck n cid m = none) ∧
      ∀ t ∈ added, t.sigOK = true ∧ t ∈ msgTxs m := by
    intro r hr
    exact ⟨by rw [hr]; exact h, [], by simp [hr], by simp, by simp⟩
  cases m with
  | gossip x lc refs => exact same _ (handleGossip_dag ..)
  | state cid x lc => exact same _ (handleState_dag ..)
  | txSet cid a b i => exact same _ (handleTransactionSet_dag ..)
  | listQuery cid refs => exact same _ (by simp [handle, handleListQuery_node])
  | rangeQuery cid a b => exact same _ (by simp [handle, handleRangeQuery_node])
  | payloadQuery ref => exact same _ (by simp [handle, handlePayloadQuery_node])
  | payload ref data => exact same _ (handlePayload_dag ..)
  | diagnostics => exact same _ rfl
  | unsupported => exact same _ rfl
  | txList cid num total txs =>
    obtain ⟨ok, added, hd, hc, hm⟩ := handleTransactionList_dag cfg env n peer cid num total txs h
    exact ⟨ok, added, hd, fun hne => ⟨cid, num, total, txs, rfl, hc hne⟩, hm⟩

/-- stale, duplicated, unsolicited or conversation-mismatching responses change NOTHING in the node -/
theorem rejected_response_noop (cfg : Cfg) (env : Env) (n : Node) (peer : Peer) (cid : Cid) :
    (∀ num total txs, convCheck n cid (.txList cid num total txs) ≠ none →
        (handle cfg env n peer (.txList cid num total txs)).node = n ∧ (handle cfg env n peer (.txList cid num total txs)).out = []) ∧
    (∀ lcReq lc iblt, convCheck n cid (.txSet cid lcReq lc iblt) ≠ none →
        (handle cfg env n peer (.txSet cid lcReq lc iblt)).node = n ∧ (handle cfg env n peer (.txSet cid lcReq lc iblt)).out = []) := by
  constructor
  · intro num total txs hc
    simp only [handle]
    unfold handleTransactionList
    split
    · exact ⟨rfl, rfl⟩
    · rename_i hnone; exact absurd hnone hc
  · intro lcReq lc iblt hc
    simp only [handle]
    unfold handleTransactionSet
    split
    · exact ⟨rfl, rfl⟩
    · rename_i hnone; exact absurd hnone hc



/-! ### per-handler: everything sent by these handlers is a request-type message (no transactions, no payload bytes) -/

theorem sendRequest_req (cfg : Cfg) (n : Node) (peer : Nat) (data : ConvData) (mk : Cid → Msg)
    (hmk : ∀ c, isRequest (mk c) = true) (o : Nat × Msg) (h : o ∈ (sendRequest cfg n peer data mk).out) :
    isRequest o.2 = true := by
  obtain ⟨cid, rfl⟩ := sendRequest_out cfg n peer data mk o h
  exact hmk cid

theorem sendState_req (cfg : Cfg) (n : Node) (peer : Nat) (x : Ref) (c : Nat) (o : Nat × Msg)
    (h : o ∈ (sendState cfg n peer x c).out) : isRequest o.2 = true :=
  sendRequest_req cfg n peer _ _ (fun _ => rfl) o h

theorem sendListQuery_req (cfg : Cfg) (n : Node) (peer : Nat) (refs : List Ref) (o : Nat × Msg)
    (h : o ∈ (sendListQuery cfg n peer refs).out) : isRequest o.2 = true :=
  sendRequest_req cfg n peer _ _ (fun _ => rfl) o h

theorem sendRangeQuery_req (cfg : Cfg) (n : Node) (peer : Nat) (a b : Nat) (o : Nat × Msg)
    (h : o ∈ (sendRangeQuery cfg n peer a b).out) : isRequest o.2 = true :=
  sendRequest_req cfg n peer _ _ (fun _ => rfl) o h

theorem gossip_req (cfg : Cfg) (n : Node) (peer : Peer) (x : Ref) (lc : Nat) (refs : List Ref) (o : Nat × Msg)
    (h : o ∈ (handleGossip cfg n peer x lc refs).out) : isRequest o.2 = true := by
  unfold handleGossip at h
  simp only at h
  split at h
  · cases h
  · split at h
    · exact sendListQuery_req _ _ _ _ o h
    · exact sendState_req _ _ _ _ _ o h

theorem state_req (cfg : Cfg) (n : Node) (peer : Peer) (cid : Cid) (x : Ref) (lc : Nat) (o : Nat × Msg)
    (h : o ∈ (handleState cfg n peer cid x lc).out) : isRequest o.2 = true := by
  unfold handleState at h
  split at h
  · cases h
  · simp only [List.mem_singleton] at h; subst h; rfl

theorem set_req (cfg : Cfg) (env : Env) (n : Node) (peer : Peer) (cid : Cid) (a b : Nat) (i : IbltV) (o : Nat × Msg)
    (h : o ∈ (handleTransactionSet cfg env n peer cid a b i).out) : isRequest o.2 = true := by
  unfold handleTransactionSet at h
  split at h
  · cases h
  · simp only at h
    split at h
    · cases h
    · split at h
      · exact sendRangeQuery_req _ _ _ _ _ o h
      · exact sendState_req _ _ _ _ _ o h
    · split at h
      · exact sendListQuery_req _ _ _ _ o h
      · split at h
        · split at h
          · exact sendRangeQuery_req _ _ _ _ _ o h
          · exact sendRangeQuery_req _ _ _ _ _ o h
        · cases h

theorem pq_req {o : Nat × Msg} (h : ∃ r, o.2 = .payloadQuery r) : isRequest o.2 = true := by
  obtain ⟨r, h⟩ := h; rw [h]; rfl

theorem txlist_req (cfg : Cfg) (env : Env) (n : Node) (peer : Peer) (cid : Cid) (a b : Nat) (txs : List NetTx) (o : Nat × Msg)
    (h : o ∈ (handleTransactionList cfg env n peer cid a b txs).out) : isRequest o.2 = true := by
  unfold handleTransactionList at h
  split at h
  · cases h
  · split at h
    · cases h
    · rename_i ps _
      simp only at h
      split at h
      · exact pq_req (addLoop_out cfg env ps n o h)
      · exact pq_req (addLoop_out cfg env ps n o h)
      · simp only [List.mem_append] at h
        rcases h with h | h
        · exact pq_req (addLoop_out cfg env ps n o h)
        · exact sendState_req _ _ _ _ _ o h
      · exact pq_req (addLoop_out cfg env ps n o h)




/-! ### the network: steps and schedules -/



/-- transactions a step shows to a node -/
def stepTxs (w : World) : Step → List Tx
  | .deliver i _ => ((w.sent[i]?).map (fun pk => msgTxs pk.msg)).getD []
  | .inject _ _ m _ => msgTxs m
  | .create _ tx _ _ => [tx]
  | _ => []

/-- effect of replacing node `i` by a node whose DAG extends the old one -/
theorem set_dag (w w' : World) (i : Nat) (n n' : Node) (hw : w'.nodes = w.nodes.set i n') (hn : w.nodes[i]? = some n) (added : List Tx)
    (hd : n'.dag = added ++ n.dag) (j : Nat) :
    World.dag w' j = (if i = j then added else []) ++ World.dag w j := by
  unfold World.dag
  rw [hw]
  simp only [List.getElem?_set]
  by_cases hij : i = j
  · subst hij
    obtain ⟨hlt, heq⟩ := List.getElem?_eq_some_iff.mp hn
    simp [hlt, hn, hd, heq]
  · simp [hij]

theorem set_ok (w : World) (i : Nat) (n' : Node) (hok : ∀ n ∈ w.nodes, DagOK n.dag) (h' : DagOK n'.dag) :
    ∀ n ∈ w.nodes.set i n', DagOK n.dag := by
  intro n hn
  rcases List.mem_or_eq_of_mem_set hn with h | h
  · exact hok n h
  · subst h; exact h'

/-- one step of ANY kind: every DAG is extended (possibly by nothing) by valid-verdict transactions the step showed,
    and stays a valid DAG -/
theorem step_dag (cfg : Cfg) (w : World) (s : Step) (hok : ∀ n ∈ w.nodes, DagOK n.dag) :
    (∀ n ∈ (w.step cfg s).nodes, DagOK n.dag) ∧
    ∀ j, ∃ added, World.dag (w.step cfg s) j = added ++ World.dag w j ∧ ∀ t ∈ added, t.sigOK = true ∧ t ∈ stepTxs w s := by
  have same : ∀ w' : World, w'.nodes = w.nodes → (∀ n ∈ w'.nodes, DagOK n.dag) ∧
      ∀ j, ∃ added, World.dag w' j = added ++ World.dag w j ∧ ∀ t ∈ added, t.sigOK = true ∧ t ∈ stepTxs w s := by
    intro w' h
    refine ⟨by rw [h]; exact hok, fun j => ⟨[], by simp [World.dag, h], by simp⟩⟩
  have recv : ∀ (src dst : Nat) (m : Msg) (env : Env), (∀ t ∈ msgTxs m, t ∈ stepTxs w s) →
      (∀ n ∈ (w.recv cfg src dst m env).1.nodes, DagOK n.dag) ∧
      ∀ j, ∃ added, World.dag (w.recv cfg src dst m env).1 j = added ++ World.dag w j ∧
        ∀ t ∈ added, t.sigOK = true ∧ t ∈ stepTxs w s := by
    intro src dst m env hm
    unfold World.recv
    split
    · exact same w rfl
    · rename_i n hn
      split
      · exact same w rfl
      · rename_i p _
        have hmem : n ∈ w.nodes := List.mem_of_getElem? hn
        obtain ⟨ok, added, hd, _, hadd⟩ := handle_dag cfg env n p m (hok n hmem)
        refine ⟨set_ok w dst _ hok ok, fun j => ?_⟩
        simp only [World.post]
        rw [set_dag w _ dst n _ rfl hn added hd j]
        refine ⟨_, rfl, fun t ht => ?_⟩
        split at ht
        · exact ⟨(hadd t ht).1, hm t (hadd t ht).2⟩
        · cases ht
  cases s with
  | deliver i env =>
    simp only [World.step, World.stepR]
    split
    · exact same w rfl
    · rename_i pk hpk
      exact recv pk.src pk.dst pk.msg env (fun t ht => by simp [stepTxs, hpk, ht])
  | inject src dst m env =>
    simp only [World.step, World.stepR]
    exact recv src dst m env (fun t ht => by simpa [stepTxs] using ht)
  | tick i peer =>
    simp only [World.step, World.stepR]
    split
    · exact same w rfl
    · rename_i n hn
      have hmem : n ∈ w.nodes := List.mem_of_getElem? hn
      have hd : (gossipTick n peer).node.dag = [] ++ n.dag := by
        unfold gossipTick
        split
        · rfl
        · split <;> rfl
      refine ⟨set_ok w i _ hok (by rw [hd]; exact hok n hmem), fun j => ?_⟩
      rw [set_dag w _ i n _ rfl hn [] hd j]
      exact ⟨_, rfl, by intro t ht; split at ht <;> cases ht⟩
  | advance i dt =>
    simp only [World.step, World.stepR]
    split
    · exact same w rfl
    · rename_i n hn
      have hmem : n ∈ w.nodes := List.mem_of_getElem? hn
      refine ⟨set_ok w i _ hok (hok n hmem), fun j => ?_⟩
      rw [set_dag w _ i n { n with now := n.now + dt } rfl hn [] rfl j]
      exact ⟨_, rfl, by intro t ht; split at ht <;> cases ht⟩
  | evict i =>
    simp only [World.step, World.stepR]
    split
    · exact same w rfl
    · rename_i n hn
      have hmem : n ∈ w.nodes := List.mem_of_getElem? hn
      refine ⟨set_ok w i _ hok (hok n hmem), fun j => ?_⟩
      rw [set_dag w _ i n (evict n) rfl hn [] rfl j]
      exact ⟨_, rfl, by intro t ht; split at ht <;> cases ht⟩
  | restart i =>
    simp only [World.step, World.stepR]
    split
    · exact same w rfl
    · rename_i n hn
      have hmem : n ∈ w.nodes := List.mem_of_getElem? hn
      refine ⟨set_ok w i _ hok (hok n hmem), fun j => ?_⟩
      rw [set_dag w _ i n (restartNode n) rfl hn [] rfl j]
      exact ⟨_, rfl, by intro t ht; split at ht <;> cases ht⟩
  | conn i peer mode =>
    simp only [World.step, World.stepR]
    split
    · exact same w rfl
    · rename_i n hn
      have hmem : n ∈ w.nodes := List.mem_of_getElem? hn
      have hd : (connChange n peer mode).dag = [] ++ n.dag := by
        cases mode
        · rfl
        · rfl
        · rfl
        · simp only [connChange, List.nil_append]
          by_cases h : ((setConnected n peer true).queues.any fun q => q.peer == peer) = true
          · rw [if_pos h]; rfl
          · rw [if_neg h]; rfl
      refine ⟨set_ok w i _ hok (by rw [hd]; exact hok n hmem), fun j => ?_⟩
      rw [set_dag w _ i n (connChange n peer mode) rfl hn [] hd j]
      exact ⟨_, rfl, by intro t ht; split at ht <;> cases ht⟩
  | create i tx pl env =>
    simp only [World.step, World.stepR]
    split
    · exact same w rfl
    · rename_i n hn
      have hmem : n ∈ w.nodes := List.mem_of_getElem? hn
      simp only [World.post]
      rcases addTx_cases cfg env n tx pl with ⟨_, hc, hnode⟩ | ⟨_, hnode, _⟩
      · have hd : (addTx cfg env n tx pl).1.dag = [tx] ++ n.dag := by rw [hnode]; rfl
        refine ⟨set_ok w i _ hok (by rw [hnode]; exact dagOK_commit cfg n tx pl (hok n hmem) hc), fun j => ?_⟩
        rw [set_dag w _ i n _ rfl hn [tx] hd j]
        refine ⟨_, rfl, fun t ht => ?_⟩
        split at ht
        · simp only [List.mem_singleton] at ht
          subst ht
          exact ⟨(addCheck_added hc).1, by simp [stepTxs]⟩
        · cases ht
      · have hd : (addTx cfg env n tx pl).1.dag = [] ++ n.dag := by rw [hnode]; rfl
        refine ⟨set_ok w i _ hok (by rw [hnode]; exact hok n hmem), fun j => ?_⟩
        rw [set_dag w _ i n _ rfl hn [] hd j]
        exact ⟨_, rfl, by intro t ht; split at ht <;> cases ht⟩


/-! ### where transactions can come from -/

def OrderSub (env : Env) : Prop := ∀ l t, t ∈ env.order l → t ∈ l

theorem request_no_txs {m : Msg} (h : isRequest m = true) : msgTxs m = [] := by
  cases m <;> simp [isRequest] at h <;> rfl

/-- every transaction a handler puts into an outgoing message is one of the node's own -/
theorem handle_out_txs (cfg : Cfg) (env : Env) (n : Node) (peer : Peer) (m : Msg) (hord : OrderSub env)
    (o : Nat × Msg) (ho : o ∈ (handle cfg env n peer m).out) (t : Tx) (ht : t ∈ msgTxs o.2) : t ∈ n.dag := by
  have list_case : ∀ (l : List Tx) (r : List NetTx) (cid : Cid), (∀ x ∈ l, x ∈ n.dag) → collect n l = some r →
      o ∈ sendTransactionList cfg peer.key cid r → t ∈ n.dag := by
    intro l r cid hl hc hso
    obtain ⟨_, k, total, c, heq, hsub⟩ := sendTransactionList_mem cfg peer.key cid r o hso
    rw [heq] at ht
    simp only [msgTxs, List.mem_filterMap] at ht
    obtain ⟨e, he, het⟩ := ht
    obtain ⟨t', ht', hte, _⟩ := collect_elems n l r hc e (hsub e he)
    rw [hte] at het
    cases het
    exact hl _ ht'
  cases m with
  | gossip x lc refs => rw [request_no_txs (gossip_req cfg n peer x lc refs o ho)] at ht; cases ht
  | state cid x lc => rw [request_no_txs (state_req cfg n peer cid x lc o ho)] at ht; cases ht
  | txSet cid a b i => rw [request_no_txs (set_req cfg env n peer cid a b i o ho)] at ht; cases ht
  | txList cid a b txs => rw [request_no_txs (txlist_req cfg env n peer cid a b txs o ho)] at ht; cases ht
  | listQuery cid refs =>
    simp only [handle] at ho
    unfold handleTransactionListQuery at ho
    split at ho
    · cases ho
    · split at ho
      · cases ho
      · rename_i l hc
        refine list_case _ l cid (fun x hx => ?_) hc ho
        obtain ⟨r, _, hr⟩ := List.mem_filterMap.mp (hord _ _ hx)
        exact getTx_mem hr
  | rangeQuery cid a b =>
    simp only [handle] at ho
    unfold handleTransactionRangeQuery at ho
    split at ho
    · cases ho
    · simp only at ho
      split at ho
      · cases ho
      · rename_i l hc
        exact list_case _ l cid (fun x hx => findBetween_mem hx) hc ho
  | payloadQuery ref =>
    simp only [handle] at ho
    unfold handleTransactionPayloadQuery at ho
    have hp : ∀ d, o ∈ emptyPayload peer d → msgTxs o.2 = [] := by
      intro d h; simp only [emptyPayload, List.mem_singleton] at h; subst h; rfl
    have hr : ∀ (tx : Tx), o ∈ (match readPayload n tx.payloadHash with
              | none => ({ node := n, ret := "err:payload-not-found" } : HR)
              | some p => { node := n, out := [(peer.key, .payload ref (some p))] }).out → msgTxs o.2 = [] := by
      intro tx h
      split at h
      · cases h
      · simp only [List.mem_singleton] at h; subst h; rfl
    have : msgTxs o.2 = [] := by
      split at ho
      · exact hp _ ho
      · simp only at ho
        split at ho
        · split at ho
          · exact hp _ ho
          · split at ho
            · exact hp _ ho
            · exact hp _ ho
            · split at ho
              · exact hp _ ho
              · exact hr _ ho
        · exact hr _ ho
    rw [this] at ht; cases ht
  | payload ref data =>
    have : (handleTransactionPayload n ref data).out = [] := by
      unfold handleTransactionPayload
      split
      · rfl
      · split
        · rfl
        · split
          · rfl
          · split
            · rfl
            · split
              · rfl
              · rfl
    simp only [handle, this] at ho
    cases ho
  | diagnostics => simp [handle] at ho
  | unsupported => simp [handle] at ho

/-- `U` holds for everything in any DAG and for every valid-verdict transaction in any message sent so far -/
def InvU (U : Tx → Prop) (w : World) : Prop :=
  (∀ n ∈ w.nodes, ∀ t ∈ n.dag, U t) ∧ (∀ pk ∈ w.sent, ∀ t ∈ msgTxs pk.msg, t.sigOK = true → U t)

/-- what the adversary is limited by: any transaction with a GOOD signature verdict that it shows (injects or has
    a node create) is in `U` (it cannot forge signatures); the sort oracle returns elements of its input -/
def StepIn (U : Tx → Prop) : Step → Prop
  | .inject _ _ m env => (∀ t ∈ msgTxs m, t.sigOK = true → U t) ∧ OrderSub env
  | .create _ tx _ env => (tx.sigOK = true → U tx) ∧ OrderSub env
  | .deliver _ env => OrderSub env
  | _ => True


theorem dag_of_mem (w : World) (n : Node) (h : n ∈ w.nodes) : ∃ j, World.dag w j = n.dag := by
  obtain ⟨j, hj⟩ := List.getElem?_of_mem h
  exact ⟨j, by simp [World.dag, hj]⟩

theorem mem_dag_U {U : Tx → Prop} (w : World) (h : ∀ n ∈ w.nodes, ∀ t ∈ n.dag, U t) (j : Nat) : ∀ t ∈ World.dag w j, U t := by
  intro t ht
  unfold World.dag at ht
  cases hn : w.nodes[j]? with
  | none => simp [hn] at ht
  | some n => simp [hn] at ht; exact h n (List.mem_of_getElem? hn) t ht

theorem stepTxs_U {U : Tx → Prop} (w : World) (s : Step) (hi : InvU U w) (hs : StepIn U s) :
    ∀ t ∈ stepTxs w s, t.sigOK = true → U t := by
  intro t ht hsig
  cases s with
  | deliver i env =>
    simp only [stepTxs] at ht
    cases hp : w.sent[i]? with
    | none => simp [hp] at ht
    | some pk => simp [hp] at ht; exact hi.2 pk (List.mem_of_getElem? hp) t ht hsig
  | inject src dst m env => exact hs.1 t ht hsig
  | create i tx pl env => simp only [stepTxs, List.mem_singleton] at ht; subst ht; exact hs.1 hsig
  | tick i p => cases ht
  | advance i d => cases ht
  | evict i => cases ht
  | conn i p m => cases ht
  | restart i => cases ht

def StepOrd : Step → Prop
  | .deliver _ env => OrderSub env
  | .inject _ _ _ env => OrderSub env
  | _ => True

/-- messages appended to the log by a step only carry transactions of the acting node's DAG -/
theorem step_sent (cfg : Cfg) (w : World) (s : Step) (hord : StepOrd s) :
    ∃ news, (w.step cfg s).sent = w.sent ++ news ∧ ∀ pk ∈ news, ∀ t ∈ msgTxs pk.msg, ∃ n ∈ w.nodes, t ∈ n.dag := by
  have same : ∀ w' : World, w'.sent = w.sent → ∃ news, w'.sent = w.sent ++ news ∧
      ∀ pk ∈ news, ∀ t ∈ msgTxs pk.msg, ∃ n ∈ w.nodes, t ∈ n.dag := fun w' h => ⟨[], by simp [h], by simp⟩
  have recv : ∀ (src dst : Nat) (m : Msg) (env : Env), OrderSub env →
      ∃ news, (w.recv cfg src dst m env).1.sent = w.sent ++ news ∧
        ∀ pk ∈ news, ∀ t ∈ msgTxs pk.msg, ∃ n ∈ w.nodes, t ∈ n.dag := by
    intro src dst m env ho
    unfold World.recv
    split
    · exact same w rfl
    · rename_i n hn
      split
      · exact same w rfl
      · rename_i p _
        refine ⟨_, rfl, fun pk hpk t ht => ?_⟩
        simp only [List.mem_map] at hpk
        obtain ⟨o, ho', rfl⟩ := hpk
        rcases List.mem_append.mp ho' with h | h
        · exact ⟨n, List.mem_of_getElem? hn, handle_out_txs cfg env n p m ho o h t ht⟩
        · obtain ⟨r, hr⟩ := retryOut_out env _ _ o h
          simp only at ht
          rw [hr] at ht; cases ht
  cases s with
  | deliver i env =>
    simp only [World.step, World.stepR]
    split
    · exact same w rfl
    · rename_i pk _; exact recv pk.src pk.dst pk.msg env hord
  | inject src dst m env => simp only [World.step, World.stepR]; exact recv src dst m env hord
  | tick i peer =>
    simp only [World.step, World.stepR]
    split
    · exact same w rfl
    · rename_i n hn
      refine ⟨_, rfl, fun pk hpk t ht => ?_⟩
      simp only [List.mem_map] at hpk
      obtain ⟨o, ho', rfl⟩ := hpk
      unfold gossipTick at ho'
      split at ho'
      · cases ho'
      · split at ho'
        · simp only [List.mem_singleton] at ho'; subst ho'; cases ht
        · cases ho'
  | advance i dt => simp only [World.step, World.stepR]; split <;> exact same _ rfl
  | evict i => simp only [World.step, World.stepR]; split <;> exact same _ rfl
  | conn i p m => simp only [World.step, World.stepR]; split <;> exact same _ rfl
  | restart i => simp only [World.step, World.stepR]; split <;> exact same _ rfl
  | create i tx pl env =>
    simp only [World.step, World.stepR]
    split
    · exact same w rfl
    · rename_i n hn
      refine ⟨_, rfl, fun pk hpk t ht => ?_⟩
      simp only [World.post, List.mem_map] at hpk
      obtain ⟨o, ho', rfl⟩ := hpk
      rcases List.mem_append.mp ho' with h | h
      · have := addTx_out cfg env n tx pl o h
        simp only at ht
        rw [this] at ht; cases ht
      · obtain ⟨r, hr⟩ := retryOut_out env _ _ o h
        simp only at ht
        rw [hr] at ht; cases ht

theorem step_invU (cfg : Cfg) (U : Tx → Prop) (w : World) (s : Step) (hok : ∀ n ∈ w.nodes, DagOK n.dag)
    (hi : InvU U w) (hs : StepIn U s) : InvU U (w.step cfg s) := by
  obtain ⟨_, hd⟩ := step_dag cfg w s hok
  constructor
  · intro n hn t ht
    obtain ⟨j, hj⟩ := dag_of_mem _ n hn
    obtain ⟨added, hadd, hmem⟩ := hd j
    rw [← hj, hadd] at ht
    rcases List.mem_append.mp ht with h | h
    · exact stepTxs_U w s hi hs t (hmem t h).2 (hmem t h).1
    · exact mem_dag_U w hi.1 j t h
  · have hord : StepOrd s := by
      cases s with
      | deliver i env => exact hs
      | inject a b m env => exact hs.2
      | tick a b => trivial
      | advance a b => trivial
      | evict a => trivial
      | conn a b c => trivial
      | restart a => trivial
      | create a b c d => trivial
    obtain ⟨news, hsent, hnews⟩ := step_sent cfg w s hord
    intro pk hpk t ht hsig
    rw [hsent] at hpk
    rcases List.mem_append.mp hpk with h | h
    · exact hi.2 pk h t ht hsig
    · obtain ⟨n, hn, htn⟩ := hnews pk h t ht
      exact hi.1 n hn t htn



/-! ### chunk sizes -/

/-- the size `chunkTransactionList` accounts for a chunk -/
def csize (cfg : Cfg) : List NetTx → Nat
  | [] => 0
  | t :: ts => netSize cfg t + csize cfg ts

theorem csize_append (cfg : Cfg) (l1 l2 : List NetTx) : csize cfg (l1 ++ l2) = csize cfg l1 + csize cfg l2 := by
  induction l1 with
  | nil => simp [csize]
  | cons x xs ih => simp [csize, ih]; omega

theorem csize_reverse (cfg : Cfg) (l : List NetTx) : csize cfg l.reverse = csize cfg l := by
  induction l with
  | nil => rfl
  | cons x xs ih => simp [csize, csize_append, ih]; omega

def ChunkOK (cfg : Cfg) (c : List NetTx) : Prop := csize cfg c ≤ cfg.maxMsg - cfg.msgOverhead ∨ c.length ≤ 1

theorem chunkStep_inv (cfg : Cfg) (st : List (List NetTx) × List NetTx × Nat) (t : NetTx)
    (h : st.2.2 = csize cfg st.2.1 ∧ ChunkOK cfg st.2.1 ∧ ∀ c ∈ st.1, ChunkOK cfg c) :
    (chunkStep cfg st t).2.2 = csize cfg (chunkStep cfg st t).2.1 ∧ ChunkOK cfg (chunkStep cfg st t).2.1 ∧
      ∀ c ∈ (chunkStep cfg st t).1, ChunkOK cfg c := by
  obtain ⟨done, cur, size⟩ := st
  obtain ⟨h1, h2, h3⟩ := h
  simp only at h1 h2 h3
  unfold chunkStep
  simp only
  split
  · refine ⟨by simp [csize], Or.inr (by simp), fun c hc => ?_⟩
    rcases List.mem_cons.mp hc with rfl | h
    · rcases h2 with h | h
      · exact Or.inl (by rw [csize_reverse]; exact h)
      · exact Or.inr (by simpa using h)
    · exact h3 c h
  · rename_i hle
    refine ⟨by simp [csize, h1]; omega, Or.inl (by simp only [csize]; omega), h3⟩

theorem chunk_fold_inv (cfg : Cfg) : ∀ (l : List NetTx) (st : List (List NetTx) × List NetTx × Nat),
    (st.2.2 = csize cfg st.2.1 ∧ ChunkOK cfg st.2.1 ∧ ∀ c ∈ st.1, ChunkOK cfg c) →
    ((l.foldl (chunkStep cfg) st).2.2 = csize cfg (l.foldl (chunkStep cfg) st).2.1 ∧ ChunkOK cfg (l.foldl (chunkStep cfg) st).2.1 ∧
      ∀ c ∈ (l.foldl (chunkStep cfg) st).1, ChunkOK cfg c) := by
  intro l
  induction l with
  | nil => intro st h; exact h
  | cons t ts ih => intro st h; simp only [List.foldl_cons]; exact ih _ (chunkStep_inv cfg st t h)

/-- every chunk fits the message size limit unless it is a single (oversize) transaction -/
theorem chunks_bounded (cfg : Cfg) (l : List NetTx) : ∀ c ∈ chunkTransactionList cfg l, ChunkOK cfg c := by
  have h := chunk_fold_inv cfg l ([], [], 0) ⟨rfl, Or.inl (Nat.zero_le _), by simp⟩
  unfold chunkTransactionList
  generalize l.foldl (chunkStep cfg) ([], [], 0) = st at h
  obtain ⟨done, cur, size⟩ := st
  obtain ⟨_, h2, h3⟩ := h
  simp only at h2 h3 ⊢
  have hcur : ChunkOK cfg cur.reverse := by
    rcases h2 with h | h
    · exact Or.inl (by rw [csize_reverse]; exact h)
    · exact Or.inr (by simpa using h)
  split
  · intro c hc; exact h3 c (List.mem_reverse.mp hc)
  · intro c hc
    rcases List.mem_cons.mp (List.mem_reverse.mp hc) with rfl | h
    · exact hcur
    · exact h3 c h



theorem chunk_elems_mem (cfg : Cfg) (l : List NetTx) (c : List NetTx) (hc : c ∈ chunkTransactionList cfg l) : ∀ t ∈ c, t ∈ l := by
  intro t ht
  have : t ∈ (chunkTransactionList cfg l).flatten := List.mem_flatten.mpr ⟨c, hc, ht⟩
  rwa [chunks_flatten] at this

/-- every chunk stays within the room left for transactions whenever each transaction fits on its own -/
theorem chunks_fit (cfg : Cfg) (l : List NetTx) (hfit : ∀ t ∈ l, netSize cfg t ≤ cfg.maxMsg - cfg.msgOverhead) :
    ∀ c ∈ chunkTransactionList cfg l, csize cfg c ≤ cfg.maxMsg - cfg.msgOverhead := by
  intro c hc
  rcases chunks_bounded cfg l c hc with h | h
  · exact h
  · match c, h, hc with
    | [], _, _ => simp [csize]
    | [t], _, hc =>
      have := hfit t (chunk_elems_mem cfg l [t] hc t List.mem_cons_self)
      simp only [csize]; omega
    | _ :: _ :: _, h, _ => simp at h

end Nuts.Proto.L
