/-
  Helper lemmas shared by C07 and C15 about the protocol model: chunking and the shape of handler outputs.
-/
import NutsModel.C07.Net
import NutsProofs.Lemmas.Sort
open Nuts.Proto Nuts

namespace Nuts.Proto.L

def chunkFlat (st : List (List NetTx) × List NetTx × Nat) : List NetTx := st.1.reverse.flatten ++ st.2.1.reverse

theorem chunkStep_flat (cfg : Cfg) (st : List (List NetTx) × List NetTx × Nat) (t : NetTx) :
    chunkFlat (chunkStep cfg st t) = chunkFlat st ++ [t] := by
  obtain ⟨done, cur, size⟩ := st
  unfold chunkStep chunkFlat
  simp only
  split <;> simp

theorem chunk_fold_flat (cfg : Cfg) : ∀ (l : List NetTx) (st : List (List NetTx) × List NetTx × Nat),
    chunkFlat (l.foldl (chunkStep cfg) st) = chunkFlat st ++ l := by
  intro l
  induction l with
  | nil => intro st; simp
  | cons t ts ih => intro st; simp [List.foldl_cons, ih, chunkStep_flat]

theorem chunks_flatten (cfg : Cfg) (l : List NetTx) : (chunkTransactionList cfg l).flatten = l := by
  have h := chunk_fold_flat cfg l ([], [], 0)
  unfold chunkTransactionList
  generalize l.foldl (chunkStep cfg) ([], [], 0) = st at h
  obtain ⟨done, cur, size⟩ := st
  simp only [chunkFlat] at h
  simp only
  split
  · rename_i hc
    have : cur = [] := by simpa using hc
    subst this
    simpa using h
  · simpa using h

theorem numberChunks_mem (cid : Cid) (total : Nat) : ∀ (chunks : List (List NetTx)) (i : Nat) (m : Msg),
    m ∈ numberChunks cid total i chunks → ∃ k c, m = .txList cid k total c ∧ c ∈ chunks := by
  intro chunks
  induction chunks with
  | nil => intro i m h; simp [numberChunks] at h
  | cons c cs ih =>
    intro i m h
    simp only [numberChunks, List.mem_cons] at h
    rcases h with rfl | h
    · exact ⟨i + 1, c, rfl, List.mem_cons_self⟩
    · obtain ⟨k, c', h1, h2⟩ := ih (i + 1) m h
      exact ⟨k, c', h1, List.mem_cons_of_mem _ h2⟩

/-- every message produced by `sendTransactionList` is a TransactionList for the given conversation whose
    elements all come from the list handed to it -/
theorem sendTransactionList_mem (cfg : Cfg) (peer : Nat) (cid : Cid) (l : List NetTx) (o : Nat × Msg)
    (h : o ∈ sendTransactionList cfg peer cid l) :
    o.1 = peer ∧ ∃ k total c, o.2 = .txList cid k total c ∧ ∀ e ∈ c, e ∈ l := by
  unfold sendTransactionList at h
  simp only [List.mem_map] at h
  obtain ⟨m, hm, rfl⟩ := h
  obtain ⟨k, c, h1, h2⟩ := numberChunks_mem cid _ _ _ m hm
  refine ⟨rfl, k, _, c, h1, fun e he => ?_⟩
  have : e ∈ (chunkTransactionList cfg l).flatten := List.mem_flatten.mpr ⟨c, h2, he⟩
  rwa [chunks_flatten] at this

end Nuts.Proto.L

namespace Nuts.Proto.L

theorem sendRequest_out (cfg : Cfg) (n : Node) (peer : Nat) (data : ConvData) (mk : Cid → Msg) (o : Nat × Msg)
    (h : o ∈ (sendRequest cfg n peer data mk).out) : ∃ cid, o = (peer, mk cid) := by
  unfold sendRequest at h
  split at h
  · cases h
  · rename_i n' cid _
    simp only [List.mem_singleton] at h
    exact ⟨cid, h⟩

/-- kinds of messages that carry no payload bytes at all -/
def isRequest : Msg → Bool
  | .state .. => true | .listQuery .. => true | .rangeQuery .. => true | .payloadQuery .. => true
  | .txSet .. => true | .gossip .. => true
  | _ => false

theorem privateRetry_out (env : Env) (n : Node) (tx : Tx) (o : Nat × Msg) (h : o ∈ privateRetry env n tx) :
    o.2 = .payloadQuery tx.ref := by
  unfold privateRetry at h
  split at h
  · cases h
  · split at h
    · simp only [List.mem_filterMap] at h
      obtain ⟨d, _, hd⟩ := h
      cases hf : firstConn n d with
      | none => simp [hf] at hd
      | some p => simp [hf] at hd; rw [← hd]
    · cases h

theorem notifyPrivate_out (env : Env) (n : Node) (tx : Tx) (o : Nat × Msg) (h : o ∈ notifyPrivate env n tx) :
    o.2 = .payloadQuery tx.ref := by
  unfold notifyPrivate at h
  split at h
  · exact privateRetry_out _ _ _ _ h
  · cases h

theorem addTx_out (cfg : Cfg) (env : Env) (n : Node) (tx : Tx) (pl : Option Payload) (o : Nat × Msg)
    (h : o ∈ (addTx cfg env n tx pl).2.1) : o.2 = .payloadQuery tx.ref := by
  unfold addTx at h
  split at h
  · exact notifyPrivate_out _ _ _ _ h
  · cases h

theorem addLoop_out (cfg : Cfg) (env : Env) : ∀ (l : List (Tx × Option Payload)) (n : Node) (o : Nat × Msg),
    o ∈ (addLoop cfg env n l).out → ∃ r, o.2 = .payloadQuery r := by
  intro l
  induction l with
  | nil => intro n o h; simp [addLoop] at h
  | cons x xs ih =>
    intro n o h
    obtain ⟨tx, pl⟩ := x
    unfold addLoop at h
    split at h
    · cases h
    · split at h
      · rename_i n1 out1 hadd
        simp only [List.mem_append] at h
        rcases h with h | h
        · have := addTx_out cfg env n tx pl o (by rw [hadd]; exact h)
          exact ⟨_, this⟩
        · exact ih n1 o h
      · rename_i n1 _ hadd
        exact ih n1 o h
      · cases h
      · cases h

theorem retryOut_out (env : Env) (n : Node) (txs : List Tx) (o : Nat × Msg) (h : o ∈ retryOut env n txs) :
    ∃ r, o.2 = .payloadQuery r := by
  unfold retryOut at h
  simp only [List.mem_flatMap] at h
  obtain ⟨t, _, ht⟩ := h
  exact ⟨_, privateRetry_out _ _ _ _ ht⟩

end Nuts.Proto.L
