/-
  C08 — contiguous trees: `Shape ls h a m n` says node `n` has height `h`, starts at page `a` and holds exactly the
  leaves of the first `m` pages (what a valid DAG produces, and what `Load` needs). Exact effect of Insert on the list
  of leaves, and the clock returned by `ZeroTo`.  Core Lean only.
-/
import NutsProofs.Lemmas.C08Tree

namespace Nuts.C08

variable {R G : Type}

def keyOf (ls p : Nat) : Nat := ls * p + ls / 2

/-- the leaves of pages `a … a+m-1` holding `val p` -/
def pl (ls a m : Nat) (val : Nat → G) : List (Nat × G) :=
  (List.range m).map (fun i => (keyOf ls (a + i), val (a + i)))

theorem pl_zero (ls a : Nat) (val : Nat → G) : pl ls a 0 val = [] := rfl

theorem pl_succ (ls a m : Nat) (val : Nat → G) :
    pl ls a (m + 1) val = pl ls a m val ++ [(keyOf ls (a + m), val (a + m))] := by
  simp [pl, List.range_succ]

theorem pl_one (ls a : Nat) (val : Nat → G) : pl ls a 1 val = [(keyOf ls a, val a)] := by
  simp [pl_succ, pl_zero]

theorem pl_add (ls a m k : Nat) (val : Nat → G) :
    pl ls a (m + k) val = pl ls a m val ++ pl ls (a + m) k val := by
  induction k with
  | zero => simp [pl_zero]
  | succ k ih => rw [← Nat.add_assoc, pl_succ, ih, pl_succ, List.append_assoc, Nat.add_assoc]

@[simp] theorem pl_length (ls a m : Nat) (val : Nat → G) : (pl ls a m val).length = m := by simp [pl]

theorem pl_congr (ls a m : Nat) (val val' : Nat → G) (h : ∀ i, i < m → val (a + i) = val' (a + i)) :
    pl ls a m val = pl ls a m val' := by
  unfold pl
  apply List.map_congr_left
  intro i hi
  rw [h i (List.mem_range.mp hi)]

theorem pl_split (ls a m k : Nat) (val : Nat → G) (hk : k ≤ m) :
    pl ls a m val = pl ls a k val ++ pl ls (a + k) (m - k) val := by
  rw [← pl_add]; congr 1; omega

def upd (val : Nat → G) (P : Nat) (x : G) : Nat → G := fun p => if p = P then x else val p

def Shape (ls : Nat) : Nat → Nat → Nat → Node G → Prop
  | 0, a, m, .leaf s l _ => m = 1 ∧ s = keyOf ls a ∧ l = ls * (a + 1)
  | h + 1, a, m, .branch s l _ left right =>
    s = ls * (a + 2 ^ h) ∧ l = ls * (a + 2 ^ (h + 1)) ∧
    ((right = .nil ∧ m ≤ 2 ^ h ∧ Shape ls h a m left) ∨
     (2 ^ h < m ∧ Shape ls h a (2 ^ h) left ∧ Shape ls h (a + 2 ^ h) (m - 2 ^ h) right))
  | _, _, _, _ => False

theorem two_pow_succ' (h : Nat) : 2 ^ (h + 1) = 2 ^ h + 2 ^ h := by rw [Nat.pow_succ]; omega

theorem Shape.geo {ls : Nat} : ∀ (h a m : Nat) (n : Node G), Shape ls h a m n → Geo ls h a n := by
  intro h
  induction h with
  | zero => intro a m n s; cases n <;> simp [Shape] at s; simp [Geo, s.2.1, s.2.2, keyOf]
  | succ h ih =>
    intro a m n s
    cases n <;> simp [Shape] at s
    obtain ⟨hs, hl, c⟩ := s
    simp only [Geo]
    rcases c with ⟨e, _, sl⟩ | ⟨_, sl, sr⟩
    · exact ⟨hs, hl, ih _ _ _ sl, Or.inl e⟩
    · exact ⟨hs, hl, ih _ _ _ sl, Or.inr (ih _ _ _ sr)⟩

theorem Shape.bounds {ls : Nat} : ∀ (h a m : Nat) (n : Node G), Shape ls h a m n → 1 ≤ m ∧ m ≤ 2 ^ h := by
  intro h
  induction h with
  | zero => intro a m n s; cases n <;> simp [Shape] at s; omega
  | succ h ih =>
    intro a m n s
    cases n <;> simp [Shape] at s
    obtain ⟨_, _, c⟩ := s
    have := two_pow_succ' h
    rcases c with ⟨_, hm, sl⟩ | ⟨hm, _, sr⟩
    · have := ih _ _ _ sl; omega
    · have := ih _ _ _ sr; omega

theorem Shape.leaves_length {ls : Nat} : ∀ (h a m : Nat) (n : Node G), Shape ls h a m n → n.leaves.length = m := by
  intro h
  induction h with
  | zero => intro a m n s; cases n <;> simp [Shape] at s; simp [Node.leaves, s.1]
  | succ h ih =>
    intro a m n s
    cases n <;> simp [Shape] at s
    obtain ⟨_, _, c⟩ := s
    rcases c with ⟨e, _, sl⟩ | ⟨hm, sl, sr⟩
    · subst e; simp [Node.leaves, ih _ _ _ sl]
    · simp [Node.leaves, ih _ _ _ sl, ih _ _ _ sr]; omega

/-- `rightmostLeafClock` of a contiguous node -/
theorem Shape.rightmost {ls : Nat} : ∀ (h a m : Nat) (n : Node G), Shape ls h a m n → n.rightmost = ls * (a + m) - 1 := by
  intro h
  induction h with
  | zero => intro a m n s; cases n <;> simp [Shape] at s; simp [Node.rightmost, s.1, s.2.2]
  | succ h ih =>
    intro a m n s
    cases n <;> simp [Shape] at s
    rename_i sp l d left right
    obtain ⟨_, _, c⟩ := s
    rcases c with ⟨e, _, sl⟩ | ⟨hm, sl, sr⟩
    · subst e
      have := (Shape.geo _ _ _ _ sl).ne_nil
      cases left with
      | nil => exact absurd rfl this
      | leaf _ _ _ => simpa [Node.rightmost] using ih _ _ _ sl
      | branch _ _ _ _ _ => simpa [Node.rightmost] using ih _ _ _ sl
    · have hne := (Shape.geo _ _ _ _ sr).ne_nil
      have e := ih _ _ _ sr
      have : a + 2 ^ h + (m - 2 ^ h) = a + m := by omega
      rw [this] at e
      cases right with
      | nil => exact absurd rfl hne
      | leaf _ _ _ => simpa [Node.rightmost] using e
      | branch _ _ _ _ _ => simpa [Node.rightmost] using e

/-! ### newBranch creates exactly the first leaf of its range -/

theorem newBranchF_shape {o : Ops R G} {ls : Nat} (hls : 0 < ls) :
    ∀ (h fuel a : Nat), h ≤ fuel →
      Shape ls h a 1 (newBranchF o ls fuel (ls * a) (ls * (a + 2 ^ h))).1 ∧
      (newBranchF o ls fuel (ls * a) (ls * (a + 2 ^ h))).1.leaves = [(keyOf ls a, o.zero)] ∧
      (newBranchF o ls fuel (ls * a) (ls * (a + 2 ^ h))).2 = [keyOf ls a] := by
  intro h
  induction h with
  | zero =>
    intro fuel a _
    have hsplit : (ls * (a + 2 ^ 0) + ls * a) / 2 = ls * a + ls / 2 := by
      simp only [Nat.pow_zero, Nat.mul_add, Nat.mul_one]; omega
    have hnot : ¬ (ls * (a + 2 ^ 0) - ls * a > ls) := by
      simp only [Nat.pow_zero, Nat.mul_add, Nat.mul_one]; omega
    cases fuel with
    | zero => simp [newBranchF, Shape, Node.leaves, hsplit, keyOf]
    | succ f => simp [newBranchF, hnot, Shape, Node.leaves, hsplit, keyOf]
  | succ h ih =>
    intro fuel a hf
    cases fuel with
    | zero => omega
    | succ f =>
      have hp := two_pow_succ' h
      have hpos : 0 < 2 ^ h := Nat.two_pow_pos h
      have hsplit : (ls * (a + 2 ^ (h + 1)) + ls * a) / 2 = ls * (a + 2 ^ h) := by
        rw [hp]; simp only [Nat.mul_add]; omega
      have hgt : ls * (a + 2 ^ (h + 1)) - ls * a > ls := by
        rw [hp]; simp only [Nat.mul_add]
        have : ls ≤ ls * 2 ^ h := Nat.le_mul_of_pos_right ls hpos
        omega
      have := ih f a (by omega)
      simp only [newBranchF, hsplit, hgt, if_true]
      refine ⟨?_, ?_, this.2.2⟩
      · simp only [Shape]; exact ⟨trivial, trivial, Or.inl ⟨trivial, hpos, this.1⟩⟩
      · simp [Node.leaves, this.2.1]

theorem newBranch_shape {o : Ops R G} {ls : Nat} (hls : 0 < ls) (h a : Nat) :
    Shape ls h a 1 (newBranch o ls (ls * a) (ls * (a + 2 ^ h))).1 ∧
    (newBranch o ls (ls * a) (ls * (a + 2 ^ h))).1.leaves = [(keyOf ls a, o.zero)] ∧
    (newBranch o ls (ls * a) (ls * (a + 2 ^ h))).2 = [keyOf ls a] := by
  unfold newBranch
  apply newBranchF_shape hls
  have : ls * (a + 2 ^ h) - ls * a = ls * 2 ^ h := by simp [Nat.mul_add]
  rw [this]; exact pow_le_mul_pow hls

theorem page_of_clock {ls a clock : Nat} (hls : 0 < ls) : (ls * a ≤ clock ↔ a ≤ clock / ls) := by
  rw [Nat.le_div_iff_mul_le hls, Nat.mul_comm]

theorem page_of_clock_lt {ls a clock : Nat} (hls : 0 < ls) : (clock < ls * a ↔ clock / ls < a) := by
  rw [Nat.div_lt_iff_lt_mul hls, Nat.mul_comm]

theorem updateF_branch_right {o : Ops R G} {ls : Nat} {f : G → G} {clock fu s l : Nat} {d : G} {left right : Node G}
    (hc : ¬ clock < s) (hne : right ≠ .nil) :
    updateF o ls f clock (fu + 1) (.branch s l d left right) =
      ((.branch s l (f d) left (updateF o ls f clock fu right).1), (updateF o ls f clock fu right).2) := by
  cases right with
  | nil => exact absurd rfl hne
  | leaf _ _ _ => simp [updateF, hc]
  | branch _ _ _ _ _ => simp [updateF, hc]

/-- Insert into a contiguous node at a page that exists or is the next one: the node stays contiguous and its leaves
    change at exactly that page; only that leaf's key is reported dirty. -/
theorem updateF_shape {o : Ops R G} {ls : Nat} (hls : 0 < ls) (f : G → G) (clock : Nat) :
    ∀ (h a m fuel : Nat) (n : Node G) (val : Nat → G), Shape ls h a m n → n.leaves = pl ls a m val → h < fuel →
      a ≤ clock / ls → clock / ls ≤ a + m → clock / ls < a + 2 ^ h →
      Shape ls h a (max m (clock / ls - a + 1)) (updateF o ls f clock fuel n).1 ∧
      (updateF o ls f clock fuel n).1.leaves = pl ls a (max m (clock / ls - a + 1))
        (upd val (clock / ls) (f (if clock / ls < a + m then val (clock / ls) else o.zero))) ∧
      (∀ k ∈ (updateF o ls f clock fuel n).2, k = keyOf ls (clock / ls)) ∧ (updateF o ls f clock fuel n).2 ≠ [] := by
  intro h
  induction h with
  | zero =>
    intro a m fuel n val s hl hfuel hlo hmid hhi
    cases n <;> simp [Shape] at s
    rename_i sp l d
    obtain ⟨hm, hsp, hlim⟩ := s
    subst hm
    cases fuel with
    | zero => omega
    | succ fu =>
      have hP : clock / ls = a := by simp at hhi; omega
      simp only [Node.leaves, pl_one] at hl
      have hd : d = val a := by simpa using (List.cons.inj hl).1 |> fun x => (Prod.mk.inj x).2
      simp only [updateF, hP]
      refine ⟨?_, ?_, ?_, by simp⟩
      · simp [Shape, hsp, hlim]
      · simp [Node.leaves, pl_one, upd, hsp, hd]
      · intro k hk; simp at hk; rw [hk, hsp]
  | succ h ih =>
    intro a m fuel n val s hl hfuel hlo hmid hhi
    cases n <;> simp [Shape] at s
    rename_i sp l d left right
    obtain ⟨hsp, hlim, c⟩ := s
    have hp := two_pow_succ' h
    cases fuel with
    | zero => omega
    | succ fu =>
      by_cases hc : clock < sp
      · -- descend left
        have hPl : clock / ls < a + 2 ^ h := by rw [hsp] at hc; exact (page_of_clock_lt hls).mp hc
        rcases c with ⟨e, hm, sl⟩ | ⟨hm, sl, sr⟩
        · subst e
          simp only [Node.leaves, List.append_nil] at hl
          have r := ih a m fu left val sl hl (by omega) hlo hmid hPl
          obtain ⟨r1, r2, r3, r4⟩ := r
          simp only [updateF, hc, if_true]
          refine ⟨?_, by simpa [Node.leaves] using r2, r3, r4⟩
          simp only [Shape]
          exact ⟨hsp, hlim, Or.inl ⟨trivial, by omega, r1⟩⟩
        · have hlen := Shape.leaves_length _ _ _ _ sl
          have hsplit : pl ls a m val = pl ls a (2 ^ h) val ++ pl ls (a + 2 ^ h) (m - 2 ^ h) val := by
            rw [← pl_add]; congr 1; omega
          simp only [Node.leaves] at hl
          rw [hsplit] at hl
          have hinj := List.append_inj hl (by simp [hlen])
          have r := ih a (2 ^ h) fu left val sl hinj.1 (by omega) hlo (by omega) hPl
          obtain ⟨r1, r2, r3, r4⟩ := r
          have hmax : max (2 ^ h) (clock / ls - a + 1) = 2 ^ h := by omega
          have hmax' : max m (clock / ls - a + 1) = m := by omega
          rw [hmax] at r1 r2
          simp only [updateF, hc, if_true]
          refine ⟨?_, ?_, r3, r4⟩
          · simp only [Shape, hmax']
            exact ⟨hsp, hlim, Or.inr ⟨hm, r1, sr⟩⟩
          · simp only [Node.leaves]
            rw [hmax', r2, hinj.2, if_pos hPl, if_pos (by omega : clock / ls < a + m),
              pl_split ls a m (2 ^ h) (upd val (clock / ls) (f (val (clock / ls)))) (by omega)]
            congr 1
            apply pl_congr
            intro i _
            simp [upd]; omega
      · -- descend right
        have hPr : a + 2 ^ h ≤ clock / ls := by
          have : ls * (a + 2 ^ h) ≤ clock := by rw [← hsp]; omega
          exact (page_of_clock hls).mp this
        rcases c with ⟨e, hm, sl⟩ | ⟨hm, sl, sr⟩
        · -- the right child does not exist: the page is the next one, `newBranch` creates its leaf
          subst e
          have hmeq : m = 2 ^ h := by omega
          have hP : clock / ls = a + 2 ^ h := by omega
          simp only [Node.leaves, List.append_nil] at hl
          have nb := newBranch_shape (o := o) hls h (a + 2 ^ h)
          have hstop : ls * (a + 2 ^ h + 2 ^ h) = l := by rw [Nat.add_assoc, ← hp, hlim]
          rw [hstop, ← hsp] at nb
          obtain ⟨sn, ln, dn⟩ := nb
          have hln : (newBranch o ls sp l).1.leaves = pl ls (a + 2 ^ h) 1 (fun _ => o.zero) := by rw [ln, pl_one]
          have r := ih (a + 2 ^ h) 1 fu _ (fun _ => o.zero) sn hln (by omega) (by omega) (by omega) (by omega)
          obtain ⟨r1, r2, r3, r4⟩ := r
          have hmax1 : max 1 (clock / ls - (a + 2 ^ h) + 1) = 1 := by omega
          have hmax' : max m (clock / ls - a + 1) = 2 ^ h + 1 := by omega
          rw [hmax1] at r1 r2
          simp only [updateF, hc, if_false]
          refine ⟨?_, ?_, ?_, by simp [dn]⟩
          · simp only [Shape, hmax']
            refine ⟨hsp, hlim, Or.inr ⟨by omega, hmeq ▸ sl, ?_⟩⟩
            have : 2 ^ h + 1 - 2 ^ h = 1 := by omega
            rw [this]; exact r1
          · simp only [Node.leaves]
            subst hmeq
            rw [hmax', r2, hl, pl_one, pl_succ, if_neg (by omega : ¬ clock / ls < a + 2 ^ h)]
            congr 1
            · apply pl_congr; intro i hi; simp [upd]; omega
            · simp [upd, hP]
          · intro k hk
            simp only [List.mem_append] at hk
            rcases hk with hk | hk
            · rw [dn] at hk; simp at hk; rw [hk, hP]
            · exact r3 k hk
        · have hne := (Shape.geo _ _ _ _ sr).ne_nil
          have hlen := Shape.leaves_length _ _ _ _ sl
          have hsplit : pl ls a m val = pl ls a (2 ^ h) val ++ pl ls (a + 2 ^ h) (m - 2 ^ h) val := by
            rw [← pl_add]; congr 1; omega
          simp only [Node.leaves] at hl
          rw [hsplit] at hl
          have hinj := List.append_inj hl (by simp [hlen])
          have r := ih (a + 2 ^ h) (m - 2 ^ h) fu right val sr hinj.2 (by omega) hPr (by omega) (by omega)
          obtain ⟨r1, r2, r3, r4⟩ := r
          rw [updateF_branch_right hc hne]
          have hmx : max m (clock / ls - a + 1) = 2 ^ h + max (m - 2 ^ h) (clock / ls - (a + 2 ^ h) + 1) := by omega
          refine ⟨?_, ?_, r3, r4⟩
          · simp only [Shape]
            refine ⟨hsp, hlim, Or.inr ⟨by omega, sl, ?_⟩⟩
            have : max m (clock / ls - a + 1) - 2 ^ h = max (m - 2 ^ h) (clock / ls - (a + 2 ^ h) + 1) := by omega
            rw [this]; exact r1
          · simp only [Node.leaves, r2, hinj.1]
            rw [hmx, pl_add]
            congr 1
            · apply pl_congr; intro i hi; simp [upd]; omega
            · have : a + 2 ^ h + (m - 2 ^ h) = a + m := by omega
              rw [this]

/-! ### the clock returned by ZeroTo on a contiguous node -/

theorem zeroTo_clock {o : Ops R G} {ls : Nat} (hls : 0 < ls) (c : Nat) :
    ∀ (h a m : Nat) (n : Node G) (acc : G), Shape ls h a m n → a ≤ c / ls →
      (n.zeroTo o c acc).2 = ls * (a + min (c / ls - a) (m - 1) + 1) - 1 := by
  intro h
  induction h with
  | zero =>
    intro a m n acc s _
    cases n <;> simp [Shape] at s
    simp [Node.zeroTo, s.1, s.2.2]
  | succ h ih =>
    intro a m n acc s hlo
    have hsh := s
    cases n <;> simp [Shape] at s
    rename_i sp l d left right
    obtain ⟨hsp, hlim, c'⟩ := s
    have hb := Shape.bounds _ _ _ _ hsh
    by_cases hc : c < sp
    · have hP : c / ls < a + 2 ^ h := by rw [hsp] at hc; exact (page_of_clock_lt hls).mp hc
      rcases c' with ⟨e, hm, sl⟩ | ⟨hm, sl, sr⟩
      · subst e
        rw [zeroTo_left_nil _ hc (Shape.geo _ _ _ _ sl).ne_nil, ih a m left _ sl hlo]
      · rw [zeroTo_left _ hc (Shape.geo _ _ _ _ sl).ne_nil (Shape.geo _ _ _ _ sr).ne_nil, ih a (2 ^ h) left _ sl hlo]
        have : min (c / ls - a) (2 ^ h - 1) = min (c / ls - a) (m - 1) := by omega
        rw [this]
    · have hP : a + 2 ^ h ≤ c / ls := by
        have : ls * (a + 2 ^ h) ≤ c := by rw [← hsp]; omega
        exact (page_of_clock hls).mp this
      rcases c' with ⟨e, hm, sl⟩ | ⟨hm, sl, sr⟩
      · subst e
        rw [zeroTo_right_nil _ hc, Shape.rightmost _ _ _ _ hsh]
        have : a + min (c / ls - a) (m - 1) + 1 = a + m := by omega
        rw [this]
      · rw [zeroTo_right _ hc (Shape.geo _ _ _ _ sr).ne_nil, ih (a + 2 ^ h) (m - 2 ^ h) right _ sr hP]
        have : a + 2 ^ h + min (c / ls - (a + 2 ^ h)) (m - 2 ^ h - 1) + 1 = a + min (c / ls - a) (m - 1) + 1 := by omega
        rw [this]

/-! ### contiguous trees -/

/-- tree `t` (leaf size `ls`) holds exactly the pages `0 … m-1` with data `val p` -/
structure Holds (o : Ops R G) (ls : Nat) (t : Tree G) (m : Nat) (val : Nat → G) : Prop where
  ls_pos : 0 < ls
  ls_eq : t.leafSize = ls
  shape : ∃ h, Shape ls h 0 m t.root ∧ t.treeSize = ls * 2 ^ h
  wf : Wf o t.root
  leaves : t.root.leaves = pl ls 0 m val

theorem Holds.inv {o : Ops R G} {ls : Nat} {t : Tree G} {m : Nat} {val : Nat → G} (H : Holds o ls t m val) :
    TInv o t := by
  obtain ⟨h, sh, hs⟩ := H.shape
  exact ⟨by rw [H.ls_eq]; exact H.ls_pos, ⟨h, by rw [H.ls_eq]; exact Shape.geo _ _ _ _ sh, by rw [H.ls_eq]; exact hs⟩, H.wf⟩

theorem Holds.m_pos {o : Ops R G} {ls : Nat} {t : Tree G} {m : Nat} {val : Nat → G} (H : Holds o ls t m val) : 1 ≤ m := by
  obtain ⟨h, sh, _⟩ := H.shape
  exact (Shape.bounds _ _ _ _ sh).1

theorem Holds.new (o : Ops R G) {ls : Nat} (hls : 0 < ls) : Holds o ls (Tree.new o ls) 1 (fun _ => o.zero) :=
  ⟨hls, rfl, ⟨0, by simp [Tree.new, Shape, keyOf], by simp [Tree.new]⟩, by simp [Tree.new, Wf],
   by simp [Tree.new, Node.leaves, pl_one, keyOf]⟩

theorem growF_shape {o : Ops R G} {ls : Nat} (clock : Nat) : ∀ (fuel : Nat) (t : Tree G) (m : Nat),
    (∃ h, Shape ls h 0 m t.root ∧ t.treeSize = ls * 2 ^ h) →
    ∃ h, Shape ls h 0 m (Tree.growF o clock fuel t).root ∧ (Tree.growF o clock fuel t).treeSize = ls * 2 ^ h := by
  intro fuel
  induction fuel with
  | zero => intro t m h; exact h
  | succ f ih =>
    intro t m hh
    by_cases hc : clock ≥ t.treeSize
    · simp only [Tree.growF, hc, if_true]
      apply ih
      obtain ⟨h, sh, hs⟩ := hh
      refine ⟨h + 1, ?_, ?_⟩
      · simp only [Tree.reRoot, Shape, Nat.zero_add]
        refine ⟨hs, ?_, Or.inl ⟨trivial, (Shape.bounds _ _ _ _ sh).2, sh⟩⟩
        rw [hs, Nat.pow_succ]; simp [Nat.mul_comm, Nat.mul_left_comm]
      · simp only [Tree.reRoot]; rw [hs, Nat.pow_succ]; simp [Nat.mul_comm, Nat.mul_left_comm]
    · have e : Tree.growF o clock (f + 1) t = t := by simp [Tree.growF, hc]
      rw [e]; exact hh

/-- **Insert into a contiguous tree** at an existing page or the next one (what a valid DAG does): the tree stays
    contiguous, exactly that page's leaf changes (`f` applied to its data, or to zero for a new page), and the keys
    newly reported dirty are that leaf's key only. -/
theorem Holds.updatePath {o : Ops R G} (L : Lawful o) {ls : Nat} {t : Tree G} {m : Nat} {val : Nat → G}
    (H : Holds o ls t m val) (clock : Nat) (f : G → G) (δ : G) (hf : ∀ d, f d = o.add d δ)
    (hP : clock / ls ≤ m) (hz : ∀ p, m ≤ p → val p = o.zero) :
    Holds o ls (Tree.updatePath o t clock f) (max m (clock / ls + 1)) (upd val (clock / ls) (f (val (clock / ls)))) ∧
    ∃ dk, (Tree.updatePath o t clock f).dirty = t.dirty ++ dk ∧ dk ≠ [] ∧ (∀ k ∈ dk, k = keyOf ls (clock / ls)) ∧
      (Tree.updatePath o t clock f).orphaned = t.orphaned := by
  have hls := H.ls_pos
  have i := H.inv
  have g := grow_spec L clock t i
  obtain ⟨gi, glt, gleaves, gls, gdirty, gorph, _⟩ := g
  have gsh := growF_shape (o := o) (ls := ls) clock (clock + 1) t m H.shape
  obtain ⟨h, sh, hs⟩ := gsh
  have gls' : (Tree.grow o t clock).leafSize = ls := by rw [gls, H.ls_eq]
  have hlt : clock / ls < 0 + 2 ^ h := by
    rw [Nat.zero_add]; apply (page_of_clock_lt hls).mp; rw [← hs]; exact glt
  have hfuel : h < (Tree.grow o t clock).treeSize := by
    show h < (Tree.growF o clock (clock + 1) t).treeSize
    rw [hs]
    have : h < 2 ^ h := Nat.lt_two_pow_self
    have : 2 ^ h ≤ ls * 2 ^ h := Nat.le_mul_of_pos_left _ hls
    omega
  have u := updateF_shape (o := o) hls f clock h 0 m (Tree.grow o t clock).treeSize (Tree.grow o t clock).root val sh
    (by rw [gleaves, H.leaves]) hfuel (Nat.zero_le _) (by rw [Nat.zero_add]; exact hP) hlt
  obtain ⟨u1, u2, u3, u4⟩ := u
  have up := updatePath_spec L t i clock f δ hf
  simp only [Nat.zero_add, Nat.sub_zero] at u1 u2
  have hval : (if clock / ls < m then val (clock / ls) else o.zero) = val (clock / ls) := by
    by_cases hc : clock / ls < m
    · simp [hc]
    · simp [hc]; exact (hz _ (by omega)).symm
  rw [hval] at u2
  refine ⟨⟨hls, by rw [up.2.1, H.ls_eq], ⟨h, ?_, ?_⟩, up.1.wf, ?_⟩, ?_⟩
  · simp only [Tree.updatePath]; rw [gls']; exact u1
  · simp only [Tree.updatePath]; exact hs
  · simp only [Tree.updatePath]; rw [gls']; exact u2
  · refine ⟨(updateF o ls f clock (Tree.grow o t clock).treeSize (Tree.grow o t clock).root).2, ?_, u4, u3, ?_⟩
    · simp only [Tree.updatePath]; rw [gls', gdirty]
    · simp only [Tree.updatePath]; exact gorph

end Nuts.C08
