/-
  C07 liveness lemmas, part C/D: replies and their absorption chunk by chunk.
-/
import NutsModel.C07.Round
import NutsProofs.Lemmas.C07
import NutsProofs.Lemmas.C07LiveB
open Nuts.Proto Nuts Nuts.Proto.L

namespace Nuts.Proto.Live

/-! ### Part C: what a node replies with -/

/-- every public transaction of the node has a non-empty payload with the right hash in the store -/
def PayloadsOK (n : Node) : Prop :=
  ∀ t ∈ n.dag, t.pal = [] → ∃ p, readPayload n t.payloadHash = some p ∧ p.sha = t.payloadHash ∧ p.len ≠ 0

/-- the wire form of one of the node's transactions -/
def netOf (n : Node) (t : Tx) : NetTx :=
  { tx := some t, payload := if t.pal.isEmpty then readPayload n t.payloadHash else none }

theorem collect_eq (n : Node) (hp : PayloadsOK n) : ∀ (l : List Tx), (∀ t ∈ l, t ∈ n.dag) → collect n l = some (l.map (netOf n)) := by
  intro l
  induction l with
  | nil => intro _; rfl
  | cons t ts ih =>
    intro h
    have iht := ih (fun x hx => h x (List.mem_cons_of_mem _ hx))
    unfold collect
    by_cases hpal : t.pal.isEmpty = true
    · obtain ⟨p, hr, _, _⟩ := hp t (h t List.mem_cons_self) (by simpa using hpal)
      simp [hpal, hr, iht, netOf]
    · simp [hpal, iht, netOf]

/-- what the receiver parses out of such a reply -/
def offerOf (n : Node) (t : Tx) : Tx × Option Payload := (t, (netOf n t).payload)

theorem parseAll_netOf (n : Node) (l : List Tx) : parseAll (l.map (netOf n)) = some (l.map (offerOf n)) := by
  induction l with
  | nil => rfl
  | cons t ts ih => simp [parseAll, netOf, ih, offerOf]

theorem offerOK_of (n : Node) (hp : PayloadsOK n) (l : List Tx) (hl : ∀ t ∈ l, t ∈ n.dag) : OfferOK (l.map (offerOf n)) := by
  intro x hx
  obtain ⟨t, ht, rfl⟩ := List.mem_map.mp hx
  simp only [offerOf, netOf]
  constructor
  · intro hpal
    obtain ⟨p, hr, _, hlen⟩ := hp t (hl t ht) hpal
    exact ⟨p, by simp [hpal, hr], hlen⟩
  · intro p hpp
    by_cases hpal : t.pal = []
    · obtain ⟨p', hr, hsha, _⟩ := hp t (hl t ht) hpal
      simp [hpal, hr] at hpp
      subst hpp; exact hsha
    · have : t.pal.isEmpty = false := by
        cases h : t.pal with
        | nil => exact absurd h hpal
        | cons _ _ => rfl
      simp [this] at hpp

/-! ### Part D: absorbing the chunks of a reply -/

theorem prevClosed_append : ∀ (l1 l2 : List Tx) (h : List Ref), PrevClosed h (l1 ++ l2) →
    PrevClosed h l1 ∧ PrevClosed ((l1.map (·.ref)).reverse ++ h) l2 := by
  intro l1
  induction l1 with
  | nil => intro l2 h hp; exact ⟨PrevClosed.nil h, by simpa using hp⟩
  | cons t ts ih =>
    intro l2 h hp
    cases hp with
    | cons _ _ _ h1 h2 =>
      obtain ⟨i1, i2⟩ := ih l2 (t.ref :: h) h2
      refine ⟨PrevClosed.cons h t ts h1 i1, ?_⟩
      simpa [List.map_cons, List.reverse_cons, List.append_assoc] using i2

@[simp] theorem commitTx_convs (cfg : Cfg) (n : Node) (tx : Tx) (pl : Option Payload) : (commitTx cfg n tx pl).convs = n.convs := rfl
@[simp] theorem commitTx_peers (cfg : Cfg) (n : Node) (tx : Tx) (pl : Option Payload) : (commitTx cfg n tx pl).peers = n.peers := rfl
@[simp] theorem commitTx_now (cfg : Cfg) (n : Node) (tx : Tx) (pl : Option Payload) : (commitTx cfg n tx pl).now = n.now := rfl
@[simp] theorem commitTx_id (cfg : Cfg) (n : Node) (tx : Tx) (pl : Option Payload) : (commitTx cfg n tx pl).id = n.id := rfl
@[simp] theorem commitTx_nextCid (cfg : Cfg) (n : Node) (tx : Tx) (pl : Option Payload) : (commitTx cfg n tx pl).nextCid = n.nextCid := rfl
@[simp] theorem commitTx_lastConv (cfg : Cfg) (n : Node) (tx : Tx) (pl : Option Payload) : (commitTx cfg n tx pl).lastConv = n.lastConv := rfl

/-- `addLoop` touches only the DAG, the payload store and the gossip queues -/
theorem addLoop_frame (cfg : Cfg) (env : Env) : ∀ (l : List (Tx × Option Payload)) (n : Node),
    (addLoop cfg env n l).node.convs = n.convs ∧ (addLoop cfg env n l).node.peers = n.peers ∧
    (addLoop cfg env n l).node.now = n.now ∧ (addLoop cfg env n l).node.id = n.id ∧
    (addLoop cfg env n l).node.nextCid = n.nextCid ∧ (addLoop cfg env n l).node.lastConv = n.lastConv := by
  intro l
  induction l with
  | nil => intro n; simp [addLoop]
  | cons x xs ih =>
    intro n
    obtain ⟨tx, pl⟩ := x
    unfold addLoop
    split
    · simp
    · rcases addTx_cases cfg env n tx pl with ⟨hr, _, hn⟩ | ⟨hr, hn, _⟩
      · split
        · rename_i n1 out1 heq
          have : n1 = commitTx cfg n tx pl := by rw [← hn, heq]
          subst this
          simpa using ih (commitTx cfg n tx pl)
        · rename_i heq; rw [heq] at hr; cases hr
        · rename_i heq; rw [heq] at hr; cases hr
        · simp
      · split
        · rename_i heq; rw [heq] at hr; exact absurd rfl hr
        · rename_i n1 _ heq
          have : n1 = n := by rw [← hn, heq]
          subst this
          exact ih n1
        · simp
        · simp


/-- the conversation check of request `D` accepts a list of the peer's transactions -/
def Accepts : ConvData → List Tx → Prop
  | .listQuery refs, l => ∀ t ∈ l, t.ref ∈ refs
  | .rangeQuery a b, l => ∀ t ∈ l, a ≤ t.clock ∧ t.clock < b
  | .state _, _ => False

theorem checkResponse_accepts (n : Node) (D : ConvData) (l : List Tx) (h : Accepts D l) (cid : Cid) (num total : Nat) :
    checkResponse D (.txList cid num total (l.map (netOf n))) = none := by
  cases D with
  | state lc => exact absurd h (by simp [Accepts])
  | listQuery refs =>
    simp only [checkResponse, parseAll_netOf]
    have : (l.map (offerOf n)).all (fun p => refs.contains p.1.ref) = true := by
      simp only [List.all_eq_true, List.mem_map]
      rintro x ⟨t, ht, rfl⟩
      simpa [offerOf] using h t ht
    rw [this]; rfl
  | rangeQuery a b =>
    simp only [checkResponse, parseAll_netOf]
    have : (l.map (offerOf n)).all (fun p => decide (a ≤ p.1.clock) && decide (p.1.clock < b)) = true := by
      simp only [List.all_eq_true, List.mem_map]
      rintro x ⟨t, ht, rfl⟩
      have := h t ht
      simp [offerOf, this.1, this.2]
    rw [this]; rfl

theorem toPeer_pq (key : Nat) (out : Out) (h : ∀ o ∈ out, ∃ r, o.2 = .payloadQuery r) : toPeer key out = [] := by
  unfold toPeer
  have : out.filter (fun o => o.1 == key && driving o.2) = [] := by
    apply List.filter_eq_nil_iff.mpr
    intro o ho
    obtain ⟨r, hr⟩ := h o ho
    simp [hr, driving]
  rw [this]; rfl

theorem absorb_cons (cfg : Cfg) (env : Env) (n : Node) (p : Peer) (m : Msg) (ms : List Msg) :
    absorb cfg env n p (m :: ms) =
      ((absorb cfg env (handle cfg env n p m).node p ms).1,
       toPeer p.key (handle cfg env n p m).out ++ (absorb cfg env (handle cfg env n p m).node p ms).2) := rfl

/-- **absorbing a chunked reply**: node `a` holds exactly the conversation `c` of its request; `b`'s reply (any
    chunking of a prev-closed list of `b`'s transactions the request accepts) is delivered chunk by chunk in order:
    everything is taken, the conversation is closed with the last chunk, and nothing is sent back -/
theorem absorb_chunks (cfg : Cfg) (env : Env) (bn : Node) (hb : DagOK bn.dag) (hpb : PayloadsOK bn) (pB : Peer) (cid : Cid) (D : ConvData)
    (total : Nat) :
    ∀ (ls : List (List Tx)) (k : Nat) (a : Node) (c : Conv) (have_ : List Ref),
      DagOK a.dag → RefFun a.dag bn.dag → RootIn a.dag bn.dag → a.convs = [c] → c.cid = cid → c.data = D →
      (∀ ch ∈ ls, Accepts D ch) → k + ls.length = total → (∀ t ∈ ls.flatten, t ∈ bn.dag) →
      (∀ r ∈ have_, present a.dag r = true) → PrevClosed have_ ls.flatten →
      let r := absorb cfg env a pB (numberChunks cid total k (ls.map (·.map (netOf bn))))
      r.2 = [] ∧ DagOK r.1.dag ∧ (∀ t ∈ ls.flatten, present r.1.dag t.ref = true) ∧
      (∀ t ∈ r.1.dag, t ∈ a.dag ∨ t ∈ ls.flatten) ∧ (∀ t ∈ a.dag, t ∈ r.1.dag) ∧
      (ls ≠ [] → r.1.convs = []) ∧ r.1.peers = a.peers ∧ r.1.now = a.now ∧ r.1.id = a.id := by
  intro ls
  induction ls with
  | nil =>
    intro k a c have_ ha _ _ hc _ _ _ _ _ _ _
    simp [numberChunks, absorb, ha]
  | cons ch rest ih =>
    intro k a c have_ ha hf hroot hc hcid hD hacc hk hmem hhave hpc
    simp only [List.map_cons, numberChunks, absorb_cons]
    -- the first chunk
    have hfind : findConv a cid = some c := by
      unfold findConv; rw [hc]; simp [hcid]
    have hchk : convCheck a cid (.txList cid (k + 1) total (ch.map (netOf bn))) = none := by
      unfold convCheck; rw [hfind]; simp only
      rw [hD]; exact checkResponse_accepts bn D ch (hacc ch List.mem_cons_self) cid _ _
    simp only [List.flatten_cons] at hmem hpc
    obtain ⟨hpc1, hpc2⟩ := prevClosed_append ch rest.flatten have_ hpc
    have hch_b : ∀ t ∈ ch, t ∈ bn.dag := fun t ht => hmem t (List.mem_append_left _ ht)
    have hoff := offerOK_of bn hpb ch hch_b
    have hmap : (ch.map (offerOf bn)).map (·.1) = ch := by simp [offerOf, List.map_map, Function.comp_def]
    obtain ⟨hfin, hall, hsub, hsup⟩ := addLoop_absorb cfg env hb (ch.map (offerOf bn)) a have_ ha hf hroot
      (by intro x hx; obtain ⟨t, ht, rfl⟩ := List.mem_map.mp hx; exact hch_b t ht) hoff hhave (by rw [hmap]; exact hpc1)
    obtain ⟨fconvs, fpeers, fnow, fid, _, _⟩ := addLoop_frame cfg env (ch.map (offerOf bn)) a
    have hok1 := (addLoop_dag cfg env (ch.map (offerOf bn)) a ha).1
    -- the handler result
    have hh : handle cfg env a pB (.txList cid (k + 1) total (ch.map (netOf bn))) =
        { node := if k + 1 ≥ total then convDone (addLoop cfg env a (ch.map (offerOf bn))).node cid
                  else resetTimeout cfg (addLoop cfg env a (ch.map (offerOf bn))).node cid,
          out := (addLoop cfg env a (ch.map (offerOf bn))).out, retry := (addLoop cfg env a (ch.map (offerOf bn))).retry } := by
      simp only [handle]
      unfold handleTransactionList
      rw [hchk]; simp only
      rw [parseAll_netOf]; simp only
      rw [hfin]
    rw [hh]
    simp only
    have hout : toPeer pB.key (addLoop cfg env a (ch.map (offerOf bn))).out = [] :=
      toPeer_pq _ _ (fun o ho => addLoop_out cfg env _ a o ho)
    rw [hout, List.nil_append]
    -- facts about the node after the first chunk
    let a1 := (addLoop cfg env a (ch.map (offerOf bn))).node
    have hf1 : RefFun a1.dag bn.dag := by
      intro t ht t' ht' he
      have conv : ∀ z, (z ∈ a1.dag ∨ z ∈ bn.dag) → (z ∈ a.dag ∨ z ∈ bn.dag) := by
        intro z hz
        rcases hz with hz | hz
        · rcases hsub z hz with h | ⟨x, hx, rfl⟩
          · exact Or.inl h
          · obtain ⟨t0, ht0, rfl⟩ := List.mem_map.mp hx
            exact Or.inr (hch_b t0 ht0)
        · exact Or.inr hz
      exact hf t (conv t ht) t' (conv t' ht') he
    have hroot1 : RootIn a1.dag bn.dag := fun t ht he => hsup t (hroot t ht he)
    have hhave1 : ∀ r ∈ (ch.map (·.ref)).reverse ++ have_, present a1.dag r = true := by
      intro r hr
      rcases List.mem_append.mp hr with h | h
      · obtain ⟨t, ht, rfl⟩ := List.mem_map.mp (List.mem_reverse.mp h)
        exact hall (offerOf bn t) (List.mem_map.mpr ⟨t, ht, rfl⟩)
      · obtain ⟨t', ht', hr'⟩ := present_iff.mp (hhave r h)
        exact present_iff.mpr ⟨t', hsup t' ht', hr'⟩
    by_cases hlast : k + 1 ≥ total
    · -- last chunk: conversation done
      have hrest : rest = [] := by
        cases rest with
        | nil => rfl
        | cons x xs => simp only [List.length_cons] at hk; omega
      subst hrest
      simp only [hlast, if_true, List.map_nil, numberChunks, absorb, List.flatten_nil, List.append_nil]
      refine ⟨trivial, hok1, ?_, ?_, hsup, ?_, fpeers, fnow, fid⟩
      · intro t ht
        have ht : t ∈ ch := by simpa using ht
        exact hall (offerOf bn t) (List.mem_map.mpr ⟨t, ht, rfl⟩)
      · intro t ht
        rcases hsub t ht with h | ⟨x, hx, rfl⟩
        · exact Or.inl h
        · obtain ⟨t0, ht0, rfl⟩ := List.mem_map.mp hx
          exact Or.inr (by simpa [offerOf] using ht0)
      · intro _
        show (convDone a1 cid).convs = []
        simp only [convDone, a1, fconvs, hc]
        simp [hcid]
    · -- more chunks follow: timeout reset, conversation stays
      simp only [hlast, if_false]
      have hne : rest ≠ [] := by
        intro h; subst h; simp only [List.length_cons, List.length_nil] at hk; omega
      let a2 := resetTimeout cfg a1 cid
      have hc2 : a2.convs = [{ c with expiry := a1.now + cfg.validity }] := by
        show (resetTimeout cfg a1 cid).convs = _
        simp only [resetTimeout, a1, fconvs, hc, List.map_cons, List.map_nil]
        simp [hcid]
      obtain ⟨g1, g2, g3, g4, g5, g6, g7, g8, g9⟩ := ih (k + 1) a2 { c with expiry := a1.now + cfg.validity } _
        (by simpa [a2] using hok1) (by simpa [a2] using hf1) (by simpa [a2] using hroot1) hc2 hcid hD
        (fun x hx => hacc x (List.mem_cons_of_mem _ hx)) (by simp only [List.length_cons] at hk; omega)
        (fun t ht => hmem t (List.mem_append_right _ ht)) (by simpa [a2] using hhave1) hpc2
      refine ⟨g1, g2, ?_, ?_, fun t ht => g5 t (hsup t ht), fun _ => g6 hne, ?_, ?_, ?_⟩
      · intro t ht
        rcases List.mem_append.mp ht with h | h
        · obtain ⟨t', ht', hr'⟩ := present_iff.mp (hall (offerOf bn t) (List.mem_map.mpr ⟨t, h, rfl⟩))
          exact present_iff.mpr ⟨t', g5 t' ht', hr'⟩
        · exact g3 t h
      · intro t ht
        rcases g4 t ht with h | h
        · rcases hsub t h with h' | ⟨x, hx, rfl⟩
          · exact Or.inl h'
          · obtain ⟨t0, ht0, rfl⟩ := List.mem_map.mp hx
            exact Or.inr (List.mem_append_left _ ht0)
        · exact Or.inr (List.mem_append_right _ h)
      · rw [g7]; exact fpeers
      · rw [g8]; exact fnow
      · rw [g9]; exact fid

end Nuts.Proto.Live
