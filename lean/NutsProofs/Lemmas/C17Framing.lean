/-
  C17 — lemmas about the byte-level framing model (NutsModel/C17/Framing.lean): base64url round trip, canonical segments,
  split / join. Core Lean only.
-/
import NutsModel.C17.Framing
namespace Nuts.C17.Framing

theorem idx_chr {s : Nat} (h : s < 64) : idx (chr s) = some s := by
  unfold chr
  split
  · unfold idx; rw [if_pos (by omega)]; congr 1
  · split
    · unfold idx; rw [if_neg (by omega), if_pos (by omega)]; congr 1 <;> omega
    · split
      · unfold idx; rw [if_neg (by omega), if_neg (by omega), if_pos (by omega)]; congr 1 <;> omega
      · split
        · next h62 => subst h62; rfl
        · have : s = 63 := by omega
          subst this; rfl

theorem idx_chr_isSome (s : Nat) : (idx (chr s)).isSome = true := by
  unfold chr
  split
  · unfold idx; rw [if_pos (by omega)]; rfl
  · split
    · unfold idx; rw [if_neg (by omega), if_pos (by omega)]; rfl
    · split
      · unfold idx; rw [if_neg (by omega), if_neg (by omega), if_pos (by omega)]; rfl
      · split <;> simp [idx]

theorem chr_not_nl (s : Nat) : ¬ (chr s = 10 ∨ chr s = 13) := by
  unfold chr
  split <;> (try split) <;> (try split) <;> (try split) <;> omega

theorem sextets_map_chr : ∀ (l : List Nat), (∀ s ∈ l, s < 64) → sextets (l.map chr) = some l
  | [], _ => rfl
  | s :: r, h => by
    have hs : s < 64 := h s (by simp)
    have hr := sextets_map_chr r (fun x hx => h x (by simp [hx]))
    simp only [List.map, sextets, if_neg (chr_not_nl s), idx_chr hs, hr, Option.map]

theorem encSextets_lt : ∀ (b : Bytes), (∀ x ∈ b, x < 256) → ∀ s ∈ encSextets b, s < 64 := by
  intro b
  induction b using encSextets.induct with
  | case1 x y z rest ih =>
    intro h s hs
    have hx := h x (by simp); have hy := h y (by simp); have hz := h z (by simp)
    simp only [encSextets, List.mem_cons] at hs
    rcases hs with rfl | rfl | rfl | rfl | hs
    · omega
    · omega
    · omega
    · omega
    · exact ih (fun w hw => h w (by simp [hw])) s hs
  | case2 x y =>
    intro h s hs
    have hx := h x (by simp); have hy := h y (by simp)
    simp only [encSextets, List.mem_cons, List.not_mem_nil, or_false] at hs
    rcases hs with rfl | rfl | rfl <;> omega
  | case3 x =>
    intro h s hs
    have hx := h x (by simp)
    simp only [encSextets, List.mem_cons, List.not_mem_nil, or_false] at hs
    rcases hs with rfl | rfl <;> omega
  | case4 => intro _ s hs; simp [encSextets] at hs

theorem dec_enc_sextets : ∀ (b : Bytes), (∀ x ∈ b, x < 256) → decSextets (encSextets b) = some b := by
  intro b
  induction b using encSextets.induct with
  | case1 x y z rest ih =>
    intro h
    have hx := h x (by simp); have hy := h y (by simp); have hz := h z (by simp)
    have hr := ih (fun w hw => h w (by simp [hw]))
    simp only [encSextets, decSextets, hr, Option.map]
    have e1 : x / 4 * 4 + (x % 4 * 16 + y / 16) / 16 = x := by omega
    have e2 : (x % 4 * 16 + y / 16) % 16 * 16 + (y % 16 * 4 + z / 64) / 4 = y := by omega
    have e3 : (y % 16 * 4 + z / 64) % 4 * 64 + z % 64 = z := by omega
    rw [e1, e2, e3]
  | case2 x y =>
    intro h
    have hx := h x (by simp); have hy := h y (by simp)
    simp only [encSextets, decSextets]
    have e1 : x / 4 * 4 + (x % 4 * 16 + y / 16) / 16 = x := by omega
    have e2 : (x % 4 * 16 + y / 16) % 16 * 16 + (y % 16 * 4) / 4 = y := by omega
    rw [e1, e2]
  | case3 x =>
    intro h
    have hx := h x (by simp)
    simp only [encSextets, decSextets]
    have e1 : x / 4 * 4 + (x % 4 * 16) / 16 = x := by omega
    rw [e1]
  | case4 => intro _; rfl

theorem decode_encode (b : Bytes) (h : ∀ x ∈ b, x < 256) : decode (encode b) = some b := by
  unfold decode encode
  rw [sextets_map_chr _ (encSextets_lt b h)]
  exact dec_enc_sextets b h

theorem encode_canonical (b : Bytes) (h : ∀ x ∈ b, x < 256) : canonical (encode b) = true := by
  unfold canonical
  rw [decode_encode b h]
  simp

theorem canonical_eq {s : Bytes} (h : canonical s = true) : ∃ d, decode s = some d ∧ encode d = s := by
  unfold canonical at h
  split at h
  · cases h
  · next d hd => exact ⟨d, hd, by simpa using h⟩

theorem canonical_unique {a b : Bytes} (ha : canonical a = true) (hb : canonical b = true) (h : decode a = decode b) : a = b := by
  obtain ⟨da, ha1, ha2⟩ := canonical_eq ha
  obtain ⟨db, hb1, hb2⟩ := canonical_eq hb
  rw [ha1, hb1] at h
  cases h
  rw [← ha2, ← hb2]

theorem canonical_chars {s : Bytes} (h : canonical s = true) : ∀ c ∈ s, (idx c).isSome = true := by
  obtain ⟨d, _, hd⟩ := canonical_eq h
  intro c hc
  rw [← hd] at hc
  unfold encode at hc
  obtain ⟨x, _, rfl⟩ := List.mem_map.mp hc
  exact idx_chr_isSome x

theorem join_split : ∀ (l : Bytes), joinDot (splitDot l).1 (splitDot l).2 = l
  | [] => rfl
  | c :: r => by
    have ih := join_split r
    unfold splitDot
    simp only
    split
    · next hc => subst hc; simp only [joinDot, List.nil_append, ih]
    · generalize splitDot r = p at ih ⊢
      obtain ⟨h, t⟩ := p
      cases t <;> simp_all [joinDot]

theorem chr_ne_dot (s : Nat) : chr s ≠ 46 := by
  unfold chr
  split <;> (try split) <;> (try split) <;> (try split) <;> omega

theorem encode_no_dot (b : Bytes) : ∀ c ∈ encode b, c ≠ 46 := by
  intro c hc
  unfold encode at hc
  obtain ⟨x, _, rfl⟩ := List.mem_map.mp hc
  exact chr_ne_dot x

theorem splitDot_nodot : ∀ (x : Bytes), (∀ c ∈ x, c ≠ 46) → splitDot x = (x, [])
  | [], _ => rfl
  | c :: r, h => by
    have ih := splitDot_nodot r (fun d hd => h d (by simp [hd]))
    have hc : c ≠ 46 := h c (by simp)
    simp only [splitDot, ih, if_neg hc]

theorem splitDot_append : ∀ (x r : Bytes), (∀ c ∈ x, c ≠ 46) →
    splitDot (x ++ 46 :: r) = (x, (splitDot r).1 :: (splitDot r).2)
  | [], r, _ => by simp [splitDot]
  | c :: x, r, h => by
    have ih := splitDot_append x r (fun d hd => h d (by simp [hd]))
    have hc : c ≠ 46 := h c (by simp)
    simp only [List.cons_append, splitDot, ih, if_neg hc]

theorem segments_compact (a b c : Bytes) (ha : ∀ x ∈ a, x ≠ 46) (hb : ∀ x ∈ b, x ≠ 46) (hc : ∀ x ∈ c, x ≠ 46) :
    segments (a ++ 46 :: (b ++ 46 :: c)) = [a, b, c] := by
  unfold segments
  rw [splitDot_append a _ ha, splitDot_append b _ hb, splitDot_nodot c hc]

theorem trim_space_cons (a : Bytes) : trimLeftSpace (32 :: a) = trimLeftSpace a := by
  unfold trimLeftSpace
  simp [trimN, stripSpace, spaceSeqs, List.findSome?]

end Nuts.C17.Framing
