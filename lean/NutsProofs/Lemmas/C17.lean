/-
  Helper lemmas for C17 (NutsModel/C17/TokenPolicy.lean). Core Lean only.
-/
import NutsModel.C17.TokenPolicy
import NutsProofs.Lemmas.C04

namespace Nuts.C17
open Nuts.C04

/-! ### what acceptance implies, consumer by consumer -/

theorem parseJWT_accept {sup : List String} {E : Env} {j : Jws} {vs : List Verified}
    (h : parseJWT sup E j = .accept vs) :
    ∃ s k, j.sigs = [s] ∧ vs = [{ key := k, src := .resolver s.kid, alg := s.alg, idx := 0, overSigningInput := true }] ∧
      E.resolve s.kid = some k ∧ s.alg ∈ sup ∧ E.verifies k s.alg 0 = true ∧ E.fits k s.alg = true := by
  unfold parseJWT at h
  split at h; · cases h
  split at h
  · next s hs =>
    split at h; · cases h
    next k hk =>
    split at h; · cases h
    next hsup =>
    split at h; · cases h
    next hfit =>
    split at h
    · next hver =>
      injection h with h
      exact ⟨s, k, hs, h.symm, hk, by simpa using hsup, hver, by simpa using hfit⟩
    · cases h
  · cases h

theorem jwsLoop_single {sup : List String} {E : Env} {s : Sig} {vs : List Verified}
    (h : jwsLoop sup .library E 0 [s] = some vs) :
    ∃ k, vs = [{ key := k, src := .resolver s.kid, alg := s.alg, idx := 0, overSigningInput := true }] ∧
      E.resolve s.kid = some k ∧ s.alg ∈ sup ∧ E.verifies k s.alg 0 = true ∧ E.fits k s.alg = true := by
  unfold jwsLoop at h
  split at h; · cases h
  next hsup =>
  split at h; · cases h
  next k hk =>
  split at h; · cases h
  next hfit =>
  simp only at h
  split at h; · cases h
  next hver =>
  unfold jwsLoop at h
  simp at h
  exact ⟨k, h.symm, hk, by simpa using hsup, by simpa using hver, by simpa using hfit⟩

theorem parseJWS_accept_fixed {sup : List String} {E : Env} {j : Jws} {vs : List Verified}
    (h : parseJWS sup .exactlyOne .library E j = .accept vs) :
    ∃ s k, j.sigs = [s] ∧ vs = [{ key := k, src := .resolver s.kid, alg := s.alg, idx := 0, overSigningInput := true }] ∧
      E.resolve s.kid = some k ∧ s.alg ∈ sup ∧ E.verifies k s.alg 0 = true ∧ E.fits k s.alg = true := by
  unfold parseJWS at h
  split at h; · cases h
  split at h; · cases h
  split at h; · cases h
  next hlen =>
  have hl : j.sigs.length = 1 := by simpa using hlen
  match hs : j.sigs, hl with
  | [s], _ =>
    rw [hs] at h
    split at h
    · next vs' hloop =>
      injection h with h
      subst h
      obtain ⟨k, h1, h2, h3, h4, h5⟩ := jwsLoop_single hloop
      exact ⟨s, k, rfl, h1, h2, h3, h4, h5⟩
    · cases h

theorem dpop_accept {sup : List String} {typ : String} {E : Env} {c : Bool} {j : Jws} {vs : List Verified}
    (h : dpopParse sup typ E c j = .accept vs) :
    ∃ s k, j.sigs = [s] ∧ vs = [{ key := k, src := .embedded 0, alg := s.alg, idx := 0, overSigningInput := true }] ∧
      s.alg ∈ sup ∧ s.typ = typ ∧ s.jwk ≠ .absent ∧ s.jwk ≠ .priv ∧ E.embeddedKey 0 = some k ∧ E.verifies k s.alg 0 = true ∧ E.fits k s.alg = true := by
  unfold dpopParse at h
  split at h; · cases h
  split at h
  · next s hs =>
    split at h; · cases h
    next hsup =>
    split at h; · cases h
    next htyp =>
    split at h; · cases h
    next hj1 =>
    split at h; · cases h
    next hj2 =>
    split at h; · cases h
    next k hk =>
    split at h; · cases h
    next hfit =>
    split at h; · cases h
    next hver =>
    split at h; · cases h
    injection h with h
    exact ⟨s, k, hs, h.symm, by simpa using hsup, by simpa using htyp, hj1, hj2, hk, by simpa using hver, by simpa using hfit⟩
  · cases h

theorem dagTx_accept {allowed : List String} {rej strict : Bool} {E : Env} {o fr : Bool} {j : Jws} {vs : List Verified}
    (h : dagTx allowed rej strict E o fr j = .accept vs) :
    ∃ s v, j.sigs = [s] ∧ vs = [v] ∧ v.idx = 0 ∧ v.alg = s.alg ∧ s.alg ∈ allowed ∧ v.overSigningInput = true ∧
      E.verifies v.key s.alg 0 = true ∧
      ((v.src = .embedded 0 ∧ E.embeddedKey 0 = some v.key ∧ s.jwk ≠ .absent ∧ s.kid = "") ∨
       (v.src = .resolver s.kid ∧ E.resolve s.kid = some v.key ∧ s.jwk = .absent ∧ s.kid ≠ "")) ∧
      (rej = true → s.jwk ≠ .priv) ∧ (strict = true → fr = true) ∧ E.fits v.key s.alg = true := by
  unfold dagTx at h
  split at h; · cases h
  split at h; · cases h
  next hfr =>
  split at h
  · cases h
  · next s hs =>
    split at h; · cases h
    next hal =>
    split at h; · cases h
    split at h; · cases h
    next hxor =>
    split at h; · cases h
    next hpriv =>
    simp only at h
    split at h
    · cases h
    · next k src hkey =>
      split at h; · cases h
      next hfit =>
      split at h
      · next hver =>
        injection h with h
        refine ⟨s, _, hs, h.symm, rfl, rfl, by simpa using hal, rfl, hver, ?_, ?_, ?_, by simpa using hfit⟩
        · simp only [Bool.or_eq_true, Bool.and_eq_true, decide_eq_true_eq, not_or, not_and] at hxor
          by_cases hj : s.jwk = .absent
          · right
            simp only [hj, ne_eq, not_true_eq_false, if_false, Option.map_eq_some_iff] at hkey
            obtain ⟨k', hk', heq⟩ := hkey
            injection heq with h1 h2
            subst h1; subst h2
            have : s.kid ≠ "" := by
              intro hk0
              exact (hxor.2 (by simp [hj])) (by simpa using hk0)
            exact ⟨rfl, hk', hj, this⟩
          · left
            simp only [ne_eq, hj, not_false_eq_true, if_true, Option.map_eq_some_iff] at hkey
            obtain ⟨k', hk', heq⟩ := hkey
            injection heq with h1 h2
            subst h1; subst h2
            have : s.kid = "" := by
              by_cases hk0 : s.kid = ""
              · exact hk0
              · exact absurd (by simpa using hk0) (hxor.1 (by simpa using hj))
            exact ⟨rfl, hk', hj, this⟩
        · intro hr hp
          simp [hr, hp] at hpriv
        · intro hst
          cases hf : fr
          · simp [hst, hf] at hfr
          · rfl
      · cases h
  · cases h

theorem firstVerifying_spec {n i : Nat} {l : List Bool} (h : firstVerifying n l = some i) :
    ∃ m, i = n + m ∧ l[m]? = some true := by
  induction l generalizing n with
  | nil => simp [firstVerifying] at h
  | cons b r ih =>
    simp only [firstVerifying] at h
    split at h
    · next hb => simp at h; exact ⟨0, by omega, by simp [hb]⟩
    · obtain ⟨m, hm, hl⟩ := ih h
      exact ⟨m + 1, by omega, by simpa using hl⟩

theorem firstVerifying_some_of_mem {n : Nat} {l : List Bool} (h : true ∈ l) : ∃ i, firstVerifying n l = some i := by
  induction l generalizing n with
  | nil => cases h
  | cons b r ih =>
    simp only [firstVerifying]
    split
    · exact ⟨n, rfl⟩
    · next hb =>
      cases h with
      | head => exact absurd rfl hb
      | tail _ hr => exact ih hr

theorem apiToken_accept {P : Policy} {aud : String} {keys : List AuthKey} {now : Int} {hdr : Str} {a : Analysis} {vs : List Verified}
    (hrule : P.sigRule = .exactlyOne) (hforb : P.forbiddenHdrs = ["jwk", "jku", "x5c", "x5u"])
    (h : apiToken P aud keys now hdr a = .accept vs) :
    ∃ s i u, a.sigs = [s] ∧
      vs = [{ key := "authorized-key", src := .authorizedKeys i, alg := (a.sigs.head?.map (·.alg)).getD "", idx := 0,
              overSigningInput := true }] ∧
      s.alg ∈ P.acceptableAlgs ∧ (∀ x ∈ ["jwk", "jku", "x5c", "x5u"], x ∉ s.hdrs) ∧ a.verifies[i]? = some true ∧
      ∃ k, (k, true) ∈ keys.zip a.verifies ∧ k.comment = u ∧ a.claims.iss = some u := by
  unfold apiToken at h
  split at h; · cases h
  next u hd =>
  unfold tokenDecision at hd
  simp only at hd
  split at hd; · cases hd
  split at hd; · cases hd
  next hsec =>
  have hsec' : credentialIsSecure P (authenticationCredential hdr).length a = true := by
    cases hc : credentialIsSecure P (authenticationCredential hdr).length a
    · simp [hc] at hsec
    · rfl
  obtain ⟨k, hk, _, _, hiss, hcom⟩ := keyLoop_granted hd
  simp only [credentialIsSecure, Bool.and_eq_true, decide_eq_true_eq, List.all_eq_true, sigCountOK, hrule] at hsec'
  obtain ⟨⟨⟨_, _⟩, hsigs⟩, hcount⟩ := hsec'
  have htrue : true ∈ a.verifies := (List.of_mem_zip hk).2
  obtain ⟨i, hi⟩ := firstVerifying_some_of_mem (n := 0) htrue
  rw [hi] at h
  simp only at h
  injection h with h
  obtain ⟨m, hm, hl⟩ := firstVerifying_spec hi
  have him : i = m := by omega
  subst him
  match hs : a.sigs, hcount with
  | [s], _ =>
    have hsec := hsigs s (by simp [hs])
    simp only [sigSecure, Bool.and_eq_true, Bool.not_eq_true', List.any_eq_false, List.contains_eq_mem, decide_eq_true_eq, hforb] at hsec
    refine ⟨s, i, u, rfl, ?_, hsec.1, ?_, hl, k, hk, hcom, hiss⟩
    · rw [← h, hs]
    · intro x hx
      have := hsec.2 x hx
      simpa using this

theorem apiToken_forbidden_header {P : Policy} {aud : String} {keys : List AuthKey} {now : Int} {hdr : Str} {a : Analysis}
    {s : SigHdr} {x : String} (hforb : P.forbiddenHdrs = ["jwk", "jku", "x5c", "x5u"])
    (hs : s ∈ a.sigs) (hx : x ∈ s.hdrs) (hf : x ∈ ["jwk", "jku", "x5c", "x5u"]) :
    apiToken P aud keys now hdr a = .reject := by
  have hnot : sigSecure P s = false := by
    simp only [sigSecure, Bool.and_eq_false_iff, Bool.not_eq_false', List.any_eq_true, hforb]
    right
    exact ⟨x, hf, by simpa using hx⟩
  have hsec : credentialIsSecure P (authenticationCredential hdr).length a = false := by
    simp only [credentialIsSecure, Bool.and_eq_false_iff, List.all_eq_false]
    left; right
    exact ⟨s, hs, by simp [hnot]⟩
  unfold apiToken tokenDecision
  simp only [hsec]
  split <;> simp_all

theorem jar_accept {sup : List String} {E : Env} {J : JarEnv} {j : Jws} {vs : List Verified}
    (h : jarValidate sup E J j = .accept vs) :
    parseJWT sup E j = .accept vs ∧ J.clientIdMatches = true ∧
      (∀ s v, j.sigs = [s] → vs = [v] → v.src = .resolver s.kid → J.clientKey s.kid = some v.key) := by
  unfold jarValidate at h
  split at h; · cases h
  next vs' hp =>
  split at h; · cases h
  next hcid =>
  split at h; · cases h
  split at h
  · next v =>
    split at h
    · next kid hsrc =>
      split at h
      · cases h
      · next ck hck =>
        split at h
        · next heq =>
          injection h with h
          subst h
          refine ⟨hp, by simpa using hcid, ?_⟩
          intro s v' _ hv hsrc'
          injection hv with hv _
          subst hv
          rw [hsrc] at hsrc'
          injection hsrc' with hk
          rw [← hk, hck, heq]
        · cases h
    · cases h
  · cases h

theorem vcJwt_accept {sup : List String} {E : Env} {issuer : String} {didOf : String → String} {j : Jws} {vs : List Verified}
    (h : vcJwtSignature sup E issuer didOf j = .accept vs) :
    parseJWT sup { E with resolve := fun kid => E.resolve (if kid = "" then issuer else kid) } j = .accept vs ∧
      ∀ s, j.sigs = [s] → s.kid ≠ "" → didOf s.kid = issuer := by
  unfold vcJwtSignature at h
  simp only at h
  split at h; · cases h
  next vs' hp =>
  split at h
  · next s hs =>
    split at h; · cases h
    next hk =>
    injection h with h
    subst h
    refine ⟨hp, ?_⟩
    intro s' hs' hne
    rw [hs] at hs'
    injection hs' with hs' _
    subst hs'
    simp only [Bool.and_eq_true, decide_eq_true_eq, not_and, Decidable.not_not] at hk
    exact hk (by simpa using hne)
  · cases h

theorem authzV1_accept {sup : List String} {E : Env} {issuer : String} {ip : Bool} {didOf : String → String} {j : Jws}
    {vs : List Verified} (h : authzV1 sup true E issuer ip didOf j = .accept vs) :
    parseJWT sup E j = .accept vs ∧ ip = true ∧ ∀ s, j.sigs = [s] → didOf s.kid = issuer := by
  unfold authzV1 at h
  split at h; · cases h
  next vs' hp =>
  split at h; · cases h
  next hip =>
  split at h
  · next s hs =>
    split at h; · cases h
    next hk =>
    injection h with h
    subst h
    refine ⟨hp, by simpa using hip, ?_⟩
    intro s' hs'
    rw [hs] at hs'
    injection hs' with hs' _
    subst hs'
    simpa using hk
  · cases h

theorem ldProof_accept {L : LdEnv} {key : Key} {canon : Bool} {parts : Nat} {dec : Bool} {vs : List Verified}
    (h : ldProofVerify L key canon parts dec = .accept vs) :
    ∃ alg, vs = [{ key := key, src := .caller, alg := alg, idx := 0, overSigningInput := true }] ∧
      L.keyAlg key = some alg ∧ L.verifiesDetached key alg = true ∧ parts = 2 ∧ L.fits key alg = true := by
  unfold ldProofVerify at h
  split at h; · cases h
  split at h; · cases h
  next alg hka =>
  split at h; · cases h
  next hfit =>
  split at h; · cases h
  next hparts =>
  split at h; · cases h
  split at h
  · next hver =>
    injection h with h
    exact ⟨alg, h.symm, hka, hver, by simpa using hparts, by simpa using hfit⟩
  · cases h

/-! ### key-carrying headers do not influence the decision where no embedded key is mandated -/

/-- rewrite the key-carrying headers of every signature -/
def withHeaders (f : Sig → JwkKind) (g : Sig → List String) (j : Jws) : Jws :=
  { j with sigs := j.sigs.map (fun s => { s with jwk := f s, hdrs := g s }) }

theorem parseJWT_headers_irrelevant (sup : List String) (E : Env) (j : Jws) (f : Sig → JwkKind) (g : Sig → List String) :
    parseJWT sup E (withHeaders f g j) = parseJWT sup E j := by
  unfold parseJWT withHeaders
  simp only
  match j.sigs with
  | [] => rfl
  | [s] => rfl
  | _ :: _ :: _ => rfl

theorem jwsLoop_headers_irrelevant (sup : List String) (mode : VerifyMode) (E : Env) (f : Sig → JwkKind) (g : Sig → List String)
    (i : Nat) (l : List Sig) :
    jwsLoop sup mode E i (l.map (fun s => { s with jwk := f s, hdrs := g s })) = jwsLoop sup mode E i l := by
  induction l generalizing i with
  | nil => rfl
  | cons s r ih => simp only [List.map, jwsLoop, ih]

theorem parseJWS_headers_irrelevant (sup : List String) (rule : CountRule) (mode : VerifyMode) (E : Env) (j : Jws)
    (f : Sig → JwkKind) (g : Sig → List String) :
    parseJWS sup rule mode E (withHeaders f g j) = parseJWS sup rule mode E j := by
  unfold parseJWS withHeaders
  simp only [jwsLoop_headers_irrelevant, List.length_map]

theorem jar_headers_irrelevant (sup : List String) (E : Env) (J : JarEnv) (j : Jws) (f : Sig → JwkKind) (g : Sig → List String) :
    jarValidate sup E J (withHeaders f g j) = jarValidate sup E J j := by
  unfold jarValidate
  rw [parseJWT_headers_irrelevant]

theorem dpop_hdrs_irrelevant (sup : List String) (typ : String) (E : Env) (c : Bool) (j : Jws) (g : Sig → List String) :
    dpopParse sup typ E c (withHeaders (·.jwk) g j) = dpopParse sup typ E c j := by
  unfold dpopParse withHeaders
  simp only
  match j.sigs with
  | [] => rfl
  | [s] => rfl
  | _ :: _ :: _ => rfl

theorem dagTx_hdrs_irrelevant (allowed : List String) (rej strict : Bool) (E : Env) (o fr : Bool) (j : Jws) (g : Sig → List String) :
    dagTx allowed rej strict E o fr (withHeaders (·.jwk) g j) = dagTx allowed rej strict E o fr j := by
  unfold dagTx withHeaders
  simp only
  match j.sigs with
  | [] => rfl
  | [s] => rfl
  | _ :: _ :: _ => rfl

end Nuts.C17
