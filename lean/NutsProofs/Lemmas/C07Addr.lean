/-
  C07 deepening round 3 — lemmas about NutsModel/C07/Addr.lean (first-match loop of connectionList.get).
-/
import NutsModel.C07.Addr

namespace Nuts.Proto.Addr

theorem getFrom_some (q : List Pred) : ∀ (l : List Conn) (i k : Nat), getFrom q l i = some k →
    ∃ j c, k = i + j ∧ l[j]? = some c ∧ matchesAll q c = true ∧
      ∀ j' c', j' < j → l[j']? = some c' → matchesAll q c' = false := by
  intro l
  induction l with
  | nil => intro i k h; simp [getFrom] at h
  | cons c r ih =>
    intro i k h
    simp only [getFrom] at h
    split at h
    · rename_i hm
      refine ⟨0, c, ?_, by simp, hm, ?_⟩
      · simp at h; omega
      · intro j' c' hj; omega
    · rename_i hm
      obtain ⟨j, c2, hk, hg, hm2, hmin⟩ := ih (i + 1) k h
      refine ⟨j + 1, c2, by omega, by simpa using hg, hm2, ?_⟩
      intro j' c' hj hg'
      cases j' with
      | zero => simp at hg'; subst hg'; simpa using hm
      | succ n => exact hmin n c' (by omega) (by simpa using hg')

theorem getFrom_none (q : List Pred) : ∀ (l : List Conn) (i : Nat), getFrom q l i = none →
    ∀ c ∈ l, matchesAll q c = false := by
  intro l
  induction l with
  | nil => intro i _ c hc; simp at hc
  | cons c r ih =>
    intro i h c' hc'
    simp only [getFrom] at h
    split at h
    · simp at h
    · rename_i hm
      rcases List.mem_cons.mp hc' with rfl | hr
      · simpa using hm
      · exact ih (i + 1) h c' hr

theorem get_some {l : List Conn} {q : List Pred} {k : Nat} (h : get l q = some k) :
    q ≠ [] ∧ ∃ c, l[k]? = some c ∧ matchesAll q c = true ∧
      ∀ j' c', j' < k → l[j']? = some c' → matchesAll q c' = false := by
  unfold get at h
  split at h
  · simp at h
  · rename_i hq
    obtain ⟨j, c, hk, hg, hm, hmin⟩ := getFrom_some q l 0 k h
    have : k = j := by omega
    subst this
    exact ⟨by intro e; simp [e] at hq, c, hg, hm, hmin⟩

theorem get_none_of_nonempty {l : List Conn} {q : List Pred} (hq : q ≠ []) (h : get l q = none) :
    ∀ c ∈ l, matchesAll q c = false := by
  unfold get at h
  split at h
  · rename_i he; cases q with
    | nil => exact absurd rfl hq
    | cons a b => simp at he
  · exact getFrom_none q l 0 h

theorem matchesAll_gossip (p : TPeer) (c : Conn) :
    matchesAll (gossipQuery p) c = true ↔ c.connected = true ∧ c.peer.key = p.key := by
  simp [matchesAll, gossipQuery, Pred.matches]

end Nuts.Proto.Addr
