/-
  Helper lemmas for C04 (NutsModel/C04/HttpGuard.lean, Token.lean). Core Lean only.
-/
import NutsModel.C04.Token

namespace Nuts.C04

/-! ### literal prefixes -/

theorem stripPrefix_eq {s t r : Str} (h : stripPrefix s t = some r) : t = s ++ r := by
  induction s generalizing t with
  | nil => simp [stripPrefix] at h; simp [h]
  | cons a as ih =>
    cases t with
    | nil => simp [stripPrefix] at h
    | cons b bs =>
      simp only [stripPrefix] at h
      split at h
      · next hab => subst hab; simp [ih h]
      · simp at h

/-- a pattern beginning with a literal segment only matches paths beginning with `/` + that literal, followed by
    the end of the path or another `/` -/
theorem matchPat_lit_head {leaf : Bool} {s : Str} {ps : List Seg} {p : Str}
    (h : matchPat leaf (.lit s :: ps) p = true) : ∃ r', p = '/' :: (s ++ r') ∧ atBoundary r' = true := by
  unfold matchPat at h
  split at h
  · next rest =>
    split at h
    · next r' hs =>
      simp only [Bool.and_eq_true] at h
      exact ⟨r', by rw [stripPrefix_eq hs], h.1⟩
    · simp at h
  · simp at h

/-! ### route selection returns a registered route that matches -/

theorem mem_insertSorted {α} (lt : α → α → Bool) (x y : α) (l : List α) (h : y ∈ insertSorted lt x l) : y = x ∨ y ∈ l := by
  induction l with
  | nil => simp [insertSorted] at h; exact Or.inl h
  | cons a as ih =>
    simp only [insertSorted] at h
    split at h
    · simp at h; rcases h with h | h | h <;> simp [h]
    · simp at h
      rcases h with h | h
      · simp [h]
      · rcases ih h with h | h <;> simp [h]

theorem mem_sortBy {α} (lt : α → α → Bool) (y : α) (l : List α) (h : y ∈ sortBy lt l) : y ∈ l := by
  induction l with
  | nil => simp [sortBy] at h
  | cons a as ih =>
    simp only [sortBy, List.foldr] at h
    rcases mem_insertSorted lt a y _ h with h | h
    · simp [h]
    · exact List.mem_cons_of_mem _ (ih h)

theorem walkCands_mem {all : List Route} {m : String} {l : List Route} {r : Route}
    (h : walkCands all m l = some r) : r ∈ all ∧ r.method = m := by
  induction l with
  | nil => simp [walkCands] at h
  | cons a as ih =>
    simp only [walkCands] at h
    split at h
    · next q hq =>
      simp at h; subst h
      have := List.find?_some hq
      simp only [Bool.and_eq_true, decide_eq_true_eq] at this
      exact ⟨List.mem_of_find?_eq_some hq, this.2⟩
    · split at h
      · simp at h
      · exact ih h

theorem findRoute_handler {rs : List Route} {m : String} {p : Str} {r : Route}
    (h : findRoute rs m p = .handler r) : r ∈ rs ∧ pathMatches rs p r = true ∧ r.method = m := by
  unfold findRoute at h
  simp only at h
  split at h
  · next r' hb =>
    have hr : r' = r := by simpa using h
    subst hr
    obtain ⟨hmem, hm⟩ := walkCands_mem hb
    have hmem' := mem_sortBy _ _ _ hmem
    simp only [List.mem_filter] at hmem'
    exact ⟨hmem'.1, hmem'.2, hm⟩
  · split at h <;> simp at h

/-! ### unescape keeps a `%`-free literal prefix -/

theorem unescapeSt_zero_irrel (a b : Char) (r : Str) : unescapeSt 0 a r = unescapeSt 0 b r := by
  cases r <;> simp [unescapeSt]

theorem unescape_cons_ne {c : Char} (hc : c ≠ '%') (r : Str) : unescape (c :: r) = (unescape r).map (c :: ·) := by
  simp only [unescape, unescapeSt, hc, if_false]
  rw [unescapeSt_zero_irrel c ' ' r]

theorem unescape_lit_prefix (s r : Str) (hs : ∀ c ∈ s, c ≠ '%') :
    unescape (s ++ r) = (unescape r).map (s ++ ·) := by
  induction s with
  | nil => simp
  | cons a as ih =>
    have ha : a ≠ '%' := hs a (by simp)
    have has : ∀ c ∈ as, c ≠ '%' := fun c hc => hs c (by simp [hc])
    rw [List.cons_append, unescape_cons_ne ha, ih has]
    cases unescape r <;> simp

theorem unescape_boundary {r q : Str} (hb : atBoundary r = true) (h : unescape r = some q) : atBoundary q = true := by
  cases r with
  | nil => simp [unescape, unescapeSt] at h; subst h; rfl
  | cons c t =>
    simp [atBoundary] at hb
    subst hb
    rw [unescape_cons_ne (by decide)] at h
    cases hu : unescape t with
    | none => simp [hu] at h
    | some q' => simp [hu] at h; subst h; simp [atBoundary]

/-! ### matchesPath on a path with the guarded prefix -/

theorem isPrefixOf_append_self (l x : Str) : l.isPrefixOf (l ++ x) = true := by
  induction l with
  | nil => simp [List.isPrefixOf]
  | cons a as ih => simp [ih]

def internalLit : Str := ['i', 'n', 't', 'e', 'r', 'n', 'a', 'l']
def internalPath : Str := '/' :: internalLit

theorem matchesPath_internal (r' : Str) (hb : atBoundary r' = true) :
    matchesPath ('/' :: (internalLit ++ r')) internalPath = true := by
  cases r' with
  | nil => decide
  | cons c t =>
    simp [atBoundary] at hb
    subst hb
    unfold matchesPath
    have hp : (internalPath = ['/']) = False := by decide
    have he : endsWithSlash internalPath = false := by decide
    simp only [hp, he, if_false, Bool.false_eq_true]
    have key : ∀ x : Str, (internalPath ++ ['/']).isPrefixOf ('/' :: (internalLit ++ '/' :: t) ++ x) = true := by
      intro x
      have : '/' :: (internalLit ++ '/' :: t) ++ x = (internalPath ++ ['/']) ++ (t ++ x) := by
        simp [internalPath, internalLit]
      rw [this]; exact isPrefixOf_append_self _ _
    have fin : ∀ x : Str, (decide ('/' :: (internalLit ++ '/' :: t) ++ x = internalPath ++ ['/']) ||
        (internalPath ++ ['/']).isPrefixOf ('/' :: (internalLit ++ '/' :: t) ++ x)) = true := by
      intro x; rw [key x]; exact Bool.or_true _
    split
    · have := fin []
      rw [List.append_nil] at this
      exact this
    · exact fin ['/']

/-! ### requests produced by the parser: RawPath, when set, unescapes to Path -/

def ReqWF (r : Req) : Prop := r.rawPath = [] ∨ unescape r.rawPath = some r.path

theorem setPath_wf {uri p : Str} {r : Req} (h : setPath uri p = some r) : ReqWF r := by
  unfold setPath at h
  split at h
  · simp at h
  · next path hu =>
    simp at h
    subst h
    simp only [ReqWF]
    split
    · exact Or.inl rfl
    · exact Or.inr hu

theorem parseURL_wf {authOK : Str → Bool} {uri rawurl : Str} {r : Req} (h : parseURL authOK uri rawurl = some r) : ReqWF r := by
  unfold parseURL at h
  split at h; · simp at h
  split at h; · simp at h
  split at h
  · simp at h; subst h; exact Or.inl rfl
  · split at h
    · simp at h
    · simp only at h
      split at h
      · exact setPath_wf h
      · simp at h
    · simp only at h
      split at h
      · split at h
        · exact setPath_wf h
        · simp at h
      · exact setPath_wf h
      · simp at h; subst h; exact Or.inl rfl

theorem parseTarget_wf {authOK : Str → Bool} {m : String} {t : Str} {r : Req} (h : parseTarget authOK m t = some r) : ReqWF r := by
  unfold parseTarget at h
  split at h
  · simp at h
  · exact parseURL_wf h

/-- THE key fact for the repaired selector: whenever the router (which dispatches on RawPath if set, else Path)
    matched a pattern whose first segment is the literal `internal`, `matchesPath(URL.Path, "/internal")` holds -/
theorem guard_covers_router {r : Req} (hwf : ReqWF r) {leaf : Bool} {ps : List Seg}
    (hm : matchPat leaf (.lit internalLit :: ps) (routerPath r) = true) :
    guardEngaged .urlPath internalPath r = true := by
  obtain ⟨r', hp, hb⟩ := matchPat_lit_head hm
  simp only [guardEngaged, Selector.get]
  unfold routerPath at hp
  split at hp
  · rw [hp]; exact matchesPath_internal r' hb
  · next hne =>
    cases hwf with
    | inl h0 => exact absurd h0 hne
    | inr hu =>
      rw [hp] at hu
      have hlit : ∀ c ∈ ('/' :: internalLit), c ≠ '%' := by decide
      have : '/' :: (internalLit ++ r') = ('/' :: internalLit) ++ r' := by simp
      rw [this, unescape_lit_prefix _ _ hlit] at hu
      cases hq : unescape r' with
      | none => simp [hq] at hu
      | some q =>
        simp [hq] at hu
        rw [← hu]
        exact matchesPath_internal q (unescape_boundary hb hq)

/-! ### bind table -/

theorem lookupBind_mem {binds : List (Str × Addr)} {b : Str} {x : Addr} (h : lookupBind binds b = some x) : ∃ k, (k, x) ∈ binds := by
  unfold lookupBind at h
  cases hf : binds.find? (·.1 = b) with
  | none => simp [hf] at h
  | some e =>
    simp [hf] at h
    have := List.mem_of_find?_eq_some hf
    exact ⟨e.1, by rw [← h]; exact this⟩

theorem addrOf_all_same {binds : List (Str × Addr)} {a : Addr} (hall : ∀ e ∈ binds, e.2 = a)
    (hroot : lookupBind binds ['/'] = some a) (p : Str) : addrOf binds p = some a := by
  unfold addrOf
  cases h : lookupBind binds (getBindFromPath p) with
  | none => simpa using hroot
  | some x =>
    obtain ⟨k, hk⟩ := lookupBind_mem h
    have hx : x = a := hall _ hk
    subst hx
    simp only
    split
    · exact hroot
    · rfl

/-! ### token decision -/

theorem keyLoop_granted {P : Policy} {aud : String} {now : Int} {c : Claims} {l : List (AuthKey × Bool)} {u : String}
    (h : keyLoop P aud now c l = .granted u) :
    ∃ k, (k, true) ∈ l ∧ validate aud now c = true ∧ bestPractices P c = true ∧ c.iss = some u ∧ k.comment = u := by
  induction l with
  | nil => simp [keyLoop] at h
  | cons kv rest ih =>
    obtain ⟨k, v⟩ := kv
    simp only [keyLoop] at h
    split at h
    · obtain ⟨k', hk', rest'⟩ := ih h
      exact ⟨k', List.mem_cons_of_mem _ hk', rest'⟩
    · next hv =>
      split at h; · simp at h
      next hval =>
      split at h; · simp at h
      next hbp =>
      split at h
      · next iss hiss =>
        split at h
        · next hc =>
          simp at h
          subst h
          simp at hv hval hbp
          exact ⟨k, by simp [hv], hval, hbp, hiss, hc⟩
        · simp at h
      · simp at h

end Nuts.C04
