/-
  C08 — `tree.DropLeaves` (deepening round): every lowest branch becomes a leaf of the doubled page; shape, sums and observables.
-/
import NutsProofs.Lemmas.C08Tree
import NutsModel.C08.Drop
namespace Nuts.C08
variable {R G : Type}

theorem fsum_single {o : Ops R G} (L : Lawful o) (ls : Nat) (q : Nat → Bool) (k : Nat) (d : G) :
    fsum o ls q [(k, d)] = if q (k / ls) then d else o.zero := by
  unfold fsum
  by_cases h : q (k / ls) = true <;> simp [h, gsum, L.add_zero]

theorem page_of_key (ls a : Nat) (hls : 0 < ls) : (ls * a + ls / 2) / ls = a := by
  rw [Nat.mul_add_div hls, Nat.div_eq_of_lt (by omega)]; rfl

theorem mul_two_mul (ls x : Nat) : ls * (2 * x) = 2 * ls * x := by rw [← Nat.mul_assoc, Nat.mul_comm ls 2]

theorem dropLeaves_branch (s l : Nat) (d : G) (sL lL : Nat) (dL : G) (a b right : Node G) :
    (Node.branch s l d (.branch sL lL dL a b) right).dropLeaves =
      (match (Node.branch sL lL dL a b).dropLeaves with
       | .ok (l', d1, o1) =>
         (match right.dropLeaves with
          | .ok (r', d2, o2) => .ok (.branch s l d l' r', d1 ++ d2, o1 ++ o2)
          | .err e => .err e
          | .panic p => .panic p)
       | .err e => .err e
       | .panic p => .panic p) := by
  rw [Node.dropLeaves]
  generalize (Node.branch sL lL dL a b).dropLeaves = x
  generalize right.dropLeaves = y
  cases x with
  | ok v =>
    obtain ⟨l', d1, o1⟩ := v
    cases y with
    | ok w => obtain ⟨r', d2, o2⟩ := w; rfl
    | err e => rfl
    | panic p => rfl
  | err e => rfl
  | panic p => rfl

theorem drop_node {o : Ops R G} (L : Lawful o) {ls : Nat} (hls : 0 < ls) :
    ∀ (h a : Nat) (n : Node G), Geo ls (h + 1) (2 * a) n → Wf o n →
    ∃ n' dk ok, n.dropLeaves = .ok (n', dk, ok) ∧ Geo (2 * ls) h a n' ∧ Wf o n' ∧ n'.total o = n.total o ∧
      n'.data o = n.data o ∧
      ∀ q : Nat → Bool, fsum o (2 * ls) q n'.leaves = fsum o ls (fun p => q (p / 2)) n.leaves := by
  intro h
  induction h with
  | zero =>
    intro a n g w
    cases n with
    | nil => simp [Geo] at g
    | leaf s l d => simp [Geo] at g
    | branch s l d left right =>
      simp only [Geo] at g
      obtain ⟨gs, gl, gL, gR⟩ := g
      cases left with
      | nil => simp [Geo] at gL
      | branch _ _ _ _ _ => simp [Geo] at gL
      | leaf sL lL dL =>
        simp only [Geo] at gL
        have hd : d = o.add dL (right.total o) := by simpa [Wf, Node.total] using w.1
        refine ⟨.leaf s l d, [s], _, rfl, ?_, trivial, ?_, rfl, ?_⟩
        · simp only [Geo]
          constructor
          · rw [gs]; simp only [Nat.pow_zero]; rw [Nat.mul_div_cancel_left _ (by omega : 0 < 2)]
            rw [Nat.mul_add, Nat.mul_one, mul_two_mul]
          · rw [gl]
            have : 2 * a + 2 ^ (0 + 1) = 2 * (a + 1) := by simp only [Nat.pow_succ, Nat.pow_zero]; omega
            rw [this, mul_two_mul]
        · simp [Node.total, hd]
        · intro q
          have hk : s / (2 * ls) = a := by
            rw [gs]; simp only [Nat.pow_zero]
            have : ls * (2 * a + 1) = (2 * ls) * a + (2 * ls) / 2 := by
              rw [Nat.mul_div_cancel_left _ (by omega : 0 < 2), Nat.mul_add, Nat.mul_one, mul_two_mul]
            rw [this]; exact page_of_key (2 * ls) a (by omega)
          have hkL : sL / ls = 2 * a := by rw [gL.1]; exact page_of_key ls (2 * a) hls
          simp only [Node.leaves]
          rw [fsum_single L, hk]
          rcases gR with gR | gR
          · subst gR
            simp only [Node.leaves, List.append_nil, Node.total] at hd ⊢
            rw [fsum_single L, hkL]
            have : 2 * a / 2 = a := by omega
            rw [this, hd, L.add_zero]
          · cases right with
            | nil => simp [Geo] at gR
            | branch _ _ _ _ _ => simp [Geo] at gR
            | leaf sR lR dR =>
              simp only [Geo] at gR
              have hkR : sR / ls = 2 * a + 1 := by
                rw [gR.1]; simp only [Nat.pow_zero]; exact page_of_key ls (2 * a + 1) hls
              simp only [Node.leaves, Node.total] at hd ⊢
              have e : [(sL, dL)] ++ [(sR, dR)] = [(sL, dL)] ++ [(sR, dR)] := rfl
              rw [fsum_append L, fsum_single L, fsum_single L, hkL, hkR]
              have h1 : 2 * a / 2 = a := by omega
              have h2 : (2 * a + 1) / 2 = a := by omega
              rw [h1, h2, hd]
              by_cases hq : q a = true
              · simp [hq]
              · simp [hq, L.add_zero]
  | succ h ih =>
    intro a n g w
    cases n with
    | nil => simp [Geo] at g
    | leaf s l d => simp [Geo] at g
    | branch s l d left right =>
      simp only [Geo] at g
      obtain ⟨gs, gl, gL, gR⟩ := g
      obtain ⟨wd, wL, wR⟩ := w
      obtain ⟨l', d1, o1, e1, g1, w1, t1, _, f1⟩ := ih a left gL wL
      cases left with
      | nil => simp [Geo] at gL
      | leaf _ _ _ => simp [Geo] at gL
      | branch sL lL dL lL' lR' =>
        have hs : s = 2 * ls * (a + 2 ^ h) := by
          have : 2 * a + 2 ^ (h + 1) = 2 * (a + 2 ^ h) := by rw [Nat.pow_succ]; omega
          rw [gs, this, mul_two_mul]
        have hl : l = 2 * ls * (a + 2 ^ (h + 1)) := by
          have : 2 * a + 2 ^ (h + 1 + 1) = 2 * (a + 2 ^ (h + 1)) := by rw [Nat.pow_succ 2 (h + 1)]; omega
          rw [gl, this, mul_two_mul]
        rcases gR with gR | gR
        · subst gR
          refine ⟨.branch s l d l' .nil, d1 ++ [], o1 ++ [], ?_, ?_, ?_, ?_, rfl, ?_⟩
          · rw [dropLeaves_branch, e1]; rfl
          · unfold Geo; exact ⟨hs, hl, g1, Or.inl rfl⟩
          · exact ⟨by rw [wd, t1], w1, trivial⟩
          · simp [Node.total, t1]
          · intro q
            show fsum o (2 * ls) q (l'.leaves ++ Node.nil.leaves) = fsum o ls _ ((Node.branch sL lL dL lL' lR').leaves ++ Node.nil.leaves)
            simp only [Node.leaves, List.append_nil] at f1 ⊢; exact f1 q
        · have gR' : Geo ls (h + 1) (2 * (a + 2 ^ h)) right := by
            have : 2 * a + 2 ^ (h + 1) = 2 * (a + 2 ^ h) := by rw [Nat.pow_succ]; omega
            rw [← this]; exact gR
          obtain ⟨r', d2, o2, e2, g2, w2, t2, _, f2⟩ := ih (a + 2 ^ h) right gR' wR
          refine ⟨.branch s l d l' r', d1 ++ d2, o1 ++ o2, ?_, ?_, ?_, ?_, rfl, ?_⟩
          · rw [dropLeaves_branch, e1, e2]
          · unfold Geo; exact ⟨hs, hl, g1, Or.inr g2⟩
          · exact ⟨by rw [wd, t1, t2], w1, w2⟩
          · simp [Node.total, t1, t2]
          · intro q
            show fsum o (2 * ls) q (l'.leaves ++ r'.leaves) = fsum o ls _ ((Node.branch sL lL dL lL' lR').leaves ++ right.leaves)
            rw [fsum_append L, fsum_append L, f1 q, f2 q]

theorem dropLeaves_tree {o : Ops R G} (L : Lawful o) (t : Tree G) (i : TInv o t) :
    (t.treeSize = t.leafSize → t.dropLeaves = .ok t) ∧
    (t.treeSize ≠ t.leafSize →
      ∃ t', t.dropLeaves = .ok t' ∧ TInv o t' ∧ t'.leafSize = 2 * t.leafSize ∧ t'.treeSize = t.treeSize ∧
        t'.rootData o = t.rootData o ∧
        (∀ q : Nat → Bool, fsum o (2 * t.leafSize) q t'.root.leaves = fsum o t.leafSize (fun p => q (p / 2)) t.root.leaves) ∧
        (∃ orph, t'.orphaned = t.orphaned ++ orph)) := by
  obtain ⟨h, g, hs⟩ := i.shape
  have hls := i.ls_pos
  cases h with
  | zero =>
    constructor
    · intro _
      cases hr : t.root with
      | nil => rw [hr] at g; simp [Geo] at g
      | branch _ _ _ _ _ => rw [hr] at g; simp [Geo] at g
      | leaf s l d => simp [Tree.dropLeaves, hr]
    · intro hne; simp at hs; exact absurd hs hne
  | succ h =>
    constructor
    · intro he
      rw [he] at hs
      have : 2 ^ (h + 1) = 1 := by
        have := Nat.eq_of_mul_eq_mul_left hls (by rw [Nat.mul_one]; exact hs : t.leafSize * 1 = t.leafSize * 2 ^ (h + 1))
        exact this.symm
      have h2 : 2 ^ (h + 1) ≥ 2 := by rw [Nat.pow_succ]; have := Nat.one_le_two_pow (n := h); omega
      omega
    · intro _
      have g' : Geo t.leafSize (h + 1) (2 * 0) t.root := g
      obtain ⟨n', dk, ok, e, gn, wn, tn, dn, fn⟩ := drop_node L hls h 0 t.root g' i.wf
      cases hr : t.root with
      | nil => rw [hr] at g; simp [Geo] at g
      | leaf _ _ _ => rw [hr] at g; simp [Geo] at g
      | branch s l d left right =>
        rw [hr] at g e dn fn
        have hl : left ≠ .nil := by
          simp only [Geo] at g
          exact g.2.2.1.ne_nil
        have hd : t.dropLeaves = .ok { t with root := n', dirty := dk, orphaned := t.orphaned ++ ok, leafSize := t.leafSize * 2 } := by
          unfold Tree.dropLeaves
          rw [hr]
          cases left with
          | nil => exact absurd rfl hl
          | leaf _ _ _ => simp only [e]
          | branch _ _ _ _ _ => simp only [e]
        refine ⟨_, hd, ⟨by simp only; omega, ⟨h, ?_, ?_⟩, wn⟩, by simp only; omega, rfl, ?_, ?_, ⟨ok, rfl⟩⟩
        · simp only; rw [Nat.mul_comm]; exact gn
        · simp only; rw [hs, Nat.pow_succ]; rw [Nat.mul_assoc, Nat.mul_comm 2]
        · simp only [Tree.rootData, hr]; exact dn
        · intro q; exact fn q

end Nuts.C08
