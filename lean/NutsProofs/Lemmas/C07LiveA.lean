/-
  C07 liveness lemmas, part A: facts about valid DAGs.
-/
import NutsModel.C07.Round
import NutsProofs.Lemmas.C07
open Nuts.Proto Nuts Nuts.Proto.L

namespace Nuts.Proto.Live

/-! ### Part A: facts about valid DAGs -/

theorem present_iff {d : List Tx} {r : Ref} : present d r = true ↔ ∃ t ∈ d, t.ref = r := by
  unfold present
  simp [List.any_eq_true]

theorem present_false_iff {d : List Tx} {r : Ref} : present d r = false ↔ ∀ t ∈ d, t.ref ≠ r := by
  rw [← Bool.not_eq_true, present_iff]
  constructor
  · intro h t ht he; exact h ⟨t, ht, he⟩
  · rintro h ⟨t, ht, he⟩; exact h t ht he

theorem lcStep_ge (a : Nat) (t : Tx) : a ≤ lcStep a t ∧ t.clock ≤ lcStep a t := by
  unfold lcStep; split <;> omega

theorem lc_fold_ge : ∀ (d : List Tx) (a : Nat), a ≤ d.foldl lcStep a ∧ ∀ t ∈ d, t.clock ≤ d.foldl lcStep a := by
  intro d
  induction d with
  | nil => intro a; simp
  | cons x xs ih =>
    intro a
    obtain ⟨h1, h2⟩ := ih (lcStep a x)
    obtain ⟨h3, h4⟩ := lcStep_ge a x
    refine ⟨by simp only [List.foldl_cons]; omega, fun t ht => ?_⟩
    simp only [List.foldl_cons]
    rcases List.mem_cons.mp ht with rfl | h
    · omega
    · exact h2 t h

theorem lcOf_ge (d : List Tx) : ∀ t ∈ d, t.clock ≤ lcOf d := (lc_fold_ge d 0).2

/-- the maximum is attained (or the list is empty and it is the start value) -/
theorem lc_fold_attained : ∀ (d : List Tx) (a : Nat), d.foldl lcStep a = a ∨ ∃ t ∈ d, t.clock = d.foldl lcStep a := by
  intro d
  induction d with
  | nil => intro a; exact Or.inl rfl
  | cons x xs ih =>
    intro a
    simp only [List.foldl_cons]
    rcases ih (lcStep a x) with h | ⟨t, ht, he⟩
    · rw [h]
      unfold lcStep
      split
      · exact Or.inr ⟨x, List.mem_cons_self, rfl⟩
      · exact Or.inl rfl
    · exact Or.inr ⟨t, List.mem_cons_of_mem _ ht, he⟩

theorem getTx_some_of_mem_nodup {d : List Tx} (hu : ∀ t ∈ d, ∀ t' ∈ d, t.ref = t'.ref → t = t') {t : Tx} (ht : t ∈ d) :
    getTx d t.ref = some t := by
  unfold getTx
  cases hf : d.find? (fun x => x.ref == t.ref) with
  | none =>
    have := List.find?_eq_none.mp hf t ht
    simp at this
  | some x =>
    have hx := List.mem_of_find?_eq_some hf
    have hr := List.find?_some hf
    simp only [beq_iff_eq] at hr
    rw [hu x hx t ht hr]

/-- refs identify transactions inside a valid DAG -/
theorem dagOK_unique : ∀ {d : List Tx}, DagOK d → ∀ t ∈ d, ∀ t' ∈ d, t.ref = t'.ref → t = t' := by
  intro d h
  induction h with
  | nil => intro t ht; cases ht
  | cons tx d _ _ hnew _ _ _ ih =>
    intro t ht t' ht' he
    have hn := present_false_iff.mp hnew
    rcases List.mem_cons.mp ht with rfl | h1 <;> rcases List.mem_cons.mp ht' with rfl | h2
    · rfl
    · exact absurd he.symm (hn t' h2)
    · exact absurd he (hn t h1)
    · exact ih t h1 t' h2 he

/-- what a valid DAG knows about each member: the part of the DAG that was there when it was added -/
theorem dagOK_mem : ∀ {d : List Tx}, DagOK d → ∀ t ∈ d, ∃ suf, (∀ x ∈ suf, x ∈ d) ∧ DagOK suf ∧ t.sigOK = true ∧
    present suf t.ref = false ∧ (∀ p ∈ t.prevs, present suf p = true) ∧ t.clock = expectedClock suf t.prevs ∧
    (t.prevs = [] → ∀ x ∈ suf, x.clock ≠ 0) := by
  intro d h
  induction h with
  | nil => intro t ht; cases ht
  | cons tx d hd hs hnew hp hc hr ih =>
    intro t ht
    rcases List.mem_cons.mp ht with rfl | h1
    · exact ⟨d, fun x hx => List.mem_cons_of_mem _ hx, hd, hs, hnew, hp, hc, hr⟩
    · obtain ⟨suf, h1, h2⟩ := ih t h1
      exact ⟨suf, fun x hx => List.mem_cons_of_mem _ (h1 x hx), h2⟩

theorem getTx_of_present {d : List Tx} {r : Ref} (h : present d r = true) : ∃ t, getTx d r = some t ∧ t ∈ d ∧ t.ref = r := by
  obtain ⟨t, ht, hr⟩ := present_iff.mp h
  unfold getTx
  cases hf : d.find? (fun x => x.ref == r) with
  | none =>
    have := List.find?_eq_none.mp hf t ht
    simp [hr] at this
  | some x =>
    exact ⟨x, rfl, List.mem_of_find?_eq_some hf, by simpa using List.find?_some hf⟩

/-- every prev of a member is a member with a strictly lower clock -/
theorem dagOK_prev {d : List Tx} (h : DagOK d) {t : Tx} (ht : t ∈ d) {p : Ref} (hp : p ∈ t.prevs) :
    ∃ t' ∈ d, t'.ref = p ∧ t'.clock < t.clock := by
  obtain ⟨suf, hsub, _, _, _, hpres, hclk, _⟩ := dagOK_mem h t ht
  obtain ⟨t', hg, hm, hr⟩ := getTx_of_present (hpres p hp)
  refine ⟨t', hsub t' hm, hr, ?_⟩
  rw [hclk]
  unfold expectedClock
  have hin : t' ∈ t.prevs.filterMap (getTx suf) := List.mem_filterMap.mpr ⟨p, hp, hg⟩
  split
  · rename_i hnil; rw [hnil] at hin; cases hin
  · rename_i ps hne
    have := lcOf_ge _ t' hin
    omega

theorem expectedClock_congr {d d' : List Tx} {prevs : List Ref} (h : ∀ p ∈ prevs, getTx d p = getTx d' p) :
    expectedClock d prevs = expectedClock d' prevs := by
  unfold expectedClock
  have : prevs.filterMap (getTx d) = prevs.filterMap (getTx d') := by
    induction prevs with
    | nil => rfl
    | cons x xs ih =>
      simp only [List.filterMap_cons]
      rw [h x List.mem_cons_self, ih (fun p hp => h p (List.mem_cons_of_mem _ hp))]
  rw [this]

end Nuts.Proto.Live
