/-
  C08 — the persisted leaves (sorted shelves) follow the tree: `putSorted`/`getSorted`, `persist`, and the
  "tree + shelf in sync" predicate with its three transitions (insert+persist, load, replace+persist).  Core Lean only.
-/
import NutsModel.C08.Spec
import NutsProofs.Lemmas.C08Load

namespace Nuts.C08

variable {R G : Type}

/-! ### sorted association lists -/

theorem getSorted_putSorted {α : Type} (k k' : Nat) (v : α) (l : List (Nat × α)) :
    getSorted k' (putSorted k v l) = if k' = k then some v else getSorted k' l := by
  induction l with
  | nil => simp [putSorted, getSorted]
  | cons x xs ih =>
    obtain ⟨kx, vx⟩ := x
    simp only [putSorted]
    by_cases h1 : k < kx
    · simp only [h1, if_true, getSorted]
    · by_cases h2 : k = kx
      · subst h2
        simp only [Nat.lt_irrefl, if_false, if_true, getSorted]
        by_cases h3 : k' = k <;> simp [h3]
      · simp only [h1, h2, if_false, getSorted, ih]
        by_cases h3 : k' = kx
        · have : k' ≠ k := by omega
          simp [h3]; omega
        · simp [h3]

theorem keyOf_lt {ls i j : Nat} (hls : 0 < ls) (h : i < j) : keyOf ls i < keyOf ls j := by
  unfold keyOf
  have : ls * (i + 1) ≤ ls * j := Nat.mul_le_mul_left ls h
  rw [Nat.mul_add] at this
  omega

theorem keyOf_inj {ls i j : Nat} (hls : 0 < ls) (h : keyOf ls i = keyOf ls j) : i = j := by
  rcases Nat.lt_trichotomy i j with c | c | c
  · have := keyOf_lt hls c; omega
  · exact c
  · have := keyOf_lt hls c; omega

theorem keyOf_page {ls p : Nat} (hls : 0 < ls) : keyOf ls p / ls = p := key_page hls

/-- writing page `P` (an existing page or the next one) into the shelf of a contiguous tree -/
theorem putSorted_pl {ls : Nat} (hls : 0 < ls) (P : Nat) (x : G) : ∀ (m a : Nat) (val : Nat → G), a ≤ P → P ≤ a + m →
    putSorted (keyOf ls P) x (pl ls a m val) = pl ls a (max m (P - a + 1)) (upd val P x) := by
  intro m
  induction m with
  | zero =>
    intro a val h1 h2
    have : P = a := by omega
    subst this
    simp [pl_zero, putSorted, pl_one, upd]
  | succ m ih =>
    intro a val h1 h2
    rw [pl_cons]
    by_cases h : P = a
    · subst h
      have hmax : max (m + 1) (P - P + 1) = m + 1 := by omega
      simp only [putSorted, Nat.lt_irrefl, if_false, if_true, hmax]
      rw [pl_cons]
      congr 1
      · simp [upd]
      · apply pl_congr; intro i _; simp [upd]; omega
    · have hlt : keyOf ls a < keyOf ls P := keyOf_lt hls (by omega)
      have h1' : ¬ keyOf ls P < keyOf ls a := by omega
      have h2' : keyOf ls P ≠ keyOf ls a := by omega
      simp only [putSorted, h1', h2', if_false]
      rw [ih (a + 1) val (by omega) (by omega)]
      have hmax : max (m + 1) (P - a + 1) = max m (P - (a + 1) + 1) + 1 := by omega
      rw [hmax, pl_cons]
      congr 1
      simp [upd]; omega

theorem contains_all_eq {D : List Nat} {k : Nat} (hne : D ≠ []) (hall : ∀ x ∈ D, x = k) (y : Nat) :
    D.contains y = decide (y = k) := by
  cases D with
  | nil => exact absurd rfl hne
  | cons d ds =>
    by_cases hy : y = k
    · subst hy
      have : d = y := hall d (by simp)
      simp [this]
    · have : ∀ x ∈ d :: ds, ¬ (y = x) := fun x hx e => hy (by rw [e]; exact hall x hx)
      simp only [hy, decide_false]
      rw [List.contains_eq_any_beq, List.any_eq_false]
      intro x hx; simp; exact this x hx

/-- the dirty leaves of a contiguous tree whose dirty keys all name page `P` -/
theorem filter_pl_dirty {ls : Nat} (hls : 0 < ls) (D : List Nat) (P : Nat) (hne : D ≠ []) (hall : ∀ x ∈ D, x = keyOf ls P) :
    ∀ (m : Nat) (val : Nat → G),
    (pl ls 0 m val).filter (fun kv => D.contains kv.1) = if P < m then [(keyOf ls P, val P)] else [] := by
  intro m
  induction m with
  | zero => intro val; simp [pl_zero]
  | succ m ih =>
    intro val
    rw [pl_succ, List.filter_append, ih val]
    simp only [Nat.zero_add, List.filter_cons, List.filter_nil, contains_all_eq hne hall]
    by_cases h1 : P < m
    · have : keyOf ls m ≠ keyOf ls P := fun e => by have := keyOf_inj hls e; omega
      have h2 : P < m + 1 := by omega
      simp [h1, h2, this]
    · by_cases h3 : P = m
      · subst h3; simp
      · have : keyOf ls m ≠ keyOf ls P := fun e => by have := keyOf_inj hls e; omega
        have h2 : ¬ P < m + 1 := by omega
        simp [h1, h2, this]

/-! ### tree and shelf in sync -/

/-- the in-memory tree holds pages `0 … m-1` with data `val`, nothing is waiting to be written, and the shelf holds
    exactly the tree's leaves -/
structure Sync (o : Ops R G) (ls : Nat) (t : Tree G) (shelf : List (Nat × G)) (m : Nat) (val : Nat → G) : Prop where
  holds : Holds o ls t m val
  clean : t.dirty = []
  orph : t.orphaned = []
  shelf_eq : shelf = pl ls 0 m val

/-- the empty DAG: a new tree (its only leaf marked dirty), an empty shelf -/
def Fresh (o : Ops R G) (ls : Nat) (t : Tree G) (shelf : List (Nat × G)) : Prop :=
  t = Tree.new o ls ∧ shelf = []

/-- `treeStore.write` (Insert + writeWithoutLock) on a synced tree, at an existing page or the next one -/
theorem Sync.write {o : Ops R G} (L : Lawful o) {ls : Nat} {t : Tree G} {shelf : List (Nat × G)} {m : Nat} {val : Nat → G}
    (S : Sync o ls t shelf m val) (r : R) (clock : Nat) (hP : clock / ls ≤ m) (hz : ∀ p, m ≤ p → val p = o.zero) :
    Sync o ls (persist (t.insert o r clock) shelf).1 (persist (t.insert o r clock) shelf).2
      (max m (clock / ls + 1)) (upd val (clock / ls) (o.ins (val (clock / ls)) r)) := by
  have hls := S.holds.ls_pos
  have u := S.holds.updatePath L clock (fun d => o.ins d r) (o.ins o.zero r) (fun d => L.ins_eq d r) hP hz
  obtain ⟨H', dk, hd, hne, hall, horph⟩ := u
  rw [S.clean, List.nil_append] at hd
  have hupd : (t.insert o r clock).updates = [(keyOf ls (clock / ls), upd val (clock / ls) (o.ins (val (clock / ls)) r) (clock / ls))] := by
    unfold Tree.updates
    rw [show t.insert o r clock = Tree.updatePath o t clock (fun d => o.ins d r) from rfl]
    rw [H'.leaves, hd, filter_pl_dirty hls dk _ hne hall]
    have : clock / ls < max m (clock / ls + 1) := by omega
    simp [this]
  refine ⟨?_, rfl, ?_, ?_⟩
  · exact ⟨H'.ls_pos, H'.ls_eq, H'.shape, H'.wf, H'.leaves⟩
  · simp [persist, Tree.resetUpdates]
  · simp only [persist, hupd, List.foldl_cons, List.foldl_nil]
    rw [S.shelf_eq, putSorted_pl hls _ _ m 0 val (Nat.zero_le _) (by omega)]
    simp [upd]

/-- the first `treeStore.write` ever (empty DAG, clock on page 0) -/
theorem Fresh.write {o : Ops R G} (L : Lawful o) {ls : Nat} (hls : 0 < ls) {t : Tree G} {shelf : List (Nat × G)}
    (F : Fresh o ls t shelf) (r : R) (clock : Nat) (hP : clock / ls = 0) :
    Sync o ls (persist (t.insert o r clock) shelf).1 (persist (t.insert o r clock) shelf).2
      1 (upd (fun _ => o.zero) 0 (o.ins o.zero r)) := by
  obtain ⟨rfl, rfl⟩ := F
  have H := Holds.new o hls
  have u := H.updatePath L clock (fun d => o.ins d r) (o.ins o.zero r) (fun d => L.ins_eq d r) (by omega) (fun _ _ => rfl)
  obtain ⟨H', dk, hd, hne, hall, horph⟩ := u
  rw [hP] at H' hall
  have hdirty : ∀ k ∈ (Tree.updatePath o (Tree.new o ls) clock fun d => o.ins d r).dirty, k = keyOf ls 0 := by
    intro k hk
    rw [hd] at hk
    simp only [List.mem_append] at hk
    rcases hk with hk | hk
    · simp [Tree.new, keyOf] at hk ⊢; exact hk
    · exact hall k hk
  have hne' : (Tree.updatePath o (Tree.new o ls) clock fun d => o.ins d r).dirty ≠ [] := by
    rw [hd]; simp [hne]
  have hmax : max 1 (0 + 1) = 1 := by omega
  rw [hmax] at H'
  have hupd : ((Tree.new o ls).insert o r clock).updates = [(keyOf ls 0, upd (fun _ => o.zero) 0 (o.ins o.zero r) 0)] := by
    unfold Tree.updates
    rw [show (Tree.new o ls).insert o r clock = Tree.updatePath o (Tree.new o ls) clock (fun d => o.ins d r) from rfl]
    rw [H'.leaves, filter_pl_dirty hls _ 0 hne' hdirty]
    simp
  refine ⟨⟨H'.ls_pos, H'.ls_eq, H'.shape, H'.wf, H'.leaves⟩, rfl, by simp [persist, Tree.resetUpdates], ?_⟩
  simp only [persist, hupd, List.foldl_cons, List.foldl_nil, putSorted, pl_one]

/-- `treeStore.read` (Load) of a synced shelf, into ANY tree object: in sync again, same pages -/
theorem Sync.load {o : Ops R G} (L : Lawful o) {ls : Nat} (heven : ls % 2 = 0) {t : Tree G} {shelf : List (Nat × G)}
    {m : Nat} {val : Nat → G} (S : Sync o ls t shelf m val) (b : Bool) (t0 : Tree G) :
    Sync o ls (Tree.load o b t0 shelf) shelf m val := by
  have h := Holds.load L S.holds.ls_pos heven b t0 m val S.holds.m_pos
  rw [S.shelf_eq]
  exact ⟨h.1, h.2.1, h.2.2, rfl⟩

/-- Load of the empty shelf (with the repaired `tree.Load`): the empty tree, whatever the tree object held before -/
theorem Fresh.load {o : Ops R G} {ls : Nat} (t0 : Tree G) (h0 : t0.leafSize = ls) :
    Fresh o ls (Tree.load o true t0 []) [] := by
  simp [Fresh, Tree.load, h0]

end Nuts.C08
