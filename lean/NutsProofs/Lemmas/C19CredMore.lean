/-
  C19 — helper lemmas for the vcr/credential/util.go helpers of NutsModel/C19/CredMore.lean
-/
import NutsModel.C19.CredMore
namespace Nuts.C19.Lemmas
open Nuts Nuts.C19

theorem parseLDProof_fixed_no_panic (vp : Cred.VP) : ∀ s, Cred.parseLDProof Cred.Cfg.fixed vp ≠ .panic s := by
  intro s; unfold Cred.parseLDProof
  simp only [Cred.Cfg.fixed, if_true]
  split
  · intro h; cases h
  · split <;> (intro h; cases h)

theorem filterFrom_mem (ms : List String) : ∀ (cs : List CredMore.FCred) (i k : Nat),
    k ∈ CredMore.filterFrom ms i cs ↔ ∃ j cr, cs[j]? = some cr ∧ k = i + j ∧ CredMore.keep ms cr = true := by
  intro cs
  induction cs with
  | nil => intro i k; simp [CredMore.filterFrom]
  | cons c rest ih =>
    intro i k
    unfold CredMore.filterFrom
    constructor
    · intro h
      split at h
      · rename_i hk
        cases h with
        | head => exact ⟨0, c, rfl, rfl, hk⟩
        | tail _ h =>
          obtain ⟨j, cr, hj, he, hkk⟩ := (ih (i + 1) k).1 h
          exact ⟨j + 1, cr, by simpa using hj, by omega, hkk⟩
      · obtain ⟨j, cr, hj, he, hkk⟩ := (ih (i + 1) k).1 h
        exact ⟨j + 1, cr, by simpa using hj, by omega, hkk⟩
    · intro ⟨j, cr, hj, he, hkk⟩
      cases j with
      | zero =>
        simp at hj; subst hj
        rw [if_pos hkk]; subst he; exact List.mem_cons_self
      | succ j' =>
        have hm : k ∈ CredMore.filterFrom ms (i + 1) rest := (ih (i + 1) k).2 ⟨j', cr, by simpa using hj, by omega, hkk⟩
        split
        · exact List.mem_cons_of_mem _ hm
        · exact hm

theorem filterFrom_sorted (ms : List String) : ∀ (cs : List CredMore.FCred) (i : Nat),
    (CredMore.filterFrom ms i cs).Pairwise (· < ·) ∧ ∀ k ∈ CredMore.filterFrom ms i cs, i ≤ k := by
  intro cs
  induction cs with
  | nil => intro i; simp [CredMore.filterFrom]
  | cons c rest ih =>
    intro i
    unfold CredMore.filterFrom
    have ⟨hp, hl⟩ := ih (i + 1)
    split
    · refine ⟨List.pairwise_cons.2 ⟨fun k hk => by have := hl k hk; omega, hp⟩, ?_⟩
      intro k hk
      cases hk with
      | head => exact Nat.le_refl _
      | tail _ h => have := hl k h; omega
    · exact ⟨hp, fun k hk => by have := hl k hk; omega⟩

theorem subjectsPass_iff (ms : List String) : ∀ (bl : List CredMore.FSubj),
    CredMore.subjectsPass ms bl = true ↔ ∀ b ∈ bl, ∀ m, b.idEmpty = false → b.method = some m → m ∈ ms := by
  intro bl
  induction bl with
  | nil => simp [CredMore.subjectsPass]
  | cons b rest ih =>
    unfold CredMore.subjectsPass
    cases he : b.idEmpty with
    | true =>
      simp only [Bool.not_true, Bool.false_eq_true, if_false]
      rw [ih]
      constructor
      · intro h x hx m hxe hxm
        cases hx with
        | head => rw [he] at hxe; cases hxe
        | tail _ hx => exact h x hx m hxe hxm
      · intro h x hx; exact h x (List.mem_cons_of_mem _ hx)
    | false =>
      simp only [Bool.not_false, if_true]
      cases hm : b.method with
      | none =>
        simp only
        rw [ih]
        constructor
        · intro h x hx m hxe hxm
          cases hx with
          | head => rw [hm] at hxm; cases hxm
          | tail _ hx => exact h x hx m hxe hxm
        · intro h x hx; exact h x (List.mem_cons_of_mem _ hx)
      | some m0 =>
        simp only
        by_cases hc : ms.contains m0 = true
        · rw [hc]; simp only [Bool.not_true, Bool.false_eq_true, if_false]
          rw [ih]
          constructor
          · intro h x hx m hxe hxm
            cases hx with
            | head => rw [hm] at hxm; cases hxm; simpa using hc
            | tail _ hx => exact h x hx m hxe hxm
          · intro h x hx; exact h x (List.mem_cons_of_mem _ hx)
        · have hc' : ms.contains m0 = false := by simpa using hc
          rw [hc']; simp only [Bool.not_false, if_true]
          constructor
          · intro h; cases h
          · intro h
            have := h b List.mem_cons_self m0 he hm
            exact absurd (by simpa using this) hc

end Nuts.C19.Lemmas
