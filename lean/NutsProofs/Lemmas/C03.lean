/-
  C03 — helper lemmas (core Lean only). Property theorems are in NutsProofs/Props/C03.lean.
-/
import NutsModel.C03.Kid
import NutsModel.C03.KeyStore
import NutsModel.C03.Jws

namespace Nuts.C03
open Nuts

/-! ### character classes -/

def rangesAvoid (rs : Ranges) (x : Nat) : Bool := rs.all (fun r => decide (x < r.1) || decide (r.2 < x))
def rangesBelow (rs : Ranges) (n : Nat) : Bool := rs.all (fun r => decide (r.2 < n))

theorem inRanges_avoid {rs : Ranges} {x b : Nat} (h : rangesAvoid rs x = true) (hb : inRanges rs b = true) : b ≠ x := by
  unfold rangesAvoid at h; unfold inRanges at hb
  rw [List.all_eq_true] at h; rw [List.any_eq_true] at hb
  obtain ⟨r, hr, hin⟩ := hb
  have := h r hr
  simp only [Bool.and_eq_true, Bool.or_eq_true, decide_eq_true_eq] at hin this
  omega

theorem inRanges_below {rs : Ranges} {n b : Nat} (h : rangesBelow rs n = true) (hb : inRanges rs b = true) : b < n := by
  unfold rangesBelow at h; unfold inRanges at hb
  rw [List.all_eq_true] at h; rw [List.any_eq_true] at hb
  obtain ⟨r, hr, hin⟩ := hb
  have := h r hr
  simp only [Bool.and_eq_true, decide_eq_true_eq] at hin this
  omega

theorem kidTokens_mem (cls hex : Ranges) : ∀ (s : Bytes), kidTokens cls hex s = true →
    ∀ b ∈ s, inRanges cls b = true ∨ b = PCT ∨ inRanges hex b = true := by
  intro s
  induction s using kidTokens.induct cls with
  | case1 => intro _ b hb; cases hb
  | case2 b rest hin ih =>
    intro h x hx
    unfold kidTokens at h
    simp only [hin, if_true] at h
    rcases List.mem_cons.mp hx with rfl | hx
    · exact Or.inl hin
    · exact ih h x hx
  | case3 h1 h2 rest' hin ih =>
    intro h x hx
    simp only [kidTokens, hin, if_false, Bool.false_eq_true, if_true, Bool.and_eq_true] at h
    rcases List.mem_cons.mp hx with rfl | hx
    · exact Or.inr (Or.inl rfl)
    rcases List.mem_cons.mp hx with rfl | hx
    · exact Or.inr (Or.inr h.1.1)
    rcases List.mem_cons.mp hx with rfl | hx
    · exact Or.inr (Or.inr h.1.2)
    · exact ih h.2 x hx
  | case4 rest hno hin =>
    intro h
    unfold kidTokens at h
    simp only [hin, if_false, Bool.false_eq_true, if_true] at h
  | case5 b rest hin hp =>
    intro h
    unfold kidTokens at h
    simp only [hin, hp, if_false, Bool.false_eq_true] at h
/-! ### the executable predicate is the language of the pattern tree -/



def Tok (cls hex : Ranges) (p : Bytes) : Prop :=
  (∃ b, p = [b] ∧ inRanges cls b = true) ∨ (∃ h1 h2, p = [PCT, h1, h2] ∧ inRanges hex h1 = true ∧ inRanges hex h2 = true)

theorem alt_iff_tok (cls hex : Ranges) (p : Bytes) :
    (Rx.alt [.cls cls, .cat [.lit [37], .rep 2 2 (.cls hex)]]).M p ↔ Tok cls hex p := by
  simp only [Rx.M, Rx.MAlt, Rx.MCat, Tok, or_false]
  constructor
  · rintro (h | ⟨a, b, rfl, rfl, a2, b2, rfl, ⟨parts, h2, h2', rfl, hp⟩, rfl⟩)
    · exact Or.inl h
    · right
      match parts, h2, h2' with
      | [p1, p2], _, _ =>
        obtain ⟨x1, rfl, hx1⟩ := hp p1 (by simp)
        obtain ⟨x2, rfl, hx2⟩ := hp p2 (by simp)
        exact ⟨x1, x2, by simp [PCT], hx1, hx2⟩
      | [], h, _ => simp at h
      | [_], h, _ => simp at h
      | _ :: _ :: _ :: _, _, h => simp at h
  · rintro (h | ⟨h1, h2, rfl, hh1, hh2⟩)
    · exact Or.inl h
    · right
      refine ⟨[37], [h1, h2], by simp [PCT], rfl, [h1, h2], [], by simp, ⟨[[h1], [h2]], by simp, by simp, by simp, ?_⟩, rfl⟩
      intro p hp
      simp at hp
      rcases hp with rfl | rfl
      · exact ⟨h1, rfl, hh1⟩
      · exact ⟨h2, rfl, hh2⟩

theorem kidTokens_of_parts (cls hex : Ranges) (hpct : inRanges cls PCT = false) :
    ∀ parts : List Bytes, (∀ p ∈ parts, Tok cls hex p) → kidTokens cls hex parts.flatten = true := by
  intro parts
  induction parts with
  | nil => intro _; rfl
  | cons p rest ih =>
    intro h
    have hrest := ih (fun q hq => h q (List.mem_cons_of_mem _ hq))
    rcases h p (by simp) with ⟨b, rfl, hb⟩ | ⟨h1, h2, rfl, hh1, hh2⟩
    · simp only [List.flatten_cons, List.singleton_append]
      unfold kidTokens
      simp only [hb, if_true]
      exact hrest
    · simp only [List.flatten_cons, List.cons_append, List.nil_append]
      unfold kidTokens
      simp only [hpct, Bool.false_eq_true, if_false, if_true, hh1, hh2, Bool.true_and]
      exact hrest

theorem parts_of_kidTokens (cls hex : Ranges) :
    ∀ s : Bytes, kidTokens cls hex s = true → ∃ parts : List Bytes, s = parts.flatten ∧ ∀ p ∈ parts, Tok cls hex p := by
  intro s
  induction s using kidTokens.induct cls with
  | case1 => intro _; exact ⟨[], rfl, by simp⟩
  | case2 b rest hin ih =>
    intro h
    unfold kidTokens at h
    simp only [hin, if_true] at h
    obtain ⟨parts, rfl, hp⟩ := ih h
    refine ⟨[b] :: parts, by simp, ?_⟩
    intro p hpm
    rcases List.mem_cons.mp hpm with rfl | hpm
    · exact Or.inl ⟨b, rfl, hin⟩
    · exact hp p hpm
  | case3 h1 h2 rest' hin ih =>
    intro h
    simp only [kidTokens, hin, if_false, Bool.false_eq_true, if_true, Bool.and_eq_true] at h
    obtain ⟨parts, rfl, hp⟩ := ih h.2
    refine ⟨[PCT, h1, h2] :: parts, by simp, ?_⟩
    intro p hpm
    rcases List.mem_cons.mp hpm with rfl | hpm
    · exact Or.inr ⟨h1, h2, rfl, h.1.1, h.1.2⟩
    · exact hp p hpm
  | case4 rest hno hin =>
    intro h
    unfold kidTokens at h
    simp only [hin, if_false, Bool.false_eq_true, if_true] at h
  | case5 b rest hin hp =>
    intro h
    unfold kidTokens at h
    simp only [hin, hp, if_false, Bool.false_eq_true] at h

/-- the executable predicate decides exactly the language of the pattern tree -/
theorem kidMatches_iff_language (cls hex : Ranges) (hpct : inRanges cls PCT = false) (s : Bytes) :
    kidMatches cls hex s = true ↔ (kidShape cls hex).M s := by
  unfold kidMatches kidShape
  simp only [Rx.M, Bool.and_eq_true, Bool.not_eq_true', List.isEmpty_eq_false_iff]
  constructor
  · rintro ⟨hne, ht⟩
    obtain ⟨parts, rfl, hp⟩ := parts_of_kidTokens cls hex s ht
    refine ⟨parts, ?_, rfl, fun p hpm => (alt_iff_tok cls hex p).mpr (hp p hpm)⟩
    intro e; subst e; exact hne rfl
  · rintro ⟨parts, hne, rfl, hp⟩
    have htok : ∀ p ∈ parts, Tok cls hex p := fun p hpm => (alt_iff_tok cls hex p).mp (hp p hpm)
    refine ⟨?_, kidTokens_of_parts cls hex hpct parts htok⟩
    cases parts with
    | nil => exact absurd rfl hne
    | cons p rest =>
      rcases htok p (by simp) with ⟨b, rfl, _⟩ | ⟨h1, h2, rfl, _, _⟩ <;> simp
theorem kidClasses_shape (rx : Rx) (cls hex : Ranges) (h : kidClasses rx = some (cls, hex)) :
    rx = .cat [.bot, kidShape cls hex, .eot] := by
  unfold kidClasses at h
  split at h
  · cases h; rfl
  · cases h

theorem fullMatch_kid (rx : Rx) (cls hex : Ranges) (h : kidClasses rx = some (cls, hex)) (hpct : inRanges cls PCT = false) (s : Bytes) :
    kidMatches cls hex s = true ↔ rx.FullMatch s := by
  rw [kidClasses_shape rx cls hex h]
  simp only [Rx.FullMatch]
  exact kidMatches_iff_language cls hex hpct s

/-! ### uuid-shaped names -/

/-- the bytes of `uuid.UUID.String()`: lower-case hex digits and '-' -/
def isUuidByte (b : Nat) : Bool := (48 ≤ b && b ≤ 57) || (97 ≤ b && b ≤ 102) || b = 45

def coversUuid (cls : Ranges) : Bool := (List.range 128).all fun b => !isUuidByte b || inRanges cls b

theorem uuid_tokens (cls hex : Ranges) (hc : coversUuid cls = true) :
    ∀ s : Bytes, (∀ b ∈ s, isUuidByte b = true) → kidTokens cls hex s = true := by
  intro s
  induction s with
  | nil => intro _; rfl
  | cons b rest ih =>
    intro h
    have hb := h b (by simp)
    have hlt : b < 128 := by
      unfold isUuidByte at hb
      simp only [Bool.or_eq_true, Bool.and_eq_true, decide_eq_true_eq] at hb
      omega
    have hin : inRanges cls b = true := by
      unfold coversUuid at hc
      rw [List.all_eq_true] at hc
      have := hc b (List.mem_range.mpr hlt)
      simpa [hb] using this
    unfold kidTokens
    simp only [hin, if_true]
    exact ih (fun x hx => h x (List.mem_cons_of_mem _ hx))

/-! ### path/filepath -/

theorem splitSlash_ne_nil (a : Bytes) : ∃ c cs, splitSlash a = c :: cs := by
  induction a with
  | nil => exact ⟨[], [], rfl⟩
  | cons b rest ih =>
    obtain ⟨c, cs, h⟩ := ih
    unfold splitSlash
    by_cases hb : b = SLASH
    · simp only [hb, if_true]; exact ⟨_, _, rfl⟩
    · simp only [hb, if_false, h]; exact ⟨_, _, rfl⟩

theorem splitSlash_noslash (n : Bytes) (h : SLASH ∉ n) : splitSlash n = [n] := by
  induction n with
  | nil => rfl
  | cons b rest ih =>
    have hb : b ≠ SLASH := fun e => h (by simp [e])
    have hr : SLASH ∉ rest := fun e => h (List.mem_cons_of_mem _ e)
    unfold splitSlash
    simp only [hb, if_false, ih hr]

theorem splitSlash_cons_ne (x : Nat) (rest c : Bytes) (cs : List Bytes) (hx : x ≠ SLASH) (h : splitSlash rest = c :: cs) :
    splitSlash (x :: rest) = (x :: c) :: cs := by
  conv => lhs; unfold splitSlash
  simp only [hx, if_false, h]

theorem splitSlash_append (a b : Bytes) : splitSlash (a ++ SLASH :: b) = splitSlash a ++ splitSlash b := by
  induction a with
  | nil => simp [splitSlash]
  | cons x rest ih =>
    obtain ⟨c, cs, h⟩ := splitSlash_ne_nil rest
    by_cases hx : x = SLASH
    · simp only [List.cons_append, splitSlash, hx, if_true, ih]
    · rw [List.cons_append, splitSlash_cons_ne x rest c cs hx h,
        splitSlash_cons_ne x (rest ++ SLASH :: b) c (cs ++ splitSlash b) hx (by rw [ih, h]; rfl)]
      rfl

theorem cleanStep_entry (r : Bool) (st : List Bytes) (n : Bytes) (h : IsEntryName n) : cleanStep r st n = n :: st := by
  obtain ⟨h1, h2, h3, _, _⟩ := h
  unfold cleanStep
  simp [h1, h2, h3]

theorem cleanComps_append_entries (r : Bool) (cs ns : List Bytes) (h : ∀ n ∈ ns, IsEntryName n) :
    cleanComps r (cs ++ ns) = cleanComps r cs ++ ns := by
  unfold cleanComps
  rw [List.foldl_append]
  generalize List.foldl (cleanStep r) [] cs = st
  induction ns generalizing st with
  | nil => simp
  | cons n rest ih =>
    rw [List.foldl_cons, cleanStep_entry r st n (h n (by simp))]
    rw [ih (fun m hm => h m (List.mem_cons_of_mem _ hm))]
    simp

theorem isRooted_append (a b : Bytes) (h : a ≠ []) : isRooted (a ++ b) = isRooted a := by
  cases a with
  | nil => exact absurd rfl h
  | cons x rest => rfl

/-- cleaning `a/n₁/…/nₖ` where every nᵢ is an entry name and `a` is non-empty: the components of `a`, then the nᵢ -/
theorem cleanP_append_entry (a n : Bytes) (ha : a ≠ []) (hn : IsEntryName n) :
    cleanP (a ++ SLASH :: n) = (cleanP a).child n := by
  unfold cleanP CPath.child
  rw [isRooted_append a _ ha, splitSlash_append, splitSlash_noslash n hn.2.2.2.1,
    cleanComps_append_entries _ _ [n] (by intro m hm; simp at hm; exact hm ▸ hn)]

theorem cleanP_noslash (n : Bytes) (hn : IsEntryName n) : cleanP n = { rooted := false, comps := [n] } := by
  unfold cleanP
  have hr : isRooted n = false := by
    cases n with
    | nil => rfl
    | cons x rest =>
      have : x ≠ SLASH := fun e => hn.2.2.2.1 (by simp [e])
      simp [isRooted, this]
  rw [hr, splitSlash_noslash n hn.2.2.2.1]
  have := cleanComps_append_entries false [] [n] (by intro m hm; simp at hm; exact hm ▸ hn)
  simpa [cleanComps] using this

theorem takeWhile_all {α} (p : α → Bool) : ∀ (l : List α), (∀ x ∈ l, p x = true) → l.takeWhile p = l
  | [], _ => rfl
  | x :: xs, h => by
    rw [List.takeWhile_cons, if_pos (h x (by simp)), takeWhile_all p xs (fun y hy => h y (List.mem_cons_of_mem _ hy))]

theorem base_noslash (n : Bytes) (h0 : n ≠ []) (hs : SLASH ∉ n) : base n = n := by
  have hall : ∀ x ∈ n.reverse, x ≠ SLASH := fun x hx e => hs (e ▸ List.mem_reverse.mp hx)
  have h1 : dropTrailingSlashes n = n := by
    unfold dropTrailingSlashes
    cases hr : n.reverse with
    | nil => simp at hr; exact absurd hr h0
    | cons x rest =>
      have hx : x ≠ SLASH := hall x (by rw [hr]; simp)
      rw [List.dropWhile_cons_of_neg (by simpa using hx), ← hr, List.reverse_reverse]
  have h2 : lastComp n = n := by
    unfold lastComp
    rw [takeWhile_all _ _ (by intro x hx; simpa using hall x hx), List.reverse_reverse]
  unfold base
  simp only [h0, if_false, h1, h2]

/-! ### association lists -/
section AL
variable {ν : Type}

theorem alGet_nil (k : String) : alGet ([] : List (String × ν)) k = none := rfl

theorem alGet_cons (p : String × ν) (m : List (String × ν)) (k : String) :
    alGet (p :: m) k = if p.1 = k then some p.2 else alGet m k := by
  unfold alGet
  by_cases h : p.1 = k
  · simp [List.find?_cons, h]
  · have : (p.1 == k) = false := by simpa using h
    simp [List.find?_cons, this, h]

theorem alGet_filter_ne (m : List (String × ν)) (k k' : String) :
    alGet (m.filter (fun p => !(p.1 == k))) k' = if k' = k then none else alGet m k' := by
  induction m with
  | nil => simp [alGet]
  | cons p rest ih =>
    by_cases hp : p.1 = k
    · have : (!(p.1 == k)) = false := by simp [hp]
      rw [List.filter_cons_of_neg (by simpa using hp), ih, alGet_cons]
      by_cases hk : k' = k
      · simp [hk]
      · have : p.1 ≠ k' := fun e => hk (e ▸ hp)
        simp [hk, this]
    · rw [List.filter_cons_of_pos (by simpa using hp), alGet_cons, ih, alGet_cons]
      by_cases hk : k' = k
      · have : p.1 ≠ k' := fun e => hp (e.trans hk)
        simp [hk, this] at *
        intro e; exact absurd e hp
      · simp [hk]

theorem alGet_put (m : List (String × ν)) (k k' : String) (v : ν) :
    alGet (alPut m k v) k' = if k' = k then some v else alGet m k' := by
  unfold alPut
  rw [alGet_cons, alGet_filter_ne]
  by_cases hk : k' = k
  · simp [hk]
  · have : k ≠ k' := fun e => hk e.symm
    simp [hk, this]

theorem alGet_del (m : List (String × ν)) (k k' : String) :
    alGet (alDel m k) k' = if k' = k then none else alGet m k' := alGet_filter_ne m k k'

theorem alGet_some_mem (m : List (String × ν)) (k : String) (v : ν) (h : alGet m k = some v) : (k, v) ∈ m := by
  induction m with
  | nil => cases h
  | cons p rest ih =>
    rw [alGet_cons] at h
    by_cases hp : p.1 = k
    · simp [hp] at h; subst hp; subst h; simp
    · simp [hp] at h; exact List.mem_cons_of_mem _ (ih h)
end AL

section KS

/-! ### key store invariant -/

/-- what was published for a kid is the public half of whatever key the kid's reference can reach -/
def Bound (s : Store) : Prop :=
  ∀ kid k, s.pubd kid = some k → ∃ r, s.ref kid = some r ∧ ∀ k', s.key r.keyName = some k' → k' = k

theorem bound_empty : Bound {} := by
  intro kid k h; cases h

variable (valid : String → Bool)

theorem saveRef_ok (c : Bool) (s : Store) (kid : String) (r : KeyRef) (s1 : Store) (h : saveRef c s kid r = .ok s1) :
    s1 = { s with refs := alPut s.refs kid r } := by
  unfold saveRef at h
  split at h
  · cases h
  · cases h; rfl

theorem bound_link (s : Store) (kid n v : String) (h : Bound s) : Bound (link s kid n v).1 := by
  unfold link
  cases hs : saveRef false s kid { keyName := n, version := v } with
  | error e => exact h
  | ok s1 =>
    simp only
    have := saveRef_ok false s kid _ s1 hs
    subst this
    intro kid' k hp
    unfold Store.pubd at hp
    simp only [alGet_del] at hp
    by_cases e : kid' = kid
    · simp [e] at hp
    · simp only [e, if_false] at hp
      obtain ⟨r, hr, hk⟩ := h kid' k hp
      refine ⟨r, ?_, hk⟩
      unfold Store.ref
      simp only [alGet_put, e, if_false]
      exact hr

theorem link_backend (s : Store) (kid n v : String) : (link s kid n v).1.backend = s.backend := by
  unfold link
  cases hs : saveRef false s kid { keyName := n, version := v } with
  | error e => rfl
  | ok s1 => simp only; rw [saveRef_ok false s kid _ s1 hs]

theorem bound_migrateOne (s : Store) (name : String) (h : Bound s) : Bound (migrateOne s name) := by
  unfold migrateOne
  split
  · exact h
  · exact bound_link s name name "1" h

theorem migrateOne_backend (s : Store) (name : String) : (migrateOne s name).backend = s.backend := by
  unfold migrateOne; split
  · rfl
  · exact link_backend s name name "1"

theorem bound_migrate (s : Store) (h : Bound s) : Bound (migrate s) := by
  unfold migrate migrateNames
  generalize fsListOrder s = names
  induction names generalizing s with
  | nil => exact h
  | cons n rest ih => exact ih _ (bound_migrateOne s n h)

theorem migrate_backend (s : Store) : (migrate s).backend = s.backend := by
  unfold migrate migrateNames
  generalize fsListOrder s = names
  induction names generalizing s with
  | nil => rfl
  | cons n rest ih => rw [List.foldl_cons, ih, migrateOne_backend]

theorem wDelete_ok (s : Store) (name : String) (s2 : Store) (h : wDelete valid s name = .ok s2) :
    valid name = true ∧ s2 = { s with backend := alDel s.backend name } := by
  unfold wDelete at h
  split at h
  · cases h
  · split at h
    · cases h; exact ⟨by simpa using ‹¬(!valid name) = true›, rfl⟩
    · cases h

theorem bound_delete (s : Store) (kid : String) (h : Bound s) : Bound (delete valid s kid).1 := by
  unfold delete
  cases hf : findRef s kid with
  | error e => exact h
  | ok r =>
    simp only
    -- s1: reference and ghost entry removed
    have h1 : Bound { s with refs := alDel s.refs kid, published := alDel s.published kid } := by
      intro kid' k hp
      unfold Store.pubd at hp
      simp only [alGet_del] at hp
      by_cases e : kid' = kid
      · simp [e] at hp
      · simp only [e, if_false] at hp
        obtain ⟨r', hr', hk'⟩ := h kid' k hp
        refine ⟨r', ?_, hk'⟩
        unfold Store.ref
        simp only [alGet_del, e, if_false]
        exact hr'
    cases hw : wDelete valid { s with refs := alDel s.refs kid, published := alDel s.published kid } r.keyName with
    | error e => exact h1
    | ok s2 =>
      simp only
      obtain ⟨_, hs2⟩ := wDelete_ok valid _ _ _ hw
      subst hs2
      intro kid' k hp
      obtain ⟨r', hr', hk'⟩ := h1 kid' k hp
      refine ⟨r', hr', ?_⟩
      intro k' hk
      apply hk'
      unfold Store.key at hk ⊢
      simp only [alGet_del] at hk
      split at hk
      · cases hk
      · exact hk

theorem bound_new (s : Store) (name : String) (naming : Option String) (hf : FreshName s name) (h : Bound s) :
    Bound (new s name naming).1 := by
  obtain ⟨hfk, hfr⟩ := hf
  unfold new wNew
  have hk0 : ({ s with nextKey := s.nextKey + 1 } : Store).key name = none := hfk
  simp only [hk0]
  -- the store after the key was saved
  have h1 : Bound { s with nextKey := s.nextKey + 1, backend := alPut s.backend name s.nextKey } := by
    intro kid k hp
    obtain ⟨r, hr, hk⟩ := h kid k hp
    refine ⟨r, hr, ?_⟩
    intro k' hk'
    apply hk
    unfold Store.key at hk' ⊢
    simp only [alGet_put] at hk'
    have hne : r.keyName ≠ name := hfr (kid, r) (alGet_some_mem _ _ _ hr)
    simpa [hne] using hk'
  cases naming with
  | none => exact h1
  | some kid =>
    simp only
    cases hs : saveRef true { s with nextKey := s.nextKey + 1, backend := alPut s.backend name s.nextKey } kid
        { keyName := name, version := "1" } with
    | error e => exact h1
    | ok s2 =>
      simp only
      have := saveRef_ok true _ kid _ s2 hs
      subst this
      intro kid' k hp
      unfold Store.pubd at hp
      simp only [alGet_put] at hp
      by_cases e : kid' = kid
      · simp only [e, if_true] at hp
        cases hp
        refine ⟨{ keyName := name, version := "1" }, ?_, ?_⟩
        · unfold Store.ref; simp [alGet_put, e]
        · intro k' hk'
          unfold Store.key at hk'
          simpa [alGet_put] using hk'.symm
      · simp only [e, if_false] at hp
        obtain ⟨r, hr, hk⟩ := h1 kid' k hp
        refine ⟨r, ?_, hk⟩
        unfold Store.ref
        simp only [alGet_put, e, if_false]
        exact hr

theorem wSave_ok (s : Store) (name : String) (s2 : Store) (k : Nat) (h : wSave valid s name = .ok (s2, k)) :
    valid name = true ∧ s2 = { s with backend := alPut s.backend name s.nextKey, nextKey := s.nextKey + 1 } := by
  unfold wSave at h
  split at h
  · cases h
  · split at h
    · cases h
    · cases h; exact ⟨by simpa using ‹¬(!valid name) = true›, rfl⟩

theorem step_save (s : Store) (name : String) :
    step valid s (.save name) = (match wSave valid s name with | .ok (s', _) => s' | .error _ => s) := rfl

theorem bound_save (s : Store) (name : String) (hf : FreshName s name) (h : Bound s) :
    Bound (step valid s (.save name)) := by
  obtain ⟨_, hfr⟩ := hf
  rw [step_save]
  cases hw : wSave valid s name with
  | error e => exact h
  | ok p =>
    obtain ⟨s2, k⟩ := p
    obtain ⟨_, hs2⟩ := wSave_ok valid s name s2 k hw
    subst hs2
    intro kid k' hp
    obtain ⟨r, hr, hk⟩ := h kid k' hp
    refine ⟨r, hr, ?_⟩
    intro k'' hk''
    apply hk
    unfold Store.key at hk'' ⊢
    simp only [alGet_put] at hk''
    have hne : r.keyName ≠ name := hfr (kid, r) (alGet_some_mem _ _ _ hr)
    simpa [hne] using hk''

theorem bound_step (s : Store) (op : Op)
    (hf : match op with | .new n _ => FreshName s n | .save n => FreshName s n | _ => True) (h : Bound s) :
    Bound (step valid s op) := by
  cases op with
  | new n f => exact bound_new s n f hf h
  | link k n v => exact bound_link s k n v h
  | delete k => exact bound_delete valid s k h
  | migrate => exact bound_migrate s h
  | save n => exact bound_save valid s n hf h

theorem bound_run (s : Store) (ops : List Op) (hf : FreshHist valid s ops) (h : Bound s) : Bound (run valid s ops) := by
  induction ops generalizing s with
  | nil => exact h
  | cons op rest ih =>
    obtain ⟨h1, h2⟩ := hf
    exact ih _ h2 (bound_step valid s op h1 h)

end KS

/-! ### key material does not flow into reference rows, entry names, audit records, outcomes -/



theorem alGet_isSome {ν : Type} (m : List (String × ν)) (k : String) :
    (alGet m k).isSome = (m.map (·.1)).contains k := by
  induction m with
  | nil => rfl
  | cons p rest ih =>
    rw [alGet_cons, List.map_cons, List.contains_cons]
    by_cases h : p.1 = k
    · simp [h]
    · have : (k == p.1) = false := by simpa using fun e => h e.symm
      simp [h, ih, this]

theorem alPut_names {ν : Type} (m : List (String × ν)) (k : String) (v : ν) :
    (alPut m k v).map (·.1) = k :: (m.map (·.1)).filter (fun x => !(x == k)) := by
  unfold alPut
  rw [List.map_cons, List.filter_map]
  rfl

theorem alDel_names {ν : Type} (m : List (String × ν)) (k : String) :
    (alDel m k).map (·.1) = (m.map (·.1)).filter (fun x => !(x == k)) := by
  unfold alDel
  rw [List.filter_map]
  rfl

theorem same_key_isSome {s t : Store} (h : SameButKeys s t) (n : String) : (s.key n).isSome = (t.key n).isSome := by
  unfold Store.key
  rw [alGet_isSome, alGet_isSome, h.2]

theorem same_ref {s t : Store} (h : SameButKeys s t) (kid : String) : s.ref kid = t.ref kid := by
  unfold Store.ref; rw [h.1]

section
variable (valid : String → Bool)

theorem same_wGet {s t : Store} (h : SameButKeys s t) (n v : String) :
    resErr (wGet valid s n v) = resErr (wGet valid t n v) := by
  unfold wGet
  have := same_key_isSome h n
  cases hs : s.key n <;> cases ht : t.key n <;> simp [hs, ht] at this <;> split <;> simp [resErr]

theorem same_getPrivateKey {s t : Store} (h : SameButKeys s t) (kid : String) :
    resErr (getPrivateKey valid s kid) = resErr (getPrivateKey valid t kid) := by
  unfold getPrivateKey findRef
  rw [same_ref h kid]
  cases t.ref kid with
  | none => rfl
  | some r =>
    simp only
    have := same_wGet valid h r.keyName r.version
    cases hs : wGet valid s r.keyName r.version <;> cases ht : wGet valid t r.keyName r.version <;>
      simp [hs, ht, resErr] at this
    · subst this; rename_i e; cases e <;> rfl
    · rfl
end

section
variable (valid : String → Bool)

theorem same_resolve {s t : Store} (h : SameButKeys s t) (kid : String) :
    resErr (resolve valid s kid) = resErr (resolve valid t kid) := same_getPrivateKey valid h kid

theorem same_saveRef (c : Bool) {s t : Store} (h : SameButKeys s t) (kid : String) (r : KeyRef) :
    (∃ e, saveRef c s kid r = .error e ∧ saveRef c t kid r = .error e) ∨
    (∃ s' t', saveRef c s kid r = .ok s' ∧ saveRef c t kid r = .ok t' ∧ SameButKeys s' t') := by
  unfold saveRef
  rw [same_ref h kid]
  split
  · exact Or.inl ⟨_, rfl, rfl⟩
  · exact Or.inr ⟨_, _, rfl, rfl, by simp [SameButKeys, h.1, h.2]⟩

theorem same_link {s t : Store} (h : SameButKeys s t) (kid n v : String) :
    SameButKeys (link s kid n v).1 (link t kid n v).1 ∧ resErr (link s kid n v).2 = resErr (link t kid n v).2 := by
  unfold link
  rcases same_saveRef false h kid { keyName := n, version := v } with ⟨e, h1, h2⟩ | ⟨s', t', h1, h2, hR⟩
  · simp [h1, h2, h, resErr]
  · simp only [h1, h2]
    exact ⟨⟨hR.1, hR.2⟩, by first | rfl | trivial⟩

theorem same_migrateOne {s t : Store} (h : SameButKeys s t) (name : String) :
    SameButKeys (migrateOne s name) (migrateOne t name) := by
  unfold migrateOne
  rw [h.1]
  split
  · exact h
  · exact (same_link h name name "1").1

theorem same_migrate {s t : Store} (h : SameButKeys s t) : SameButKeys (migrate s) (migrate t) := by
  unfold migrate migrateNames fsListOrder
  rw [h.2]
  generalize sortBy _ (t.backend.map (·.1)) = names
  induction names generalizing s t with
  | nil => exact h
  | cons n rest ih => exact ih (same_migrateOne h n)

theorem same_new {s t : Store} (h : SameButKeys s t) (name : String) (naming : Option String) :
    SameButKeys (new s name naming).1 (new t name naming).1 ∧ resErr (new s name naming).2 = resErr (new t name naming).2 := by
  unfold new wNew
  have hk := same_key_isSome h name
  have hs' : ({ s with nextKey := s.nextKey + 1 } : Store).key name = s.key name := rfl
  have ht' : ({ t with nextKey := t.nextKey + 1 } : Store).key name = t.key name := rfl
  simp only [hs', ht']
  cases hs : s.key name <;> cases ht : t.key name <;> simp [hs, ht] at hk
  · -- both create the key
    have hR1 : SameButKeys { s with nextKey := s.nextKey + 1, backend := alPut s.backend name s.nextKey }
        { t with nextKey := t.nextKey + 1, backend := alPut t.backend name t.nextKey } := by
      refine ⟨h.1, ?_⟩
      simp only [alPut_names, h.2]
    cases naming with
    | none => exact ⟨hR1, rfl⟩
    | some kid =>
      simp only
      rcases same_saveRef true hR1 kid { keyName := name, version := "1" } with ⟨e, h1, h2⟩ | ⟨s', t', h1, h2, hR⟩
      · simp only [h1, h2]; exact ⟨hR1, by first | rfl | trivial⟩
      · simp only [h1, h2]; exact ⟨⟨hR.1, hR.2⟩, by first | rfl | trivial⟩
  · exact ⟨⟨h.1, h.2⟩, rfl⟩

theorem same_wDelete {s t : Store} (h : SameButKeys s t) (name : String) :
    (∃ e, wDelete valid s name = .error e ∧ wDelete valid t name = .error e) ∨
    (∃ s' t', wDelete valid s name = .ok s' ∧ wDelete valid t name = .ok t' ∧ SameButKeys s' t') := by
  unfold wDelete
  have hk := same_key_isSome h name
  by_cases hv : valid name = true
  · cases hs : s.key name <;> cases ht : t.key name <;> simp [hs, ht] at hk
    · exact Or.inl ⟨.spiNotFound, by simp [hv], by simp [hv]⟩
    · refine Or.inr ⟨{ s with backend := alDel s.backend name }, { t with backend := alDel t.backend name },
        by simp [hv], by simp [hv], h.1, ?_⟩
      simp only [alDel_names, h.2]
  · exact Or.inl ⟨.invalidKid, by simp [hv], by simp [hv]⟩

theorem same_delete {s t : Store} (h : SameButKeys s t) (kid : String) :
    SameButKeys (delete valid s kid).1 (delete valid t kid).1 ∧
    resErr (delete valid s kid).2 = resErr (delete valid t kid).2 := by
  unfold delete findRef
  rw [same_ref h kid]
  cases t.ref kid with
  | none => exact ⟨h, rfl⟩
  | some r =>
    simp only
    have hR1 : SameButKeys { s with refs := alDel s.refs kid, published := alDel s.published kid }
        { t with refs := alDel t.refs kid, published := alDel t.published kid } := ⟨by simp [h.1], h.2⟩
    rcases same_wDelete valid hR1 r.keyName with ⟨e, h1, h2⟩ | ⟨s', t', h1, h2, hR⟩
    · simp only [h1, h2]; exact ⟨hR1, by first | rfl | trivial⟩
    · simp only [h1, h2]; exact ⟨hR, by first | rfl | trivial⟩

theorem same_save {s t : Store} (h : SameButKeys s t) (name : String) :
    SameButKeys (step valid s (.save name)) (step valid t (.save name)) := by
  rw [step_save, step_save]
  unfold wSave
  have hk := same_key_isSome h name
  by_cases hv : valid name = true
  · cases hs : s.key name <;> cases ht : t.key name <;> simp [hs, ht] at hk
    · simp only [hv, Bool.not_true, Bool.false_eq_true, if_false]
      refine ⟨h.1, ?_⟩
      simp only [alPut_names, h.2]
    · simpa [hv] using h
  · simpa [hv] using h

theorem same_step {s t : Store} (h : SameButKeys s t) (op : Op) : SameButKeys (step valid s op) (step valid t op) := by
  cases op with
  | new n f => exact (same_new h n f).1
  | link k n v => exact (same_link h k n v).1
  | delete k => exact (same_delete valid h k).1
  | migrate => exact same_migrate h
  | save n => exact same_save valid h n

theorem same_run {s t : Store} (h : SameButKeys s t) (ops : List Op) : SameButKeys (run valid s ops) (run valid t ops) := by
  induction ops generalizing s t with
  | nil => exact h
  | cons op rest ih => exact ih (same_step valid h op)

theorem same_audit {s t : Store} (h : SameButKeys s t) (r : Req) : auditOf valid s r = auditOf valid t r := by
  cases r with
  | op o =>
    cases o with
    | new n f =>
      simp only [auditOf, wNew]
      have hk := same_key_isSome h n
      have hs' : ({ s with nextKey := s.nextKey + 1 } : Store).key n = s.key n := rfl
      have ht' : ({ t with nextKey := t.nextKey + 1 } : Store).key n = t.key n := rfl
      simp only [hs', ht']
      cases hs : s.key n <;> cases ht : t.key n <;> simp [hs, ht] at hk <;> cases f <;> rfl
    | delete k =>
      simp only [auditOf, findRef, same_ref h k]
    | link _ _ _ => rfl
    | migrate => rfl
    | save _ => rfl
  | sign how kid iss sub =>
    simp only [auditOf]
    have := same_getPrivateKey valid h kid
    cases hs : getPrivateKey valid s kid <;> cases ht : getPrivateKey valid t kid <;> simp [hs, ht, resErr] at this <;> rfl
  | decryptJWE kid c =>
    simp only [auditOf]
    have := same_getPrivateKey valid h kid
    cases hs : getPrivateKey valid s kid <;> cases ht : getPrivateKey valid t kid <;> simp [hs, ht, resErr] at this <;> rfl
  | resolve _ => rfl
  | keyExists _ => rfl
  | list => rfl
  | decrypt _ _ => rfl

end

/-! ### the backend changes only at validated names or the name `New` drew -/

section
variable (valid : String → Bool)

theorem backend_touched (s : Store) (op : Op) (name : String)
    (h : (step valid s op).key name ≠ s.key name) :
    valid name = true ∨ ∃ f, op = .new name f := by
  cases op with
  | save n =>
    left
    rw [step_save] at h
    cases hw : wSave valid s n with
    | error e => simp [hw] at h
    | ok p =>
      obtain ⟨s2, k⟩ := p
      obtain ⟨hv, hs2⟩ := wSave_ok valid s n s2 k hw
      simp only [hw] at h
      subst hs2
      by_cases e : name = n
      · rw [e]; exact hv
      · exfalso; apply h; simp [Store.key, alGet_put, e]
  | link k n v => simp [step, Store.key, link_backend] at h
  | migrate => simp [step, Store.key, migrate_backend] at h
  | new n f =>
    by_cases e : name = n
    · exact Or.inr ⟨f, by rw [e]⟩
    · exfalso; apply h
      have hk : ({ s with nextKey := s.nextKey + 1 } : Store).key n = s.key n := rfl
      unfold step new wNew
      simp only [hk]
      cases hkn : s.key n with
      | some _ => rfl
      | none =>
        cases f with
        | none => simp [Store.key, alGet_put, e]
        | some kid =>
          simp only
          cases hs : saveRef true { s with nextKey := s.nextKey + 1, backend := alPut s.backend n s.nextKey } kid
              { keyName := n, version := "1" } with
          | error _ => simp [Store.key, alGet_put, e]
          | ok s2 =>
            have := saveRef_ok true _ kid _ s2 hs
            subst this
            simp [Store.key, alGet_put, e]
  | delete k =>
    left
    unfold step delete at h
    cases hf : findRef s k with
    | error e => simp [hf] at h
    | ok r =>
      simp only [hf] at h
      cases hw : wDelete valid { s with refs := alDel s.refs k, published := alDel s.published k } r.keyName with
      | error e => simp [hw, Store.key] at h
      | ok s2 =>
        obtain ⟨hv, hs2⟩ := wDelete_ok valid _ _ _ hw
        simp only [hw] at h
        subst hs2
        by_cases e : name = r.keyName
        · rw [e]; exact hv
        · exfalso; apply h; simp [Store.key, alGet_del, e]


theorem step_key_name (s : Store) (op : Op) (name : String) (k : Nat) (h : (step valid s op).key name = some k) :
    s.key name = some k ∨ valid name = true ∨ ∃ f, op = .new name f := by
  by_cases e : (step valid s op).key name = s.key name
  · exact Or.inl (e ▸ h)
  · exact Or.inr (backend_touched valid s op name e)


end

end Nuts.C03
