/-
  C06 — lemmas about the byte-level store model (NutsModel/C06/Shelf.lean): big-endian round trips, hash lists, the clocks
  shelf as a decoding of the stored transactions, the range scan, and the refinement of `graphAdd` by `dagAdd`.  Core Lean only.
-/
import NutsModel.C06.Shelf
namespace Nuts.C06.Shelf

theorem get_put_same {κ : Type} [DecidableEq κ] (sh : Shelf κ) (k : κ) (v : List Nat) : get (put sh k v) k = some v := by
  simp [get, put]

theorem get_put_other {κ : Type} [DecidableEq κ] (sh : Shelf κ) {k k' : κ} (v : List Nat) (h : k' ≠ k) :
    get (put sh k v) k' = get sh k' := by
  unfold get put
  rw [List.find?_cons_of_neg (by simpa using fun e => h e.symm), List.find?_filter]
  congr 2
  funext a
  by_cases ha : a.1 = k'
  · simp [ha, h]
  · simp [ha]

theorem be_length (n v : Nat) : (be n v).length = n := by
  induction n generalizing v with
  | zero => rfl
  | succ n ih => simp [be, ih]

theorem ofBe_append (l : List Nat) (b : Nat) : ofBe (l ++ [b]) = ofBe l * 256 + b := by
  simp [ofBe, List.foldl_append]

theorem ofBe_be (n v : Nat) : ofBe (be n v) = v % 256 ^ n := by
  induction n generalizing v with
  | zero => simp [be, ofBe, Nat.mod_one]
  | succ n ih =>
    rw [be, ofBe_append, ih, Nat.pow_succ]
    have := Nat.mod_mul_right_div_self v 256 (256 ^ n)
    rw [Nat.mul_comm (256 ^ n) 256, Nat.mod_mul, Nat.mul_comm]
    omega


theorem parseHashList_eq {l : List Nat} {n : Nat} (hl : l.length = hashSize * n) :
    parseHashList l = (List.range n).map (fun i => (l.drop (i * hashSize)).take hashSize) := by
  unfold parseHashList
  simp only [hashSize] at *
  split
  · rename_i h0
    have : n = 0 := by omega
    subst this; rfl
  · have : (l.length - l.length % 32) / 32 = n := by omega
    rw [this]

theorem parseHashList_append {l h : List Nat} (hl : l.length % hashSize = 0) (hh : h.length = hashSize) :
    parseHashList (appendHashList l h) = parseHashList l ++ [h] := by
  simp only [hashSize] at *
  obtain ⟨n, hn⟩ : ∃ n, l.length = 32 * n := ⟨l.length / 32, by omega⟩
  have h1 : (appendHashList l h).length = hashSize * (n + 1) := by simp [appendHashList, hashSize, hn, hh]; omega
  rw [parseHashList_eq h1, parseHashList_eq (n := n) (by simpa [hashSize] using hn), List.range_succ, List.map_append]
  congr 1
  · apply List.map_congr_left
    intro i hi
    have hi' : i < n := by simpa using hi
    simp only [appendHashList, hashSize]
    rw [List.drop_append_of_le_length (by omega), List.take_append_of_le_length (by simp; omega)]
  · simp only [appendHashList, hashSize, List.map_cons, List.map_nil]
    have : n * 32 = l.length := by omega
    rw [this, List.drop_left, ← hh, List.take_length]

/-- every value of the clocks shelf is a non-empty whole number of refs -/
def WF (sh : Shelf Nat) : Prop := ∀ k v, get sh k = some v → v.length % hashSize = 0 ∧ v.length ≠ 0

theorem wf_getD {sh : Shelf Nat} (h : WF sh) (k : Nat) : ((get sh k).getD []).length % hashSize = 0 := by
  cases hg : get sh k with
  | none => simp
  | some v => simpa using (h k v hg).1

theorem wf_index {sh : Shelf Nat} (h : WF sh) (c : Nat) {ref : List Nat} (hr : ref.length = hashSize) :
    WF (indexClockValue sh c ref) := by
  unfold indexClockValue
  simp only
  split
  · exact h
  · intro k v hg
    by_cases hk : k = c
    · subst hk
      rw [get_put_same] at hg
      cases hg
      have := wf_getD h k
      simp only [appendHashList, List.length_append, hr, hashSize] at *
      omega
    · rw [get_put_other _ _ hk] at hg
      exact h k v hg

theorem refsAt_index {sh : Shelf Nat} (h : WF sh) (c : Nat) {ref : List Nat} (hr : ref.length = hashSize) (c' : Nat) :
    refsAt (indexClockValue sh c ref) c' =
      if c' = c ∧ ref ∉ refsAt sh c then refsAt sh c ++ [ref] else refsAt sh c' := by
  unfold indexClockValue
  simp only
  split
  · rename_i hc
    have : ref ∈ refsAt sh c := by simpa [refsAt] using hc
    simp [this]
  · rename_i hc
    have hn : ref ∉ refsAt sh c := by simpa [refsAt] using hc
    by_cases hk : c' = c
    · subst hk
      simp only [hn, not_false_eq_true, and_self, if_true]
      unfold refsAt
      rw [get_put_same]
      simp only [Option.getD_some]
      exact parseHashList_append (wf_getD h c') hr
    · simp only [hk, false_and, if_false]
      unfold refsAt
      rw [get_put_other _ _ hk]

theorem hashBytes_length (r : Nat) : (hashBytes r).length = hashSize := be_length _ _

theorem wf_build (txs : List Tx) : WF (buildClocks txs) := by
  induction txs with
  | nil => intro k v hg; simp [buildClocks, get] at hg
  | cons t r ih => exact wf_index ih _ (hashBytes_length _)

/-- DECODING THE CLOCKS SHELF: under a clock value the store holds exactly the refs of the stored transactions with that clock,
    each once, in the order they were added -/
theorem refsAt_build (txs : List Tx) (hn : (txs.map (fun t => hashBytes t.ref)).Nodup) (c : Nat) :
    refsAt (buildClocks txs) c = ((txs.filter (fun t => t.clock = c)).reverse.map (fun t => hashBytes t.ref)) := by
  induction txs generalizing c with
  | nil => simp [buildClocks, refsAt, get, parseHashList]
  | cons t r ih =>
    simp only [List.map_cons] at hn
    have hn' := List.nodup_cons.mp hn
    have ih' := ih hn'.2 c
    simp only [buildClocks]
    rw [refsAt_index (wf_build r) _ (hashBytes_length _)]
    have hfresh : hashBytes t.ref ∉ refsAt (buildClocks r) t.clock := by
      rw [ih hn'.2 t.clock]
      intro hm
      apply hn'.1
      simp only [List.mem_map, List.mem_reverse, List.mem_filter] at hm ⊢
      obtain ⟨u, ⟨hu, _⟩, he⟩ := hm
      exact ⟨u, hu, he⟩
    by_cases hc : c = t.clock
    · subst hc
      simp only [hfresh, not_false_eq_true, and_self, if_true]
      rw [ih']
      simp [List.filter_cons]
    · simp only [hc, false_and, if_false]
      rw [ih']
      have : ¬ (t.clock = c) := fun e => hc e.symm
      simp [List.filter_cons, this]

theorem hashBytes_inj {a b : Nat} (ha : a < 256 ^ hashSize) (hb : b < 256 ^ hashSize) (h : hashBytes a = hashBytes b) : a = b := by
  have := congrArg ofBe h
  simp only [hashBytes, ofBe_be] at this
  rwa [Nat.mod_eq_of_lt ha, Nat.mod_eq_of_lt hb] at this

theorem parseHashList_nil : parseHashList [] = [] := by simp [parseHashList]

/-- `getRoots(lc) != nil` after `indexClockValue` -/
theorem roots_index {sh : Shelf Nat} (h : WF sh) (c : Nat) {ref : List Nat} (hr : ref.length = hashSize) :
    rootsNonNil (indexClockValue sh c ref) = (rootsNonNil sh || decide (c = 0)) := by
  unfold indexClockValue
  simp only
  split
  · rename_i hc
    by_cases h0 : c = 0
    · subst h0
      have hm : ref ∈ parseHashList ((get sh 0).getD []) := by simpa using hc
      unfold rootsNonNil
      cases hg : get sh 0 with
      | none => rw [hg] at hm; simp [parseHashList_nil] at hm
      | some v => simp [parseHashListNonNil, (h 0 v hg).2]
    · simp [h0]
  · by_cases h0 : c = 0
    · subst h0
      unfold rootsNonNil
      rw [get_put_same]
      simp [parseHashListNonNil, appendHashList, hr, hashSize]
    · unfold rootsNonNil
      rw [get_put_other _ _ (fun e => h0 e.symm)]
      simp [h0]

/-- the root check of `addSingle` reads the bytes right: a root is filed iff a stored transaction has clock 0 -/
theorem roots_build (txs : List Tx) : rootsNonNil (buildClocks txs) = hasRoot txs := by
  induction txs with
  | nil => simp [buildClocks, rootsNonNil, get, hasRoot]
  | cons t r ih =>
    simp only [buildClocks]
    rw [roots_index (wf_build r) _ (hashBytes_length _), ih]
    simp [hasRoot, Bool.or_comm]

theorem isSome_index {sh : Shelf Nat} (c : Nat) (ref : List Nat) (k : Nat) :
    (get (indexClockValue sh c ref) k).isSome = ((get sh k).isSome || decide (k = c)) := by
  unfold indexClockValue
  simp only
  split
  · rename_i hc
    by_cases hk : k = c
    · subst hk
      have hm : ref ∈ parseHashList ((get sh k).getD []) := by simpa using hc
      cases hg : get sh k with
      | none => rw [hg] at hm; simp [parseHashList_nil] at hm
      | some v => simp
    · simp [hk]
  · by_cases hk : k = c
    · subst hk; rw [get_put_same]; simp
    · rw [get_put_other _ _ hk]; simp [hk]

theorem isSome_build (txs : List Tx) (k : Nat) : (get (buildClocks txs) k).isSome = txs.any (fun t => t.clock = k) := by
  induction txs with
  | nil => simp [buildClocks, get]
  | cons t r ih =>
    simp only [buildClocks]
    rw [isSome_index, ih]
    simp only [List.any_cons, Bool.or_comm]
    congr 1
    by_cases h : k = t.clock <;> simp [h, eq_comm]

/-- keys present are downward closed (no clock value is skipped) -/
def Contig (sh : Shelf Nat) : Prop := ∀ k, (get sh k).isSome = true → ∀ j, j ≤ k → (get sh j).isSome = true

theorem walk_sound {sh : Shelf Nat} {fuel k to : Nat} {e : Nat × List Nat} (h : e ∈ walk sh fuel k to) :
    get sh e.1 = some e.2 ∧ k ≤ e.1 ∧ e.1 < to := by
  induction fuel generalizing k with
  | zero => simp [walk] at h
  | succ f ih =>
    unfold walk at h
    split at h
    · rename_i hk
      split at h
      · simp at h
      · rename_i v hv
        rcases List.mem_cons.mp h with h | h
        · subst h; exact ⟨hv, Nat.le_refl _, hk⟩
        · have := ih h; exact ⟨this.1, by omega, this.2.2⟩
    · simp at h

theorem walk_complete {sh : Shelf Nat} (hc : Contig sh) {fuel k to j : Nat} {v : List Nat}
    (hg : get sh j = some v) (hkj : k ≤ j) (hjt : j < to) (hf : to - k ≤ fuel) : (j, v) ∈ walk sh fuel k to := by
  induction fuel generalizing k with
  | zero => omega
  | succ f ih =>
    unfold walk
    rw [if_pos (by omega)]
    have hk : (get sh k).isSome = true := hc j (by simp [hg]) k hkj
    cases hgk : get sh k with
    | none => simp [hgk] at hk
    | some vk =>
      simp only
      by_cases hjk : j = k
      · subst hjk; rw [hgk] at hg; cases hg; exact List.mem_cons_self
      · exact List.mem_cons_of_mem _ (ih (by omega) (by omega))

theorem minKey_spec : ∀ (l : List Nat), (minKey l = none → l = []) ∧ (∀ m, minKey l = some m → m ∈ l ∧ ∀ x ∈ l, m ≤ x) := by
  intro l
  induction l with
  | nil => exact ⟨fun _ => rfl, fun m h => by simp [minKey] at h⟩
  | cons k r ih =>
    refine ⟨?_, ?_⟩
    · intro h; unfold minKey at h; split at h <;> cases h
    · intro m h
      unfold minKey at h
      split at h
      · rename_i hr
        cases h
        have := ih.1 hr
        subst this
        simp
      · rename_i m' hr
        obtain ⟨hm, hle⟩ := ih.2 m' hr
        cases h
        split
        · rename_i hk
          refine ⟨List.mem_cons_self, ?_⟩
          intro x hx
          rcases List.mem_cons.mp hx with hx | hx
          · omega
          · have := hle x hx; omega
        · rename_i hk
          refine ⟨List.mem_cons_of_mem _ hm, ?_⟩
          intro x hx
          rcases List.mem_cons.mp hx with hx | hx
          · omega
          · exact hle x hx

theorem get_isSome_iff {sh : Shelf Nat} {k : Nat} : (get sh k).isSome = true ↔ k ∈ sh.map (·.1) := by
  unfold get
  simp only [Option.isSome_map, List.find?_isSome, List.mem_map]
  constructor
  · rintro ⟨e, he, h⟩; exact ⟨e, he, by simpa using h⟩
  · rintro ⟨e, he, h⟩; exact ⟨e, he, by simpa using h⟩

theorem seek_some {sh : Shelf Nat} {frm k0 : Nat} (h : seek sh frm = some k0) :
    frm ≤ k0 ∧ (get sh k0).isSome = true ∧ ∀ j, (get sh j).isSome = true → frm ≤ j → k0 ≤ j := by
  obtain ⟨hm, hle⟩ := (minKey_spec _).2 k0 h
  simp only [List.mem_filter, decide_eq_true_eq] at hm
  refine ⟨hm.2, get_isSome_iff.mpr hm.1, ?_⟩
  intro j hj hfj
  exact hle j (by simp only [List.mem_filter, decide_eq_true_eq]; exact ⟨get_isSome_iff.mp hj, hfj⟩)

theorem seek_none {sh : Shelf Nat} {frm : Nat} (h : seek sh frm = none) : ∀ j, (get sh j).isSome = true → j < frm := by
  intro j hj
  have := (minKey_spec _).1 h
  by_cases hf : frm ≤ j
  · have hm : j ∈ (sh.map (·.1)).filter (fun k => frm ≤ k) := by
      simp only [List.mem_filter, decide_eq_true_eq]; exact ⟨get_isSome_iff.mp hj, hf⟩
    rw [this] at hm; cases hm
  · omega

/-- THE RANGE SCAN (`Range(from, to, cb, stopAtNil)`): when no clock value is skipped, it hands over exactly the entries with
    `from ≤ key < to` -/
theorem mem_range {sh : Shelf Nat} (hc : Contig sh) (frm to : Nat) (e : Nat × List Nat) :
    e ∈ range sh frm to ↔ (get sh e.1 = some e.2 ∧ frm ≤ e.1 ∧ e.1 < to) := by
  unfold range
  constructor
  · intro h
    split at h
    · cases h
    · rename_i k0 hk
      have := walk_sound h
      exact ⟨this.1, Nat.le_trans (seek_some hk).1 this.2.1, this.2.2⟩
  · rintro ⟨hg, hf, ht⟩
    split
    · rename_i hk
      have := seek_none hk e.1 (by simp [hg])
      omega
    · rename_i k0 hk
      have hle := (seek_some hk).2.2 e.1 (by simp [hg]) hf
      exact walk_complete hc hg hle ht (Nat.le_refl _)

theorem mem_insertSorted (x : List Nat) (l : List (List Nat)) (y : List Nat) : y ∈ insertSorted x l ↔ y = x ∨ y ∈ l := by
  induction l with
  | nil => simp [insertSorted]
  | cons z r ih =>
    unfold insertSorted
    split
    · simp
    · simp only [List.mem_cons, ih]
      constructor
      · rintro (h | h | h) <;> simp [h]
      · rintro (h | h | h) <;> simp [h]

theorem mem_sortRefs (l : List (List Nat)) (y : List Nat) : y ∈ sortRefs l ↔ y ∈ l := by
  induction l with
  | nil => simp [sortRefs]
  | cons z r ih =>
    have : sortRefs (z :: r) = insertSorted z (sortRefs r) := rfl
    rw [this, mem_insertSorted, ih]
    simp

/-- no clock value is skipped in a set of transactions: below every stored clock every value is the clock of a stored one -/
def NoGap (txs : List Tx) : Prop := ∀ t ∈ txs, ∀ j, j ≤ t.clock → ∃ u ∈ txs, u.clock = j

theorem contig_build {txs : List Tx} (h : NoGap txs) : Contig (buildClocks txs) := by
  intro k hk j hj
  rw [isSome_build] at hk ⊢
  simp only [List.any_eq_true, decide_eq_true_eq] at hk ⊢
  obtain ⟨t, ht, hc⟩ := hk
  exact h t ht j (by omega)

/-- FindBetweenLC READS EVERYTHING: over the bytes the store holds for a gap-free set of transactions with distinct refs, the
    scan of `visitBetweenLC` visits exactly the refs of the stored transactions with `start ≤ clock < end` -/
theorem mem_visit {txs : List Tx} (hn : (txs.map (fun t => hashBytes t.ref)).Nodup) (hg : NoGap txs) (a b : Nat) (h : List Nat) :
    h ∈ visitBetweenLC (buildClocks txs) a b ↔ ∃ t ∈ txs, hashBytes t.ref = h ∧ a ≤ t.clock ∧ t.clock < b := by
  unfold visitBetweenLC
  simp only [List.mem_flatMap, mem_sortRefs]
  constructor
  · rintro ⟨e, he, hm⟩
    obtain ⟨hge, ha, hb⟩ := (mem_range (contig_build hg) a b e).mp he
    have hr : refsAt (buildClocks txs) e.1 = parseHashList e.2 := by simp [refsAt, hge]
    rw [← hr, refsAt_build txs hn] at hm
    simp only [List.mem_map, List.mem_reverse, List.mem_filter, decide_eq_true_eq] at hm
    obtain ⟨t, ⟨ht, hc⟩, hh⟩ := hm
    exact ⟨t, ht, hh, by omega, by omega⟩
  · rintro ⟨t, ht, hh, ha, hb⟩
    have hs : (get (buildClocks txs) t.clock).isSome = true := by
      rw [isSome_build]; simp only [List.any_eq_true, decide_eq_true_eq]; exact ⟨t, ht, rfl⟩
    cases hge : get (buildClocks txs) t.clock with
    | none => simp [hge] at hs
    | some v =>
      refine ⟨(t.clock, v), (mem_range (contig_build hg) a b _).mpr ⟨hge, ha, hb⟩, ?_⟩
      have hr : refsAt (buildClocks txs) t.clock = parseHashList v := by simp [refsAt, hge]
      simp only
      rw [← hr, refsAt_build txs hn]
      simp only [List.mem_map, List.mem_reverse, List.mem_filter, decide_eq_true_eq]
      exact ⟨t, ⟨ht, rfl⟩, hh⟩

/-- the store holds the abstract DAG state `s` (documents, clocks and metadata shelves) -/
structure Refines (st : Store) (s : St) : Prop where
  clocks : st.clocks = buildClocks s.txs
  docs : st.docs = s.txs.map (fun t => hashBytes t.ref)
  count : getCounter st.md numberOfTransactionsKey = s.count
  lcHigh : getCounter st.md highestClockValue = s.lcHigh
  head : (get st.md headRefKey).getD (be hashSize 0) = hashBytes s.head

theorem refines_empty : Refines {} {} :=
  { clocks := rfl, docs := rfl, count := rfl, lcHigh := rfl, head := rfl }

theorem getCounter_put_same (md : Shelf String) (k : String) (n v : Nat) (h : v < 256 ^ n) :
    getCounter (put md k (be n v)) k = v := by
  unfold getCounter
  rw [get_put_same]
  simp only [ofBe_be, Nat.mod_eq_of_lt h]

theorem getCounter_put_other (md : Shelf String) {k k' : String} (v : List Nat) (h : k' ≠ k) :
    getCounter (put md k v) k' = getCounter md k' := by
  unfold getCounter
  rw [get_put_other _ _ h]

/-- BYTE-LEVEL `dag.add` REFINES THE ABSTRACT GRAPH STEP: on a store that holds `s`, adding a fresh transaction writes exactly the
    bytes that hold `graphAdd s tx`, and refuses exactly when `graphAdd` refuses (second root) -/
theorem dagAdd_refines {st : Store} {s : St} (h : Refines st s) (tx : Tx)
    (hfresh : hashBytes tx.ref ∉ st.docs) (hr0 : tx.ref ≠ 0) (hr : tx.ref < 256 ^ hashSize)
    (hc : tx.clock < 256 ^ 4) (hh : s.lcHigh < 256 ^ 4) (hn : s.count + 1 < 256 ^ 8) :
    match graphAdd s tx with
    | .ok s' => ∃ st', dagAdd st (hashBytes tx.ref) tx.clock tx.prevs.isEmpty = .ok st' ∧ Refines st' s'
    | .err e => dagAdd st (hashBytes tx.ref) tx.clock tx.prevs.isEmpty = .err e
    | .panic _ => False := by
  have hne : hashBytes tx.ref ≠ be hashSize 0 := fun e => hr0 (hashBytes_inj hr (by decide) e)
  have hcont : st.docs.contains (hashBytes tx.ref) = false := by simpa using hfresh
  unfold graphAdd
  split
  · rename_i s' hs
    split at hs
    · cases hs
    · rename_i hroot
      cases hs
      unfold dagAdd addSingle
      simp only [hcont, Bool.false_eq_true, if_false]
      rw [h.clocks, roots_build, if_neg hroot]
      simp only
      refine ⟨_, rfl, ?_⟩
      · simp only [h.lcHigh]
        by_cases hnew : (decide (tx.clock > s.lcHigh) || decide (tx.clock = 0)) = true
        · simp only [hnew, if_true, hne, ne_eq, not_false_eq_true]
          refine { clocks := ?_, docs := ?_, count := ?_, lcHigh := ?_, head := ?_ }
          · simp [h.clocks, buildClocks]
          · simp [h.docs]
          · rw [getCounter_put_same _ _ 8 _ (by
              rw [getCounter_put_other _ _ (by decide), getCounter_put_other _ _ (by decide), h.count]; exact hn)]
            rw [getCounter_put_other _ _ (by decide), getCounter_put_other _ _ (by decide), h.count]
          · rw [getCounter_put_other _ _ (by decide), getCounter_put_other _ _ (by decide), getCounter_put_same _ _ 4 _ hc]
          · rw [get_put_other _ _ (by decide), get_put_same]; rfl
        · simp only [hnew, Bool.false_eq_true, if_false, ne_eq, not_true_eq_false]
          refine { clocks := ?_, docs := ?_, count := ?_, lcHigh := ?_, head := ?_ }
          · simp [h.clocks, buildClocks]
          · simp [h.docs]
          · rw [getCounter_put_same _ _ 8 _ (by rw [getCounter_put_other _ _ (by decide), h.count]; exact hn)]
            rw [getCounter_put_other _ _ (by decide), h.count]
          · rw [getCounter_put_other _ _ (by decide), getCounter_put_same _ _ 4 _ hh]
          · rw [get_put_other _ _ (by decide), get_put_other _ _ (by decide)]; exact h.head
  · rename_i e hs
    split at hs
    · rename_i hroot
      cases hs
      unfold dagAdd addSingle
      simp only [hcont, Bool.false_eq_true, if_false]
      rw [h.clocks, roots_build, if_pos hroot]
    · cases hs
  · rename_i p hs
    split at hs <;> cases hs

theorem nogap_of_links {txs : List Tx} (h : ∀ t ∈ txs, t.clock = 0 ∨ ∃ u ∈ txs, t.clock = u.clock + 1) : NoGap txs := by
  intro t ht j hj
  generalize hd : t.clock - j = d
  induction d generalizing t with
  | zero => exact ⟨t, ht, by omega⟩
  | succ d ih =>
    rcases h t ht with h0 | ⟨u, hu, hc⟩
    · omega
    · exact ih u hu (by omega) (by omega)

theorem nodup_hashBytes {txs : List Tx} (hn : (refsOf txs).Nodup) (hb : ∀ t ∈ txs, t.ref < 256 ^ hashSize) :
    (txs.map (fun t => hashBytes t.ref)).Nodup := by
  induction txs with
  | nil => simp
  | cons t r ih =>
    simp only [refsOf, List.map_cons] at hn ⊢
    have hn' := List.nodup_cons.mp hn
    refine List.nodup_cons.mpr ⟨?_, ih hn'.2 (fun u hu => hb u (List.mem_cons_of_mem _ hu))⟩
    intro hm
    obtain ⟨u, hu, he⟩ := List.mem_map.mp hm
    have := hashBytes_inj (hb u (List.mem_cons_of_mem _ hu)) (hb t List.mem_cons_self) he
    exact hn'.1 (List.mem_map.mpr ⟨u, hu, this⟩)
end Nuts.C06.Shelf
