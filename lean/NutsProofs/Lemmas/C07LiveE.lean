/-
  C07 liveness lemmas, part E: what the serving node replies.
-/
import NutsModel.C07.Round
import NutsProofs.Lemmas.C07
import NutsProofs.Lemmas.C07LiveD
open Nuts.Proto Nuts Nuts.Proto.L

namespace Nuts.Proto.Live

/-! ### Part E: what the serving node replies -/

theorem flatten_map_split {α β} (f : α → β) : ∀ (cs : List (List β)) (l : List α), cs.flatten = l.map f →
    ∃ ls : List (List α), cs = ls.map (·.map f) ∧ ls.flatten = l := by
  intro cs
  induction cs with
  | nil =>
    intro l h
    have : l = [] := by simpa using h.symm
    exact ⟨[], rfl, by simp [this]⟩
  | cons c rest ih =>
    intro l h
    simp only [List.flatten_cons] at h
    obtain ⟨l1, l2, hl, h1, h2⟩ := List.map_eq_append_iff.mp h.symm
    obtain ⟨ls, hls, hfl⟩ := ih l2 h2.symm
    exact ⟨l1 :: ls, by simp [h1, hls], by simp [hl, hfl]⟩

theorem toPeer_cons_driving (key : Nat) (m : Msg) (rest : Out) (h : driving m = true) :
    toPeer key ((key, m) :: rest) = m :: toPeer key rest := by
  simp [toPeer, h]

theorem toPeer_numbered (key : Nat) (cid : Cid) (total : Nat) : ∀ (chunks : List (List NetTx)) (k : Nat),
    toPeer key ((numberChunks cid total k chunks).map (fun m => (key, m))) = numberChunks cid total k chunks := by
  intro chunks
  induction chunks with
  | nil => intro k; rfl
  | cons c cs ih =>
    intro k
    simp only [numberChunks, List.map_cons]
    rw [toPeer_cons_driving key _ _ rfl, ih (k + 1)]

/-- the reply to a list or range request over the node's own transactions `l`: the node is unchanged and sends
    `l` in wire form, chunked some way, numbered 1..total -/
theorem reply_shape (cfg : Cfg) (n : Node) (hp : PayloadsOK n) (key : Nat) (cid : Cid) (l : List Tx) (hl : ∀ t ∈ l, t ∈ n.dag) :
    ∃ ls : List (List Tx), ls.flatten = l ∧ collect n l = some (l.map (netOf n)) ∧
      toPeer key (sendTransactionList cfg key cid (l.map (netOf n))) =
        numberChunks cid ls.length 0 (ls.map (·.map (netOf n))) := by
  obtain ⟨ls, hls, hfl⟩ := flatten_map_split (netOf n) (chunkTransactionList cfg (l.map (netOf n))) l (chunks_flatten cfg _)
  refine ⟨ls, hfl, collect_eq n hp l hl, ?_⟩
  unfold sendTransactionList
  simp only
  rw [toPeer_numbered, hls]
  simp

theorem absorb_single (cfg : Cfg) (env : Env) (n : Node) (p : Peer) (m : Msg) :
    absorb cfg env n p [m] = ((handle cfg env n p m).node, toPeer p.key (handle cfg env n p m).out) := by
  simp [absorb_cons, absorb]

/-- serving a list query -/
theorem serve_listQuery (cfg : Cfg) (env : Env) (n : Node) (hp : PayloadsOK n) (hord : OrderSub env) (p : Peer) (cid : Cid)
    (refs : List Ref) (hne : refs ≠ []) :
    ∃ ls : List (List Tx), ls.flatten = env.order (refs.filterMap (getTx n.dag)) ∧
      absorb cfg env n p [.listQuery cid refs] = (n, numberChunks cid ls.length 0 (ls.map (·.map (netOf n)))) := by
  have hl : ∀ t ∈ env.order (refs.filterMap (getTx n.dag)), t ∈ n.dag := by
    intro t ht
    obtain ⟨r, _, hr⟩ := List.mem_filterMap.mp (hord _ _ ht)
    exact getTx_mem hr
  obtain ⟨ls, hfl, hc, hs⟩ := reply_shape cfg n hp p.key cid _ hl
  refine ⟨ls, hfl, ?_⟩
  rw [absorb_single]
  simp only [handle]
  unfold handleTransactionListQuery
  have : refs.isEmpty = false := by cases refs with | nil => exact absurd rfl hne | cons _ _ => rfl
  simp only [this, Bool.false_eq_true, if_false, hc, hs]

/-- serving a range query -/
theorem serve_rangeQuery (cfg : Cfg) (env : Env) (n : Node) (hp : PayloadsOK n) (p : Peer) (cid : Cid) (a b : Nat) (hab : a < b) :
    ∃ ls : List (List Tx),
      ls.flatten = findBetween n.dag a (if b > a + cfg.rangePages * cfg.pageSize then a + cfg.rangePages * cfg.pageSize else b) ∧
      absorb cfg env n p [.rangeQuery cid a b] = (n, numberChunks cid ls.length 0 (ls.map (·.map (netOf n)))) := by
  obtain ⟨ls, hfl, hc, hs⟩ := reply_shape cfg n hp p.key cid
    (findBetween n.dag a (if b > a + cfg.rangePages * cfg.pageSize then a + cfg.rangePages * cfg.pageSize else b))
    (fun t ht => findBetween_mem ht)
  refine ⟨ls, hfl, ?_⟩
  rw [absorb_single]
  simp only [handle]
  unfold handleTransactionRangeQuery
  have : ¬ a ≥ b := by omega
  simp only [this, if_false, hc, hs]

/-- serving a state request -/
theorem serve_state (cfg : Cfg) (env : Env) (n : Node) (p : Peer) (cid : Cid) (x : Ref) (lc : Nat) :
    absorb cfg env n p [.state cid x lc] =
      (n, if xorOf n.dag == x then [] else [.txSet cid lc (lcOf n.dag) (.ofSet (ibltSet cfg n.dag lc))]) := by
  rw [absorb_single]
  simp only [handle]
  unfold handleState
  split
  · rfl
  · simp [toPeer, driving]

end Nuts.Proto.Live
