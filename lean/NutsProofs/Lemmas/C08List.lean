/-
  C08 — the clock-ordered listing: `findBetweenLC` returns the stored transactions of the window (as a permutation;
  the order is dealt with separately), and folds are invariant under permutation.  Core Lean only.
-/
import NutsProofs.Lemmas.C08Inv
import NutsProofs.Lemmas.Sort

namespace Nuts.C08

variable {R G : Type} {n : Nat}

/-! ### folds do not depend on the order -/

theorem gsum_perm {o : Ops R G} (L : Lawful o) {l₁ l₂ : List G} (h : l₁.Perm l₂) : gsum o l₁ = gsum o l₂ := by
  induction h with
  | nil => rfl
  | cons x _ ih => simp [gsum, ih]
  | swap x y l => simp only [gsum]; rw [← L.add_assoc, ← L.add_assoc, L.add_comm y x]
  | trans _ _ ih1 ih2 => rw [ih1, ih2]

theorem foldl_ins_eq {o : Ops R G} (L : Lawful o) (l : List (R × Nat)) (g0 : G) :
    l.foldl (fun g rc => o.ins g rc.1) g0 = o.add g0 (gsum o (l.map fun rc => o.ins o.zero rc.1)) := by
  induction l generalizing g0 with
  | nil => simp [gsum, L.add_zero]
  | cons rc l ih => simp only [List.foldl_cons, List.map_cons, gsum, ih, L.ins_eq g0 rc.1, L.add_assoc]

theorem specAll_eq_gsum {o : Ops R G} (L : Lawful o) (l : List (R × Nat)) :
    specAll o l = gsum o (l.map fun rc => o.ins o.zero rc.1) := by
  unfold specAll; rw [foldl_ins_eq L, zero_add L]

theorem specAll_perm {o : Ops R G} (L : Lawful o) {l₁ l₂ : List (R × Nat)} (h : l₁.Perm l₂) :
    specAll o l₁ = specAll o l₂ := by
  rw [specAll_eq_gsum L, specAll_eq_gsum L]; exact gsum_perm L (h.map _)

theorem specAll_append {o : Ops R G} (L : Lawful o) (l₁ l₂ : List (R × Nat)) :
    specAll o (l₁ ++ l₂) = o.add (specAll o l₁) (specAll o l₂) := by
  rw [specAll_eq_gsum L, specAll_eq_gsum L, specAll_eq_gsum L, List.map_append, gsum_append L]

/-! ### the range scan over the clock shelf -/

theorem rangeClocks_spec (a b : Nat) : ∀ (l : List (Nat × List Ref)) (s k : Nat) (prev : Option Nat),
    l.map (·.1) = List.range' s k → (prev = none ∨ (prev = some (s - 1) ∧ 1 ≤ s ∧ a ≤ s - 1)) →
    Disk.rangeClocks a b l prev = (l.filter (fun kv => decide (a ≤ kv.1 ∧ kv.1 < b))).map (·.2) := by
  intro l
  induction l with
  | nil => intro s k prev _ _; rfl
  | cons x rest ih =>
    intro s k prev hk hp
    obtain ⟨k0, refs⟩ := x
    cases k with
    | zero => simp at hk
    | succ k' =>
      simp only [List.map_cons, List.range'_succ, List.cons.injEq] at hk
      obtain ⟨hk0, hrest⟩ := hk
      subst hk0
      simp only [Disk.rangeClocks, List.filter_cons]
      by_cases h1 : k0 < a
      · have hprev : prev = none := by
          rcases hp with h | ⟨_, _, h⟩
          · exact h
          · omega
        have : ¬ (a ≤ k0 ∧ k0 < b) := by omega
        simp only [h1, if_true, this, decide_false, Bool.false_eq_true, if_false]
        exact ih (k0 + 1) k' prev hrest (Or.inl hprev)
      · by_cases h2 : k0 ≥ b
        · have : ¬ (a ≤ k0 ∧ k0 < b) := by omega
          simp only [h1, if_false, h2, if_true, this, decide_false, Bool.false_eq_true]
          rw [List.filter_eq_nil_iff.mpr]
          · rfl
          · intro kv hkv
            have : kv.1 ∈ rest.map (·.1) := List.mem_map.mpr ⟨kv, hkv, rfl⟩
            rw [hrest, List.mem_range'_1] at this
            simp; omega
        · have hw : a ≤ k0 ∧ k0 < b := by omega
          have hrec := ih (k0 + 1) k' (some k0) hrest (Or.inr ⟨by simp, by omega, by simp; omega⟩)
          simp only [h1, if_false, h2, hw, and_self, decide_true, if_true, List.map_cons]
          rcases hp with h | ⟨h, h3, _⟩
          · subst h; simp only []; rw [hrec]
          · subst h
            have : ¬ (k0 - 1 + 1 ≠ k0) := by omega
            simp only [this, if_false]; rw [hrec]

/-! ### the clock shelf, reconstructed from the stored set -/

def clockEntry (S : List Tx) (c : Nat) : Nat × List Ref := (c, (S.filter (fun t => t.clock == c)).map (·.ref))

theorem assoc_eq_of_keys {α : Type} (f : Nat → α) (dflt : α) : ∀ (l : List (Nat × α)) (ks : List Nat),
    l.map (·.1) = ks → ks.Nodup → (∀ c ∈ ks, (getSorted c l).getD dflt = f c) → l = ks.map (fun c => (c, f c)) := by
  intro l
  induction l with
  | nil => intro ks h _ _; simp at h; subst h; rfl
  | cons x rest ih =>
    intro ks h nd hf
    obtain ⟨c, v⟩ := x
    cases ks with
    | nil => simp at h
    | cons c' ks' =>
      simp only [List.map_cons, List.cons.injEq] at h
      obtain ⟨hc, hrest⟩ := h
      subst hc
      have hnd := List.nodup_cons.mp nd
      have hv : v = f c := by
        have := hf c (by simp)
        simpa [getSorted] using this
      rw [List.map_cons, hv]
      congr 1
      apply ih ks' hrest hnd.2
      intro c2 hc2
      have hne : c2 ≠ c := fun e => hnd.1 (e ▸ hc2)
      have := hf c2 (by simp [hc2])
      simpa [getSorted, hne] using this

theorem GInv.clocks_eq {d : Disk n} (g : GInv d) :
    d.clocks = (if d.txs = [] then [] else List.range' 0 (maxClock d.txs + 1)).map (clockEntry d.txs) := by
  apply assoc_eq_of_keys (fun c => (d.txs.filter (fun t => t.clock == c)).map (·.ref)) [] d.clocks _ g.keys
  · split
    · exact List.nodup_nil
    · exact List.nodup_range'
  · intro c _; exact g.idx c

/-! ### per-clock blocks cover the window -/

theorem filter_or_perm {α : Type} (p q : α → Bool) (l : List α) (hd : ∀ x ∈ l, ¬ (p x = true ∧ q x = true)) :
    (l.filter p ++ l.filter q).Perm (l.filter (fun x => p x || q x)) := by
  induction l with
  | nil => simp
  | cons x xs ih =>
    have ih' := ih (fun y hy => hd y (by simp [hy]))
    have hx := hd x (by simp)
    cases hp : p x <;> cases hq : q x
    · simpa [List.filter_cons, hp, hq] using ih'
    · simp only [List.filter_cons, hp, hq, Bool.false_eq_true, if_false, if_true, Bool.or_true]
      exact List.perm_middle.trans (ih'.cons x)
    · simp only [List.filter_cons, hp, hq, Bool.false_eq_true, if_false, if_true, Bool.or_false, List.cons_append]
      exact ih'.cons x
    · simp [hp, hq] at hx

theorem blocks_perm (S : List Tx) : ∀ (K : List Nat), K.Nodup →
    (K.flatMap (fun c => S.filter (fun t => t.clock == c))).Perm (S.filter (fun t => K.contains t.clock)) := by
  intro K
  induction K with
  | nil => intro _; simp
  | cons c K ih =>
    intro nd
    have hnd := List.nodup_cons.mp nd
    simp only [List.flatMap_cons]
    refine ((List.Perm.refl _).append (ih hnd.2)).trans ?_
    refine (filter_or_perm _ _ S ?_).trans ?_
    · intro t _ ⟨h1, h2⟩
      simp at h1 h2
      exact hnd.1 (h1 ▸ h2)
    · apply List.Perm.of_eq
      apply List.filter_congr
      intro t _
      by_cases hc : t.clock = c
      · simp [hc]
      · simp [hc]

theorem flatten_map_perm {α : Type} (f : List α → List α) (hf : ∀ l, (f l).Perm l) :
    ∀ X : List (List α), (X.map f).flatten.Perm X.flatten := by
  intro X
  induction X with
  | nil => simp
  | cons x xs ih => simp only [List.map_cons, List.flatten_cons]; exact (hf x).append ih

/-! ### looking the refs up again -/

theorem getTx_self {d : Disk n} (nd : (d.txs.map (·.ref)).Nodup) : ∀ t ∈ d.txs, d.getTx t.ref = some t := by
  unfold Disk.getTx
  generalize d.txs = S at nd
  induction S with
  | nil => intro t h; cases h
  | cons x xs ih =>
    intro t ht
    simp only [List.map_cons] at nd
    have hnd := List.nodup_cons.mp nd
    rcases List.mem_cons.mp ht with e | h
    · subst e; simp
    · have hne : ¬ (x.ref == t.ref) = true := by
        intro e
        have : x.ref = t.ref := by simpa using e
        exact hnd.1 (this ▸ List.mem_map.mpr ⟨t, h, rfl⟩)
      simp only [List.find?_cons, hne]
      exact ih hnd.2 t h

theorem foldr_getTx (d : Disk n) : ∀ (refs : List Ref), (∀ r ∈ refs, ∃ t, d.getTx r = some t) →
    refs.foldr (fun r acc =>
      match acc with
      | .ok l => (match d.getTx r with
                  | some t => .ok (t :: l)
                  | none => .err "tx-not-found")
      | e => e) (.ok []) = Res.ok (refs.filterMap d.getTx) := by
  intro refs
  induction refs with
  | nil => intro _; rfl
  | cons r rest ih =>
    intro h
    obtain ⟨t, ht⟩ := h r (by simp)
    simp only [List.foldr_cons, ih (fun r' hr' => h r' (by simp [hr'])), ht, List.filterMap_cons]

/-- **`findBetweenLC`** returns (in some order) exactly the stored transactions with clock in `[a, b)` -/
theorem findBetweenLC_perm {d : Disk n} (g : GInv d) (a b : Nat) :
    ∃ txs, d.findBetweenLC a b = .ok txs ∧ txs.Perm (d.txs.filter (fun t => decide (a ≤ t.clock ∧ t.clock < b))) := by
  let K := if d.txs = [] then [] else List.range' 0 (maxClock d.txs + 1)
  have hKnd : K.Nodup := by
    show (if d.txs = [] then [] else List.range' 0 (maxClock d.txs + 1)).Nodup
    split
    · exact List.nodup_nil
    · exact List.nodup_range'
  have hK : ∀ t ∈ d.txs, t.clock ∈ K := by
    intro t ht
    have hne : d.txs ≠ [] := fun e => by rw [e] at ht; cases ht
    show t.clock ∈ (if d.txs = [] then [] else List.range' 0 (maxClock d.txs + 1))
    rw [if_neg hne, List.mem_range'_1]
    have := le_maxClock ht
    omega
  let win : Nat → Bool := fun c => decide (a ≤ c ∧ c < b)
  have hrange : Disk.rangeClocks a b d.clocks none = ((K.filter win).map (clockEntry d.txs)).map (·.2) := by
    have hk : d.clocks.map (·.1) = List.range' 0 K.length := by
      rw [g.keys]
      show (if d.txs = [] then [] else List.range' 0 (maxClock d.txs + 1)) = List.range' 0 (if d.txs = [] then [] else List.range' 0 (maxClock d.txs + 1)).length
      split <;> simp
    rw [rangeClocks_spec a b d.clocks 0 K.length none hk (Or.inl rfl), g.clocks_eq]
    show (List.filter _ (K.map (clockEntry d.txs))).map _ = _
    rw [List.filter_map]
    rfl
  -- the refs that are looked up
  let refs := ((Disk.rangeClocks a b d.clocks none).map (sortBy Disk.refLt)).flatten
  have hperm : refs.Perm ((d.txs.filter (fun t => decide (a ≤ t.clock ∧ t.clock < b))).map (·.ref)) := by
    show (((Disk.rangeClocks a b d.clocks none).map (sortBy Disk.refLt)).flatten).Perm _
    refine (flatten_map_perm _ (sortBy_perm Disk.refLt) _).trans ?_
    rw [hrange]
    have e1 : (((K.filter win).map (clockEntry d.txs)).map (·.2)).flatten =
        ((K.filter win).flatMap (fun c => d.txs.filter (fun t => t.clock == c))).map (·.ref) := by
      simp only [List.map_map, List.flatMap, List.map_flatten, List.map_map]
      rfl
    rw [e1]
    apply List.Perm.map
    refine (blocks_perm d.txs (K.filter win) (hKnd.filter _)).trans ?_
    apply List.Perm.of_eq
    apply List.filter_congr
    intro t ht
    have := hK t ht
    simp only [List.contains_eq_any_beq, List.any_filter]
    by_cases hw : a ≤ t.clock ∧ t.clock < b
    · simp only [hw, and_self, decide_true]
      rw [List.any_eq_true]
      exact ⟨t.clock, this, by simp [win, hw]⟩
    · simp only [hw, decide_false]
      rw [List.any_eq_false]
      intro c _
      by_cases hc : c = t.clock
      · subst hc; simp [win, hw]
      · simp; intro _ e; exact absurd e.symm hc
  have hfound : ∀ r ∈ refs, ∃ t, d.getTx r = some t := by
    intro r hr
    have := hperm.mem_iff.mp hr
    simp only [List.mem_map, List.mem_filter] at this
    obtain ⟨t, ⟨ht, _⟩, rfl⟩ := this
    exact ⟨t, getTx_self g.nodup t ht⟩
  refine ⟨refs.filterMap d.getTx, ?_, ?_⟩
  · unfold Disk.findBetweenLC
    exact foldr_getTx d refs hfound
  · refine (hperm.filterMap d.getTx).trans ?_
    apply List.Perm.of_eq
    rw [List.filterMap_map]
    have : ∀ (l : List Tx), (∀ t ∈ l, t ∈ d.txs) → l.filterMap (d.getTx ∘ (·.ref)) = l := by
      intro l
      induction l with
      | nil => intro _; rfl
      | cons x xs ih =>
        intro h
        simp only [List.filterMap_cons, Function.comp, getTx_self g.nodup x (h x (by simp))]
        rw [ih (fun t ht => h t (by simp [ht]))]
    exact this _ (fun t ht => (List.mem_filter.mp ht).1)

/-! ### splitting a fold by disjoint filters; the pages add up -/

theorem specAll_filter_split {o : Ops R G} (L : Lawful o) (p q : R × Nat → Bool) (l : List (R × Nat))
    (hd : ∀ x ∈ l, ¬ (p x = true ∧ q x = true)) :
    specAll o (l.filter (fun x => p x || q x)) = o.add (specAll o (l.filter p)) (specAll o (l.filter q)) := by
  rw [← specAll_append L]
  exact (specAll_perm L (filter_or_perm p q l hd)).symm

/-- Lemma A: the leaves `pageVal … p` of the pages below `m` add up to the fold of the references on those pages -/
theorem fsum_pl_pageVal {o : Ops R G} (L : Lawful o) {ls : Nat} (hls : 0 < ls) (q : Nat → Bool) (l : List (R × Nat)) :
    ∀ m, fsum o ls q (pl ls 0 m (pageVal o ls l)) =
      specAll o (l.filter (fun rc => q (rc.2 / ls) && decide (rc.2 / ls < m))) := by
  intro m
  induction m with
  | zero =>
    rw [pl_zero, fsum_nil, List.filter_eq_nil_iff.mpr (by intro rc _; simp)]; rfl
  | succ m ih =>
    rw [pl_succ, fsum_append L, ih]
    have hlast : fsum o ls q [(keyOf ls (0 + m), pageVal o ls l (0 + m))] =
        specAll o (l.filter (fun rc => q (rc.2 / ls) && (rc.2 / ls == m))) := by
      simp only [fsum, List.filter_cons, List.filter_nil, Nat.zero_add, keyOf_page hls]
      by_cases hq : q m = true
      · simp only [hq, if_true, List.map_cons, List.map_nil, gsum, L.add_zero, pageVal]
        congr 1
        apply List.filter_congr
        intro rc _
        by_cases e : rc.2 / ls = m
        · simp [e, hq]
        · simp [e]
      · have hq' : q m = false := by cases h : q m <;> simp_all
        simp only [hq', Bool.false_eq_true, if_false, List.map_nil, gsum]
        rw [List.filter_eq_nil_iff.mpr]
        · rfl
        · intro rc _
          by_cases e : rc.2 / ls = m
          · simp [e, hq']
          · simp [e]
    rw [hlast, ← specAll_filter_split L]
    · congr 1
      apply List.filter_congr
      intro rc _
      by_cases hq : q (rc.2 / ls) = true
      · simp only [hq, Bool.true_and]
        by_cases e : rc.2 / ls = m
        · simp [e]
        · have : (rc.2 / ls < m + 1) = (rc.2 / ls < m) := by
            apply propext; constructor <;> intro h <;> omega
          simp [e, this]
      · have hq' : q (rc.2 / ls) = false := by cases h : q (rc.2 / ls) <;> simp_all
        simp [hq']
    · intro rc _ ⟨h1, h2⟩
      simp at h1 h2
      omega

end Nuts.C08
