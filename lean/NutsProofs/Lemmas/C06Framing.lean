/-
  C06 — lemmas about the byte-level framing model (NutsModel/C06/Framing.lean): base64url round trips, canonical segments,
  split/join.  Core Lean only.
-/
import NutsModel.C06.Framing
namespace Nuts.C06.Framing

theorem enc6_alpha_fin : ∀ n : Fin 64, isAlpha (enc6 n.val) = true := by decide
theorem dec6_enc6_fin : ∀ n : Fin 64, dec6 (enc6 n.val) = some n.val := by decide

theorem enc6_alpha (n : Nat) : isAlpha (enc6 n) = true := by
  by_cases h : n < 64
  · exact enc6_alpha_fin ⟨n, h⟩
  · have : enc6 n = 95 := by
      unfold enc6
      rw [if_neg (by omega), if_neg (by omega), if_neg (by omega), if_neg (by omega)]
    rw [this]; decide

theorem dec6_enc6 {n : Nat} (h : n < 64) : dec6 (enc6 n) = some n := dec6_enc6_fin ⟨n, h⟩

theorem alpha_not_nl {c : Nat} (h : isAlpha c = true) : isNL c = false := by
  unfold isAlpha dec6 at h
  unfold isNL
  simp
  constructor <;> (intro hc; subst hc; simp at h)

theorem encode_alpha (d : List Nat) : ∀ c ∈ b64Encode d, isAlpha c = true := by
  induction d using b64Encode.induct with
  | case1 a b c rest ih =>
    intro x hx
    simp [b64Encode] at hx
    rcases hx with h | h | h | h | h
    · subst h; exact enc6_alpha _
    · subst h; exact enc6_alpha _
    · subst h; exact enc6_alpha _
    · subst h; exact enc6_alpha _
    · exact ih x h
  | case2 a b =>
    intro x hx
    simp [b64Encode] at hx
    rcases hx with h | h | h <;> (subst h; exact enc6_alpha _)
  | case3 a =>
    intro x hx
    simp [b64Encode] at hx
    rcases hx with h | h <;> (subst h; exact enc6_alpha _)
  | case4 => intro x hx; simp [b64Encode] at hx

/-- a canonical segment is the encoding of what it decodes to -/
theorem canonical_eq {seg : List Nat} (h : canonical seg = true) : ∃ d, b64Decode seg = some d ∧ b64Encode d = seg := by
  unfold canonical at h
  split at h
  · simp at h
  · rename_i d hd; exact ⟨d, hd, by simpa using h⟩

theorem canonical_alpha {seg : List Nat} (h : canonical seg = true) : ∀ c ∈ seg, isAlpha c = true := by
  obtain ⟨d, _, he⟩ := canonical_eq h
  rw [← he]; exact encode_alpha d

theorem canonical_unique {a b : List Nat} (ha : canonical a = true) (hb : canonical b = true)
    (h : b64Decode a = b64Decode b) : a = b := by
  obtain ⟨da, hda, ea⟩ := canonical_eq ha
  obtain ⟨db, hdb, eb⟩ := canonical_eq hb
  rw [hda, hdb] at h
  cases h
  rw [← ea, ← eb]

theorem splitOn_ne_nil (sep : Nat) (l : List Nat) : splitOn sep l ≠ [] := by
  cases l with
  | nil => simp [splitOn]
  | cons c t =>
    unfold splitOn
    split
    · simp
    · split <;> simp

theorem join_split (sep : Nat) (l : List Nat) : joinWith sep (splitOn sep l) = l := by
  induction l with
  | nil => simp [splitOn, joinWith]
  | cons c t ih =>
    unfold splitOn
    have hne := splitOn_ne_nil sep t
    cases hs : splitOn sep t with
    | nil => exact absurd hs hne
    | cons h r =>
      rw [hs] at ih
      split
      · rename_i hc
        simp [joinWith, ih, hc]
      · cases r with
        | nil => simp [joinWith] at ih ⊢; exact ih
        | cons r1 r2 => simp [joinWith] at ih ⊢; exact ih

/-- a non-JSON input that passes the framing check is exactly three canonical segments -/
theorem compact_of_isJWS {input : List Nat} (h : isJWSSerialization input = true) (hj : jsonStart input = false) :
    ∃ s1 s2 s3, splitOn 46 input = [s1, s2, s3] ∧ canonical s1 = true ∧ canonical s2 = true ∧ canonical s3 = true := by
  unfold isJWSSerialization at h
  rw [hj] at h
  simp only [Bool.false_eq_true, if_false] at h
  split at h
  · simp at h
  · rename_i hl
    match hs : splitOn 46 input, hl with
    | [s1, s2, s3], _ =>
      rw [hs] at h
      simp [List.all] at h
      exact ⟨s1, s2, s3, rfl, h.1, h.2.1, h.2.2⟩
    | [], hl => simp at hl
    | [_], hl => simp at hl
    | [_, _], hl => simp at hl
    | _ :: _ :: _ :: _ :: _, hl => simp at hl

theorem compact_unique {a b : List Nat}
    (ha : isJWSSerialization a = true) (hja : jsonStart a = false)
    (hb : isJWSSerialization b = true) (hjb : jsonStart b = false)
    (h : decodedSegments a = decodedSegments b) : a = b := by
  obtain ⟨a1, a2, a3, sa, ca1, ca2, ca3⟩ := compact_of_isJWS ha hja
  obtain ⟨b1, b2, b3, sb, cb1, cb2, cb3⟩ := compact_of_isJWS hb hjb
  unfold decodedSegments at h
  rw [sa, sb] at h
  simp at h
  have e1 := canonical_unique ca1 cb1 h.1
  have e2 := canonical_unique ca2 cb2 h.2.1
  have e3 := canonical_unique ca3 cb3 h.2.2
  rw [← join_split 46 a, ← join_split 46 b, sa, sb, e1, e2, e3]

theorem stripNL_alpha {s : List Nat} (h : ∀ c ∈ s, isAlpha c = true) : stripNL s = s := by
  unfold stripNL
  apply List.filter_eq_self.mpr
  intro c hc
  simp [alpha_not_nl (h c hc)]

/-- the quanta decoder inverts the encoder on bytes -/
theorem decQ_encode (d : List Nat) (hb : ∀ x ∈ d, x < 256) : decQ (b64Encode d) = some d := by
  induction d using b64Encode.induct with
  | case1 a b c rest ih =>
    have ha : a < 256 := hb a (by simp)
    have hb' : b < 256 := hb b (by simp)
    have hc : c < 256 := hb c (by simp)
    have ih' := ih (fun x hx => hb x (by simp [hx]))
    simp only [b64Encode, decQ]
    rw [dec6_enc6 (by omega), dec6_enc6 (by omega), dec6_enc6 (by omega), dec6_enc6 (by omega), ih']
    simp only [Option.some.injEq, List.cons.injEq, and_true]
    refine ⟨?_, ?_, ?_⟩ <;> omega
  | case2 a b =>
    have ha : a < 256 := hb a (by simp)
    have hb' : b < 256 := hb b (by simp)
    simp only [b64Encode, decQ]
    rw [dec6_enc6 (by omega), dec6_enc6 (by omega), dec6_enc6 (by omega)]
    simp only [Option.some.injEq, List.cons.injEq, and_true]
    refine ⟨?_, ?_⟩ <;> omega
  | case3 a =>
    have ha : a < 256 := hb a (by simp)
    simp only [b64Encode, decQ]
    rw [dec6_enc6 (by omega), dec6_enc6 (by omega)]
    simp only [Option.some.injEq, List.cons.injEq, and_true]
    omega
  | case4 => simp [b64Encode, decQ]

theorem decode_encode (d : List Nat) (hb : ∀ x ∈ d, x < 256) : b64Decode (b64Encode d) = some d := by
  unfold b64Decode
  rw [stripNL_alpha (encode_alpha d)]
  exact decQ_encode d hb

theorem canonical_encode (d : List Nat) (hb : ∀ x ∈ d, x < 256) : canonical (b64Encode d) = true := by
  unfold canonical
  rw [decode_encode d hb]
  simp

theorem splitOn_no_sep {sep : Nat} {s : List Nat} (h : sep ∉ s) : splitOn sep s = [s] := by
  induction s with
  | nil => simp [splitOn]
  | cons c t ih =>
    have hc : c ≠ sep := fun e => h (by simp [e])
    have ht : sep ∉ t := fun e => h (by simp [e])
    unfold splitOn
    rw [if_neg hc, ih ht]

theorem splitOn_append {sep : Nat} {s : List Nat} (t : List Nat) (h : sep ∉ s) :
    splitOn sep (s ++ sep :: t) = s :: splitOn sep t := by
  induction s with
  | nil => simp [splitOn]
  | cons c r ih =>
    have hc : c ≠ sep := fun e => h (by simp [e])
    have ht : sep ∉ r := fun e => h (by simp [e])
    simp only [List.cons_append, splitOn, if_neg hc, ih ht]

theorem encode_no_dot (d : List Nat) : 46 ∉ b64Encode d := fun h => by
  have := encode_alpha d 46 h
  revert this; decide

/-- the compact serialization of ANY three byte strings passes the framing check -/
theorem compact_accepted (d1 d2 d3 : List Nat) (h1 : ∀ x ∈ d1, x < 256) (h2 : ∀ x ∈ d2, x < 256) (h3 : ∀ x ∈ d3, x < 256) :
    isJWSSerialization (b64Encode d1 ++ 46 :: (b64Encode d2 ++ 46 :: b64Encode d3)) = true := by
  unfold isJWSSerialization
  split
  · rfl
  · rw [splitOn_append _ (encode_no_dot d1), splitOn_append _ (encode_no_dot d2), splitOn_no_sep (encode_no_dot d3)]
    simp [List.all, canonical_encode _ h1, canonical_encode _ h2, canonical_encode _ h3]

theorem encode_len (d : List Nat) : (b64Encode d).length % 4 ≠ 1 := by
  induction d using b64Encode.induct with
  | case1 a b c rest ih => simp only [b64Encode, List.length_cons]; omega
  | case2 a b => simp [b64Encode]
  | case3 a => simp [b64Encode]
  | case4 => simp [b64Encode]

theorem canonical_len {seg : List Nat} (h : canonical seg = true) : seg.length % 4 ≠ 1 := by
  obtain ⟨d, _, he⟩ := canonical_eq h
  rw [← he]; exact encode_len d


theorem spaceRune_brace (rest : List Nat) : spaceRune (123 :: rest) = 0 := by
  unfold spaceRune
  split <;> simp_all <;> omega

theorem json_any (rest : List Nat) : isJWSSerialization (123 :: rest) = true := by
  have : jsonStart (123 :: rest) = true := by
    unfold jsonStart trimLeftSpace
    simp only [List.length_cons, trimLeftFuel, spaceRune_brace]
    simp
  unfold isJWSSerialization
  rw [this]; rfl

end Nuts.C06.Framing
