/-
  C02 — helper lemmas for ValidateDPoPProof (NutsModel/C02/DPoP.lean)
-/
import NutsModel.C02.DPoP
import NutsProofs.Lemmas.C02

namespace Nuts.C02

theorem dpopMatch_none (p : DPoPProof) (jkt method : String) (url : Option String)
    (h : dpopMatch p jkt method url = none) :
    p.jkt = jkt ∧ p.htm = method ∧ ∃ u, p.htu = some u ∧ url = some u := by
  unfold dpopMatch at h
  split at h
  · cases h
  · rename_i hj
    split at h
    · cases h
    · rename_i hm
      split at h
      · cases h
      · rename_i l hl
        split at h
        · cases h
        · rename_i r
          split at h
          · cases h
          · rename_i hlr
            refine ⟨Decidable.of_not_not hj, (Decidable.of_not_not hm).symm, l, hl, ?_⟩
            rw [Decidable.of_not_not hlr]

/-- the conjunction behind a `valid` answer -/
structure DPoPAccepted (ath : String → String) (ttl now : Nat) (st st' : Store Unit) (c : DPoPCheck) (p : DPoPProof) : Prop where
  parsed : c.proof = some p
  key : p.jkt = c.thumbprint
  method : p.htm = c.method
  url : ∃ u, p.htu = some u ∧ c.url = some u
  token : p.ath = .str (ath c.token)
  fresh : st.get now p.jti = none
  noFault : c.fault = false
  effect : st' = st.put now ttl p.jti ()

theorem validateDPoP_valid (ath : String → String) (ttl now : Nat) (st st' : Store Unit) (c : DPoPCheck)
    (h : validateDPoP ath ttl now st c = (st', .ok .valid)) : ∃ p, DPoPAccepted ath ttl now st st' c p := by
  unfold validateDPoP at h
  split at h
  · cases h
  · rename_i p hp
    split at h
    · cases h
    · rename_i hm
      obtain ⟨hk, hmeth, hurl⟩ := dpopMatch_none p _ _ _ hm
      split at h
      · cases h
      · cases h
      · rename_i a ha
        split at h
        · cases h
        · rename_i heq
          split at h
          · cases h
          · rename_i hf
            split at h
            · cases h
            · rename_i hg
              have h1 := (Prod.mk.inj h).1
              refine ⟨p, hp, hk, hmeth, hurl, ?_, hg, ?_, h1.symm⟩
              · rw [ha, Decidable.of_not_not heq]
              · cases hc : c.fault
                · rfl
                · exact absurd hc hf

/-- every answer other than `valid` (invalid with any reason, store error) leaves the jti store as it was -/
theorem validateDPoP_state (ath : String → String) (ttl now : Nat) (st : Store Unit) (c : DPoPCheck) :
    (validateDPoP ath ttl now st c).2 = .ok .valid ∨ (validateDPoP ath ttl now st c).1 = st := by
  unfold validateDPoP
  split
  · exact .inr rfl
  · split
    · exact .inr rfl
    · split
      · exact .inr rfl
      · exact .inr rfl
      · split
        · exact .inr rfl
        · split
          · exact .inr rfl
          · split
            · exact .inr rfl
            · exact .inl rfl

/-- a remembered jti stays remembered through any validation inside the window -/
theorem validateDPoP_live (ath : String → String) (ttl now : Nat) (httl : ttl ≠ 0) (st : Store Unit) (c : DPoPCheck)
    (n : String) (b : Nat) (hb : b ≤ now + ttl) (h : Live st n b) : Live (validateDPoP ath ttl now st c).1 n b := by
  unfold validateDPoP
  split
  · exact h
  · split
    · exact h
    · split
      · exact h
      · exact h
      · split
        · exact h
        · split
          · exact h
          · split
            · exact h
            · exact live_put st now ttl _ n b httl h hb

theorem runDPoP_live (ath : String → String) (ttl : Nat) (httl : ttl ≠ 0) (n : String) (b : Nat) :
    ∀ (hist : List (Nat × DPoPCheck)) (st : Store Unit), (∀ x ∈ hist, b ≤ x.1 + ttl) → Live st n b →
      Live (runDPoP ath ttl hist st) n b := by
  intro hist
  induction hist with
  | nil => intro st _ h; exact h
  | cons x rest ih =>
    intro st hall h
    obtain ⟨t, c⟩ := x
    unfold runDPoP
    exact ih _ (fun y hy => hall y (List.mem_cons_of_mem _ hy))
      (validateDPoP_live ath ttl t httl st c n b (hall (t, c) List.mem_cons_self) h)

/-- a proof whose jti is remembered is not answered `valid` -/
theorem validateDPoP_rejects_live (ath : String → String) (ttl now : Nat) (st : Store Unit) (c : DPoPCheck) (p : DPoPProof)
    (hp : c.proof = some p) (b : Nat) (hlive : Live st p.jti b) (hnow : now ≤ b) :
    (validateDPoP ath ttl now st c).2 ≠ .ok .valid := by
  intro h
  have heq : validateDPoP ath ttl now st c = ((validateDPoP ath ttl now st c).1, .ok .valid) := by rw [← h]
  obtain ⟨p', hacc⟩ := validateDPoP_valid ath ttl now st _ c heq
  have : p' = p := by
    have := hacc.parsed
    rw [hp] at this
    exact (Option.some.inj this).symm
  subst this
  have := hlive.get hnow
  rw [hacc.fresh] at this
  cases this

end Nuts.C02
