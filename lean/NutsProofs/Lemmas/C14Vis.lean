/-
  C14 — "an undelivered event stays visible as failed rather than vanishing", as a relation between ANY two states of a
  history (no calm suffix, restarts / crashes / faults allowed): a job that is listed by GetFailedEvents stays listed until a
  completion of exactly that (subscriber, transaction) is put on record.  Core Lean only.
-/
import NutsProofs.Lemmas.C14
namespace Nuts.C14

/-- the job of (s, r) is on the shelf with at least `thr` recorded failures (what GetFailedEvents lists for `thr = retriesFailedThreshold`) -/
def VisAt (thr : Nat) (σ : St) (s r : Nat) : Prop := ∃ j, σ.shelf s r = some j ∧ thr ≤ j.retries

/-- from σ to σ' the ledger only grew by `new`, and a visible failed job of (s, r) is still visible or its completion is in `new` -/
def VisRel (thr : Nat) (s r : Nat) (σ σ' : St) : Prop :=
  ∃ new, σ'.ledger = new ++ σ.ledger ∧ (VisAt thr σ s r → VisAt thr σ' s r ∨ completedIn new s r = true)

theorem completedIn_append (a b : List Entry) (s r : Nat) : completedIn (a ++ b) s r = (completedIn a s r || completedIn b s r) := by
  simp [completedIn, List.any_append]

theorem VisRel.refl (thr s r : Nat) (σ : St) : VisRel thr s r σ σ := ⟨[], rfl, fun h => .inl h⟩

theorem VisRel.trans {thr s r : Nat} {a b d : St} (h1 : VisRel thr s r a b) (h2 : VisRel thr s r b d) : VisRel thr s r a d := by
  obtain ⟨n1, e1, v1⟩ := h1
  obtain ⟨n2, e2, v2⟩ := h2
  refine ⟨n2 ++ n1, by rw [e2, e1, List.append_assoc], fun hv => ?_⟩
  rcases v1 hv with hb | hc
  · rcases v2 hb with hd | hc2
    · exact .inl hd
    · exact .inr (by rw [completedIn_append, hc2]; rfl)
  · exact .inr (by rw [completedIn_append, hc]; simp)

theorem VisRel.of_same {thr s r : Nat} {σ σ' : St} (e : SameDurable σ σ') : VisRel thr s r σ σ' :=
  ⟨[], by rw [e.ledger]; rfl, fun ⟨j, hj, ht⟩ => .inl ⟨j, by rw [e.shelf]; exact hj, ht⟩⟩

/-- one `notifyNow` (of any subscriber / transaction): the recorded failures of a job never fall below the listing threshold -/
theorem NowStep.vis {c : Cfg} {thr s r s0 r0 : Nat} {σ σ' : St} (hthr : thr ≤ c.maxRetries + 1) (st : NowStep c s0 r0 σ σ') :
    VisRel thr s r σ σ' := by
  cases st with
  | skip _ e => subst e; exact VisRel.refl _ _ _ _
  | call j o nj hj ho hdone hty hret e =>
    subst e
    refine ⟨[.call s0 r0 j.type j.retries o], rfl, fun ⟨j0, hj0, ht0⟩ => ?_⟩
    by_cases hsr : s = s0 ∧ r = r0
    · obtain ⟨rfl, rfl⟩ := hsr
      rw [hj] at hj0; cases hj0
      cases nj with
      | none =>
        have : o = .done := hdone.mp rfl
        subst this
        exact .inr (by simp [completedIn, Entry.completes])
      | some j' =>
        refine .inl ⟨j', by simp, ?_⟩
        rcases hret j' rfl with h | h <;> omega
    · exact .inl ⟨j0, by simp [hsr]; exact hj0, ht0⟩
  | callFin j nj hj hty hfix hret e =>
    subst e
    refine ⟨[.fin s0 r0, .call s0 r0 j.type j.retries .notDoneFin], rfl, fun ⟨j0, hj0, ht0⟩ => ?_⟩
    by_cases hsr : s = s0 ∧ r = r0
    · obtain ⟨rfl, rfl⟩ := hsr
      exact .inr (by simp [completedIn, Entry.completes])
    · exact .inl ⟨j0, by simp [hsr]; exact hj0, ht0⟩

theorem DStep.vis {c : Cfg} {thr s r : Nat} {σ σ' : St} (hthr : thr ≤ c.maxRetries + 1) (d : DStep c σ σ') : VisRel thr s r σ σ' := by
  induction d with
  | vol e => exact VisRel.of_same e
  | now s0 r0 st => exact st.vis hthr
  | trans _ _ ih1 ih2 => exact ih1.trans ih2

theorem saveEvent_keeps_job (c : Cfg) (σ : St) (ev : Nat × EvType) (s r : Nat) (j : Job) (h : σ.shelf s r = some j) :
    (saveEvent c σ ev).shelf s r = some j := by
  rw [(saveEvent_spec c σ ev).shelf s r, if_neg (by rw [h]; simp), h]

theorem saveEvent_vis (c : Cfg) (thr s r : Nat) (σ : St) (ev : Nat × EvType) : VisRel thr s r σ (saveEvent c σ ev) :=
  ⟨[], by rw [saveEvent_ledger]; rfl, fun ⟨j, hj, ht⟩ => .inl ⟨j, saveEvent_keeps_job c σ ev s r j hj, ht⟩⟩

/-- a state that differs only in fields other than shelf and ledger -/
theorem VisRel.of_eq {thr s r : Nat} {σ σ' : St} (hs : σ'.shelf = σ.shelf) (hl : σ'.ledger = σ.ledger) : VisRel thr s r σ σ' :=
  ⟨[], by rw [hl]; rfl, fun ⟨j, hj, ht⟩ => .inl ⟨j, by rw [hs]; exact hj, ht⟩⟩

theorem VisRel.of_keeps {thr s r : Nat} {σ σ' : St} (hs : ∀ j, σ.shelf s r = some j → σ'.shelf s r = some j) (hl : σ'.ledger = σ.ledger) :
    VisRel thr s r σ σ' :=
  ⟨[], by rw [hl]; rfl, fun ⟨j, hj, ht⟩ => .inl ⟨j, hs j hj, ht⟩⟩

theorem addTx_keeps_job (c : Cfg) (σ : St) (a : AddArgs) (s r : Nat) (j : Job) (hj : σ.shelf s r = some j) :
    (addTx c σ a).1.shelf s r = some j := by
  unfold addTx
  split; · exact hj
  split; · exact hj
  split; · exact hj
  split; · exact hj
  split; · exact hj
  split; · exact hj
  split; · exact hj
  split; · exact hj
  show (saveEvent c _ (a.ref, .tx)).shelf s r = some j
  apply saveEvent_keeps_job
  show (if a.withPayload = true then _ else _ : St).shelf s r = some j
  split
  · exact saveEvent_keeps_job _ _ _ _ _ _ hj
  · exact hj

theorem addTx_ledger (c : Cfg) (σ : St) (a : AddArgs) : (addTx c σ a).1.ledger = σ.ledger := by
  unfold addTx
  split; · rfl
  split; · rfl
  split; · rfl
  split; · rfl
  split; · rfl
  split; · rfl
  split; · rfl
  split; · rfl
  show (saveEvent c _ (a.ref, .tx)).ledger = σ.ledger
  rw [saveEvent_ledger]
  show (if a.withPayload = true then _ else _ : St).ledger = σ.ledger
  split
  · rw [saveEvent_ledger]
  · rfl

theorem addTx_vis (c : Cfg) (thr s r : Nat) (σ : St) (a : AddArgs) : VisRel thr s r σ (addTx c σ a).1 :=
  VisRel.of_keeps (fun j hj => addTx_keeps_job c σ a s r j hj) (addTx_ledger c σ a)

theorem writePayload_vis (c : Cfg) (thr s r : Nat) (σ : St) (ref : Nat) (cf : Bool) : VisRel thr s r σ (writePayload c σ ref cf).1 := by
  unfold writePayload
  split; · exact VisRel.refl _ _ _ _
  split; · exact VisRel.refl _ _ _ _
  split
  · split
    · exact VisRel.refl _ _ _ _
    · exact VisRel.of_eq rfl rfl
  · refine VisRel.of_keeps (fun j hj => ?_) ?_
    · show (saveEvent c _ (ref, .payload)).shelf s r = some j
      exact saveEvent_keeps_job _ _ _ _ _ _ hj
    · show (saveEvent c _ (ref, .payload)).ledger = σ.ledger
      rw [saveEvent_ledger]

theorem finishedExt_vis (thr s r : Nat) (σ : St) (s0 r0 : Nat) (f : Bool) : VisRel thr s r σ (finishedExt σ s0 r0 f) := by
  unfold finishedExt
  split; · exact VisRel.refl _ _ _ _
  split; · exact VisRel.refl _ _ _ _
  refine ⟨[.fin s0 r0], rfl, fun ⟨j0, hj0, ht0⟩ => ?_⟩
  by_cases hsr : s = s0 ∧ r = r0
  · obtain ⟨rfl, rfl⟩ := hsr
    exact .inr (by simp [completedIn, Entry.completes])
  · exact .inl ⟨j0, by simp [hsr]; exact hj0, ht0⟩

theorem step_vis (c : Cfg) {thr : Nat} (hthr : thr ≤ c.maxRetries + 1) (s r : Nat) (σ : St) (op : Op) : VisRel thr s r σ (step c σ op) := by
  cases op with
  | add a => exact addTx_vis c thr s r σ a
  | afterCommit order => exact (afterCommit_dstep c σ order).vis hthr
  | writePayload ref cf => exact writePayload_vis c thr s r σ ref cf
  | finishedExt s0 r0 f => exact finishedExt_vis thr s r σ s0 r0 f
  | fire s0 r0 => exact (fire_dstep c σ s0 r0).vis hthr
  | crash => exact VisRel.of_same (crashSt_same σ)
  | restart order => exact (restart_dstep c σ order).vis hthr

theorem run_vis (c : Cfg) {thr : Nat} (hthr : thr ≤ c.maxRetries + 1) (s r : Nat) (ops : List Op) (σ : St) : VisRel thr s r σ (run c σ ops) := by
  induction ops generalizing σ with
  | nil => exact VisRel.refl _ _ _ _
  | cons op rest ih => exact (step_vis c hthr s r σ op).trans (ih (step c σ op))

/-! ## Run leaves the jobs it decides not to replay alone (error text ends in ContextURLNotAllowedErr) -/

theorem NowStep.frame {c : Cfg} {s r s0 r0 : Nat} {σ σ' : St} (st : NowStep c s0 r0 σ σ') (h : ¬(s = s0 ∧ r = r0)) :
    σ'.shelf s r = σ.shelf s r := by
  cases st with
  | skip _ e => subst e; rfl
  | call j o nj _ _ _ _ _ e => subst e; simp [h]
  | callFin j nj _ _ _ _ e => subst e; simp [h]

theorem runCalls_frame (c : Cfg) (s0 s r : Nat) (l : List (Nat × Nat)) (σ : St) (acc : List (Nat × Nat))
    (h : ∀ p, p ∈ l → ¬(s = s0 ∧ r = p.1)) : (runCalls c s0 l σ acc).1.shelf s r = σ.shelf s r := by
  induction l generalizing σ acc with
  | nil => rfl
  | cons p rest ih =>
    obtain ⟨r1, ret⟩ := p
    unfold runCalls
    have hst := notifyNow_step c σ s0 r1
    have hf := hst.frame (s := s) (r := r) (h (r1, ret) List.mem_cons_self)
    generalize notifyNow c σ s0 r1 = q at hst hf
    obtain ⟨σ', res⟩ := q
    have ih' := fun acc => ih σ' acc (fun p hp => h p (List.mem_cons_of_mem _ hp))
    cases res <;> simp only
    · rw [ih']; exact hf
    · rw [ih']; exact hf
    · rw [ih']; exact hf
    · exact hf
    · rw [ih']; exact hf

theorem snapshot_mem_noctx {c : Cfg} {σ : St} {s : Nat} {p : Nat × Nat} (h : p ∈ runSnapshot c σ s) :
    ∃ j, σ.shelf s p.1 = some j ∧ j.err ≠ .ctx := by
  unfold runSnapshot at h
  obtain ⟨a, _, ha⟩ := List.mem_filterMap.mp h
  cases hj : σ.shelf s a with
  | none => simp [hj] at ha
  | some j =>
    simp only [hj] at ha
    split at ha
    · cases ha
    · next hne => injection ha with ha; subst ha; exact ⟨j, hj, hne⟩

theorem runSub_keeps_parked (c : Cfg) (σ : St) (s0 s r : Nat) (j : Job) (hj : σ.shelf s r = some j) (hctx : j.err = .ctx) :
    (runSub c σ s0).1.shelf s r = some j := by
  unfold runSub
  have hfr := runCalls_frame c s0 s r (runSnapshot c σ s0) σ [] (by
    intro p hp hsr
    obtain ⟨rfl, rfl⟩ := hsr
    obtain ⟨j', hj', hne⟩ := snapshot_mem_noctx hp
    rw [hj] at hj'; cases hj'; exact hne hctx)
  generalize runCalls c s0 (runSnapshot c σ s0) σ [] = q at hfr
  obtain ⟨σ1, failed, b⟩ := q
  cases b <;> simp only
  · rw [(spawnAll_same c s0 failed σ1).shelf, hfr]; exact hj
  · rw [hfr]; exact hj

theorem runAll_keeps_parked (c : Cfg) (order : List Nat) (σ : St) (s r : Nat) (j : Job) (hj : σ.shelf s r = some j) (hctx : j.err = .ctx) :
    (runAll c order σ).1.shelf s r = some j := by
  induction order generalizing σ with
  | nil => exact hj
  | cons s0 rest ih =>
    unfold runAll
    have h := runSub_keeps_parked c σ s0 s r j hj hctx
    generalize runSub c σ s0 = p at h
    obtain ⟨σ', b⟩ := p
    cases b <;> simp only
    · exact ih σ' h
    · exact h

theorem restart_keeps_parked (c : Cfg) (σ : St) (order : List Nat) (s r : Nat) (j : Job) (hj : σ.shelf s r = some j) (hctx : j.err = .ctx) :
    (restart c σ order).shelf s r = some j := by
  unfold restart
  have h := runAll_keeps_parked c order σ s r j hj hctx
  generalize runAll c order σ = p at h
  obtain ⟨σ', b⟩ := p
  cases b <;> simp only
  · exact h
  · exact h

end Nuts.C14
