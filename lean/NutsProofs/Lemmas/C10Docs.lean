/-
  C10 — lemmas for NutsModel/C10/DocShelves.lean: the content-addressed shelves txRefV2 / documentsV2 hold, after every
  sequence of Adds (also Adds whose first or second write transaction failed), the bytes of every document an event or a
  metadata record refers to; the 4-byte big-endian counter codec.
-/
import NutsModel.C10.DocShelves
import NutsProofs.Lemmas.C10
import NutsProofs.Lemmas.C10Shelves
import NutsProofs.Lemmas.C10Obs

namespace Nuts.C10
open Nuts

/-! ## statsV2 codec -/

theorem dec_enc_u32 (n : Nat) (h : n < 4294967296) : decU32 (some (encU32 n)) = .ok n := by
  simp only [encU32, decU32, Res.ok.injEq]
  omega

theorem u32_of_small (n : Nat) (h : n < 4294967296) : u32 (n : Int) = n := by
  unfold u32; omega

theorem u32_pred (n : Nat) (h1 : 1 ≤ n) (h : n < 4294967296) : u32 ((n : Int) - 1) = n - 1 := by
  unfold u32; omega

theorem u32_lt (z : Int) : u32 z < 4294967296 := by
  unfold u32; omega

/-! ## content addressing -/

theorem hash_inj {s t : String} (h : "H:" ++ s = "H:" ++ t) : s = t := by
  have := congrArg String.toList h
  simp only [String.toList_append] at this
  exact String.toList_inj.mp (List.append_cancel_left this)

/-- every value of the document shelf is stored under its own hash -/
def CA (docs : List (Hash × String)) : Prop := ∀ h str, alGet docs h = some str → h = "H:" ++ str

theorem ca_nil : CA [] := by intro h str hg; simp [alGet] at hg

theorem ca_put {docs : List (Hash × String)} (hc : CA docs) (s : String) : CA (alPut docs ("H:" ++ s) s) := by
  intro h str hg
  by_cases hh : h = "H:" ++ s
  · subst hh
    rw [alGet_alPut_self] at hg
    cases hg; rfl
  · rw [alGet_alPut_other _ _ _ _ hh] at hg
    exact hc h str hg

/-- a Put of content-addressed bytes never changes what an existing key answers -/
theorem ca_put_mono {docs : List (Hash × String)} (hc : CA docs) (s : String) {h str : String}
    (hg : alGet docs h = some str) : alGet (alPut docs ("H:" ++ s) s) h = some str := by
  by_cases hh : h = "H:" ++ s
  · have := hc h str hg
    rw [hh] at this
    have hs : s = str := hash_inj this
    subst hs; subst hh
    exact alGet_alPut_self _ _ _
  · rw [alGet_alPut_other _ _ _ _ hh]; exact hg

/-- the merged documents `applyEvent` writes are stored under the hash of their bytes -/
def MergedCA (l : List (Doc × Meta)) : Prop := ∀ q ∈ l, q.2.isConflicted = true → q.2.hash = "H:" ++ q.1.render

theorem writeMerged_ca : ∀ (l : List (Doc × Meta)) (docs : List (Hash × String)), CA docs → MergedCA l →
    CA (writeMerged docs l) := by
  intro l
  induction l with
  | nil => intro docs hc _; exact hc
  | cons q l ih =>
    intro docs hc hm
    unfold writeMerged
    simp only [List.foldl_cons]
    refine ih _ ?_ (fun x hx => hm x (List.mem_cons_of_mem _ hx))
    unfold writeMergedStep
    by_cases hq : q.2.isConflicted = true
    · simp only [hq, if_true]
      rw [hm q (List.mem_cons_self ..) hq]
      exact ca_put hc _
    · simp only [hq]; exact hc

theorem writeMerged_mono : ∀ (l : List (Doc × Meta)) (docs : List (Hash × String)), CA docs → MergedCA l →
    ∀ h str, alGet docs h = some str → alGet (writeMerged docs l) h = some str := by
  intro l
  induction l with
  | nil => intro docs _ _ h str hg; exact hg
  | cons q l ih =>
    intro docs hc hm h str hg
    unfold writeMerged
    simp only [List.foldl_cons]
    have hm' : MergedCA l := fun x hx => hm x (List.mem_cons_of_mem _ hx)
    unfold writeMergedStep
    by_cases hq : q.2.isConflicted = true
    · simp only [hq, if_true]
      rw [hm q (List.mem_cons_self ..) hq]
      exact ih _ (ca_put hc _) hm' h str (ca_put_mono hc _ hg)
    · simp only [hq]
      exact ih _ hc hm' h str hg

theorem writeMerged_get : ∀ (l : List (Doc × Meta)) (docs : List (Hash × String)), CA docs → MergedCA l →
    ∀ p ∈ l, p.2.isConflicted = true → alGet (writeMerged docs l) p.2.hash = some p.1.render := by
  intro l
  induction l with
  | nil => intro docs _ _ p hp; cases hp
  | cons q l ih =>
    intro docs hc hm p hp hpc
    have hm' : MergedCA l := fun x hx => hm x (List.mem_cons_of_mem _ hx)
    rcases List.mem_cons.mp hp with rfl | hp
    · unfold writeMerged
      simp only [List.foldl_cons]
      unfold writeMergedStep
      simp only [hpc, if_true]
      have hk := hm p (List.mem_cons_self ..) hpc
      rw [hk]
      exact writeMerged_mono l _ (ca_put hc _) hm' _ _ (alGet_alPut_self _ _ _)
    · unfold writeMerged
      simp only [List.foldl_cons]
      refine ih _ ?_ hm' p hp hpc
      unfold writeMergedStep
      by_cases hq : q.2.isConflicted = true
      · simp only [hq, if_true]
        rw [hm q (List.mem_cons_self ..) hq]
        exact ca_put hc _
      · simp only [hq]; exact hc

/-! ## what `applyEvent` produces: the published document under the published hash, or a merged document that is
     conflicted and hashed by its own bytes -/

theorem foldl_mergeStep_len (cfg : Cfg) (evs : List Event) :
    ∀ (l : List Nat) (d0 : Doc) (s0 : List Nat) (d : Doc) (src : List Nat),
      l.foldl (mergeStep cfg evs) (.ok (d0, s0)) = .ok (d, src) → src.length = s0.length + l.length := by
  intro l
  induction l with
  | nil => intro d0 s0 d src h; simp only [List.foldl_nil, Res.ok.injEq, Prod.mk.injEq] at h; rw [← h.2]; rfl
  | cons st l ih =>
    intro d0 s0 d src h
    simp only [List.foldl_cons] at h
    rw [mergeStep_ok] at h
    cases hd : docOfTx evs st with
    | none =>
      simp only [hd] at h
      rw [foldl_mergeStep_err] at h
      cases h
    | some old =>
      simp only [hd] at h
      have := ih _ _ _ _ h
      simp only [List.length_append, List.length_cons, List.length_nil] at this ⊢
      omega

theorem applyEvent_doc_hash (cfg : Cfg) (evs : List Event) (cur : Option Meta) (e : Event) (d : Doc) (m : Meta)
    (h : applyEvent cfg evs cur e = .ok (d, m)) :
    (d = e.doc ∧ m.hash = e.payloadHash) ∨ (m.hash = "H:" ++ d.render ∧ m.isConflicted = true) := by
  unfold applyEvent applyDocument at h
  simp only at h
  split at h
  · simp only [Res.ok.injEq, Prod.mk.injEq] at h
    left; exact ⟨h.1.symm, by rw [← h.2]⟩
  · rename_i c0
    split at h
    · simp only [Res.ok.injEq, Prod.mk.injEq] at h
      left; exact ⟨h.1.symm, by rw [← h.2]⟩
    · rename_i hne
      split at h
      · rename_i d' src hf
        simp only [Res.ok.injEq, Prod.mk.injEq] at h
        right
        have hl := foldl_mergeStep_len cfg evs _ _ _ _ _ hf
        obtain ⟨h1, h2⟩ := h
        subst h1; subst h2
        refine ⟨rfl, ?_⟩
        simp only [Meta.isConflicted, decide_eq_true_eq]
        simp only [List.length_cons, List.length_nil] at hl
        have : 0 < (List.filter (fun st => !(e.prevs.contains st)) c0.sourceTx).length := by
          apply List.length_pos_iff.mpr
          intro hnil
          apply hne
          rw [hnil]; rfl
        omega
      · cases h
      · cases h

theorem applyAll_doc_hash (cfg : Cfg) (evs : List Event) :
    ∀ (es : List Event) (cur : Option Meta) (c : List (Doc × Meta)), applyAll cfg evs cur es = .ok c →
      ∀ p ∈ c, (∃ e ∈ es, p.1 = e.doc ∧ p.2.hash = e.payloadHash) ∨
        (p.2.hash = "H:" ++ p.1.render ∧ p.2.isConflicted = true) := by
  intro es
  induction es with
  | nil => intro cur c h p hp; simp only [applyAll, Res.ok.injEq] at h; subst h; cases hp
  | cons e es ih =>
    intro cur c h p hp
    unfold applyAll at h
    split at h
    · rename_i d m he
      split at h
      · rename_i rest hr
        cases h
        rcases List.mem_cons.mp hp with rfl | hp
        · rcases applyEvent_doc_hash cfg evs cur e d m he with ⟨a, b⟩ | hx
          · exact Or.inl ⟨e, List.mem_cons_self .., a, b⟩
          · exact Or.inr hx
        · rcases ih (some m) rest hr p hp with ⟨x, hx, a, b⟩ | hx
          · exact Or.inl ⟨x, List.mem_cons_of_mem _ hx, a, b⟩
          · exact Or.inr hx
      · cases h
      · cases h
    · cases h
    · cases h

theorem mergedCA_of_applyAll (cfg : Cfg) (evs es : List Event) (cur : Option Meta) (c : List (Doc × Meta))
    (hconv : ∀ e ∈ es, e.payloadHash = "H:" ++ e.doc.render) (h : applyAll cfg evs cur es = .ok c) : MergedCA c := by
  intro q hq _
  rcases applyAll_doc_hash cfg evs es cur c h q hq with ⟨e, he, a, b⟩ | hx
  · rw [b, a]; exact hconv e he
  · exact hx.1

/-! ## `addDid`: the re-applied suffix -/

theorem insert_idx_le (n : Event) (l : List Event) : (insert n l).2 ≤ l.length := by
  obtain ⟨pre, suf, hl, hi, _⟩ := insert_split n l
  rw [hi, hl]; simp

theorem addDid_chain_split (cfg : Cfg) (st st' : DidState) (e : Event) (hi : Inv cfg st)
    (h : addDid cfg st e = .ok (some st')) :
    st'.chain.take (insert e st.events).2 = st.chain.take (insert e st.events).2 := by
  have hlen : st.chain.length = st.events.length := applyAll_length hi.chain
  have hidx := insert_idx_le e st.events
  unfold addDid at h
  split at h
  · cases h
  · simp only at h
    split at h
    · cases h
    · cases h
    · split at h
      · cases h
      · simp only [Res.ok.injEq, Option.some.injEq] at h
        rw [← h]
        simp only
        rw [List.take_append_of_le_length (by rw [List.length_take]; omega)]
        rw [List.take_take]
        simp

/-! ## the invariant of the two content-addressed shelves -/

/-- `U` = the accepted transactions that may arrive. A payload hash is the hash of the published bytes; a ref names one
    transaction (so one payload hash). -/
structure Accepted (U : List Event) : Prop where
  conv : ∀ e ∈ U, e.payloadHash = "H:" ++ e.doc.render
  ref : ∀ a ∈ U, ∀ b ∈ U, a.ref = b.ref → a.payloadHash = b.payloadHash

structure DInv (cfg : Cfg) (U : List Event) (b : Blob) (s : Store) : Prop where
  inv : StoreInv cfg s
  ca : CA b.docs
  sub : ∀ id, ∀ e ∈ (s.get id).events, e ∈ U
  ev : ∀ id, ∀ e ∈ (s.get id).events,
    alGet b.txRef e.ref = some e.payloadHash ∧ alGet b.docs e.payloadHash = some e.doc.render
  ch : ∀ id, ∀ p ∈ (s.get id).chain, alGet b.docs p.2.hash = some p.1.render
  /-- the index only knows refs of accepted transactions -/
  tx : ∀ r h, alGet b.txRef r = some h → ∃ e ∈ U, e.ref = r ∧ e.payloadHash = h

theorem get_empty (id : String) : (({} : Store).get id) = {} := rfl

theorem dinv_empty (cfg : Cfg) (U : List Event) : DInv cfg U {} {} :=
  ⟨storeInv_empty cfg, ca_nil, (fun _ e he => by cases he), (fun _ e he => by cases he), (fun _ p hp => by cases hp),
   (fun r h hg => by simp [alGet] at hg)⟩

/-- the first write transaction -/
theorem dinv_writeDocument (cfg : Cfg) (U : List Event) (hU : Accepted U) (b : Blob) (s : Store) (e : Event) (he : e ∈ U)
    (h : DInv cfg U b s) : DInv cfg U (writeDocument b e) s ∧
      alGet (writeDocument b e).txRef e.ref = some e.payloadHash ∧
      alGet (writeDocument b e).docs e.payloadHash = some e.doc.render := by
  have hconv := hU.conv e he
  have hdocs : ∀ k str, alGet b.docs k = some str → alGet (writeDocument b e).docs k = some str := by
    intro k str hg
    simp only [writeDocument]
    rw [hconv]
    exact ca_put_mono h.ca _ hg
  refine ⟨⟨h.inv, ?_, h.sub, ?_, ?_, ?_⟩, ?_, ?_⟩
  · simp only [writeDocument]; rw [hconv]; exact ca_put h.ca _
  · intro id x hx
    obtain ⟨a, c⟩ := h.ev id x hx
    refine ⟨?_, hdocs _ _ c⟩
    simp only [writeDocument]
    by_cases hr : x.ref = e.ref
    · rw [hr, nGet_put_self, hU.ref x (h.sub id x hx) e he hr]
    · rw [nGet_put_other _ _ _ _ hr]; exact a
  · intro id p hp
    exact hdocs _ _ (h.ch id p hp)
  · intro r k hg
    simp only [writeDocument] at hg
    by_cases hr : r = e.ref
    · subst hr
      rw [nGet_put_self] at hg
      cases hg
      exact ⟨e, he, rfl, rfl⟩
    · rw [nGet_put_other _ _ _ _ hr] at hg
      exact h.tx r k hg
  · simp only [writeDocument]; exact nGet_put_self _ _ _
  · simp only [writeDocument]; exact alGet_alPut_self _ _ _

theorem dAdd_dinv (cfg : Cfg) (U : List Event) (hU : Accepted U) (b b' : Blob) (s s' : Store) (e : Event) (mode : Nat)
    (he : e ∈ U) (h : DInv cfg U b s) (hadd : dAdd cfg b s e mode = .ok (b', s')) : DInv cfg U b' s' := by
  unfold dAdd at hadd
  by_cases h1 : mode = 1
  · simp only [h1, if_true, Res.ok.injEq, Prod.mk.injEq] at hadd
    rw [← hadd.1, ← hadd.2]; exact h
  · simp only [h1, if_false] at hadd
    obtain ⟨hw, hwt, hwd⟩ := dinv_writeDocument cfg U hU b s e he h
    by_cases h2 : mode = 2
    · simp only [h2, if_true, Res.ok.injEq, Prod.mk.injEq] at hadd
      rw [← hadd.1, ← hadd.2]; exact hw
    · simp only [h2, if_false] at hadd
      cases hA : add cfg s e with
      | err x => simp only [hA] at hadd; cases hadd
      | panic x => simp only [hA] at hadd; cases hadd
      | ok s1 =>
        simp only [hA] at hadd
        have hinv' : StoreInv cfg s1 := add_storeInv cfg s s1 e h.inv hA
        obtain ⟨hother, hcase⟩ := add_get cfg s s1 e hA
        rcases hcase with ⟨hn, hs⟩ | hsome
        · simp only [hn, Res.ok.injEq, Prod.mk.injEq] at hadd
          rw [← hadd.1, ← hadd.2, hs]; exact hw
        · simp only [hsome, Res.ok.injEq, Prod.mk.injEq] at hadd
          obtain ⟨hb', hs'⟩ := hadd
          subst hs'
          have hIold : Inv cfg (s.get e.doc.id) := get_inv cfg s h.inv _
          obtain ⟨hInew, hperm⟩ := addDid_inv cfg _ e hIold _ hsome
          -- the re-applied suffix: merged documents are stored under the hash of their bytes
          have hsubNew : ∀ x ∈ (s1.get e.doc.id).events, x ∈ U := by
            intro x hx
            rcases List.mem_cons.mp (hperm.mem_iff.mp hx) with rfl | hx
            · exact he
            · exact h.sub _ x hx
          have hmcAll : MergedCA (s1.get e.doc.id).chain :=
            mergedCA_of_applyAll cfg _ _ none _ (fun x hx => hU.conv x (hsubNew x hx)) hInew.chain
          have hmc : MergedCA (appliedSuffix (s.get e.doc.id) (s1.get e.doc.id) e) := by
            intro q hq
            exact hmcAll q (List.mem_of_mem_drop hq)
          have hmono := writeMerged_mono _ _ hw.ca hmc
          rw [← hb']
          refine ⟨hinv', ?_, ?_, ?_, ?_, hw.tx⟩
          · exact writeMerged_ca _ _ hw.ca hmc
          · intro id x hx
            by_cases hid : id = e.doc.id
            · subst hid; exact hsubNew x hx
            · rw [hother id hid] at hx; exact h.sub id x hx
          · intro id x hx
            by_cases hid : id = e.doc.id
            · subst hid
              rcases List.mem_cons.mp (hperm.mem_iff.mp hx) with rfl | hx
              · exact ⟨hwt, hmono _ _ hwd⟩
              · obtain ⟨a, c⟩ := hw.ev _ x hx
                exact ⟨a, hmono _ _ c⟩
            · rw [hother id hid] at hx
              obtain ⟨a, c⟩ := hw.ev id x hx
              exact ⟨a, hmono _ _ c⟩
          · intro id p hp
            by_cases hid : id = e.doc.id
            · subst hid
              rcases applyAll_doc_hash cfg _ _ none _ hInew.chain p hp with ⟨x, hx, a, c⟩ | ⟨_, hconf⟩
              · -- the published document of a listed event
                rcases List.mem_cons.mp (hperm.mem_iff.mp hx) with rfl | hx
                · rw [c, a]; exact hmono _ _ hwd
                · rw [c, a]; exact hmono _ _ (hw.ev _ x hx).2
              · -- a merged document: kept from before the insertion point, or written by this transaction
                have hsplit := List.take_append_drop (insert e (s.get e.doc.id).events).2 (s1.get e.doc.id).chain
                rw [← hsplit] at hp
                rcases List.mem_append.mp hp with hp | hp
                · rw [addDid_chain_split cfg _ _ e hIold hsome] at hp
                  exact hmono _ _ (hw.ch _ p (List.mem_of_mem_take hp))
                · exact writeMerged_get _ _ hw.ca hmc p hp hconf
            · rw [hother id hid] at hp
              exact hmono _ _ (hw.ch id p hp)

theorem dAddAll_dinv (cfg : Cfg) (U : List Event) (hU : Accepted U) :
    ∀ (l : List (Event × Nat)) (bs bs' : Blob × Store), (∀ p ∈ l, p.1 ∈ U) → DInv cfg U bs.1 bs.2 →
      dAddAll cfg bs l = .ok bs' → DInv cfg U bs'.1 bs'.2 := by
  intro l
  induction l with
  | nil => intro bs bs' _ h hr; simp only [dAddAll, Res.ok.injEq] at hr; subst hr; exact h
  | cons p l ih =>
    intro bs bs' hl h hr
    obtain ⟨e, mode⟩ := p
    unfold dAddAll at hr
    cases hA : dAdd cfg bs.1 bs.2 e mode with
    | err x => simp only [hA] at hr; cases hr
    | panic x => simp only [hA] at hr; cases hr
    | ok bs1 =>
      simp only [hA] at hr
      exact ih bs1 bs' (fun q hq => hl q (List.mem_cons_of_mem _ hq))
        (dAdd_dinv cfg U hU _ _ _ _ e mode (hl (e, mode) (List.mem_cons_self ..)) h (by rw [hA])) hr

end Nuts.C10

namespace Nuts.C10
open Nuts

/-! ## the store component of `dAdd` is `add` on the Adds whose two transactions ran -/

/-- the events of a sequence whose Add ran both write transactions -/
def applied (l : List (Event × Nat)) : List Event :=
  (l.filter (fun p => !(p.2 == 1 || p.2 == 2))).map (·.1)

theorem dAdd_store (cfg : Cfg) (b b' : Blob) (s s' : Store) (e : Event) (mode : Nat)
    (h : dAdd cfg b s e mode = .ok (b', s')) :
    ((mode = 1 ∨ mode = 2) ∧ s' = s) ∨ (mode ≠ 1 ∧ mode ≠ 2 ∧ add cfg s e = .ok s') := by
  unfold dAdd at h
  by_cases h1 : mode = 1
  · simp only [h1, if_true, Res.ok.injEq, Prod.mk.injEq] at h
    exact Or.inl ⟨Or.inl h1, h.2.symm⟩
  · simp only [h1, if_false] at h
    by_cases h2 : mode = 2
    · simp only [h2, if_true, Res.ok.injEq, Prod.mk.injEq] at h
      exact Or.inl ⟨Or.inr h2, h.2.symm⟩
    · simp only [h2, if_false] at h
      right
      refine ⟨h1, h2, ?_⟩
      cases hA : add cfg s e with
      | err x => simp only [hA] at h; cases h
      | panic x => simp only [hA] at h; cases h
      | ok s1 =>
        simp only [hA] at h
        split at h <;> (simp only [Res.ok.injEq, Prod.mk.injEq] at h; rw [h.2])

theorem dAddAll_store (cfg : Cfg) :
    ∀ (l : List (Event × Nat)) (bs bs' : Blob × Store), dAddAll cfg bs l = .ok bs' →
      addAll cfg bs.2 (applied l) = .ok bs'.2 := by
  intro l
  induction l with
  | nil => intro bs bs' h; simp only [dAddAll, Res.ok.injEq] at h; subst h; rfl
  | cons p l ih =>
    intro bs bs' h
    obtain ⟨e, mode⟩ := p
    unfold dAddAll at h
    cases hA : dAdd cfg bs.1 bs.2 e mode with
    | err x => simp only [hA] at h; cases h
    | panic x => simp only [hA] at h; cases h
    | ok bs1 =>
      simp only [hA] at h
      have hrec := ih bs1 bs' h
      rcases dAdd_store cfg _ _ _ _ e mode (show dAdd cfg bs.1 bs.2 e mode = .ok (bs1.1, bs1.2) by rw [hA]) with ⟨hm, hs⟩ | ⟨h1, h2, ha⟩
      · have hf : (!(mode == 1 || mode == 2)) = false := by rcases hm with rfl | rfl <;> rfl
        simp only [applied, List.filter_cons, hf, Bool.false_eq_true, if_false]
        rw [hs] at hrec
        exact hrec
      · have hf : (!(mode == 1 || mode == 2)) = true := by simp [h1, h2]
        simp only [applied, List.filter_cons, hf, if_true, List.map_cons, addAll, ha]
        exact hrec

end Nuts.C10

namespace Nuts.C10
open Nuts

/-! ## the literal statistics shelf tracks the counters -/

theorem addDid_none_contains (cfg : Cfg) (st : DidState) (e : Event) (h : addDid cfg st e = .ok none) :
    contains st.events e = true := by
  unfold addDid at h
  by_cases hc : contains st.events e = true
  · exact hc
  · simp only [hc, Bool.false_eq_true, if_false] at h
    split at h
    · cases h
    · cases h
    · split at h
      · cases h
      · cases h

theorem addDid_some_not_contains (cfg : Cfg) (st st' : DidState) (e : Event) (h : addDid cfg st e = .ok (some st')) :
    contains st.events e = false := by
  unfold addDid at h
  by_cases hc : contains st.events e = true
  · simp only [hc, if_true] at h; cases h
  · simpa using hc

theorem add_counters (cfg : Cfg) (s s' : Store) (e : Event) (st' : DidState) (h : add cfg s e = .ok s')
    (hd : addDid cfg (s.get e.doc.id) e = .ok (some st')) :
    s'.conflictedCount =
      (if st'.conflicted then (if (s.get e.doc.id).conflicted then s.conflictedCount else s.conflictedCount + 1)
       else (if (s.get e.doc.id).conflicted then s.conflictedCount - 1 else s.conflictedCount)) ∧
    s'.documentCount =
      (if lastVersionOf st' = 0 then s.documentCount + 1 else s.documentCount) := by
  unfold add at h
  simp only [hd] at h
  cases h
  exact ⟨rfl, rfl⟩


theorem statsStep_refines (st : Stats) (c d : Nat) (was now : Bool) (lv : Nat)
    (hc : decU32 st.cc = .ok c) (hd : decU32 st.dc = .ok d) (hcb : c + 1 < 4294967296) (hdb : d + 1 < 4294967296)
    (hpos : was = true → now = false → 1 ≤ c) :
    ∃ st', statsStep st was now lv = .ok st' ∧
      decU32 st'.cc = .ok (if now then (if was then c else c + 1) else (if was then c - 1 else c)) ∧
      decU32 st'.dc = .ok (if lv = 0 then d + 1 else d) := by
  have e1 : u32 ((c : Int) + 1) = c + 1 := by unfold u32; omega
  have e3 : u32 ((d : Int) + 1) = d + 1 := by unfold u32; omega
  generalize hc' : (if now then (if was then c else u32 (c + 1)) else (if was then u32 ((c : Int) - 1) else c)) = c'
  have hc'v : c' = (if now then (if was then c else c + 1) else (if was then c - 1 else c)) := by
    rw [← hc']
    cases was <;> cases now <;> simp only [if_true, if_false, Bool.false_eq_true, e1]
    exact u32_pred c (hpos rfl rfl) (by omega)
  have hc'lt : c' < 4294967296 := by
    rw [hc'v]; cases was <;> cases now <;> simp only [if_true, if_false, Bool.false_eq_true] <;> omega
  unfold statsStep
  simp only [hc, hc']
  by_cases hlv : lv = 0
  · simp only [hlv, if_true, hd, e3]
    exact ⟨_, rfl, by rw [← hc'v]; exact dec_enc_u32 _ hc'lt, dec_enc_u32 _ (by omega)⟩
  · simp only [hlv, if_false]
    exact ⟨_, rfl, by rw [← hc'v]; exact dec_enc_u32 _ hc'lt, hd⟩

/-- the literal statistics shelf decodes to the counters of the chain-level store; `n` bounds the number of Adds so far -/
structure StatsInv (cfg : Cfg) (s : Store) (st : Stats) (n : Nat) : Prop where
  inv : StoreInv cfg s
  cc : decU32 st.cc = .ok s.conflictedCount
  dc : decU32 st.dc = .ok s.documentCount
  bound : s.documentCount ≤ n

theorem conflicted_le_documents (cfg : Cfg) (s : Store) (h : StoreInv cfg s) : s.conflictedCount ≤ s.documentCount := by
  rw [h.confl, h.docs]; exact List.length_filter_le _ _

theorem conflicted_pos (cfg : Cfg) (s : Store) (h : StoreInv cfg s) (id : String) (hc : (s.get id).conflicted = true) :
    1 ≤ s.conflictedCount := by
  rw [h.confl]
  unfold Store.get at hc
  cases hg : alGet s.dids id with
  | none => rw [hg] at hc; simp at hc
  | some x =>
    rw [hg] at hc
    have hmem := alGet_some_mem _ _ _ hg
    exact List.length_pos_of_mem (List.mem_filter.mpr ⟨hmem, by simpa using hc⟩)

theorem dAddS_step (cfg : Cfg) (b b' : Blob) (s s' : Store) (st : Stats) (e : Event) (mode n : Nat)
    (hn : n + 2 < 4294967296) (h : StatsInv cfg s st n) (hadd : dAdd cfg b s e mode = .ok (b', s')) :
    ∃ st', dAddS cfg b s st e mode = .ok (b', s', st') ∧ StatsInv cfg s' st' (n + 1) := by
  unfold dAddS
  simp only [hadd]
  by_cases hskip : mode = 1 ∨ mode = 2 ∨ contains (s.get e.doc.id).events e = true
  · simp only [hskip, if_true]
    refine ⟨st, rfl, ?_⟩
    have hs : s' = s := by
      rcases dAdd_store cfg _ _ _ _ e mode hadd with ⟨_, hs⟩ | ⟨h1, h2, ha⟩
      · exact hs
      · rcases hskip with hm | hm | hc
        · exact absurd hm h1
        · exact absurd hm h2
        · obtain ⟨_, hcase⟩ := add_get cfg s s' e ha
          rcases hcase with ⟨_, hs⟩ | hsome
          · exact hs
          · rw [addDid_some_not_contains cfg _ _ e hsome] at hc; cases hc
    rw [hs]
    exact ⟨h.inv, h.cc, h.dc, Nat.le_succ_of_le h.bound⟩
  · simp only [hskip, if_false]
    have h1 : mode ≠ 1 := fun x => hskip (Or.inl x)
    have h2 : mode ≠ 2 := fun x => hskip (Or.inr (Or.inl x))
    have hc : contains (s.get e.doc.id).events e = false := by
      cases hx : contains (s.get e.doc.id).events e with
      | false => rfl
      | true => exact absurd (Or.inr (Or.inr hx)) hskip
    have ha : add cfg s e = .ok s' := by
      rcases dAdd_store cfg _ _ _ _ e mode hadd with ⟨hm, _⟩ | ⟨_, _, ha⟩
      · rcases hm with hm | hm
        · exact absurd hm h1
        · exact absurd hm h2
      · exact ha
    obtain ⟨_, hcase⟩ := add_get cfg s s' e ha
    have hsome : addDid cfg (s.get e.doc.id) e = .ok (some (s'.get e.doc.id)) := by
      rcases hcase with ⟨hnone, _⟩ | hsome
      · rw [addDid_none_contains cfg _ e hnone] at hc; cases hc
      · exact hsome
    obtain ⟨hcc, hdc⟩ := add_counters cfg s s' e _ ha hsome
    have hle := conflicted_le_documents cfg s h.inv
    have hb := h.bound
    obtain ⟨st', hst, hcc', hdc'⟩ := statsStep_refines st s.conflictedCount s.documentCount
      (s.get e.doc.id).conflicted (s'.get e.doc.id).conflicted
      (lastVersionOf (s'.get e.doc.id))
      h.cc h.dc (by omega) (by omega) (fun hw _ => conflicted_pos cfg s h.inv _ hw)
    refine ⟨st', by rw [hst], add_storeInv cfg s s' e h.inv ha, ?_, ?_, ?_⟩
    · rw [hcc', hcc]
    · rw [hdc', hdc]
    · have hite : ∀ (P : Prop) [Decidable P], (if P then s.documentCount + 1 else s.documentCount) ≤ s.documentCount + 1 := by
        intro P _; split <;> omega
      rw [hdc]; exact Nat.le_trans (hite _) (by omega)

theorem dAddSAll_total (cfg : Cfg) :
    ∀ (l : List (Event × Nat)) (b : Blob) (s : Store) (st : Stats) (n : Nat) (bs' : Blob × Store),
      n + l.length + 1 < 4294967296 → StatsInv cfg s st n → dAddAll cfg (b, s) l = .ok bs' →
      ∃ st', dAddSAll cfg (b, s, st) l = .ok (bs'.1, bs'.2, st') ∧ StatsInv cfg bs'.2 st' (n + l.length) := by
  intro l
  induction l with
  | nil =>
    intro b s st n bs' _ h hr
    simp only [dAddAll, Res.ok.injEq] at hr
    subst hr
    exact ⟨st, rfl, h⟩
  | cons p l ih =>
    intro b s st n bs' hn h hr
    obtain ⟨e, mode⟩ := p
    unfold dAddAll at hr
    cases hA : dAdd cfg b s e mode with
    | err x => simp only [hA] at hr; cases hr
    | panic x => simp only [hA] at hr; cases hr
    | ok bs1 =>
      simp only [hA] at hr
      simp only [List.length_cons] at hn
      obtain ⟨st1, hs1, hi1⟩ := dAddS_step cfg b bs1.1 s bs1.2 st e mode n (by omega) h (by rw [hA])
      obtain ⟨st', hs', hi'⟩ := ih bs1.1 bs1.2 st1 (n + 1) bs' (by omega) hi1 hr
      refine ⟨st', ?_, ?_⟩
      · unfold dAddSAll
        simp only [hs1]
        exact hs'
      · simp only [List.length_cons]
        rw [show n + (l.length + 1) = n + 1 + l.length by omega]
        exact hi'

end Nuts.C10

namespace Nuts.C10
open Nuts

/-! ## HistorySinceVersion reads the published bytes -/

/-- what `HistorySinceVersion` returns when every document read succeeds: the published bytes of the listed events -/
def rawList (created : Nat) : Nat → List Event → List (String × Nat × Nat × Nat)
  | _, [] => []
  | v, e :: es => (e.doc.render, created, e.sigTime, v) :: rawList created (v + 1) es

theorem historyRawFrom_ok (b : Blob) (created : Nat) :
    ∀ (es : List Event) (v : Nat), (∀ e ∈ es, alGet b.docs e.payloadHash = some e.doc.render) →
      historyRawFrom b created v es = .ok (rawList created v es) := by
  intro es
  induction es with
  | nil => intro v _; rfl
  | cons e es ih =>
    intro v h
    unfold historyRawFrom
    simp only [h e (List.mem_cons_self ..), ih (v + 1) (fun x hx => h x (List.mem_cons_of_mem _ hx))]
    rfl

end Nuts.C10
