/-
  C10 — lemmas for NutsModel/C10/DocShelves.lean: the content-addressed shelves txRefV2 / documentsV2 hold, after every
  sequence of Adds (also Adds whose first or second write transaction failed), the bytes of every document an event or a
  metadata record refers to; the 4-byte big-endian counter codec.
-/
import NutsModel.C10.DocShelves
import NutsProofs.Lemmas.C10
import NutsProofs.Lemmas.C10Shelves
import NutsProofs.Lemmas.C10Obs

namespace Nuts.C10
open Nuts

/-! ## statsV2 codec -/

theorem dec_enc_u32 (n : Nat) (h : n < 4294967296) : decU32 (some (encU32 n)) = .ok n := by
  simp only [encU32, decU32, Res.ok.injEq]
  omega

theorem u32_of_small (n : Nat) (h : n < 4294967296) : u32 (n : Int) = n := by
  unfold u32; omega

theorem u32_pred (n : Nat) (h1 : 1 ≤ n) (h : n < 4294967296) : u32 ((n : Int) - 1) = n - 1 := by
  unfold u32; omega

theorem u32_lt (z : Int) : u32 z < 4294967296 := by
  unfold u32; omega

/-! ## content addressing -/

theorem hash_inj {s t : String} (h : "H:" ++ s = "H:" ++ t) : s = t := by
  have := congrArg String.toList h
  simp only [String.toList_append] at this
  exact String.toList_inj.mp (List.append_cancel_left this)

/-- every value of the document shelf is stored under its own hash -/
def CA (docs : List (Hash × String)) : Prop := ∀ h str, alGet docs h = some str → h = "H:" ++ str

theorem ca_nil : CA [] := by intro h str hg; simp [alGet] at hg

theorem ca_put {docs : List (Hash × String)} (hc : CA docs) (s : String) : CA (alPut docs ("H:" ++ s) s) := by
  intro h str hg
  by_cases hh : h = "H:" ++ s
  · subst hh
    rw [alGet_alPut_self] at hg
    cases hg; rfl
  · rw [alGet_alPut_other _ _ _ _ hh] at hg
    exact hc h str hg

/-- a Put of content-addressed bytes never changes what an existing key answers -/
theorem ca_put_mono {docs : List (Hash × String)} (hc : CA docs) (s : String) {h str : String}
    (hg : alGet docs h = some str) : alGet (alPut docs ("H:" ++ s) s) h = some str := by
  by_cases hh : h = "H:" ++ s
  · have := hc h str hg
    rw [hh] at this
    have hs : s = str := hash_inj this
    subst hs; subst hh
    exact alGet_alPut_self _ _ _
  · rw [alGet_alPut_other _ _ _ _ hh]; exact hg

/-- the merged documents `applyEvent` writes are stored under the hash of their bytes -/
def MergedCA (l : List (Doc × Meta)) : Prop := ∀ q ∈ l, q.2.isConflicted = true → q.2.hash = "H:" ++ q.1.render

theorem writeMerged_ca : ∀ (l : List (Doc × Meta)) (docs : List (Hash × String)), CA docs → MergedCA l →
    CA (writeMerged docs l) := by
  intro l
  induction l with
  | nil => intro docs hc _; exact hc
  | cons q l ih =>
    intro docs hc hm
    unfold writeMerged
    simp only [List.foldl_cons]
    refine ih _ ?_ (fun x hx => hm x (List.mem_cons_of_mem _ hx))
    unfold writeMergedStep
    by_cases hq : q.2.isConflicted = true
    · simp only [hq, if_true]
      rw [hm q (List.mem_cons_self ..) hq]
      exact ca_put hc _
    · simp only [hq]; exact hc

theorem writeMerged_mono : ∀ (l : List (Doc × Meta)) (docs : List (Hash × String)), CA docs → MergedCA l →
    ∀ h str, alGet docs h = some str → alGet (writeMerged docs l) h = some str := by
  intro l
  induction l with
  | nil => intro docs _ _ h str hg; exact hg
  | cons q l ih =>
    intro docs hc hm h str hg
    unfold writeMerged
    simp only [List.foldl_cons]
    have hm' : MergedCA l := fun x hx => hm x (List.mem_cons_of_mem _ hx)
    unfold writeMergedStep
    by_cases hq : q.2.isConflicted = true
    · simp only [hq, if_true]
      rw [hm q (List.mem_cons_self ..) hq]
      exact ih _ (ca_put hc _) hm' h str (ca_put_mono hc _ hg)
    · simp only [hq]
      exact ih _ hc hm' h str hg

theorem writeMerged_get : ∀ (l : List (Doc × Meta)) (docs : List (Hash × String)), CA docs → MergedCA l →
    ∀ p ∈ l, p.2.isConflicted = true → alGet (writeMerged docs l) p.2.hash = some p.1.render := by
  intro l
  induction l with
  | nil => intro docs _ _ p hp; cases hp
  | cons q l ih =>
    intro docs hc hm p hp hpc
    have hm' : MergedCA l := fun x hx => hm x (List.mem_cons_of_mem _ hx)
    rcases List.mem_cons.mp hp with rfl | hp
    · unfold writeMerged
      simp only [List.foldl_cons]
      unfold writeMergedStep
      simp only [hpc, if_true]
      have hk := hm p (List.mem_cons_self ..) hpc
      rw [hk]
      exact writeMerged_mono l _ (ca_put hc _) hm' _ _ (alGet_alPut_self _ _ _)
    · unfold writeMerged
      simp only [List.foldl_cons]
      refine ih _ ?_ hm' p hp hpc
      unfold writeMergedStep
      by_cases hq : q.2.isConflicted = true
      · simp only [hq, if_true]
        rw [hm q (List.mem_cons_self ..) hq]
        exact ca_put hc _
      · simp only [hq]; exact hc

/-! ## what `applyEvent` produces: the published document under the published hash, or a merged document that is
     conflicted and hashed by its own bytes -/

theorem foldl_mergeStep_len (cfg : Cfg) (evs : List Event) :
    ∀ (l : List Nat) (d0 : Doc) (s0 : List Nat) (d : Doc) (src : List Nat),
      l.foldl (mergeStep cfg evs) (.ok (d0, s0)) = .ok (d, src) → src.length = s0.length + l.length := by
  intro l
  induction l with
  | nil => intro d0 s0 d src h; simp only [List.foldl_nil, Res.ok.injEq, Prod.mk.injEq] at h; rw [← h.2]; rfl
  | cons st l ih =>
    intro d0 s0 d src h
    simp only [List.foldl_cons] at h
    rw [mergeStep_ok] at h
    cases hd : docOfTx evs st with
    | none =>
      simp only [hd] at h
      rw [foldl_mergeStep_err] at h
      cases h
    | some old =>
      simp only [hd] at h
      have := ih _ _ _ _ h
      simp only [List.length_append, List.length_cons, List.length_nil] at this ⊢
      omega

theorem applyEvent_doc_hash (cfg : Cfg) (evs : List Event) (cur : Option Meta) (e : Event) (d : Doc) (m : Meta)
    (h : applyEvent cfg evs cur e = .ok (d, m)) :
    (d = e.doc ∧ m.hash = e.payloadHash) ∨ (m.hash = "H:" ++ d.render ∧ m.isConflicted = true) := by
  unfold applyEvent applyDocument at h
  simp only at h
  split at h
  · simp only [Res.ok.injEq, Prod.mk.injEq] at h
    left; exact ⟨h.1.symm, by rw [← h.2]⟩
  · rename_i c0
    split at h
    · simp only [Res.ok.injEq, Prod.mk.injEq] at h
      left; exact ⟨h.1.symm, by rw [← h.2]⟩
    · rename_i hne
      split at h
      · rename_i d' src hf
        simp only [Res.ok.injEq, Prod.mk.injEq] at h
        right
        have hl := foldl_mergeStep_len cfg evs _ _ _ _ _ hf
        obtain ⟨h1, h2⟩ := h
        subst h1; subst h2
        refine ⟨rfl, ?_⟩
        simp only [Meta.isConflicted, decide_eq_true_eq]
        simp only [List.length_cons, List.length_nil] at hl
        have : 0 < (List.filter (fun st => !(e.prevs.contains st)) c0.sourceTx).length := by
          apply List.length_pos_iff.mpr
          intro hnil
          apply hne
          rw [hnil]; rfl
        omega
      · cases h
      · cases h

theorem applyAll_doc_hash (cfg : Cfg) (evs : List Event) :
    ∀ (es : List Event) (cur : Option Meta) (c : List (Doc × Meta)), applyAll cfg evs cur es = .ok c →
      ∀ p ∈ c, (∃ e ∈ es, p.1 = e.doc ∧ p.2.hash = e.payloadHash) ∨
        (p.2.hash = "H:" ++ p.1.render ∧ p.2.isConflicted = true) := by
  intro es
  induction es with
  | nil => intro cur c h p hp; simp only [applyAll, Res.ok.injEq] at h; subst h; cases hp
  | cons e es ih =>
    intro cur c h p hp
    unfold applyAll at h
    split at h
    · rename_i d m he
      split at h
      · rename_i rest hr
        cases h
        rcases List.mem_cons.mp hp with rfl | hp
        · rcases applyEvent_doc_hash cfg evs cur e d m he with ⟨a, b⟩ | hx
          · exact Or.inl ⟨e, List.mem_cons_self .., a, b⟩
          · exact Or.inr hx
        · rcases ih (some m) rest hr p hp with ⟨x, hx, a, b⟩ | hx
          · exact Or.inl ⟨x, List.mem_cons_of_mem _ hx, a, b⟩
          · exact Or.inr hx
      · cases h
      · cases h
    · cases h
    · cases h

theorem mergedCA_of_applyAll (cfg : Cfg) (evs es : List Event) (cur : Option Meta) (c : List (Doc × Meta))
    (hconv : ∀ e ∈ es, e.payloadHash = "H:" ++ e.doc.render) (h : applyAll cfg evs cur es = .ok c) : MergedCA c := by
  intro q hq _
  rcases applyAll_doc_hash cfg evs es cur c h q hq with ⟨e, he, a, b⟩ | hx
  · rw [b, a]; exact hconv e he
  · exact hx.1

/-! ## `addDid`: the re-applied suffix -/

theorem insert_idx_le (n : Event) (l : List Event) : (insert n l).2 ≤ l.length := by
  obtain ⟨pre, suf, hl, hi, _⟩ := insert_split n l
  rw [hi, hl]; simp

theorem addDid_chain_split (cfg : Cfg) (st st' : DidState) (e : Event) (hi : Inv cfg st)
    (h : addDid cfg st e = .ok (some st')) :
    st'.chain.take (insert e st.events).2 = st.chain.take (insert e st.events).2 := by
  have hlen : st.chain.length = st.events.length := applyAll_length hi.chain
  have hidx := insert_idx_le e st.events
  unfold addDid at h
  split at h
  · cases h
  · simp only at h
    split at h
    · cases h
    · cases h
    · split at h
      · cases h
      · simp only [Res.ok.injEq, Option.some.injEq] at h
        rw [← h]
        simp only
        rw [List.take_append_of_le_length (by rw [List.length_take]; omega)]
        rw [List.take_take]
        simp

/-! ## the invariant of the two content-addressed shelves -/

/-- `U` = the accepted transactions that may arrive. A payload hash is the hash of the published bytes; a ref names one
    transaction (so one payload hash). -/
structure Accepted (U : List Event) : Prop where
  conv : ∀ e ∈ U, e.payloadHash = "H:" ++ e.doc.render
  ref : ∀ a ∈ U, ∀ b ∈ U, a.ref = b.ref → a.payloadHash = b.payloadHash

structure DInv (cfg : Cfg) (U : List Event) (b : Blob) (s : Store) : Prop where
  inv : StoreInv cfg s
  ca : CA b.docs
  sub : ∀ id, ∀ e ∈ (s.get id).events, e ∈ U
  ev : ∀ id, ∀ e ∈ (s.get id).events,
    alGet b.txRef e.ref = some e.payloadHash ∧ alGet b.docs e.payloadHash = some e.doc.render
  ch : ∀ id, ∀ p ∈ (s.get id).chain, alGet b.docs p.2.hash = some p.1.render
  /-- the index only knows refs of accepted transactions -/
  tx : ∀ r h, alGet b.txRef r = some h → ∃ e ∈ U, e.ref = r ∧ e.payloadHash = h

theorem get_empty (id : String) : (({} : Store).get id) = {} := rfl

theorem dinv_empty (cfg : Cfg) (U : List Event) : DInv cfg U {} {} :=
  ⟨storeInv_empty cfg, ca_nil, (fun _ e he => by cases he), (fun _ e he => by cases he), (fun _ p hp => by cases hp),
   (fun r h hg => by simp [alGet] at hg)⟩

/-- the first write transaction -/
theorem dinv_writeDocument (cfg : Cfg) (U : List Event) (hU : Accepted U) (b : Blob) (s : Store) (e : Event) (he : e ∈ U)
    (h : DInv cfg U b s) : DInv cfg U (writeDocument b e) s ∧
      alGet (writeDocument b e).txRef e.ref = some e.payloadHash ∧
      alGet (writeDocument b e).docs e.payloadHash = some e.doc.render := by
  have hconv := hU.conv e he
  have hdocs : ∀ k str, alGet b.docs k = some str → alGet (writeDocument b e).docs k = some str := by
    intro k str hg
    simp only [writeDocument]
    rw [hconv]
    exact ca_put_mono h.ca _ hg
  refine ⟨⟨h.inv, ?_, h.sub, ?_, ?_, ?_⟩, ?_, ?_⟩
  · simp only [writeDocument]; rw [hconv]; exact ca_put h.ca _
  · intro id x hx
    obtain ⟨a, c⟩ := h.ev id x hx
    refine ⟨?_, hdocs _ _ c⟩
    simp only [writeDocument]
    by_cases hr : x.ref = e.ref
    · rw [hr, nGet_put_self, hU.ref x (h.sub id x hx) e he hr]
    · rw [nGet_put_other _ _ _ _ hr]; exact a
  · intro id p hp
    exact hdocs _ _ (h.ch id p hp)
  · intro r k hg
    simp only [writeDocument] at hg
    by_cases hr : r = e.ref
    · subst hr
      rw [nGet_put_self] at hg
      cases hg
      exact ⟨e, he, rfl, rfl⟩
    · rw [nGet_put_other _ _ _ _ hr] at hg
      exact h.tx r k hg
  · simp only [writeDocument]; exact nGet_put_self _ _ _
  · simp only [writeDocument]; exact alGet_alPut_self _ _ _

theorem dAdd_dinv (cfg : Cfg) (U : List Event) (hU : Accepted U) (b b' : Blob) (s s' : Store) (e : Event) (mode : Nat)
    (he : e ∈ U) (h : DInv cfg U b s) (hadd : dAdd cfg b s e mode = .ok (b', s')) : DInv cfg U b' s' := by
  unfold dAdd at hadd
  by_cases h1 : mode = 1
  · simp only [h1, if_true, Res.ok.injEq, Prod.mk.injEq] at hadd
    rw [← hadd.1, ← hadd.2]; exact h
  · simp only [h1, if_false] at hadd
    obtain ⟨hw, hwt, hwd⟩ := dinv_writeDocument cfg U hU b s e he h
    by_cases h2 : mode = 2
    · simp only [h2, if_true, Res.ok.injEq, Prod.mk.injEq] at hadd
      rw [← hadd.1, ← hadd.2]; exact hw
    · simp only [h2, if_false] at hadd
      cases hA : add cfg s e with
      | err x => simp only [hA] at hadd; cases hadd
      | panic x => simp only [hA] at hadd; cases hadd
      | ok s1 =>
        simp only [hA] at hadd
        have hinv' : StoreInv cfg s1 := add_storeInv cfg s s1 e h.inv hA
        obtain ⟨hother, hcase⟩ := add_get cfg s s1 e hA
        rcases hcase with ⟨hn, hs⟩ | hsome
        · simp only [hn, Res.ok.injEq, Prod.mk.injEq] at hadd
          rw [← hadd.1, ← hadd.2, hs]; exact hw
        · simp only [hsome, Res.ok.injEq, Prod.mk.injEq] at hadd
          obtain ⟨hb', hs'⟩ := hadd
          subst hs'
          have hIold : Inv cfg (s.get e.doc.id) := get_inv cfg s h.inv _
          obtain ⟨hInew, hperm⟩ := addDid_inv cfg _ e hIold _ hsome
          -- the re-applied suffix: merged documents are stored under the hash of their bytes
          have hsubNew : ∀ x ∈ (s1.get e.doc.id).events, x ∈ U := by
            intro x hx
            rcases List.mem_cons.mp (hperm.mem_iff.mp hx) with rfl | hx
            · exact he
            · exact h.sub _ x hx
          have hmcAll : MergedCA (s1.get e.doc.id).chain :=
            mergedCA_of_applyAll cfg _ _ none _ (fun x hx => hU.conv x (hsubNew x hx)) hInew.chain
          have hmc : MergedCA (appliedSuffix (s.get e.doc.id) (s1.get e.doc.id) e) := by
            intro q hq
            exact hmcAll q (List.mem_of_mem_drop hq)
          have hmono := writeMerged_mono _ _ hw.ca hmc
          rw [← hb']
          refine ⟨hinv', ?_, ?_, ?_, ?_, hw.tx⟩
          · exact writeMerged_ca _ _ hw.ca hmc
          · intro id x hx
            by_cases hid : id = e.doc.id
            · subst hid; exact hsubNew x hx
            · rw [hother id hid] at hx; exact h.sub id x hx
          · intro id x hx
            by_cases hid : id = e.doc.id
            · subst hid
              rcases List.mem_cons.mp (hperm.mem_iff.mp hx) with rfl | hx
              · exact ⟨hwt, hmono _ _ hwd⟩
              · obtain ⟨a, c⟩ := hw.ev _ x hx
                exact ⟨a, hmono _ _ c⟩
            · rw [hother id hid] at hx
              obtain ⟨a, c⟩ := hw.ev id x hx
              exact ⟨a, hmono _ _ c⟩
          · intro id p hp
            by_cases hid : id = e.doc.id
            · subst hid
              rcases applyAll_doc_hash cfg _ _ none _ hInew.chain p hp with ⟨x, hx, a, c⟩ | ⟨_, hconf⟩
              · -- the published document of a listed event
                rcases List.mem_cons.mp (hperm.mem_iff.mp hx) with rfl | hx
                · rw [c, a]; exact hmono _ _ hwd
                · rw [c, a]; exact hmono _ _ (hw.ev _ x hx).2
              · -- a merged document: kept from before the insertion point, or written by this transaction
                have hsplit := List.take_append_drop (insert e (s.get e.doc.id).events).2 (s1.get e.doc.id).chain
                rw [← hsplit] at hp
                rcases List.mem_append.mp hp with hp | hp
                · rw [addDid_chain_split cfg _ _ e hIold hsome] at hp
                  exact hmono _ _ (hw.ch _ p (List.mem_of_mem_take hp))
                · exact writeMerged_get _ _ hw.ca hmc p hp hconf
            · rw [hother id hid] at hp
              exact hmono _ _ (hw.ch id p hp)

theorem dAddAll_dinv (cfg : Cfg) (U : List Event) (hU : Accepted U) :
    ∀ (l : List (Event × Nat)) (bs bs' : Blob × Store), (∀ p ∈ l, p.1 ∈ U) → DInv cfg U bs.1 bs.2 →
      dAddAll cfg bs l = .ok bs' → DInv cfg U bs'.1 bs'.2 := by
  intro l
  induction l with
  | nil => intro bs bs' _ h hr; simp only [dAddAll, Res.ok.injEq] at hr; subst hr; exact h
  | cons p l ih =>
    intro bs bs' hl h hr
    obtain ⟨e, mode⟩ := p
    unfold dAddAll at hr
    cases hA : dAdd cfg bs.1 bs.2 e mode with
    | err x => simp only [hA] at hr; cases hr
    | panic x => simp only [hA] at hr; cases hr
    | ok bs1 =>
      simp only [hA] at hr
      exact ih bs1 bs' (fun q hq => hl q (List.mem_cons_of_mem _ hq))
        (dAdd_dinv cfg U hU _ _ _ _ e mode (hl (e, mode) (List.mem_cons_self ..)) h (by rw [hA])) hr

end Nuts.C10
