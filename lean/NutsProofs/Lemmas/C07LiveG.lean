/-
  C07 liveness lemmas, part G: the steps of the pulling node.
-/
import NutsModel.C07.Round
import NutsProofs.Lemmas.C07
import NutsProofs.Lemmas.C07LiveF
open Nuts.Proto Nuts Nuts.Proto.L

namespace Nuts.Proto.Live

/-! ### Part G: the puller's steps -/

/-- with no open conversation every request goes out, under a fresh conversation id -/
theorem sendRequest_empty (cfg : Cfg) (n : Node) (hc : n.convs = []) (peer : Nat) (data : ConvData) (mk : Cid → Msg) :
    (sendRequest cfg n peer data mk).out = [(peer, mk (n.id, n.nextCid))] ∧
    (sendRequest cfg n peer data mk).node.convs = [{ cid := (n.id, n.nextCid), expiry := n.now + cfg.validity, data := data }] ∧
    (sendRequest cfg n peer data mk).node.dag = n.dag ∧ (sendRequest cfg n peer data mk).node.peers = n.peers ∧
    (sendRequest cfg n peer data mk).node.now = n.now ∧ (sendRequest cfg n peer data mk).node.id = n.id := by
  have hact : hasActive n peer = false := by
    unfold hasActive
    cases h : Nuts.alGet n.lastConv peer with
    | none => rfl
    | some cid => simp [findConv, hc]
  unfold sendRequest startConversation
  simp only [hact, Bool.and_false, Bool.false_eq_true, if_false]
  by_cases hb : data.blockable cfg = true <;> simp [hb, hc]

theorem pingPong_step (cfg : Cfg) (env : Env) (pA pB : Peer) (f : Nat) (a b : Node) (toB : List Msg) (h : toB ≠ []) :
    pingPong cfg env pA pB (f + 1) a b toB =
      pingPong cfg env pA pB f (absorb cfg env a pB (absorb cfg env b pA toB).2).1 (absorb cfg env b pA toB).1
        (absorb cfg env a pB (absorb cfg env b pA toB).2).2 := by
  have : toB.isEmpty = false := by cases toB with | nil => exact absurd rfl h | cons _ _ => rfl
  simp [pingPong, this]

theorem pingPong_nil (cfg : Cfg) (env : Env) (pA pB : Peer) (f : Nat) (a b : Node) : pingPong cfg env pA pB f a b [] = (a, b) := by
  cases f <;> simp [pingPong]

/-- refs of `d` on pages ≤ q -/
def UpTo (cfg : Cfg) (d : List Tx) (q : Nat) (r : Ref) : Prop := ∃ t ∈ d, t.ref = r ∧ pg cfg t ≤ q

def SameUpTo (cfg : Cfg) (a b : List Tx) (q : Nat) : Prop := ∀ r, UpTo cfg a q r ↔ UpTo cfg b q r

/-- the puller made no progress and this is what it learned: `b`'s transactions on pages < k and on page k are
    all in `a`, while on every page from k up to q₀ the two differ -/
def StuckAt (cfg : Cfg) (a b : List Tx) (q₀ : Nat) : Prop :=
  ∃ k, k ≤ q₀ + 1 ∧ (∀ t ∈ b, pg cfg t ≤ k → t ∈ a) ∧ (∀ q, k ≤ q → q ≤ q₀ → ¬ SameUpTo cfg a b q)

/-- the refs `b` reports for a request at `lcq` are its refs up to the page of `min (lcOf b) lcq` -/
theorem ibltSet_peer (cfg : Cfg) (b : List Tx) (lcq : Nat) (r : Ref) :
    r ∈ ibltSet cfg b lcq ↔ UpTo cfg b (pageOf cfg (Nat.min (lcOf b) lcq)) r := by
  rw [mem_ibltSet]
  unfold UpTo
  constructor
  · rintro ⟨t, ht, hr, hp⟩
    refine ⟨t, ht, hr, ?_⟩
    by_cases h : lcOf b ≤ lcq
    · have : Nat.min (lcOf b) lcq = lcOf b := Nat.min_eq_left h
      rw [this]; exact pageOf_mono cfg (lcOf_ge b t ht)
    · have : Nat.min (lcOf b) lcq = lcq := Nat.min_eq_right (by omega)
      rw [this]; exact hp
  · rintro ⟨t, ht, hr, hp⟩
    exact ⟨t, ht, hr, Nat.le_trans hp (pageOf_mono cfg (Nat.min_le_right _ _))⟩

theorem ibltSet_local (cfg : Cfg) (a : List Tx) (lc : Nat) (r : Ref) : r ∈ ibltSet cfg a lc ↔ UpTo cfg a (pageOf cfg lc) r :=
  mem_ibltSet

/-- evaluating `handleTransactionSet` when the only open conversation is the matching `State` request -/
theorem set_eval (cfg : Cfg) (env : Env) (a : Node) (pB : Peer) (c : Conv) (cid : Cid) (lcq lcb : Nat) (iblt : IbltV)
    (hc : a.convs = [c]) (hcid : c.cid = cid) (hd : c.data = .state lcq) :
    (convDone a cid).convs = [] ∧
    handle cfg env a pB (.txSet cid lcq lcb iblt) =
      (match env.decode (ibltSet cfg a.dag (Nat.min lcb lcq)) iblt with
        | .err => { node := convDone a cid, ret := "err:iblt" }
        | .fail =>
          if Nat.min lcb lcq < cfg.pageSize then sendRangeQuery cfg (convDone a cid) pB.key 0 cfg.pageSize
          else sendState cfg (convDone a cid) pB.key (xorOf a.dag) (pageStart cfg (pageOf cfg (Nat.min lcb lcq)) - 1)
        | .ok missing =>
          if !missing.isEmpty then sendListQuery cfg (convDone a cid) pB.key missing
          else if pageOf cfg lcb > pageOf cfg lcq then
            if pageOf cfg (lcOf a.dag) > pageOf cfg lcq then
              sendRangeQuery cfg (convDone a cid) pB.key (pageStart cfg (pageOf cfg lcq + cfg.nextOne.1)) (pageStart cfg (pageOf cfg lcq + cfg.nextOne.2))
            else
              sendRangeQuery cfg (convDone a cid) pB.key (pageStart cfg (pageOf cfg lcq + cfg.nextTwo.1)) (pageStart cfg (pageOf cfg lcq + cfg.nextTwo.2))
          else { node := convDone a cid }) := by
  have hdone : (convDone a cid).convs = [] := by simp [convDone, hc, hcid]
  refine ⟨hdone, ?_⟩
  have hchk : convCheck a cid (.txSet cid lcq lcb iblt) = none := by
    unfold convCheck findConv
    rw [hc]; simp [hcid, hd, checkResponse]
  simp only [handle]
  unfold handleTransactionSet
  rw [hchk]
  rfl

end Nuts.Proto.Live
