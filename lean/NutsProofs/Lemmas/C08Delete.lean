/-
  C08 — `tree.Delete` (deepening round): Delete subtracts a singleton and exactly undoes Insert, for XOR and IBLT.
-/
import NutsProofs.Lemmas.C08Data
namespace Nuts.C08
variable {R G : Type}

/-- `Delete` is `Insert`'s mirror image: subtracting a singleton -/
structure DelLawful (o : Ops R G) : Prop where
  del_eq : ∀ g r, o.del g r = o.add g (o.del o.zero r)
  del_ins : ∀ g r, o.del (o.ins g r) r = g

theorem delete_spec {o : Ops R G} (L : Lawful o) (D : DelLawful o) (t : Tree G) (i : TInv o t) (r : R) (clock : Nat) :
    TInv o (t.delete o r clock) ∧ (t.delete o r clock).leafSize = t.leafSize ∧
    ∀ q : Nat → Bool, fsum o t.leafSize q (t.delete o r clock).root.leaves =
      if q (clock / t.leafSize) then o.del (fsum o t.leafSize q t.root.leaves) r
      else fsum o t.leafSize q t.root.leaves := by
  have := updatePath_spec L t i clock (fun d => o.del d r) (o.del o.zero r) (fun d => D.del_eq d r)
  refine ⟨this.1, this.2.1, fun q => ?_⟩
  rw [Tree.delete, this.2.2 q, ← D.del_eq]

theorem xor_del_lawful : DelLawful xorOps where
  del_eq g r := by simp [xorOps]
  del_ins g r := by simp [xorOps, BitVec.xor_assoc]

namespace Bucket
theorem add_del (a b : Bucket) (k : Ref) (hk : BitVec 64) : (a.add b).del k hk = a.add (b.del k hk) := by
  cases a; cases b
  simp only [Bucket.add, Bucket.del, BitVec.xor_assoc, Bucket.mk.injEq, and_true]
  simp only [BitVec.sub_eq_add_neg, BitVec.add_assoc]
theorem del_ins (a : Bucket) (k : Ref) (hk : BitVec 64) : (a.ins k hk).del k hk = a := by
  cases a; simp [Bucket.ins, Bucket.del, BitVec.xor_assoc, BitVec.add_sub_cancel]
theorem del_ins_comm (a : Bucket) (k : Ref) (hk : BitVec 64) : (a.ins k hk).del k hk = (a.del k hk).ins k hk := by
  cases a; simp [Bucket.ins, Bucket.del, BitVec.xor_assoc, BitVec.add_sub_cancel, BitVec.sub_add_cancel]
end Bucket

theorem Iblt.modify_add_del {n : Nat} (g z : Iblt n) (h : Nat) (k : Ref) (hk : BitVec 64) :
    Iblt.modify ((ibltOps n).add g z) h (fun b => b.del k hk) = (ibltOps n).add g (Iblt.modify z h (fun b => b.del k hk)) := by
  unfold Iblt.modify
  by_cases hh : h < n
  · simp only [hh, dite_true, ibltOps]
    apply Vector.ext
    intro i hi
    simp only [Vector.getElem_zipWith, Vector.getElem_set]
    by_cases e : h = i
    · subst e; simp [Bucket.add_del]
    · simp [e]
  · simp [hh]

theorem Iblt.del_fold {n : Nat} (k : Ref) (hk : BitVec 64) (idx : List Nat) (g z : Iblt n) :
    idx.foldl (fun g h => Iblt.modify g h (fun b => b.del k hk)) ((ibltOps n).add g z) =
    (ibltOps n).add g (idx.foldl (fun g h => Iblt.modify g h (fun b => b.del k hk)) z) := by
  induction idx generalizing z with
  | nil => rfl
  | cons h t ih => simp only [List.foldl_cons]; rw [Iblt.modify_add_del, ih]

/-- modifications of buckets commute when the bucket functions commute -/
theorem Iblt.modify_comm {n : Nat} (x : Iblt n) (h h' : Nat) (f g : Bucket → Bucket) (hfg : ∀ b, f (g b) = g (f b)) :
    Iblt.modify (Iblt.modify x h' g) h f = Iblt.modify (Iblt.modify x h f) h' g := by
  unfold Iblt.modify
  by_cases hh : h < n <;> by_cases hh' : h' < n <;> simp only [hh, hh', dite_true, dite_false]
  apply Vector.ext
  intro i hi
  simp only [Vector.getElem_set]
  by_cases e : h = i <;> by_cases e' : h' = i
  · subst e; subst e'; simp [hfg]
  · subst e; simp [e']
  · subst e'; simp [e]
  · simp [e, e']

theorem Iblt.del_insF {n : Nat} (k : Ref) (hk : BitVec 64) (h : Nat) (idx : List Nat) (y : Iblt n) :
    Iblt.modify (idx.foldl (fun g h => Iblt.modify g h (fun b => b.ins k hk)) y) h (fun b => b.del k hk) =
    idx.foldl (fun g h => Iblt.modify g h (fun b => b.ins k hk)) (Iblt.modify y h (fun b => b.del k hk)) := by
  induction idx generalizing y with
  | nil => rfl
  | cons a t ih =>
    simp only [List.foldl_cons]
    rw [ih, Iblt.modify_comm y h a _ _ (fun b => Bucket.del_ins_comm b k hk)]

theorem Iblt.modify_del_ins {n : Nat} (z : Iblt n) (h : Nat) (k : Ref) (hk : BitVec 64) :
    Iblt.modify (Iblt.modify z h (fun b => b.ins k hk)) h (fun b => b.del k hk) = z := by
  unfold Iblt.modify
  by_cases hh : h < n
  · simp only [hh, dite_true]
    apply Vector.ext
    intro i hi
    simp only [Vector.getElem_set]
    by_cases e : h = i
    · subst e; simp [Bucket.del_ins]
    · simp [e]
  · simp [hh]

theorem Iblt.delF_insF {n : Nat} (k : Ref) (hk : BitVec 64) (idx : List Nat) (z : Iblt n) :
    idx.foldl (fun g h => Iblt.modify g h (fun b => b.del k hk))
      (idx.foldl (fun g h => Iblt.modify g h (fun b => b.ins k hk)) z) = z := by
  induction idx generalizing z with
  | nil => rfl
  | cons h t ih =>
    simp only [List.foldl_cons]
    rw [Iblt.del_insF, Iblt.modify_del_ins, ih]

theorem iblt_del_lawful (n : Nat) : DelLawful (ibltOps n) where
  del_eq g r := by
    have := Iblt.del_fold r.ref r.hk r.idx g (ibltOps n).zero
    rw [iblt_add_zero] at this
    exact this
  del_ins g r := Iblt.delF_insF r.ref r.hk r.idx g

end Nuts.C08
