/-
  Helper lemmas for C10 (did:nuts store). Property theorems live in NutsProofs/Props/C10.lean.
-/
import NutsModel.C10.DidStore
import NutsProofs.Lemmas.Sort

namespace Nuts.C10

/-! ## `before` is a strict total order on events with distinct refs -/

theorem before_iff (a b : Event) :
    before a b = true ↔
      a.clock < b.clock ∨ (a.clock = b.clock ∧ (a.sigTime < b.sigTime ∨ (a.sigTime = b.sigTime ∧ a.ref < b.ref))) := by
  unfold before
  split
  · simp only [true_iff]; omega
  · split
    · simp only [Bool.false_eq_true, false_iff]; omega
    · split
      · simp only [true_iff]; omega
      · split
        · simp only [Bool.false_eq_true, false_iff]; omega
        · simp only [decide_eq_true_eq]; omega

theorem before_irrefl (a : Event) : before a a = false := by
  cases h : before a a with
  | false => rfl
  | true => rw [before_iff] at h; omega

theorem before_asymm {a b : Event} (h : before a b = true) : before b a = false := by
  cases h' : before b a with
  | false => rfl
  | true => rw [before_iff] at h h'; omega

theorem before_trans {a b c : Event} (h1 : before a b = true) (h2 : before b c = true) :
    before a c = true := by
  rw [before_iff] at *; omega

theorem before_total {a b : Event} (h : a.ref ≠ b.ref) : before a b = true ∨ before b a = true := by
  rw [before_iff, before_iff]
  have : a.ref < b.ref ∨ b.ref < a.ref := by omega
  omega

theorem not_before {a b : Event} (h : a.ref ≠ b.ref) (hn : before a b = false) : before b a = true := by
  rcases before_total h with h' | h'
  · rw [h'] at hn; cases hn
  · exact h'

/-- the event list is sorted -/
def Sorted (l : List Event) : Prop := l.Pairwise (fun a b => before a b = true)

def refs (l : List Event) : List Ref := l.map (·.ref)

/-! ## `insert` -/

theorem insert_split (n : Event) (l : List Event) :
    ∃ pre suf, l = pre ++ suf ∧ insert n l = (pre ++ n :: suf, pre.length) ∧
      (∀ y ∈ suf, before n y = true) := by
  induction l with
  | nil => exact ⟨[], [], rfl, rfl, by simp⟩
  | cons x xs ih =>
    unfold insert
    by_cases h : (x :: xs).all (fun y => before n y) = true
    · refine ⟨[], x :: xs, rfl, by simp [h], ?_⟩
      intro y hy
      exact (List.all_eq_true.mp h) y hy
    · obtain ⟨pre, suf, hl, hi, hs⟩ := ih
      refine ⟨x :: pre, suf, by simp [hl], ?_, hs⟩
      simp [h, hi]

theorem insert_perm (n : Event) (l : List Event) : (insert n l).1.Perm (n :: l) := by
  obtain ⟨pre, suf, hl, hi, _⟩ := insert_split n l
  rw [hi, hl]
  exact List.perm_middle

theorem insert_sorted (n : Event) (l : List Event) (hs : Sorted l) (hn : ∀ y ∈ l, y.ref ≠ n.ref) :
    Sorted (insert n l).1 := by
  induction l with
  | nil => simp [insert, Sorted]
  | cons x xs ih =>
    unfold insert
    have hsx : Sorted xs := (List.pairwise_cons.mp hs).2
    have hxall : ∀ y ∈ xs, before x y = true := (List.pairwise_cons.mp hs).1
    by_cases h : (x :: xs).all (fun y => before n y) = true
    · simp only [h, if_true]
      exact List.pairwise_cons.mpr ⟨fun y hy => (List.all_eq_true.mp h) y hy, hs⟩
    · simp only [h]
      have hrec := ih hsx (fun y hy => hn y (List.mem_cons_of_mem _ hy))
      -- some element of x :: xs is not after n, hence x is before n
      have hx : before x n = true := by
        have : ∃ y ∈ x :: xs, before n y = false := by
          by_cases hex : ∃ y ∈ x :: xs, before n y = false
          · exact hex
          · exfalso; apply h
            apply List.all_eq_true.mpr
            intro y hy
            cases hb : before n y with
            | true => rfl
            | false => exact absurd ⟨y, hy, hb⟩ hex
        obtain ⟨y, hy, hb⟩ := this
        have hyn : before y n = true := not_before (fun e => (hn y hy) e.symm) hb
        rcases List.mem_cons.mp hy with rfl | hy'
        · exact hyn
        · exact before_trans (hxall y hy') hyn
      refine List.pairwise_cons.mpr ⟨?_, hrec⟩
      intro y hy
      have := (insert_perm n xs).subset hy
      rcases List.mem_cons.mp this with rfl | hy'
      · exact hx
      · exact hxall y hy'

/-- two sorted lists with the same elements are equal -/
theorem sorted_perm_eq {l₁ l₂ : List Event} (h₁ : Sorted l₁) (h₂ : Sorted l₂) (hp : l₁.Perm l₂) : l₁ = l₂ := by
  apply List.Perm.eq_of_pairwise (le := fun a b => before a b = true) _ h₁ h₂ hp
  intro a b _ _ hab hba
  rw [before_asymm hab] at hba
  cases hba

/-! ## `applyAll` -/

def lastMeta (cur : Option Meta) (c : List (Doc × Meta)) : Option Meta :=
  match c.getLast? with
  | some p => some p.2
  | none => cur

theorem lastMeta_nil (cur : Option Meta) : lastMeta cur [] = cur := rfl

theorem lastMeta_cons (cur : Option Meta) (p : Doc × Meta) (c : List (Doc × Meta)) :
    lastMeta cur (p :: c) = lastMeta (some p.2) c := by
  cases c with
  | nil => simp [lastMeta]
  | cons q c =>
    simp only [lastMeta, List.getLast?_cons_cons]
    cases h : (q :: c).getLast? with
    | some x => rfl
    | none => simp at h

theorem applyAll_length {cfg : Cfg} {evs : List Event} :
    ∀ {cur : Option Meta} {es : List Event} {c : List (Doc × Meta)},
      applyAll cfg evs cur es = .ok c → c.length = es.length := by
  intro cur es
  induction es generalizing cur with
  | nil => intro c h; simp [applyAll] at h; subst h; rfl
  | cons e es ih =>
    intro c h
    unfold applyAll at h
    split at h
    · rename_i d m he
      split at h
      · rename_i rest hr
        cases h
        simp [ih hr]
      · cases h
      · cases h
    · cases h
    · cases h

theorem applyAll_cons_ok {cfg : Cfg} {evs : List Event} {cur : Option Meta} {e : Event} {d : Doc} {m : Meta}
    (es : List Event) (h : applyEvent cfg evs cur e = .ok (d, m)) :
    applyAll cfg evs cur (e :: es) =
      (match applyAll cfg evs (some m) es with
       | .ok rest => .ok ((d, m) :: rest)
       | .err x => .err x
       | .panic x => .panic x) := by
  rw [applyAll]; simp only [h]
  cases applyAll cfg evs (some m) es <;> rfl

theorem applyAll_append (cfg : Cfg) (evs : List Event) :
    ∀ (cur : Option Meta) (a b : List Event) (ca : List (Doc × Meta)),
      applyAll cfg evs cur a = .ok ca →
      applyAll cfg evs cur (a ++ b) =
        (match applyAll cfg evs (lastMeta cur ca) b with
         | .ok cb => .ok (ca ++ cb)
         | .err x => .err x
         | .panic x => .panic x) := by
  intro cur a
  induction a generalizing cur with
  | nil =>
    intro b ca h
    simp [applyAll] at h; subst h
    simp [lastMeta_nil]
    cases applyAll cfg evs cur b <;> rfl
  | cons e es ih =>
    intro b ca h
    unfold applyAll at h
    simp only [List.cons_append]
    split at h
    · rename_i d m he
      split at h
      · rename_i rest hr
        cases h
        rw [applyAll_cons_ok _ he, ih (some m) b rest hr, lastMeta_cons]
        cases applyAll cfg evs (lastMeta (some (d, m).2) rest) b <;> simp
      · cases h
      · cases h
    · cases h
    · cases h

/-- `applyAll` of a prefix of a successful run succeeds with the prefix of the chain -/
theorem applyAll_prefix (cfg : Cfg) (evs : List Event) :
    ∀ (cur : Option Meta) (a b : List Event) (c : List (Doc × Meta)),
      applyAll cfg evs cur (a ++ b) = .ok c →
      ∃ ca cb, applyAll cfg evs cur a = .ok ca ∧ applyAll cfg evs (lastMeta cur ca) b = .ok cb ∧ c = ca ++ cb := by
  intro cur a
  induction a generalizing cur with
  | nil =>
    intro b c h
    exact ⟨[], c, by simp [applyAll], by simpa [lastMeta_nil] using h, rfl⟩
  | cons e es ih =>
    intro b c h
    simp only [List.cons_append] at h
    unfold applyAll at h
    split at h
    · rename_i d m he
      split at h
      · rename_i rest hr
        cases h
        obtain ⟨ca, cb, h1, h2, h3⟩ := ih (some m) b rest hr
        refine ⟨(d, m) :: ca, cb, ?_, ?_, by simp [h3]⟩
        · unfold applyAll; simp [he, h1]
        · rw [lastMeta_cons]; exact h2
      · cases h
      · cases h
    · cases h
    · cases h

/-! ## context independence: lookups only concern refs of events already applied -/

/-- every source transaction of the metadata is in `R` -/
def SrcIn (R : List Ref) (m : Option Meta) : Prop := ∀ x, m = some x → ∀ r ∈ x.sourceTx, r ∈ R

theorem foldl_step_src (cfg : Cfg) (evs evs' : List Event) (R : List Ref)
    (hag : ∀ r ∈ R, docOfTx evs r = docOfTx evs' r) :
    ∀ (un : List Nat) (acc : Res (Doc × List Nat)), (∀ r ∈ un, r ∈ R) →
      un.foldl (mergeStep cfg evs) acc = un.foldl (mergeStep cfg evs') acc := by
  intro un
  induction un with
  | nil => intro acc _; rfl
  | cons u us ih =>
    intro acc hin
    simp only [List.foldl_cons]
    have hu : docOfTx evs u = docOfTx evs' u := hag u (hin u (List.mem_cons_self))
    have : mergeStep cfg evs acc u = mergeStep cfg evs' acc u := by
      unfold mergeStep; rw [hu]
    rw [this]
    exact ih _ (fun r hr => hin r (List.mem_cons_of_mem _ hr))

theorem foldl_mergeStep_err (cfg : Cfg) (evs : List Event) (l : List Nat) (x : String) :
    l.foldl (mergeStep cfg evs) (.err x) = .err x := by
  induction l with
  | nil => rfl
  | cons a l ih => simp only [List.foldl_cons, mergeStep]; exact ih

theorem foldl_step_srcs (cfg : Cfg) (evs : List Event) :
    ∀ (un : List Nat) (d0 : Doc) (s0 : List Nat) (d : Doc) (src : List Nat),
      un.foldl (mergeStep cfg evs) (.ok (d0, s0)) = .ok (d, src) → src = s0 ++ un := by
  intro un
  induction un with
  | nil => intro d0 s0 d src h; simp at h; simp [h.2]
  | cons u us ih =>
    intro d0 s0 d src h
    simp only [List.foldl_cons] at h
    cases hd : docOfTx evs u with
    | none =>
      simp only [mergeStep, hd, foldl_mergeStep_err] at h
      cases h
    | some old =>
      simp only [mergeStep, hd] at h
      have := ih _ _ _ _ h
      simp [this]

theorem applyEvent_ctx (cfg : Cfg) (evs evs' : List Event) (R : List Ref)
    (hag : ∀ r ∈ R, docOfTx evs r = docOfTx evs' r) (cur : Option Meta) (hcur : SrcIn R cur) (e : Event) :
    applyEvent cfg evs cur e = applyEvent cfg evs' cur e := by
  unfold applyEvent applyDocument
  cases cur with
  | none => rfl
  | some c =>
    simp only
    split
    · rfl
    · have hin : ∀ r ∈ c.sourceTx.filter (fun st => !(e.prevs.contains st)), r ∈ R := by
        intro r hr
        exact hcur c rfl r (List.mem_filter.mp hr).1
      rw [foldl_step_src cfg evs evs' R hag _ _ hin]

theorem applyEvent_src (cfg : Cfg) (evs : List Event) (R : List Ref) (cur : Option Meta) (hcur : SrcIn R cur)
    (e : Event) (he : e.ref ∈ R) (d : Doc) (m : Meta) (h : applyEvent cfg evs cur e = .ok (d, m)) :
    SrcIn R (some m) := by
  unfold applyEvent applyDocument at h
  intro x hx r hr
  cases hx
  cases cur with
  | none =>
    simp at h
    obtain ⟨_, rfl⟩ := h
    simp at hr; subst hr; exact he
  | some c =>
    simp only at h
    split at h
    · simp at h
      obtain ⟨_, rfl⟩ := h
      simp at hr; subst hr; exact he
    · split at h
      · rename_i d' src hf
        have hs := foldl_step_srcs cfg evs _ _ _ _ _ hf
        simp at h
        obtain ⟨_, rfl⟩ := h
        simp at hr
        rw [hs] at hr
        simp at hr
        rcases hr with rfl | hr
        · exact he
        · exact hcur c rfl r hr.1
      · cases h
      · cases h

theorem applyAll_ctx (cfg : Cfg) (evs evs' : List Event) (R : List Ref)
    (hag : ∀ r ∈ R, docOfTx evs r = docOfTx evs' r) :
    ∀ (es : List Event) (cur : Option Meta), SrcIn R cur → (∀ e ∈ es, e.ref ∈ R) →
      applyAll cfg evs cur es = applyAll cfg evs' cur es := by
  intro es
  induction es with
  | nil => intro cur _ _; rfl
  | cons e es ih =>
    intro cur hcur hes
    unfold applyAll
    rw [← applyEvent_ctx cfg evs evs' R hag cur hcur e]
    cases he : applyEvent cfg evs cur e with
    | ok p =>
      obtain ⟨d, m⟩ := p
      simp only
      have hm := applyEvent_src cfg evs R cur hcur e (hes e List.mem_cons_self) d m he
      rw [ih (some m) hm (fun x hx => hes x (List.mem_cons_of_mem _ hx))]
    | err x => rfl
    | panic x => rfl

/-- the metadata reached after applying `es` from `cur` has all sources in `R` -/
theorem applyAll_src (cfg : Cfg) (evs : List Event) (R : List Ref) :
    ∀ (es : List Event) (cur : Option Meta) (c : List (Doc × Meta)), SrcIn R cur → (∀ e ∈ es, e.ref ∈ R) →
      applyAll cfg evs cur es = .ok c → SrcIn R (lastMeta cur c) := by
  intro es
  induction es with
  | nil => intro cur c hcur _ h; simp [applyAll] at h; subst h; simpa [lastMeta_nil] using hcur
  | cons e es ih =>
    intro cur c hcur hes h
    unfold applyAll at h
    split at h
    · rename_i d m he
      split at h
      · rename_i rest hr
        cases h
        rw [lastMeta_cons]
        exact ih (some m) rest (applyEvent_src cfg evs R cur hcur e (hes e List.mem_cons_self) d m he)
          (fun x hx => hes x (List.mem_cons_of_mem _ hx)) hr
      · cases h
      · cases h
    · cases h
    · cases h

/-! ## lookups are stable when an event with a fresh ref is inserted -/

theorem docOfTx_insert (pre suf : List Event) (n : Event) (r : Ref) (h : r ≠ n.ref) :
    docOfTx (pre ++ n :: suf) r = docOfTx (pre ++ suf) r := by
  unfold docOfTx
  congr 1
  induction pre with
  | nil =>
    simp only [List.nil_append, List.find?_cons]
    have : (n.ref == r) = false := by simp; exact fun e => h e.symm
    simp [this]
  | cons p ps ih =>
    simp only [List.cons_append, List.find?_cons]
    split <;> simp_all

end Nuts.C10

namespace Nuts.C10

/-! ## the per-DID invariant: the stored chain is the chain derived from scratch from the sorted list -/

structure Inv (cfg : Cfg) (st : DidState) : Prop where
  sorted : Sorted st.events
  nodup : (refs st.events).Nodup
  chain : derive cfg st.events = .ok st.chain
  flag : st.conflicted = (match st.chain.getLast? with | some p => p.2.isConflicted | none => false)

theorem inv_empty (cfg : Cfg) : Inv cfg {} :=
  ⟨List.Pairwise.nil, List.nodup_nil, rfl, rfl⟩

theorem contains_false_iff {l : List Event} {e : Event} :
    contains l e = false ↔ ∀ y ∈ l, y.ref ≠ e.ref := by
  unfold contains
  rw [List.any_eq_false]
  constructor
  · intro h y hy; have := h y hy; simpa using this
  · intro h y hy; have := h y hy; simpa using this

theorem getElem?_pred_eq_getLast? {α} (a b : List α) (h : 0 < a.length) :
    (a ++ b)[a.length - 1]? = a.getLast? := by
  rw [List.getElem?_append_left (by omega), List.getLast?_eq_getElem?]

theorem base_eq_lastMeta (cpre csuf : List (Doc × Meta)) :
    (if cpre.length > 0 then ((cpre ++ csuf)[cpre.length - 1]?).map (·.2) else none) = lastMeta none cpre := by
  unfold lastMeta
  by_cases h : cpre.length > 0
  · simp only [h, if_true]
    rw [getElem?_pred_eq_getLast? cpre csuf h]
    cases cpre.getLast? <;> rfl
  · have : cpre = [] := List.eq_nil_of_length_eq_zero (by omega)
    subst this; rfl

theorem addDid_inv (cfg : Cfg) (st : DidState) (e : Event) (h : Inv cfg st) (st' : DidState)
    (hadd : addDid cfg st e = .ok (some st')) :
    Inv cfg st' ∧ st'.events.Perm (e :: st.events) := by
  unfold addDid at hadd
  by_cases hc : contains st.events e = true
  · simp [hc] at hadd
  · have hc' : contains st.events e = false := by simpa using hc
    have hfresh := contains_false_iff.mp hc'
    simp only [hc', Bool.false_eq_true, if_false] at hadd
    obtain ⟨pre, suf, hl, hi, _⟩ := insert_split e st.events
    rw [hi] at hadd
    simp only [List.drop_left'] at hadd
    -- old derivation splits at `pre`
    have hch := h.chain
    unfold derive at hch
    rw [hl] at hch
    obtain ⟨cpre, csuf, h1, _, h3⟩ := applyAll_prefix cfg (pre ++ suf) none pre suf st.chain hch
    have hlen : cpre.length = pre.length := applyAll_length h1
    -- lookups among old refs are unchanged by inserting e
    have hR : ∀ r ∈ refs (pre ++ suf), docOfTx (pre ++ e :: suf) r = docOfTx (pre ++ suf) r := by
      intro r hr
      apply docOfTx_insert
      intro heq
      obtain ⟨y, hy, hyr⟩ := List.mem_map.mp hr
      exact hfresh y (hl ▸ hy) (hyr.trans heq)
    have h1' : applyAll cfg (pre ++ e :: suf) none pre = .ok cpre := by
      rw [applyAll_ctx cfg (pre ++ e :: suf) (pre ++ suf) (refs (pre ++ suf)) hR pre none
        (by intro x hx; cases hx)
        (by intro x hx; exact List.mem_map.mpr ⟨x, List.mem_append_left _ hx, rfl⟩)]
      exact h1
    have hbase : (if pre.length > 0 then (st.chain[pre.length - 1]?).map (·.2) else none) = lastMeta none cpre := by
      rw [h3, ← hlen]; exact base_eq_lastMeta cpre csuf
    rw [hbase] at hadd
    have htake : st.chain.take pre.length = cpre := by
      rw [h3, ← hlen]; simp
    rw [htake] at hadd
    have happ := applyAll_append cfg (pre ++ e :: suf) none pre (e :: suf) cpre h1'
    split at hadd
    · cases hadd
    · cases hadd
    · rename_i suffix hs
      rw [hs] at happ
      split at hadd
      · cases hadd
      · rename_i last hlast
        simp only [Res.ok.injEq, Option.some.injEq] at hadd
        subst hadd
        refine ⟨⟨?_, ?_, ?_, ?_⟩, ?_⟩
        · have := insert_sorted e st.events h.sorted hfresh
          rw [hi] at this; exact this
        · have hp : (pre ++ e :: suf).Perm (e :: st.events) := by rw [hl]; exact List.perm_middle
          have : (refs (pre ++ e :: suf)).Perm (refs (e :: st.events)) := hp.map _
          apply (List.Perm.nodup_iff this).mpr
          simp only [refs, List.map_cons, List.nodup_cons]
          refine ⟨?_, h.nodup⟩
          intro hm
          obtain ⟨y, hy, hyr⟩ := List.mem_map.mp hm
          exact hfresh y hy hyr
        · unfold derive; exact happ
        · simp only [hlast]
        · rw [hl]; exact List.perm_middle

end Nuts.C10

namespace Nuts.C10

/-! ## arrival sequences for one DID -/

/-- the per-DID state after an arrival sequence (events of other DIDs do not touch it) -/
def addDidAll (cfg : Cfg) : DidState → List Event → Res DidState
  | st, [] => .ok st
  | st, e :: es =>
    match addDid cfg st e with
    | .ok none => addDidAll cfg st es
    | .ok (some st') => addDidAll cfg st' es
    | .err x => .err x
    | .panic x => .panic x

/-- within the universe `U` a ref identifies the event (a transaction ref is the hash of the transaction) -/
def RefFun (U : List Event) : Prop := ∀ a ∈ U, ∀ b ∈ U, a.ref = b.ref → a = b

theorem addDid_none_mem (cfg : Cfg) (st : DidState) (e : Event) (U : List Event) (hU : RefFun U)
    (hst : ∀ x ∈ st.events, x ∈ U) (he : e ∈ U) (h : addDid cfg st e = .ok none) : e ∈ st.events := by
  unfold addDid at h
  by_cases hc : contains st.events e = true
  · unfold contains at hc
    obtain ⟨y, hy, hyr⟩ := List.any_eq_true.mp hc
    have : y.ref = e.ref := by simpa using hyr
    have := hU y (hst y hy) e he this
    subst this; exact hy
  · simp only [hc, Bool.false_eq_true, if_false] at h
    split at h
    · cases h
    · cases h
    · split at h <;> cases h

theorem addDidAll_inv (cfg : Cfg) (U : List Event) (hU : RefFun U) :
    ∀ (l : List Event) (st s : DidState), Inv cfg st → (∀ x ∈ st.events, x ∈ U) → (∀ x ∈ l, x ∈ U) →
      addDidAll cfg st l = .ok s →
      Inv cfg s ∧ ∀ x, x ∈ s.events ↔ (x ∈ st.events ∨ x ∈ l) := by
  intro l
  induction l with
  | nil =>
    intro st s hinv _ _ h
    simp only [addDidAll, Res.ok.injEq] at h
    subst h
    exact ⟨hinv, by simp⟩
  | cons e es ih =>
    intro st s hinv hst hl h
    unfold addDidAll at h
    split at h
    · rename_i hnone
      have hmem := addDid_none_mem cfg st e U hU hst (hl e List.mem_cons_self) hnone
      obtain ⟨hi, hm⟩ := ih st s hinv hst (fun x hx => hl x (List.mem_cons_of_mem _ hx)) h
      refine ⟨hi, fun x => ?_⟩
      rw [hm x]
      constructor
      · rintro (h | h)
        · exact Or.inl h
        · exact Or.inr (List.mem_cons_of_mem _ h)
      · rintro (h | h)
        · exact Or.inl h
        · rcases List.mem_cons.mp h with rfl | h
          · exact Or.inl hmem
          · exact Or.inr h
    · rename_i st' hsome
      obtain ⟨hinv', hperm⟩ := addDid_inv cfg st e hinv st' hsome
      have hst' : ∀ x ∈ st'.events, x ∈ U := by
        intro x hx
        rcases List.mem_cons.mp (hperm.subset hx) with rfl | hx'
        · exact hl _ List.mem_cons_self
        · exact hst x hx'
      obtain ⟨hi, hm⟩ := ih st' s hinv' hst' (fun x hx => hl x (List.mem_cons_of_mem _ hx)) h
      refine ⟨hi, fun x => ?_⟩
      rw [hm x, hperm.mem_iff]
      simp only [List.mem_cons]
      constructor
      · rintro ((rfl | h) | h)
        · exact Or.inr (Or.inl rfl)
        · exact Or.inl h
        · exact Or.inr (Or.inr h)
      · rintro (h | rfl | h)
        · exact Or.inl (Or.inr h)
        · exact Or.inl (Or.inl rfl)
        · exact Or.inr h
    · cases h
    · cases h

/-- A DID's state is determined by the *set* of its events. -/
theorem didstate_determined (cfg : Cfg) (s₁ s₂ : DidState) (h₁ : Inv cfg s₁) (h₂ : Inv cfg s₂)
    (hm : ∀ x, x ∈ s₁.events ↔ x ∈ s₂.events) : s₁ = s₂ := by
  have n₁ : s₁.events.Nodup :=
    List.Pairwise.of_map (·.ref) (fun a b hab heq => hab (congrArg _ heq)) h₁.nodup
  have n₂ : s₂.events.Nodup :=
    List.Pairwise.of_map (·.ref) (fun a b hab heq => hab (congrArg _ heq)) h₂.nodup
  have hp : s₁.events.Perm s₂.events := (List.perm_ext_iff_of_nodup n₁ n₂).mpr hm
  have he : s₁.events = s₂.events := sorted_perm_eq h₁.sorted h₂.sorted hp
  have hc : s₁.chain = s₂.chain := by
    have a := h₁.chain; have b := h₂.chain
    rw [he] at a; rw [a] at b; exact Res.ok.inj b
  have hf : s₁.conflicted = s₂.conflicted := by rw [h₁.flag, h₂.flag, hc]
  cases s₁; cases s₂; simp_all

/-! ## the store as a map from DID to per-DID state -/

theorem alGet_alPut_self {ν} (m : List (String × ν)) (k : String) (v : ν) : alGet (alPut m k v) k = some v := by
  simp [alGet, alPut]

theorem alGet_alPut_other {ν} (m : List (String × ν)) (k j : String) (v : ν) (h : j ≠ k) :
    alGet (alPut m k v) j = alGet m j := by
  unfold alGet alPut
  have hkj : (k == j) = false := by simp; exact fun e => h e.symm
  simp only [List.find?_cons, hkj]
  congr 1
  induction m with
  | nil => rfl
  | cons p ps ih =>
    simp only [List.filter_cons]
    by_cases hp : (p.1 == k) = true
    · have hpk : p.1 = k := by simpa using hp
      have : (p.1 == j) = false := by simp; rw [hpk]; exact fun e => h e.symm
      simp [hp, List.find?_cons, this, ih]
    · simp only [hp, Bool.not_false, if_true, List.find?_cons]
      split
      · rfl
      · exact ih

theorem add_get (cfg : Cfg) (s s' : Store) (e : Event) (h : add cfg s e = .ok s') :
    (∀ j, j ≠ e.doc.id → s'.get j = s.get j) ∧
    ((addDid cfg (s.get e.doc.id) e = .ok none ∧ s' = s) ∨
     (addDid cfg (s.get e.doc.id) e = .ok (some (s'.get e.doc.id)))) := by
  unfold add at h
  simp only at h
  split at h
  · cases h
  · cases h
  · rename_i hn
    cases h
    exact ⟨fun _ _ => rfl, Or.inl ⟨hn, rfl⟩⟩
  · rename_i st' hs
    cases h
    refine ⟨?_, Or.inr ?_⟩
    · intro j hj
      simp only [Store.get]
      rw [alGet_alPut_other _ _ _ _ hj]
    · simp only [Store.get]
      rw [alGet_alPut_self]
      exact hs

theorem addAll_get (cfg : Cfg) :
    ∀ (l : List Event) (s s' : Store), addAll cfg s l = .ok s' →
      ∀ id, addDidAll cfg (s.get id) (l.filter (fun e => e.doc.id = id)) = .ok (s'.get id) := by
  intro l
  induction l with
  | nil => intro s s' h id; simp only [addAll, Res.ok.injEq] at h; subst h; rfl
  | cons e es ih =>
    intro s s' h id
    unfold addAll at h
    split at h
    · rename_i s1 h1
      obtain ⟨hother, hself⟩ := add_get cfg s s1 e h1
      by_cases hid : e.doc.id = id
      · subst hid
        simp only [List.filter_cons, decide_true, if_true]
        unfold addDidAll
        rcases hself with ⟨hn, rfl⟩ | hs
        · rw [hn]; exact ih _ _ h _
        · rw [hs]; exact ih _ _ h _
      · have : decide (e.doc.id = id) = false := by simpa using hid
        simp only [List.filter_cons, this, Bool.false_eq_true, if_false]
        rw [← hother id (fun x => hid x.symm)]
        exact ih _ _ h id
    · cases h
    · cases h

end Nuts.C10

namespace Nuts.C10

/-! ## merge.go: map-built lists have unique ids; sorted fields do not depend on map iteration order -/

def UniqIds (l : List Entry) : Prop := l.Pairwise (fun a b => a.id ≠ b.id)

theorem mapPut_mem {l : List Entry} {e x : Entry} (h : x ∈ mapPut l e) : x = e ∨ x ∈ l := by
  induction l with
  | nil => simp [mapPut] at h; exact Or.inl h
  | cons y ys ih =>
    unfold mapPut at h
    split at h
    · rcases List.mem_cons.mp h with rfl | h
      · exact Or.inl rfl
      · exact Or.inr (List.mem_cons_of_mem _ h)
    · rcases List.mem_cons.mp h with rfl | h
      · exact Or.inr List.mem_cons_self
      · rcases ih h with h | h
        · exact Or.inl h
        · exact Or.inr (List.mem_cons_of_mem _ h)

theorem mapPut_uniq (l : List Entry) (e : Entry) (h : UniqIds l) : UniqIds (mapPut l e) := by
  induction l with
  | nil => simp [mapPut, UniqIds]
  | cons y ys ih =>
    have hy := List.pairwise_cons.mp h
    unfold mapPut
    split
    · rename_i heq
      refine List.pairwise_cons.mpr ⟨?_, hy.2⟩
      intro z hz
      rw [← heq]; exact hy.1 z hz
    · rename_i hne
      refine List.pairwise_cons.mpr ⟨?_, ih hy.2⟩
      intro z hz
      rcases mapPut_mem hz with rfl | hz
      · exact hne
      · exact hy.1 z hz

theorem foldl_mapPut_uniq (l acc : List Entry) (h : UniqIds acc) : UniqIds (l.foldl mapPut acc) := by
  induction l generalizing acc with
  | nil => exact h
  | cons x xs ih => exact ih _ (mapPut_uniq acc x h)

theorem buildMap_uniq (l : List Entry) : UniqIds (buildMap l) :=
  foldl_mapPut_uniq l [] List.Pairwise.nil

theorem uniq_inj {l : List Entry} (h : UniqIds l) {a b : Entry} (ha : a ∈ l) (hb : b ∈ l) (hid : a.id = b.id) :
    a = b := by
  induction l with
  | nil => cases ha
  | cons y ys ih =>
    have hy := List.pairwise_cons.mp h
    rcases List.mem_cons.mp ha with rfl | ha' <;> rcases List.mem_cons.mp hb with rfl | hb'
    · rfl
    · exact absurd hid (hy.1 b hb')
    · exact absurd hid.symm (hy.1 a ha')
    · exact ih hy.2 ha' hb'

theorem entryLt_asymm (a b : Entry) (h : entryLt a b = true) : entryLt b a = false := by
  unfold entryLt at *
  have := str_lt_asymm a.id b.id (by simpa using h)
  simpa using this

theorem entryLt_trans (a b c : Entry) (h₁ : entryLt b a = false) (h₂ : entryLt c b = false) :
    entryLt c a = false := by
  unfold entryLt at *
  have := str_le_trans a.id b.id c.id (by simpa using h₁) (by simpa using h₂)
  simpa using this

theorem mergeField_sorted_indep (σ₁ σ₂ : List Entry → List Entry)
    (h₁ : ∀ l, (σ₁ l).Perm l) (h₂ : ∀ l, (σ₂ l).Perm l) (a b : List Entry) :
    mergeField σ₁ true a b = mergeField σ₂ true a b := by
  unfold mergeField
  simp only [if_true]
  apply sortBy_eq_of_perm entryLt entryLt_asymm entryLt_trans ((h₁ _).trans (h₂ _).symm)
  intro x hx y hy hxy hyx
  have hu := buildMap_uniq (a ++ b)
  apply uniq_inj hu ((h₁ _).subset hx) ((h₁ _).subset hy)
  unfold entryLt at hxy hyx
  exact str_lt_trichotomy _ _ (by simpa using hxy) (by simpa using hyx)

end Nuts.C10

namespace Nuts.C10

/-! ## global statistics (`statsShelf`): document count and conflicted count -/

def nextVersion : Option Meta → Nat
  | none => 0
  | some c => c.version + 1

theorem applyEvent_version (cfg : Cfg) (evs : List Event) (cur : Option Meta) (e : Event) (d : Doc) (m : Meta)
    (h : applyEvent cfg evs cur e = .ok (d, m)) : m.version = nextVersion cur := by
  unfold applyEvent applyDocument at h
  cases cur with
  | none => simp only [Res.ok.injEq, Prod.mk.injEq] at h; rw [← h.2]; rfl
  | some c =>
    simp only at h
    split at h
    · simp only [Res.ok.injEq, Prod.mk.injEq] at h; rw [← h.2]; rfl
    · split at h
      · simp only [Res.ok.injEq, Prod.mk.injEq] at h; rw [← h.2]; rfl
      · cases h
      · cases h

/-- the last version of a chain derived from `cur` is `nextVersion cur + length - 1` -/
theorem applyAll_last_version (cfg : Cfg) (evs : List Event) :
    ∀ (es : List Event) (cur : Option Meta) (c : List (Doc × Meta)), applyAll cfg evs cur es = .ok c →
      ∀ p, c.getLast? = some p → p.2.version + 1 = c.length + nextVersion cur := by
  intro es
  induction es with
  | nil => intro cur c h p hp; simp only [applyAll, Res.ok.injEq] at h; subst h; cases hp
  | cons e es ih =>
    intro cur c h p hp
    unfold applyAll at h
    split at h
    · rename_i d m he
      split at h
      · rename_i rest hr
        cases h
        have hv := applyEvent_version cfg evs cur e d m he
        cases rest with
        | nil =>
          simp only [List.getLast?_singleton, Option.some.injEq] at hp
          subst hp
          simp only [List.length_cons, List.length_nil]
          omega
        | cons q qs =>
          rw [List.getLast?_cons_cons] at hp
          have := ih (some m) (q :: qs) hr p hp
          simp only [List.length_cons] at this ⊢
          have hn : nextVersion (some m) = m.version + 1 := rfl
          omega
      · cases h
      · cases h
    · cases h
    · cases h

def keys (s : Store) : List String := s.dids.map (·.1)

theorem alGet_of_mem {ν} : ∀ (l : List (String × ν)) (p : String × ν), (l.map (·.1)).Nodup → p ∈ l →
    alGet l p.1 = some p.2 := by
  intro l
  induction l with
  | nil => intro p _ hp; cases hp
  | cons q qs ih =>
    intro p hn hp
    simp only [List.map_cons, List.nodup_cons] at hn
    unfold alGet
    rcases List.mem_cons.mp hp with rfl | hp'
    · simp [List.find?_cons]
    · have hne : q.1 ≠ p.1 := by
        intro heq
        exact hn.1 (heq ▸ List.mem_map.mpr ⟨p, hp', rfl⟩)
      have : (q.1 == p.1) = false := by simpa using hne
      simp only [List.find?_cons, this]
      exact ih p hn.2 hp'

theorem alGet_none_of_not_mem {ν} : ∀ (l : List (String × ν)) (k : String), k ∉ l.map (·.1) → alGet l k = none := by
  intro l
  induction l with
  | nil => intro k _; rfl
  | cons q qs ih =>
    intro k hk
    simp only [List.map_cons, List.mem_cons, not_or] at hk
    unfold alGet
    have : (q.1 == k) = false := by simp; exact fun e => hk.1 e.symm
    simp only [List.find?_cons, this]
    exact ih k hk.2

theorem alGet_some_mem {ν} : ∀ (l : List (String × ν)) (k : String) (v : ν), alGet l k = some v → (k, v) ∈ l := by
  intro l
  induction l with
  | nil => intro k v h; cases h
  | cons q qs ih =>
    intro k v h
    unfold alGet at h
    simp only [List.find?_cons] at h
    by_cases hq : (q.1 == k) = true
    · simp only [hq, Option.map_some, Option.some.injEq] at h
      have : q.1 = k := by simpa using hq
      have : q = (k, v) := by cases q; simp_all
      rw [this]; exact List.mem_cons_self
    · have hq' : (q.1 == k) = false := by simpa using hq
      simp only [hq'] at h
      exact List.mem_cons_of_mem _ (ih k v h)

/-- removing key `k` from an association list with unique keys: lengths and filtered counts -/
theorem filter_key_counts {ν} (P : ν → Bool) : ∀ (l : List (String × ν)) (k : String), (l.map (·.1)).Nodup →
    l.length = (l.filter (fun p => !(p.1 == k))).length + (if (alGet l k).isSome then 1 else 0) ∧
    (l.filter (fun p => P p.2)).length =
      ((l.filter (fun p => !(p.1 == k))).filter (fun p => P p.2)).length +
        (if (alGet l k).map P = some true then 1 else 0) := by
  intro l
  induction l with
  | nil => intro k _; simp [alGet]
  | cons q qs ih =>
    intro k hn
    simp only [List.map_cons, List.nodup_cons] at hn
    obtain ⟨ih1, ih2⟩ := ih k hn.2
    by_cases hq : (q.1 == k) = true
    · have hqk : q.1 = k := by simpa using hq
      have hnot : k ∉ qs.map (·.1) := hqk ▸ hn.1
      have hnone := alGet_none_of_not_mem qs k hnot
      have hget : alGet (q :: qs) k = some q.2 := by simp [alGet, List.find?_cons, hq]
      rw [hnone] at ih1 ih2
      simp only [Option.isSome_none, Bool.false_eq_true, if_false, Nat.add_zero, Option.map_none] at ih1 ih2
      have ih2' : (qs.filter (fun p => P p.2)).length = ((qs.filter (fun p => !(p.1 == k))).filter (fun p => P p.2)).length := by
        simpa using ih2
      simp only [hget, Option.isSome_some, if_true, List.filter_cons, hq, Bool.not_true, Bool.false_eq_true,
        if_false, List.length_cons, Option.map_some, Option.some.injEq]
      refine ⟨by omega, ?_⟩
      by_cases hP : P q.2 = true
      · simp only [hP, if_true, List.length_cons]; omega
      · simp only [hP, Bool.false_eq_true, if_false]; omega
    · have hq' : (q.1 == k) = false := by simpa using hq
      have hget : alGet (q :: qs) k = alGet qs k := by simp [alGet, List.find?_cons, hq']
      simp only [hget, List.filter_cons, hq', Bool.not_false, if_true, List.length_cons]
      refine ⟨by omega, ?_⟩
      by_cases hP : P q.2 = true
      · simp only [hP, if_true, List.length_cons]; omega
      · simp only [hP, Bool.false_eq_true, if_false]; omega

/-- store-level invariant: unique DID keys, every listed DID has events and satisfies `Inv`, and the two
    counters are what the per-DID states imply -/
structure StoreInv (cfg : Cfg) (s : Store) : Prop where
  nodup : (keys s).Nodup
  each : ∀ p ∈ s.dids, Inv cfg p.2 ∧ p.2.events ≠ []
  docs : s.documentCount = s.dids.length
  confl : s.conflictedCount = (s.dids.filter (fun p => p.2.conflicted)).length

theorem storeInv_empty (cfg : Cfg) : StoreInv cfg {} :=
  ⟨List.nodup_nil, (fun p hp => by cases hp), rfl, rfl⟩

theorem get_inv (cfg : Cfg) (s : Store) (h : StoreInv cfg s) (id : String) : Inv cfg (s.get id) := by
  unfold Store.get
  cases hg : alGet s.dids id with
  | none => exact inv_empty cfg
  | some st => exact (h.each _ (alGet_some_mem _ _ _ hg)).1

theorem keys_alPut (l : List (String × DidState)) (k : String) (v : DidState) (hn : (l.map (·.1)).Nodup) :
    ((alPut l k v).map (·.1)).Nodup := by
  unfold alPut
  simp only [List.map_cons, List.nodup_cons]
  constructor
  · intro hm
    obtain ⟨p, hp, hpk⟩ := List.mem_map.mp hm
    have := (List.mem_filter.mp hp).2
    simp [hpk] at this
  · exact List.Nodup.sublist (List.Sublist.map _ List.filter_sublist) hn

theorem add_storeInv (cfg : Cfg) (s s' : Store) (e : Event) (hs : StoreInv cfg s) (h : add cfg s e = .ok s') :
    StoreInv cfg s' := by
  unfold add at h
  simp only at h
  split at h
  · cases h
  · cases h
  · cases h; exact hs
  · rename_i st' hadd
    cases h
    have hinv := get_inv cfg s hs e.doc.id
    obtain ⟨hinv', hperm⟩ := addDid_inv cfg (s.get e.doc.id) e hinv st' hadd
    obtain ⟨hlen, hcnt⟩ := filter_key_counts (fun st : DidState => st.conflicted) s.dids e.doc.id hs.nodup
    have hne' : st'.events ≠ [] := by
      intro hnil; have := hperm.length_eq; rw [hnil] at this; simp at this
    -- chain length = event count, last version = length - 1
    have hchainlen : st'.chain.length = st'.events.length := applyAll_length hinv'.chain
    have hevlen : st'.events.length = (s.get e.doc.id).events.length + 1 := by
      rw [hperm.length_eq]; simp
    refine ⟨?_, ?_, ?_, ?_⟩
    · exact keys_alPut _ _ _ hs.nodup
    · intro p hp
      unfold alPut at hp
      rcases List.mem_cons.mp hp with rfl | hp
      · exact ⟨hinv', hne'⟩
      · exact hs.each p (List.mem_filter.mp hp).1
    · -- document count
      simp only [alPut, List.length_cons]
      cases hlast : st'.chain.getLast? with
      | none =>
        exfalso
        have : st'.chain = [] := List.getLast?_eq_none_iff.mp hlast
        rw [this] at hchainlen; simp at hchainlen
        exact hne' (List.eq_nil_of_length_eq_zero hchainlen.symm)
      | some p =>
        have hv := applyAll_last_version cfg st'.events st'.events none st'.chain hinv'.chain p hlast
        simp only [nextVersion, Nat.add_zero] at hv
        cases hg : alGet s.dids e.doc.id with
        | none =>
          have hst : s.get e.doc.id = {} := by simp [Store.get, hg]
          rw [hst] at hevlen
          simp only [hg, Option.isSome_none, Bool.false_eq_true, if_false, Nat.add_zero] at hlen
          have : p.2.version = 0 := by
            have : st'.events.length = 1 := by simpa using hevlen
            omega
          simp only [this, if_true]
          rw [hs.docs]; omega
        | some st =>
          have hst : s.get e.doc.id = st := by simp [Store.get, hg]
          have hne : st.events ≠ [] := (hs.each _ (alGet_some_mem _ _ _ hg)).2
          have hpos : 0 < st.events.length := List.length_pos_iff.mpr hne
          rw [hst] at hevlen
          simp only [hg, Option.isSome_some, if_true] at hlen
          have : p.2.version ≠ 0 := by omega
          simp only [this, if_false]
          rw [hs.docs]; omega
    · -- conflicted count
      simp only [alPut, List.filter_cons]
      have hwas : (s.get e.doc.id).conflicted = true ↔ (alGet s.dids e.doc.id).map (fun st : DidState => st.conflicted) = some true := by
        unfold Store.get
        cases alGet s.dids e.doc.id with
        | none => simp
        | some st => simp
      rw [hs.confl, hcnt]
      by_cases hnow : st'.conflicted = true <;> by_cases hw : (s.get e.doc.id).conflicted = true
      · simp only [hnow, hw, if_true, List.length_cons, (hwas.mp hw)]
      · have : ¬ ((alGet s.dids e.doc.id).map (fun st : DidState => st.conflicted) = some true) := fun x => hw (hwas.mpr x)
        simp only [hnow, hw, if_true, Bool.false_eq_true, if_false, List.length_cons, this, Nat.add_zero]
      · simp only [hnow, hw, if_true, Bool.false_eq_true, if_false, (hwas.mp hw)]; omega
      · have : ¬ ((alGet s.dids e.doc.id).map (fun st : DidState => st.conflicted) = some true) := fun x => hw (hwas.mpr x)
        simp only [hnow, hw, Bool.false_eq_true, if_false, this, Nat.add_zero]

theorem addAll_storeInv (cfg : Cfg) : ∀ (l : List Event) (s s' : Store), StoreInv cfg s → addAll cfg s l = .ok s' →
    StoreInv cfg s' := by
  intro l
  induction l with
  | nil => intro s s' hs h; simp only [addAll, Res.ok.injEq] at h; subst h; exact hs
  | cons e es ih =>
    intro s s' hs h
    unfold addAll at h
    split at h
    · rename_i s1 h1
      exact ih s1 s' (add_storeInv cfg s s1 e hs h1) h
    · cases h
    · cases h

/-- under the invariant, a DID is listed iff its state has events -/
theorem mem_keys_iff (cfg : Cfg) (s : Store) (hs : StoreInv cfg s) (k : String) :
    k ∈ keys s ↔ (s.get k).events ≠ [] := by
  unfold Store.get
  constructor
  · intro hk
    obtain ⟨p, hp, rfl⟩ := List.mem_map.mp hk
    rw [alGet_of_mem s.dids p hs.nodup hp]
    exact (hs.each p hp).2
  · intro hne
    apply Classical.byContradiction
    intro hk
    rw [alGet_none_of_not_mem s.dids k hk] at hne
    exact hne rfl

end Nuts.C10

namespace Nuts.C10

def conflKeys (s : Store) : List String := (s.dids.filter (fun p => p.2.conflicted)).map (·.1)

theorem conflKeys_nodup (cfg : Cfg) (s : Store) (hs : StoreInv cfg s) : (conflKeys s).Nodup :=
  List.Nodup.sublist (List.Sublist.map _ List.filter_sublist) hs.nodup

theorem mem_conflKeys_iff (cfg : Cfg) (s : Store) (hs : StoreInv cfg s) (k : String) :
    k ∈ conflKeys s ↔ (k ∈ keys s ∧ (s.get k).conflicted = true) := by
  unfold conflKeys
  constructor
  · intro hk
    obtain ⟨p, hp, rfl⟩ := List.mem_map.mp hk
    obtain ⟨hp1, hp2⟩ := List.mem_filter.mp hp
    refine ⟨List.mem_map.mpr ⟨p, hp1, rfl⟩, ?_⟩
    unfold Store.get
    rw [alGet_of_mem s.dids p hs.nodup hp1]
    exact hp2
  · rintro ⟨hk, hc⟩
    obtain ⟨p, hp, rfl⟩ := List.mem_map.mp hk
    apply List.mem_map.mpr
    refine ⟨p, List.mem_filter.mpr ⟨hp, ?_⟩, rfl⟩
    unfold Store.get at hc
    rw [alGet_of_mem s.dids p hs.nodup hp] at hc
    exact hc

/-- the counters are determined by the per-DID states -/
theorem counts_determined (cfg₁ cfg₂ : Cfg) (s₁ s₂ : Store) (h₁ : StoreInv cfg₁ s₁) (h₂ : StoreInv cfg₂ s₂)
    (hget : ∀ k, s₁.get k = s₂.get k) :
    s₁.documentCount = s₂.documentCount ∧ s₁.conflictedCount = s₂.conflictedCount := by
  constructor
  · rw [h₁.docs, h₂.docs]
    have hp : (keys s₁).Perm (keys s₂) := by
      apply (List.perm_ext_iff_of_nodup h₁.nodup h₂.nodup).mpr
      intro k
      rw [mem_keys_iff cfg₁ s₁ h₁ k, mem_keys_iff cfg₂ s₂ h₂ k, hget k]
    have := hp.length_eq
    simpa [keys] using this
  · rw [h₁.confl, h₂.confl]
    have hp : (conflKeys s₁).Perm (conflKeys s₂) := by
      apply (List.perm_ext_iff_of_nodup (conflKeys_nodup cfg₁ s₁ h₁) (conflKeys_nodup cfg₂ s₂ h₂)).mpr
      intro k
      rw [mem_conflKeys_iff cfg₁ s₁ h₁ k, mem_conflKeys_iff cfg₂ s₂ h₂ k,
        mem_keys_iff cfg₁ s₁ h₁ k, mem_keys_iff cfg₂ s₂ h₂ k, hget k]
    have := hp.length_eq
    simpa [conflKeys] using this

end Nuts.C10
