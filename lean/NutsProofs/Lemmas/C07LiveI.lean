/-
  C07 liveness lemmas, part I: the State / TransactionSet fallback chain.
-/
import NutsModel.C07.Round
import NutsProofs.Lemmas.C07
import NutsProofs.Lemmas.C07LiveH
open Nuts.Proto Nuts Nuts.Proto.L

namespace Nuts.Proto.Live

/-! ### Part I: the State / TransactionSet fallback chain -/

/-- what a pull leaves behind, in terms of the DAGs `A` (puller, before) and `B` (server): a valid DAG between `A`
    and `A ∪ B`, and either something new or the knowledge `StuckAt` -/
def Result (cfg : Cfg) (A B : List Tx) (q : Nat) (a' : Node) : Prop :=
  DagOK a'.dag ∧ (∀ t ∈ A, t ∈ a'.dag) ∧ (∀ t ∈ a'.dag, t ∈ A ∨ t ∈ B) ∧
  ((∃ t ∈ a'.dag, t ∉ A) ∨ StuckAt cfg A B q)

theorem div_pred_page (ps q : Nat) (hps : 0 < ps) (hq : 1 ≤ q) : (q * ps - 1) / ps = q - 1 := by
  have h1 : q * ps - 1 = (q - 1) * ps + (ps - 1) := by
    have : q * ps = (q - 1) * ps + ps := by
      have : q = (q - 1) + 1 := by omega
      rw [this, Nat.add_mul]; simp
    omega
  rw [h1, Nat.add_comm, Nat.add_mul_div_right _ _ hps]
  have : (ps - 1) / ps = 0 := Nat.div_eq_of_lt (by omega)
  omega

theorem pg_le_of_clock_lt (cfg : Cfg) (hps : 0 < cfg.pageSize) (t : Tx) (k : Nat) (h : t.clock < (k + 1) * cfg.pageSize) : pg cfg t ≤ k := by
  unfold pg pageOf
  have := (Nat.div_lt_iff_lt_mul hps).mpr h
  omega

theorem clock_lt_of_pg_le (cfg : Cfg) (hps : 0 < cfg.pageSize) (t : Tx) (k : Nat) (h : pg cfg t ≤ k) : t.clock < (k + 1) * cfg.pageSize := by
  unfold pg pageOf at h
  have : t.clock / cfg.pageSize < k + 1 := by omega
  exact (Nat.div_lt_iff_lt_mul hps).mp this

theorem clock_ge_of_pg_ge (cfg : Cfg) (hps : 0 < cfg.pageSize) (t : Tx) (k : Nat) (h : k ≤ pg cfg t) : k * cfg.pageSize ≤ t.clock := by
  unfold pg pageOf at h
  exact (Nat.le_div_iff_mul_le hps).mp h

/-- **the fallback chain**: `a` holds exactly the `State` conversation for `lcq` and its request is in flight; the two
    nodes keep exchanging (State → TransactionSet → previous-page State … → list or range query → lists) and end
    with `Result` for the page `q` the first comparison was made at -/
theorem chain {cfg : Cfg} {env : Env} (H : Hyp cfg env) (b : Node) (hB : DagOK b.dag) (hpb : PayloadsOK b) (pA pB : Peer) :
    ∀ (q : Nat) (a : Node) (c : Conv) (lcq : Nat), pageOf cfg (Nat.min (lcOf b.dag) lcq) = q →
      DagOK a.dag → RefFun a.dag b.dag → RootIn a.dag b.dag → xorOf b.dag ≠ xorOf a.dag →
      a.convs = [c] → c.data = .state lcq →
      ∀ fuel, q + 2 ≤ fuel →
        ∃ a', pingPong cfg env pA pB fuel a b [.state c.cid (xorOf a.dag) lcq] = (a', b) ∧ Result cfg a.dag b.dag q a' := by
  intro q
  induction q using Nat.strongRecOn with
  | _ q ih =>
    intro a c lcq hq ha hf hroot hx hc hd fuel hfuel
    have hps := H.ps
    obtain ⟨f, rfl⟩ : ∃ f, fuel = f + 2 := ⟨fuel - 2, by omega⟩
    -- b answers the state request with its transaction set
    have hxb : (xorOf b.dag == xorOf a.dag) = false := by simpa using hx
    rw [show f + 2 = (f + 1) + 1 from rfl, pingPong_step _ _ _ _ _ _ _ _ (by simp), serve_state, hxb]
    simp only [Bool.false_eq_true, if_false]
    rw [absorb_single]
    obtain ⟨hdone, heval⟩ := set_eval cfg env a pB c c.cid lcq (lcOf b.dag) (.ofSet (ibltSet cfg b.dag lcq)) hc rfl hd
    rw [heval]
    -- the sets that were compared
    have hloc : ∀ r, r ∈ ibltSet cfg a.dag (Nat.min (lcOf b.dag) lcq) ↔ UpTo cfg a.dag q r := by
      intro r; rw [ibltSet_local, hq]
    have hpeer : ∀ r, r ∈ ibltSet cfg b.dag lcq ↔ UpTo cfg b.dag q r := by
      intro r; rw [ibltSet_peer, hq]
    have hbq : ∀ t ∈ b.dag, pg cfg t ≤ q → UpTo cfg b.dag q t.ref := fun t ht hp => ⟨t, ht, rfl, hp⟩
    let n1 := convDone a c.cid
    have hn1dag : n1.dag = a.dag := rfl
    cases hdec : env.decode (ibltSet cfg a.dag (Nat.min (lcOf b.dag) lcq)) (.ofSet (ibltSet cfg b.dag lcq)) with
    | err => exact absurd hdec (H.dc.noerr _ _ (ibltSet_nodup ha _) (ibltSet_nodup hB _))
    | fail =>
      simp only
      have hdiff : ¬ SameUpTo cfg a.dag b.dag q := by
        intro hs
        obtain ⟨m, hm⟩ := H.dc.empty (ibltSet cfg a.dag (Nat.min (lcOf b.dag) lcq)) (ibltSet cfg b.dag lcq) (ibltSet_nodup ha _) (ibltSet_nodup hB _) (fun r => by rw [hloc, hpeer]; exact hs r)
        rw [hm] at hdec; cases hdec
      by_cases hfirst : Nat.min (lcOf b.dag) lcq < cfg.pageSize
      · -- first page does not decode: ask for the first page
        simp only [hfirst, if_true]
        have hq0 : q = 0 := by rw [← hq]; exact Nat.div_eq_of_lt hfirst
        obtain ⟨ho, hcv, hdg, _, _, _⟩ := sendRequest_empty cfg n1 hdone pB.key (.rangeQuery 0 cfg.pageSize) (fun cid => .rangeQuery cid 0 cfg.pageSize)
        unfold sendRangeQuery
        rw [ho, toPeer_single _ _ rfl]
        obtain ⟨a2, hpp, g1, g2, g3, g4⟩ := finish_range H b hB hpb pA pB _ _ 0 cfg.pageSize (by omega)
          (by rw [hdg]; exact ha) (by rw [hdg]; exact hf) (by rw [hdg]; exact hroot) hcv rfl (fun t _ h => by omega) f
        refine ⟨a2, hpp, g1, fun t ht => g2 t (by rw [hdg]; exact ht), fun t ht => by rw [hdg] at g3; exact g3 t ht, ?_⟩
        by_cases hprog : ∃ t ∈ a2.dag, t ∉ a.dag
        · exact Or.inl hprog
        · refine Or.inr ⟨0, by omega, ?_, ?_⟩
          · intro t ht hp
            have hclk := clock_lt_of_pg_le cfg hps t 0 hp
            have := g4 t ht (by omega) (by omega)
            apply Classical.byContradiction
            intro hn; exact hprog ⟨t, this, hn⟩
          · intro q' h1 h2
            have : q' = q := by omega
            rw [this]; exact hdiff
      · -- ask for the state of the previous page
        simp only [hfirst, if_false]
        have hq1 : 1 ≤ q := by
          rw [← hq]; exact (Nat.le_div_iff_mul_le hps).mpr (by omega)
        have hss := sendState_free cfg n1 H.bs pB.key (xorOf a.dag) (pageStart cfg (pageOf cfg (Nat.min (lcOf b.dag) lcq)) - 1)
        rw [hss]
        simp only
        rw [toPeer_single _ _ rfl]
        -- the next request is for the last clock of page q - 1
        have hlcq' : pageStart cfg (pageOf cfg (Nat.min (lcOf b.dag) lcq)) - 1 = q * cfg.pageSize - 1 := by rw [hq]; rfl
        have hmin : Nat.min (lcOf b.dag) (q * cfg.pageSize - 1) = q * cfg.pageSize - 1 := by
          apply Nat.min_eq_right
          have h1 : q * cfg.pageSize ≤ Nat.min (lcOf b.dag) lcq := by rw [← hq]; exact Nat.div_mul_le_self _ _
          have h2 : Nat.min (lcOf b.dag) lcq ≤ lcOf b.dag := Nat.min_le_left _ _
          omega
        have hpage : pageOf cfg (Nat.min (lcOf b.dag) (q * cfg.pageSize - 1)) = q - 1 := by
          rw [hmin]; exact div_pred_page cfg.pageSize q hps hq1
        rw [hlcq']
        obtain ⟨a', hpp, g1, g2, g3, g4⟩ := ih (q - 1) (by omega)
          { n1 with nextCid := n1.nextCid + 1,
                    convs := { cid := (n1.id, n1.nextCid), expiry := n1.now + cfg.validity, data := .state (q * cfg.pageSize - 1) } :: n1.convs }
          { cid := (n1.id, n1.nextCid), expiry := n1.now + cfg.validity, data := .state (q * cfg.pageSize - 1) }
          (q * cfg.pageSize - 1) hpage ha hf hroot hx (by show _ :: (convDone a c.cid).convs = _; rw [hdone]) rfl (f + 1) (by omega)
        refine ⟨a', hpp, g1, g2, g3, ?_⟩
        rcases g4 with hprog | ⟨k, hk, hsub, hhigh⟩
        · exact Or.inl hprog
        · refine Or.inr ⟨k, by omega, hsub, fun q' h1 h2 => ?_⟩
          by_cases hq' : q' = q
          · rw [hq']; exact hdiff
          · exact hhigh q' h1 (by omega)
    | ok missing =>
      simp only
      have hex := H.dc.exact _ _ _ (ibltSet_nodup ha _) (ibltSet_nodup hB _) hdec
      have hmiss : ∀ r, r ∈ missing ↔ (UpTo cfg b.dag q r ∧ ¬ UpTo cfg a.dag q r) := by
        intro r; rw [hex r, hpeer, hloc]
      by_cases hm : missing = []
      · -- nothing missing up to page q: everything of b up to page q is in a
        have hsubq : ∀ t ∈ b.dag, pg cfg t ≤ q → t ∈ a.dag := by
          intro t ht hp
          have hnot : t.ref ∉ missing := by rw [hm]; simp
          rw [hmiss] at hnot
          have hup : UpTo cfg a.dag q t.ref := by
            apply Classical.byContradiction
            intro hn; exact hnot ⟨hbq t ht hp, hn⟩
          obtain ⟨t', ht', hr, _⟩ := hup
          rw [← hf t' (Or.inl ht') t (Or.inr ht) hr]; exact ht'
        simp only [hm, List.isEmpty_nil, Bool.not_true, Bool.false_eq_true, if_false]
        by_cases hmore : pageOf cfg (lcOf b.dag) > pageOf cfg lcq
        · -- b has further pages: ask for the next one (or two)
          simp only [hmore, if_true]
          have hlt : lcq < lcOf b.dag := by
            apply Classical.byContradiction
            intro hn
            have := pageOf_mono cfg (show lcOf b.dag ≤ lcq by omega)
            omega
          have hqq : pageOf cfg lcq = q := by
            have : Nat.min (lcOf b.dag) lcq = lcq := Nat.min_eq_right (by omega)
            rw [← hq, this]
          have range_case : ∀ (e : Nat), (q + 1) * cfg.pageSize + cfg.pageSize ≤ e →
              ∃ a', pingPong cfg env pA pB (f + 1) (sendRangeQuery cfg n1 pB.key ((q + 1) * cfg.pageSize) e).node b
                  (toPeer pB.key (sendRangeQuery cfg n1 pB.key ((q + 1) * cfg.pageSize) e).out) = (a', b) ∧
                Result cfg a.dag b.dag q a' := by
            intro e he
            obtain ⟨ho, hcv, hdg, _, _, _⟩ := sendRequest_empty cfg n1 hdone pB.key (.rangeQuery ((q + 1) * cfg.pageSize) e)
              (fun cid => .rangeQuery cid ((q + 1) * cfg.pageSize) e)
            unfold sendRangeQuery
            rw [ho, toPeer_single _ _ rfl]
            obtain ⟨a2, hpp, g1, g2, g3, g4⟩ := finish_range H b hB hpb pA pB _ _ ((q + 1) * cfg.pageSize) e he
              (by rw [hdg]; exact ha) (by rw [hdg]; exact hf) (by rw [hdg]; exact hroot) hcv rfl
              (fun t ht h => by rw [hdg]; exact hsubq t ht (pg_le_of_clock_lt cfg hps t q h)) f
            refine ⟨a2, hpp, g1, fun t ht => g2 t (by rw [hdg]; exact ht), fun t ht => by rw [hdg] at g3; exact g3 t ht, ?_⟩
            by_cases hprog : ∃ t ∈ a2.dag, t ∉ a.dag
            · exact Or.inl hprog
            · refine Or.inr ⟨q + 1, by omega, ?_, fun q' h1 h2 => by omega⟩
              intro t ht hp
              by_cases hpq : pg cfg t ≤ q
              · exact hsubq t ht hpq
              · have h1 := clock_ge_of_pg_ge cfg hps t (q + 1) (by omega)
                have h2 := clock_lt_of_pg_le cfg hps t (q + 1) hp
                have := g4 t ht h1 (by
                  have : (q + 1 + 1) * cfg.pageSize = (q + 1) * cfg.pageSize + cfg.pageSize := by rw [Nat.add_mul]; simp
                  omega)
                apply Classical.byContradiction
                intro hn; exact hprog ⟨t, this, hn⟩
          rw [hqq]
          by_cases hloc2 : pageOf cfg (lcOf a.dag) > q
          · simp only [hloc2, if_true, H.n1]
            have := range_case (pageStart cfg (q + 2)) (by
              unfold pageStart
              have : (q + 2) * cfg.pageSize = (q + 1) * cfg.pageSize + cfg.pageSize := by
                rw [show q + 2 = (q + 1) + 1 from rfl, Nat.add_mul]; simp
              omega)
            exact this
          · simp only [hloc2, if_false, H.n2]
            have := range_case (pageStart cfg (q + 3)) (by
              unfold pageStart
              have : (q + 3) * cfg.pageSize = (q + 1) * cfg.pageSize + cfg.pageSize + cfg.pageSize := by
                rw [show q + 3 = ((q + 1) + 1) + 1 from rfl, Nat.add_mul, Nat.add_mul]; simp
              omega)
            exact this
        · -- b is not ahead: nothing to ask for; b ⊆ a
          simp only [hmore, if_false]
          rw [show toPeer pB.key ([] : Out) = [] from rfl, pingPong_nil]
          refine ⟨n1, rfl, ha, fun t ht => ht, fun t ht => Or.inl ht, Or.inr ⟨q + 1, by omega, ?_, fun q' h1 h2 => by omega⟩⟩
          intro t ht _
          apply hsubq t ht
          have h1 := pageOf_mono cfg (lcOf_ge b.dag t ht)
          show pageOf cfg t.clock ≤ q
          rw [← hq]
          by_cases hle : lcOf b.dag ≤ lcq
          · have : Nat.min (lcOf b.dag) lcq = lcOf b.dag := Nat.min_eq_left hle
            rw [this]; exact h1
          · have : Nat.min (lcOf b.dag) lcq = lcq := Nat.min_eq_right (by omega)
            rw [this]; omega
      · -- something decoded: ask for exactly those
        have hne : (!missing.isEmpty) = true := by
          cases missing with
          | nil => exact absurd rfl hm
          | cons _ _ => rfl
        simp only [hne, if_true]
        obtain ⟨ho, hcv, hdg, _, _, _⟩ := sendRequest_empty cfg n1 hdone pB.key (.listQuery missing) (fun cid => .listQuery cid missing)
        unfold sendListQuery
        rw [ho, toPeer_single _ _ rfl]
        have hclosed : ∀ t ∈ b.dag, t.ref ∈ missing → ∀ p ∈ t.prevs,
            present (sendRequest cfg n1 pB.key (.listQuery missing) (fun cid => .listQuery cid missing)).node.dag p = true ∨ p ∈ missing := by
          intro t ht hr p hp
          rw [hdg]
          by_cases hpres : present a.dag p = true
          · exact Or.inl hpres
          · right
            obtain ⟨tb, htb, hrb, hclk⟩ := dagOK_prev hB ht hp
            obtain ⟨⟨t2, ht2, hr2, hp2⟩, _⟩ := (hmiss t.ref).mp hr
            have : t2 = t := dagOK_unique hB t2 ht2 t ht hr2
            subst this
            rw [hmiss]
            refine ⟨⟨tb, htb, hrb, ?_⟩, ?_⟩
            · unfold pg at hp2 ⊢
              exact Nat.le_trans (pageOf_mono cfg (by omega)) hp2
            · rintro ⟨ta, hta, hra, _⟩
              exact hpres (present_iff.mpr ⟨ta, hta, hra⟩)
        obtain ⟨a2, hpp, g1, g2, g3, g4⟩ := finish_list H b hB hpb pA pB _ _ missing hm
          (by rw [hdg]; exact ha) (by rw [hdg]; exact hf) (by rw [hdg]; exact hroot) hcv rfl hclosed f
        refine ⟨a2, hpp, g1, fun t ht => g2 t (by rw [hdg]; exact ht), fun t ht => by rw [hdg] at g3; exact g3 t ht, Or.inl ?_⟩
        -- progress: a missing ref is a transaction of b that a did not have
        obtain ⟨r, hr⟩ : ∃ r, r ∈ missing := by
          cases missing with
          | nil => exact absurd rfl hm
          | cons x _ => exact ⟨x, List.mem_cons_self⟩
        obtain ⟨⟨t, ht, hrt, hpt⟩, hna⟩ := (hmiss r).mp hr
        refine ⟨t, g4 t ht (by rw [hrt]; exact hr), fun hin => hna ⟨t, hin, hrt, hpt⟩⟩

end Nuts.Proto.Live
