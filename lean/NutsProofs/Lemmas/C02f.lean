/-
  C02 — invariant of the session stores over all request sequences at the public endpoints (NutsModel/C02/Front.lean):
  any property of sessions that holds when the authorization endpoint creates one and does not depend on the
  `consumer` bookkeeping holds for every session in the client-state store and in the code store, forever.
-/
import NutsModel.C02.Front
import NutsProofs.Lemmas.C02c
import NutsProofs.Lemmas.C02d

namespace Nuts.C02

def AllVals {α : Type} (P : α → Prop) (s : Store α) : Prop := ∀ e ∈ s, P e.val

theorem allVals_del {α : Type} (P : α → Prop) (s : Store α) (k : String) (h : AllVals P s) : AllVals P (s.del k) := by
  intro e he
  unfold Store.del at he
  exact h e (List.mem_filter.mp he).1

theorem allVals_put {α : Type} (P : α → Prop) (s : Store α) (now ttl : Nat) (k : String) (v : α) (h : AllVals P s)
    (hv : P v) : AllVals P (s.put now ttl k v) := by
  unfold Store.put
  split
  · exact h
  · intro e he
    rcases List.mem_cons.mp he with rfl | he
    · exact hv
    · exact allVals_del P s k h e he

theorem find_mem {α : Type} (s : Store α) (k : String) (e : Entry α) (h : s.find k = some e) : e ∈ s := by
  induction s with
  | nil => unfold Store.find at h; cases h
  | cons x rest ih =>
    unfold Store.find at h
    split at h
    · simp only [Option.some.injEq] at h; subst h; exact List.mem_cons_self
    · exact List.mem_cons_of_mem _ (ih h)

theorem allVals_get {α : Type} (P : α → Prop) (s : Store α) (now : Nat) (k : String) (v : α) (h : AllVals P s)
    (hg : s.get now k = some v) : P v := by
  unfold Store.get at hg
  split at hg
  · rename_i e hf
    split at hg
    · simp only [Option.some.injEq] at hg; subst hg; exact h e (find_mem s k e hf)
    · cases hg
  · cases hg

theorem allVals_gad {α : Type} (P : α → Prop) (s : Store α) (now : Nat) (k : String) (h : AllVals P s) :
    AllVals P (s.getAndDelete now k).2 := by
  unfold Store.getAndDelete
  split
  · exact allVals_del P s k h
  · exact h

/-- both stores that hold authorization-code sessions -/
def SessOK (P : Session → Prop) (w : World) : Prop := AllVals P w.states ∧ AllVals P w.codes

theorem createAccessToken_sess (cfg : Cfg) (w : World) (now : Nat) (issuer clientId scope : String) (c : Consumer)
    (dpop : Option DPoP) :
    (createAccessToken cfg w now issuer clientId scope c dpop).1.states = w.states ∧
    (createAccessToken cfg w now issuer clientId scope c dpop).1.codes = w.codes := by
  unfold createAccessToken
  split <;> exact ⟨rfl, rfl⟩

theorem issueS2S_sess (cfg : Cfg) (w : World) (t : Nat) (r : S2SReq) :
    (issueS2S cfg w t r).1.states = w.states ∧ (issueS2S cfg w t r).1.codes = w.codes := by
  unfold issueS2S
  repeat' (first
    | exact ⟨rfl, rfl⟩
    | exact createAccessToken_sess _ _ _ _ _ _ _ _
    | split
    | simp only)

theorem issueCode_sess (P : Session → Prop) (cfg : Cfg) (sha : String → String) (w : World) (t : Nat) (r : CodeReq)
    (h : SessOK P w) : SessOK P (issueCode cfg sha w t r).1 := by
  unfold issueCode
  split
  · exact h
  · split
    · exact h
    · rename_i code _
      split
      · exact ⟨h.1, allVals_del P _ _ h.2⟩
      · split
        · exact ⟨h.1, allVals_del P _ _ h.2⟩
        · have hgad := allVals_gad P w.codes t code h.2
          split
          · rename_i cs hg
            rw [hg] at hgad
            exact ⟨h.1, allVals_del P _ _ hgad⟩
          · rename_i session cs hg
            rw [hg] at hgad
            have hw1 : SessOK P ({ ({ w with codes := cs } : World) with codes := cs.del code }) :=
              ⟨h.1, allVals_del P _ _ hgad⟩
            simp only
            split
            · exact hw1
            · split
              · exact hw1
              · split
                · exact hw1
                · exact hw1
                · split <;>
                  · rename_i w2 _ hc
                    have hw2 := congrArg Prod.fst hc
                    simp only at hw2
                    subst hw2
                    refine ⟨?_, ?_⟩
                    · rw [(createAccessToken_sess _ _ _ _ _ _ _ _).1]; exact hw1.1
                    · rw [(createAccessToken_sess _ _ _ _ _ _ _ _).2]; exact hw1.2

theorem authorizeResponse_sess (P : Session → Prop) (hP : ∀ (s : Session) (c : Consumer), P s → P { s with consumer := c })
    (cfg : Cfg) (w : World) (t : Nat) (r : AuthResp) (h : SessOK P w) : SessOK P (authorizeResponse cfg w t r).1 := by
  unfold authorizeResponse
  split
  · exact h
  · rename_i state _
    split
    · exact h
    · split
      · exact h
      · split
        · exact h
        · rename_i session hget
          have hs : P session := allVals_get P w.states t state session h.1 hget
          split
          · exact h
          · simp only
            repeat' (first
              | exact h
              | exact ⟨allVals_put P _ _ _ _ _ h.1 (hP _ _ hs), h.2⟩
              | exact ⟨allVals_put P _ _ _ _ _ h.1 (hP _ _ hs), allVals_put P _ _ _ _ _ h.2 (hP _ _ hs)⟩
              | split)

/-- what the authorization endpoint does to the session stores, for EVERY outcome (errors and the panic included):
    nothing, or one new session in the client-state store - and then the request object was accepted, names the `code`
    response type, is addressed to this tenant and carries an S256 challenge; the session is built from its signed
    parameters -/
theorem authorizeEndpoint_sess (cfg : Cfg) (enabled : Bool) (env : JarEnv) (w : World) (t : Nat) (r : AuthzHttp) :
    (authorizeEndpoint cfg enabled env w t r).1.codes = w.codes ∧
    ((authorizeEndpoint cfg enabled env w t r).1.states = w.states ∨
     ∃ p defs state, enabled = true ∧ r.subject ∈ cfg.subjects ∧ JarAccepted env r.query p ∧
       pget p "response_type" = "code" ∧ pget p "aud" = cfg.issuerURL r.subject ∧ pget p "code_challenge" ≠ "" ∧
       pget p "code_challenge_method" = "S256" ∧ cfg.definitions (pget p "scope") = some defs ∧
       (authorizeEndpoint cfg enabled env w t r).1.states = w.states.put t cfg.stateTtl state
         { clientId := r.query.clientId, scope := pget p "scope", ownSubject := r.subject,
           challenge := pget p "code_challenge", method := "S256", clientState := pget p "state",
           consumer := ⟨defs, [], [], 0⟩ }) := by
  unfold authorizeEndpoint
  split
  · exact ⟨rfl, .inl rfl⟩
  · rename_i hen
    split
    · exact ⟨rfl, .inl rfl⟩
    · rename_i hsub
      split
      · exact ⟨rfl, .inl rfl⟩
      · exact ⟨rfl, .inl rfl⟩
      · rename_i cs p hjar
        have hacc := jarParse_ok env r.query cs p hjar
        have hcid : pget p "client_id" = r.query.clientId := by
          obtain ⟨_, _, _, _, _, _, hc, _⟩ := hacc
          exact hc
        have hen' : enabled = true := by cases enabled <;> simp_all
        simp only
        unfold authorizeDispatch
        split
        · rename_i hrt
          unfold authorizeRequest
          simp only [toAuthReq, hcid]
          split
          · exact ⟨rfl, .inl rfl⟩
          · split
            · exact ⟨rfl, .inl rfl⟩
            · rename_i haud
              split
              · exact ⟨rfl, .inl rfl⟩
              · rename_i hch
                split
                · exact ⟨rfl, .inl rfl⟩
                · rename_i hm
                  have hm' : pget p "code_challenge_method" = "S256" := by
                    by_cases hx : pget p "code_challenge_method" = "S256"
                    · exact hx
                    · exact absurd (Or.inr hx) hm
                  split
                  · exact ⟨rfl, .inl rfl⟩
                  · rename_i defs hdefs
                    split <;>
                    · refine ⟨rfl, .inr ⟨p, defs, stateName w.nextState, hen', Decidable.not_not.mp hsub, hacc, hrt,
                        Decidable.not_not.mp haud, hch, hm', hdefs, ?_⟩⟩
                      first
                        | rfl
                        | (rw [hm'])
                        | (simp only [hm']; done)
        · split
          · split <;> exact ⟨rfl, .inl rfl⟩
          · exact ⟨rfl, .inl rfl⟩

/-- the invariant: one request at a public endpoint -/
theorem serve_sess (P : Session → Prop) (hP : ∀ (s : Session) (c : Consumer), P s → P { s with consumer := c })
    (cfg : Cfg) (n : GrantNames) (sha : String → String) (w : World) (t : Nat) (q : Req) (h : SessOK P w)
    (hnew : ∀ en env r p defs, q = .authz en env r → en = true → r.subject ∈ cfg.subjects → JarAccepted env r.query p →
      pget p "response_type" = "code" → pget p "aud" = cfg.issuerURL r.subject → pget p "code_challenge" ≠ "" →
      pget p "code_challenge_method" = "S256" → cfg.definitions (pget p "scope") = some defs →
      P { clientId := r.query.clientId, scope := pget p "scope", ownSubject := r.subject,
          challenge := pget p "code_challenge", method := "S256", clientState := pget p "state",
          consumer := ⟨defs, [], [], 0⟩ }) :
    SessOK P (serve cfg n sha w t q) := by
  cases q with
  | authz en env r =>
    obtain ⟨hc, hs⟩ := authorizeEndpoint_sess cfg en env w t r
    show SessOK P (authorizeEndpoint cfg en env w t r).1
    refine ⟨?_, by rw [hc]; exact h.2⟩
    rcases hs with hs | ⟨p, defs, state, h1, h2, h3, h4, h5, h6, h7, h8, hs⟩
    · rw [hs]; exact h.1
    · rw [hs]; exact allVals_put P _ _ _ _ _ h.1 (hnew en env r p defs rfl h1 h2 h3 h4 h5 h6 h7 h8)
  | authresp r =>
    show SessOK P (authorizeResponse cfg w t r).1
    exact authorizeResponse_sess P hP cfg w t r h
  | token s g a c =>
    show SessOK P (tokenEndpoint cfg n sha w t s g a c).1
    unfold tokenEndpoint
    split
    · exact h
    · split
      · exact issueCode_sess P cfg sha w t _ h
      · exact h
      · obtain ⟨h1, h2⟩ := issueS2S_sess cfg w t { a with subject := s }
        exact ⟨by rw [h1]; exact h.1, by rw [h2]; exact h.2⟩
      · exact h

/-- a session that stems from a signed authorization request of the history `h` which the authorization endpoint accepted -/
def FromSignedRequest (cfg : Cfg) (h : List (Nat × Req)) (s : Session) : Prop :=
  ∃ t env r p, (t, Req.authz true env r) ∈ h ∧ r.subject ∈ cfg.subjects ∧ JarAccepted env r.query p ∧
    pget p "response_type" = "code" ∧ pget p "aud" = cfg.issuerURL r.subject ∧
    s.clientId = r.query.clientId ∧ s.ownSubject = r.subject ∧ s.scope = pget p "scope" ∧
    s.challenge = pget p "code_challenge" ∧ s.challenge ≠ "" ∧ s.method = "S256" ∧
    pget p "code_challenge_method" = "S256" ∧
    s.clientState = pget p "state" ∧ (cfg.definitions s.scope).isSome = true

theorem serveAll_sess (cfg : Cfg) (n : GrantNames) (sha : String → String) (h : List (Nat × Req)) :
    ∀ (suf : List (Nat × Req)) (w : World), (∀ x ∈ suf, x ∈ h) → SessOK (FromSignedRequest cfg h) w →
      SessOK (FromSignedRequest cfg h) (serveAll cfg n sha suf w) := by
  intro suf
  induction suf with
  | nil => intro w _ hw; exact hw
  | cons x rest ih =>
    intro w hsub hw
    obtain ⟨t, q⟩ := x
    unfold serveAll
    apply ih
    · intro y hy; exact hsub y (List.mem_cons_of_mem _ hy)
    · apply serve_sess (FromSignedRequest cfg h) _ cfg n sha w t q hw
      · intro en env r p defs hq hen hs hacc hrt haud hch hm hdefs
        subst hq
        subst hen
        exact ⟨t, env, r, p, hsub _ List.mem_cons_self, hs, hacc, hrt, haud, rfl, rfl, rfl, rfl, hch, rfl, hm, rfl,
          by simp [hdefs]⟩
      · intro s c hs
        exact hs

end Nuts.C02
