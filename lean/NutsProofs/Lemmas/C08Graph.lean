/-
  C08 — the stored graph: clock index, downward-closed clocks (from the prev verifier), metadata.  Core Lean only.
-/
import NutsProofs.Lemmas.C08State

namespace Nuts.C08

variable {n : Nat}

structure GInv (d : Disk n) : Prop where
  /-- the clock shelf lists, per clock, the refs of the stored transactions with that clock (in order of admission) -/
  idx : ∀ c, (getSorted c d.clocks).getD [] = (d.txs.filter (fun t => t.clock == c)).map (·.ref)
  /-- clocks are downward closed (every non-root transaction has a stored transaction one clock below) -/
  closed : ∀ t ∈ d.txs, t.clock ≠ 0 → ∃ t' ∈ d.txs, t'.clock + 1 = t.clock
  count : d.count = d.txs.length
  lc : d.lcHigh = maxClock d.txs
  head : (d.txs = [] ∧ d.head = none) ∨ (∃ t ∈ d.txs, d.head = some t.ref ∧ t.clock = maxClock d.txs)
  /-- a ref is stored once -/
  nodup : (d.txs.map (·.ref)).Nodup
  /-- the keys of the clock shelf are exactly the clocks `0 … highest clock` -/
  keys : d.clocks.map (·.1) = if d.txs = [] then [] else List.range' 0 (maxClock d.txs + 1)

theorem putSorted_keys {α : Type} (c : Nat) (v : α) : ∀ (l : List (Nat × α)) (s k : Nat),
    l.map (·.1) = List.range' s k → s ≤ c → c ≤ s + k →
    (putSorted c v l).map (·.1) = List.range' s (max k (c - s + 1)) := by
  intro l
  induction l with
  | nil =>
    intro s k h h1 h2
    cases k with
    | zero =>
      have : c = s := by omega
      subst this
      simp [putSorted, List.range'_succ]
    | succ k => simp [List.range'_succ] at h
  | cons x rest ih =>
    intro s k h h1 h2
    obtain ⟨k0, v0⟩ := x
    cases k with
    | zero => simp at h
    | succ k' =>
      simp only [List.map_cons, List.range'_succ, List.cons.injEq] at h
      obtain ⟨hk0, hrest⟩ := h
      subst hk0
      by_cases hc : c = k0
      · subst hc
        have hm : max (k' + 1) (c - c + 1) = k' + 1 := by omega
        simp only [putSorted, Nat.lt_irrefl, if_false, if_true, List.map_cons, hm, List.range'_succ, hrest]
      · have h1' : ¬ c < k0 := by omega
        simp only [putSorted, h1', hc, if_false, List.map_cons]
        rw [ih (k0 + 1) k' hrest (by omega) (by omega)]
        have hm : max (k' + 1) (c - k0 + 1) = max k' (c - (k0 + 1) + 1) + 1 := by omega
        rw [hm, List.range'_succ]

theorem GInv.empty : GInv ({} : Disk n) where
  idx := fun _ => rfl
  closed := fun _ h => (by cases h)
  count := rfl
  lc := rfl
  head := Or.inl ⟨rfl, rfl⟩
  nodup := List.nodup_nil
  keys := rfl

theorem getTx_mem {d : Disk n} {r : Ref} {t : Tx} (h : d.getTx r = some t) : t ∈ d.txs ∧ t.ref = r := by
  unfold Disk.getTx at h
  exact ⟨List.mem_of_find?_eq_some h, by simpa using List.find?_some h⟩

theorem not_present {d : Disk n} {r : Ref} (h : d.isPresent r = false) : ∀ t ∈ d.txs, t.ref ≠ r := by
  intro t ht e
  unfold Disk.isPresent at h
  rw [List.any_eq_false] at h
  have := h t ht
  simp [e] at this

/-- what the prev verifier establishes -/
theorem verifyPrevsLoop_spec (d : Disk n) : ∀ (prevs : List Ref) (hi1 h : Nat),
    d.verifyPrevsLoop prevs hi1 = .ok h →
    (prevs = [] ∧ h = hi1) ∨ (prevs ≠ [] ∧ 1 ≤ h ∧ (h = hi1 ∨ ∃ t ∈ d.txs, t.clock + 1 = h)) := by
  intro prevs
  induction prevs with
  | nil => intro hi1 h e; simp [Disk.verifyPrevsLoop] at e; exact Or.inl ⟨rfl, e.symm⟩
  | cons p rest ih =>
    intro hi1 h e
    simp only [Disk.verifyPrevsLoop] at e
    cases hg : d.getTx p with
    | none => rw [hg] at e; cases e
    | some pt =>
      rw [hg] at e
      have hm := (getTx_mem hg).1
      right
      refine ⟨by simp, ?_⟩
      by_cases hc : pt.clock + 1 ≥ hi1
      · simp only [hc, if_true] at e
        rcases ih _ _ e with ⟨_, e2⟩ | ⟨_, h1, e2⟩
        · exact ⟨by omega, Or.inr ⟨pt, hm, e2.symm⟩⟩
        · refine ⟨h1, ?_⟩
          rcases e2 with e2 | e2
          · exact Or.inr ⟨pt, hm, e2.symm⟩
          · exact Or.inr e2
      · simp only [hc, if_false] at e
        rcases ih _ _ e with ⟨_, e2⟩ | ⟨_, h1, e2⟩
        · exact ⟨by omega, Or.inl e2⟩
        · exact ⟨h1, e2⟩

theorem verifyPrevs_spec {d : Disk n} {tx : Tx} (h : d.verifyPrevs tx = .ok ()) :
    (tx.prevs = [] ∧ tx.clock = 0) ∨ (tx.prevs ≠ [] ∧ ∃ t ∈ d.txs, t.clock + 1 = tx.clock) := by
  unfold Disk.verifyPrevs at h
  cases hl : d.verifyPrevsLoop tx.prevs 0 with
  | err e => rw [hl] at h; cases h
  | panic e => rw [hl] at h; cases h
  | ok hi1 =>
    rw [hl] at h
    by_cases hc : tx.clock ≠ hi1
    · simp [hc] at h
    · have hc' : tx.clock = hi1 := by omega
      rcases verifyPrevsLoop_spec d _ _ _ hl with ⟨e1, e2⟩ | ⟨e1, h1, e2⟩
      · exact Or.inl ⟨e1, by omega⟩
      · rcases e2 with e2 | e2
        · omega
        · exact Or.inr ⟨e1, by rw [hc']; exact e2⟩

/-- downward closure reaches clock 0 -/
theorem exists_clock_zero {S : List Tx} (closed : ∀ t ∈ S, t.clock ≠ 0 → ∃ t' ∈ S, t'.clock + 1 = t.clock) :
    ∀ (k : Nat) (t : Tx), t ∈ S → t.clock = k → ∃ t0 ∈ S, t0.clock = 0 := by
  intro k
  induction k with
  | zero => intro t ht hc; exact ⟨t, ht, hc⟩
  | succ k ih =>
    intro t ht hc
    obtain ⟨t', ht', e⟩ := closed t ht (by omega)
    exact ih t' ht' (by omega)

theorem filter_clock_snoc (S : List Tx) (tx : Tx) (c : Nat) :
    ((S ++ [tx]).filter (fun t => t.clock == c)).map (·.ref) =
      (S.filter (fun t => t.clock == c)).map (·.ref) ++ (if tx.clock = c then [tx.ref] else []) := by
  rw [List.filter_append, List.map_append]
  by_cases h : tx.clock = c <;> simp [h]

/-- `dag.add` of a verified, not yet present transaction: either the root check refuses it, or the graph invariant is
    kept with exactly this transaction added -/
theorem graphAdd_spec {d : Disk n} (g : GInv d) {tx : Tx} (hnp : d.isPresent tx.ref = false)
    (hv : d.verifyPrevs tx = .ok ()) :
    d.graphAdd tx = .err "root-exists" ∨
    ∃ d', d.graphAdd tx = .ok d' ∧ GInv d' ∧ d'.txs = d.txs ++ [tx] ∧ d'.xorLeaves = d.xorLeaves ∧
      d'.ibltLeaves = d.ibltLeaves ∧ d'.lcHigh = max d.lcHigh tx.clock ∧ tx.clock ≤ maxClock d.txs + 1 ∧
      (d.txs = [] → tx.clock = 0) := by
  have hfresh := not_present hnp
  by_cases hroot : (tx.prevs.isEmpty && !((getSorted 0 d.clocks).getD []).isEmpty) = true
  · left
    simp [Disk.graphAdd, hnp, hroot]
  · right
    have hroot' : (tx.prevs.isEmpty && !((getSorted 0 d.clocks).getD []).isEmpty) = false := by
      cases h : (tx.prevs.isEmpty && !((getSorted 0 d.clocks).getD []).isEmpty) <;> simp_all
    have hcont : ((getSorted tx.clock d.clocks).getD []).contains tx.ref = false := by
      rw [g.idx]
      rw [List.contains_eq_any_beq, List.any_eq_false]
      intro r hr
      simp only [List.mem_map, List.mem_filter] at hr
      obtain ⟨t, ⟨ht, _⟩, rfl⟩ := hr
      simp; exact fun e => hfresh t ht e.symm
    -- facts from the verifier
    have hclk : tx.clock ≤ maxClock d.txs + 1 ∧ (d.txs = [] → tx.clock = 0) ∧
        (tx.clock = 0 → d.txs = []) ∧ (tx.clock ≠ 0 → ∃ t' ∈ d.txs, t'.clock + 1 = tx.clock) := by
      rcases verifyPrevs_spec hv with ⟨hp, hc⟩ | ⟨hp, t, ht, hc⟩
      · refine ⟨by omega, fun _ => hc, fun _ => ?_, fun h => absurd hc h⟩
        -- a root: the root check passed, so no stored transaction has clock 0, so nothing is stored
        have hz : (getSorted 0 d.clocks).getD [] = [] := by
          have : tx.prevs.isEmpty = true := by simp [hp]
          simp [this] at hroot'
          exact hroot'
        rw [g.idx 0] at hz
        cases hS : d.txs with
        | nil => rfl
        | cons x xs =>
          obtain ⟨t0, ht0, hc0⟩ := exists_clock_zero g.closed x.clock x (by rw [hS]; simp) rfl
          have : t0.ref ∈ (d.txs.filter (fun t => t.clock == 0)).map (·.ref) :=
            List.mem_map.mpr ⟨t0, List.mem_filter.mpr ⟨ht0, by simp [hc0]⟩, rfl⟩
          rw [hz] at this; cases this
      · have := le_maxClock ht
        refine ⟨by omega, fun e => (by rw [e] at ht; cases ht), fun h => (by omega), fun _ => ⟨t, ht, hc⟩⟩
    obtain ⟨hle, hempty, hzero, hclosed⟩ := hclk
    let d1 : Disk n := { d with clocks := putSorted tx.clock ((getSorted tx.clock d.clocks).getD [] ++ [tx.ref]) d.clocks }
    let newHead := decide (tx.clock > d.lcHigh) || tx.clock == 0
    let newLc := if newHead then tx.clock else d.lcHigh
    let newHd := if newHead then some tx.ref else d.head
    let d' : Disk n := { d1 with txs := d.txs ++ [tx], lcHigh := newLc, head := newHd, count := d.count + 1 }
    have hidx : d.indexClock tx = d1 := by
      simp only [Disk.indexClock, hcont, Bool.false_eq_true, if_false, d1]
    have hadd : d.graphAdd tx = .ok d' := by
      simp only [Disk.graphAdd, hnp, hroot', Bool.false_eq_true, if_false, hidx]
      rfl
    have hlc : d'.lcHigh = max d.lcHigh tx.clock := by
      show (if newHead then tx.clock else d.lcHigh) = _
      by_cases h0 : tx.clock = 0
      · have : d.lcHigh = 0 := by rw [g.lc, hzero h0]; rfl
        simp [newHead, h0, this]
      · by_cases h1 : tx.clock > d.lcHigh
        · simp [newHead, h1]; omega
        · simp [newHead, h1, h0]; omega
    refine ⟨d', hadd, ⟨?_, ?_, ?_, ?_, ?_, ?_, ?_⟩, rfl, rfl, rfl, hlc, hle, hempty⟩
    · intro c
      show (getSorted c (putSorted tx.clock _ d.clocks)).getD [] = ((d.txs ++ [tx]).filter _).map _
      rw [getSorted_putSorted, filter_clock_snoc]
      by_cases hc : c = tx.clock
      · subst hc; simp [g.idx]
      · have : tx.clock ≠ c := fun e => hc e.symm
        simp [hc, this, g.idx]
    · intro t ht hne
      show ∃ t' ∈ d.txs ++ [tx], _
      rcases List.mem_append.mp ht with h | h
      · obtain ⟨t', ht', e⟩ := g.closed t h hne
        exact ⟨t', List.mem_append.mpr (Or.inl ht'), e⟩
      · simp at h; subst h
        obtain ⟨t', ht', e⟩ := hclosed hne
        exact ⟨t', List.mem_append.mpr (Or.inl ht'), e⟩
    · show d.count + 1 = (d.txs ++ [tx]).length
      simp [g.count]
    · show d'.lcHigh = maxClock (d.txs ++ [tx])
      rw [hlc, maxClock_snoc, g.lc]
    · right
      show ∃ t ∈ d.txs ++ [tx], (if newHead then some tx.ref else d.head) = some t.ref ∧ t.clock = maxClock (d.txs ++ [tx])
      rw [maxClock_snoc, ← g.lc]
      by_cases hh : newHead = true
      · refine ⟨tx, by simp, by simp [hh], ?_⟩
        by_cases h0 : tx.clock = 0
        · have : d.lcHigh = 0 := by rw [g.lc, hzero h0]; rfl
          omega
        · have : tx.clock > d.lcHigh := by simpa [newHead, h0] using hh
          omega
      · have hh' : newHead = false := by cases h : newHead <;> simp_all
        have hle' : tx.clock ≤ d.lcHigh ∧ tx.clock ≠ 0 := by
          simp [newHead] at hh'; omega
        rcases g.head with ⟨he, _⟩ | ⟨t, ht, e1, e2⟩
        · exact absurd (hempty he) hle'.2
        · refine ⟨t, List.mem_append.mpr (Or.inl ht), by simp [hh', e1], ?_⟩
          rw [e2, ← g.lc]; omega

    · show ((d.txs ++ [tx]).map (·.ref)).Nodup
      rw [List.map_append, List.nodup_append]
      refine ⟨g.nodup, by simp, ?_⟩
      intro a ha b hb
      simp only [List.mem_map] at ha
      obtain ⟨t, ht, rfl⟩ := ha
      simp at hb; subst hb
      exact hfresh t ht
    · show (putSorted tx.clock _ d.clocks).map (·.1) = if d.txs ++ [tx] = [] then [] else List.range' 0 (maxClock (d.txs ++ [tx]) + 1)
      have hne : d.txs ++ [tx] ≠ [] := by simp
      rw [if_neg hne, maxClock_snoc]
      by_cases hS : d.txs = []
      · have hk : d.clocks.map (·.1) = List.range' 0 0 := by rw [g.keys, if_pos hS]; rfl
        have h0 := hempty hS
        rw [putSorted_keys _ _ _ 0 0 hk (by omega) (by omega), hS, h0]
        rfl
      · have hk : d.clocks.map (·.1) = List.range' 0 (maxClock d.txs + 1) := by rw [g.keys, if_neg hS]
        rw [putSorted_keys _ _ _ 0 _ hk (by omega) (by omega)]
        congr 1; omega

end Nuts.C08
