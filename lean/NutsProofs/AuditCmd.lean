import Lean
open Lean Elab Command

/-- `#audit_module M` prints, for every theorem declared in module `M`, the axioms it depends on.
    Output lines: `AUDIT <name> [ax1, ax2, …]` (parsed by /verif/vlib.py). -/
elab "#audit_module " m:ident : command => do
  let env ← getEnv
  let modName := m.getId
  let some idx := env.getModuleIdx? modName | throwError "unknown module {modName}"
  let consts := env.header.moduleData[idx.toNat]!.constNames
  for c in consts do
    if c.isInternal then continue
    match env.find? c with
    | some (.thmInfo _) =>
      let axs ← Lean.collectAxioms c
      logInfo m!"AUDIT {c} {axs.toList}"
    | _ => pure ()
