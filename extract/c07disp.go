package main

// C07 deepening round 2: facts about the dispatcher of network/transport/v2 (handlers.go `Handle`, `handle`,
// `handleASync`; transactionlist_handler.go `newTransactionListHandler`, `start`) that NutsModel/C07/Dispatch.lean
// mirrors. Dumb: prints what the source says (conditions, return values, select clauses, the channel capacity).

import (
	"go/ast"
	"strings"
)

// c07Skeleton lists, in source order, the conditions / range expressions / select clauses / go statements / returns of a body
func c07Skeleton(n ast.Node) []string {
	var out []string
	if n == nil {
		return []string{"MISSING"}
	}
	ast.Inspect(n, func(m ast.Node) bool {
		switch x := m.(type) {
		case *ast.FuncLit:
			out = append(out, "funclit")
		case *ast.IfStmt:
			out = append(out, "if:"+c07Src(x.Cond))
		case *ast.RangeStmt:
			out = append(out, "range:"+c07Src(x.X))
		case *ast.ForStmt:
			if x.Cond == nil {
				out = append(out, "for")
			} else {
				out = append(out, "for:"+c07Src(x.Cond))
			}
		case *ast.SelectStmt:
			out = append(out, "select")
		case *ast.CommClause:
			if x.Comm == nil {
				out = append(out, "default")
			} else {
				out = append(out, "comm:"+c07Src(x.Comm))
			}
		case *ast.GoStmt:
			out = append(out, "go")
		case *ast.ReturnStmt:
			var r []string
			for _, e := range x.Results {
				r = append(r, c07Src(e))
			}
			out = append(out, "return:"+strings.Join(r, ","))
		}
		return true
	})
	return out
}

func c07Disp(l *lean) {
	_, handlers := parseFile("network/transport/v2/handlers.go")
	_, tlh := parseFile("network/transport/v2/transactionlist_handler.go")
	_, conn := parseFile("network/transport/grpc/connection.go")

	// var allowedErrors = []error{...}
	allowed := []string{}
	found := false
	for _, d := range handlers.Decls {
		gd, ok := d.(*ast.GenDecl)
		if !ok {
			continue
		}
		for _, sp := range gd.Specs {
			vs, ok := sp.(*ast.ValueSpec)
			if !ok {
				continue
			}
			for i, n := range vs.Names {
				if n.Name == "allowedErrors" && i < len(vs.Values) {
					if cl, ok := vs.Values[i].(*ast.CompositeLit); ok {
						found = true
						for _, e := range cl.Elts {
							allowed = append(allowed, c07Src(e))
						}
					}
				}
			}
		}
	}
	if !found {
		allowed = []string{"MISSING"}
	}
	l.def("allowedErrors", "List String", leanStrList(allowed), allowed)

	// Handle: the error classification after p.handle
	hs := c07Skeleton(c07Method(handlers, "protocol", "Handle"))
	l.def("handleErrShape", "List String", leanStrList(hs), hs)

	// handle: the TransactionList clause (non-blocking send) and the statement after the switch
	var listClause []string
	fall := "MISSING"
	if fd := c07Method(handlers, "protocol", "handle"); fd != nil && fd.Body != nil {
		ast.Inspect(fd, func(n ast.Node) bool {
			cc, ok := n.(*ast.CaseClause)
			if ok && len(cc.List) == 1 && strings.HasSuffix(exprString(cc.List[0]), "Envelope_TransactionList") {
				listClause = c07Skeleton(cc)
			}
			return true
		})
		if k := len(fd.Body.List); k > 0 {
			fall = c07Src(fd.Body.List[k-1])
		}
	}
	// the switch as a table the model's `routeName` looks envelopes up in: (type, "channel" | handler)
	var tbl, tblRaw []string
	if fd := c07Method(handlers, "protocol", "handle"); fd != nil {
		ast.Inspect(fd, func(n ast.Node) bool {
			cc, ok := n.(*ast.CaseClause)
			if !ok {
				return true
			}
			if len(cc.List) != 1 {
				tbl = append(tbl, "unknown_case_clause_shape") // does not elaborate
				return true
			}
			typ := strings.TrimPrefix(exprString(cc.List[0]), "*")
			target := ""
			ast.Inspect(cc, func(m ast.Node) bool {
				switch x := m.(type) {
				case *ast.CallExpr:
					if exprString(x.Fun) == "handleASync" && len(x.Args) == 4 {
						target = exprString(x.Args[3])
					}
				case *ast.SendStmt:
					target = "channel"
				}
				return true
			})
			if target == "" {
				tbl = append(tbl, "unknown_dispatch_target_"+typ) // does not elaborate
				return true
			}
			tbl = append(tbl, "(\""+typ+"\", \""+target+"\")")
			tblRaw = append(tblRaw, typ+"="+target)
			return true
		})
	}
	l.def("dispatchTable", "List (String × String)", "["+strings.Join(tbl, ", ")+"]", tblRaw)
	l.def("listChanClause", "List String", leanStrList(listClause), listClause)
	l.def("handleFallthrough", "String", "\""+fall+"\"", fall)

	as := c07Skeleton(funcDecl(handlers, "handleASync"))
	l.def("handleASyncShape", "List String", leanStrList(as), as)

	// newTransactionListHandler: capacity of the channel
	capExpr := "MISSING"
	if fd := funcDecl(tlh, "newTransactionListHandler"); fd != nil {
		for _, c := range c07Calls(fd, "make") {
			if len(c.Args) == 2 {
				capExpr = c07Src(c.Args[0]) + "," + c07Src(c.Args[1])
			}
		}
	}
	l.def("listChanMake", "String", "\""+capExpr+"\"", capExpr)
	v := c07Const(conn, "OutboxHardLimit")
	l.def("outboxHardLimit", "Nat", v, v)

	st := c07Skeleton(c07Method(tlh, "transactionListHandler", "start"))
	l.def("listHandlerStartShape", "List String", leanStrList(st), st)
}
