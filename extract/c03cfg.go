package main

// C03 (deepening round 2): crypto.go Configure — the storage switch and the four setup functions, printed as data the
// Lean model (NutsModel/C03/Configure.lean) INTERPRETS; plus the guards of azure.New / createCredential and
// vault.checkConnection. Dumb printer: a statement it cannot map becomes a Lean term that does not elaborate.

import (
	"fmt"
	"go/ast"
	"go/token"
	"strconv"
	"strings"
)

// c03PkgStringConst reads `const <name> [string] = "<lit>"` from a file
func c03PkgStringConst(rel, name string) (string, bool) {
	_, f := parseFile(rel)
	for _, d := range f.Decls {
		gd, ok := d.(*ast.GenDecl)
		if !ok || gd.Tok != token.CONST {
			continue
		}
		for _, s := range gd.Specs {
			vs, ok := s.(*ast.ValueSpec)
			if !ok {
				continue
			}
			for i, n := range vs.Names {
				if n.Name == name && i < len(vs.Values) {
					if v, ok := c03Unquote(vs.Values[i]); ok {
						return v, true
					}
				}
			}
		}
	}
	return "", false
}

var c03CfgPkgFile = map[string]string{
	"fs":       "crypto/storage/fs/fs.go",
	"vault":    "crypto/storage/vault/vault.go",
	"azure":    "crypto/storage/azure/keyvault.go",
	"external": "crypto/storage/external/client.go",
}

// a string-valued expression of crypto.go: literal or <pkg>.<Const> of one of the storage packages
func c03CfgStringExpr(e ast.Expr) (string, bool) {
	if v, ok := c03Unquote(e); ok {
		return v, true
	}
	if sel, ok := e.(*ast.SelectorExpr); ok {
		if id, ok := sel.X.(*ast.Ident); ok {
			if rel, ok := c03CfgPkgFile[id.Name]; ok {
				return c03PkgStringConst(rel, sel.Sel.Name)
			}
		}
	}
	return "", false
}

// errors.New("…") / fmt.Errorf("…%s…", consts…) with every argument a resolvable constant -> the final text
func c03CfgErrText(call *ast.CallExpr) (string, bool) {
	fn := exprString(call.Fun)
	if fn != "errors.New" && fn != "fmt.Errorf" || len(call.Args) == 0 {
		return "", false
	}
	format, ok := c03Unquote(call.Args[0])
	if !ok {
		return "", false
	}
	if fn == "errors.New" {
		return format, len(call.Args) == 1
	}
	for _, a := range call.Args[1:] {
		v, ok := c03CfgStringExpr(a)
		if !ok || !strings.Contains(format, "%s") {
			return "", false
		}
		format = strings.Replace(format, "%s", v, 1)
	}
	return format, !strings.Contains(format, "%")
}

func c03CfgStep(fset *token.FileSet, st ast.Stmt) string {
	unknown := ".unknown_stmt_" + strconv.Itoa(fset.Position(st.Pos()).Line)
	switch x := st.(type) {
	case *ast.ReturnStmt:
		if len(x.Results) != 1 {
			return unknown
		}
		call, ok := x.Results[0].(*ast.CallExpr)
		if !ok {
			return unknown
		}
		fn := exprString(call.Fun)
		if strings.HasPrefix(fn, "client.setup") {
			return c03Tuple(c03Str("call"), c03Str(strings.TrimPrefix(fn, "client.")))
		}
		if t, ok := c03CfgErrText(call); ok {
			return c03Tuple(c03Str("error"), c03Str(t))
		}
	case *ast.IfStmt:
		// if config.Strictmode { return errors.New(…) }
		if x.Init == nil && x.Else == nil && exprString(x.Cond) == "config.Strictmode" && len(x.Body.List) == 1 {
			if r, ok := x.Body.List[0].(*ast.ReturnStmt); ok && len(r.Results) == 1 {
				if call, ok := r.Results[0].(*ast.CallExpr); ok {
					if t, ok := c03CfgErrText(call); ok {
						return c03Tuple(c03Str("strict-error"), c03Str(t))
					}
				}
			}
		}
	}
	return unknown
}

func c03ConfigFacts(l *lean) {
	fset, f := parseFile("crypto/crypto.go")
	// ---- Configure: statements before the switch, the switch tag, the clauses in source order
	var rows []string
	raw := []map[string]interface{}{}
	tag := "MISSING"
	var pre []string
	if fd := c03Method(f, "Crypto", "Configure"); fd != nil {
		for _, st := range fd.Body.List {
			sw, ok := st.(*ast.SwitchStmt)
			if !ok {
				pre = append(pre, c03Src(fset, st))
				continue
			}
			tag = c03Src(fset, sw.Tag)
			for _, cs := range sw.Body.List {
				cc := cs.(*ast.CaseClause)
				var vals []string
				bad := false
				for _, e := range cc.List {
					v, ok := c03CfgStringExpr(e)
					if !ok {
						bad = true
					}
					vals = append(vals, v)
				}
				var steps []string
				for _, b := range cc.Body {
					steps = append(steps, c03CfgStep(fset, b))
				}
				vl := c03StrList(vals)
				if bad {
					vl = ".unknown_case_value_" + strconv.Itoa(fset.Position(cc.Pos()).Line)
				}
				rows = append(rows, c03Tuple(strconv.FormatBool(cc.List == nil), vl, "["+strings.Join(steps, ", ")+"]"))
				raw = append(raw, map[string]interface{}{"default": cc.List == nil, "values": vals, "steps": steps})
			}
		}
	}
	l.def("configurePre", "List String", c03StrList(pre), pre)
	l.def("configureTag", "String", c03Str(tag), tag)
	l.def("configureSwitch", "List (Bool × List String × List (String × String))", "["+strings.Join(rows, ", ")+"]", raw)

	// ---- setup functions: constructor, how its error is returned, what is assigned to client.backend
	var fns []string
	rawF := []map[string]string{}
	subdir := "MISSING"
	for _, d := range f.Decls {
		fd, ok := d.(*ast.FuncDecl)
		if !ok || fd.Body == nil || !strings.HasPrefix(fd.Name.Name, "setup") || c03RecvName(fd) != "Crypto" {
			continue
		}
		ctor, errWrap, wrapper, pattern, inner, ctorVar := "MISSING", "MISSING", "MISSING", "MISSING", "MISSING", ""
		assigned := 0
		ast.Inspect(fd.Body, func(n ast.Node) bool {
			switch x := n.(type) {
			case *ast.AssignStmt:
				if len(x.Lhs) == 2 && len(x.Rhs) == 1 && exprString(x.Lhs[1]) == "err" {
					if call, ok := x.Rhs[0].(*ast.CallExpr); ok {
						ctor = exprString(call.Fun)
						ctorVar = exprString(x.Lhs[0])
					}
				}
				if len(x.Lhs) == 1 && len(x.Rhs) == 1 && exprString(x.Lhs[0]) == "client.backend" {
					assigned++
					wrapper, pattern, inner = "?"+c03Src(fset, x.Rhs[0]), "", ""
					if call, ok := x.Rhs[0].(*ast.CallExpr); ok && len(call.Args) == 2 {
						wrapper, inner, pattern = exprString(call.Fun), exprString(call.Args[0]), exprString(call.Args[1])
					}
				}
				if len(x.Lhs) == 1 && len(x.Rhs) == 1 && exprString(x.Lhs[0]) == "fsPath" {
					if call, ok := x.Rhs[0].(*ast.CallExpr); ok && exprString(call.Fun) == "path.Join" && len(call.Args) == 2 && exprString(call.Args[0]) == "config.Datadir" {
						if v, ok := c03Unquote(call.Args[1]); ok {
							subdir = v
						}
					}
				}
			case *ast.IfStmt:
				if exprString(x.Cond) == "err != nil" && len(x.Body.List) == 1 {
					if r, ok := x.Body.List[0].(*ast.ReturnStmt); ok && len(r.Results) == 1 {
						switch y := r.Results[0].(type) {
						case *ast.Ident:
							if y.Name == "err" {
								errWrap = ""
							}
						case *ast.CallExpr:
							if exprString(y.Fun) == "fmt.Errorf" && len(y.Args) == 2 && exprString(y.Args[1]) == "err" {
								if fm, ok := c03Unquote(y.Args[0]); ok && strings.HasSuffix(fm, "%w") && strings.Count(fm, "%") == 1 {
									errWrap = strings.TrimSuffix(fm, "%w")
								}
							}
						}
					}
				}
			}
			return true
		})
		if inner != ctorVar || assigned != 1 { // the wrapped value must be the constructor's result, assigned once
			inner = "NOT-THE-CONSTRUCTED-BACKEND:" + inner
		} else {
			inner = "ctor-result"
		}
		if errWrap == "MISSING" {
			fns = append(fns, ".unknown_error_return_in_"+fd.Name.Name)
			continue
		}
		fns = append(fns, c03Tuple(c03Str(fd.Name.Name), c03Str(ctor), c03Str(errWrap), c03Str(wrapper), c03Str(inner), c03Str(pattern)))
		rawF = append(rawF, map[string]string{"fn": fd.Name.Name, "ctor": ctor, "errWrap": errWrap, "wrapper": wrapper, "inner": inner, "pattern": pattern})
	}
	l.def("setupFns", "List (String × String × String × String × String × String)", "["+strings.Join(fns, ", ")+"]", rawF)
	l.def("fsBackendSubdir", "String", c03Str(subdir), subdir)

	// ---- azure.New / createCredential guards
	fsA, fa := parseFile("crypto/storage/azure/keyvault.go")
	var azNew []string
	if fd := funcDecl(fa, "New"); fd != nil {
		for _, st := range fd.Body.List {
			switch x := st.(type) {
			case *ast.IfStmt:
				msg := "?"
				if len(x.Body.List) == 1 {
					if r, ok := x.Body.List[0].(*ast.ReturnStmt); ok && len(r.Results) == 2 {
						switch y := r.Results[1].(type) {
						case *ast.Ident:
							msg = "return " + y.Name
						case *ast.CallExpr:
							if len(y.Args) > 0 {
								m, _ := c03Unquote(y.Args[0])
								msg = exprString(y.Fun) + ":" + m
							}
						}
					}
				}
				azNew = append(azNew, "if "+c03Src(fsA, x.Cond)+" -> "+msg)
			case *ast.AssignStmt:
				if len(x.Rhs) == 1 {
					if call, ok := x.Rhs[0].(*ast.CallExpr); ok {
						azNew = append(azNew, "call "+exprString(call.Fun)+"("+c03Src(fsA, call.Args[0])+")")
					}
				}
			case *ast.ReturnStmt:
				azNew = append(azNew, "return")
			}
		}
	}
	l.def("azureNewSteps", "List String", c03StrList(azNew), azNew)
	var credCases []string
	credDefault := "MISSING"
	if fd := funcDecl(fa, "createCredential"); fd != nil {
		ast.Inspect(fd.Body, func(n ast.Node) bool {
			sw, ok := n.(*ast.SwitchStmt)
			if !ok {
				return true
			}
			for _, cs := range sw.Body.List {
				cc := cs.(*ast.CaseClause)
				if cc.List == nil {
					if len(cc.Body) == 1 {
						if r, ok := cc.Body[0].(*ast.ReturnStmt); ok && len(r.Results) == 2 {
							if call, ok := r.Results[1].(*ast.CallExpr); ok && len(call.Args) == 2 {
								m, _ := c03Unquote(call.Args[0])
								credDefault = exprString(call.Fun) + ":" + m + ":" + exprString(call.Args[1])
							}
						}
					}
					continue
				}
				for _, e := range cc.List {
					v := "?" + exprString(e)
					if id, ok := e.(*ast.Ident); ok {
						if s, ok := c03PkgStringConst("crypto/storage/azure/keyvault.go", id.Name); ok {
							v = s
						}
					}
					credCases = append(credCases, v)
				}
			}
			return false
		})
	}
	l.def("azureCredentialTypes", "List String", c03StrList(credCases), credCases)
	l.def("azureCredentialDefault", "String", c03Str(credDefault), credDefault)

	// ---- vault.checkConnection: the two guards after the lookup
	fsV, fv := parseFile("crypto/storage/vault/vault.go")
	var conn []string
	if fd := c03Method(fv, "vaultKVStorage", "checkConnection"); fd != nil {
		for _, st := range fd.Body.List {
			switch x := st.(type) {
			case *ast.AssignStmt:
				if len(x.Rhs) == 1 {
					if call, ok := x.Rhs[0].(*ast.CallExpr); ok && len(call.Args) == 2 {
						conn = append(conn, "call "+exprString(call.Fun)+"("+c03Src(fsV, call.Args[1])+")")
					}
				}
			case *ast.IfStmt:
				msg := "?"
				if len(x.Body.List) == 1 {
					if r, ok := x.Body.List[0].(*ast.ReturnStmt); ok && len(r.Results) == 1 {
						if call, ok := r.Results[0].(*ast.CallExpr); ok && len(call.Args) > 0 {
							m, _ := c03Unquote(call.Args[0])
							msg = m
						}
					}
				}
				conn = append(conn, "if "+c03Src(fsV, x.Cond)+" -> "+msg)
			case *ast.ReturnStmt:
				conn = append(conn, fmt.Sprintf("return %s", c03Src(fsV, x.Results[0])))
			}
		}
	}
	l.def("vaultCheckConnection", "List String", c03StrList(conn), conn)
	var nv []string
	if fd := funcDecl(fv, "NewVaultKVStorage"); fd != nil {
		ast.Inspect(fd.Body, func(n ast.Node) bool {
			if call, ok := n.(*ast.CallExpr); ok {
				fn := exprString(call.Fun)
				if fn == "configureVaultClient" || fn == "vaultStorage.checkConnection" {
					nv = append(nv, fn)
				}
			}
			if r, ok := n.(*ast.ReturnStmt); ok && len(r.Results) == 2 {
				nv = append(nv, "return "+exprString(r.Results[0])+", "+exprString(r.Results[1]))
			}
			return true
		})
	}
	l.def("vaultNewSteps", "List String", c03StrList(nv), nv)
}
