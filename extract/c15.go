package main

import (
	"bytes"
	"fmt"
	"go/ast"
	"go/printer"
	"go/token"
	"os"
	"path/filepath"
	"strings"
)

func init() { extractors["C15"] = extractC15 }

func extractC15() *lean {
	l := newLean("C15")
	_, handlers := parseFile("network/transport/v2/handlers.go")
	_, auth := parseFile("network/transport/grpc/authenticator.go")

	// handleTransactionPayloadQuery: the refusals inside `if len(tx.PAL()) > 0 { … }`, in order; every one of them
	// must end in Send(emptyResponse)
	var palGuard string
	var refusals []string
	allEmpty := true
	readAfter := false
	if fd := funcDecl(handlers, "handleTransactionPayloadQuery"); fd != nil {
		for _, st := range fd.Body.List {
			is, ok := st.(*ast.IfStmt)
			if !ok || !strings.Contains(c15Src(is.Cond), "PAL()") {
				continue
			}
			palGuard = c15Src(is.Cond)
			for _, inner := range is.Body.List {
				ii, ok := inner.(*ast.IfStmt)
				if !ok {
					continue
				}
				refusals = append(refusals, c15Src(ii.Cond))
				last := ii.Body.List[len(ii.Body.List)-1]
				rs, ok := last.(*ast.ReturnStmt)
				if !ok || len(rs.Results) != 1 || !strings.Contains(c15Render(rs.Results[0]), "emptyResponse") {
					allEmpty = false
				}
			}
			readAfter = c15Pos(fd, "p.state.ReadPayload") > int(is.End())
		}
	}
	l.def("payloadQueryPalGuard", "String", fmt.Sprintf("%q", palGuard), palGuard)
	l.def("payloadQueryRefusals", "List String", leanStrList(refusals), refusals)
	l.def("payloadQueryRefusalsSendEmpty", "Bool", c15Bool(allEmpty), allEmpty)
	l.def("payloadReadAfterPalChecks", "Bool", c15Bool(readAfter), readAfter)

	// collectTransactionList: the condition guarding ReadPayload
	collectGuard := ""
	if fd := funcDecl(handlers, "collectTransactionList"); fd != nil {
		ast.Inspect(fd, func(n ast.Node) bool {
			if is, ok := n.(*ast.IfStmt); ok && len(c15Calls(is.Body, "p.state.ReadPayload")) > 0 && collectGuard == "" {
				collectGuard = c15Src(is.Cond)
			}
			return true
		})
	}
	l.def("collectPayloadGuard", "String", fmt.Sprintf("%q", collectGuard), collectGuard)

	// handleTransactionPayload: the checks before WritePayload, in order
	var payloadChecks []string
	if fd := funcDecl(handlers, "handleTransactionPayload"); fd != nil {
		w := c15Pos(fd, "p.state.WritePayload")
		for _, st := range fd.Body.List {
			if is, ok := st.(*ast.IfStmt); ok && int(is.End()) < w {
				payloadChecks = append(payloadChecks, c15Src(is.Cond))
			}
		}
	}
	l.def("payloadStoreChecks", "List String", leanStrList(payloadChecks), payloadChecks)

	// handleTransactionPayload: is the call of privatePayloadReceiver.Finished guarded by a nil check (the receiver is
	// only configured when the node DID is set)?
	nilGuard := false
	if fd := funcDecl(handlers, "handleTransactionPayload"); fd != nil {
		fin := c15Pos(fd, "p.privatePayloadReceiver.Finished")
		for _, st := range fd.Body.List {
			if is, ok := st.(*ast.IfStmt); ok && c15Src(is.Cond) == "p.privatePayloadReceiver == nil" && int(is.End()) < fin && len(is.Body.List) > 0 {
				if _, ok := is.Body.List[len(is.Body.List)-1].(*ast.ReturnStmt); ok {
					nilGuard = true
				}
			}
		}
	}
	l.def("payloadFinishedNilGuard", "Bool", c15Bool(nilGuard), nilGuard)

	// which functions in handlers.go/senders.go assign the Payload / Data field of an outgoing message
	var payloadWriters []string
	for _, file := range []string{"network/transport/v2/handlers.go", "network/transport/v2/senders.go", "network/transport/v2/protocol.go", "network/transport/v2/transactionlist_handler.go"} {
		_, f := parseFile(file)
		for _, d := range f.Decls {
			fd, ok := d.(*ast.FuncDecl)
			if !ok {
				continue
			}
			found := false
			ast.Inspect(fd, func(n ast.Node) bool {
				switch x := n.(type) {
				case *ast.AssignStmt:
					for _, lhs := range x.Lhs {
						if s := exprString(lhs); strings.HasSuffix(s, ".Payload") {
							found = true
						}
					}
				case *ast.KeyValueExpr:
					if k := exprString(x.Key); k == "Payload" || (k == "Data" && exprString(x.Value) == "data") {
						found = true
					}
				}
				return true
			})
			if found {
				payloadWriters = append(payloadWriters, fd.Name.Name)
			}
		}
	}
	l.def("payloadBytesWriters", "List String", leanStrList(payloadWriters), payloadWriters)

	// tlsAuthenticator.Authenticate: the failure exits before `peer.Authenticated = true`
	var authChecks []string
	setsAuth := false
	for _, d := range auth.Decls {
		fd, ok := d.(*ast.FuncDecl)
		if !ok || fd.Name.Name != "Authenticate" || fd.Recv == nil || !strings.Contains(exprString(fd.Recv.List[0].Type), "tlsAuthenticator") {
			continue
		}
		for _, st := range fd.Body.List {
			switch x := st.(type) {
			case *ast.IfStmt:
				if len(x.Body.List) > 0 {
					if _, ok := x.Body.List[len(x.Body.List)-1].(*ast.ReturnStmt); ok {
						authChecks = append(authChecks, c15Src(x.Cond))
					}
				}
			case *ast.AssignStmt:
				if exprString(x.Lhs[0]) == "peer.Authenticated" && exprString(x.Rhs[0]) == "true" {
					setsAuth = true
					authChecks = append(authChecks, "SET-AUTHENTICATED")
				}
			}
		}
	}
	l.def("authenticateSteps", "List String", leanStrList(authChecks), authChecks)

	// Network.Configure: under which conditions is which authenticator constructor assigned, and under which conditions
	// does the "disabling TLS in strict mode" error return? (guard path = enclosing if conditions, else-branches negated)
	_, netw := parseFile("network/network.go")
	var assigns [][]string
	var strictGuard []string
	strictPos, dummyPos := -1, -1
	var walk func(n ast.Node, guards []string)
	walk = func(n ast.Node, guards []string) {
		switch x := n.(type) {
		case nil:
			return
		case *ast.BlockStmt:
			if x == nil {
				return
			}
			for _, st := range x.List {
				walk(st, guards)
			}
		case *ast.IfStmt:
			c := c15Src(x.Cond)
			walk(x.Body, append(append([]string{}, guards...), c))
			if x.Else != nil {
				walk(x.Else, append(append([]string{}, guards...), "!("+c+")"))
			}
		case *ast.AssignStmt:
			if len(x.Lhs) == 1 && exprString(x.Lhs[0]) == "authenticator" && len(x.Rhs) == 1 {
				if call, ok := x.Rhs[0].(*ast.CallExpr); ok {
					ctor := exprString(call.Fun)
					assigns = append(assigns, append(append([]string{}, guards...), ctor))
					if ctor == "grpc.NewDummyAuthenticator" {
						dummyPos = int(x.Pos())
					}
				} else {
					assigns = append(assigns, append(append([]string{}, guards...), "UNKNOWN:"+c15Src(x.Rhs[0])))
				}
			}
		case *ast.ReturnStmt:
			for _, r := range x.Results {
				if strings.Contains(c15Src(r), "disabling TLS in strict mode") {
					strictGuard = append([]string{}, guards...)
					strictPos = int(x.Pos())
				}
			}
		case *ast.ForStmt:
			walk(x.Body, guards)
		case *ast.RangeStmt:
			walk(x.Body, guards)
		case *ast.SwitchStmt:
			walk(x.Body, append(append([]string{}, guards...), "switch"))
		case *ast.CaseClause:
			for _, st := range x.Body {
				walk(st, append(append([]string{}, guards...), "case"))
			}
		}
	}
	if fd := funcDecl(netw, "Configure"); fd != nil {
		// keep only the guards from the connection-manager set-up inwards: drop the outer `n.connectionManager == nil`
		walk(fd.Body, nil)
	}
	strip := func(g []string) []string {
		var r []string
		for _, x := range g {
			if x != "n.connectionManager == nil" {
				r = append(r, x)
			}
		}
		if r == nil {
			r = []string{}
		}
		return r
	}
	var rows []string
	var raw [][]string
	for _, a := range assigns {
		a = strip(a)
		raw = append(raw, a)
		rows = append(rows, leanStrList(a))
	}
	l.def("authenticatorAssignments", "List (List String)", "["+strings.Join(rows, ", ")+"]", raw)
	l.def("strictTLSErrorGuard", "List String", leanStrList(strip(strictGuard)), strip(strictGuard))
	before := strictPos > 0 && dummyPos > 0 && strictPos < dummyPos
	l.def("strictErrorBeforeDummy", "Bool", c15Bool(before), before)

	// the server side TLS configuration of the connection manager: every `tlsConfig.<field> = <expr>` of newServerTLSConfig,
	// the fields of the literal in baseTLSConfig, and the constant core.MinTLSVersion
	_, gcfg := parseFile("network/transport/grpc/config.go")
	var serverTLS []string
	if fd := funcDecl(gcfg, "newServerTLSConfig"); fd != nil {
		ast.Inspect(fd, func(n ast.Node) bool {
			if as, ok := n.(*ast.AssignStmt); ok && len(as.Lhs) == 1 && len(as.Rhs) == 1 {
				if sel, ok := as.Lhs[0].(*ast.SelectorExpr); ok && exprString(sel.X) == "tlsConfig" && sel.Sel.Name != "Certificates" {
					serverTLS = append(serverTLS, sel.Sel.Name+"="+c15Src(as.Rhs[0]))
				}
			}
			return true
		})
	}
	l.def("serverTLSConfig", "List String", leanStrList(serverTLS), serverTLS)
	var baseTLS []string
	if fd := funcDecl(gcfg, "baseTLSConfig"); fd != nil {
		ast.Inspect(fd, func(n ast.Node) bool {
			if cl, ok := n.(*ast.CompositeLit); ok && c15Src(cl.Type) == "tls.Config" {
				for _, e := range cl.Elts {
					if kv, ok := e.(*ast.KeyValueExpr); ok {
						baseTLS = append(baseTLS, c15Src(kv.Key)+"="+c15Src(kv.Value))
					}
				}
			}
			return true
		})
	}
	l.def("baseTLSConfig", "List String", leanStrList(baseTLS), baseTLS)
	_, ctls := parseFile("core/tls.go")
	minVer := "MISSING"
	for _, d := range ctls.Decls {
		if gd, ok := d.(*ast.GenDecl); ok {
			for _, sp := range gd.Specs {
				if vs, ok := sp.(*ast.ValueSpec); ok {
					for i, nm := range vs.Names {
						if nm.Name == "MinTLSVersion" && i < len(vs.Values) {
							minVer = c15Src(vs.Values[i])
						}
					}
				}
			}
		}
	}
	l.def("minTLSVersion", "String", fmt.Sprintf("%q", minVer), minVer)

	// connection_manager.go: calls of s.authenticate and whether each is directly followed by `if err != nil { … return … }`;
	// the error exit of authenticate returns the zero peer; extractCertificate takes PeerCertificates[<index>]
	_, cmf := parseFile("network/transport/grpc/connection_manager.go")
	calls, checked := 0, 0
	ast.Inspect(cmf, func(n ast.Node) bool {
		blk, ok := n.(*ast.BlockStmt)
		if !ok {
			return true
		}
		for i, st := range blk.List {
			as, ok := st.(*ast.AssignStmt)
			if !ok || len(as.Rhs) != 1 {
				continue
			}
			call, ok := as.Rhs[0].(*ast.CallExpr)
			if !ok || exprString(call.Fun) != "s.authenticate" {
				continue
			}
			calls++
			if i+1 < len(blk.List) {
				if is, ok := blk.List[i+1].(*ast.IfStmt); ok && c15Src(is.Cond) == "err != nil" && len(is.Body.List) > 0 {
					if _, ok := is.Body.List[len(is.Body.List)-1].(*ast.ReturnStmt); ok {
						checked++
					}
				}
			}
		}
		return true
	})
	l.def("cmAuthenticateCalls", "Nat", fmt.Sprint(calls), calls)
	l.def("cmAuthenticateCallsChecked", "Nat", fmt.Sprint(checked), checked)
	zeroPeer := false
	if fd := funcDecl(cmf, "authenticate"); fd != nil {
		ast.Inspect(fd, func(n ast.Node) bool {
			if is, ok := n.(*ast.IfStmt); ok && c15Src(is.Cond) == "err != nil" {
				if rs, ok := is.Body.List[len(is.Body.List)-1].(*ast.ReturnStmt); ok && len(rs.Results) == 2 && c15Src(rs.Results[0]) == "transport.Peer{}" {
					zeroPeer = true
				}
			}
			return true
		})
	}
	l.def("cmAuthenticateErrorReturnsZeroPeer", "Bool", c15Bool(zeroPeer), zeroPeer)
	certIdx := "MISSING"
	if fd := funcDecl(cmf, "extractCertificate"); fd != nil {
		ast.Inspect(fd, func(n ast.Node) bool {
			if rs, ok := n.(*ast.ReturnStmt); ok && len(rs.Results) == 1 {
				if ix, ok := rs.Results[0].(*ast.IndexExpr); ok {
					certIdx = c15Src(ix.Index)
				}
			}
			return true
		})
	}
	l.def("extractCertificateIndex", "String", fmt.Sprintf("%q", certIdx), certIdx)
	var certRets []string
	certLoops := 0
	if fd := funcDecl(cmf, "extractCertificate"); fd != nil {
		ast.Inspect(fd, func(n ast.Node) bool {
			switch x := n.(type) {
			case *ast.ReturnStmt:
				for _, r := range x.Results {
					certRets = append(certRets, c15Src(r))
				}
			case *ast.RangeStmt, *ast.ForStmt:
				certLoops++
			}
			return true
		})
	}
	l.def("extractCertificateReturns", "List String", leanStrList(certRets), certRets)
	l.def("extractCertificateLoops", "Nat", fmt.Sprint(certLoops), certLoops)

	// dag/pal.go PAL.Encrypt: `continue` statements (a skipped participant), the checks inside the recipient loop and whether
	// each returns an error
	_, palF := parseFile("network/dag/pal.go")
	continues := 0
	var encChecks []string
	allRet := true
	for _, d := range palF.Decls {
		fd, ok := d.(*ast.FuncDecl)
		if !ok || fd.Name.Name != "Encrypt" {
			continue
		}
		ast.Inspect(fd, func(n ast.Node) bool {
			if b, ok := n.(*ast.BranchStmt); ok && b.Tok == token.CONTINUE {
				continues++
			}
			return true
		})
		for _, st := range fd.Body.List {
			rs, ok := st.(*ast.RangeStmt)
			if !ok || exprString(rs.X) != "pal" {
				continue
			}
			for _, inner := range rs.Body.List {
				if is, ok := inner.(*ast.IfStmt); ok {
					encChecks = append(encChecks, c15Src(is.Cond))
					last := is.Body.List[len(is.Body.List)-1]
					if r, ok := last.(*ast.ReturnStmt); !ok || len(r.Results) != 2 || c15Src(r.Results[0]) != "nil" || c15Src(r.Results[1]) == "nil" {
						allRet = false
					}
				}
			}
		}
	}
	l.def("encryptContinues", "Nat", fmt.Sprint(continues), continues)
	l.def("encryptLoopChecks", "List String", leanStrList(encChecks), encChecks)
	l.def("encryptChecksAllReturnError", "Bool", c15Bool(allRet), allRet)

	// grpc/authenticator.go: tlsAuthenticator must be stateless
	var authFields, pkgVars []string
	recv := "MISSING"
	for _, d := range auth.Decls {
		switch x := d.(type) {
		case *ast.GenDecl:
			for _, sp := range x.Specs {
				switch y := sp.(type) {
				case *ast.TypeSpec:
					if st, ok := y.Type.(*ast.StructType); ok && y.Name.Name == "tlsAuthenticator" {
						for _, f := range st.Fields.List {
							for _, nm := range f.Names {
								authFields = append(authFields, nm.Name)
							}
							if len(f.Names) == 0 {
								authFields = append(authFields, "embedded:"+c15Src(f.Type))
							}
						}
					}
				case *ast.ValueSpec:
					if x.Tok == token.VAR {
						for _, nm := range y.Names {
							pkgVars = append(pkgVars, nm.Name)
						}
					}
				}
			}
		case *ast.FuncDecl:
			if x.Name.Name == "Authenticate" && x.Recv != nil && strings.Contains(c15Src(x.Recv.List[0].Type), "tlsAuthenticator") {
				recv = c15Src(x.Recv.List[0].Type)
			}
		}
	}
	// the two cooperating payload-presence guards: handleTransactionList (public tx needs a non-EMPTY payload) and state.Add
	// (a non-nil payload is hash-checked and stored)
	_, tlhF := parseFile("network/transport/v2/transactionlist_handler.go")
	listGuard := "MISSING"
	if fd := funcDecl(tlhF, "handleTransactionList"); fd != nil {
		ast.Inspect(fd, func(n ast.Node) bool {
			if is, ok := n.(*ast.IfStmt); ok && listGuard == "MISSING" {
				if len(is.Body.List) == 1 {
					if r, ok := is.Body.List[0].(*ast.ReturnStmt); ok && len(r.Results) == 1 && strings.Contains(c15Src(r.Results[0]), "did not provide payload") {
						listGuard = c15Src(is.Cond)
					}
				}
			}
			return true
		})
	}
	// grpc/tls_offloading.go authenticate: header multiplicity check, certificate count check, which value is used
	_, offF := parseFile("network/transport/grpc/tls_offloading.go")
	hdrCheck, certCheck := "MISSING", "MISSING"
	var valIdx []string
	for _, d := range offF.Decls {
		fd, ok := d.(*ast.FuncDecl)
		if !ok || fd.Name.Name != "authenticate" {
			continue
		}
		ast.Inspect(fd, func(n ast.Node) bool {
			switch x := n.(type) {
			case *ast.IfStmt:
				c := c15Src(x.Cond)
				if strings.Contains(c, "len(values)") && hdrCheck == "MISSING" {
					hdrCheck = c
				}
				if strings.Contains(c, "len(certificates)") && certCheck == "MISSING" {
					certCheck = c
				}
			case *ast.IndexExpr:
				if exprString(x.X) == "values" {
					valIdx = append(valIdx, c15Src(x.Index))
				}
			}
			return true
		})
	}
	// grpc/tls_offloading.go intercept: the assignments to peerInfo.AuthInfo and how deep they are nested (0 = a top-level
	// statement of the function: unconditional), the certificate list put into the TLS info
	var authAssign []string
	for _, d := range offF.Decls {
		fd, ok := d.(*ast.FuncDecl)
		if !ok || fd.Name.Name != "intercept" {
			continue
		}
		var walk func(stmts []ast.Stmt, depth int, guard string)
		walk = func(stmts []ast.Stmt, depth int, guard string) {
			for _, st := range stmts {
				switch x := st.(type) {
				case *ast.AssignStmt:
					if len(x.Lhs) == 1 && c15Src(x.Lhs[0]) == "peerInfo.AuthInfo" {
						certs := "?"
						ast.Inspect(x.Rhs[0], func(n ast.Node) bool {
							if kv, ok := n.(*ast.KeyValueExpr); ok && c15Src(kv.Key) == "PeerCertificates" {
								certs = c15Src(kv.Value)
							}
							return true
						})
						authAssign = append(authAssign, fmt.Sprintf("depth=%d guard=%s PeerCertificates=%s", depth, guard, certs))
					}
				case *ast.IfStmt:
					walk(x.Body.List, depth+1, c15Src(x.Cond))
					if eb, ok := x.Else.(*ast.BlockStmt); ok {
						walk(eb.List, depth+1, "else:"+c15Src(x.Cond))
					}
				case *ast.BlockStmt:
					walk(x.List, depth+1, guard)
				case *ast.ForStmt:
					walk(x.Body.List, depth+1, "for")
				case *ast.SwitchStmt:
					walk(x.Body.List, depth+1, "switch")
				case *ast.TypeSwitchStmt:
					walk(x.Body.List, depth+1, "typeswitch")
				case *ast.CaseClause:
					walk(x.Body, depth+1, "case")
				}
			}
		}
		walk(fd.Body.List, 0, "-")
	}
	l.def("offloadAuthInfoAssignments", "List String", leanStrList(authAssign), authAssign)
	l.def("offloadHeaderCountCheck", "String", fmt.Sprintf("%q", hdrCheck), hdrCheck)
	l.def("offloadCertificateCountCheck", "String", fmt.Sprintf("%q", certCheck), certCheck)
	l.def("offloadValueIndex", "List String", leanStrList(valIdx), valIdx)
	l.def("listPayloadGuard", "String", fmt.Sprintf("%q", listGuard), listGuard)
	_, stF := parseFile("network/dag/state.go")
	addGuard := "MISSING"
	if fd := funcDecl(stF, "Add"); fd != nil {
		ast.Inspect(fd, func(n ast.Node) bool {
			if is, ok := n.(*ast.IfStmt); ok && addGuard == "MISSING" && len(c15Calls(is.Body, "s.payloadStore.writePayload")) > 0 {
				addGuard = c15Src(is.Cond)
			}
			return true
		})
	}
	l.def("stateAddPayloadGuard", "String", fmt.Sprintf("%q", addGuard), addGuard)
	// State.Add: the statements of the early-return branch for a transaction that is already on the DAG (`if present {…}`), and
	// every call in Add that can write a payload (with the condition of the innermost enclosing if)
	var presentBranch, addPayloadWrites []string
	if fd := funcDecl(stF, "Add"); fd != nil {
		for _, st := range fd.Body.List {
			if is, ok := st.(*ast.IfStmt); ok && c15Src(is.Cond) == "present" {
				for _, b := range is.Body.List {
					presentBranch = append(presentBranch, c15Src(b))
				}
				if is.Else != nil {
					presentBranch = append(presentBranch, "else:"+c15Src(is.Else))
				}
			}
		}
		var walk func(n ast.Node, guard string)
		walk = func(n ast.Node, guard string) {
			ast.Inspect(n, func(m ast.Node) bool {
				if m == n {
					return true
				}
				switch x := m.(type) {
				case *ast.IfStmt:
					if x.Init != nil {
						walk(x.Init, guard)
					}
					walk(x.Body, c15Src(x.Cond))
					if x.Else != nil {
						walk(x.Else, "else:"+c15Src(x.Cond))
					}
					return false
				case *ast.CallExpr:
					f := exprString(x.Fun)
					if strings.HasSuffix(f, "WritePayload") || strings.HasSuffix(f, "writePayload") {
						addPayloadWrites = append(addPayloadWrites, f+" if "+guard)
					}
				}
				return true
			})
		}
		walk(fd.Body, "-")
	}
	l.def("stateAddPresentBranch", "List String", leanStrList(presentBranch), presentBranch)
	l.def("stateAddPayloadWrites", "List String", leanStrList(addPayloadWrites), addPayloadWrites)
	l.def("tlsAuthenticatorFields", "List String", leanStrList(authFields), authFields)
	l.def("authenticateReceiver", "String", fmt.Sprintf("%q", recv), recv)
	l.def("authenticatorPackageVars", "List String", leanStrList(pkgVars), pkgVars)
	l.def("authenticateSetsFlag", "Bool", c15Bool(setsAuth), setsAuth)

	// every envelope handed to Connection.Send is freshly allocated (the connection only queues the pointer): no sync.Pool in the
	// package, and at every Send site the envelope and its message are composite literals (directly or through a local variable
	// that is only ever assigned a composite literal)
	var v2files []string
	ents, err := os.ReadDir(filepath.Join(repo, "network/transport/v2"))
	must(err)
	for _, e := range ents {
		if n := e.Name(); strings.HasSuffix(n, ".go") && !strings.HasSuffix(n, "_test.go") && !strings.HasSuffix(n, ".pb.go") && !strings.HasSuffix(n, "_mock.go") {
			v2files = append(v2files, n)
		}
	}
	var pools, sendArgs []string
	for _, name := range v2files {
		_, f := parseFile("network/transport/v2/" + name)
		ast.Inspect(f, func(n ast.Node) bool {
			if se, ok := n.(*ast.SelectorExpr); ok && exprString(se) == "sync.Pool" {
				pools = append(pools, name)
			}
			return true
		})
		for _, d := range f.Decls {
			fd, ok := d.(*ast.FuncDecl)
			if !ok || fd.Body == nil {
				continue
			}
			// local variables: every assignment's right-hand side
			assigned := map[string][]ast.Expr{}
			ast.Inspect(fd, func(n ast.Node) bool {
				if as, ok := n.(*ast.AssignStmt); ok && len(as.Lhs) == len(as.Rhs) {
					for i, lhs := range as.Lhs {
						if id, ok := lhs.(*ast.Ident); ok {
							assigned[id.Name] = append(assigned[id.Name], as.Rhs[i])
						}
					}
				}
				return true
			})
			var fresh func(e ast.Expr, depth int) string
			fresh = func(e ast.Expr, depth int) string {
				if u, ok := e.(*ast.UnaryExpr); ok && u.Op == token.AND {
					if cl, ok := u.X.(*ast.CompositeLit); ok {
						r := "&" + exprString(cl.Type) + "{}"
						for _, el := range cl.Elts {
							if kv, ok := el.(*ast.KeyValueExpr); ok && exprString(kv.Key) == "Message" {
								r += "<-" + fresh(kv.Value, depth)
							}
						}
						return r
					}
				}
				if id, ok := e.(*ast.Ident); ok && depth < 3 && len(assigned[id.Name]) > 0 {
					var kinds []string
					for _, rhs := range assigned[id.Name] {
						k := fresh(rhs, depth+1)
						if len(kinds) == 0 || kinds[len(kinds)-1] != k {
							kinds = append(kinds, k)
						}
					}
					return strings.Join(kinds, "|")
				}
				return "NOT-FRESH:" + c15Src(e)
			}
			ast.Inspect(fd, func(n ast.Node) bool {
				if c, ok := n.(*ast.CallExpr); ok && len(c.Args) == 3 {
					if se, ok := c.Fun.(*ast.SelectorExpr); ok && se.Sel.Name == "Send" {
						sendArgs = append(sendArgs, fd.Name.Name+":"+fresh(c.Args[1], 0))
					}
				}
				return true
			})
		}
	}
	l.def("v2SyncPools", "List String", leanStrList(pools), pools)
	l.def("v2SendEnvelopes", "List String", leanStrList(sendArgs), sendArgs)

	// decryptPAL is a function of the node's DID/keys and the header it is given: the fields of `protocol` and the ones decryptPAL touches
	_, protoF := parseFile("network/transport/v2/protocol.go")
	var protoFields, palReads []string
	ast.Inspect(protoF, func(n ast.Node) bool {
		if ts, ok := n.(*ast.TypeSpec); ok && ts.Name.Name == "protocol" {
			if st, ok := ts.Type.(*ast.StructType); ok {
				for _, f := range st.Fields.List {
					for _, nm := range f.Names {
						protoFields = append(protoFields, nm.Name+" "+c15Src(f.Type))
					}
				}
			}
		}
		return true
	})
	if fd := funcDecl(protoF, "decryptPAL"); fd != nil {
		seen := map[string]bool{}
		ast.Inspect(fd.Body, func(n ast.Node) bool {
			if se, ok := n.(*ast.SelectorExpr); ok && exprString(se.X) == "p" && !seen[se.Sel.Name] {
				seen[se.Sel.Name] = true
				palReads = append(palReads, se.Sel.Name)
			}
			return true
		})
	}
	l.def("protocolFields", "List String", leanStrList(protoFields), protoFields)
	l.def("decryptPALTouches", "List String", leanStrList(palReads), palReads)
	c15Streams(l)
	c15Outbound(l)
	return l
}

func c15Calls(n ast.Node, fn string) []*ast.CallExpr {
	var r []*ast.CallExpr
	ast.Inspect(n, func(m ast.Node) bool {
		if c, ok := m.(*ast.CallExpr); ok && exprString(c.Fun) == fn {
			r = append(r, c)
		}
		return true
	})
	return r
}

func c15Pos(fd *ast.FuncDecl, fn string) int {
	cs := c15Calls(fd, fn)
	if len(cs) == 0 {
		return -1
	}
	return int(cs[0].Pos())
}

func c15Bool(b bool) string {
	if b {
		return "true"
	}
	return "false"
}

func c15Src(e ast.Node) string {
	var b bytes.Buffer
	_ = printer.Fprint(&b, token.NewFileSet(), e)
	return strings.Join(strings.Fields(b.String()), " ")
}

func c15Render(e ast.Expr) string {
	var sb strings.Builder
	ast.Inspect(e, func(n ast.Node) bool {
		if id, ok := n.(*ast.Ident); ok {
			sb.WriteString(id.Name + " ")
		}
		return true
	})
	return sb.String()
}
