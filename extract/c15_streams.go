package main

import (
	"go/ast"
	"sort"
	"strings"
)

// C15 deepening round 2: the source shape behind NutsModel/C15/Streams.lean (inbound stream set-up). Dumb printing only:
// what the source says; the expectations are fact_* theorems in NutsProofs/Props/C15.lean.
func c15Streams(l *lean) {
	_, cl := parseFile("network/transport/grpc/connection_list.go")
	_, cm := parseFile("network/transport/grpc/connection_manager.go")
	_, pr := parseFile("network/transport/grpc/predicate.go")
	_, ut := parseFile("network/transport/grpc/util.go")
	_, cn := parseFile("network/transport/grpc/connection.go")

	// getOrRegister: arguments of c.get(...) per branch of `if outbound`
	var inboundLookup, outboundLookups []string
	if fd := funcDecl(cl, "getOrRegister"); fd != nil {
		ast.Inspect(fd, func(n ast.Node) bool {
			is, ok := n.(*ast.IfStmt)
			if !ok || c15Src(is.Cond) != "outbound" {
				return true
			}
			for _, c := range c15Calls(is.Body, "c.get") {
				var a []string
				for _, x := range c.Args {
					a = append(a, c15Src(x))
				}
				outboundLookups = append(outboundLookups, strings.Join(a, " & "))
			}
			if eb, ok := is.Else.(*ast.BlockStmt); ok {
				for _, c := range c15Calls(eb, "c.get") {
					for _, x := range c.Args {
						inboundLookup = append(inboundLookup, c15Src(x))
					}
				}
			}
			return false
		})
	}
	l.def("inboundConnectionLookup", "List String", leanStrList(inboundLookup), inboundLookup)
	l.def("outboundConnectionLookups", "List String", leanStrList(outboundLookups), outboundLookups)

	// connectionList.get: every predicate must match (a mismatch continues the outer loop), first match returned
	var getShape []string
	if fd := funcDecl(cl, "get"); fd != nil {
		ast.Inspect(fd, func(n ast.Node) bool {
			switch x := n.(type) {
			case *ast.IfStmt:
				getShape = append(getShape, "if "+c15Src(x.Cond)+" "+c15Src(x.Body))
			case *ast.ReturnStmt:
				getShape = append(getShape, c15Src(x))
			}
			return true
		})
	}
	l.def("connectionGetShape", "List String", leanStrList(getShape), getShape)

	// predicates: what ByPeerID / ByNodeDID compare
	preds := []string{}
	for _, d := range pr.Decls {
		fd, ok := d.(*ast.FuncDecl)
		if !ok || fd.Name.Name != "Match" || fd.Recv == nil || len(fd.Recv.List) != 1 {
			continue
		}
		rt := c15Src(fd.Recv.List[0].Type)
		if rt == "peerIDPredicate" || rt == "nodeDIDPredicate" {
			preds = append(preds, rt+": "+c15Src(fd.Body))
		}
	}
	sort.Strings(preds)
	l.def("identityPredicates", "List String", leanStrList(preds), preds)

	// handleInboundStream: order of the identity-relevant calls; fields of the transport.Peer literal
	var order []string
	var peerKeys []string
	if fd := funcDecl(cm, "handleInboundStream"); fd != nil {
		type pc struct {
			pos  int
			name string
		}
		var pcs []pc
		for _, fn := range []string{"readMetadata", "extractCertificate", "s.authenticate", "s.connections.getOrRegister", "connection.registerStream", "connection.waitUntilDisconnected", "s.connections.remove"} {
			for _, c := range c15Calls(fd, fn) {
				a := []string{}
				for _, x := range c.Args {
					a = append(a, c15Src(x))
				}
				pcs = append(pcs, pc{int(c.Pos()), fn + "(" + strings.Join(a, ", ") + ")"})
			}
		}
		sort.Slice(pcs, func(i, j int) bool { return pcs[i].pos < pcs[j].pos })
		for _, p := range pcs {
			order = append(order, p.name)
		}
		ast.Inspect(fd, func(n ast.Node) bool {
			if cl, ok := n.(*ast.CompositeLit); ok && c15Src(cl.Type) == "transport.Peer" {
				for _, e := range cl.Elts {
					if kv, ok := e.(*ast.KeyValueExpr); ok {
						peerKeys = append(peerKeys, c15Src(kv.Key)+"="+c15Src(kv.Value))
					}
				}
			}
			return true
		})
	}
	l.def("inboundStreamCalls", "List String", leanStrList(order), order)
	l.def("inboundPeerLiteral", "List String", leanStrList(peerKeys), peerKeys)

	// readMetadata: the val(...) calls, the multiplicity conditions and what a single value becomes
	var valCalls, valShape []string
	if fd := funcDecl(ut, "readMetadata"); fd != nil {
		for _, c := range c15Calls(fd, "val") {
			a := []string{}
			for _, x := range c.Args {
				a = append(a, c15Src(x))
			}
			valCalls = append(valCalls, strings.Join(a, ","))
		}
		ast.Inspect(fd, func(n ast.Node) bool {
			fl, ok := n.(*ast.FuncLit)
			if !ok {
				return true
			}
			ast.Inspect(fl.Body, func(m ast.Node) bool {
				switch x := m.(type) {
				case *ast.IfStmt:
					valShape = append(valShape, "if "+c15Src(x.Cond))
				case *ast.ReturnStmt:
					if len(x.Results) == 2 && c15Src(x.Results[1]) == "nil" {
						valShape = append(valShape, "ok "+c15Src(x.Results[0]))
					} else {
						valShape = append(valShape, "err")
					}
				}
				return true
			})
			return false
		})
		for _, is := range fd.Body.List {
			if x, ok := is.(*ast.IfStmt); ok && !strings.Contains(c15Src(x.Cond), "err") {
				valShape = append(valShape, "top-if "+c15Src(x.Cond))
			}
		}
	}
	l.def("readMetadataValCalls", "List String", leanStrList(valCalls), valCalls)
	l.def("readMetadataShape", "List String", leanStrList(valShape), valShape)

	// registerStream: refusal when the protocol already has a stream on this connection
	regGuard := "MISSING"
	if fd := funcDecl(cn, "registerStream"); fd != nil {
		for _, st := range fd.Body.List {
			if is, ok := st.(*ast.IfStmt); ok && regGuard == "MISSING" {
				regGuard = c15Src(is.Cond) + " => " + c15Src(is.Body)
			}
		}
	}
	l.def("registerStreamGuard", "String", leanQ(regGuard), regGuard)
}

func leanQ(s string) string { return leanStrList([]string{s})[1 : len(leanStrList([]string{s}))-1] }
