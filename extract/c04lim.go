package main

// C04 deepening round: the internal rate limiter (engine.go applyRateLimiterMiddleware, ratelimiter.go) — the stage
// behind the auth guard whose budget a request without a valid token must never touch.

import (
	"go/parser"
	"io/fs"
	"sort"
	"os"
	"path/filepath"
	"regexp"
	"fmt"
	"go/ast"
	"go/token"
	"strconv"
	"strings"
)

// net/http method constants (stable)
var c04HTTPMethods = map[string]string{
	"MethodGet": "GET", "MethodHead": "HEAD", "MethodPost": "POST", "MethodPut": "PUT", "MethodPatch": "PATCH",
	"MethodDelete": "DELETE", "MethodConnect": "CONNECT", "MethodOptions": "OPTIONS", "MethodTrace": "TRACE",
}

func c04Flat(n ast.Node) string { return strings.Join(strings.Fields(c04Src(n)), " ") }

func extractC04Limiter(l *lean, eng *ast.File) {
	cond, ctor := "MISSING", "MISSING"
	var rows []string
	rawTable := map[string][]string{}
	interval, limit, burst := "MISSING", "unknown_limit", "unknown_burst"
	nIfs, nUses := 0, 0
	if fd := funcDecl(eng, "applyRateLimiterMiddleware"); fd != nil {
		for _, st := range fd.Body.List {
			ifs, ok := st.(*ast.IfStmt)
			if !ok {
				nUses += 100 // any statement outside the one `if` changes the wiring: make the fact differ
				continue
			}
			nIfs++
			cond = c04Flat(ifs.Cond)
			if ifs.Else != nil {
				cond += " ELSE"
			}
			ast.Inspect(ifs.Body, func(n ast.Node) bool {
				c, ok := n.(*ast.CallExpr)
				if !ok {
					return true
				}
				switch exprString(c.Fun) {
				case "echoServer.Use":
					nUses++
				case "newInternalRateLimiter":
					ctor = "newInternalRateLimiter"
					if len(c.Args) == 4 {
						if cl, ok := c.Args[0].(*ast.CompositeLit); ok {
							for _, el := range cl.Elts {
								kv, ok := el.(*ast.KeyValueExpr)
								if !ok {
									rows = append(rows, "unknown_element")
									continue
								}
								key := "unknown_" + strings.ReplaceAll(exprString(kv.Key), ".", "_")
								rawKey := "?" + exprString(kv.Key)
								if se, ok := kv.Key.(*ast.SelectorExpr); ok && exprString(se.X) == "http" {
									if m, ok := c04HTTPMethods[se.Sel.Name]; ok {
										key, rawKey = fmt.Sprintf("%q", m), m
									}
								} else if s, ok := c04StrLit(kv.Key); ok {
									key, rawKey = fmt.Sprintf("%q", s), s
								}
								var paths []string
								if vl, ok := kv.Value.(*ast.CompositeLit); ok {
									for _, pe := range vl.Elts {
										if s, ok := c04StrLit(pe); ok {
											paths = append(paths, c04LeanStr(s))
											rawTable[rawKey] = append(rawTable[rawKey], s)
										} else {
											paths = append(paths, "unknown_path_expr")
										}
									}
								} else {
									paths = append(paths, "unknown_value")
								}
								rows = append(rows, "("+key+", ["+strings.Join(paths, ", ")+"])")
							}
						} else {
							rows = append(rows, "unknown_table_expr")
						}
						interval = c04Flat(c.Args[1])
						if b, ok := c.Args[2].(*ast.BasicLit); ok && b.Kind == token.INT {
							limit = b.Value
						}
						if b, ok := c.Args[3].(*ast.BasicLit); ok && b.Kind == token.INT {
							burst = b.Value
						}
					}
				}
				return true
			})
		}
	}
	l.def("limiterCondition", "String", fmt.Sprintf("%q", cond), cond)
	l.def("limiterInstallShape", "List Nat", fmt.Sprintf("[%d, %d]", nIfs, nUses), []int{nIfs, nUses})
	l.def("limiterConstructor", "String", fmt.Sprintf("%q", ctor), ctor)
	l.def("limiterTable", "List (String × List Str)", "["+strings.Join(rows, ",\n    ")+"]", rawTable)
	l.def("limiterIntervalExpr", "String", fmt.Sprintf("%q", interval), interval)
	l.def("limiterPerInterval", "Nat", limit, limit)
	l.def("limiterBurst", "Nat", burst, burst)

	// didnuts.MethodName
	method := "MISSING"
	_, mgr := parseFile("vdr/didnuts/manager.go")
	for _, d := range mgr.Decls {
		gd, ok := d.(*ast.GenDecl)
		if !ok || gd.Tok != token.CONST {
			continue
		}
		for _, sp := range gd.Specs {
			vs := sp.(*ast.ValueSpec)
			for i, n := range vs.Names {
				if n.Name == "MethodName" && i < len(vs.Values) {
					if s, ok := c04StrLit(vs.Values[i]); ok {
						method = s
					}
				}
			}
		}
	}
	l.def("didnutsMethodName", "String", fmt.Sprintf("%q", method), method)

	// ratelimiter.go: the skipper, the store and the bucket construction, verbatim
	_, rl := parseFile("http/ratelimiter.go")
	skipper, idx, deny, store := "MISSING", "MISSING", "MISSING", "MISSING"
	if fd := funcDecl(rl, "newInternalRateLimiter"); fd != nil {
		ast.Inspect(fd, func(n ast.Node) bool {
			kv, ok := n.(*ast.KeyValueExpr)
			if !ok {
				return true
			}
			switch exprString(kv.Key) {
			case "Skipper":
				skipper = c04Flat(kv.Value)
			case "IdentifierExtractor":
				idx = c04Flat(kv.Value)
			case "DenyHandler":
				deny = c04Flat(kv.Value)
			case "Store":
				store = c04Flat(kv.Value)
			}
			return true
		})
	}
	l.def("limiterSkipper", "String", fmt.Sprintf("%q", skipper), skipper)
	l.def("limiterIdentifier", "String", fmt.Sprintf("%q", idx), idx)
	l.def("limiterDenyHandler", "String", fmt.Sprintf("%q", deny), deny)
	l.def("limiterStoreExpr", "String", fmt.Sprintf("%q", store), store)
	allow, bucket := "MISSING", "MISSING"
	for _, d := range rl.Decls {
		if fd, ok := d.(*ast.FuncDecl); ok && fd.Name.Name == "Allow" {
			allow = c04Flat(fd.Body)
		}
	}
	if fd := funcDecl(rl, "newInternalRateLimiterStore"); fd != nil {
		bucket = c04Flat(fd.Body)
	}
	l.def("limiterAllowBody", "String", fmt.Sprintf("%q", allow), allow)
	l.def("limiterBucketBody", "String", fmt.Sprintf("%q", bucket), bucket)
	_ = strconv.Itoa
}

// keyIsSecure's RSA strength test and bestPracticesCheck's jti test, as written; the version of the uuid library whose
// Parse grammar NutsModel/C04/Uuid.lean mirrors
func extractC04KeysAndJti(l *lean, akF, mw *ast.File) {
	rsaTest := "MISSING"
	var rsaReturns []string
	if fd := funcDecl(akF, "keyIsSecure"); fd != nil {
		ast.Inspect(fd, func(n ast.Node) bool {
			cc, ok := n.(*ast.CaseClause)
			if !ok || len(cc.List) != 1 || c04Src(cc.List[0]) != "*rsa.PublicKey" {
				return true
			}
			rsaTest = ""
			for _, st := range cc.Body {
				switch x := st.(type) {
				case *ast.IfStmt:
					t := c04Flat(x.Cond)
					if x.Init != nil {
						t = c04Flat(x.Init) + "; " + t
					}
					rsaTest += "if " + t + " " + c04Flat(x.Body) + "; "
				default:
					rsaTest += c04Flat(st) + "; "
				}
			}
			rsaTest = strings.TrimSuffix(rsaTest, "; ")
			return false
		})
	}
	_ = rsaReturns
	l.def("rsaStrengthCase", "String", fmt.Sprintf("%q", rsaTest), rsaTest)
	// the quantity the RSA case compares with minimumRSAKeySize: selects the model's measure (NutsModel/C04/SshKey.lean);
	// anything else than N.BitLen() / Size()*8 does not elaborate
	rsaMeasure := "unknown_rsa_measure"
	if m := regexp.MustCompile(`^if (?:(\w+) := ([^;]+); )?(.+?) >= minimumRSAKeySize \{`).FindStringSubmatch(rsaTest); m != nil {
		expr := m[3]
		if m[1] != "" && m[3] == m[1] {
			expr = m[2]
		}
		switch strings.ReplaceAll(expr, " ", "") {
		case "rawKey.N.BitLen()":
			rsaMeasure = ".bitLen"
		case "rawKey.Size()*8", "8*rawKey.Size()":
			rsaMeasure = ".sizeTimes8"
		}
	}
	l.def("rsaMeasure", "RsaMeasure", rsaMeasure, rsaMeasure)

	// authenticationCredential: which request headers it reads (every string literal handed to Header.Get / Header.Values or used
	// as an index of Header, in source order), its conditions and what it returns — the model's Headers.lean / Token.lean mirror these
	var hdrNames, credConds, credReturns []string
	for _, fn := range []string{"authenticationCredential", "checkConnectionAuthorization"} {
		fd := funcDecl(mw, fn)
		if fd == nil {
			hdrNames = append(hdrNames, "MISSING:"+fn)
			continue
		}
		ast.Inspect(fd, func(n ast.Node) bool {
			switch x := n.(type) {
			case *ast.CallExpr:
				if sel, ok := x.Fun.(*ast.SelectorExpr); ok && strings.HasSuffix(c04Flat(sel.X), "Header") && len(x.Args) >= 1 {
					hdrNames = append(hdrNames, sel.Sel.Name+":"+c04Flat(x.Args[0]))
				}
			case *ast.IndexExpr:
				if strings.HasSuffix(c04Flat(x.X), "Header") {
					hdrNames = append(hdrNames, "index:"+c04Flat(x.Index))
				}
			case *ast.IfStmt:
				if fn == "authenticationCredential" {
					c := c04Flat(x.Cond)
					if x.Init != nil {
						c = c04Flat(x.Init) + "; " + c
					}
					credConds = append(credConds, c)
				}
			case *ast.ReturnStmt:
				if fn == "authenticationCredential" {
					credReturns = append(credReturns, c04Flat(x))
				}
			}
			return true
		})
	}
	l.def("authHeaderReads", "List String", leanStrList(hdrNames), hdrNames)
	l.def("authCredentialConds", "List String", leanStrList(credConds), credConds)
	l.def("authCredentialReturns", "List String", leanStrList(credReturns), credReturns)

	var jtiStmts []string
	if fd := funcDecl(mw, "bestPracticesCheck"); fd != nil {
		for _, st := range fd.Body.List {
			t := c04Flat(st)
			if strings.Contains(t, "jti") || strings.Contains(t, "JTI") {
				if is, ok := st.(*ast.IfStmt); ok {
					t = c04Flat(is.Cond)
					if is.Init != nil {
						t = c04Flat(is.Init) + "; " + t
					}
					t = "if " + t
				}
				jtiStmts = append(jtiStmts, t)
			}
		}
	}
	l.def("jtiCheck", "List String", leanStrList(jtiStmts), jtiStmts)
	// the library function applied to the jti: `.parse` (uuid.Parse) / `.validate` (uuid.Validate); anything else does not elaborate
	jtiFn := "unknown_jti_function"
	for _, t := range jtiStmts {
		switch {
		case strings.Contains(t, "uuid.Parse(jti)"):
			jtiFn = ".parse"
		case strings.Contains(t, "uuid.Validate(jti)"):
			jtiFn = ".validate"
		}
	}
	l.def("jtiFunction", "JtiFn", jtiFn, jtiFn)
	tj := "MISSING"
	if fd := funcDecl(mw, "tokenJTI"); fd != nil {
		tj = c04Flat(fd.Body)
	}
	l.def("tokenJTIBody", "String", fmt.Sprintf("%q", tj), tj)

	ver := "MISSING"
	if b, err := os.ReadFile(filepath.Join(repo, "go.mod")); err == nil {
		if m := regexp.MustCompile(`(?m)^\s*github.com/google/uuid\s+(\S+)`).FindSubmatch(b); m != nil {
			ver = string(m[1])
		}
	}
	l.def("uuidModuleVersion", "String", fmt.Sprintf("%q", ver), ver)
}

// ---------------- configuration plumbing: http/config.go koanf tags, http/cmd FlagSet, core config load order and env constants
func c04TagPaths(f *ast.File, typ string, prefix string, goPrefix string, out *[][2]string) {
	for _, d := range f.Decls {
		gd, ok := d.(*ast.GenDecl)
		if !ok || gd.Tok != token.TYPE {
			continue
		}
		for _, sp := range gd.Specs {
			ts := sp.(*ast.TypeSpec)
			st, ok := ts.Type.(*ast.StructType)
			if !ok || ts.Name.Name != typ {
				continue
			}
			for _, fl := range st.Fields.List {
				tag := ""
				if fl.Tag != nil {
					if s, err := strconv.Unquote(fl.Tag.Value); err == nil {
						if m := regexp.MustCompile(`koanf:"([^"]*)"`).FindStringSubmatch(s); m != nil {
							tag = m[1]
						}
					}
				}
				for _, n := range fl.Names {
					ft := exprString(fl.Type)
					isStruct := false
					for _, d2 := range f.Decls {
						if g2, ok := d2.(*ast.GenDecl); ok && g2.Tok == token.TYPE {
							for _, s2 := range g2.Specs {
								if t2 := s2.(*ast.TypeSpec); t2.Name.Name == ft {
									_, isStruct = t2.Type.(*ast.StructType)
								}
							}
						}
					}
					if isStruct {
						c04TagPaths(f, ft, prefix+tag+".", goPrefix+n.Name+".", out)
					} else {
						*out = append(*out, [2]string{prefix + tag, goPrefix + n.Name})
					}
				}
			}
		}
	}
}

func extractC04Config(l *lean) {
	_, cf := parseFile("http/config.go")
	var tags [][2]string
	c04TagPaths(cf, "Config", "", "", &tags)
	var rows []string
	raw := map[string]string{}
	for _, t := range tags {
		rows = append(rows, fmt.Sprintf("(%q, %q)", t[0], t[1]))
		raw[t[0]] = t[1]
	}
	l.def("httpConfigTags", "List (String × String)", "["+strings.Join(rows, ", ")+"]", raw)

	// DefaultConfig(): literal values of the string fields
	defs := map[string]string{}
	if fd := funcDecl(cf, "DefaultConfig"); fd != nil {
		var walk func(prefix string, cl *ast.CompositeLit)
		walk = func(prefix string, cl *ast.CompositeLit) {
			for _, el := range cl.Elts {
				kv, ok := el.(*ast.KeyValueExpr)
				if !ok {
					continue
				}
				name := prefix + exprString(kv.Key)
				if sub, ok := kv.Value.(*ast.CompositeLit); ok {
					walk(name+".", sub)
				} else if s, ok := c04StrLit(kv.Value); ok {
					defs[name] = s
				} else {
					defs[name] = "=" + c04Flat(kv.Value)
				}
			}
		}
		ast.Inspect(fd, func(n ast.Node) bool {
			if r, ok := n.(*ast.ReturnStmt); ok && len(r.Results) == 1 {
				if cl, ok := r.Results[0].(*ast.CompositeLit); ok {
					walk("", cl)
				}
			}
			return true
		})
	}
	// constants of config.go (LogMetadataLevel …)
	consts := map[string]string{}
	for _, d := range cf.Decls {
		if gd, ok := d.(*ast.GenDecl); ok && gd.Tok == token.CONST {
			for _, sp := range gd.Specs {
				vs := sp.(*ast.ValueSpec)
				for i, n := range vs.Names {
					if i < len(vs.Values) {
						if s, ok := c04StrLit(vs.Values[i]); ok {
							consts[n.Name] = s
						}
					}
				}
			}
		}
	}

	// http/cmd FlagSet: flag name, kind, the DefaultConfig field its default comes from
	_, cmdF := parseFile("http/cmd/cmd.go")
	var frows []string
	var fraw [][3]string
	if fd := funcDecl(cmdF, "FlagSet"); fd != nil {
		ast.Inspect(fd, func(n ast.Node) bool {
			c, ok := n.(*ast.CallExpr)
			if !ok || len(c.Args) < 2 {
				return true
			}
			f := exprString(c.Fun)
			if !strings.HasPrefix(f, "flags.") {
				return true
			}
			name, ok := c04StrLit(c.Args[0])
			if !ok {
				frows = append(frows, "unknown_flag_name")
				return true
			}
			src := c04Flat(c.Args[1])
			src = strings.TrimSuffix(strings.TrimPrefix(src, "string("), ")")
			field := strings.TrimPrefix(src, "defs.")
			def, known := defs[field]
			if !known { // zero value of a field DefaultConfig() does not set
				def = ""
			}
			if strings.HasPrefix(def, "=") {
				if v, ok := consts[def[1:]]; ok {
					def = v
				}
			}
			frows = append(frows, fmt.Sprintf("(%q, %q, %q)", name, strings.TrimPrefix(f, "flags."), def))
			fraw = append(fraw, [3]string{name, field, def})
			return true
		})
	}
	l.def("httpFlags", "List (String × String × String)", "["+strings.Join(frows, ",\n    ")+"]", fraw)

	// core: env constants and the load order
	_, sc := parseFile("core/server_config.go")
	cc := map[string]string{}
	for _, d := range sc.Decls {
		if gd, ok := d.(*ast.GenDecl); ok && gd.Tok == token.CONST {
			for _, sp := range gd.Specs {
				vs := sp.(*ast.ValueSpec)
				for i, n := range vs.Names {
					if i < len(vs.Values) {
						if s, ok := c04StrLit(vs.Values[i]); ok {
							cc[n.Name] = s
						}
					}
				}
			}
		}
	}
	for _, k := range []string{"defaultEnvPrefix", "defaultEnvDelimiter", "defaultDelimiter", "configValueListSeparator"} {
		v, ok := cc[k]
		if !ok {
			v = "MISSING"
		}
		l.def("core_"+k, "String", fmt.Sprintf("%q", v), v)
	}
	var order []string
	if fd := funcDecl(sc, "loadConfigMap"); fd != nil {
		ast.Inspect(fd, func(n ast.Node) bool {
			if c, ok := n.(*ast.CallExpr); ok {
				if f := exprString(c.Fun); strings.HasPrefix(f, "loadFrom") {
					order = append(order, f)
				}
			}
			return true
		})
	}
	l.def("configLoadOrder", "List String", leanStrList(order), order)
	_, ccf := parseFile("core/config.go")
	envKey, flagLoad := "MISSING", "MISSING"
	if fd := funcDecl(ccf, "loadFromEnv"); fd != nil {
		ast.Inspect(fd, func(n ast.Node) bool {
			if as, ok := n.(*ast.AssignStmt); ok && len(as.Lhs) == 1 && exprString(as.Lhs[0]) == "key" {
				envKey = c04Flat(as.Rhs[0])
			}
			return true
		})
	}
	if fd := funcDecl(ccf, "loadFromFlagSet"); fd != nil {
		if n := len(fd.Body.List); n > 0 {
			flagLoad = c04Flat(fd.Body.List[n-1])
		}
	}
	l.def("envKeyExpr", "String", fmt.Sprintf("%q", envKey), envKey)
	l.def("flagLoadStmt", "String", fmt.Sprintf("%q", flagLoad), flagLoad)
	split := "MISSING"
	if fd := funcDecl(ccf, "splitWithEscaping"); fd != nil {
		split = c04Flat(fd.Body)
	}
	l.def("splitWithEscapingBody", "String", fmt.Sprintf("%q", split), split)
	inj := "MISSING"
	if fd := funcDecl(sc, "InjectIntoEngine"); fd != nil {
		inj = c04Flat(fd.Body)
	}
	l.def("injectBody", "String", fmt.Sprintf("%q", inj), inj)
	// http engine module name (the config sub-tree is its lower-cased form)
	_, eng := parseFile("http/engine.go")
	mn := "MISSING"
	for _, d := range eng.Decls {
		if gd, ok := d.(*ast.GenDecl); ok && gd.Tok == token.CONST {
			for _, sp := range gd.Specs {
				vs := sp.(*ast.ValueSpec)
				for i, n := range vs.Names {
					if n.Name == "moduleName" && i < len(vs.Values) {
						if s, ok := c04StrLit(vs.Values[i]); ok {
							mn = s
						}
					}
				}
			}
		}
	}
	l.def("httpModuleName", "String", fmt.Sprintf("%q", mn), mn)
}

// ---------------- every route registration in the repository (non-test code), by go/ast: the path argument is evaluated as a
// constant string expression (literals, `+`, package-level constants of the same package, the `baseURL` parameter of generated
// wrappers = ""); what cannot be evaluated is listed verbatim so that a theorem pins it
func extractC04Routes(l *lean) {
	verbs := map[string]int{"GET": 0, "POST": 0, "PUT": 0, "DELETE": 0, "PATCH": 0, "HEAD": 0, "OPTIONS": 0, "CONNECT": 0, "TRACE": 0, "Any": 0, "Add": 1}
	segs := map[string]bool{}
	unresolved := map[string]bool{}
	nRoutes := 0
	byDir := map[string][]string{}
	_ = filepath.WalkDir(repo, func(path string, d fs.DirEntry, err error) error {
		if err != nil {
			return nil
		}
		if d.IsDir() {
			if n := d.Name(); n == ".git" || n == "vendor" || n == "docs" || n == "e2e-tests" || n == "node_modules" {
				return filepath.SkipDir
			}
			return nil
		}
		if strings.HasSuffix(path, ".go") && !strings.HasSuffix(path, "_test.go") && !strings.Contains(path, "zz_verif") && !strings.HasSuffix(path, "_mock.go") {
			byDir[filepath.Dir(path)] = append(byDir[filepath.Dir(path)], path)
		}
		return nil
	})
	for _, files := range byDir {
		fset := token.NewFileSet()
		var parsed []*ast.File
		consts := map[string]ast.Expr{}
		for _, f := range files {
			af, err := parser.ParseFile(fset, f, nil, 0)
			if err != nil {
				continue
			}
			parsed = append(parsed, af)
			for _, d := range af.Decls {
				if gd, ok := d.(*ast.GenDecl); ok && gd.Tok == token.CONST {
					for _, sp := range gd.Specs {
						vs := sp.(*ast.ValueSpec)
						for i, n := range vs.Names {
							if i < len(vs.Values) {
								consts[n.Name] = vs.Values[i]
							}
						}
					}
				}
			}
		}
		var eval func(e ast.Expr, depth int) (string, bool)
		eval = func(e ast.Expr, depth int) (string, bool) {
			if depth > 8 {
				return "", false
			}
			switch x := e.(type) {
			case *ast.BasicLit:
				return c04StrLit(x)
			case *ast.ParenExpr:
				return eval(x.X, depth+1)
			case *ast.Ident:
				if x.Name == "baseURL" {
					return "", true
				}
				if v, ok := consts[x.Name]; ok {
					return eval(v, depth+1)
				}
			case *ast.BinaryExpr:
				if x.Op == token.ADD {
					a, ok1 := eval(x.X, depth+1)
					b, ok2 := eval(x.Y, depth+1)
					return a + b, ok1 && ok2
				}
			}
			return "", false
		}
		for _, af := range parsed {
			ast.Inspect(af, func(n ast.Node) bool {
				c, ok := n.(*ast.CallExpr)
				if !ok {
					return true
				}
				se, ok := c.Fun.(*ast.SelectorExpr)
				if !ok {
					return true
				}
				idx, isVerb := verbs[se.Sel.Name]
				if !isVerb || len(c.Args) < idx+2 {
					return true
				}
				// a route registration has a handler after the path; the receiver is a router-like value
				recv := strings.ToLower(exprString(se.X))
				if !(strings.Contains(recv, "router") || strings.Contains(recv, "echo") || strings.Contains(recv, "server")) {
					return true
				}
				nRoutes++
				p, ok := eval(c.Args[idx], 0)
				if !ok || !strings.HasPrefix(p, "/") {
					unresolved[c04Flat(c.Args[idx])] = true
					return true
				}
				p = strings.TrimPrefix(p, "/")
				if i := strings.Index(p, "/"); i >= 0 {
					p = p[:i]
				}
				segs["/"+p] = true
				return true
			})
		}
	}
	var segList, unres []string
	for k := range segs {
		segList = append(segList, k)
	}
	for k := range unresolved {
		unres = append(unres, k)
	}
	sort.Strings(segList)
	sort.Strings(unres)
	var segLean []string
	for _, b := range segList {
		segLean = append(segLean, c04LeanStr(b))
	}
	l.def("routeFirstSegments", "List Str", "["+strings.Join(segLean, ", ")+"]", segList)
	l.def("routePathsNotEvaluated", "List String", leanStrList(unres), unres)
	l.def("routeRegistrationsSeen", "Nat", strconv.Itoa(nRoutes), nRoutes)
}
