package main

// C04 deepening round: the internal rate limiter (engine.go applyRateLimiterMiddleware, ratelimiter.go) — the stage
// behind the auth guard whose budget a request without a valid token must never touch.

import (
	"os"
	"path/filepath"
	"regexp"
	"fmt"
	"go/ast"
	"go/token"
	"strconv"
	"strings"
)

// net/http method constants (stable)
var c04HTTPMethods = map[string]string{
	"MethodGet": "GET", "MethodHead": "HEAD", "MethodPost": "POST", "MethodPut": "PUT", "MethodPatch": "PATCH",
	"MethodDelete": "DELETE", "MethodConnect": "CONNECT", "MethodOptions": "OPTIONS", "MethodTrace": "TRACE",
}

func c04Flat(n ast.Node) string { return strings.Join(strings.Fields(c04Src(n)), " ") }

func extractC04Limiter(l *lean, eng *ast.File) {
	cond, ctor := "MISSING", "MISSING"
	var rows []string
	rawTable := map[string][]string{}
	interval, limit, burst := "MISSING", "unknown_limit", "unknown_burst"
	nIfs, nUses := 0, 0
	if fd := funcDecl(eng, "applyRateLimiterMiddleware"); fd != nil {
		for _, st := range fd.Body.List {
			ifs, ok := st.(*ast.IfStmt)
			if !ok {
				nUses += 100 // any statement outside the one `if` changes the wiring: make the fact differ
				continue
			}
			nIfs++
			cond = c04Flat(ifs.Cond)
			if ifs.Else != nil {
				cond += " ELSE"
			}
			ast.Inspect(ifs.Body, func(n ast.Node) bool {
				c, ok := n.(*ast.CallExpr)
				if !ok {
					return true
				}
				switch exprString(c.Fun) {
				case "echoServer.Use":
					nUses++
				case "newInternalRateLimiter":
					ctor = "newInternalRateLimiter"
					if len(c.Args) == 4 {
						if cl, ok := c.Args[0].(*ast.CompositeLit); ok {
							for _, el := range cl.Elts {
								kv, ok := el.(*ast.KeyValueExpr)
								if !ok {
									rows = append(rows, "unknown_element")
									continue
								}
								key := "unknown_" + strings.ReplaceAll(exprString(kv.Key), ".", "_")
								rawKey := "?" + exprString(kv.Key)
								if se, ok := kv.Key.(*ast.SelectorExpr); ok && exprString(se.X) == "http" {
									if m, ok := c04HTTPMethods[se.Sel.Name]; ok {
										key, rawKey = fmt.Sprintf("%q", m), m
									}
								} else if s, ok := c04StrLit(kv.Key); ok {
									key, rawKey = fmt.Sprintf("%q", s), s
								}
								var paths []string
								if vl, ok := kv.Value.(*ast.CompositeLit); ok {
									for _, pe := range vl.Elts {
										if s, ok := c04StrLit(pe); ok {
											paths = append(paths, c04LeanStr(s))
											rawTable[rawKey] = append(rawTable[rawKey], s)
										} else {
											paths = append(paths, "unknown_path_expr")
										}
									}
								} else {
									paths = append(paths, "unknown_value")
								}
								rows = append(rows, "("+key+", ["+strings.Join(paths, ", ")+"])")
							}
						} else {
							rows = append(rows, "unknown_table_expr")
						}
						interval = c04Flat(c.Args[1])
						if b, ok := c.Args[2].(*ast.BasicLit); ok && b.Kind == token.INT {
							limit = b.Value
						}
						if b, ok := c.Args[3].(*ast.BasicLit); ok && b.Kind == token.INT {
							burst = b.Value
						}
					}
				}
				return true
			})
		}
	}
	l.def("limiterCondition", "String", fmt.Sprintf("%q", cond), cond)
	l.def("limiterInstallShape", "List Nat", fmt.Sprintf("[%d, %d]", nIfs, nUses), []int{nIfs, nUses})
	l.def("limiterConstructor", "String", fmt.Sprintf("%q", ctor), ctor)
	l.def("limiterTable", "List (String × List Str)", "["+strings.Join(rows, ",\n    ")+"]", rawTable)
	l.def("limiterIntervalExpr", "String", fmt.Sprintf("%q", interval), interval)
	l.def("limiterPerInterval", "Nat", limit, limit)
	l.def("limiterBurst", "Nat", burst, burst)

	// didnuts.MethodName
	method := "MISSING"
	_, mgr := parseFile("vdr/didnuts/manager.go")
	for _, d := range mgr.Decls {
		gd, ok := d.(*ast.GenDecl)
		if !ok || gd.Tok != token.CONST {
			continue
		}
		for _, sp := range gd.Specs {
			vs := sp.(*ast.ValueSpec)
			for i, n := range vs.Names {
				if n.Name == "MethodName" && i < len(vs.Values) {
					if s, ok := c04StrLit(vs.Values[i]); ok {
						method = s
					}
				}
			}
		}
	}
	l.def("didnutsMethodName", "String", fmt.Sprintf("%q", method), method)

	// ratelimiter.go: the skipper, the store and the bucket construction, verbatim
	_, rl := parseFile("http/ratelimiter.go")
	skipper, idx, deny, store := "MISSING", "MISSING", "MISSING", "MISSING"
	if fd := funcDecl(rl, "newInternalRateLimiter"); fd != nil {
		ast.Inspect(fd, func(n ast.Node) bool {
			kv, ok := n.(*ast.KeyValueExpr)
			if !ok {
				return true
			}
			switch exprString(kv.Key) {
			case "Skipper":
				skipper = c04Flat(kv.Value)
			case "IdentifierExtractor":
				idx = c04Flat(kv.Value)
			case "DenyHandler":
				deny = c04Flat(kv.Value)
			case "Store":
				store = c04Flat(kv.Value)
			}
			return true
		})
	}
	l.def("limiterSkipper", "String", fmt.Sprintf("%q", skipper), skipper)
	l.def("limiterIdentifier", "String", fmt.Sprintf("%q", idx), idx)
	l.def("limiterDenyHandler", "String", fmt.Sprintf("%q", deny), deny)
	l.def("limiterStoreExpr", "String", fmt.Sprintf("%q", store), store)
	allow, bucket := "MISSING", "MISSING"
	for _, d := range rl.Decls {
		if fd, ok := d.(*ast.FuncDecl); ok && fd.Name.Name == "Allow" {
			allow = c04Flat(fd.Body)
		}
	}
	if fd := funcDecl(rl, "newInternalRateLimiterStore"); fd != nil {
		bucket = c04Flat(fd.Body)
	}
	l.def("limiterAllowBody", "String", fmt.Sprintf("%q", allow), allow)
	l.def("limiterBucketBody", "String", fmt.Sprintf("%q", bucket), bucket)
	_ = strconv.Itoa
}

// keyIsSecure's RSA strength test and bestPracticesCheck's jti test, as written; the version of the uuid library whose
// Parse grammar NutsModel/C04/Uuid.lean mirrors
func extractC04KeysAndJti(l *lean, akF, mw *ast.File) {
	rsaTest := "MISSING"
	var rsaReturns []string
	if fd := funcDecl(akF, "keyIsSecure"); fd != nil {
		ast.Inspect(fd, func(n ast.Node) bool {
			cc, ok := n.(*ast.CaseClause)
			if !ok || len(cc.List) != 1 || c04Src(cc.List[0]) != "*rsa.PublicKey" {
				return true
			}
			rsaTest = ""
			for _, st := range cc.Body {
				switch x := st.(type) {
				case *ast.IfStmt:
					t := c04Flat(x.Cond)
					if x.Init != nil {
						t = c04Flat(x.Init) + "; " + t
					}
					rsaTest += "if " + t + " " + c04Flat(x.Body) + "; "
				default:
					rsaTest += c04Flat(st) + "; "
				}
			}
			rsaTest = strings.TrimSuffix(rsaTest, "; ")
			return false
		})
	}
	_ = rsaReturns
	l.def("rsaStrengthCase", "String", fmt.Sprintf("%q", rsaTest), rsaTest)

	var jtiStmts []string
	if fd := funcDecl(mw, "bestPracticesCheck"); fd != nil {
		for _, st := range fd.Body.List {
			t := c04Flat(st)
			if strings.Contains(t, "jti") || strings.Contains(t, "JTI") {
				if is, ok := st.(*ast.IfStmt); ok {
					t = c04Flat(is.Cond)
					if is.Init != nil {
						t = c04Flat(is.Init) + "; " + t
					}
					t = "if " + t
				}
				jtiStmts = append(jtiStmts, t)
			}
		}
	}
	l.def("jtiCheck", "List String", leanStrList(jtiStmts), jtiStmts)
	tj := "MISSING"
	if fd := funcDecl(mw, "tokenJTI"); fd != nil {
		tj = c04Flat(fd.Body)
	}
	l.def("tokenJTIBody", "String", fmt.Sprintf("%q", tj), tj)

	ver := "MISSING"
	if b, err := os.ReadFile(filepath.Join(repo, "go.mod")); err == nil {
		if m := regexp.MustCompile(`(?m)^\s*github.com/google/uuid\s+(\S+)`).FindSubmatch(b); m != nil {
			ver = string(m[1])
		}
	}
	l.def("uuidModuleVersion", "String", fmt.Sprintf("%q", ver), ver)
}
