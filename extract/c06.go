package main

import (
	"go/ast"
	"go/token"
	"strings"
)

func init() { extractors["C06"] = extractC06 }

// exprString of vlib's main.go does not cover every node kind; this one adds the few needed here.
func c06Expr(e ast.Expr) string {
	switch x := e.(type) {
	case *ast.CallExpr:
		var args []string
		for _, a := range x.Args {
			args = append(args, c06Expr(a))
		}
		return c06Expr(x.Fun) + "(" + strings.Join(args, ", ") + ")"
	case *ast.BinaryExpr:
		return c06Expr(x.X) + " " + x.Op.String() + " " + c06Expr(x.Y)
	case *ast.ParenExpr:
		return "(" + c06Expr(x.X) + ")"
	case *ast.UnaryExpr:
		return x.Op.String() + c06Expr(x.X)
	case *ast.SelectorExpr:
		return c06Expr(x.X) + "." + x.Sel.Name
	case *ast.CompositeLit:
		var els []string
		for _, el := range x.Elts {
			els = append(els, c06Expr(el))
		}
		return c06Expr(x.Type) + "{" + strings.Join(els, ", ") + "}"
	case *ast.KeyValueExpr:
		return c06Expr(x.Key) + ": " + c06Expr(x.Value)
	case *ast.IndexExpr:
		return c06Expr(x.X) + "[" + c06Expr(x.Index) + "]"
	}
	return exprString(e)
}

// atoms of a boolean condition: split on && and ||
func c06Atoms(e ast.Expr, out *[]string) {
	switch x := e.(type) {
	case *ast.BinaryExpr:
		if x.Op == token.LAND || x.Op == token.LOR {
			c06Atoms(x.X, out)
			c06Atoms(x.Y, out)
			return
		}
	case *ast.ParenExpr:
		c06Atoms(x.X, out)
		return
	}
	*out = append(*out, c06Expr(e))
}

// all if-conditions (as atoms) inside a node, in source order
func c06Conds(n ast.Node) []string {
	var out []string
	ast.Inspect(n, func(m ast.Node) bool {
		if is, ok := m.(*ast.IfStmt); ok {
			c06Atoms(is.Cond, &out)
		}
		return true
	})
	return out
}

// names of called functions inside a node, in source order (selector calls rendered as a.b.c)
func c06Calls(n ast.Node) []string {
	var out []string
	ast.Inspect(n, func(m ast.Node) bool {
		if c, ok := m.(*ast.CallExpr); ok {
			out = append(out, c06Expr(c.Fun))
		}
		return true
	})
	return out
}

func c06VarLit(f *ast.File, name string) *ast.CompositeLit {
	var res *ast.CompositeLit
	ast.Inspect(f, func(n ast.Node) bool {
		if vs, ok := n.(*ast.ValueSpec); ok {
			for i, id := range vs.Names {
				if id.Name == name && i < len(vs.Values) {
					if cl, ok := vs.Values[i].(*ast.CompositeLit); ok {
						res = cl
					}
				}
			}
		}
		return true
	})
	return res
}

func c06ConstStr(f *ast.File, name string) string {
	res := "<missing:" + name + ">"
	ast.Inspect(f, func(n ast.Node) bool {
		if vs, ok := n.(*ast.ValueSpec); ok {
			for i, id := range vs.Names {
				if id.Name == name && i < len(vs.Values) {
					if bl, ok := vs.Values[i].(*ast.BasicLit); ok && bl.Kind == token.STRING {
						res = strings.Trim(bl.Value, "\"")
					}
				}
			}
		}
		return true
	})
	return res
}

func extractC06() *lean {
	l := newLean("C06")
	_, txf := parseFile("network/dag/transaction.go")
	_, pf := parseFile("network/dag/parser.go")
	_, vf := parseFile("network/dag/verifier.go")
	_, sf := parseFile("network/dag/state.go")
	_, df := parseFile("network/dag/dag.go")
	_, nf := parseFile("network/network.go")
	_, kf := parseFile("network/dag/keys.go")

	// allow-lists
	var algos []string
	if cl := c06VarLit(txf, "allowedAlgos"); cl != nil {
		for _, e := range cl.Elts {
			if sel, ok := e.(*ast.SelectorExpr); ok && exprString(sel.X) == "jwa" {
				algos = append(algos, sel.Sel.Name)
			} else {
				algos = append(algos, "<unmapped:"+c06Expr(e)+">")
			}
		}
	}
	l.def("allowedAlgos", "List String", leanStrList(algos), algos)
	var vers []string
	if cl := c06VarLit(txf, "allowedVersion"); cl != nil {
		for _, e := range cl.Elts {
			if bl, ok := e.(*ast.BasicLit); ok && bl.Kind == token.INT {
				vers = append(vers, bl.Value)
			} else {
				vers = append(vers, "unmapped_"+c06Expr(e)) // does not elaborate
			}
		}
	}
	l.def("allowedVersion", "List Int", "["+strings.Join(vers, ", ")+"]", vers)
	for _, h := range [][2]string{{"sigtHeader", "signingTimeHeader"}, {"verHeader", "versionHeader"}, {"prevsHeader", "previousHeader"}, {"palHeader", "palHeader"}, {"lcHeader", "lamportClockHeader"}} {
		v := c06ConstStr(txf, h[1])
		l.def(h[0], "String", leanStrList([]string{v})[1:len(leanStrList([]string{v}))-1], v)
	}

	// parser: step order, signature-count conditions, guards per step
	var steps []string
	if fd := funcDecl(pf, "ParseTransaction"); fd != nil {
		ast.Inspect(fd, func(n ast.Node) bool {
			if vs, ok := n.(*ast.ValueSpec); ok && len(vs.Names) == 1 && vs.Names[0].Name == "steps" && len(vs.Values) == 1 {
				if cl, ok := vs.Values[0].(*ast.CompositeLit); ok {
					for _, e := range cl.Elts {
						steps = append(steps, c06Expr(e))
					}
				}
			}
			return true
		})
		l.def("parseConds", "List String", leanStrList(c06Conds(fd)), c06Conds(fd))
	} else {
		l.def("parseConds", "List String", "[]", nil)
	}
	l.def("parseSteps", "List String", leanStrList(steps), steps)
	var fconds []string
	if fd := funcDecl(pf, "isJWSSerialization"); fd != nil {
		fconds = c06Conds(fd)
	}
	l.def("framingConds", "List String", leanStrList(fconds), fconds)
	for _, fn := range []string{"parseLamportClock", "parseSigningTime", "parseVersion", "parsePrevious", "parsePAL", "parseSignatureParams", "parsePayload", "parseContentType", "parseSigningAlgorithm"} {
		var conds []string
		if fd := funcDecl(pf, fn); fd != nil {
			conds = c06Conds(fd)
		} else {
			conds = []string{"<missing>"}
		}
		l.def(fn+"Conds", "List String", leanStrList(conds), conds)
	}

	// parseSignatureParams: key types refused by a type switch on the embedded jwk
	var refused []string
	if fd := funcDecl(pf, "parseSignatureParams"); fd != nil {
		ast.Inspect(fd, func(n ast.Node) bool {
			if ts, ok := n.(*ast.TypeSwitchStmt); ok {
				for _, st := range ts.Body.List {
					cc, ok := st.(*ast.CaseClause)
					if !ok || len(cc.Body) == 0 {
						continue
					}
					if _, isRet := cc.Body[len(cc.Body)-1].(*ast.ReturnStmt); !isRet {
						continue
					}
					for _, e := range cc.List {
						refused = append(refused, c06Expr(e))
					}
				}
			}
			return true
		})
	}
	l.def("jwkRefusedKeyTypes", "List String", leanStrList(refused), refused)

	// verifier: prev verifier's comparisons and initial value; verifier order in network.go
	var pconds, pinit []string
	if fd := funcDecl(vf, "NewPrevTransactionsVerifier"); fd != nil {
		pconds = c06Conds(fd)
		ast.Inspect(fd, func(n ast.Node) bool {
			if as, ok := n.(*ast.AssignStmt); ok && as.Tok == token.DEFINE && len(as.Lhs) == 1 && exprString(as.Lhs[0]) == "highestLamportClock" {
				pinit = append(pinit, c06Expr(as.Rhs[0]))
			}
			return true
		})
	}
	l.def("prevVerifierConds", "List String", leanStrList(pconds), pconds)
	l.def("prevVerifierInit", "List String", leanStrList(pinit), pinit)
	var sconds []string
	if fd := funcDecl(vf, "NewTransactionSignatureVerifier"); fd != nil {
		sconds = c06Conds(fd)
	}
	l.def("sigVerifierConds", "List String", leanStrList(sconds), sconds)
	var kconds []string
	for _, d := range kf.Decls {
		if fd, ok := d.(*ast.FuncDecl); ok && (fd.Name.Name == "ResolvePublicKey" || fd.Name.Name == "resolvePublicKey") {
			kconds = append(kconds, c06Conds(fd)...)
		}
	}
	l.def("keyResolverConds", "List String", leanStrList(kconds), kconds)
	var verifiers []string
	ast.Inspect(nf, func(n ast.Node) bool {
		if c, ok := n.(*ast.CallExpr); ok && c06Expr(c.Fun) == "dag.NewState" {
			for _, a := range c.Args[1:] {
				if ac, ok := a.(*ast.CallExpr); ok {
					verifiers = append(verifiers, c06Expr(ac.Fun))
				} else {
					verifiers = append(verifiers, c06Expr(a))
				}
			}
		}
		return true
	})
	l.def("stateVerifiers", "List String", leanStrList(verifiers), verifiers)

	// state.Add: phases, what happens inside the write closure, tx options
	var phases, writeCalls, writeConds, firstStmt, opts, rollback, optArgs, defers []string
	for _, d := range sf.Decls {
		fd, ok := d.(*ast.FuncDecl)
		if !ok || fd.Name.Name != "Add" {
			continue
		}
		for _, st := range fd.Body.List { // statements of Add itself (not of its closures)
			if ds, ok := st.(*ast.DeferStmt); ok {
				defers = append(defers, "defer "+c06Expr(ds.Call))
			}
			if as, ok := st.(*ast.AssignStmt); ok && len(as.Lhs) == 1 && c06Expr(as.Lhs[0]) == "unlock" {
				if fl, ok := as.Rhs[0].(*ast.FuncLit); ok && len(fl.Body.List) == 1 {
					if es, ok := fl.Body.List[0].(*ast.ExprStmt); ok {
						defers = append(defers, "unlock := "+c06Expr(es.X))
					}
				}
			}
		}
		ast.Inspect(fd.Body, func(n ast.Node) bool {
			c, ok := n.(*ast.CallExpr)
			if !ok {
				return true
			}
			fn := c06Expr(c.Fun)
			if fn == "s.db.Read" || fn == "s.db.Write" || fn == "s.addMutex.Lock" {
				phases = append(phases, fn)
			}
			if fn == "s.db.Write" && len(c.Args) >= 2 {
				if fl, ok := c.Args[1].(*ast.FuncLit); ok {
					for _, call := range c06Calls(fl.Body) {
						if strings.HasPrefix(call, "s.") || strings.HasPrefix(call, "hash.") {
							writeCalls = append(writeCalls, call)
						}
					}
					writeConds = c06Conds(fl.Body)
					if len(fl.Body.List) > 0 {
						if is, ok := fl.Body.List[0].(*ast.IfStmt); ok {
							ret := ""
							if len(is.Body.List) == 1 {
								if rs, ok := is.Body.List[0].(*ast.ReturnStmt); ok && len(rs.Results) == 1 {
									ret = " -> return " + c06Expr(rs.Results[0])
								}
							}
							firstStmt = append(firstStmt, c06Expr(is.Cond)+ret)
						}
					}
				}
				for _, a := range c.Args[2:] {
					if ac, ok := a.(*ast.CallExpr); ok {
						opts = append(opts, c06Expr(ac.Fun))
						if len(ac.Args) == 1 {
							if id, ok := ac.Args[0].(*ast.Ident); ok {
								optArgs = append(optArgs, c06Expr(ac.Fun)+"("+id.Name+")")
							}
						}
						if c06Expr(ac.Fun) == "stoabs.OnRollback" && len(ac.Args) == 1 {
							if fl, ok := ac.Args[0].(*ast.FuncLit); ok {
								for _, st := range fl.Body.List {
									if es, ok := st.(*ast.ExprStmt); ok {
										rollback = append(rollback, c06Expr(es.X))
									}
								}
							}
						}
					}
				}
			}
			return true
		})
	}
	l.def("addPhases", "List String", leanStrList(phases), phases)
	l.def("addWriteFirst", "List String", leanStrList(firstStmt), firstStmt)
	l.def("addWriteCalls", "List String", leanStrList(writeCalls), writeCalls)
	l.def("addWriteConds", "List String", leanStrList(writeConds), writeConds)
	l.def("addWriteOpts", "List String", leanStrList(opts), opts)
	l.def("addRollbackStmts", "List String", leanStrList(rollback), rollback)
	l.def("addWriteOptArgs", "List String", leanStrList(optArgs), optArgs)
	l.def("addUnlocking", "List String", leanStrList(defers), defers)

	// ---- the edges: who calls Add / ParseTransaction / WritePayload, and how the state is wired
	callsWithArgs := func(n ast.Node, prefixes ...string) []string {
		var out []string
		ast.Inspect(n, func(m ast.Node) bool {
			if c, ok := m.(*ast.CallExpr); ok {
				f := c06Expr(c.Fun)
				for _, p := range prefixes {
					if strings.HasPrefix(f, p) {
						out = append(out, c06Expr(c))
					}
				}
			}
			return true
		})
		return out
	}
	methodDecl := func(f *ast.File, name string) *ast.FuncDecl { return funcDecl(f, name) }
	_, tlf := parseFile("network/transport/v2/transactionlist_handler.go")
	_, hf := parseFile("network/transport/v2/handlers.go")
	_, cf := parseFile("network/transport/v2/conversation.go")
	var lconds, lcalls, pconds2, pcalls, ptconds, ptcalls []string
	if fd := methodDecl(tlf, "handleTransactionList"); fd != nil {
		lconds = c06Conds(fd)
		lcalls = callsWithArgs(fd, "p.state.Add", "subEnvelope.parseTransactions")
	}
	if fd := methodDecl(cf, "parseTransactions"); fd != nil {
		pconds2 = c06Conds(fd)
		pcalls = callsWithArgs(fd, "dag.ParseTransaction")
		// how a parse error leaves the loop: the statements of `if err != nil {…}` right after the parse
		ast.Inspect(fd, func(m ast.Node) bool {
			if is, ok := m.(*ast.IfStmt); ok && c06Expr(is.Cond) == "err != nil" && len(is.Body.List) == 1 {
				if _, ok := is.Body.List[0].(*ast.ReturnStmt); ok {
					pcalls = append(pcalls, "on-error:return")
				}
			}
			return true
		})
	}
	if fd := methodDecl(hf, "handleTransactionPayload"); fd != nil {
		ptconds = c06Conds(fd)
		ptcalls = callsWithArgs(fd, "p.state.WritePayload", "hash.SHA256Sum", "p.state.GetTransaction")
	}
	l.def("listHandlerConds", "List String", leanStrList(lconds), lconds)
	l.def("listHandlerCalls", "List String", leanStrList(lcalls), lcalls)
	l.def("parseTransactionsConds", "List String", leanStrList(pconds2), pconds2)
	l.def("parseTransactionsCalls", "List String", leanStrList(pcalls), pcalls)
	l.def("payloadHandlerConds", "List String", leanStrList(ptconds), ptconds)
	l.def("payloadHandlerCalls", "List String", leanStrList(ptcalls), ptcalls)
	var wiring, ctconds, ctcalls, clconds, ntconds []string
	ast.Inspect(nf, func(n ast.Node) bool {
		switch x := n.(type) {
		case *ast.CallExpr:
			if c06Expr(x.Fun) == "dag.NewState" {
				wiring = append(wiring, c06Expr(x))
			}
		case *ast.AssignStmt:
			if len(x.Lhs) == 1 && c06Expr(x.Lhs[0]) == "nutsKeyResolver" && len(x.Rhs) == 1 {
				wiring = append(wiring, "nutsKeyResolver := "+c06Expr(x.Rhs[0]))
			}
		}
		return true
	})
	if fd := funcDecl(nf, "CreateTransaction"); fd != nil {
		ctconds = c06Conds(fd)
		ctcalls = callsWithArgs(fd, "n.state.Head", "n.calculateLamportClock", "dag.NewTransaction", "n.state.Add", "n.isPayloadPresent", "append")
	}
	if fd := funcDecl(nf, "calculateLamportClock"); fd != nil {
		clconds = c06Conds(fd)
		ast.Inspect(fd, func(m ast.Node) bool {
			if rs, ok := m.(*ast.ReturnStmt); ok && len(rs.Results) == 2 {
				clconds = append(clconds, "return "+c06Expr(rs.Results[0]))
			}
			return true
		})
	}
	if fd := funcDecl(txf, "NewTransaction"); fd != nil {
		ntconds = c06Conds(fd)
	}
	l.def("stateWiring", "List String", leanStrList(wiring), wiring)
	l.def("createTxConds", "List String", leanStrList(ctconds), ctconds)
	l.def("createTxCalls", "List String", leanStrList(ctcalls), ctcalls)
	l.def("calcClockConds", "List String", leanStrList(clconds), clconds)
	l.def("newTransactionConds", "List String", leanStrList(ntconds), ntconds)

	// dag.addSingle / dag.add conditions
	var asc, adc []string
	for _, d := range df.Decls {
		if fd, ok := d.(*ast.FuncDecl); ok {
			if fd.Name.Name == "addSingle" {
				asc = c06Conds(fd)
			}
			if fd.Name.Name == "add" {
				adc = c06Conds(fd)
			}
		}
	}
	l.def("addSingleConds", "List String", leanStrList(asc), asc)
	l.def("dagAddConds", "List String", leanStrList(adc), adc)
	extractC06Deep(l, pf, df)
	return l
}
