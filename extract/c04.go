package main

import (
	"bytes"
	"fmt"
	"io/fs"
	"os"
	"path/filepath"
	"regexp"
	"sort"
	"go/ast"
	"go/printer"
	"go/token"
	"strconv"
	"strings"
)

func init() { extractors["C04"] = extractC04 }

// jwa.<Ident> -> the string value of the constant in lestrrat-go/jwx/v2/jwa (stable RFC 7518 names)
var c04JwaNames = map[string]string{
	"ES256": "ES256", "ES256K": "ES256K", "ES384": "ES384", "ES512": "ES512", "EdDSA": "EdDSA",
	"HS256": "HS256", "HS384": "HS384", "HS512": "HS512", "NoSignature": "none",
	"PS256": "PS256", "PS384": "PS384", "PS512": "PS512", "RS256": "RS256", "RS384": "RS384", "RS512": "RS512",
}

// jwt.<Ident>Key -> claim name
var c04JwtKeyNames = map[string]string{
	"JwtIDKey": "jti", "IssuedAtKey": "iat", "ExpirationKey": "exp", "NotBeforeKey": "nbf",
	"AudienceKey": "aud", "IssuerKey": "iss", "SubjectKey": "sub",
}

// jws.Headers accessor -> header name
var c04JwsHdrAccessors = map[string]string{"JWK": "jwk", "JWKSetURL": "jku", "X509CertChain": "x5c", "X509URL": "x5u"}

// leanStrListOrUnknown renders a list of Lean string literals; an unmapped source identifier becomes a bare
// identifier `unknown_X` which does not elaborate (the model needs an update, not a silent default)
func c04LeanMapped(idents []string, table map[string]string) (string, []string) {
	var q, raw []string
	for _, id := range idents {
		if v, ok := table[id]; ok {
			q = append(q, fmt.Sprintf("%q", v))
			raw = append(raw, v)
		} else {
			q = append(q, "unknown_"+id)
			raw = append(raw, "?"+id)
		}
	}
	return "[" + strings.Join(q, ", ") + "]", raw
}

// c04Src renders an expression exactly as written (exprString of main.go drops call arguments)
func c04Src(e ast.Node) string {
	var b bytes.Buffer
	_ = printer.Fprint(&b, token.NewFileSet(), e)
	return b.String()
}

func c04StrLit(e ast.Expr) (string, bool) {
	if b, ok := e.(*ast.BasicLit); ok && b.Kind == token.STRING {
		s, err := strconv.Unquote(b.Value)
		return s, err == nil
	}
	return "", false
}

func c04LeanBool(b bool) string {
	if b {
		return "true"
	}
	return "false"
}

func c04LeanStr(s string) string { return fmt.Sprintf("%q.toList", s) }

func c04ReturnsTrue(body []ast.Stmt) bool {
	for _, s := range body {
		if r, ok := s.(*ast.ReturnStmt); ok && len(r.Results) == 1 {
			if id, ok := r.Results[0].(*ast.Ident); ok {
				return id.Name == "true"
			}
		}
	}
	return false
}

func c04ReturnsError(body *ast.BlockStmt) bool {
	for _, s := range body.List {
		if r, ok := s.(*ast.ReturnStmt); ok && len(r.Results) == 1 {
			if id, ok := r.Results[0].(*ast.Ident); ok && id.Name == "nil" {
				return false
			}
			return true
		}
	}
	return false
}

func extractC04() *lean {
	l := newLean("C04", "NutsModel.C04.Token", "NutsModel.C04.Uuid", "NutsModel.C04.SshKey")
	l.sb.WriteString("open Nuts.C04\n")

	// ---------------- http/engine.go
	_, eng := parseFile("http/engine.go")

	// the string handed to matchesPath by the auth skipper, and whether the result is negated
	sel, neg, authVia := "MISSING", false, "MISSING"
	if fd := funcDecl(eng, "applyAuthMiddleware"); fd != nil {
		ast.Inspect(fd, func(n ast.Node) bool {
			as, ok := n.(*ast.AssignStmt)
			if !ok || len(as.Lhs) != 1 || len(as.Rhs) != 1 || exprString(as.Lhs[0]) != "skipper" {
				return true
			}
			fl, ok := as.Rhs[0].(*ast.FuncLit)
			if !ok {
				sel = "not-a-func-literal"
				return true
			}
			ast.Inspect(fl, func(m ast.Node) bool {
				if r, ok := m.(*ast.ReturnStmt); ok && len(r.Results) == 1 {
					e := r.Results[0]
					if u, ok := e.(*ast.UnaryExpr); ok && u.Op == token.NOT {
						neg = true
						e = u.X
					}
					if c, ok := e.(*ast.CallExpr); ok && exprString(c.Fun) == "matchesPath" && len(c.Args) == 2 && exprString(c.Args[1]) == "path" {
						sel = exprString(c.Args[0])
					} else {
						sel = "unrecognised:" + exprString(e)
					}
				}
				return true
			})
			return true
		})
		// how the middleware is installed on the echo servers
		ast.Inspect(fd, func(n ast.Node) bool {
			if c, ok := n.(*ast.CallExpr); ok && len(c.Args) == 1 && exprString(c.Args[0]) == "authenticator.Handler" {
				authVia = exprString(c.Fun)
			}
			return true
		})
	}
	selLean := map[string]string{"c.Request().RequestURI": ".requestURI", "c.Request().URL.Path": ".urlPath"}[sel]
	if selLean == "" {
		selLean = ".unknown_selector"
	}
	l.def("authSelector", "Selector", selLean, sel)
	l.def("authSkipperNegated", "Bool", c04LeanBool(neg), neg)
	l.def("authInstalledWith", "String", fmt.Sprintf("%q", authVia), authVia)

	// Configure: binds and the guarded path
	authPath, rootAddr, intAddr := "MISSING", "MISSING", "MISSING"
	var internalBinds []string
	if fd := funcDecl(eng, "Configure"); fd != nil {
		ast.Inspect(fd, func(n ast.Node) bool {
			switch x := n.(type) {
			case *ast.CallExpr:
				switch exprString(x.Fun) {
				case "h.applyAuthMiddleware":
					if len(x.Args) == 3 {
						if s, ok := c04StrLit(x.Args[1]); ok {
							authPath = s
						}
					}
				case "h.server.Bind":
					if len(x.Args) >= 2 && exprString(x.Args[0]) == "RootPath" {
						rootAddr = exprString(x.Args[1])
					}
				}
			case *ast.RangeStmt:
				cl, ok := x.X.(*ast.CompositeLit)
				if !ok {
					return true
				}
				val := exprString(x.Value)
				ast.Inspect(x.Body, func(m ast.Node) bool {
					if c, ok := m.(*ast.CallExpr); ok && exprString(c.Fun) == "h.server.Bind" && len(c.Args) >= 2 && exprString(c.Args[0]) == val {
						intAddr = exprString(c.Args[1])
						for _, e := range cl.Elts {
							if s, ok := c04StrLit(e); ok {
								internalBinds = append(internalBinds, s)
							} else {
								internalBinds = append(internalBinds, "?"+exprString(e))
							}
						}
					}
					return true
				})
			}
			return true
		})
	}
	l.def("authPath", "Str", c04LeanStr(authPath), authPath)
	var ib []string
	for _, b := range internalBinds {
		ib = append(ib, c04LeanStr(b))
	}
	l.def("internalBinds", "List Str", "["+strings.Join(ib, ", ")+"]", internalBinds)
	l.def("internalBindsAddressExpr", "String", fmt.Sprintf("%q", intAddr), intAddr)
	l.def("rootBindAddressExpr", "String", fmt.Sprintf("%q", rootAddr), rootAddr)

	// http/echo.go: RootPath constant, getBindFromPath lower-cases
	_, ech := parseFile("http/echo.go")
	rootPath := "MISSING"
	for _, d := range ech.Decls {
		if gd, ok := d.(*ast.GenDecl); ok && gd.Tok == token.CONST {
			for _, sp := range gd.Specs {
				vs := sp.(*ast.ValueSpec)
				for i, n := range vs.Names {
					if n.Name == "RootPath" && i < len(vs.Values) {
						if s, ok := c04StrLit(vs.Values[i]); ok {
							rootPath = s
						}
					}
				}
			}
		}
	}
	l.def("rootPath", "Str", c04LeanStr(rootPath), rootPath)
	lower := false
	if fd := funcDecl(ech, "getBindFromPath"); fd != nil {
		ast.Inspect(fd, func(n ast.Node) bool {
			if c, ok := n.(*ast.CallExpr); ok && exprString(c.Fun) == "strings.ToLower" {
				lower = true
			}
			return true
		})
	}
	l.def("bindLowercasesFirstSegment", "Bool", c04LeanBool(lower), lower)

	// ---------------- http/tokenV2/middleware.go
	_, mw := parseFile("http/tokenV2/middleware.go")
	maxLen := "0"
	for _, d := range mw.Decls {
		if gd, ok := d.(*ast.GenDecl); ok && gd.Tok == token.CONST {
			for _, sp := range gd.Specs {
				vs := sp.(*ast.ValueSpec)
				for i, n := range vs.Names {
					if n.Name == "MaximumCredentialLength" && i < len(vs.Values) {
						maxLen = exprString(vs.Values[i])
					}
				}
			}
		}
	}
	var algs []string
	if fd := funcDecl(mw, "acceptableSignatureAlgorithm"); fd != nil {
		ast.Inspect(fd, func(n ast.Node) bool {
			if cc, ok := n.(*ast.CaseClause); ok && c04ReturnsTrue(cc.Body) {
				if cc.List == nil {
					algs = append(algs, "DEFAULT-CASE-RETURNS-TRUE")
				}
				for _, e := range cc.List {
					algs = append(algs, strings.TrimPrefix(exprString(e), "jwa."))
				}
			}
			return true
		})
	}
	algLean, algRaw := c04LeanMapped(algs, c04JwaNames)

	var forb []string
	sigRule, sigRuleRaw := ".unknown_sig_rule", "MISSING"
	if fd := funcDecl(mw, "credentialIsSecure"); fd != nil {
		ast.Inspect(fd, func(n ast.Node) bool {
			is, ok := n.(*ast.IfStmt)
			if !ok {
				return true
			}
			cond := c04Src(is.Cond)
			if strings.HasPrefix(cond, "signature.ProtectedHeaders().") && c04ReturnsError(is.Body) {
				acc := strings.TrimPrefix(cond, "signature.ProtectedHeaders().")
				acc = acc[:strings.Index(acc, "(")]
				forb = append(forb, acc)
			}
			switch {
			case cond == "len(message.Signatures()) != 1" && c04ReturnsError(is.Body):
				sigRule, sigRuleRaw = ".exactlyOne", cond
			case cond == "secureSignatureCount > 0" && !c04ReturnsError(is.Body) && sigRuleRaw == "MISSING":
				sigRule, sigRuleRaw = ".atLeastOne", cond
			}
			return true
		})
	}
	forbLean, forbRaw := c04LeanMapped(forb, c04JwsHdrAccessors)

	var mand []string
	if fd := funcDecl(mw, "mandatoryJWTFields"); fd != nil {
		ast.Inspect(fd, func(n ast.Node) bool {
			if cl, ok := n.(*ast.CompositeLit); ok {
				for _, e := range cl.Elts {
					mand = append(mand, strings.TrimPrefix(exprString(e), "jwt."))
				}
			}
			return true
		})
	}
	mandLean, mandRaw := c04LeanMapped(mand, c04JwtKeyNames)

	// bestPracticesCheck: the lifetime constants `time.Duration(N)` minutes and the checks performed
	var lifetimes []string
	var bpConds []string
	if fd := funcDecl(mw, "bestPracticesCheck"); fd != nil {
		ast.Inspect(fd, func(n ast.Node) bool {
			switch x := n.(type) {
			case *ast.CallExpr:
				if exprString(x.Fun) == "time.Duration" && len(x.Args) == 1 {
					lifetimes = append(lifetimes, exprString(x.Args[0]))
				}
			case *ast.IfStmt:
				if c04ReturnsError(x.Body) {
					bpConds = append(bpConds, c04Src(x.Cond))
				}
			}
			return true
		})
	}
	life := "0"
	uniform := len(lifetimes) > 0
	for _, v := range lifetimes {
		if v != lifetimes[0] {
			uniform = false
		}
	}
	if uniform {
		life = lifetimes[0]
	} else {
		life = "unknown_lifetime_constants"
	}
	expPositive := false
	for _, c := range bpConds {
		if c == "token.Expiration().Unix() <= 0" {
			expPositive = true
		}
	}
	l.sb.WriteString("def policy : Policy :=\n  { maxCredLen := " + maxLen + "\n    acceptableAlgs := " + algLean + "\n    forbiddenHdrs := " + forbLean +
		"\n    sigRule := " + sigRule + "\n    mandatory := " + mandLean + "\n    maxLifetimeMin := " + life + "\n    expMustBePositive := " + c04LeanBool(expPositive) + " }\n")
	l.facts["policy"] = map[string]interface{}{"maxCredLen": maxLen, "acceptableAlgs": algRaw, "forbiddenHdrs": forbRaw, "sigRule": sigRuleRaw,
		"mandatory": mandRaw, "maxLifetimeMin": lifetimes, "expMustBePositive": expPositive}
	l.def("bestPracticesConditions", "List String", leanStrList(bpConds), bpConds)
	// ---------------- every route registration in the repository (non-test code): first path segments
	routeRe := regexp.MustCompile(`\.(GET|POST|PUT|DELETE|PATCH|HEAD|OPTIONS|CONNECT|TRACE|Any|Add)\((http\.Method[A-Za-z]+, *)?(baseURL *\+ *)?"(/[^"]*)"`)
	segs := map[string]bool{}
	_ = filepath.WalkDir(repo, func(path string, d fs.DirEntry, err error) error {
		if err != nil {
			return nil
		}
		if d.IsDir() {
			if n := d.Name(); n == ".git" || n == "vendor" || n == "docs" || n == "e2e-tests" || n == "node_modules" {
				return filepath.SkipDir
			}
			return nil
		}
		if !strings.HasSuffix(path, ".go") || strings.HasSuffix(path, "_test.go") || strings.Contains(path, "zz_verif") {
			return nil
		}
		b, err := os.ReadFile(path)
		if err != nil {
			return nil
		}
		for _, m := range routeRe.FindAllSubmatch(b, -1) {
			p := strings.TrimPrefix(string(m[4]), "/")
			if i := strings.Index(p, "/"); i >= 0 {
				p = p[:i]
			}
			segs["/"+p] = true
		}
		return nil
	})
	var segList []string
	for k := range segs {
		segList = append(segList, k)
	}
	sort.Strings(segList)
	var segLean []string
	for _, b := range segList {
		segLean = append(segLean, c04LeanStr(b))
	}
	l.def("registeredFirstSegments", "List Str", "["+strings.Join(segLean, ", ")+"]", segList)

	// ---------------- http/config.go: the default listener addresses
	_, cfgF := parseFile("http/config.go")
	defInt, defPub := "MISSING", "MISSING"
	if fd := funcDecl(cfgF, "DefaultConfig"); fd != nil {
		ast.Inspect(fd, func(n ast.Node) bool {
			if kv, ok := n.(*ast.KeyValueExpr); ok && exprString(kv.Key) == "Address" {
				if v, ok := c04StrLit(kv.Value); ok {
					// the enclosing composite literal tells which one: InternalConfig / PublicConfig
					_ = v
				}
			}
			if cl, ok := n.(*ast.CompositeLit); ok {
				t := exprString(cl.Type)
				for _, e := range cl.Elts {
					if kv, ok := e.(*ast.KeyValueExpr); ok && exprString(kv.Key) == "Address" {
						if v, ok := c04StrLit(kv.Value); ok {
							if t == "InternalConfig" {
								defInt = v
							} else if t == "PublicConfig" {
								defPub = v
							}
						}
					}
				}
			}
			return true
		})
	}
	l.def("defaultInternalAddress", "String", fmt.Sprintf("%q", defInt), defInt)
	l.def("defaultPublicAddress", "String", fmt.Sprintf("%q", defPub), defPub)

	// ---------------- applyAuthMiddleware: the auth types it knows (switch cases) and what the default case does
	var authCases []string
	defaultErr := false
	if fd := funcDecl(eng, "applyAuthMiddleware"); fd != nil {
		ast.Inspect(fd, func(n ast.Node) bool {
			if sw, ok := n.(*ast.SwitchStmt); ok && exprString(sw.Tag) == "config.Type" {
				for _, st := range sw.Body.List {
					cc := st.(*ast.CaseClause)
					if cc.List == nil {
						defaultErr = c04ReturnsError(&ast.BlockStmt{List: cc.Body})
					}
					for _, e := range cc.List {
						authCases = append(authCases, c04Src(e))
					}
				}
			}
			return true
		})
	}
	l.def("authTypeCases", "List String", leanStrList(authCases), authCases)
	l.def("authTypeDefaultIsError", "Bool", c04LeanBool(defaultErr), defaultErr)

	// ---------------- authorized_keys.go: minimum RSA size, accepted key types
	_, akF := parseFile("http/tokenV2/authorized_keys.go")
	minRSA := "0"
	for _, d := range akF.Decls {
		if gd, ok := d.(*ast.GenDecl); ok && gd.Tok == token.CONST {
			for _, sp := range gd.Specs {
				vs := sp.(*ast.ValueSpec)
				for i, n := range vs.Names {
					if n.Name == "minimumRSAKeySize" && i < len(vs.Values) {
						minRSA = exprString(vs.Values[i])
					}
				}
			}
		}
	}
	l.def("minimumRSAKeySize", "Nat", minRSA, minRSA)
	var keyTypes []string
	if fd := funcDecl(akF, "keyIsSecure"); fd != nil {
		ast.Inspect(fd, func(n ast.Node) bool {
			if cc, ok := n.(*ast.CaseClause); ok {
				for _, e := range cc.List {
					keyTypes = append(keyTypes, c04Src(e))
				}
			}
			return true
		})
		for _, c := range []string{} {
			_ = c
		}
	}
	l.def("keyIsSecureTypes", "List String", leanStrList(keyTypes), keyTypes)
	var pakConds []string
	if fd := funcDecl(akF, "parseAuthorizedKeys"); fd != nil {
		ast.Inspect(fd, func(n ast.Node) bool {
			if is, ok := n.(*ast.IfStmt); ok {
				c := c04Src(is.Cond)
				if is.Init != nil {
					c = c04Src(is.Init) + "; " + c
				}
				pakConds = append(pakConds, strings.Join(strings.Fields(c), " "))
			}
			return true
		})
	}
	l.def("parseAuthorizedKeysConds", "List String", leanStrList(pakConds), pakConds)
	// ---------------- middleware.go: is the middleware stateless? struct fields, receiver kind, writes / synchronised stores
	var mwFields []string
	for _, d := range mw.Decls {
		if gd, ok := d.(*ast.GenDecl); ok && gd.Tok == token.TYPE {
			for _, sp := range gd.Specs {
				ts := sp.(*ast.TypeSpec)
				if st, ok := ts.Type.(*ast.StructType); ok && ts.Name.Name == "middlewareImpl" {
					for _, f := range st.Fields.List {
						for _, n := range f.Names {
							mwFields = append(mwFields, n.Name+" "+c04Src(f.Type))
						}
					}
				}
			}
		}
	}
	l.def("middlewareImplFields", "List String", leanStrList(mwFields), mwFields)
	var mwMutations []string
	for _, d := range mw.Decls {
		fd, ok := d.(*ast.FuncDecl)
		if !ok || fd.Recv == nil || len(fd.Recv.List) == 0 || len(fd.Recv.List[0].Names) == 0 {
			continue
		}
		recv := fd.Recv.List[0].Names[0].Name
		if _, ptr := fd.Recv.List[0].Type.(*ast.StarExpr); ptr {
			mwMutations = append(mwMutations, fd.Name.Name+": pointer receiver")
		}
		ast.Inspect(fd, func(n ast.Node) bool {
			switch x := n.(type) {
			case *ast.AssignStmt:
				for _, lhs := range x.Lhs {
					if strings.HasPrefix(c04Src(lhs), recv+".") {
						mwMutations = append(mwMutations, fd.Name.Name+": "+c04Src(x))
					}
				}
			case *ast.CallExpr: // m.<field>.<method>(…): a call on something the middleware holds (cache, map, mutex …)
				if strings.HasPrefix(c04Src(x.Fun), recv+".") && strings.Count(c04Src(x.Fun), ".") >= 2 {
					mwMutations = append(mwMutations, fd.Name.Name+": "+c04Src(x.Fun))
				}
			case *ast.IncDecStmt:
				if strings.HasPrefix(c04Src(x.X), recv+".") {
					mwMutations = append(mwMutations, fd.Name.Name+": "+c04Src(x))
				}
			}
			return true
		})
	}
	l.def("middlewareStateUses", "List String", leanStrList(mwMutations), mwMutations)
	// ---------------- Configure: the order in which the middlewares are added (echo runs them in that order)
	var order []string
	if fd := funcDecl(eng, "Configure"); fd != nil {
		ast.Inspect(fd, func(n ast.Node) bool {
			if c, ok := n.(*ast.CallExpr); ok {
				f := exprString(c.Fun)
				if strings.HasPrefix(f, "h.apply") && strings.HasSuffix(f, "Middleware") {
					order = append(order, f)
				}
			}
			return true
		})
	}
	l.def("middlewareOrder", "List String", leanStrList(order), order)
	// ---------------- middleware.go Handler: what echo gets for every request (a fresh closure over `next`, nothing shared)
	hb, hrecv := "MISSING", "MISSING"
	if fd := funcDecl(mw, "Handler"); fd != nil {
		hb = strings.Join(strings.Fields(c04Src(fd.Body)), " ")
		if fd.Recv != nil && len(fd.Recv.List) > 0 {
			hrecv = c04Src(fd.Recv.List[0].Type)
		}
	}
	l.def("middlewareHandlerBody", "String", fmt.Sprintf("%q", hb), hb)
	l.def("middlewareHandlerReceiver", "String", fmt.Sprintf("%q", hrecv), hrecv)
	// ---------------- engine.go matchesPath, verbatim: a plain prefix test, nothing is trimmed or stripped from its input before it
	mpBody := "MISSING"
	if fd := funcDecl(eng, "matchesPath"); fd != nil {
		mpBody = strings.Join(strings.Fields(c04Src(fd.Body)), " ")
	}
	l.def("matchesPathBody", "String", fmt.Sprintf("%q", mpBody), mpBody)
	extractC04Limiter(l, eng)
	extractC04KeysAndJti(l, akF, mw)
	extractC04Config(l)
	extractC04Routes(l)
	return l
}
