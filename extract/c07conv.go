package main

// C07 deepening round 3: the lock discipline of conversation.go's conversationManager. For every method the events
// `Lock` / `RLock` / `Unlock` / `RUnlock` / `defer Unlock` / `defer RUnlock` on `cMan.mutex` and the `return`s, in source
// order, each prefixed with its block nesting depth (0 = statement of the method body). Function literals are not entered.
// Mirrored by NutsModel/C07/ConvLock.lean.

import (
	"go/ast"
	"sort"
	"strconv"
	"strings"
)

func c07LockEvents(body *ast.BlockStmt) []string {
	var out []string
	var walk func(n ast.Node, depth int)
	mutexCall := func(e ast.Expr) string {
		c, ok := e.(*ast.CallExpr)
		if !ok {
			return ""
		}
		s := c07Src(c.Fun)
		if strings.HasPrefix(s, "cMan.mutex.") {
			return strings.TrimPrefix(s, "cMan.mutex.")
		}
		return ""
	}
	walk = func(n ast.Node, depth int) {
		switch x := n.(type) {
		case nil:
			return
		case *ast.BlockStmt:
			if x == nil {
				return
			}
			for _, s := range x.List {
				walk(s, depth)
			}
		case *ast.ExprStmt:
			if m := mutexCall(x.X); m != "" {
				out = append(out, strconv.Itoa(depth)+":"+m)
			}
		case *ast.DeferStmt:
			if m := mutexCall(x.Call); m != "" {
				out = append(out, strconv.Itoa(depth)+":defer "+m)
			} else {
				out = append(out, strconv.Itoa(depth)+":defer other")
			}
		case *ast.ReturnStmt:
			out = append(out, strconv.Itoa(depth)+":return")
		case *ast.IfStmt:
			walk(x.Body, depth+1)
			if x.Else != nil {
				walk(x.Else, depth+1)
			}
		case *ast.ForStmt:
			walk(x.Body, depth+1)
		case *ast.RangeStmt:
			walk(x.Body, depth+1)
		case *ast.SwitchStmt:
			walk(x.Body, depth+1)
		case *ast.TypeSwitchStmt:
			walk(x.Body, depth+1)
		case *ast.SelectStmt:
			walk(x.Body, depth+1)
		case *ast.CaseClause:
			for _, s := range x.Body {
				walk(s, depth)
			}
		case *ast.CommClause:
			for _, s := range x.Body {
				walk(s, depth)
			}
		case *ast.LabeledStmt:
			walk(x.Stmt, depth)
		case *ast.GoStmt:
			out = append(out, strconv.Itoa(depth)+":go")
		}
	}
	walk(body, 0)
	return out
}

// c07FlowCalls: like c07Flow, plus the init statement of an `if` and every call statement (delete(...), defer, method calls)
func c07FlowCalls(n ast.Node) []string {
	if n == nil {
		return []string{"MISSING"}
	}
	var out []string
	ast.Inspect(n, func(m ast.Node) bool {
		switch x := m.(type) {
		case *ast.FuncLit:
			out = append(out, "funclit")
			return false
		case *ast.IfStmt:
			if x.Init != nil {
				out = append(out, "if:"+c07Src(x.Init)+"; "+c07Src(x.Cond))
				for _, sub := range c07FlowCalls(x.Body) {
					out = append(out, sub)
				}
				if x.Else != nil {
					out = append(out, "else")
					out = append(out, c07FlowCalls(x.Else)...)
				}
				return false
			}
			out = append(out, "if:"+c07Src(x.Cond))
		case *ast.RangeStmt:
			out = append(out, "range:"+c07Src(x.X))
		case *ast.AssignStmt:
			out = append(out, "assign:"+c07Src(x))
		case *ast.ExprStmt:
			out = append(out, "call:"+c07Src(x.X))
		case *ast.DeferStmt:
			out = append(out, "defer:"+c07Src(x.Call))
			return false
		case *ast.GoStmt:
			out = append(out, "go")
			return false
		case *ast.ReturnStmt:
			var r []string
			for _, e := range x.Results {
				r = append(r, c07Src(e))
			}
			out = append(out, "return:"+strings.Join(r, ","))
			return false
		}
		return true
	})
	return out
}

func c07Conv(l *lean) {
	_, conv := parseFile("network/transport/v2/conversation.go")
	for _, m := range []string{"startConversation", "hasActiveConversation", "evict", "done", "resetTimeout", "check"} {
		var body ast.Node
		if fd := c07Method(conv, "conversationManager", m); fd != nil {
			body = fd.Body
		}
		fl := c07FlowCalls(body)
		l.def("convFlow_"+m, "List String", leanStrList(fl), fl)
	}
	var rows []string
	for _, d := range conv.Decls {
		fd, ok := d.(*ast.FuncDecl)
		if !ok || fd.Recv == nil || fd.Body == nil || len(fd.Recv.List) != 1 {
			continue
		}
		t := fd.Recv.List[0].Type
		if s, ok := t.(*ast.StarExpr); ok {
			t = s.X
		}
		if id, ok := t.(*ast.Ident); !ok || id.Name != "conversationManager" {
			continue
		}
		var evs []string
		for _, e := range c07LockEvents(fd.Body) {
			d, name, _ := strings.Cut(e, ":")
			evs = append(evs, "("+d+", "+strconv.Quote(name)+")")
		}
		rows = append(rows, "("+strconv.Quote(fd.Name.Name)+", ["+strings.Join(evs, ", ")+"])")
	}
	sort.Strings(rows)
	l.def("convLockEvents", "List (String × List (Nat × String))", "["+strings.Join(rows, ", ")+"]", rows)
}
