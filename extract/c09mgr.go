package main

// C09 publishing path: the steps of Manager.Update up to the transaction template and resolveControllerWithKey's key choice.

import (
	"go/ast"
	"strconv"
	"strings"
)

func c09ManagerFacts(l *lean) {
	_, mgr := parseFile("vdr/didnuts/manager.go")

	// Manager.Update: the calls that decide, in source order
	interesting := []string{"m.store.Resolve", "ManagedDocumentValidator", "m.resolveControllerWithKey", "m.resolver.Resolve",
		"network.TransactionTemplate", "m.networkClient.CreateTransaction", "m.store.Add", "withJSONLDContext"}
	var calls []string
	prevsExpr, tmplExpr, deactTest := "", "", ""
	if fd := c09Method(mgr, "Manager", "Update"); fd != nil {
		ast.Inspect(fd, func(n ast.Node) bool {
			switch t := n.(type) {
			case *ast.CallExpr:
				f := exprString(t.Fun)
				for _, want := range interesting {
					if f == want {
						calls = append(calls, c09Src(t))
					}
				}
			case *ast.AssignStmt:
				if len(t.Lhs) == 1 && len(t.Rhs) == 1 {
					switch exprString(t.Lhs[0]) {
					case "previousTransactions":
						prevsExpr = c09Src(t.Rhs[0])
					case "tx":
						tmplExpr = c09Src(t.Rhs[0])
					}
				}
			case *ast.IfStmt:
				if strings.Contains(c09Src(t.Cond), "Deactivated") && deactTest == "" {
					deactTest = c09Src(t.Cond)
					if len(t.Body.List) == 1 {
						if _, ok := t.Body.List[0].(*ast.ReturnStmt); ok {
							deactTest += " => return error"
						}
					}
				}
			}
			return true
		})
	}
	l.def("managerUpdateCalls", "List String", leanStrList(calls), calls)
	l.def("managerUpdatePrevs", "String", strconv.Quote(prevsExpr), prevsExpr)
	l.def("managerUpdateTemplate", "String", strconv.Quote(tmplExpr), tmplExpr)
	l.def("managerUpdateDeactivatedTest", "String", strconv.Quote(deactTest), deactTest)

	// resolveControllerWithKey: controllers from the store, then the first capabilityInvocation entry the key store has
	var keyLoop []string
	if fd := c09Method(mgr, "Manager", "resolveControllerWithKey"); fd != nil {
		ast.Inspect(fd, func(n ast.Node) bool {
			switch t := n.(type) {
			case *ast.CallExpr:
				f := exprString(t.Fun)
				if f == "ResolveControllers" || f == "m.keyStore.Exists" {
					keyLoop = append(keyLoop, c09Src(t))
				}
			case *ast.RangeStmt:
				keyLoop = append(keyLoop, "range "+c09Src(t.X))
			case *ast.IfStmt:
				c := c09Src(t.Cond)
				if strings.Contains(c, "ok") || strings.Contains(c, "len(controllers)") {
					what := ""
					if len(t.Body.List) == 1 {
						if r, ok := t.Body.List[0].(*ast.ReturnStmt); ok && len(r.Results) == 3 {
							what = " => return " + c09Src(r.Results[0]) + ", " + c09Src(r.Results[1])
						}
					}
					keyLoop = append(keyLoop, "if "+c+what)
				}
			}
			return true
		})
	}
	l.def("managerKeyChoice", "List String", leanStrList(keyLoop), keyLoop)

	// Deactivate = Update with an empty document under the same id
	deact := ""
	if fd := c09Method(mgr, "Manager", "Deactivate"); fd != nil {
		for _, st := range fd.Body.List {
			if r, ok := st.(*ast.ReturnStmt); ok && len(r.Results) == 1 {
				deact = c09Src(r.Results[0])
			}
		}
	}
	l.def("managerDeactivateIs", "String", strconv.Quote(deact), deact)
}
