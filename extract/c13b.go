package main

// C13, request layer (deepening round): the option switch of Create, subjectPattern, the key-agreement x did:web
// refusals of Create / AddVerificationMethod, the sortDIDsByMethod comparator. Prints what the source says.

import (
	"bytes"
	"fmt"
	"go/ast"
	"go/printer"
	"go/token"
	"strconv"
	"strings"
)

func c13Src(fset *token.FileSet, n ast.Node) string {
	var b bytes.Buffer
	_ = printer.Fprint(&b, fset, n)
	return strings.Join(strings.Fields(b.String()), " ")
}

// c13CharClass parses `^[...]+$` (plain characters and a-b ranges, no escapes, no negation) into inclusive code-point
// ranges; anything else yields Lean that does not elaborate.
func c13CharClass(pat string) (string, [][2]int) {
	if !strings.HasPrefix(pat, "^[") || !strings.HasSuffix(pat, "]+$") {
		return ".unknown_pattern_shape", nil
	}
	body := []rune(pat[2 : len(pat)-3])
	if len(body) == 0 || body[0] == '^' {
		return ".unknown_pattern_negated_or_empty", nil
	}
	var rs [][2]int
	for i := 0; i < len(body); i++ {
		c := body[i]
		if c == '\\' || c == '[' || c == ']' {
			return ".unknown_pattern_escape", nil
		}
		if i+2 < len(body) && body[i+1] == '-' {
			rs = append(rs, [2]int{int(c), int(body[i+2])})
			i += 2
			continue
		}
		rs = append(rs, [2]int{int(c), int(c)})
	}
	parts := make([]string, len(rs))
	for i, r := range rs {
		parts[i] = fmt.Sprintf("(%d, %d)", r[0], r[1])
	}
	return "[" + strings.Join(parts, ", ") + "]", rs
}

// c13Guards lists every `if <cond> { return …, <Err> }` of fd whose condition mentions KeyAgreementUsage, as "cond => results",
// together with the kind of the innermost enclosing loop ("range:<expr>" or "closure").
func c13Guards(fset *token.FileSet, fd *ast.FuncDecl) []string {
	out := []string{}
	if fd == nil {
		return out
	}
	var walk func(n ast.Node, ctx string)
	walk = func(n ast.Node, ctx string) {
		ast.Inspect(n, func(k ast.Node) bool {
			if k == n {
				return true
			}
			switch x := k.(type) {
			case *ast.RangeStmt:
				walk(x.Body, "range:"+c13Src(fset, x.X))
				return false
			case *ast.FuncLit:
				walk(x.Body, "closure")
				return false
			case *ast.IfStmt:
				cond := c13Src(fset, x.Cond)
				if strings.Contains(cond, "KeyAgreementUsage") {
					res := "no-return"
					for _, st := range x.Body.List {
						if r, ok := st.(*ast.ReturnStmt); ok {
							parts := make([]string, len(r.Results))
							for i, e := range r.Results {
								parts[i] = c13Src(fset, e)
							}
							res = strings.Join(parts, ",")
							break
						}
					}
					out = append(out, ctx+": "+cond+" => "+res)
				}
			}
			return true
		})
	}
	walk(fd.Body, "top")
	return out
}

func extractC13b(l *lean) {
	fset, mgr := parseFile("vdr/didsubject/manager.go")

	// ---- subjectPattern
	pat := ""
	ast.Inspect(mgr, func(n ast.Node) bool {
		vs, ok := n.(*ast.ValueSpec)
		if !ok {
			return true
		}
		for i, nm := range vs.Names {
			if nm.Name == "subjectPattern" && i < len(vs.Values) {
				if c, ok := vs.Values[i].(*ast.CallExpr); ok && exprString(c.Fun) == "regexp.MustCompile" && len(c.Args) == 1 {
					if lit, ok := c.Args[0].(*ast.BasicLit); ok && lit.Kind == token.STRING {
						if s, err := strconv.Unquote(lit.Value); err == nil {
							pat = s
						}
					}
				}
			}
		}
		return true
	})
	l.def("subjectPatternSource", "String", fmt.Sprintf("%q", pat), pat)
	cls, raw := c13CharClass(pat)
	l.def("subjectPatternClass", "List (Nat × Nat)", cls, raw)

	// ---- Create: the option switch (case type -> what the arm does), in source order; what happens before the transaction
	create := c13Method(mgr, "SqlManager", "Create")
	arms := []string{}
	txOrder := []string{} // landmarks inside the transaction closure, in source order
	if create != nil {
		ast.Inspect(create, func(n ast.Node) bool {
			ts, ok := n.(*ast.TypeSwitchStmt)
			if !ok {
				return true
			}
			for _, c := range ts.Body.List {
				cc := c.(*ast.CaseClause)
				name := "default"
				if len(cc.List) > 0 {
					ns := make([]string, len(cc.List))
					for i, e := range cc.List {
						ns[i] = c13Src(fset, e)
					}
					name = strings.Join(ns, ",")
				}
				var what []string
				for _, st := range cc.Body {
					switch x := st.(type) {
					case *ast.AssignStmt:
						what = append(what, c13Src(fset, x))
					case *ast.ReturnStmt:
						what = append(what, "return:"+c13Src(fset, x.Results[len(x.Results)-1]))
					case *ast.IfStmt:
						r := "if " + c13Src(fset, x.Cond)
						for _, b := range x.Body.List {
							if rs, ok := b.(*ast.ReturnStmt); ok {
								e := c13Src(fset, rs.Results[len(rs.Results)-1])
								if i := strings.Index(e, ","); i > 0 {
									e = e[:i] + ")"
								}
								r += " return:" + e
							}
						}
						what = append(what, r)
					default:
						what = append(what, fmt.Sprintf("<%T>", st))
					}
				}
				arms = append(arms, name+" -> "+strings.Join(what, "; "))
			}
			return false
		})
		ast.Inspect(create, func(n ast.Node) bool {
			fl, ok := n.(*ast.FuncLit)
			if !ok {
				return true
			}
			ast.Inspect(fl.Body, func(k ast.Node) bool {
				switch x := k.(type) {
				case *ast.CallExpr:
					if s, ok := x.Fun.(*ast.SelectorExpr); ok && s.Sel.Name == "FindBySubject" && len(x.Args) == 1 {
						txOrder = append(txOrder, "FindBySubject("+c13Src(fset, x.Args[0])+")")
					}
				case *ast.RangeStmt:
					txOrder = append(txOrder, "range:"+c13Src(fset, x.X))
				case *ast.AssignStmt:
					if len(x.Lhs) == 1 && c13Src(fset, x.Lhs[0]) == "subject" {
						txOrder = append(txOrder, c13Src(fset, x))
					}
				}
				return true
			})
			return false
		})
	}
	l.def("createOptionArms", "List String", leanStrList(arms), arms)
	l.def("createTransactionLandmarks", "List String", leanStrList(txOrder), txOrder)
	g := c13Guards(fset, create)
	l.def("createKeyAgreementGuards", "List String", leanStrList(g), g)
	g2 := c13Guards(fset, c13Method(mgr, "SqlManager", "AddVerificationMethod"))
	l.def("addKeyKeyAgreementGuards", "List String", leanStrList(g2), g2)

	// ---- orm.EncryptionKeyUsage()
	_, kf := parseFile("storage/orm/keyflag.go")
	enc := "MISSING"
	if fd := funcDecl(kf, "EncryptionKeyUsage"); fd != nil && len(fd.Body.List) == 1 {
		if r, ok := fd.Body.List[0].(*ast.ReturnStmt); ok && len(r.Results) == 1 {
			enc = exprString(r.Results[0])
		}
	}
	l.def("encryptionKeyUsage", "String", fmt.Sprintf("%q", enc), enc)

	// ---- sortDIDsByMethod: initial rank, the returns of the comparator with their guards, the rank assignment
	absent := ".unknown_absent_rank"
	var rets []string
	var assigns []string
	if fd := funcDecl(mgr, "sortDIDsByMethod"); fd != nil {
		inits := map[string]bool{}
		var walk func(n ast.Node, guard string)
		walk = func(n ast.Node, guard string) {
			ast.Inspect(n, func(k ast.Node) bool {
				if k == n {
					return true
				}
				switch x := k.(type) {
				case *ast.IfStmt:
					walk(x.Body, guard+"["+c13Src(fset, x.Cond)+"]")
					return false
				case *ast.RangeStmt:
					walk(x.Body, guard+"[range "+c13Src(fset, x.Key)+","+c13Src(fset, x.Value)+" "+c13Src(fset, x.X)+"]")
					return false
				case *ast.AssignStmt:
					s := c13Src(fset, x)
					if x.Tok == token.DEFINE && len(x.Rhs) == 1 && (s == "iOrder := -1" || s == "jOrder := -1" || strings.HasPrefix(s, "iOrder :=") || strings.HasPrefix(s, "jOrder :=")) {
						inits[c13Src(fset, x.Rhs[0])] = true
					} else if x.Tok == token.ASSIGN {
						assigns = append(assigns, guard+" "+s)
					}
				case *ast.ReturnStmt:
					if len(x.Results) == 1 {
						rets = append(rets, guard+" "+c13Src(fset, x.Results[0]))
					}
				}
				return true
			})
		}
		walk(fd.Body, "")
		if len(inits) == 1 {
			for v := range inits {
				if _, err := strconv.Atoi(v); err == nil {
					absent = "(" + v + ")"
				}
			}
		}
	}
	l.def("sortAbsentRank", "Int", absent, absent)
	l.def("sortComparatorReturns", "List String", leanStrList(rets), rets)
	l.def("sortRankAssignments", "List String", leanStrList(assigns), assigns)
}
