package main

// C17 deepening round 3: the tail of iam jar.validate that binds the verified signer key to the client's published key set, as Lean data:
// what the key callback records, the lookup statement, every top-level error exit with its OAuth2 description, the statement kinds in
// order (so that a loop / extra branch in place of the lookup does not go unnoticed), compareThumbprint's exits and calls.

import (
	"go/ast"
	"go/token"
	"strconv"
	"strings"
)

// Description: "<literal>" of the OAuth2Error composite literal returned by an if body ("" when there is none)
func c17ErrDescription(body *ast.BlockStmt) string {
	res := "?no-description"
	ast.Inspect(body, func(n ast.Node) bool {
		if kv, ok := n.(*ast.KeyValueExpr); ok && exprString(kv.Key) == "Description" {
			if bl, ok := kv.Value.(*ast.BasicLit); ok && bl.Kind == token.STRING {
				if s, err := strconv.Unquote(bl.Value); err == nil {
					res = s
				}
			} else {
				res = "?" + c17Src(kv.Value)
			}
		}
		return true
	})
	return res
}

func extractC17d(l *lean) {
	_, jarF := parseFile("auth/api/iam/jar.go")
	fd := funcDecl(jarF, "validate")
	var assigns, kinds []string
	var exits [][2]string
	lookup, final := "?missing", "?missing"
	if fd != nil && fd.Body != nil {
		ast.Inspect(fd, func(n ast.Node) bool {
			if as, ok := n.(*ast.AssignStmt); ok {
				for _, lhs := range as.Lhs {
					if exprString(lhs) == "signerKid" {
						assigns = append(assigns, c17Src(as))
					}
				}
				if strings.Contains(c17Src(as), "LookupKeyID") {
					lookup = c17Src(as)
				}
			}
			return true
		})
		for _, st := range fd.Body.List {
			switch s := st.(type) {
			case *ast.DeclStmt:
				kinds = append(kinds, "decl")
			case *ast.AssignStmt:
				k := "assign:?" + c17Src(s)
				if len(s.Rhs) == 1 {
					if call, ok := s.Rhs[0].(*ast.CallExpr); ok {
						k = "assign:" + exprString(call.Fun)
					}
				}
				kinds = append(kinds, k)
			case *ast.IfStmt:
				kinds = append(kinds, "if")
				if s.Else != nil {
					kinds = append(kinds, "else")
				}
				c := c17Src(s.Cond)
				if s.Init != nil {
					c = c17Src(s.Init) + "; " + c
				}
				if c17ReturnsError(s.Body) {
					exits = append(exits, [2]string{c, c17ErrDescription(s.Body)})
				} else {
					exits = append(exits, [2]string{c, "?not-an-error-exit"})
				}
			case *ast.ReturnStmt:
				kinds = append(kinds, "return")
				final = c17Src(s)
			default: // for / range / switch / … : something the model does not describe
				kinds = append(kinds, "?"+strings.SplitN(c17Src(st), " ", 2)[0])
			}
		}
	} else {
		kinds = []string{"FUNCTION-MISSING"}
	}
	l.def("jarSignerKidAssign", "List String", leanStrList(assigns), assigns)
	l.def("jarLookupStmt", "String", strconv.Quote(lookup), lookup)
	l.def("jarTailExits", "List (String × String)", c17Pairs(exits), exits)
	l.def("jarStmtKinds", "List String", leanStrList(kinds), kinds)
	l.def("jarFinalReturn", "String", strconv.Quote(final), final)
	ct := funcDecl(jarF, "compareThumbprint")
	ce := c17ErrConds(ct)
	l.def("compareThumbprintErrConds", "List String", leanStrList(ce), ce)
	cc := c17Calls(ct)
	l.def("compareThumbprintCalls", "List String", leanStrList(cc), cc)
}
