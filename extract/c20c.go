package main

// C20 deepening round 3: two more decisions REGENERATED AS LEAN DATA the model computes with
//   - core/config.go loadFromFlagSet: the suffixes that make a flag a secret (resolved string expressions of the
//     strings.HasSuffix disjunction), the statement shape of the function, the flags of core.ClientConfigFlags
//   - storage/engine.go initSQLDatabase: the statement shape of the "no connection string" block, the adapter names of
//     the dbType switch, the default SQLite connection string prefix

import (
	"go/ast"
	"go/token"
	"strconv"
	"strings"
)

// c20StrExpr resolves a string expression built from literals, package constants and `+`
func c20StrExpr(e ast.Expr, files []*ast.File) (string, bool) {
	switch x := e.(type) {
	case *ast.BasicLit:
		if x.Kind == token.STRING {
			v, err := strconv.Unquote(x.Value)
			return v, err == nil
		}
	case *ast.Ident:
		for _, f := range files {
			if v, ok := c20StrConst(f, x.Name); ok {
				return v, true
			}
		}
	case *ast.ParenExpr:
		return c20StrExpr(x.X, files)
	case *ast.BinaryExpr:
		if x.Op == token.ADD {
			a, ok1 := c20StrExpr(x.X, files)
			b, ok2 := c20StrExpr(x.Y, files)
			return a + b, ok1 && ok2
		}
	}
	return "", false
}

// c20Disjuncts flattens a || b || c
func c20Disjuncts(e ast.Expr) []ast.Expr {
	if p, ok := e.(*ast.ParenExpr); ok {
		return c20Disjuncts(p.X)
	}
	if b, ok := e.(*ast.BinaryExpr); ok && b.Op == token.LOR {
		return append(c20Disjuncts(b.X), c20Disjuncts(b.Y)...)
	}
	return []ast.Expr{e}
}

func c20Round3(l *lean) {
	// ---- the secret-flag rule
	_, cf := parseFile("core/config.go")
	_, sc := parseFile("core/server_config.go")
	files := []*ast.File{cf, sc}
	var suffixes []string
	ok := false
	var shape []string
	if fd := funcDecl(cf, "loadFromFlagSet"); fd != nil {
		shape = c20Stmts(fd.Body)
		ast.Inspect(fd.Body, func(n ast.Node) bool {
			fl, isLit := n.(*ast.FuncLit)
			if !isLit || ok {
				return true
			}
			// the visitor: `if <suffix disjunction> { if flag.Changed { err = …; return } }` as its only statement
			if len(fl.Body.List) != 1 {
				return true
			}
			is, isIf := fl.Body.List[0].(*ast.IfStmt)
			if !isIf || is.Else != nil || len(fl.Type.Params.List) != 1 || len(fl.Type.Params.List[0].Names) != 1 {
				return true
			}
			param := fl.Type.Params.List[0].Names[0].Name
			all := true
			for _, d := range c20Disjuncts(is.Cond) {
				c, isCall := d.(*ast.CallExpr)
				if !isCall || c20Src(c.Fun) != "strings.HasSuffix" || len(c.Args) != 2 || c20Src(c.Args[0]) != param+".Name" {
					all = false
					break
				}
				v, okv := c20StrExpr(c.Args[1], files)
				if !okv {
					all = false
					break
				}
				suffixes = append(suffixes, v)
			}
			inner := c20Stmts(is.Body)
			if all && len(inner) >= 1 && inner[0] == "if "+param+".Changed {" {
				ok = true
			}
			return true
		})
	}
	if ok {
		l.def("secretSuffixes", "List (List Nat)", c20BytesList(suffixes), suffixes)
	} else {
		l.sb.WriteString("def secretSuffixes : List (List Nat) := unknown_secret_flag_rule\n")
	}
	l.def("loadFromFlagSetShape", "List String", leanStrList(shape), shape)
	// the flags of the CLI client commands (core.ClientConfigFlags): names, constants resolved
	_, cc := parseFile("core/client_config.go")
	var cflags []string
	cok := true
	if fd := funcDecl(cc, "ClientConfigFlags"); fd != nil {
		ast.Inspect(fd.Body, func(n ast.Node) bool {
			c, isCall := n.(*ast.CallExpr)
			if !isCall {
				return true
			}
			sel, isSel := c.Fun.(*ast.SelectorExpr)
			if !isSel || c20Src(sel.X) != "flagSet" || len(c.Args) < 2 {
				return true
			}
			v, okv := c20StrExpr(c.Args[0], []*ast.File{cc, cf, sc})
			if !okv {
				cok = false
			}
			cflags = append(cflags, v)
			return true
		})
	} else {
		cok = false
	}
	if cok {
		l.def("clientFlags", "List (List Nat)", c20BytesList(cflags), cflags)
	} else {
		l.sb.WriteString("def clientFlags : List (List Nat) := unknown_client_flag_set\n")
	}
	var clientLoader []string
	if fd := funcDecl(cc, "NewClientConfigForCommand"); fd != nil {
		clientLoader = c20Stmts(fd.Body)
	}
	l.def("clientLoaderShape", "List String", leanStrList(clientLoader), clientLoader)

	// ---- storage.initSQLDatabase
	_, se := parseFile("storage/engine.go")
	var head []string
	var adapters []string
	aok := false
	for _, d := range se.Decls {
		fd, isFd := d.(*ast.FuncDecl)
		if !isFd || fd.Name.Name != "initSQLDatabase" {
			continue
		}
		// everything up to (excluding) the first statement that mentions dbType
		for _, st := range fd.Body.List {
			if strings.Contains(c20Src(st), "dbType") {
				head = append(head, c20Src(st))
				break
			}
			if is, isIf := st.(*ast.IfStmt); isIf {
				head = append(head, c20Stmts(&ast.BlockStmt{List: []ast.Stmt{is}})...)
			} else {
				head = append(head, c20Src(st))
			}
		}
		ast.Inspect(fd.Body, func(n ast.Node) bool {
			sw, isSw := n.(*ast.SwitchStmt)
			if !isSw || c20Src(sw.Tag) != "dbType" {
				return true
			}
			aok = true
			for _, c := range sw.Body.List {
				cl := c.(*ast.CaseClause)
				for _, e := range cl.List {
					v, okv := c20StrExpr(e, []*ast.File{se})
					if !okv {
						aok = false
					}
					adapters = append(adapters, v)
				}
				if cl.List == nil {
					// default: must refuse
					if len(cl.Body) != 1 || !strings.HasPrefix(c20Src(cl.Body[0]), "return errors.New(") {
						aok = false
					}
				}
			}
			return false
		})
	}
	l.def("sqlInitHead", "List String", leanStrList(head), head)
	if aok {
		l.def("sqlAdapters", "List (List Nat)", c20BytesList(adapters), adapters)
	} else {
		l.sb.WriteString("def sqlAdapters : List (List Nat) := unknown_sql_adapter_switch\n")
	}
	dflt, dok := "", false
	if fd := funcDecl(se, "sqliteConnectionString"); fd != nil && len(fd.Body.List) == 1 {
		if rs, isRet := fd.Body.List[0].(*ast.ReturnStmt); isRet && len(rs.Results) == 1 {
			if b, isBin := rs.Results[0].(*ast.BinaryExpr); isBin && b.Op == token.ADD {
				dflt, dok = c20StrExpr(b.X, []*ast.File{se})
			}
		}
	}
	if dok {
		l.def("sqliteDefaultPrefix", "List Nat", c20Bytes(dflt), dflt)
	} else {
		l.sb.WriteString("def sqliteDefaultPrefix : List Nat := unknown_sqlite_default\n")
	}
}
