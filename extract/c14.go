package main

import (
	"fmt"
	"go/ast"
	"go/parser"
	"go/token"
	"os"
	"path/filepath"
	"sort"
	"strconv"
	"strings"
)

func init() { extractors["C14"] = extractC14 }

// c14Consts collects `const NAME = "literal"` of the whole repository (non-test files), by bare name.
func c14Walk(fn func(rel string, f *ast.File)) {
	fset := token.NewFileSet()
	_ = filepath.Walk(repo, func(p string, info os.FileInfo, err error) error {
		if err != nil {
			return nil
		}
		if info.IsDir() {
			n := info.Name()
			if n == ".git" || n == "docs" || n == "e2e-tests" || n == "node_modules" || n == "development" {
				return filepath.SkipDir
			}
			return nil
		}
		if !strings.HasSuffix(p, ".go") || strings.HasSuffix(p, "_test.go") || strings.HasSuffix(p, "mock.go") ||
			strings.HasSuffix(p, "_mock.go") || strings.HasSuffix(p, "generated.go") || strings.HasSuffix(p, "test.go") {
			return nil
		}
		f, err := parser.ParseFile(fset, p, nil, 0)
		if err != nil {
			return nil
		}
		rel, _ := filepath.Rel(repo, p)
		fn(rel, f)
		return nil
	})
}

type c14Reg struct {
	name, file string
	receiver   string
	persistent bool
	filters    []string // Lean Filter terms
	raw        []string
}

// c14Expr renders an expression including call arguments (exprString drops them)
func c14Expr(e ast.Expr) string {
	switch x := e.(type) {
	case *ast.CallExpr:
		var as []string
		for _, a := range x.Args {
			as = append(as, c14Expr(a))
		}
		return c14Expr(x.Fun) + "(" + strings.Join(as, ", ") + ")"
	case *ast.SelectorExpr:
		return c14Expr(x.X) + "." + x.Sel.Name
	case *ast.BinaryExpr:
		return c14Expr(x.X) + " " + x.Op.String() + " " + c14Expr(x.Y)
	case *ast.UnaryExpr:
		return x.Op.String() + c14Expr(x.X)
	case *ast.ParenExpr:
		return "(" + c14Expr(x.X) + ")"
	case *ast.StarExpr:
		return "*" + c14Expr(x.X)
	case *ast.CompositeLit:
		var es []string
		for _, el := range x.Elts {
			es = append(es, c14Expr(el))
		}
		t := ""
		if x.Type != nil {
			t = c14Expr(x.Type)
		}
		return t + "{" + strings.Join(es, ", ") + "}"
	case *ast.KeyValueExpr:
		return c14Expr(x.Key) + ": " + c14Expr(x.Value)
	case *ast.FuncLit:
		if len(x.Body.List) == 1 {
			if r, ok := x.Body.List[0].(*ast.ReturnStmt); ok && len(r.Results) == 1 {
				return "func => " + c14Expr(r.Results[0])
			}
		}
	}
	return exprString(e)
}

// c14Returns lists, in source order, every `return …` of a function together with the if-conditions it sits under
// (outermost first; "else" branches as !(cond)): how a receiver maps what happened to (done, error)
func c14Returns(f *ast.File, name string) []string {
	fd := funcDecl(f, name)
	if fd == nil {
		return []string{"MISSING " + name}
	}
	var out []string
	var walk func(n ast.Node, guards []string)
	walk = func(n ast.Node, guards []string) {
		switch x := n.(type) {
		case nil:
		case *ast.BlockStmt:
			for _, st := range x.List {
				walk(st, guards)
			}
		case *ast.IfStmt:
			c := c14Expr(x.Cond)
			if x.Init != nil {
				if as, ok := x.Init.(*ast.AssignStmt); ok && len(as.Rhs) == 1 {
					c = c14Expr(as.Rhs[0]) + "; " + c
				}
			}
			walk(x.Body, append(append([]string{}, guards...), c))
			if x.Else != nil {
				walk(x.Else, append(append([]string{}, guards...), "!("+c+")"))
			}
		case *ast.ForStmt:
			walk(x.Body, append(append([]string{}, guards...), "for"))
		case *ast.RangeStmt:
			walk(x.Body, append(append([]string{}, guards...), "range "+c14Expr(x.X)))
		case *ast.SwitchStmt, *ast.TypeSwitchStmt, *ast.SelectStmt:
			out = append(out, fmt.Sprintf("<%T>", x))
		case *ast.AssignStmt:
			// re-classification of the error on the way (err = dag.EventFatal{…})
			if x.Tok == token.ASSIGN && len(x.Lhs) == 1 && len(x.Rhs) == 1 && exprString(x.Lhs[0]) == "err" {
				if _, ok := x.Rhs[0].(*ast.CompositeLit); ok {
					g := strings.Join(guards, " && ")
					if g != "" {
						g += " => "
					}
					out = append(out, g+"err = "+c14Expr(x.Rhs[0]))
				}
			}
		case *ast.ReturnStmt:
			var rs []string
			for _, r := range x.Results {
				rs = append(rs, c14Expr(r))
			}
			g := strings.Join(guards, " && ")
			if g != "" {
				g += " => "
			}
			out = append(out, g+"return "+strings.Join(rs, ", "))
		}
	}
	walk(fd.Body, nil)
	return out
}

func c14Conjuncts(e ast.Expr) []ast.Expr {
	if b, ok := e.(*ast.BinaryExpr); ok && b.Op == token.LAND {
		return append(c14Conjuncts(b.X), c14Conjuncts(b.Y)...)
	}
	if p, ok := e.(*ast.ParenExpr); ok {
		return c14Conjuncts(p.X)
	}
	return []ast.Expr{e}
}

func c14Ident(s string) string {
	var sb strings.Builder
	for _, c := range s {
		if c >= 'a' && c <= 'z' || c >= 'A' && c <= 'Z' || c >= '0' && c <= '9' {
			sb.WriteRune(c)
		} else {
			sb.WriteByte('_')
		}
	}
	return sb.String()
}

// c14FilterTerm maps `func(event dag.Event) bool { return A && B && … }` to a Lean `Filter` term
func c14FilterTerm(fl *ast.FuncLit, consts map[string][]string) (string, string) {
	if len(fl.Body.List) != 1 {
		return "Filter.unknown_body", "<body>"
	}
	ret, ok := fl.Body.List[0].(*ast.ReturnStmt)
	if !ok || len(ret.Results) != 1 {
		return "Filter.unknown_body", "<body>"
	}
	ev := "event"
	if fl.Type.Params != nil && len(fl.Type.Params.List) == 1 && len(fl.Type.Params.List[0].Names) == 1 {
		ev = fl.Type.Params.List[0].Names[0].Name
	}
	var fields []string
	for _, c := range c14Conjuncts(ret.Results[0]) {
		s := c14Expr(c)
		switch {
		case s == ev+".Type == dag.PayloadEventType" || s == ev+".Type == PayloadEventType":
			fields = append(fields, "type := some .payload")
		case s == ev+".Type == dag.TransactionEventType" || s == ev+".Type == TransactionEventType":
			fields = append(fields, "type := some .tx")
		case s == ev+".Transaction.PAL() != nil":
			fields = append(fields, "needPAL := true")
		case strings.HasPrefix(s, ev+".Transaction.PayloadType() == "):
			name := strings.TrimPrefix(s, ev+".Transaction.PayloadType() == ")
			if i := strings.LastIndex(name, "."); i >= 0 {
				name = name[i+1:]
			}
			vals := consts[name]
			if len(vals) == 1 {
				fields = append(fields, fmt.Sprintf("ptype := some %q", vals[0]))
			} else {
				fields = append(fields, "ptype := Filter.unknown_const_"+c14Ident(name))
			}
		default:
			fields = append(fields, "type := Filter.unknown_conjunct_"+c14Ident(s))
		}
	}
	return "{ " + strings.Join(fields, ", ") + " }", c14Expr(ret.Results[0])
}

// c14Stmt prints a simple statement: "return <exprs>" or the expression / assignment text
func c14Stmt(st ast.Stmt) string {
	switch x := st.(type) {
	case *ast.ReturnStmt:
		var parts []string
		for _, r := range x.Results {
			parts = append(parts, c14Expr(r))
		}
		return strings.TrimSpace("return " + strings.Join(parts, ", "))
	case *ast.ExprStmt:
		return c14Expr(x.X)
	case *ast.AssignStmt:
		var lhs, rhs []string
		for _, e := range x.Lhs {
			lhs = append(lhs, c14Expr(e))
		}
		for _, e := range x.Rhs {
			rhs = append(rhs, c14Expr(e))
		}
		return strings.Join(lhs, ", ") + " " + x.Tok.String() + " " + strings.Join(rhs, ", ")
	}
	return fmt.Sprintf("stmt:%T", st)
}

func c14CallsIn(n ast.Node, sel string) int {
	c := 0
	if n == nil {
		return 0
	}
	ast.Inspect(n, func(m ast.Node) bool {
		if ce, ok := m.(*ast.CallExpr); ok && exprString(ce.Fun) == sel {
			c++
		}
		return true
	})
	return c
}

func extractC14() *lean {
	l := newLean("C14", "NutsModel.C14.Notifier")
	l.sb.WriteString("open Nuts.C14\n")

	// ---- constants of notifier.go
	_, nf := parseFile("network/dag/notifier.go")
	constVal := map[string]string{}
	for _, d := range nf.Decls {
		gd, ok := d.(*ast.GenDecl)
		if !ok || gd.Tok != token.CONST {
			continue
		}
		for _, sp := range gd.Specs {
			vs := sp.(*ast.ValueSpec)
			for i, n := range vs.Names {
				if i < len(vs.Values) {
					constVal[n.Name] = exprString(vs.Values[i])
				}
			}
		}
	}
	natConst := func(name string) {
		v, ok := constVal[name]
		if _, err := strconv.Atoi(v); !ok || err != nil {
			l.def(name, "Nat", "Nat.unknown_"+c14Ident(v), v)
			return
		}
		n, _ := strconv.Atoi(v)
		l.def(name, "Nat", v, n)
	}
	natConst("maxRetries")
	natConst("retriesFailedThreshold")
	// defaultRetryDelay in nanoseconds
	units := map[string]int64{"time.Nanosecond": 1, "time.Microsecond": 1000, "time.Millisecond": 1000000, "time.Second": 1000000000, "time.Minute": 60000000000, "time.Hour": 3600000000000}
	durNs := func(s string) (int64, bool) {
		if u, ok := units[s]; ok {
			return u, true
		}
		parts := strings.Split(s, " * ")
		if len(parts) == 2 {
			a, err := strconv.ParseInt(parts[0], 10, 64)
			u, ok := units[parts[1]]
			if err == nil && ok {
				return a * u, true
			}
		}
		return 0, false
	}
	if ns, ok := durNs(constVal["defaultRetryDelay"]); ok {
		l.def("defaultRetryDelayNs", "Nat", fmt.Sprint(ns), ns)
	} else {
		l.def("defaultRetryDelayNs", "Nat", "Nat.unknown_"+c14Ident(constVal["defaultRetryDelay"]), constVal["defaultRetryDelay"])
	}

	// ---- notifier.retry: arithmetic and retry-go options, as written
	var initialCount, attempts, guard, maxDelay, delayInit, doublingLoop string
	var doubles int
	var opts []string
	if fd := funcDecl(nf, "retry"); fd != nil {
		ast.Inspect(fd, func(n ast.Node) bool {
			switch x := n.(type) {
			case *ast.AssignStmt:
				if len(x.Lhs) == 1 && len(x.Rhs) == 1 {
					switch exprString(x.Lhs[0]) {
					case "initialCount":
						initialCount = c14Expr(x.Rhs[0])
					case "attempts":
						attempts = c14Expr(x.Rhs[0])
					case "delay":
						if x.Tok == token.MUL_ASSIGN && exprString(x.Rhs[0]) == "2" {
							doubles++
						}
						if x.Tok == token.DEFINE {
							delayInit = c14Expr(x.Rhs[0])
						}
					}
				}
			case *ast.ForStmt:
				// the loop that doubles the delay once per recorded attempt
				if c14CallsIn(x.Body, "retry.Do") == 0 && x.Cond != nil {
					inc := ""
					if is, ok := x.Post.(*ast.IncDecStmt); ok {
						inc = exprString(is.X) + is.Tok.String()
					}
					ini := ""
					if as, ok := x.Init.(*ast.AssignStmt); ok && len(as.Lhs) == 1 && len(as.Rhs) == 1 {
						ini = exprString(as.Lhs[0]) + " " + as.Tok.String() + " " + c14Expr(as.Rhs[0])
					}
					body := ""
					for _, st := range x.Body.List {
						if as, ok := st.(*ast.AssignStmt); ok && len(as.Lhs) == 1 && len(as.Rhs) == 1 {
							body += exprString(as.Lhs[0]) + " " + as.Tok.String() + " " + c14Expr(as.Rhs[0]) + ";"
						} else {
							body += fmt.Sprintf("<%T>;", st)
						}
					}
					doublingLoop = "for " + ini + "; " + c14Expr(x.Cond) + "; " + inc + " { " + body + " }"
				}
			case *ast.IfStmt:
				if strings.Contains(c14Expr(x.Cond), "attempts") && guard == "" {
					guard = c14Expr(x.Cond)
				}
			case *ast.CallExpr:
				if exprString(x.Fun) == "retry.Do" {
					for _, a := range x.Args[1:] {
						if ce, ok := a.(*ast.CallExpr); ok {
							name := exprString(ce.Fun)
							if name == "retry.OnRetry" {
								continue
							}
							opts = append(opts, c14Expr(ce))
							if name == "retry.MaxDelay" && len(ce.Args) == 1 {
								maxDelay = c14Expr(ce.Args[0])
							}
						}
					}
				}
			}
			return true
		})
	}
	l.def("retryInitialCount", "String", fmt.Sprintf("%q", initialCount), initialCount)
	l.def("retryAttemptsExpr", "String", fmt.Sprintf("%q", attempts), attempts)
	l.def("retryGuard", "String", fmt.Sprintf("%q", guard), guard)
	l.def("retryDelayDoublings", "Nat", fmt.Sprint(doubles), doubles)
	l.def("retryDelayInit", "String", fmt.Sprintf("%q", delayInit), delayInit)
	l.def("retryDoublingLoop", "String", fmt.Sprintf("%q", doublingLoop), doublingLoop)
	l.def("retryOptions", "List String", leanStrList(opts), opts)
	if ns, ok := durNs(maxDelay); ok {
		l.def("retryMaxDelayNs", "Nat", fmt.Sprint(ns), ns)
	} else {
		l.def("retryMaxDelayNs", "Nat", "Nat.unknown_"+c14Ident(maxDelay), maxDelay)
	}

	// ---- notifyNow: writes to dbEvent.Retries; Run: replay condition and the context-error exception; GetFailedEvents
	var retriesWrites []string
	if fd := funcDecl(nf, "notifyNow"); fd != nil {
		ast.Inspect(fd, func(n ast.Node) bool {
			switch x := n.(type) {
			case *ast.AssignStmt:
				if len(x.Lhs) == 1 && exprString(x.Lhs[0]) == "dbEvent.Retries" {
					retriesWrites = append(retriesWrites, "dbEvent.Retries "+x.Tok.String()+" "+exprString(x.Rhs[0]))
				}
			case *ast.IncDecStmt:
				if exprString(x.X) == "dbEvent.Retries" {
					retriesWrites = append(retriesWrites, "dbEvent.Retries"+x.Tok.String())
				}
			}
			return true
		})
	}
	l.def("notifyNowRetriesWrites", "List String", leanStrList(retriesWrites), retriesWrites)
	// notifyNow's write-back: does the WriteShelf closure return without writing when the key is gone?
	wbSkips := false
	if fd := funcDecl(nf, "notifyNow"); fd != nil {
		ast.Inspect(fd, func(n ast.Node) bool {
			ce, ok := n.(*ast.CallExpr)
			if !ok || exprString(ce.Fun) != "p.db.WriteShelf" || len(ce.Args) < 3 {
				return true
			}
			fl, ok := ce.Args[2].(*ast.FuncLit)
			if !ok {
				return true
			}
			for _, st := range fl.Body.List {
				if c14CallsIn(st, "p.writeEvent") > 0 {
					break
				}
				if is, ok := st.(*ast.IfStmt); ok && strings.Contains(c14Expr(is.Cond), "stoabs.ErrKeyNotFound") &&
					(c14CallsIn(is, "writer.Get") > 0 || c14CallsIn(is, "p.readEvent") > 0) {
					for _, b := range is.Body.List {
						if r, ok := b.(*ast.ReturnStmt); ok && len(r.Results) == 1 && exprString(r.Results[0]) == "nil" {
							wbSkips = true
						}
					}
				}
			}
			return true
		})
	}
	l.def("writeBackSkipsGone", "Bool", map[bool]string{true: "true", false: "false"}[wbSkips], wbSkips)
	// Notify: under which condition the failed first notification is rescheduled (retry) - only an EventFatal may drop it
	notifyRetryCond := []string{}
	if fd := funcDecl(nf, "Notify"); fd != nil {
		ast.Inspect(fd, func(n ast.Node) bool {
			if is, ok := n.(*ast.IfStmt); ok && c14CallsIn(is.Body, "p.retry") > 0 && c14CallsIn(is.Cond, "p.notifyNow") == 0 {
				notifyRetryCond = append(notifyRetryCond, c14Expr(is.Cond))
			}
			return true
		})
	}
	l.def("notifyRetryCondition", "List String", leanStrList(notifyRetryCond), notifyRetryCond)
	// notifyNow: which errors are wrapped in retry.Unrecoverable
	var unrec []string
	if fd := funcDecl(nf, "notifyNow"); fd != nil {
		ast.Inspect(fd, func(n ast.Node) bool {
			if ce, ok := n.(*ast.CallExpr); ok && exprString(ce.Fun) == "retry.Unrecoverable" {
				unrec = append(unrec, c14Expr(ce))
			}
			return true
		})
	}
	l.def("notifyNowUnrecoverable", "List String", leanStrList(unrec), unrec)
	// of these, the ones outside the EventFatal branch wrap the notifier's own storage errors: they end a running loop
	storageUnrec := 0
	if fd := funcDecl(nf, "notifyNow"); fd != nil {
		var walk func(n ast.Node, inFatal bool)
		walk = func(n ast.Node, inFatal bool) {
			ast.Inspect(n, func(m ast.Node) bool {
				if m == nil || m == n {
					return true
				}
				if is, ok := m.(*ast.IfStmt); ok {
					walk(is.Body, inFatal || strings.Contains(c14Expr(is.Cond), "EventFatal"))
					if is.Else != nil {
						walk(is.Else, inFatal)
					}
					if is.Init != nil {
						walk(is.Init, inFatal)
					}
					return false
				}
				if ce, ok := m.(*ast.CallExpr); ok && exprString(ce.Fun) == "retry.Unrecoverable" && !inFatal {
					storageUnrec++
				}
				return true
			})
		}
		walk(fd.Body, false)
	}
	l.def("storageFaultEndsLoop", "Bool", map[bool]string{true: "true", false: "false"}[storageUnrec > 0], storageUnrec)
	// Save: "only schedule new events" - writeEvent only under errors.Is(err, stoabs.ErrKeyNotFound) of a read of the key
	saveGuarded, saveWrites := 0, 0
	if fd := funcDecl(nf, "Save"); fd != nil {
		saveWrites = c14CallsIn(fd, "p.writeEvent")
		ast.Inspect(fd, func(n ast.Node) bool {
			if is, ok := n.(*ast.IfStmt); ok && c14Expr(is.Cond) == "errors.Is(err, stoabs.ErrKeyNotFound)" {
				saveGuarded += c14CallsIn(is.Body, "p.writeEvent")
			}
			return true
		})
	}
	l.def("saveWritesWhenKeyAbsent", "Nat", fmt.Sprint(saveGuarded), saveGuarded)
	l.def("saveWritesOtherwise", "Nat", fmt.Sprint(saveWrites-saveGuarded), saveWrites-saveGuarded)
	var runConds []string
	runNotifyInLoop := 0
	if fd := funcDecl(nf, "Run"); fd != nil {
		ast.Inspect(fd, func(n ast.Node) bool {
			switch x := n.(type) {
			case *ast.IfStmt:
				c := c14Expr(x.Cond)
				if strings.Contains(c, "Retries") || strings.Contains(c, "HasSuffix") {
					runConds = append(runConds, c)
				}
			case *ast.RangeStmt:
				if exprString(x.X) == "readyToRetry" {
					runNotifyInLoop += c14CallsIn(x.Body, "p.notifyNow")
				}
			}
			return true
		})
	}
	// every call Run makes on the notifier itself (source order), and the body of the "do not replay" branch:
	// the model's Run reads the shelf, calls notifyNow and starts retry loops - it never deletes or rewrites a job it skips
	var runSelfCalls, runSkipBody []string
	if fd := funcDecl(nf, "Run"); fd != nil {
		ast.Inspect(fd, func(n ast.Node) bool {
			switch x := n.(type) {
			case *ast.CallExpr:
				if f := exprString(x.Fun); strings.HasPrefix(f, "p.") {
					runSelfCalls = append(runSelfCalls, f)
				}
			case *ast.IfStmt:
				if strings.Contains(c14Expr(x.Cond), "HasSuffix") {
					for _, st := range x.Body.List {
						runSkipBody = append(runSkipBody, c14Stmt(st))
					}
					if x.Else != nil {
						runSkipBody = append(runSkipBody, "else")
					}
				}
			}
			return true
		})
	}
	l.def("runSelfCalls", "List String", leanStrList(runSelfCalls), runSelfCalls)
	l.def("runSkipBody", "List String", leanStrList(runSkipBody), runSkipBody)
	l.def("runConditions", "List String", leanStrList(runConds), runConds)
	l.def("runNotifyNowPerJob", "Nat", fmt.Sprint(runNotifyInLoop), runNotifyInLoop)
	var failedConds []string
	if fd := funcDecl(nf, "GetFailedEvents"); fd != nil {
		ast.Inspect(fd, func(n ast.Node) bool {
			if x, ok := n.(*ast.IfStmt); ok && strings.Contains(c14Expr(x.Cond), "Retries") {
				failedConds = append(failedConds, c14Expr(x.Cond))
			}
			return true
		})
	}
	l.def("failedEventsCondition", "List String", leanStrList(failedConds), failedConds)

	// ---- state.go: where saveEvent / notify are called in Add and WritePayload
	_, sf := parseFile("network/dag/state.go")
	for _, fname := range []string{"Add", "WritePayload"} {
		fd := funcDecl(sf, fname)
		saveIn, saveAll, notifyAfter, notifyAll := 0, 0, 0, 0
		skips, guarded := false, false
		skipCond := ""
		marksIn := 0
		if fd != nil {
			saveAll = c14CallsIn(fd, "s.saveEvent")
			notifyAll = c14CallsIn(fd, "s.notify")
			ast.Inspect(fd, func(n ast.Node) bool {
				ce, ok := n.(*ast.CallExpr)
				if !ok {
					return true
				}
				switch exprString(ce.Fun) {
				case "s.db.Write":
					if len(ce.Args) >= 2 {
						if fl, ok := ce.Args[1].(*ast.FuncLit); ok {
							saveIn += c14CallsIn(fl, "s.saveEvent")
							marksIn += c14CallsIn(fl, "markPayloadEventSaved")
							// "payload already stored -> return nil" before the first saveEvent?
							for _, st := range fl.Body.List {
								if c14CallsIn(st, "s.saveEvent") > 0 {
									break
								}
								if is, ok := st.(*ast.IfStmt); ok && (c14CallsIn(is.Cond, "s.payloadStore.isPayloadPresent") > 0 || c14CallsIn(is.Cond, "isPayloadEventSaved") > 0) {
									skipCond = c14Expr(is.Cond)
									for _, b := range is.Body.List {
										if r, ok := b.(*ast.ReturnStmt); ok && len(r.Results) == 1 && exprString(r.Results[0]) == "nil" {
											skips = true
										}
									}
								}
							}
						}
					}
				case "stoabs.AfterCommit":
					if len(ce.Args) == 1 {
						if fl, ok := ce.Args[0].(*ast.FuncLit); ok {
							notifyAfter += c14CallsIn(fl, "s.notify")
							// is every notify inside an `if`?
							top := 0
							for _, st := range fl.Body.List {
								if _, ok := st.(*ast.IfStmt); !ok {
									top += c14CallsIn(st, "s.notify")
								}
							}
							if c14CallsIn(fl, "s.notify") > 0 && top == 0 {
								guarded = true
							}
						}
					}
				}
				return true
			})
		}
		p := strings.ToLower(fname[:1]) + fname[1:]
		l.def(p+"SaveInWriteTx", "Nat", fmt.Sprint(saveIn), saveIn)
		l.def(p+"SaveOutsideWriteTx", "Nat", fmt.Sprint(saveAll-saveIn), saveAll-saveIn)
		l.def(p+"NotifyInAfterCommit", "Nat", fmt.Sprint(notifyAfter), notifyAfter)
		l.def(p+"NotifyElsewhere", "Nat", fmt.Sprint(notifyAll-notifyAfter), notifyAll-notifyAfter)
		l.def(p+"MarksPayloadEventInWriteTx", "Nat", fmt.Sprint(marksIn), marksIn)
		if fname == "WritePayload" {
			b := map[bool]string{true: "true", false: "false"}
			l.def("writePayloadSkipCondition", "String", fmt.Sprintf("%q", skipCond), skipCond)
			l.def("writePayloadReturnsEarlyWhenPresent", "Bool", b[skips], skips)
			l.def("writePayloadNotifyGuarded", "Bool", b[guarded], guarded)
			l.def("writePayloadSkipsPresent", "Bool", b[skips && guarded], skips && guarded)
		}
	}

	// ---- construction side (NutsModel.C14.Options / Api): option bodies, NewNotifier defaults + option loop, shelf name,
	//      isPersistent, the check order of Save, state.Notifier (registry), api/v1 ListEvents
	{
		var optBodies []string
		for _, name := range []string{"WithRetryDelay", "WithPersistency", "WithSelectionFilter", "WithContext", "withCounters"} {
			fd := funcDecl(nf, name)
			var as []string
			if fd != nil {
				ast.Inspect(fd, func(n ast.Node) bool {
					if a, ok := n.(*ast.AssignStmt); ok && len(a.Lhs) == 1 && strings.HasPrefix(exprString(a.Lhs[0]), "notifier.") {
						as = append(as, exprString(a.Lhs[0])+" "+a.Tok.String()+" "+c14Expr(a.Rhs[0]))
					}
					return true
				})
			}
			optBodies = append(optBodies, name+": "+strings.Join(as, "; "))
		}
		l.def("notifierOptionBodies", "List String", leanStrList(optBodies), optBodies)
		var newDefaults, newLoop []string
		if fd := funcDecl(nf, "NewNotifier"); fd != nil {
			ast.Inspect(fd, func(n ast.Node) bool {
				switch x := n.(type) {
				case *ast.CompositeLit:
					if exprString(x.Type) == "notifier" {
						for _, el := range x.Elts {
							newDefaults = append(newDefaults, c14Expr(el))
						}
					}
				case *ast.RangeStmt:
					var body []string
					for _, st := range x.Body.List {
						if es, ok := st.(*ast.ExprStmt); ok {
							body = append(body, c14Expr(es.X))
						} else {
							body = append(body, fmt.Sprintf("<%T>", st))
						}
					}
					newLoop = append(newLoop, "range "+c14Expr(x.X)+" { "+strings.Join(body, "; ")+" }")
				}
				return true
			})
		}
		l.def("newNotifierDefaults", "List String", leanStrList(newDefaults), newDefaults)
		l.def("newNotifierOptionLoop", "List String", leanStrList(newLoop), newLoop)
		shelfFmt, persistentExpr := "", ""
		for _, d := range nf.Decls {
			fd, ok := d.(*ast.FuncDecl)
			if !ok || fd.Body == nil || len(fd.Body.List) != 1 {
				continue
			}
			r, ok := fd.Body.List[0].(*ast.ReturnStmt)
			if !ok || len(r.Results) != 1 {
				continue
			}
			switch fd.Name.Name {
			case "shelfName":
				if ce, ok := r.Results[0].(*ast.CallExpr); ok && exprString(ce.Fun) == "fmt.Sprintf" && len(ce.Args) == 2 && exprString(ce.Args[1]) == "p.name" {
					if bl, ok := ce.Args[0].(*ast.BasicLit); ok {
						shelfFmt, _ = strconv.Unquote(bl.Value)
					}
				}
			case "isPersistent":
				persistentExpr = c14Expr(r.Results[0])
			}
		}
		// the format must be <prefix>%s<suffix>: the model's shelfName is prefix ++ name ++ suffix
		parts := strings.Split(shelfFmt, "%s")
		if len(parts) == 2 && !strings.Contains(parts[0]+parts[1], "%") {
			l.def("shelfNamePrefix", "String", fmt.Sprintf("%q", parts[0]), parts[0])
			l.def("shelfNameSuffix", "String", fmt.Sprintf("%q", parts[1]), parts[1])
		} else {
			l.def("shelfNamePrefix", "String", ".unknown_shelf_name_format", shelfFmt)
			l.def("shelfNameSuffix", "String", ".unknown_shelf_name_format", shelfFmt)
		}
		l.def("isPersistentExpr", "String", fmt.Sprintf("%q", persistentExpr), persistentExpr)
		saveRet := c14Returns(nf, "Save")
		l.def("saveReturns", "List String", leanStrList(saveRet), saveRet)
		regRet := c14Returns(sf, "Notifier")
		l.def("stateNotifierReturns", "List String", leanStrList(regRet), regRet)
		var regCalls []string
		if fd := funcDecl(sf, "Notifier"); fd != nil {
			ast.Inspect(fd, func(n ast.Node) bool {
				if ce, ok := n.(*ast.CallExpr); ok {
					switch f := exprString(ce.Fun); f {
					case "append", "NewNotifier", "s.notifiers.LoadOrStore", "s.notifiers.Store", "s.notifiers.Load", "s.notifiers.Swap", "s.notifiers.Delete":
						regCalls = append(regCalls, c14Expr(ce))
					}
				}
				return true
			})
		}
		l.def("stateNotifierCalls", "List String", leanStrList(regCalls), regCalls)
		_, apif := parseFile("network/api/v1/api.go")
		leRet := c14Returns(apif, "ListEvents")
		l.def("listEventsReturns", "List String", leanStrList(leRet), leRet)
		var leFields, leAppends []string
		if fd := funcDecl(apif, "ListEvents"); fd != nil {
			ast.Inspect(fd, func(n ast.Node) bool {
				if x, ok := n.(*ast.CompositeLit); ok {
					if t := exprString(x.Type); t == "Event" || t == "EventSubscriber" {
						for _, el := range x.Elts {
							leFields = append(leFields, t+"."+c14Expr(el))
						}
					}
				}
				return true
			})
			// every append with the loops / conditions it sits under
			var walk func(n ast.Node, guards []string)
			walk = func(n ast.Node, guards []string) {
				switch x := n.(type) {
				case *ast.BlockStmt:
					for _, st := range x.List {
						walk(st, guards)
					}
				case *ast.IfStmt:
					walk(x.Body, append(append([]string{}, guards...), "if "+c14Expr(x.Cond)))
					if x.Else != nil {
						walk(x.Else, append(append([]string{}, guards...), "else"))
					}
				case *ast.RangeStmt:
					walk(x.Body, append(append([]string{}, guards...), "range "+c14Expr(x.X)))
				case *ast.ForStmt:
					walk(x.Body, append(append([]string{}, guards...), "for"))
				case *ast.BranchStmt:
					leAppends = append(leAppends, strings.Join(guards, " > ")+" > "+x.Tok.String())
				case *ast.AssignStmt:
					if len(x.Rhs) == 1 {
						if ce, ok := x.Rhs[0].(*ast.CallExpr); ok && exprString(ce.Fun) == "append" && len(ce.Args) == 2 {
							arg := c14Expr(ce.Args[1])
							if cl, ok := ce.Args[1].(*ast.CompositeLit); ok {
								arg = exprString(cl.Type) + "{…}"
							}
							leAppends = append(leAppends, strings.Join(guards, " > ")+" > "+exprString(x.Lhs[0])+" = append("+c14Expr(ce.Args[0])+", "+arg+")")
						}
					}
				}
			}
			walk(fd.Body, nil)
		}
		l.def("listEventsFields", "List String", leanStrList(leFields), leFields)
		l.def("listEventsAppends", "List String", leanStrList(leAppends), leAppends)
	}

	// ---- state.go WritePayload: the `payloadWritten` guard of the AfterCommit notification, as a trace of the statements
	//      that matter (where the flag is set, the skip return, saveEvent, the marker, notify) with their closure
	//      (top / tx = the write transaction / afterCommit) and the if-conditions they sit under
	{
		var trace []string
		interesting := func(n ast.Node) []string {
			var out []string
			ast.Inspect(n, func(x ast.Node) bool {
				if _, ok := x.(*ast.FuncLit); ok {
					return false
				}
				if ce, ok := x.(*ast.CallExpr); ok {
					switch f := exprString(ce.Fun); f {
					case "s.saveEvent", "s.notify", "markPayloadEventSaved", "s.payloadStore.writePayload":
						out = append(out, c14Expr(ce))
					}
				}
				return true
			})
			return out
		}
		var walk func(stmts []ast.Stmt, ctx string, conds []string)
		emit := func(ctx string, conds []string, what string) {
			pre := ctx + ": "
			if len(conds) > 0 {
				pre += "if " + strings.Join(conds, " && ") + " => "
			}
			trace = append(trace, pre+what)
		}
		walkCall := func(ce *ast.CallExpr, conds []string) bool {
			if exprString(ce.Fun) != "s.db.Write" {
				return false
			}
			for _, a := range ce.Args {
				if fl, ok := a.(*ast.FuncLit); ok {
					walk(fl.Body.List, "tx", nil)
				}
				if c2, ok := a.(*ast.CallExpr); ok && exprString(c2.Fun) == "stoabs.AfterCommit" && len(c2.Args) == 1 {
					if fl, ok := c2.Args[0].(*ast.FuncLit); ok {
						walk(fl.Body.List, "afterCommit", nil)
					}
				}
			}
			return true
		}
		walk = func(stmts []ast.Stmt, ctx string, conds []string) {
			for _, st := range stmts {
				switch x := st.(type) {
				case *ast.AssignStmt:
					if len(x.Lhs) == 1 && exprString(x.Lhs[0]) == "payloadWritten" {
						emit(ctx, conds, "payloadWritten "+x.Tok.String()+" "+c14Expr(x.Rhs[0]))
						continue
					}
					for _, c := range interesting(x) {
						emit(ctx, conds, c)
					}
				case *ast.IfStmt:
					if x.Init != nil {
						for _, c := range interesting(x.Init) {
							emit(ctx, conds, c)
						}
					}
					walk(x.Body.List, ctx, append(append([]string{}, conds...), c14Expr(x.Cond)))
					if eb, ok := x.Else.(*ast.BlockStmt); ok {
						walk(eb.List, ctx, append(append([]string{}, conds...), "!("+c14Expr(x.Cond)+")"))
					}
				case *ast.ReturnStmt:
					if len(x.Results) == 1 {
						if ce, ok := x.Results[0].(*ast.CallExpr); ok && walkCall(ce, conds) {
							continue
						}
						if cs := interesting(x.Results[0]); len(cs) > 0 {
							for _, c := range cs {
								emit(ctx, conds, "return "+c)
							}
							continue
						}
						if ctx == "tx" && len(conds) > 0 && exprString(x.Results[0]) == "nil" {
							emit(ctx, conds, "return nil")
						}
					}
				case *ast.ExprStmt:
					if ce, ok := x.X.(*ast.CallExpr); ok && walkCall(ce, conds) {
						continue
					}
					for _, c := range interesting(x) {
						emit(ctx, conds, c)
					}
				}
			}
		}
		if fd := funcDecl(sf, "WritePayload"); fd != nil && fd.Body != nil {
			walk(fd.Body.List, "top", nil)
		}
		l.def("writePayloadGuardTrace", "List String", leanStrList(trace), trace)
	}

	// ---- network.go Network.Start: the resume loop - where Run() is called. Every notifier of state.Notifiers() must get
	//      Run() unconditionally: record the range expression, the Run calls, every condition on the path from the loop
	//      body to a Run call, every other call in the loop and every continue/break.
	_, nwf := parseFile("network/network.go")
	var startRanges, startGuards, startOtherCalls []string
	startRuns, startSkips := 0, 0
	if fd := funcDecl(nwf, "Start"); fd != nil {
		ast.Inspect(fd, func(n ast.Node) bool {
			rs, ok := n.(*ast.RangeStmt)
			if !ok || c14CallsIn(rs.Body, "notifier.Run") == 0 {
				return true
			}
			startRanges = append(startRanges, c14Expr(rs.X))
			var walk func(n ast.Node, guards []string)
			walk = func(n ast.Node, guards []string) {
				switch x := n.(type) {
				case nil:
					return
				case *ast.BlockStmt:
					for _, st := range x.List {
						walk(st, guards)
					}
				case *ast.IfStmt:
					// `if err = notifier.Run(); err != nil {…}`: the Init runs unguarded
					walk(x.Init, guards)
					g := append(append([]string{}, guards...), c14Expr(x.Cond))
					if c14CallsIn(x.Cond, "notifier.Run") > 0 {
						walk(&ast.ExprStmt{X: x.Cond}, guards)
					}
					walk(x.Body, g)
					if x.Else != nil {
						walk(x.Else, append(append([]string{}, guards...), "!("+c14Expr(x.Cond)+")"))
					}
				case *ast.BranchStmt:
					startSkips++
				case *ast.ReturnStmt:
					// leaving Start without an error before the remaining notifiers ran
					allNil := true
					for _, r := range x.Results {
						allNil = allNil && exprString(r) == "nil"
					}
					if allNil {
						startSkips++
					}
				case *ast.ForStmt, *ast.RangeStmt, *ast.SwitchStmt, *ast.TypeSwitchStmt, *ast.SelectStmt, *ast.GoStmt, *ast.DeferStmt, *ast.FuncLit:
					startGuards = append(startGuards, fmt.Sprintf("<%T>", x))
				default:
					ast.Inspect(n, func(m ast.Node) bool {
						ce, ok := m.(*ast.CallExpr)
						if !ok {
							return true
						}
						name := exprString(ce.Fun)
						if name == "notifier.Run" {
							startRuns++
							startGuards = append(startGuards, guards...)
						} else if strings.HasPrefix(name, "notifier.") {
							startOtherCalls = append(startOtherCalls, name)
						}
						return true
					})
				}
			}
			walk(rs.Body, nil)
			return false
		})
	}
	l.def("startResumeLoopRanges", "List String", leanStrList(startRanges), startRanges)
	l.def("startRunCalls", "Nat", fmt.Sprint(startRuns), startRuns)
	l.def("startRunGuards", "List String", leanStrList(startGuards), startGuards)
	l.def("startLoopSkips", "Nat", fmt.Sprint(startSkips), startSkips)
	l.def("startLoopOtherNotifierCalls", "List String", leanStrList(startOtherCalls), startOtherCalls)
	// dag/state.go Notifiers(): every registered notifier is returned (no condition, Range never stops early)
	notifiersIfs, notifiersRet := 0, []string{}
	if fd := funcDecl(sf, "Notifiers"); fd != nil {
		ast.Inspect(fd, func(n ast.Node) bool {
			switch x := n.(type) {
			case *ast.IfStmt:
				notifiersIfs++
			case *ast.FuncLit:
				ast.Inspect(x.Body, func(m ast.Node) bool {
					if r, ok := m.(*ast.ReturnStmt); ok && len(r.Results) == 1 {
						notifiersRet = append(notifiersRet, exprString(r.Results[0]))
					}
					return true
				})
			}
			return true
		})
	}
	l.def("stateNotifiersConditions", "Nat", fmt.Sprint(notifiersIfs), notifiersIfs)
	l.def("stateNotifiersRangeReturns", "List String", leanStrList(notifiersRet), notifiersRet)

	// ---- how each registered receiver maps what happened to (done, error): retry / fatal / done
	_, vdrf := parseFile("vdr/didnuts/ambassador.go")
	_, vcrf := parseFile("vcr/ambassador.go")
	_, protf := parseFile("network/transport/v2/protocol.go")
	for _, x := range []struct {
		def  string
		file *ast.File
		fn   string
	}{
		{"natsReceiverReturns", nwf, "emitEvents"},
		{"vdrReceiverReturns", vdrf, "handleNetworkEvent"},
		{"vcrVcsReceiverReturns", vcrf, "handleNetworkVCs"},
		{"vcrRevocationsReceiverReturns", vcrf, "handleNetworkRevocations"},
		{"vcrHandleErrorReturns", vcrf, "handleError"},
		{"privateReceiverReturns", protf, "handlePrivateTxRetry"},
		{"cleanupSubscriberEventsReturns", nwf, "CleanupSubscriberEvents"},
	} {
		r := c14Returns(x.file, x.fn)
		l.def(x.def, "List String", leanStrList(r), r)
	}
	// which receiver function each registration hands to Subscribe/Notifier is part of `registrations` below (receiver)
	// CleanupSubscriberEvents: calls made
	var cleanupCalls []string
	if fd := funcDecl(nwf, "CleanupSubscriberEvents"); fd != nil {
		ast.Inspect(fd, func(n ast.Node) bool {
			if ce, ok := n.(*ast.CallExpr); ok {
				cleanupCalls = append(cleanupCalls, c14Expr(ce))
			}
			return true
		})
	}
	l.def("cleanupSubscriberEventsCalls", "List String", leanStrList(cleanupCalls), cleanupCalls)
	// the store the persistent subscribers of other engines get (subscriber.go) is the store the DAG state is opened on (Configure)
	var kvArgs []string
	_, subf := parseFile("network/subscriber.go")
	for _, ff := range []*ast.File{subf, nwf} {
		ast.Inspect(ff, func(n ast.Node) bool {
			if ce, ok := n.(*ast.CallExpr); ok && strings.HasSuffix(exprString(ce.Fun), "storeProvider.GetKVStore") {
				kvArgs = append(kvArgs, c14Expr(ce))
			}
			return true
		})
	}
	l.def("dagStoreLookups", "List String", leanStrList(kvArgs), kvArgs)

	// state.saveEvent / state.notify: what the Range callback returns (saveEvent must stop at and return the first Save
	// error; notify visits everybody), and what saveEvent returns
	for _, fn := range []string{"saveEvent", "notify"} {
		var rets []string
		if fd := funcDecl(sf, fn); fd != nil {
			ast.Inspect(fd, func(n ast.Node) bool {
				if r, ok := n.(*ast.ReturnStmt); ok {
					var rs []string
					for _, x := range r.Results {
						rs = append(rs, c14Expr(x))
					}
					rets = append(rets, "return "+strings.Join(rs, ", "))
				}
				if as, ok := n.(*ast.AssignStmt); ok && len(as.Lhs) == 1 && exprString(as.Lhs[0]) == "err" {
					rets = append(rets, "err "+as.Tok.String()+" "+c14Expr(as.Rhs[0]))
				}
				return true
			})
		} else {
			rets = []string{"MISSING"}
		}
		l.def(fn+"Body", "List String", leanStrList(rets), rets)
	}
	// state.Add: the presence check is repeated as the first statement inside the write transaction
	addRecheck := false
	if fd := funcDecl(sf, "Add"); fd != nil {
		ast.Inspect(fd, func(n ast.Node) bool {
			ce, ok := n.(*ast.CallExpr)
			if !ok || exprString(ce.Fun) != "s.db.Write" || len(ce.Args) < 2 {
				return true
			}
			if fl, ok := ce.Args[1].(*ast.FuncLit); ok && len(fl.Body.List) > 0 {
				if is, ok := fl.Body.List[0].(*ast.IfStmt); ok && c14Expr(is.Cond) == "s.graph.isPresent(tx, transaction.Ref())" && len(is.Body.List) == 1 {
					if r, ok := is.Body.List[0].(*ast.ReturnStmt); ok && len(r.Results) == 1 && exprString(r.Results[0]) == "nil" {
						addRecheck = true
					}
				}
			}
			return true
		})
	}
	l.def("addRechecksPresenceFirstInWriteTx", "Bool", map[bool]string{true: "true", false: "false"}[addRecheck], addRecheck)

	// the per-transaction marker: shelf and key
	var markerKeys []string
	for _, fn := range []string{"isPayloadEventSaved", "markPayloadEventSaved"} {
		if fd := funcDecl(sf, fn); fd != nil {
			ast.Inspect(fd, func(n ast.Node) bool {
				if ce, ok := n.(*ast.CallExpr); ok {
					name := exprString(ce.Fun)
					if strings.HasSuffix(name, ".Get") || strings.HasSuffix(name, ".Put") {
						markerKeys = append(markerKeys, fn+": "+c14Expr(ce))
					}
				}
				return true
			})
		} else {
			markerKeys = append(markerKeys, fn+": MISSING")
		}
	}
	l.def("payloadEventMarker", "List String", leanStrList(markerKeys), markerKeys)

	// ---- protocol v2 handleTransactionPayload: order of the state calls
	_, hf := parseFile("network/transport/v2/handlers.go")
	var hcalls []string
	notFoundReturn := false
	if fd := funcDecl(hf, "handleTransactionPayload"); fd != nil {
		ast.Inspect(fd, func(n ast.Node) bool {
			switch x := n.(type) {
			case *ast.CallExpr:
				s := exprString(x.Fun)
				if s == "p.state.GetTransaction" || s == "p.state.WritePayload" || s == "p.privatePayloadReceiver.Finished" || s == "p.state.Add" {
					hcalls = append(hcalls, s)
				}
			case *ast.IfStmt:
				if strings.Contains(c14Expr(x.Cond), "dag.ErrTransactionNotFound") {
					for _, b := range x.Body.List {
						if _, ok := b.(*ast.ReturnStmt); ok {
							notFoundReturn = true
						}
					}
				}
			}
			return true
		})
	}
	l.def("payloadHandlerCalls", "List String", leanStrList(hcalls), hcalls)
	l.def("payloadHandlerReturnsWhenTxUnknown", "Bool", map[bool]string{true: "true", false: "false"}[notFoundReturn], notFoundReturn)

	// ---- every Subscribe / Notifier registration of the repository with its filters
	consts := map[string][]string{}
	c14Walk(func(rel string, f *ast.File) {
		for _, d := range f.Decls {
			gd, ok := d.(*ast.GenDecl)
			if !ok || gd.Tok != token.CONST {
				continue
			}
			for _, sp := range gd.Specs {
				vs := sp.(*ast.ValueSpec)
				for i, n := range vs.Names {
					if i < len(vs.Values) {
						if bl, ok := vs.Values[i].(*ast.BasicLit); ok && bl.Kind == token.STRING {
							v, _ := strconv.Unquote(bl.Value)
							dup := false
							for _, o := range consts[n.Name] {
								dup = dup || o == v
							}
							if !dup {
								consts[n.Name] = append(consts[n.Name], v)
							}
						}
					}
				}
			}
		}
	})
	var regs []c14Reg
	c14Walk(func(rel string, f *ast.File) {
		ast.Inspect(f, func(n ast.Node) bool {
			ce, ok := n.(*ast.CallExpr)
			if !ok || len(ce.Args) < 2 {
				return true
			}
			sel, ok := ce.Fun.(*ast.SelectorExpr)
			if !ok || (sel.Sel.Name != "Notifier" && sel.Sel.Name != "Subscribe") {
				return true
			}
			bl, ok := ce.Args[0].(*ast.BasicLit)
			if !ok || bl.Kind != token.STRING {
				return true
			}
			name, _ := strconv.Unquote(bl.Value)
			r := c14Reg{name: name, file: rel, receiver: c14Expr(ce.Args[1])}
			for _, a := range ce.Args[2:] {
				oc, ok := a.(*ast.CallExpr)
				if !ok {
					r.filters = append(r.filters, "Filter.unknown_option")
					continue
				}
				on := exprString(oc.Fun)
				switch {
				case strings.HasSuffix(on, "WithPersistency"):
					r.persistent = true
				case strings.HasSuffix(on, "WithSelectionFilter"):
					if len(oc.Args) == 1 {
						if fl, ok := oc.Args[0].(*ast.FuncLit); ok {
							t, raw := c14FilterTerm(fl, consts)
							r.filters = append(r.filters, t)
							r.raw = append(r.raw, raw)
							continue
						}
					}
					r.filters = append(r.filters, "Filter.unknown_filter_arg")
				case strings.HasSuffix(on, "WithRetryDelay"), strings.HasSuffix(on, "WithContext"):
				default:
					r.filters = append(r.filters, "Filter.unknown_option_"+c14Ident(on))
				}
			}
			regs = append(regs, r)
			return true
		})
	})
	sort.Slice(regs, func(i, j int) bool { return regs[i].name < regs[j].name })
	var terms, recvs []string
	var raw []map[string]interface{}
	for _, r := range regs {
		terms = append(terms, fmt.Sprintf("(%q, %v, [%s])", r.name, r.persistent, strings.Join(r.filters, ", ")))
		raw = append(raw, map[string]interface{}{"name": r.name, "file": r.file, "persistent": r.persistent, "filters": r.raw, "lean": r.filters, "receiver": r.receiver})
		recvs = append(recvs, r.name+" <- "+r.receiver)
	}
	l.def("registrations", "List (String × Bool × List Filter)", "[\n  "+strings.Join(terms, ",\n  ")+"]", raw)
	l.def("registrationReceivers", "List String", leanStrList(recvs), recvs)
	return l
}
