package main

// C07 deepening: facts about network/dag/tree/iblt.go that the Lean model NutsModel/C07/Iblt.lean mirrors
// (constants, the bucket selection expressions and loop conditions of bucketIndices, the pure test and the calls of
// Decode, the statements of the bucket operations). Dumb: prints what the source says.

import (
	"go/ast"
)

// c07Method finds `func (recv T) name` by method name and receiver type name
func c07Method(f *ast.File, recv, name string) *ast.FuncDecl {
	for _, d := range f.Decls {
		fd, ok := d.(*ast.FuncDecl)
		if !ok || fd.Name.Name != name || fd.Recv == nil || len(fd.Recv.List) != 1 {
			continue
		}
		t := fd.Recv.List[0].Type
		if s, ok := t.(*ast.StarExpr); ok {
			t = s.X
		}
		if id, ok := t.(*ast.Ident); ok && id.Name == recv {
			return fd
		}
	}
	return nil
}

func c07Iblt(l *lean) {
	_, f := parseFile("network/dag/tree/iblt.go")
	for _, name := range []string{"ibltK", "ibltMaxChain", "ibltHk", "ibltHc", "bucketBytes"} {
		v := c07Const(f, name)
		l.def(name, "Nat", v, v)
	}
	// bucketIndices: what is assigned to bucketID / probe, the loop conditions, the clamp of k
	var assigns, loops, clamp []string
	if fd := c07Method(f, "Iblt", "bucketIndices"); fd != nil {
		ast.Inspect(fd, func(n ast.Node) bool {
			switch x := n.(type) {
			case *ast.AssignStmt:
				if len(x.Lhs) == 1 {
					switch exprString(x.Lhs[0]) {
					case "bucketID", "probe", "next", "k", "numBuckets":
						assigns = append(assigns, c07Src(x))
					}
				}
			case *ast.ForStmt:
				s := ""
				if x.Init != nil {
					s += c07Src(x.Init)
				}
				s += "; "
				if x.Cond != nil {
					s += c07Src(x.Cond)
				}
				s += "; "
				if x.Post != nil {
					s += c07Src(x.Post)
				}
				loops = append(loops, s)
			case *ast.IfStmt:
				clamp = append(clamp, c07Src(x.Cond))
			}
			return true
		})
	}
	l.def("ibltIndexAssigns", "List String", leanStrList(assigns), assigns)
	l.def("ibltIndexLoops", "List String", leanStrList(loops), loops)
	l.def("ibltIndexIfs", "List String", leanStrList(clamp), clamp)
	// Decode: conditions in order, and the calls on the receiver in order
	var conds, calls []string
	if fd := c07Method(f, "Iblt", "Decode"); fd != nil {
		ast.Inspect(fd, func(n ast.Node) bool {
			switch x := n.(type) {
			case *ast.IfStmt:
				conds = append(conds, c07Src(x.Cond))
			case *ast.ForStmt:
				if x.Cond == nil {
					conds = append(conds, "for{}")
				}
			case *ast.RangeStmt:
				conds = append(conds, "range "+c07Src(x.X))
			case *ast.CallExpr:
				if se, ok := x.Fun.(*ast.SelectorExpr); ok && exprString(se.X) == "i" {
					calls = append(calls, se.Sel.Name)
				}
			case *ast.AssignStmt:
				if len(x.Lhs) == 1 && (exprString(x.Lhs[0]) == "err" || exprString(x.Lhs[0]) == "txRef" || exprString(x.Lhs[0]) == "updated") {
					conds = append(conds, c07Src(x))
				}
			}
			return true
		})
	}
	l.def("ibltDecodeShape", "List String", leanStrList(conds), conds)
	l.def("ibltDecodeCalls", "List String", leanStrList(calls), calls)
	// bucket operations and the Iblt methods that use them
	var ops []string
	for _, m := range []struct{ recv, name string }{{"bucket", "insert"}, {"bucket", "delete"}, {"bucket", "subtract"}, {"bucket", "update"}, {"bucket", "isEmpty"},
		{"Iblt", "Insert"}, {"Iblt", "Delete"}, {"Iblt", "Subtract"}, {"Iblt", "Empty"}, {"Iblt", "hashKey"}} {
		fd := c07Method(f, m.recv, m.name)
		if fd == nil {
			ops = append(ops, m.recv+"."+m.name+": MISSING")
			continue
		}
		s := m.recv + "." + m.name + ":"
		for _, st := range fd.Body.List {
			s += " " + c07Src(st) + ";"
		}
		ops = append(ops, s)
	}
	l.def("ibltOps", "List String", leanStrList(ops), ops)
}
