package main

// C05, deepening round: the request-level layer (lean/NutsModel/C05/Forms.lean) is tied to the source by
//  * the normalised source text of every handler function the layer mirrors (`src_<fn>`: one string per statement line,
//    comments and blank lines dropped) — any edit of their control flow changes the fact, the fact_* theorem then fails;
//  * data the model CONSUMES: the grant-type switch of HandleTokenRequest (constant values resolved in auth/oauth),
//    the values of the oauth.ErrorCode constants, the (code, description) pairs of each handler's error returns in
//    source order, the nil-checked parameters of the vp_token grant, the challenge methods validatePKCEParams accepts.

import (
	"bytes"
	"fmt"
	"go/ast"
	"go/printer"
	"go/token"
	"strconv"
	"strings"
)

func c05SrcLines(fset *token.FileSet, fd *ast.FuncDecl) []string {
	if fd == nil || fd.Body == nil {
		return []string{"MISSING"}
	}
	// printing a node that is not an *ast.File prints no comments
	var buf bytes.Buffer
	cfg := printer.Config{Mode: printer.RawFormat}
	if err := cfg.Fprint(&buf, fset, fd.Body); err != nil {
		return []string{"UNPRINTABLE"}
	}
	var res []string
	for _, ln := range strings.Split(buf.String(), "\n") {
		ln = strings.Join(strings.Fields(ln), " ")
		if ln == "" || strings.HasPrefix(ln, "//") {
			continue
		}
		res = append(res, ln)
	}
	return res
}

// c05FirstLit: the first string literal inside an expression (a description, a Sprintf format, the head of a concatenation)
func c05FirstLit(e ast.Expr) string {
	lit := ""
	ast.Inspect(e, func(n ast.Node) bool {
		if lit != "" {
			return false
		}
		if b, ok := n.(*ast.BasicLit); ok && b.Kind == token.STRING {
			if s, err := strconv.Unquote(b.Value); err == nil {
				lit = s
			}
		}
		return true
	})
	return lit
}

// c05ErrReturns lists, in source order, the OAuth errors a function builds: oauthError(oauth.X, "desc" …) calls and
// oauth.OAuth2Error{Code: oauth.X, Description: "desc" …} literals, as "X|desc" (desc = first string literal)
func c05ErrReturns(fd *ast.FuncDecl) []string {
	var res []string
	if fd == nil || fd.Body == nil {
		return []string{"MISSING"}
	}
	ast.Inspect(fd.Body, func(n ast.Node) bool {
		switch x := n.(type) {
		case *ast.CallExpr:
			if id, ok := x.Fun.(*ast.Ident); ok && id.Name == "oauthError" && len(x.Args) >= 2 {
				res = append(res, strings.TrimPrefix(exprString(x.Args[0]), "oauth.")+"|"+c05FirstLit(x.Args[1]))
				return false
			}
		case *ast.CompositeLit:
			if exprString(x.Type) == "oauth.OAuth2Error" {
				code, desc := "?", ""
				for _, el := range x.Elts {
					if kv, ok := el.(*ast.KeyValueExpr); ok {
						switch exprString(kv.Key) {
						case "Code":
							code = strings.TrimPrefix(exprString(kv.Value), "oauth.")
						case "Description":
							desc = c05FirstLit(kv.Value)
						}
					}
				}
				res = append(res, code+"|"+desc)
				return false
			}
		}
		return true
	})
	return res
}

func leanPairList(l [][2]string) string {
	q := make([]string, len(l))
	for i, s := range l {
		q[i] = fmt.Sprintf("(%q, %q)", s[0], s[1])
	}
	return "[" + strings.Join(q, ", ") + "]"
}

func extractC05Forms(l *lean) {
	oa := c05Load("auth/oauth")
	constStr := func(name string) (string, bool) {
		e, ok := oa.consts[name]
		if !ok {
			return "", false
		}
		b, ok := e.(*ast.BasicLit)
		if !ok || b.Kind != token.STRING {
			return "", false
		}
		s, err := strconv.Unquote(b.Value)
		return s, err == nil
	}
	// ---- oauth.ErrorCode constants (auth/oauth/error.go)
	_, errFile := parseFile("auth/oauth/error.go")
	var codes [][2]string
	for _, d := range errFile.Decls {
		gd, ok := d.(*ast.GenDecl)
		if !ok || gd.Tok != token.CONST {
			continue
		}
		for _, s := range gd.Specs {
			vs := s.(*ast.ValueSpec)
			if vs.Type == nil || exprString(vs.Type) != "ErrorCode" {
				continue
			}
			for i, nm := range vs.Names {
				if i < len(vs.Values) {
					if b, ok := vs.Values[i].(*ast.BasicLit); ok {
						if v, err := strconv.Unquote(b.Value); err == nil {
							codes = append(codes, [2]string{nm.Name, v})
						}
					}
				}
			}
		}
	}
	l.def("oauthErrorCodes", "List (String × String)", leanPairList(codes), codes)

	// ---- api.go HandleTokenRequest: the grant-type switch
	fsetAPI, api := parseFile("auth/api/iam/api.go")
	htr := funcDecl(api, "HandleTokenRequest")
	var sw [][2]string
	var vpRequired []string
	swTag := "MISSING"
	if htr != nil && htr.Body != nil {
		ast.Inspect(htr.Body, func(n ast.Node) bool {
			s, ok := n.(*ast.SwitchStmt)
			if !ok || s.Tag == nil {
				return true
			}
			swTag = exprString(s.Tag)
			for _, c := range s.Body.List {
				cc := c.(*ast.CaseClause)
				action := "?"
				// the first call of a handler method of the wrapper, else the error code of the first OAuth2Error literal
				ast.Inspect(cc, func(m ast.Node) bool {
					if y, ok := m.(*ast.CallExpr); ok && action == "?" {
						if sel, ok := y.Fun.(*ast.SelectorExpr); ok && exprString(sel.X) == "r" && strings.HasPrefix(sel.Sel.Name, "handle") {
							action = sel.Sel.Name
						}
					}
					return true
				})
				ast.Inspect(cc, func(m ast.Node) bool {
					if action != "?" {
						return false
					}
					switch y := m.(type) {
					case *ast.CompositeLit:
						if exprString(y.Type) == "oauth.OAuth2Error" {
							for _, el := range y.Elts {
								if kv, ok := el.(*ast.KeyValueExpr); ok && exprString(kv.Key) == "Code" {
									action = "error:" + strings.TrimPrefix(exprString(kv.Value), "oauth.")
								}
							}
						}
					}
					return true
				})
				if cc.List == nil {
					sw = append(sw, [2]string{"*", action})
				}
				for _, e := range cc.List {
					name := strings.TrimPrefix(exprString(e), "oauth.")
					v, ok := constStr(name)
					if !ok {
						v = "UNRESOLVED:" + name
					}
					sw = append(sw, [2]string{v, action})
					if name == "VpTokenGrantType" {
						// the parameters the case requires: `request.Body.X == nil` operands of its first if
						ast.Inspect(cc, func(m ast.Node) bool {
							if be, ok := m.(*ast.BinaryExpr); ok && be.Op == token.EQL && exprString(be.Y) == "nil" {
								vpRequired = append(vpRequired, strings.TrimPrefix(exprString(be.X), "request.Body."))
							}
							return true
						})
					}
				}
			}
			return false
		})
	}
	l.def("tokenGrantSwitchTag", "String", fmt.Sprintf("%q", swTag), swTag)
	l.def("tokenGrantSwitch", "List (String × String)", leanPairList(sw), sw)
	l.def("vpTokenRequired", "List String", leanStrList(vpRequired), vpRequired)
	_ = fsetAPI

	// ---- the handlers the request-level model mirrors: normalised source + error returns in source order
	for _, it := range []struct{ file, fn string }{
		{"auth/api/iam/api.go", "HandleTokenRequest"},
		{"auth/api/iam/openid4vp.go", "handleAuthorizeResponseSubmission"},
		{"auth/api/iam/openid4vp.go", "handleAccessTokenRequest"},
		{"auth/api/iam/openid4vp.go", "validatePresentationNonce"},
		{"auth/api/iam/openid4vp.go", "extractChallenge"},
		{"auth/api/iam/s2s_vptoken.go", "validateS2SPresentationNonce"},
		{"auth/api/iam/s2s_vptoken.go", "extractNonce"},
		{"auth/api/iam/pkce_util.go", "validatePKCEParams"},
		{"auth/api/iam/dpop.go", "dpopFromRequest"},
		{"auth/api/iam/dpop.go", "ValidateDPoPProof"},
		{"auth/api/iam/api.go", "RequestJWTByGet"},
		{"auth/api/iam/api.go", "RequestJWTByPost"},
		{"auth/api/iam/user.go", "handleUserLanding"},
	} {
		fset, f := parseFile(it.file)
		fd := funcDecl(f, it.fn)
		lines := c05SrcLines(fset, fd)
		if it.fn == "handleUserLanding" {
			// mirrored up to the user session: cut after the GetAndDelete block
			for i, ln := range lines {
				if strings.Contains(ln, "accessTokenRequest :=") {
					lines = lines[:i]
					break
				}
			}
		}
		if it.fn != "handleAuthorizeResponseSubmission" {
			l.def("src_"+it.fn, "List String", leanStrList(lines), lines)
		}
		errs := c05ErrReturns(fd)
		var pairs [][2]string
		for _, e := range errs {
			p := strings.SplitN(e, "|", 2)
			if len(p) == 2 {
				pairs = append(pairs, [2]string{p[0], p[1]})
			} else {
				pairs = append(pairs, [2]string{e, ""})
			}
		}
		if len(errs) > 0 {
			l.def("errs_"+it.fn, "List (String × String)", leanPairList(pairs), errs)
		}
	}
	// ---- the prefix of handleAuthorizeResponseSubmission up to the nonce check, and the nonce loop of the s2s handler
	{
		fset, f := parseFile("auth/api/iam/openid4vp.go")
		lines := c05SrcLines(fset, funcDecl(f, "handleAuthorizeResponseSubmission"))
		cut := len(lines)
		for i, ln := range lines {
			if strings.Contains(ln, "validatePresentationNonce(") {
				cut = i + 1
				break
			}
		}
		l.def("src_responsePrefix", "List String", leanStrList(lines[:cut]), lines[:cut])
		fset2, f2 := parseFile("auth/api/iam/s2s_vptoken.go")
		lines2 := c05SrcLines(fset2, funcDecl(f2, "handleS2SAccessTokenRequest"))
		var loop []string
		for i, ln := range lines2 {
			if strings.Contains(ln, "validateS2SPresentationNonce(") && i > 0 {
				// the range statement that encloses the call, up to its closing brace
				j := i - 1
				for j > 0 && !strings.HasPrefix(lines2[j], "for ") {
					j--
				}
				k := i
				for k < len(lines2)-1 && !(lines2[k] == "}" && k > i+2) {
					k++
				}
				loop = lines2[j : k+1]
				break
			}
		}
		l.def("src_s2sNonceLoop", "List String", leanStrList(loop), loop)
		// what follows the nonce loop and can still refuse the request (the nonce stays registered): error returns after the loop
		var after []string
		seen := false
		for _, ln := range lines2 {
			if strings.Contains(ln, "validateS2SPresentationNonce(") {
				seen = true
				continue
			}
			if seen && (strings.HasPrefix(ln, "return ") || strings.Contains(ln, "dpopFromRequest(") || strings.Contains(ln, "VerifyVP(") || strings.Contains(ln, "createAccessToken(")) {
				after = append(after, ln)
			}
		}
		l.def("src_s2sAfterNonce", "List String", leanStrList(after), after)
	}
	// ---- the challenge methods validatePKCEParams accepts
	{
		_, f := parseFile("auth/api/iam/pkce_util.go")
		var methods []string
		if fd := funcDecl(f, "validatePKCEParams"); fd != nil && fd.Body != nil {
			ast.Inspect(fd.Body, func(n ast.Node) bool {
				if cc, ok := n.(*ast.CaseClause); ok {
					for _, e := range cc.List {
						if b, ok := e.(*ast.BasicLit); ok && b.Kind == token.STRING {
							if s, err := strconv.Unquote(b.Value); err == nil {
								methods = append(methods, s)
							}
						}
					}
				}
				return true
			})
		}
		l.def("pkceMethods", "List String", leanStrList(methods), methods)
	}
}
