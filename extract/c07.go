package main

import (
	"bytes"
	"fmt"
	"go/ast"
	"go/printer"
	"go/token"
	"strconv"
	"strings"
)

func init() { extractors["C07"] = extractC07 }

// c07ConstInt evaluates the small constant expressions the protocol uses: literals, products,
// conversions like uint32(512) and `30 * time.Second` (the unit is dropped: seconds).
func c07ConstInt(e ast.Expr) (int, bool) {
	switch x := e.(type) {
	case *ast.BasicLit:
		if x.Kind == token.INT {
			v, err := strconv.Atoi(x.Value)
			return v, err == nil
		}
	case *ast.ParenExpr:
		return c07ConstInt(x.X)
	case *ast.CallExpr:
		if len(x.Args) == 1 {
			return c07ConstInt(x.Args[0])
		}
	case *ast.SelectorExpr:
		if exprString(x) == "time.Second" {
			return 1, true
		}
	case *ast.BinaryExpr:
		a, ok1 := c07ConstInt(x.X)
		b, ok2 := c07ConstInt(x.Y)
		if ok1 && ok2 {
			switch x.Op {
			case token.MUL:
				return a * b, true
			case token.ADD:
				return a + b, true
			case token.SUB:
				return a - b, true
			}
		}
	}
	return 0, false
}

// c07Const finds `name = <expr>` in const/var declarations of the file
func c07Const(f *ast.File, name string) string {
	for _, d := range f.Decls {
		gd, ok := d.(*ast.GenDecl)
		if !ok {
			continue
		}
		for _, sp := range gd.Specs {
			vs, ok := sp.(*ast.ValueSpec)
			if !ok {
				continue
			}
			for i, n := range vs.Names {
				if n.Name == name && i < len(vs.Values) {
					if v, ok := c07ConstInt(vs.Values[i]); ok {
						return strconv.Itoa(v)
					}
					return "unknown_const_" + name // does not elaborate
				}
			}
		}
	}
	return "missing_const_" + name
}

func c07Methods(f *ast.File, method string) []string {
	var r []string
	for _, d := range f.Decls {
		fd, ok := d.(*ast.FuncDecl)
		if !ok || fd.Recv == nil || fd.Name.Name != method || len(fd.Recv.List) != 1 {
			continue
		}
		r = append(r, strings.TrimPrefix(exprString(fd.Recv.List[0].Type), "*"))
	}
	return r
}

// conditions of the top-level `if` statements of a block, in order, with a tag of what the body does
func c07IfChain(stmts []ast.Stmt) []string {
	var r []string
	for _, st := range stmts {
		is, ok := st.(*ast.IfStmt)
		if !ok {
			continue
		}
		r = append(r, c07Src(is.Cond))
	}
	return r
}

func c07Calls(n ast.Node, fn string) []*ast.CallExpr {
	var r []*ast.CallExpr
	ast.Inspect(n, func(m ast.Node) bool {
		if c, ok := m.(*ast.CallExpr); ok && exprString(c.Fun) == fn {
			r = append(r, c)
		}
		return true
	})
	return r
}

func c07Pos(fd *ast.FuncDecl, fn string) int {
	cs := c07Calls(fd, fn)
	if len(cs) == 0 {
		return -1
	}
	return int(cs[0].Pos())
}

func c07Bool(b bool) string {
	if b {
		return "true"
	}
	return "false"
}

func c07NatList(l []int) string {
	q := make([]string, len(l))
	for i, v := range l {
		q[i] = strconv.Itoa(v)
	}
	return "[" + strings.Join(q, ", ") + "]"
}

func extractC07() *lean {
	l := newLean("C07")
	_, state := parseFile("network/dag/state.go")
	_, gman := parseFile("network/transport/v2/gossip/manager.go")
	_, senders := parseFile("network/transport/v2/senders.go")
	_, cm := parseFile("network/transport/grpc/connection_manager.go")
	_, conv := parseFile("network/transport/v2/conversation.go")
	_, handlers := parseFile("network/transport/v2/handlers.go")
	_, tlh := parseFile("network/transport/v2/transactionlist_handler.go")

	for _, c := range []struct {
		f    *ast.File
		name string
	}{{state, "PageSize"}, {state, "IbltNumBuckets"}, {gman, "maxQueueSize"}, {senders, "transactionListMessageOverhead"},
		{senders, "transactionListTXOverhead"}, {cm, "defaultMaxMessageSizeInBytes"}, {conv, "maxValidity"}} {
		v := c07Const(c.f, c.name)
		l.def(strings.ToLower(c.name[:1])+c.name[1:], "Nat", v, v)
	}

	// which request envelopes block further requests to the same peer / can be checked against a response
	blockable := c07Methods(conv, "blockingConversation")
	checkable := c07Methods(conv, "checkResponse")
	l.def("blockable", "List String", leanStrList(blockable), blockable)
	l.def("checkable", "List String", leanStrList(checkable), checkable)

	// handleTransactionRangeQuery: limit := msg.Start + K*dag.PageSize
	rangePages := -1
	if fd := funcDecl(handlers, "handleTransactionRangeQuery"); fd != nil {
		ast.Inspect(fd, func(n ast.Node) bool {
			if as, ok := n.(*ast.AssignStmt); ok && len(as.Lhs) == 1 && exprString(as.Lhs[0]) == "limit" {
				if be, ok := as.Rhs[0].(*ast.BinaryExpr); ok && exprString(be.X) == "msg.Start" {
					if mul, ok := be.Y.(*ast.BinaryExpr); ok && exprString(mul.Y) == "dag.PageSize" {
						if v, ok := c07ConstInt(mul.X); ok {
							rangePages = v
						}
					}
				}
			}
			return true
		})
	}
	if rangePages < 0 {
		l.def("rangeLimitPages", "Nat", "unknown_range_limit", nil)
	} else {
		l.def("rangeLimitPages", "Nat", strconv.Itoa(rangePages), rangePages)
	}

	// handleTransactionSet: the offsets K in pageClockStart(reqPageNum+K) in source order, the first-page query,
	// and the order conversation check -> done -> decode
	var offs []int
	firstPage := ""
	checkFirst := false
	if fd := funcDecl(handlers, "handleTransactionSet"); fd != nil {
		for _, c := range c07Calls(fd, "pageClockStart") {
			if be, ok := c.Args[0].(*ast.BinaryExpr); ok && exprString(be.X) == "reqPageNum" {
				if v, ok := c07ConstInt(be.Y); ok {
					offs = append(offs, v)
				}
			}
		}
		for _, c := range c07Calls(fd, "p.sender.sendTransactionRangeQuery") {
			if len(c.Args) == 3 && exprString(c.Args[1]) == "0" {
				firstPage = exprString(c.Args[2])
			}
		}
		pc, pd, pdec := c07Pos(fd, "p.cMan.check"), c07Pos(fd, "p.cMan.done"), c07Pos(fd, "iblt.Decode")
		checkFirst = pc > 0 && pc < pd && pd < pdec
	}
	l.def("nextPageOffsets", "List Nat", c07NatList(offs), offs)
	l.def("firstPageQueryEnd", "String", fmt.Sprintf("%q", firstPage), firstPage)
	l.def("setCheckThenDoneThenDecode", "Bool", c07Bool(checkFirst), checkFirst)

	// handleTransactionList: conversation check before the first Add; done() only under MessageNumber >= TotalMessages
	// or in the missing-prevs branch
	checkBeforeAdd := false
	doneGuard := ""
	if fd := funcDecl(tlh, "handleTransactionList"); fd != nil {
		pc, pa := c07Pos(fd, "p.cMan.check"), c07Pos(fd, "p.state.Add")
		checkBeforeAdd = pc > 0 && pa > pc
		for _, st := range fd.Body.List {
			if is, ok := st.(*ast.IfStmt); ok && len(c07Calls(is.Body, "p.cMan.done")) > 0 {
				doneGuard = c07Src(is.Cond)
			}
		}
	}
	l.def("listCheckBeforeAdd", "Bool", c07Bool(checkBeforeAdd), checkBeforeAdd)
	l.def("listDoneGuard", "String", fmt.Sprintf("%q", doneGuard), doneGuard)

	// handleGossip: the condition under which a TransactionListQuery (rather than State) is sent
	gossipCond := ""
	if fd := funcDecl(handlers, "handleGossip"); fd != nil {
		for _, st := range fd.Body.List {
			if is, ok := st.(*ast.IfStmt); ok && len(c07Calls(is.Body, "p.sender.sendTransactionListQuery")) > 0 {
				gossipCond = c07Src(is.Cond)
			}
		}
	}
	l.def("gossipListQueryCond", "String", fmt.Sprintf("%q", gossipCond), gossipCond)

	// protocol.handle: the envelope types that have a handler
	var handled []string
	if fd := funcDecl(handlers, "handle"); fd != nil {
		ast.Inspect(fd, func(n ast.Node) bool {
			if cc, ok := n.(*ast.CaseClause); ok {
				for _, e := range cc.List {
					handled = append(handled, strings.TrimPrefix(exprString(e), "*"))
				}
			}
			return true
		})
	}
	l.def("handledEnvelopes", "List String", leanStrList(handled), handled)

	// protocol.handle: which handler each envelope type is dispatched to (handleASync's last argument), or "channel:<field>"
	// when it is queued for in-order processing; and the function the list handler runs (protocol.Start)
	var dispatch []string
	if fd := funcDecl(handlers, "handle"); fd != nil {
		ast.Inspect(fd, func(n ast.Node) bool {
			cc, ok := n.(*ast.CaseClause)
			if !ok || len(cc.List) != 1 {
				return true
			}
			typ := strings.TrimPrefix(exprString(cc.List[0]), "*")
			target := "NONE"
			ast.Inspect(cc, func(m ast.Node) bool {
				switch x := m.(type) {
				case *ast.CallExpr:
					if exprString(x.Fun) == "handleASync" && len(x.Args) == 4 {
						target = exprString(x.Args[3])
					}
				case *ast.SendStmt:
					target = "channel:" + exprString(x.Chan)
				}
				return true
			})
			dispatch = append(dispatch, typ+"->"+target)
			return true
		})
	}
	// senders.go chunkTransactionList: the room expression and the per-transaction size expression; connection_manager.go: the
	// gRPC options that are given MaxMessageSizeInBytes
	chunkMax, chunkTx := "MISSING", "MISSING"
	if fd := funcDecl(senders, "chunkTransactionList"); fd != nil {
		ast.Inspect(fd, func(n ast.Node) bool {
			if as, ok := n.(*ast.AssignStmt); ok && len(as.Lhs) == 1 && len(as.Rhs) == 1 {
				switch exprString(as.Lhs[0]) {
				case "max":
					chunkMax = c07Src(as.Rhs[0])
				case "txSize":
					chunkTx = c07Src(as.Rhs[0])
				}
			}
			return true
		})
	}
	l.def("chunkMaxExpr", "String", fmt.Sprintf("%q", chunkMax), chunkMax)
	l.def("chunkTxSizeExpr", "String", fmt.Sprintf("%q", chunkTx), chunkTx)
	var limitOpts []string
	ast.Inspect(cm, func(n ast.Node) bool {
		if c, ok := n.(*ast.CallExpr); ok && len(c.Args) == 1 && exprString(c.Args[0]) == "MaxMessageSizeInBytes" {
			limitOpts = append(limitOpts, exprString(c.Fun))
		}
		return true
	})
	l.def("grpcLimitOptions", "List String", leanStrList(limitOpts), limitOpts)
	// network/dag/state.go Add: the add mutex is locked once and released by a top-level `defer unlock()` (through a sync.Once,
	// also registered as AfterCommit hook): every exit of Add - also a Write that fails before a transaction exists - releases it
	_, stateF := parseFile("network/dag/state.go")
	var addDefers, addHooks, addLockSeq []string
	addUnlockDef := "MISSING"
	directUnlocks := 0
	if fd := funcDecl(stateF, "Add"); fd != nil {
		locked := false
		for _, st := range fd.Body.List {
			src := c07Src(st)
			if src == "s.addMutex.Lock()" {
				locked = true
			}
			if ds, ok := st.(*ast.DeferStmt); ok {
				addDefers = append(addDefers, c07Src(ds.Call))
			}
			if locked {
				if len(src) > 40 {
					src = src[:40]
				}
				addLockSeq = append(addLockSeq, src)
			}
			if as, ok := st.(*ast.AssignStmt); ok && len(as.Lhs) == 1 && exprString(as.Lhs[0]) == "unlock" {
				addUnlockDef = c07Src(as.Rhs[0])
			}
		}
		ast.Inspect(fd, func(n ast.Node) bool {
			if se, ok := n.(*ast.SelectorExpr); ok && exprString(se) == "s.addMutex.Unlock" {
				directUnlocks++
			}
			if c, ok := n.(*ast.CallExpr); ok && exprString(c.Fun) == "s.db.Write" {
				for _, a := range c.Args[2:] {
					h := c07Src(a)
					if oc, ok := a.(*ast.CallExpr); ok {
						h = exprString(oc.Fun)
						if len(oc.Args) == 1 {
							if id, ok := oc.Args[0].(*ast.Ident); ok {
								h += "(" + id.Name + ")"
							} else {
								h += "(func)"
							}
						}
					}
					addHooks = append(addHooks, h)
				}
			}
			return true
		})
	}
	l.def("addTopLevelDefers", "List String", leanStrList(addDefers), addDefers)
	l.def("addAfterLock", "List String", leanStrList(addLockSeq), addLockSeq)
	l.def("addUnlockDef", "String", fmt.Sprintf("%q", addUnlockDef), addUnlockDef)
	l.def("addWriteHooks", "List String", leanStrList(addHooks), addHooks)
	l.def("addDirectUnlockRefs", "Nat", fmt.Sprint(directUnlocks), directUnlocks)
	// gossip/manager.go: the peer table is keyed by ONE expression everywhere (lookup, insert, delete)
	var peerKeys []string
	for _, d := range gman.Decls {
		fd, ok := d.(*ast.FuncDecl)
		if !ok || fd.Body == nil {
			continue
		}
		ast.Inspect(fd.Body, func(n ast.Node) bool {
			switch x := n.(type) {
			case *ast.IndexExpr:
				if exprString(x.X) == "m.peers" {
					peerKeys = append(peerKeys, fd.Name.Name+":index:"+c07Src(x.Index))
				}
			case *ast.CallExpr:
				if exprString(x.Fun) == "delete" && len(x.Args) == 2 && exprString(x.Args[0]) == "m.peers" {
					peerKeys = append(peerKeys, fd.Name.Name+":delete:"+c07Src(x.Args[1]))
				}
			}
			return true
		})
	}
	l.def("gossipPeerTableKeys", "List String", leanStrList(peerKeys), peerKeys)
	l.def("dispatch", "List String", leanStrList(dispatch), dispatch)
	_, protoF := parseFile("network/transport/v2/protocol.go")
	listFn := "MISSING"
	if fd := funcDecl(protoF, "Start"); fd != nil {
		for _, c := range c07Calls(fd, "newTransactionListHandler") {
			if len(c.Args) == 2 {
				listFn = exprString(c.Args[1])
			}
		}
	}
	l.def("listHandlerFunc", "String", fmt.Sprintf("%q", listFn), listFn)
	// protocol.Configure: the gossip notifier and sender wiring
	var wiring []string
	if fd := funcDecl(protoF, "Configure"); fd != nil {
		for _, c := range c07Calls(fd, "p.gManager.RegisterSender") {
			wiring = append(wiring, "RegisterSender:"+exprString(c.Args[0]))
		}
		for _, c := range c07Calls(fd, "p.state.Notifier") {
			if len(c.Args) >= 2 {
				wiring = append(wiring, "Notifier:"+exprString(c.Args[0])+":"+exprString(c.Args[1]))
			}
		}
	}
	l.def("configureWiring", "List String", leanStrList(wiring), wiring)
	c07Iblt(l)
	c07Disp(l)
	c07Addr(l)
	c07Conv(l)
	return l
}

// c07Src prints an expression as source text (exprString elides call arguments)
func c07Src(e ast.Node) string {
	var b bytes.Buffer
	_ = printer.Fprint(&b, token.NewFileSet(), e)
	return strings.Join(strings.Fields(b.String()), " ")
}

// c07Render renders call arguments too (exprString elides them)
func c07Render(e ast.Expr) string {
	var sb strings.Builder
	ast.Inspect(e, func(n ast.Node) bool {
		if id, ok := n.(*ast.Ident); ok {
			sb.WriteString(id.Name + " ")
		}
		return true
	})
	return sb.String()
}
