package main

// C17 deepening round: structured facts for crypto.SignatureAlgorithm / ecAlgUsingPublicKey (the algorithm DERIVED from a key) and
// for the framing test of the DAG transaction parser (separator, segment count, JSON lead byte, codec of decode and re-encode).

import (
	"fmt"
	"go/ast"
	"go/token"
	"strconv"
	"strings"
)

func c17Pairs(p [][2]string) string {
	var q []string
	for _, x := range p {
		q = append(q, fmt.Sprintf("(%q, %q)", x[0], x[1]))
	}
	return "[" + strings.Join(q, ", ") + "]"
}

// what a case body yields: `return jwa.X, nil` / `alg = jwa.X` -> X's JWA name; `return f(...)` -> "call:f"; else the source text
func c17CaseYield(body []ast.Stmt) string {
	if len(body) != 1 {
		return "?stmts"
	}
	var e ast.Expr
	switch s := body[0].(type) {
	case *ast.ReturnStmt:
		if len(s.Results) == 0 {
			return "?bare-return"
		}
		e = s.Results[0]
	case *ast.AssignStmt:
		if len(s.Rhs) != 1 {
			return "?assign"
		}
		if exprString(s.Lhs[0]) == "err" {
			return "error"
		}
		e = s.Rhs[0]
	default:
		return "?" + c17Src(body[0])
	}
	switch x := e.(type) {
	case *ast.SelectorExpr:
		if exprString(x.X) == "jwa" {
			if v, ok := c17Jwa[x.Sel.Name]; ok {
				return v
			}
		}
	case *ast.CallExpr:
		return "call:" + exprString(x.Fun)
	case *ast.BasicLit:
		if x.Kind == token.STRING && x.Value == `""` {
			return "error"
		}
	}
	return "?" + c17Src(e)
}

func extractC17b(l *lean) {
	_, jwxF := parseFile("crypto/jwx.go")
	// ---- ecAlgUsingPublicKey: switch key.Params().BitSize { case N: alg = jwa.X … default: err = … }
	var bits []string
	var bitsRaw [][2]string
	tag := "MISSING"
	if fd := funcDecl(jwxF, "ecAlgUsingPublicKey"); fd != nil {
		ast.Inspect(fd, func(n ast.Node) bool {
			sw, ok := n.(*ast.SwitchStmt)
			if !ok {
				return true
			}
			tag = c17Src(sw.Tag)
			for _, c := range sw.Body.List {
				cc := c.(*ast.CaseClause)
				y := c17CaseYield(cc.Body)
				if cc.List == nil {
					if y != "error" {
						bits = append(bits, "unknown_default_"+y)
					}
					continue
				}
				for _, e := range cc.List {
					lit, ok := e.(*ast.BasicLit)
					if !ok || lit.Kind != token.INT || strings.HasPrefix(y, "?") {
						bits = append(bits, "unknown_case")
						continue
					}
					nv, _ := strconv.Atoi(lit.Value)
					bits = append(bits, fmt.Sprintf("(%d, %q)", nv, y))
					bitsRaw = append(bitsRaw, [2]string{lit.Value, y})
				}
			}
			return false
		})
	}
	l.def("ecAlgSwitchTag", "String", fmt.Sprintf("%q", tag), tag)
	l.def("ecAlgBitsTable", "List (Nat × String)", "["+strings.Join(bits, ", ")+"]", bitsRaw)

	// ---- SignatureAlgorithm: nil test, the value -> pointer switch, the type switch on the result
	var deref []string
	var cases [][2]string
	nilExit := false
	if fd := funcDecl(jwxF, "SignatureAlgorithm"); fd != nil {
		for _, st := range fd.Body.List {
			if is, ok := st.(*ast.IfStmt); ok && c17Src(is.Cond) == "key == nil" && c17ReturnsError(is.Body) {
				nilExit = true
			}
			ts, ok := st.(*ast.TypeSwitchStmt)
			if !ok {
				continue
			}
			subject := c17Src(ts.Assign)
			for _, c := range ts.Body.List {
				cc := c.(*ast.CaseClause)
				if strings.Contains(subject, "key.(type)") {
					for _, e := range cc.List {
						deref = append(deref, exprString(e))
					}
					continue
				}
				y := c17CaseYield(cc.Body)
				if cc.List == nil {
					cases = append(cases, [2]string{"default", y})
				}
				for _, e := range cc.List {
					cases = append(cases, [2]string{exprString(e), y})
				}
			}
		}
	}
	l.def("sigAlgNilIsError", "Bool", c17Bool(nilExit), nilExit)
	l.def("sigAlgDerefTypes", "List String", leanStrList(deref), deref)
	l.def("sigAlgCases", "List (String × String)", c17Pairs(cases), cases)
	// the one algorithm of all rsa / ed25519 cases (a disagreement does not elaborate)
	one := func(prefix string) string {
		got := ""
		for _, c := range cases {
			if strings.Contains(c[0], prefix) {
				if got != "" && got != c[1] {
					return "unknown_disagreeing_" + prefix
				}
				got = c[1]
			}
		}
		if got == "" || strings.HasPrefix(got, "?") || strings.HasPrefix(got, "call:") {
			return "unknown_no_case_" + strings.TrimSuffix(prefix, ".")
		}
		return fmt.Sprintf("%q", got)
	}
	l.def("sigAlgRsa", "String", one("rsa."), one("rsa."))
	l.def("sigAlgEd", "String", one("ed25519."), one("ed25519."))

	// ---- isJWSSerialization: the constants of the framing test
	_, parserF := parseFile("network/dag/parser.go")
	lead, sep, nseg, dec, enc, trim := "unknown_lead", "unknown_sep", "unknown_nseg", "?", "?", "?"
	if fd := funcDecl(parserF, "isJWSSerialization"); fd != nil {
		ast.Inspect(fd, func(n ast.Node) bool {
			switch x := n.(type) {
			case *ast.BinaryExpr:
				s := c17Src(x)
				if x.Op == token.EQL && strings.HasPrefix(s, "trimmed[0] == ") {
					if lit, ok := x.Y.(*ast.BasicLit); ok && lit.Kind == token.CHAR {
						if r, _, _, err := strconv.UnquoteChar(strings.Trim(lit.Value, "'"), '\''); err == nil {
							lead = strconv.Itoa(int(r))
						}
					}
				}
				if x.Op == token.NEQ && strings.HasPrefix(s, "len(segments) != ") {
					if lit, ok := x.Y.(*ast.BasicLit); ok && lit.Kind == token.INT {
						nseg = lit.Value
					}
				}
			case *ast.CallExpr:
				f := exprString(x.Fun)
				switch {
				case f == "bytes.Split" && len(x.Args) == 2:
					if cl, ok := x.Args[1].(*ast.CompositeLit); ok && len(cl.Elts) == 1 {
						if lit, ok := cl.Elts[0].(*ast.BasicLit); ok && lit.Kind == token.CHAR {
							if r, _, _, err := strconv.UnquoteChar(strings.Trim(lit.Value, "'"), '\''); err == nil {
								sep = strconv.Itoa(int(r))
							}
						}
					}
				case strings.HasSuffix(f, ".DecodeString"):
					dec = strings.TrimSuffix(f, ".DecodeString")
				case strings.HasSuffix(f, ".EncodeToString"):
					enc = strings.TrimSuffix(f, ".EncodeToString")
				case f == "bytes.TrimLeftFunc" && len(x.Args) == 2:
					trim = exprString(x.Args[1])
				}
			}
			return true
		})
	}
	l.def("dagFramingJsonLead", "Nat", lead, lead)
	l.def("dagFramingSep", "Nat", sep, sep)
	l.def("dagFramingSegments", "Nat", nseg, nseg)
	l.def("dagFramingDecodeCodec", "String", fmt.Sprintf("%q", dec), dec)
	l.def("dagFramingEncodeCodec", "String", fmt.Sprintf("%q", enc), enc)
	l.def("dagFramingTrimPredicate", "String", fmt.Sprintf("%q", trim), trim)

	// ---- vcr/verifier: the case-folding guard of JSON-LD documents (ambiguousMember / foldRune / caseVariantMember)
	_, svF := parseFile("vcr/verifier/signature_verifier.go")
	foldExpr, foldBody, ambBody, cvBody := "MISSING", "MISSING", "MISSING", "MISSING"
	if fd := funcDecl(svF, "ambiguousMember"); fd != nil {
		ambBody = c17Src(fd.Body)
		ast.Inspect(fd, func(n ast.Node) bool {
			if as, ok := n.(*ast.AssignStmt); ok && len(as.Lhs) == 1 && len(as.Rhs) == 1 && exprString(as.Lhs[0]) == "folded" {
				foldExpr = c17Src(as.Rhs[0])
			}
			return true
		})
	}
	if fd := funcDecl(svF, "foldRune"); fd != nil {
		foldBody = c17Src(fd.Body)
	}
	if fd := funcDecl(svF, "caseVariantMember"); fd != nil {
		cvBody = c17Src(fd.Body)
	}
	l.def("ambiguousMemberFoldExpr", "String", fmt.Sprintf("%q", foldExpr), foldExpr)
	l.def("foldRuneBody", "String", fmt.Sprintf("%q", foldBody), foldBody)
	l.def("ambiguousMemberBody", "String", fmt.Sprintf("%q", ambBody), ambBody)
	l.def("caseVariantMemberBody", "String", fmt.Sprintf("%q", cvBody), cvBody)

	// ---- vcr/verifier: which kid the resolver is asked for (resolveSigningKey), and the kid <-> issuer tests
	rsk, kidTest := "MISSING", "MISSING"
	if fd := funcDecl(svF, "resolveSigningKey"); fd != nil {
		rsk = c17Src(fd.Body)
	}
	if fd := funcDecl(svF, "jwtSignature"); fd != nil {
		for _, c := range c17ErrConds(fd) {
			if strings.Contains(c, "keyID") {
				kidTest = c
			}
		}
	}
	l.def("resolveSigningKeyBody", "String", fmt.Sprintf("%q", rsk), rsk)
	l.def("vcJwtKidIssuerTest", "String", fmt.Sprintf("%q", kidTest), kidTest)

	xph := "MISSING"
	if fd := funcDecl(jwxF, "ExtractProtectedHeaders"); fd != nil {
		xph = c17Src(fd.Body)
	}
	l.def("extractProtectedHeadersBody", "String", fmt.Sprintf("%q", xph), xph)
}
