package main

import (
	"bytes"
	"go/ast"
	"go/printer"
	"go/token"
	"strconv"
	"strings"
)

func init() { extractors["C09"] = extractC09 }

// methodDecl finds `func (recv T) name(...)` (or a plain func) in a file; recvType "" matches any receiver.
func c09Method(f *ast.File, recvType, name string) *ast.FuncDecl {
	for _, d := range f.Decls {
		fd, ok := d.(*ast.FuncDecl)
		if !ok || fd.Name.Name != name {
			continue
		}
		if recvType == "" {
			return fd
		}
		if fd.Recv != nil && len(fd.Recv.List) == 1 {
			t := fd.Recv.List[0].Type
			if s, ok := t.(*ast.StarExpr); ok {
				t = s.X
			}
			if id, ok := t.(*ast.Ident); ok && id.Name == recvType {
				return fd
			}
		}
	}
	return nil
}

// errors.Is(err, X) second arguments inside an expression, in source order
func c09ErrorsIsArgs(e ast.Node) []string {
	var out []string
	ast.Inspect(e, func(n ast.Node) bool {
		if c, ok := n.(*ast.CallExpr); ok && exprString(c.Fun) == "errors.Is" && len(c.Args) == 2 {
			s := exprString(c.Args[1])
			if i := strings.LastIndex(s, "."); i >= 0 {
				s = s[i+1:]
			}
			out = append(out, s)
		}
		return true
	})
	return out
}

// c09Src prints an expression exactly as go/printer renders it (arguments included)
func c09Src(n ast.Node) string {
	var b bytes.Buffer
	if err := printer.Fprint(&b, token.NewFileSet(), n); err != nil {
		return "<unprintable>"
	}
	return strings.Join(strings.Fields(b.String()), " ")
}

func extractC09() *lean {
	l := newLean("C09", "NutsModel.C09.Ambassador")
	l.sb.WriteString("open Nuts.C09\n")

	// ---- resolver.go
	_, res := parseFile("vdr/didnuts/resolver.go")
	depth := "unknown_maxControllerDepth"
	var depthRaw interface{}
	for _, d := range res.Decls {
		gd, ok := d.(*ast.GenDecl)
		if !ok || gd.Tok != token.CONST {
			continue
		}
		for _, sp := range gd.Specs {
			vs := sp.(*ast.ValueSpec)
			for i, n := range vs.Names {
				if n.Name == "maxControllerDepth" && i < len(vs.Values) {
					if bl, ok := vs.Values[i].(*ast.BasicLit); ok && bl.Kind == token.INT {
						depth = bl.Value
						v, _ := strconv.Atoi(bl.Value)
						depthRaw = v
					}
				}
			}
		}
	}
	l.def("maxControllerDepth", "Nat", depth, depthRaw)

	// resolveControllers: which errors make the loop `continue`, which abort
	var skipped []string
	filterDeactivated := false
	if fd := funcDecl(res, "resolveControllers"); fd != nil {
		ast.Inspect(fd, func(n ast.Node) bool {
			if is, ok := n.(*ast.IfStmt); ok && len(is.Body.List) == 1 {
				if br, ok := is.Body.List[0].(*ast.BranchStmt); ok && br.Tok == token.CONTINUE {
					skipped = append(skipped, c09ErrorsIsArgs(is.Cond)...)
				}
			}
			if c, ok := n.(*ast.CallExpr); ok && strings.HasSuffix(exprString(c.Fun), "IsDeactivated") {
				filterDeactivated = true
			}
			return true
		})
	}
	l.def("controllerSkippedErrors", "List String", leanStrList(skipped), skipped)
	l.def("controllerLeavesFilteredByIsDeactivated", "Bool", map[bool]string{true: "true", false: "false"}[filterDeactivated], filterDeactivated)

	// resolve(): depth test and the condition under which controllers are checked
	depthTest, ctrlCond := "", ""
	if fd := funcDecl(res, "resolve"); fd != nil {
		for _, st := range fd.Body.List {
			if is, ok := st.(*ast.IfStmt); ok {
				c := c09Src(is.Cond)
				if strings.Contains(c, "maxControllerDepth") {
					depthTest = c
				}
				if strings.Contains(c, "doc.Controller") {
					ctrlCond = c
				}
			}
		}
	}
	l.def("resolveDepthTest", "String", strconv.Quote(depthTest), depthTest)
	l.def("resolveControllerCheckCondition", "String", strconv.Quote(ctrlCond), ctrlCond)

	// ---- validators.go
	_, val := parseFile("vdr/didnuts/validators.go")
	ctor := map[string]string{"nilEntryValidator": ".nilEntry", "did.W3CSpecValidator": ".w3c", "verificationMethodValidator": ".nutsVM", "basicServiceValidator": ".nutsService"}
	var vals, valsRaw []string
	if fd := funcDecl(val, "NetworkDocumentValidator"); fd != nil {
		ast.Inspect(fd, func(n ast.Node) bool {
			cl, ok := n.(*ast.CompositeLit)
			if !ok {
				return true
			}
			if at, ok := cl.Type.(*ast.ArrayType); ok && exprString(at.Elt) == "did.Validator" {
				for _, e := range cl.Elts {
					name := "?"
					if c, ok := e.(*ast.CompositeLit); ok {
						name = exprString(c.Type)
					} else {
						name = exprString(e)
					}
					valsRaw = append(valsRaw, name)
					if c, ok := ctor[name]; ok {
						vals = append(vals, c)
					} else {
						vals = append(vals, ".unknown_"+strings.NewReplacer(".", "_", "(", "", ")", "").Replace(name))
					}
				}
				return false
			}
			return true
		})
	}
	l.def("networkValidators", "List Validator", "["+strings.Join(vals, ", ")+"]", valsRaw)

	// verifyDocumentEntryID: the error strings in source order
	var entryErrs []string
	if fd := funcDecl(val, "verifyDocumentEntryID"); fd != nil {
		ast.Inspect(fd, func(n ast.Node) bool {
			if c, ok := n.(*ast.CallExpr); ok && exprString(c.Fun) == "errors.New" && len(c.Args) == 1 {
				if bl, ok := c.Args[0].(*ast.BasicLit); ok {
					s, _ := strconv.Unquote(bl.Value)
					entryErrs = append(entryErrs, s)
				}
			}
			return true
		})
	}
	l.def("entryIdChecks", "List String", leanStrList(entryErrs), entryErrs)

	// what the two Nuts validators range over, and which helper checks they call
	rangesOf := func(recv string) ([]string, []string) {
		var rs, calls []string
		if fd := c09Method(val, recv, "Validate"); fd != nil {
			ast.Inspect(fd, func(n ast.Node) bool {
				switch x := n.(type) {
				case *ast.RangeStmt:
					rs = append(rs, exprString(x.X))
				case *ast.CallExpr:
					s := exprString(x.Fun)
					if s == "verifyDocumentEntryID" || strings.HasSuffix(s, "verifyThumbprint") {
						calls = append(calls, s)
					}
				}
				return true
			})
		}
		return rs, calls
	}
	vmR, vmC := rangesOf("verificationMethodValidator")
	svR, svC := rangesOf("basicServiceValidator")
	l.def("vmValidatorRanges", "List String", leanStrList(vmR), vmR)
	l.def("vmValidatorChecks", "List String", leanStrList(vmC), vmC)
	l.def("serviceValidatorRanges", "List String", leanStrList(svR), svR)
	l.def("serviceValidatorChecks", "List String", leanStrList(svC), svC)
	dupType := false
	if fd := c09Method(val, "basicServiceValidator", "Validate"); fd != nil {
		ast.Inspect(fd, func(n ast.Node) bool {
			if is, ok := n.(*ast.IfStmt); ok && exprString(is.Cond) == "knownServiceTypes[service.Type]" {
				dupType = true
			}
			return true
		})
	}
	l.def("serviceTypeUniquenessChecked", "Bool", map[bool]string{true: "true", false: "false"}[dupType], dupType)

	// ---- ambassador.go
	_, amb := parseFile("vdr/didnuts/ambassador.go")
	isUpd := ""
	if fd := c09Method(amb, "ambassador", "isUpdate"); fd != nil && len(fd.Body.List) == 1 {
		if r, ok := fd.Body.List[0].(*ast.ReturnStmt); ok && len(r.Results) == 1 {
			isUpd = exprString(r.Results[0])
		}
	}
	l.def("isUpdateCriterion", "String", strconv.Quote(isUpd), isUpd)

	// order of the steps of callback (calls of interest in source order)
	var steps []string
	if fd := c09Method(amb, "ambassador", "callback"); fd != nil {
		ast.Inspect(fd, func(n ast.Node) bool {
			if c, ok := n.(*ast.CallExpr); ok {
				s := exprString(c.Fun)
				for _, want := range []string{"checkTransactionIntegrity", "resolver.RejectNullKeyEntries", "json.Unmarshal", "NetworkDocumentValidator().Validate", "n.isUpdate", "n.handleUpdateDIDDocument", "n.handleCreateDIDDocument"} {
					if s == want {
						steps = append(steps, want)
					}
				}
			}
			return true
		})
	}
	l.def("callbackSteps", "List String", leanStrList(steps), steps)

	// every use of the DID store in ambassador.go, per function, in source order
	var storeCalls []string
	for _, d := range amb.Decls {
		fd, ok := d.(*ast.FuncDecl)
		if !ok || fd.Body == nil {
			continue
		}
		ast.Inspect(fd, func(n ast.Node) bool {
			if c, ok := n.(*ast.CallExpr); ok {
				if s := exprString(c.Fun); strings.HasPrefix(s, "n.didStore.") {
					storeCalls = append(storeCalls, fd.Name.Name+":"+strings.TrimPrefix(s, "n.didStore."))
				}
			}
			return true
		})
	}
	l.def("ambassadorStoreCalls", "List String", leanStrList(storeCalls), storeCalls)

	// handleUpdate: the order of the authorisation steps, and the fallback to the latest version
	var updSteps []string
	fallbackLatest := false
	if fd := c09Method(amb, "ambassador", "handleUpdateDIDDocument"); fd != nil {
		ast.Inspect(fd, func(n ast.Node) bool {
			switch x := n.(type) {
			case *ast.CallExpr:
				s := exprString(x.Fun)
				for _, want := range []string{"n.didStore.Resolve", "n.resolveControllers", "n.keyResolver.ResolvePublicKey", "n.findKeyByThumbprint", "n.didStore.Add"} {
					if s == want {
						updSteps = append(updSteps, strings.TrimPrefix(want, "n."))
					}
				}
			case *ast.IfStmt:
				if exprString(x.Cond) == "currentDIDDocument == nil" {
					fallbackLatest = true
				}
			}
			return true
		})
	}
	l.def("updateSteps", "List String", leanStrList(updSteps), updSteps)
	// where the succeeded version comes from (every assignment to currentDIDDocument), how the fallback treats errors,
	// and which relationship of the controllers the authorising keys are collected from
	var curSources, collected []string
	fallbackErr := ""
	if fd := c09Method(amb, "ambassador", "handleUpdateDIDDocument"); fd != nil {
		ast.Inspect(fd, func(n ast.Node) bool {
			switch x := n.(type) {
			case *ast.AssignStmt:
				for _, lh := range x.Lhs {
					if exprString(lh) == "currentDIDDocument" && len(x.Rhs) == 1 {
						if c, ok := x.Rhs[0].(*ast.CallExpr); ok {
							curSources = append(curSources, exprString(c.Fun))
						} else {
							curSources = append(curSources, c09Src(x.Rhs[0]))
						}
					}
				}
			case *ast.IfStmt:
				if exprString(x.Cond) == "currentDIDDocument == nil" {
					for _, st := range x.Body.List {
						if is, ok := st.(*ast.IfStmt); ok {
							fallbackErr = c09Src(is.Cond)
						}
					}
				}
			case *ast.SelectorExpr:
				if exprString(x.X) == "didCtrl" {
					collected = append(collected, x.Sel.Name)
				}
			}
			return true
		})
	}
	l.def("succeededVersionSources", "List String", leanStrList(curSources), curSources)
	l.def("updateFallbackErrorCondition", "String", strconv.Quote(fallbackErr), fallbackErr)
	l.def("controllerKeysCollectedFrom", "List String", leanStrList(collected), collected)
	l.def("updateFallsBackToLatest", "Bool", map[bool]string{true: "true", false: "false"}[fallbackLatest], fallbackLatest)

	// ambassador.resolveControllers: skipped errors in the per-prev loop and the by-time fallback
	var ambSkipped []string
	legacy := false
	if fd := c09Method(amb, "ambassador", "resolveControllers"); fd != nil {
		ast.Inspect(fd, func(n ast.Node) bool {
			if is, ok := n.(*ast.IfStmt); ok {
				if len(is.Body.List) == 1 {
					if br, ok := is.Body.List[0].(*ast.BranchStmt); ok && br.Tok == token.CONTINUE {
						ambSkipped = append(ambSkipped, c09ErrorsIsArgs(is.Cond)...)
					}
				}
				if c09Src(is.Cond) == "len(controllers) == 0" {
					ast.Inspect(is.Body, func(m ast.Node) bool {
						if kv, ok := m.(*ast.KeyValueExpr); ok && exprString(kv.Key) == "ResolveTime" {
							legacy = true
						}
						return true
					})
				}
			}
			return true
		})
	}
	l.def("ambassadorSkippedErrors", "List String", leanStrList(ambSkipped), ambSkipped)
	l.def("controllersFallBackToSigningTime", "Bool", map[bool]string{true: "true", false: "false"}[legacy], legacy)

	// handleCreate: the comparison that binds the DID to the embedded key
	createCmp := ""
	if fd := c09Method(amb, "ambassador", "handleCreateDIDDocument"); fd != nil {
		ast.Inspect(fd, func(n ast.Node) bool {
			if is, ok := n.(*ast.IfStmt); ok && strings.Contains(exprString(is.Cond), "signingKeyThumbprint") {
				createCmp = exprString(is.Cond)
			}
			return true
		})
	}
	l.def("createBinding", "String", strconv.Quote(createCmp), createCmp)

	// nil-JWK guards: `VerificationMethod.JWK()` returns (nil, nil) without publicKeyJwk; does the caller test for nil?
	nilGuard := func(fd *ast.FuncDecl) bool {
		found := false
		if fd != nil {
			ast.Inspect(fd, func(n ast.Node) bool {
				if be, ok := n.(*ast.BinaryExpr); ok && be.Op == token.EQL {
					l, r := exprString(be.X), exprString(be.Y)
					if (l == "keyAsJWK" && r == "nil") || (r == "keyAsJWK" && l == "nil") {
						found = true
					}
				}
				return true
			})
		}
		return found
	}
	g1 := nilGuard(c09Method(val, "verificationMethodValidator", "verifyThumbprint"))
	g2 := nilGuard(c09Method(amb, "ambassador", "findKeyByThumbprint"))
	l.def("verifyThumbprintGuardsNilJwk", "Bool", map[bool]string{true: "true", false: "false"}[g1], g1)
	l.def("findKeyGuardsNilJwk", "Bool", map[bool]string{true: "true", false: "false"}[g2], g2)

	// verifyThumbprint: is the thumbprint calculated from the key (keyAsJWK.Thumbprint) rather than read back through
	// jwk.AssignKeyID + KeyID(), which trusts a "kid" member inside the publicKeyJwk?
	fromKey, viaAssign := false, false
	if fd := c09Method(val, "verificationMethodValidator", "verifyThumbprint"); fd != nil {
		ast.Inspect(fd, func(n ast.Node) bool {
			if c, ok := n.(*ast.CallExpr); ok {
				switch exprString(c.Fun) {
				case "keyAsJWK.Thumbprint":
					fromKey = true
				case "jwk.AssignKeyID", "keyAsJWK.KeyID":
					viaAssign = true
				}
			}
			return true
		})
	}
	okThumb := fromKey && !viaAssign
	l.def("thumbprintCalculatedFromKeyMaterial", "Bool", map[bool]string{true: "true", false: "false"}[okThumb], okThumb)

	// ---- wiring and call sites
	// Network.Configure: what the DAG signature verifier's key resolver is built from
	_, netw := parseFile("network/network.go")
	verifierWiring := ""
	ast.Inspect(netw, func(n ast.Node) bool {
		if as, ok := n.(*ast.AssignStmt); ok && len(as.Lhs) == 1 && len(as.Rhs) == 1 {
			if strings.Contains(c09Src(as.Rhs[0]), "SourceTXKeyResolver") {
				verifierWiring = c09Src(as.Lhs[0]) + " := " + c09Src(as.Rhs[0])
			}
		}
		if c, ok := n.(*ast.CallExpr); ok && exprString(c.Fun) == "dag.NewTransactionSignatureVerifier" && len(c.Args) == 1 {
			verifierWiring += " ; NewTransactionSignatureVerifier(" + c09Src(c.Args[0]) + ")"
		}
		return true
	})
	l.def("verifierWiring", "String", strconv.Quote(verifierWiring), verifierWiring)

	// NewAmbassador: the resolvers the ambassador is given
	var ambWiring []string
	if fd := funcDecl(amb, "NewAmbassador"); fd != nil {
		ast.Inspect(fd, func(n ast.Node) bool {
			switch x := n.(type) {
			case *ast.AssignStmt:
				if len(x.Lhs) == 1 && len(x.Rhs) == 1 {
					ambWiring = append(ambWiring, c09Src(x.Lhs[0])+" := "+c09Src(x.Rhs[0]))
				}
			case *ast.KeyValueExpr:
				k := exprString(x.Key)
				if k == "keyResolver" || k == "didResolver" || k == "didStore" {
					ambWiring = append(ambWiring, k+": "+c09Src(x.Value))
				}
			}
			return true
		})
	}
	l.def("ambassadorWiring", "List String", leanStrList(ambWiring), ambWiring)

	// who calls callback / the two handlers, and every Add on a DID store in the package (non-test files)
	var callers, adds []string
	for _, file := range []string{"ambassador.go", "manager.go", "resolver.go", "validators.go"} {
		_, f := parseFile("vdr/didnuts/" + file)
		for _, d := range f.Decls {
			fd, ok := d.(*ast.FuncDecl)
			if !ok || fd.Body == nil {
				continue
			}
			ast.Inspect(fd, func(n ast.Node) bool {
				if c, ok := n.(*ast.CallExpr); ok {
					fn := exprString(c.Fun)
					switch {
					case strings.HasSuffix(fn, ".callback"), strings.HasSuffix(fn, ".handleCreateDIDDocument"), strings.HasSuffix(fn, ".handleUpdateDIDDocument"):
						callers = append(callers, fd.Name.Name+"->"+fn[strings.LastIndex(fn, ".")+1:])
					case strings.HasSuffix(fn, "tore.Add"):
						adds = append(adds, file+":"+fd.Name.Name+":"+fn)
					}
				}
				return true
			})
		}
	}
	l.def("handlerCallers", "List String", leanStrList(callers), callers)
	l.def("didStoreAddSites", "List String", leanStrList(adds), adds)

	// the subscription filter in Start()
	filter := ""
	if fd := c09Method(amb, "ambassador", "Start"); fd != nil {
		ast.Inspect(fd, func(n ast.Node) bool {
			if fl, ok := n.(*ast.FuncLit); ok && len(fl.Body.List) == 1 {
				if r, ok := fl.Body.List[0].(*ast.ReturnStmt); ok && len(r.Results) == 1 && strings.Contains(c09Src(r.Results[0]), "PayloadType") {
					filter = c09Src(r.Results[0])
				}
			}
			return true
		})
	}
	l.def("subscriptionFilter", "String", strconv.Quote(filter), filter)

	// comparison / helper expressions
	findCmp := ""
	if fd := c09Method(amb, "ambassador", "findKeyByThumbprint"); fd != nil {
		ast.Inspect(fd, func(n ast.Node) bool {
			if is, ok := n.(*ast.IfStmt); ok && strings.Contains(c09Src(is.Cond), "documentThumbprint") {
				findCmp = c09Src(is.Cond)
				for _, st := range is.Body.List {
					if br, ok := st.(*ast.BranchStmt); ok {
						findCmp += " => " + br.Tok.String()
					}
				}
			}
			return true
		})
	}
	l.def("findKeyComparison", "String", strconv.Quote(findCmp), findCmp)
	pfxCmp := ""
	if fd := funcDecl(val, "verifyDocumentEntryID"); fd != nil {
		ast.Inspect(fd, func(n ast.Node) bool {
			if is, ok := n.(*ast.IfStmt); ok && strings.Contains(c09Src(is.Cond), "owner") {
				pfxCmp = c09Src(is.Cond)
			}
			return true
		})
	}
	l.def("entryIdPrefixComparison", "String", strconv.Quote(pfxCmp), pfxCmp)
	alg := ""
	for _, d := range amb.Decls {
		if gd, ok := d.(*ast.GenDecl); ok && gd.Tok == token.VAR {
			for _, sp := range gd.Specs {
				vs := sp.(*ast.ValueSpec)
				for i, n := range vs.Names {
					if n.Name == "thumbprintAlg" && i < len(vs.Values) {
						alg = c09Src(vs.Values[i])
					}
				}
			}
		}
	}
	l.def("thumbprintAlg", "String", strconv.Quote(alg), alg)
	_, rdid := parseFile("vdr/resolver/did.go")
	isDeact := ""
	if fd := funcDecl(rdid, "IsDeactivated"); fd != nil && len(fd.Body.List) == 1 {
		if r, ok := fd.Body.List[0].(*ast.ReturnStmt); ok && len(r.Results) == 1 {
			isDeact = c09Src(r.Results[0])
		}
	}
	l.def("isDeactivatedBody", "String", strconv.Quote(isDeact), isDeact)
	_, jwx := parseFile("crypto/jwx.go")
	var nutsThumb []string
	if fd := funcDecl(jwx, "Thumbprint"); fd != nil {
		ast.Inspect(fd, func(n ast.Node) bool {
			if c, ok := n.(*ast.CallExpr); ok {
				fn := exprString(c.Fun)
				if fn == "key.Thumbprint" || strings.HasPrefix(fn, "base58.") {
					nutsThumb = append(nutsThumb, c09Src(c))
				}
			}
			return true
		})
	}
	l.def("nutsThumbprintSteps", "List String", leanStrList(nutsThumb), nutsThumb)
	// ManagedDocumentValidator (the node's own publishing path) starts with the network validator
	var managed []string
	if fd := funcDecl(val, "ManagedDocumentValidator"); fd != nil {
		ast.Inspect(fd, func(n ast.Node) bool {
			if cl, ok := n.(*ast.CompositeLit); ok {
				if at, ok := cl.Type.(*ast.ArrayType); ok && exprString(at.Elt) == "did.Validator" {
					for _, e := range cl.Elts {
						managed = append(managed, c09Src(e))
					}
					return false
				}
			}
			return true
		})
	}
	l.def("managedValidators", "List String", leanStrList(managed), managed)

	// the owner argument handed to verifyDocumentEntryID by the two Nuts validators
	ownerArgs := func(recv string) []string {
		var out []string
		if fd := c09Method(val, recv, "Validate"); fd != nil {
			ast.Inspect(fd, func(n ast.Node) bool {
				if c, ok := n.(*ast.CallExpr); ok && exprString(c.Fun) == "verifyDocumentEntryID" && len(c.Args) == 3 {
					out = append(out, c09Src(c.Args[0])+" | "+c09Src(c.Args[1]))
				}
				return true
			})
		}
		return out
	}
	vmOwner, svcOwner := ownerArgs("verificationMethodValidator"), ownerArgs("basicServiceValidator")
	l.def("vmEntryIdArguments", "List String", leanStrList(vmOwner), vmOwner)
	l.def("serviceEntryIdArguments", "List String", leanStrList(svcOwner), svcOwner)

	// verifyThumbprint must not depend on the (attacker chosen) type text, and has exactly one `return nil` (the last statement)
	typeDep, nilReturns, lastIsNil := false, 0, false
	if fd := c09Method(val, "verificationMethodValidator", "verifyThumbprint"); fd != nil {
		ast.Inspect(fd, func(n ast.Node) bool {
			switch x := n.(type) {
			case *ast.SelectorExpr:
				if x.Sel.Name == "Type" {
					typeDep = true
				}
			case *ast.ReturnStmt:
				if len(x.Results) == 1 && exprString(x.Results[0]) == "nil" {
					nilReturns++
				}
			}
			return true
		})
		if k := len(fd.Body.List); k > 0 {
			if r, ok := fd.Body.List[k-1].(*ast.ReturnStmt); ok && len(r.Results) == 1 && exprString(r.Results[0]) == "nil" {
				lastIsNil = true
			}
		}
	}
	l.def("verifyThumbprintLooksAtType", "Bool", map[bool]string{true: "true", false: "false"}[typeDep], typeDep)
	onlyFinal := nilReturns == 1 && lastIsNil
	l.def("verifyThumbprintSucceedsOnlyAtTheEnd", "Bool", map[bool]string{true: "true", false: "false"}[onlyFinal], onlyFinal)

	// dag/verifier.go: the signature verifier has no success exit before jws.Verify: the function literal's last
	// statement returns the error of jws.Verify and no other return statement returns nil
	_, ver := parseFile("network/dag/verifier.go")
	verNil, verLast := 0, ""
	if fd := funcDecl(ver, "NewTransactionSignatureVerifier"); fd != nil {
		ast.Inspect(fd, func(n ast.Node) bool {
			fl, ok := n.(*ast.FuncLit)
			if !ok {
				return true
			}
			ast.Inspect(fl.Body, func(m ast.Node) bool {
				if r, ok := m.(*ast.ReturnStmt); ok && len(r.Results) == 1 && exprString(r.Results[0]) == "nil" {
					verNil++
				}
				return true
			})
			k := len(fl.Body.List)
			if k >= 2 {
				verLast = c09Src(fl.Body.List[k-2]) + " ; " + c09Src(fl.Body.List[k-1])
			}
			return false
		})
	}
	l.def("verifierNilReturns", "Nat", strconv.Itoa(verNil), verNil)
	endsOK := strings.HasPrefix(verLast, "_, err := jws.Verify(transaction.Data(), ") && strings.HasSuffix(verLast, " ; return err")
	l.def("verifierEndsWithJwsVerify", "Bool", map[bool]string{true: "true", false: "false"}[endsOK], verLast)

	// ---- dag/keys.go: the only error the key resolver moves on from
	_, keys := parseFile("network/dag/keys.go")
	keyCont := ""
	if fd := c09Method(keys, "SourceTXKeyResolver", "ResolvePublicKey"); fd != nil {
		ast.Inspect(fd, func(n ast.Node) bool {
			if is, ok := n.(*ast.IfStmt); ok && strings.Contains(exprString(is.Cond), "ErrNotFound") {
				keyCont = exprString(is.Cond)
			}
			return true
		})
	}
	l.def("keyResolverAbortCondition", "String", strconv.Quote(keyCont), keyCont)
	keyLookup := ""
	if fd := funcDecl(keys, "resolvePublicKey"); fd != nil {
		ast.Inspect(fd, func(n ast.Node) bool {
			if c, ok := n.(*ast.CallExpr); ok && strings.HasSuffix(exprString(c.Fun), "FindByID") {
				keyLookup = c09Src(c)
			}
			return true
		})
	}
	l.def("keyLookup", "String", strconv.Quote(keyLookup), keyLookup)
	c09EntryFacts(l, amb)
	c09ManagerFacts(l)
	c09CommitFacts(l, amb)
	c09MaintFacts(l)
	return l
}
