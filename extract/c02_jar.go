package main

// C02 deepening: facts about jar.go (request objects), params.go and the endpoint dispatchers of api.go.
// Dumb printing of what the source says; the expectations are fact_* theorems in Props/C02.lean.

import (
	"fmt"
	"go/ast"
	"go/token"
	"strconv"
	"strings"
)

// c02StringConsts: NAME = "literal" (or NAME = OTHERNAME, resolved one level) of a file
func c02StringConsts(f *ast.File) map[string]string {
	lit := map[string]string{}
	alias := map[string]string{}
	for _, d := range f.Decls {
		gd, ok := d.(*ast.GenDecl)
		if !ok || gd.Tok != token.CONST {
			continue
		}
		for _, s := range gd.Specs {
			vs, ok := s.(*ast.ValueSpec)
			if !ok {
				continue
			}
			for i, n := range vs.Names {
				if i >= len(vs.Values) {
					continue
				}
				switch v := vs.Values[i].(type) {
				case *ast.BasicLit:
					if v.Kind == token.STRING {
						if u, err := strconv.Unquote(v.Value); err == nil {
							lit[n.Name] = u
						}
					}
				case *ast.Ident:
					alias[n.Name] = v.Name
				}
			}
		}
	}
	for k, v := range alias {
		if u, ok := lit[v]; ok {
			lit[k] = u
		}
	}
	return lit
}

// c02Outcome summarises what a case body / statement list finally returns: the called function, or "error:<Code expr>"
func c02Outcome(body []ast.Stmt) string {
	res := "fallthrough"
	for _, st := range body {
		ast.Inspect(st, func(n ast.Node) bool {
			r, ok := n.(*ast.ReturnStmt)
			if !ok || len(r.Results) == 0 {
				return true
			}
			// the LAST return statement of the body decides
			if c, ok := r.Results[0].(*ast.CallExpr); ok {
				res = "call:" + callName(c)
				return true
			}
			last := r.Results[len(r.Results)-1]
			if cl, ok := last.(*ast.CompositeLit); ok {
				for _, e := range cl.Elts {
					if kv, ok := e.(*ast.KeyValueExpr); ok && exprString(kv.Key) == "Code" {
						res = "error:" + exprString(kv.Value)
					}
				}
				return true
			}
			res = "return:" + exprFull(last)
			return true
		})
	}
	return res
}

// c02Switches: every switch of fn as "tag" followed by "case <exprs> => <outcome>" in source order
func c02Switches(f *ast.File, fn string) []string {
	fd := funcDecl(f, fn)
	if fd == nil {
		return []string{"MISSING:" + fn}
	}
	var out []string
	ast.Inspect(fd, func(n ast.Node) bool {
		switch sw := n.(type) {
		case *ast.SwitchStmt:
			tag := "<none>"
			if sw.Tag != nil {
				tag = exprFull(sw.Tag)
			}
			out = append(out, "switch "+tag)
			for _, c := range sw.Body.List {
				cc := c.(*ast.CaseClause)
				var names []string
				for _, e := range cc.List {
					names = append(names, exprFull(e))
				}
				label := "default"
				if cc.List != nil {
					label = "case " + strings.Join(names, ", ")
				}
				out = append(out, label+" => "+c02Outcome(cc.Body))
			}
		case *ast.TypeSwitchStmt:
			out = append(out, "typeswitch")
			for _, c := range sw.Body.List {
				cc := c.(*ast.CaseClause)
				var names []string
				for _, e := range cc.List {
					if at, ok := e.(*ast.ArrayType); ok && at.Len == nil {
						names = append(names, "[]"+exprFull(at.Elt))
					} else {
						names = append(names, exprFull(e))
					}
				}
				label := "default"
				if cc.List != nil {
					label = "case " + strings.Join(names, ", ")
				}
				out = append(out, label+" => "+c02Outcome(cc.Body))
			}
		}
		return true
	})
	return out
}

func c02Conds(f *ast.File, fn string) []string {
	fd := funcDecl(f, fn)
	if fd == nil {
		return []string{"MISSING:" + fn}
	}
	var r []string
	ast.Inspect(fd, func(n ast.Node) bool {
		if i, ok := n.(*ast.IfStmt); ok {
			c := exprFull(i.Cond)
			if i.Init != nil {
				if as, ok := i.Init.(*ast.AssignStmt); ok && len(as.Rhs) == 1 {
					c = exprFull(as.Rhs[0]) + "; " + c
				}
			}
			r = append(r, c)
		}
		return true
	})
	return r
}

func c02JarFacts(l *lean) {
	_, jarF := parseFile("auth/api/iam/jar.go")
	_, api := parseFile("auth/api/iam/api.go")
	_, o4vp := parseFile("auth/api/iam/openid4vp.go")
	_, params := parseFile("auth/api/iam/params.go")
	_, types := parseFile("auth/oauth/types.go")
	_, errs := parseFile("auth/oauth/error.go")
	_, iamTypes := parseFile("auth/api/iam/types.go")

	consts := c02StringConsts(types)
	for k, v := range c02StringConsts(iamTypes) {
		consts[k] = v
	}
	strDef := func(leanName, goName string) {
		v, ok := consts[goName]
		if !ok {
			l.def(leanName, "String", ".unknown_const_"+goName, "MISSING")
			return
		}
		l.def(leanName, "String", fmt.Sprintf("%q", v), v)
	}
	strDef("grantAuthorizationCode", "AuthorizationCodeGrantType")
	strDef("grantPreAuthorizedCode", "PreAuthorizedCodeGrantType")
	strDef("grantVpToken", "VpTokenGrantType")
	strDef("responseTypeCode", "CodeResponseType")
	strDef("responseTypeVpToken", "VPTokenResponseType")
	strDef("responseModeDirectPost", "responseModeDirectPost")
	// parameter names the modelled code reads, as (Go constant, value)
	var names []string
	for _, n := range []string{"RequestParam", "RequestURIParam", "RequestURIMethodParam", "ClientIDParam", "ResponseTypeParam", "RedirectURIParam",
		"ScopeParam", "StateParam", "CodeChallengeParam", "CodeChallengeMethodParam", "ResponseModeParam", "ResponseURIParam"} {
		v, ok := consts[n]
		if !ok {
			v = "MISSING"
		}
		names = append(names, n+"="+v)
	}
	l.def("oauthParamNames", "List String", leanStrList(names), names)
	// error codes used by the new layer
	ec := c02StringConsts(errs)
	var codes []string
	for _, n := range []string{"InvalidRequest", "InvalidRequestURI", "InvalidRequestURIMethod", "InvalidRequestObject", "ServerError", "UnsupportedResponseType", "UnsupportedGrantType"} {
		v, ok := ec[n]
		if !ok {
			v = "MISSING"
		}
		codes = append(codes, n+"="+v)
	}
	l.def("oauthErrorCodes", "List String", leanStrList(codes), codes)

	for _, fc := range []struct {
		name string
		f    *ast.File
		fn   string
	}{
		{"condsJarParse", jarF, "Parse"},
		{"condsJarValidate", jarF, "validate"},
		{"condsCompareThumbprint", jarF, "compareThumbprint"},
		{"condsParamsGet", params, "get"},
		{"condsHandleAuthorizeRequest", api, "HandleAuthorizeRequest"},
		{"condsAuthorizeDispatch", api, "handleAuthorizeRequest"},
		{"condsFromVerifier", o4vp, "handleAuthorizeRequestFromVerifier"},
	} {
		c := c02Conds(fc.f, fc.fn)
		l.def(fc.name, "List String", leanStrList(c), c)
	}
	for _, fc := range []struct {
		name string
		f    *ast.File
		fn   string
	}{
		{"switchJarParse", jarF, "Parse"},
		{"switchParamsGet", params, "get"},
		{"switchAuthorizeDispatch", api, "handleAuthorizeRequest"},
		{"switchHandleTokenRequest", api, "HandleTokenRequest"},
	} {
		c := c02Switches(fc.f, fc.fn)
		l.def(fc.name, "List String", leanStrList(c), c)
	}
	l.chain("chainJarParse", jarF, "Parse")
	l.chain("chainJarValidate", jarF, "validate")
	l.chain("chainHandleAuthorizeRequest", api, "HandleAuthorizeRequest")
	l.chain("chainAuthorizeDispatch", api, "handleAuthorizeRequest")
	// the arguments jar.Parse hands to validate, and handleAuthorizeRequest hands to the holder leg
	args := func(f *ast.File, fn, callee string) []string {
		var r []string
		if fd := funcDecl(f, fn); fd != nil {
			ast.Inspect(fd, func(n ast.Node) bool {
				if c, ok := n.(*ast.CallExpr); ok && strings.HasSuffix(callName(c), callee) && r == nil {
					for _, a := range c.Args {
						r = append(r, exprFull(a))
					}
				}
				return true
			})
		}
		return r
	}
	// policy/local.go: where the scope -> definitions mapping comes from
	_, pol := parseFile("policy/local.go")
	_, polCfg := parseFile("policy/config.go")
	for _, fc := range []struct {
		name string
		fn   string
	}{
		{"condsPolicyConfigure", "Configure"},
		{"condsPolicyLoadDir", "loadFromDirectory"},
		{"condsPolicyLoadFile", "loadFromFile"},
	} {
		c := c02Conds(pol, fc.fn)
		l.def(fc.name, "List String", leanStrList(c), c)
	}
	l.chain("chainPolicyConfigure", pol, "Configure")
	l.chain("chainPolicyLoadDir", pol, "loadFromDirectory")
	l.chain("chainPolicyLoadFile", pol, "loadFromFile")
	// the suffix literal of the HasSuffix call in loadFromDirectory and the default directory
	suffix := []string{}
	if fd := funcDecl(pol, "loadFromDirectory"); fd != nil {
		ast.Inspect(fd, func(n ast.Node) bool {
			if c, ok := n.(*ast.CallExpr); ok && callName(c) == "HasSuffix" && len(c.Args) == 2 {
				suffix = append(suffix, exprFull(c.Args[0]), exprFull(c.Args[1]))
			}
			return true
		})
	}
	l.def("policySuffixCheck", "List String", leanStrList(suffix), suffix)
	dflt := []string{}
	if fd := funcDecl(polCfg, "defaultConfig"); fd != nil {
		dflt = compositeFields(fd, "Config")
	}
	l.def("policyDefaultConfig", "List String", leanStrList(dflt), dflt)
	// the server's own request objects: api.go RequestJWTByGet / RequestJWTByPost / createAuthorizationRequest, jar.go createJarRequest / Sign
	for _, fc := range []struct {
		name string
		f    *ast.File
		fn   string
	}{
		{"condsRequestJWTByGet", api, "RequestJWTByGet"},
		{"condsRequestJWTByPost", api, "RequestJWTByPost"},
		{"condsCreateAuthorizationRequest", api, "createAuthorizationRequest"},
		{"condsCreateJarRequest", jarF, "createJarRequest"},
	} {
		c := c02Conds(fc.f, fc.fn)
		l.def(fc.name, "List String", leanStrList(c), c)
	}
	l.chain("chainRequestJWTByGet", api, "RequestJWTByGet")
	l.chain("chainRequestJWTByPost", api, "RequestJWTByPost")
	l.chain("chainCreateAuthorizationRequest", api, "createAuthorizationRequest")
	l.chain("chainJarSign", jarF, "Sign")
	a1 := args(jarF, "Parse", "validate")
	l.def("jarValidateArgs", "List String", leanStrList(a1), a1)
	a2 := args(api, "handleAuthorizeRequest", "handleAuthorizeRequestFromHolder")
	l.def("authorizeHolderArgs", "List String", leanStrList(a2), a2)
	a3 := args(api, "handleAuthorizeRequest", "Parse")
	l.def("authorizeJarParseArgs", "List String", leanStrList(a3), a3)
}
