package main

// C19 facts: for every Go function that is inside a C19 model, the inventory of PARTIAL operations
// (operations that can panic or not terminate) as the source spells them today, plus a few constants.
// Deliberately dumb: prints what is there; NutsModel/C19/Sites.lean holds the expected inventory with the
// disposition of each entry, and Props/C19.lean compares the two by `decide`.

import (
	"fmt"
	"go/ast"
	"go/token"
	"os"
	"path/filepath"
	"sort"
	"strings"
)

func init() { extractors["C19"] = extractC19 }

type c19Fn struct{ file, recv, name string }

var c19Funcs = []c19Fn{
	{"crypto/dpop/dpop.go", "", "Parse"},
	{"crypto/dpop/dpop.go", "DPoP", "HTU"},
	{"crypto/dpop/dpop.go", "DPoP", "HTM"},
	{"crypto/dpop/dpop.go", "DPoP", "Match"},
	{"crypto/dpop/dpop.go", "", "strip"},
	{"vdr/resolver/key.go", "DIDKeyResolver", "ResolveKeyByID"},
	{"vdr/resolver/key.go", "DIDKeyResolver", "baseUrl"},
	{"vdr/resolver/key.go", "DIDKeyResolver", "ResolveKey"},
	{"vdr/resolver/service.go", "DIDServiceResolver", "Resolve"},
	{"vdr/resolver/service.go", "DIDServiceResolver", "ResolveEx"},
	{"vcr/revocation/bitstring.go", "bitstring", "bit"},
	{"vcr/revocation/bitstring.go", "bitstring", "setBit"},
	{"vcr/revocation/bitstring.go", "", "isSet"},
	{"network/dag/tree/iblt.go", "Iblt", "Insert"},
	{"network/dag/tree/iblt.go", "Iblt", "Delete"},
	{"network/dag/tree/iblt.go", "Iblt", "Subtract"},
	{"network/dag/tree/iblt.go", "Iblt", "validate"},
	{"network/dag/tree/iblt.go", "Iblt", "Decode"},
	{"network/dag/tree/iblt.go", "Iblt", "Empty"},
	{"network/dag/tree/iblt.go", "Iblt", "bucketIndices"},
	{"network/dag/tree/iblt.go", "Iblt", "UnmarshalBinary"},
	{"network/dag/tree/iblt.go", "bucket", "UnmarshalBinary"},
	{"auth/api/iam/openid4vp.go", "", "withCallbackURI"},
	{"auth/api/iam/openid4vp.go", "Wrapper", "handleAuthorizeResponseSubmission"},
	{"auth/api/iam/openid4vp.go", "Wrapper", "validatePresentationNonce"},
	{"auth/api/iam/openid4vp.go", "", "extractChallenge"},
	{"auth/api/iam/validation.go", "Wrapper", "validatePresentationAudience"},
	// ---- entry points that are SAMPLED (or modelled only in part): inventoried so that a new partial operation forces a review
	{"auth/api/iam/openid4vp.go", "Wrapper", "getClientMetadataFromRequest"},
	{"auth/api/iam/openid4vp.go", "Wrapper", "getPresentationDefinitionFromRequest"},
	{"auth/client/iam/client.go", "HTTPClient", "PresentationDefinition"},
	{"auth/client/iam/client.go", "", "checkNoNullEntries"},
	{"vcr/pe/util.go", "", "ParseEnvelope"},
	{"vcr/pe/util.go", "", "parseJSONArrayEnvelope"},
	{"vcr/pe/util.go", "", "parseJSONObjectOrStringEnvelope"},
	{"vcr/pe/util.go", "", "tryParseJSONArray"},
	{"network/transport/v2/conversation.go", "conversationManager", "check"},
	{"network/transport/v2/conversation.go", "Envelope_TransactionListQuery", "checkResponse"},
	{"network/transport/v2/conversation.go", "Envelope_TransactionRangeQuery", "checkResponse"},
	{"network/transport/v2/conversation.go", "Envelope_State", "checkResponse"},
	{"network/transport/v2/conversation.go", "Envelope_TransactionList", "parseTransactions"},
	{"network/transport/v2/transactionlist_handler.go", "protocol", "handleTransactionList"},
	{"vcr/pe/presentation_definition.go", "PresentationDefinition", "Match"},
	{"vcr/pe/presentation_definition.go", "PresentationDefinition", "matchBasic"},
	{"vcr/pe/presentation_definition.go", "PresentationDefinition", "matchSubmissionRequirements"},
	{"vcr/pe/presentation_submission.go", "PresentationSubmission", "Validate"},
	{"vcr/pe/presentation_submission.go", "PresentationSubmission", "Resolve"},
	{"vcr/pe/presentation_submission.go", "PresentationSubmissionBuilder", "Build"},
	{"discovery/module.go", "Module", "Search"},
	{"discovery/module.go", "Module", "Register"},
	{"discovery/module.go", "Module", "verifyRegistration"},
	{"discovery/module.go", "Module", "validateRegistration"},
	{"discovery/module.go", "Module", "validateRetraction"},
	{"discovery/client.go", "clientUpdater", "updateService"},
	{"discovery/store.go", "", "storePresentation"},
	{"http/client/client.go", "StrictHTTPClient", "WithRedirectCheck"},
	{"http/client/client.go", "StrictHTTPClient", "Do"},
	{"vcr/revocation/statuslist2021_verifier.go", "StatusList2021", "Verify"},
	{"vcr/revocation/statuslist2021_verifier.go", "StatusList2021", "statusList"},
	{"vcr/revocation/statuslist2021_verifier.go", "StatusList2021", "update"},
	{"vcr/revocation/statuslist2021_verifier.go", "StatusList2021", "download"},
	{"vcr/revocation/statuslist2021_verifier.go", "StatusList2021", "verify"},
	{"vcr/revocation/statuslist2021_verifier.go", "StatusList2021", "validate"},
	{"vcr/revocation/bitstring.go", "bitstring", "Scan"},
	{"vcr/revocation/bitstring.go", "", "expand"},
	{"vdr/didkey/resolver.go", "Resolver", "Resolve"},
	{"vdr/didkey/resolver.go", "", "unmarshalEC"},
	{"vdr/didjwk/resolver.go", "Resolver", "Resolve"},
	{"vdr/didweb/web.go", "Resolver", "Resolve"},
	{"vcr/credential/util.go", "", "ResolveSubjectDID"},
	{"vcr/credential/util.go", "", "PresenterIsCredentialSubject"},
	{"vcr/credential/util.go", "", "PresentationIssuanceDate"},
	{"vcr/credential/util.go", "", "PresentationExpirationDate"},
	{"vcr/credential/util.go", "", "AutoCorrectSelfAttestedCredential"},
	{"vcr/credential/util.go", "", "FilterOnDIDMethod"},
	{"vcr/credential/resolver.go", "", "PresentationSigner"},
	{"vcr/credential/resolver.go", "", "ParseLDProof"},
	{"vcr/credential/validator.go", "", "validateNutsCredentialID"},
	{"vcr/verifier/verifier.go", "verifier", "Verify"},
	{"vcr/verifier/verifier.go", "verifier", "doVerifyVP"},
	{"crypto/jwx.go", "", "JWTKidAlg"},
	{"crypto/jwx.go", "", "ParseJWT"},
	{"crypto/jwx.go", "", "ParseJWS"},
	{"jsonld/ldutils.go", "LDUtil", "Canonicalize"},
	{"vdr/didnuts/validators.go", "verificationMethodValidator", "Validate"},
	{"vdr/didnuts/validators.go", "verificationMethodValidator", "verifyThumbprint"},
	{"vdr/didnuts/ambassador.go", "ambassador", "findKeyByThumbprint"},
	{"vdr/didnuts/ambassador.go", "ambassador", "callback"},
	{"vdr/didnuts/validators.go", "nilEntryValidator", "Validate"},
	{"vdr/didnuts/validators.go", "", "NetworkDocumentValidator"},
	{"vdr/resolver/nullentries.go", "", "RejectNullKeyEntries"},
	{"network/transport/v2/handlers.go", "protocol", "Handle"},
	{"network/transport/v2/handlers.go", "protocol", "handle"},
	{"network/transport/v2/handlers.go", "protocol", "handleTransactionPayload"},
	{"network/transport/v2/handlers.go", "protocol", "handleTransactionPayloadQuery"},
	{"network/transport/v2/handlers.go", "protocol", "handleTransactionRangeQuery"},
	{"network/transport/v2/handlers.go", "protocol", "handleGossip"},
	{"network/transport/v2/handlers.go", "protocol", "handleTransactionListQuery"},
	{"network/transport/v2/handlers.go", "protocol", "handleState"},
	{"network/transport/v2/handlers.go", "protocol", "handleTransactionSet"},
	// ---- deepening round: did:web (model NutsModel/C19/DidWeb.lean)
	{"vdr/didweb/util.go", "", "DIDToURL"},
	{"vdr/didweb/util.go", "", "percentDecodeString"},
	{"vdr/didweb/util.go", "", "percentDecodeChar"},
	{"vdr/didweb/util.go", "", "isHex"},
	{"vdr/didweb/util.go", "", "unhex"},
	// ---- HTTP response cache (model NutsModel/C19/HttpCache.lean)
	{"http/client/caching.go", "responseCache", "insert"},
	{"http/client/caching.go", "responseCache", "pop"},
	{"http/client/caching.go", "responseCache", "removeExpiredEntries"},
	{"http/client/caching.go", "responseCache", "get"},
	{"http/client/caching.go", "CachingRoundTripper", "RoundTrip"},
	{"http/client/caching.go", "CachingRoundTripper", "cacheResponse"},
}

func recvName(fd *ast.FuncDecl) string {
	if fd.Recv == nil || len(fd.Recv.List) == 0 {
		return ""
	}
	t := fd.Recv.List[0].Type
	if s, ok := t.(*ast.StarExpr); ok {
		t = s.X
	}
	if id, ok := t.(*ast.Ident); ok {
		return id.Name
	}
	return "?"
}

func c19Expr(e ast.Expr) string {
	switch x := e.(type) {
	case *ast.CallExpr:
		var as []string
		for _, a := range x.Args {
			as = append(as, c19Expr(a))
		}
		return c19Expr(x.Fun) + "(" + strings.Join(as, ", ") + ")"
	case *ast.SelectorExpr:
		return c19Expr(x.X) + "." + x.Sel.Name
	case *ast.IndexExpr:
		return c19Expr(x.X) + "[" + c19Expr(x.Index) + "]"
	case *ast.StarExpr:
		return "*" + c19Expr(x.X)
	case *ast.ParenExpr:
		return "(" + c19Expr(x.X) + ")"
	case *ast.BinaryExpr:
		return c19Expr(x.X) + " " + x.Op.String() + " " + c19Expr(x.Y)
	case *ast.UnaryExpr:
		return x.Op.String() + c19Expr(x.X)
	case *ast.TypeAssertExpr:
		if x.Type == nil {
			return c19Expr(x.X) + ".(type)"
		}
		return c19Expr(x.X) + ".(" + c19Expr(x.Type) + ")"
	case *ast.SliceExpr:
		s := c19Expr(x.X) + "["
		if x.Low != nil {
			s += c19Expr(x.Low)
		}
		s += ":"
		if x.High != nil {
			s += c19Expr(x.High)
		}
		return s + "]"
	case *ast.ArrayType:
		l := ""
		if x.Len != nil {
			l = c19Expr(x.Len)
		}
		return "[" + l + "]" + c19Expr(x.Elt)
	case *ast.MapType:
		return "map[" + c19Expr(x.Key) + "]" + c19Expr(x.Value)
	case *ast.InterfaceType:
		return "interface{}"
	case *ast.CompositeLit:
		return c19Expr(x.Type) + "{}"
	}
	return exprString(e)
}

// c19Ops walks a function body and lists partial operations in source order.
func c19Ops(fd *ast.FuncDecl) []string {
	var ops []string
	add := func(kind, what string) { ops = append(ops, kind+":"+what) }
	checked := map[*ast.TypeAssertExpr]bool{}
	var expr func(e ast.Expr, lhs bool)
	var stmt func(s ast.Stmt)
	exprs := func(l []ast.Expr, lhs bool) {
		for _, e := range l {
			expr(e, lhs)
		}
	}
	expr = func(e ast.Expr, lhs bool) {
		switch x := e.(type) {
		case nil:
		case *ast.TypeAssertExpr:
			expr(x.X, false)
			if x.Type == nil {
				return // type switch
			}
			if checked[x] {
				add("assertok", c19Expr(x))
			} else {
				add("assert", c19Expr(x))
			}
		case *ast.IndexExpr:
			expr(x.X, false)
			expr(x.Index, false)
			if lhs {
				add("indexw", c19Expr(x))
			} else {
				add("index", c19Expr(x))
			}
		case *ast.SliceExpr:
			expr(x.X, false)
			expr(x.Low, false)
			expr(x.High, false)
			expr(x.Max, false)
			add("slice", c19Expr(x))
		case *ast.StarExpr:
			expr(x.X, false)
			add("deref", c19Expr(x))
		case *ast.BinaryExpr:
			expr(x.X, false)
			expr(x.Y, false)
			if x.Op == token.QUO || x.Op == token.REM {
				if _, lit := x.Y.(*ast.BasicLit); !lit {
					add("divmod", c19Expr(x))
				}
			}
		case *ast.UnaryExpr:
			expr(x.X, false)
		case *ast.ParenExpr:
			expr(x.X, lhs)
		case *ast.SelectorExpr:
			expr(x.X, false)
		case *ast.CallExpr:
			// conversion to pointer-to-array / pointer type: (*T)(x)
			if p, ok := x.Fun.(*ast.ParenExpr); ok {
				if _, ok := p.X.(*ast.StarExpr); ok {
					exprs(x.Args, false)
					add("conv", c19Expr(p)+"("+c19Expr(x.Args[0])+")")
					return
				}
			}
			if id, ok := x.Fun.(*ast.Ident); ok && (id.Name == "make" || id.Name == "new") {
				if len(x.Args) > 1 {
					exprs(x.Args[1:], false)
				}
				return
			}
			expr(x.Fun, false)
			exprs(x.Args, false)
			// calls of the guards that earlier repairs introduced: removing one re-opens a crash
			switch fn := c19Expr(x.Fun); fn {
			case "resolver.RejectNullKeyEntries", "checkNoNullEntries", "checkPublicKey", "pe.ParsePresentationDefinition", "presentationDefinition.checkNoNilEntries":
				add("guardcall", fn)
			}
			if c19Expr(x.Fun) == "panic" {
				add("panic", c19Expr(x))
			}
		case *ast.CompositeLit:
			for _, el := range x.Elts {
				if kv, ok := el.(*ast.KeyValueExpr); ok {
					expr(kv.Value, false)
				} else {
					// elements that are themselves literals of a named type (e.g. the validators NetworkDocumentValidator chains, in order)
					if cl, ok := el.(*ast.CompositeLit); ok && cl.Type != nil {
						add("lit", c19Expr(cl))
					}
					expr(el, false)
				}
			}
		case *ast.FuncLit:
			stmt(x.Body)
		case *ast.KeyValueExpr:
			expr(x.Value, false)
		}
	}
	self := fd.Name.Name
	stmt = func(s ast.Stmt) {
		switch x := s.(type) {
		case nil:
		case *ast.BlockStmt:
			if x == nil {
				return
			}
			for _, st := range x.List {
				stmt(st)
			}
		case *ast.ExprStmt:
			expr(x.X, false)
		case *ast.AssignStmt:
			if len(x.Lhs) == 2 && len(x.Rhs) == 1 {
				if ta, ok := x.Rhs[0].(*ast.TypeAssertExpr); ok {
					checked[ta] = true
				}
				if call, ok := x.Rhs[0].(*ast.CallExpr); ok {
					if id, ok := x.Lhs[1].(*ast.Ident); ok && id.Name == "_" {
						exprs(x.Lhs, true)
						expr(call, false)
						add("discard", c19Expr(call))
						return
					}
				}
			}
			exprs(x.Lhs, true)
			exprs(x.Rhs, false)
			if x.Tok == token.QUO_ASSIGN || x.Tok == token.REM_ASSIGN {
				add("divmod", c19Expr(x.Lhs[0])+" "+x.Tok.String()+" "+c19Expr(x.Rhs[0]))
			}
		case *ast.IfStmt:
			stmt(x.Init)
			// nil guards (other than the ubiquitous `err`): the models rely on some of them
			ast.Inspect(x.Cond, func(n ast.Node) bool {
				if b, ok := n.(*ast.BinaryExpr); ok && (b.Op == token.EQL || b.Op == token.NEQ) {
					if id, ok := b.Y.(*ast.Ident); ok && id.Name == "nil" && c19Expr(b.X) != "err" {
						add("nilcheck", c19Expr(b))
					}
				}
				// length guards (`len(x) == 0`, `len(x) != 1`, …): index expressions of the models rely on them
				if b, ok := n.(*ast.BinaryExpr); ok && (b.Op == token.EQL || b.Op == token.NEQ || b.Op == token.LSS || b.Op == token.GTR || b.Op == token.LEQ || b.Op == token.GEQ) {
					for _, side := range []ast.Expr{b.X, b.Y} {
						if c, ok := side.(*ast.CallExpr); ok && c19Expr(c.Fun) == "len" {
							add("lencheck", c19Expr(b))
							break
						}
						// variables that hold a length (keyLength != 32 …)
						if id, ok := side.(*ast.Ident); ok && (strings.HasSuffix(id.Name, "Length") || strings.HasSuffix(id.Name, "Len")) {
							add("lencheck", c19Expr(b))
							break
						}
					}
				}
				return true
			})
			expr(x.Cond, false)
			stmt(x.Body)
			stmt(x.Else)
		case *ast.ForStmt:
			stmt(x.Init)
			cond := ""
			if x.Cond != nil {
				cond = c19Expr(x.Cond)
			}
			add("for", cond)
			expr(x.Cond, false)
			stmt(x.Post)
			stmt(x.Body)
		case *ast.RangeStmt:
			add("range", c19Expr(x.X))
			expr(x.X, false)
			stmt(x.Body)
		case *ast.ReturnStmt:
			exprs(x.Results, false)
		case *ast.IncDecStmt:
			expr(x.X, true)
		case *ast.SwitchStmt:
			stmt(x.Init)
			expr(x.Tag, false)
			stmt(x.Body)
		case *ast.TypeSwitchStmt:
			stmt(x.Init)
			stmt(x.Assign)
			stmt(x.Body)
		case *ast.CaseClause:
			exprs(x.List, false)
			for _, st := range x.Body {
				stmt(st)
			}
		case *ast.DeclStmt:
			if gd, ok := x.Decl.(*ast.GenDecl); ok {
				for _, sp := range gd.Specs {
					if vs, ok := sp.(*ast.ValueSpec); ok {
						if len(vs.Names) == 2 && len(vs.Values) == 1 {
							if ta, ok := vs.Values[0].(*ast.TypeAssertExpr); ok {
								checked[ta] = true
							}
						}
						exprs(vs.Values, false)
					}
				}
			}
		case *ast.DeferStmt:
			add("defer", c19Expr(x.Call.Fun))
			expr(x.Call, false)
		case *ast.GoStmt:
			expr(x.Call, false)
			add("go", c19Expr(x.Call))
		case *ast.LabeledStmt:
			add("label", x.Label.Name)
			stmt(x.Stmt)
		case *ast.BranchStmt:
			// labelled continue/break/goto decide how often a loop body contributes (one result per outer element, …)
			if x.Label != nil {
				add("branch", x.Tok.String()+" "+x.Label.Name)
			}
		case *ast.SelectStmt:
			add("select", "")
			stmt(x.Body)
		case *ast.CommClause:
			stmt(x.Comm)
			for _, st := range x.Body {
				stmt(st)
			}
		case *ast.SendStmt:
			expr(x.Chan, false)
			expr(x.Value, false)
			add("send", c19Expr(x.Chan))
		}
	}
	stmt(fd.Body)
	// direct recursion
	ast.Inspect(fd.Body, func(n ast.Node) bool {
		if c, ok := n.(*ast.CallExpr); ok {
			f := c19Expr(c.Fun)
			if f == self || strings.HasSuffix(f, "."+self) {
				ops = append(ops, "rec:"+f)
			}
		}
		return true
	})
	return ops
}

func c19Const(f *ast.File, name string) string {
	for _, d := range f.Decls {
		gd, ok := d.(*ast.GenDecl)
		if !ok || gd.Tok != token.CONST {
			continue
		}
		for _, sp := range gd.Specs {
			vs := sp.(*ast.ValueSpec)
			for i, n := range vs.Names {
				if n.Name == name && i < len(vs.Values) {
					return c19Expr(vs.Values[i])
				}
			}
		}
	}
	return "MISSING"
}

// natConst maps `uint8(6)`, `44`, `16 * 1024` … to a Lean Nat expression; anything else does not elaborate.
func c19Nat(s string) string {
	s = strings.TrimSpace(s)
	for _, p := range []string{"uint8()", "uint32()", "uint64()", "int()"} {
		_ = p
	}
	if i := strings.Index(s, "("); i > 0 && strings.HasSuffix(s, ")") { // exprString of a call drops args; not used
		return "unknown_const_" + s
	}
	ok := s != ""
	for _, r := range s {
		if !(r >= '0' && r <= '9' || r == ' ' || r == '*' || r == '+') {
			ok = false
		}
	}
	if ok {
		return "(" + s + ")"
	}
	return "unknown_const_" + strings.Map(func(r rune) rune {
		if r >= 'a' && r <= 'z' || r >= 'A' && r <= 'Z' || r >= '0' && r <= '9' {
			return r
		}
		return '_'
	}, s)
}

// constant value with conversions like uint8(6) unwrapped
func c19ConstNat(f *ast.File, name string) string {
	for _, d := range f.Decls {
		gd, ok := d.(*ast.GenDecl)
		if !ok || gd.Tok != token.CONST {
			continue
		}
		for _, sp := range gd.Specs {
			vs := sp.(*ast.ValueSpec)
			for i, n := range vs.Names {
				if n.Name == name && i < len(vs.Values) {
					v := vs.Values[i]
					if c, ok := v.(*ast.CallExpr); ok && len(c.Args) == 1 {
						v = c.Args[0]
					}
					return c19Nat(c19Expr(v))
				}
			}
		}
	}
	return "unknown_const_missing_" + name
}

func extractC19() *lean {
	l := newLean("C19")
	files := map[string]*ast.File{}
	get := func(rel string) *ast.File {
		if f, ok := files[rel]; ok {
			return f
		}
		_, f := parseFile(rel)
		files[rel] = f
		return f
	}
	var sb strings.Builder
	raw := map[string][]string{}
	sb.WriteString("[")
	for i, fn := range c19Funcs {
		f := get(fn.file)
		var fd *ast.FuncDecl
		for _, d := range f.Decls {
			if x, ok := d.(*ast.FuncDecl); ok && x.Name.Name == fn.name && recvName(x) == fn.recv {
				fd = x
			}
		}
		key := fn.file + ":" + fn.name
		if fn.recv != "" {
			key = fn.file + ":" + fn.recv + "." + fn.name
		}
		var ops []string
		if fd == nil || fd.Body == nil {
			ops = []string{"MISSING-FUNCTION"}
		} else {
			ops = c19Ops(fd)
		}
		raw[key] = ops
		if i > 0 {
			sb.WriteString(",\n  ")
		}
		fmt.Fprintf(&sb, "(%q, %s)", key, leanStrList(ops))
	}
	sb.WriteString("]")
	l.def("partialOps", "List (String × List String)", sb.String(), raw)

	iblt := get("network/dag/tree/iblt.go")
	for _, c := range []string{"ibltK", "bucketBytes", "ibltMaxChain"} {
		v := c19ConstNat(iblt, c)
		if c == "ibltMaxChain" && strings.HasPrefix(v, "unknown_const_missing") {
			v = "0" // constant introduced by the repair; absent = unbounded chain
		}
		l.def(c, "Nat", v, v)
	}
	// bucketIndices caps k at the number of buckets (`if uint32(k) > numBuckets { k = int(numBuckets) }`)
	caps := false
	for _, d := range iblt.Decls {
		if fd, ok := d.(*ast.FuncDecl); ok && fd.Name.Name == "bucketIndices" && fd.Body != nil {
			ast.Inspect(fd.Body, func(n ast.Node) bool {
				if is, ok := n.(*ast.IfStmt); ok && c19Expr(is.Cond) == "uint32(k) > numBuckets" && len(is.Body.List) == 1 {
					if as, ok := is.Body.List[0].(*ast.AssignStmt); ok && len(as.Lhs) == 1 && c19Expr(as.Lhs[0]) == "k" && c19Expr(as.Rhs[0]) == "int(numBuckets)" {
						caps = true
					}
				}
				return true
			})
		}
	}
	l.def("bucketIndicesCapsK", "Bool", map[bool]string{true: "true", false: "false"}[caps], caps)
	// every http.Client the http/client package constructs: which members its composite literal sets (a client without Timeout waits for ever)
	hc := get("http/client/client.go")
	var hcLits []string
	var hcRaw [][]string
	ast.Inspect(hc, func(n ast.Node) bool {
		if cl, ok := n.(*ast.CompositeLit); ok && cl.Type != nil && c19Expr(cl.Type) == "http.Client" {
			var keys []string
			for _, el := range cl.Elts {
				if kv, ok := el.(*ast.KeyValueExpr); ok {
					keys = append(keys, c19Expr(kv.Key))
				}
			}
			hcLits = append(hcLits, leanStrList(keys))
			hcRaw = append(hcRaw, keys)
		}
		return true
	})
	l.def("httpClientLiterals", "List (List String)", "["+strings.Join(hcLits, ", ")+"]", hcRaw)
	dp := get("crypto/dpop/dpop.go")
	v := c19ConstNat(dp, "maxJtiLength")
	l.def("maxJtiLength", "Nat", v, v)
	sv := get("vdr/resolver/service.go")
	v = c19ConstNat(sv, "DefaultMaxServiceReferenceDepth")
	l.def("defaultMaxServiceReferenceDepth", "Nat", v, v)
	_, st := parseFile("network/dag/state.go")
	v = c19ConstNat(st, "IbltNumBuckets")
	l.def("ibltNumBuckets", "Nat", v, v)
	bsf := get("vcr/revocation/bitstring.go")
	v = c19ConstNat(bsf, "defaultBitstringLengthInBytes")
	l.def("defaultBitstringLengthInBytes", "Nat", v, v)
	c19DidWeb(l, get("vdr/didweb/util.go"), get("vdr/didweb/web.go"))
	c19DocUnmarshals(l)
	c19JsonldRecover(l)
	return l
}

// c19CharLit: a Go character literal as its byte value ("'~'" -> "126"); anything else does not elaborate in Lean
func c19CharLit(e ast.Expr) string {
	if bl, ok := e.(*ast.BasicLit); ok && bl.Kind == token.CHAR {
		v := bl.Value
		switch {
		case len(v) == 3:
			return fmt.Sprint(int(v[1]))
		case v == `'\''`:
			return "39"
		case v == `'\\'`:
			return "92"
		}
	}
	return "unknown_char_" + strings.Map(func(r rune) rune {
		if (r >= 'a' && r <= 'z') || (r >= 'A' && r <= 'Z') || (r >= '0' && r <= '9') {
			return r
		}
		return '_'
	}, c19Expr(e))
}

// c19SwitchCases: for every `switch <tag>` in fn, the case expressions in source order (default = "default")
func c19SwitchCases(f *ast.File, fn, tag string, conv func(ast.Expr) string) []string {
	var out []string
	found := false
	for _, d := range f.Decls {
		fd, ok := d.(*ast.FuncDecl)
		if !ok || fd.Name.Name != fn || fd.Body == nil {
			continue
		}
		ast.Inspect(fd.Body, func(n ast.Node) bool {
			sw, ok := n.(*ast.SwitchStmt)
			if !ok || sw.Tag == nil || c19Expr(sw.Tag) != tag {
				return true
			}
			found = true
			for _, st := range sw.Body.List {
				cc := st.(*ast.CaseClause)
				for _, e := range cc.List {
					out = append(out, conv(e))
				}
			}
			return true
		})
	}
	if !found {
		return []string{"unknown_switch_missing"}
	}
	return out
}

// did:web facts: the character class percentDecodeChar decodes / shouldPercentEncode encodes, the content types Resolve accepts,
// the guard in front of the slice expression of percentDecodeString, the status-code test of Resolve
func c19DidWeb(l *lean, util, web *ast.File) {
	dec := c19SwitchCases(util, "percentDecodeChar", "c", c19CharLit)
	l.def("didwebDecodeSet", "List Nat", "["+strings.Join(dec, ", ")+"]", dec)
	enc := c19SwitchCases(util, "shouldPercentEncode", "c", c19CharLit)
	l.def("didwebEncodeSet", "List Nat", "["+strings.Join(enc, ", ")+"]", enc)
	cts := c19SwitchCases(web, "Resolve", "ct", func(e ast.Expr) string {
		if bl, ok := e.(*ast.BasicLit); ok && bl.Kind == token.STRING {
			return bl.Value
		}
		return "unknown_content_type"
	})
	l.def("didwebContentTypes", "List String", "["+strings.Join(cts, ", ")+"]", cts)
	// conditions of the `if` statements that (transitively) contain the slice expression s[i : i+3]
	var guards []string
	for _, d := range util.Decls {
		fd, ok := d.(*ast.FuncDecl)
		if !ok || fd.Name.Name != "percentDecodeString" || fd.Body == nil {
			continue
		}
		var stack []ast.Node
		ast.Inspect(fd.Body, func(n ast.Node) bool {
			if n == nil {
				stack = stack[:len(stack)-1]
				return true
			}
			if se, ok := n.(*ast.SliceExpr); ok && c19Expr(se.X) == "s" {
				for _, a := range stack {
					if is, ok := a.(*ast.IfStmt); ok {
						guards = append(guards, c19Expr(is.Cond))
					}
				}
			}
			stack = append(stack, n)
			return true
		})
	}
	l.def("didwebSliceGuards", "List String", leanStrList(guards), guards)
	// every `if` condition of Resolve that mentions StatusCode
	var status []string
	for _, d := range web.Decls {
		fd, ok := d.(*ast.FuncDecl)
		if !ok || fd.Name.Name != "Resolve" || fd.Body == nil {
			continue
		}
		ast.Inspect(fd.Body, func(n ast.Node) bool {
			if is, ok := n.(*ast.IfStmt); ok && strings.Contains(c19Expr(is.Cond), "StatusCode") {
				status = append(status, c19Expr(is.Cond))
			}
			return true
		})
	}
	l.def("didwebStatusTests", "List String", leanStrList(status), status)
}

// c19DocUnmarshals: every place in the node's packages that face the network (vdr, network, discovery, auth, vcr, didman, storage) where
// bytes are unmarshalled into a did.Document VALUE declared in the same function (`json.Unmarshal(b, &doc)`, `doc.UnmarshalJSON(b)`)
// or handed to did.ParseDocument, with whether a call of RejectNullKeyEntries precedes it in that function.
// go-did v0.15.0 dereferences null entries of the key arrays while it resolves relationship references.
func c19DocUnmarshals(l *lean) {
	var out []string
	for _, top := range []string{"vdr", "network", "discovery", "auth", "vcr", "didman", "storage"} {
		filepath.Walk(filepath.Join(repo, top), func(path string, info os.FileInfo, err error) error {
			if err != nil || info.IsDir() || !strings.HasSuffix(path, ".go") || strings.HasSuffix(path, "_test.go") ||
				strings.Contains(path, "mock") || strings.HasSuffix(path, "generated.go") || strings.HasPrefix(info.Name(), "zz_verif") {
				return nil
			}
			rel, _ := filepath.Rel(repo, path)
			_, f := parseFile(rel)
			for _, d := range f.Decls {
				fd, ok := d.(*ast.FuncDecl)
				if !ok || fd.Body == nil {
					continue
				}
				docs := map[string]bool{}
				ast.Inspect(fd.Body, func(n ast.Node) bool {
					switch x := n.(type) {
					case *ast.ValueSpec:
						if x.Type != nil && c19Expr(x.Type) == "did.Document" {
							for _, id := range x.Names {
								docs[id.Name] = true
							}
						}
					case *ast.AssignStmt:
						if x.Tok == token.DEFINE && len(x.Lhs) == 1 && len(x.Rhs) == 1 {
							r := c19Expr(x.Rhs[0])
							if r == "did.Document{}" || r == "&did.Document{}" || r == "new(did.Document)" {
								docs[c19Expr(x.Lhs[0])] = true
							}
						}
					}
					return true
				})
				var guardPos token.Pos
				ast.Inspect(fd.Body, func(n ast.Node) bool {
					if ce, ok := n.(*ast.CallExpr); ok && strings.HasSuffix(c19Expr(ce.Fun), "RejectNullKeyEntries") && (guardPos == 0 || ce.Pos() < guardPos) {
						guardPos = ce.Pos()
					}
					return true
				})
				ast.Inspect(fd.Body, func(n ast.Node) bool {
					ce, ok := n.(*ast.CallExpr)
					if !ok {
						return true
					}
					fun := c19Expr(ce.Fun)
					hit := false
					switch {
					case fun == "did.ParseDocument":
						hit = true
					case fun == "json.Unmarshal" && len(ce.Args) == 2:
						a := strings.TrimPrefix(c19Expr(ce.Args[1]), "&")
						hit = docs[a]
					case strings.HasSuffix(fun, ".UnmarshalJSON"):
						hit = docs[strings.TrimSuffix(fun, ".UnmarshalJSON")]
					}
					if hit {
						g := "UNGUARDED"
						if guardPos != 0 && guardPos < ce.Pos() {
							g = "after-RejectNullKeyEntries"
						}
						name := fd.Name.Name
						if r := recvName(fd); r != "" {
							name = r + "." + name
						}
						out = append(out, rel+":"+name+":"+c19Expr(ce)+":"+g)
					}
					return true
				})
			}
			return nil
		})
	}
	sort.Strings(out)
	l.def("didDocUnmarshals", "List String", leanStrList(out), out)
}

// c19JsonldRecover: every function of package jsonld (non-test files) that runs the third-party JSON-LD processor
// (`ld.NewJsonLdProcessor()`), with the FORM of its deferred calls, and every function of the package whose own frame calls recover().
// Go's recover() only stops a panic when it is called directly by the deferred function: the model (NutsModel/C19/JsonLd.lean) derives
// from these rows whether the guard works. Row: file:func | one entry per defer statement:
//   ("ident", [name])              defer <name>(...)
//   ("closure:self", [])           defer func(){ ... recover() ... }()   (recover() in the closure's own frame)
//   ("closure:calls", [a, b])      defer func(){ a(...); b(...) }()      (functions the closure calls in its own frame)
//   ("other", [expr])
func c19JsonldRecover(l *lean) {
	dir := filepath.Join(repo, "jsonld")
	ents, err := os.ReadDir(dir)
	must(err)
	// calls made in the frame of `body` itself (nested function literals are other frames)
	ownCalls := func(body ast.Node) []string {
		var out []string
		ast.Inspect(body, func(n ast.Node) bool {
			if _, ok := n.(*ast.FuncLit); ok && n != body {
				return false
			}
			if ce, ok := n.(*ast.CallExpr); ok {
				if _, isLit := ce.Fun.(*ast.FuncLit); !isLit {
					out = append(out, c19Expr(ce.Fun))
				}
			}
			return true
		})
		return out
	}
	var rows, recoverers []string
	rawRows := map[string][]string{}
	for _, e := range ents {
		if e.IsDir() || !strings.HasSuffix(e.Name(), ".go") || strings.HasSuffix(e.Name(), "_test.go") {
			continue
		}
		rel := "jsonld/" + e.Name()
		_, f := parseFile(rel)
		for _, d := range f.Decls {
			fd, ok := d.(*ast.FuncDecl)
			if !ok || fd.Body == nil {
				continue
			}
			name := fd.Name.Name
			if r := recvName(fd); r != "" {
				name = r + "." + name
			}
			for _, c := range ownCalls(fd.Body) {
				if c == "recover" {
					recoverers = append(recoverers, name)
					break
				}
			}
			runsProcessor := false
			ast.Inspect(fd.Body, func(n ast.Node) bool {
				if ce, ok := n.(*ast.CallExpr); ok && c19Expr(ce.Fun) == "ld.NewJsonLdProcessor" {
					runsProcessor = true
				}
				return true
			})
			if !runsProcessor {
				continue
			}
			var forms []string
			ast.Inspect(fd.Body, func(n ast.Node) bool {
				ds, ok := n.(*ast.DeferStmt)
				if !ok {
					return true
				}
				switch fun := ds.Call.Fun.(type) {
				case *ast.Ident:
					forms = append(forms, fmt.Sprintf("(%q, [%q])", "ident", fun.Name))
				case *ast.FuncLit:
					calls := ownCalls(fun.Body)
					self := false
					for _, c := range calls {
						if c == "recover" {
							self = true
						}
					}
					if self {
						forms = append(forms, fmt.Sprintf("(%q, [])", "closure:self"))
					} else {
						forms = append(forms, fmt.Sprintf("(%q, %s)", "closure:calls", leanStrList(calls)))
					}
				default:
					forms = append(forms, fmt.Sprintf("(%q, [%q])", "other", c19Expr(ds.Call.Fun)))
				}
				return true
			})
			rows = append(rows, fmt.Sprintf("(%q, [%s])", rel+":"+name, strings.Join(forms, ", ")))
			rawRows[rel+":"+name] = forms
		}
	}
	sort.Strings(rows)
	sort.Strings(recoverers)
	l.def("jsonldProcessorCallers", "List (String × List (String × List String))", "["+strings.Join(rows, ",\n  ")+"]", rawRows)
	l.def("jsonldRecoverers", "List String", leanStrList(recoverers), recoverers)
}
