package main

// C17 wave 9: where LDProof.Verify takes the verification algorithm from — the statement assigning `alg`, the argument of jws.NewVerifier and
// of jwx.AlgorithmFitsKey, and whether Verify (or a helper it calls in the same file to get the algorithm) reads the JWS protected header.

import (
	"go/ast"
	"strconv"
	"strings"
)

func extractC17f(l *lean) {
	_, ldF := parseFile("vcr/signature/proof/jsonld.go")
	fd := funcDecl(ldF, "Verify")
	var algAssign, verifierCalls []string
	if fd != nil && fd.Body != nil {
		ast.Inspect(fd, func(n ast.Node) bool {
			switch x := n.(type) {
			case *ast.AssignStmt:
				for _, lhs := range x.Lhs {
					if exprString(lhs) == "alg" {
						algAssign = append(algAssign, c17Src(x))
					}
				}
			case *ast.CallExpr:
				f := exprString(x.Fun)
				if f == "jws.NewVerifier" || f == "jwx.AlgorithmFitsKey" {
					verifierCalls = append(verifierCalls, c17Src(x))
				}
			}
			return true
		})
	} else {
		algAssign = []string{"FUNCTION-MISSING"}
	}
	l.def("ldProofAlgAssign", "List String", leanStrList(algAssign), algAssign)
	l.def("ldProofAlgUses", "List String", leanStrList(verifierCalls), verifierCalls)
	// every function of the file that reads an `alg` out of JWS headers (headers.Algorithm() / .Get("alg"))
	var headerReaders []string
	for _, d := range ldF.Decls {
		if f, ok := d.(*ast.FuncDecl); ok && f.Body != nil {
			src := c17Src(f.Body)
			if strings.Contains(src, ".Algorithm()") || strings.Contains(src, strconv.Quote("alg")) {
				headerReaders = append(headerReaders, f.Name.Name)
			}
		}
	}
	l.def("ldProofHeaderAlgReaders", "List String", leanStrList(headerReaders), headerReaders)
}
