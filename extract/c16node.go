package main

// C16, deepening round: facts about the NODE layer (definition loading, request routing, REST status codes).

import (
	"fmt"
	"go/ast"
	"go/token"
	"sort"
	"strconv"
	"strings"
)

var c16HTTPStatus = map[string]int{
	"http.StatusBadRequest": 400, "http.StatusNotFound": 404, "http.StatusInternalServerError": 500,
	"http.StatusConflict": 409, "http.StatusForbidden": 403, "http.StatusUnauthorized": 401, "http.StatusOK": 200,
	"http.StatusCreated": 201, "http.StatusNoContent": 204, "http.StatusPreconditionFailed": 412,
}

func c16Status(e ast.Expr) string {
	s := c16ExprSrc(e)
	if v, ok := c16HTTPStatus[s]; ok {
		return strconv.Itoa(v)
	}
	if _, err := strconv.Atoi(s); err == nil {
		return s
	}
	return ".unknown_status_" + strings.Map(func(r rune) rune {
		if r == '.' || r == '(' || r == ')' || r == ' ' {
			return '_'
		}
		return r
	}, s)
}

func c16PairList(ps [][2]string, second func(string) string) string {
	q := make([]string, len(ps))
	for i, p := range ps {
		q[i] = fmt.Sprintf("(%q, %s)", p[0], second(p[1]))
	}
	return "[" + strings.Join(q, ", ") + "]"
}

// marks (see c16Marks) and return statements of fn in source order: for every `return` whose last result is not the
// literal nil, the latest mark that starts before the return ends, and whether the result mentions ErrInvalidPresentation
func c16Returns(fd *ast.FuncDecl, marks map[string]string) [][2]string {
	if fd == nil {
		return [][2]string{{"?missing", "false"}}
	}
	type ev struct {
		pos  token.Pos
		mark string
	}
	var evs []ev
	var rets []*ast.ReturnStmt
	ast.Inspect(fd.Body, func(n ast.Node) bool {
		switch x := n.(type) {
		case *ast.FuncLit:
			return false
		case *ast.CallExpr:
			s := exprString(x.Fun)
			if m, ok := marks[s]; ok {
				evs = append(evs, ev{x.Pos(), m})
			} else if sel, ok := x.Fun.(*ast.SelectorExpr); ok {
				if m, ok := marks[sel.Sel.Name]; ok {
					evs = append(evs, ev{x.Pos(), m})
				}
			}
		case *ast.Ident:
			if m, ok := marks[x.Name]; ok {
				evs = append(evs, ev{x.Pos(), m})
			}
		case *ast.ReturnStmt:
			rets = append(rets, x)
		}
		return true
	})
	sort.SliceStable(evs, func(i, j int) bool { return evs[i].pos < evs[j].pos })
	var out [][2]string
	for _, r := range rets {
		if len(r.Results) == 0 {
			continue
		}
		last := r.Results[len(r.Results)-1]
		if id, ok := last.(*ast.Ident); ok && id.Name == "nil" {
			continue
		}
		mark := "?none"
		for _, e := range evs {
			if e.pos < r.End() {
				mark = e.mark
			}
		}
		joined := strings.Contains(c16ExprSrc(last), "ErrInvalidPresentation")
		out = append(out, [2]string{mark, c16Bool(joined)})
	}
	return out
}

// the sequence of routing marks in the part of fn that precedes `stop` (a call name), in source order
func c16Routing(fd *ast.FuncDecl, stop string) []string {
	if fd == nil {
		return []string{"?missing"}
	}
	marks := map[string]string{
		"serverDefinitions": "served?", "allDefinitions": "known?", "ErrServiceNotFound": "not-found",
		"cycleDetected": "cycle?", "errCyclicForwardingDetected": "cycle", "httpClient": "forward", "Endpoint": "endpoint",
	}
	var out []string
	done := false
	ast.Inspect(fd.Body, func(n ast.Node) bool {
		if done {
			return false
		}
		switch x := n.(type) {
		case *ast.CallExpr:
			if strings.HasSuffix(exprString(x.Fun), stop) {
				done = true
				return false
			}
		case *ast.Ident:
			if m, ok := marks[x.Name]; ok {
				out = append(out, m)
			}
		case *ast.UnaryExpr:
			if id, ok := x.X.(*ast.Ident); ok && x.Op == token.NOT {
				out = append(out, "!"+id.Name)
			}
		}
		return true
	})
	return out
}

func c16NodeFacts(l *lean) {
	_, module := parseFile("discovery/module.go")
	_, api := parseFile("discovery/api/server/api.go")
	_, config := parseFile("discovery/config.go")

	// ---- verifyRegistration: which returns join ErrInvalidPresentation
	vr := c16Returns(funcDecl(module, "verifyRegistration"), c16Marks)
	l.def("verifyReturns", "List (String × Bool)", c16PairList(vr, func(s string) string { return s }), vr)
	// Register: the "already exists" return
	existsJoined, existsSeen := false, false
	if fd := funcDecl(module, "Register"); fd != nil {
		ast.Inspect(fd.Body, func(n ast.Node) bool {
			if r, ok := n.(*ast.ReturnStmt); ok && len(r.Results) == 1 {
				s := c16ExprSrc(r.Results[0])
				if strings.Contains(s, "ErrPresentationAlreadyExists") {
					existsSeen = true
					existsJoined = strings.Contains(s, "ErrInvalidPresentation")
				}
			}
			return true
		})
	}
	if existsSeen {
		l.def("registerExistsJoined", "Bool", c16Bool(existsJoined), existsJoined)
	} else {
		l.def("registerExistsJoined", "Bool", ".unknown_no_already_exists_return", "missing")
	}

	// ---- ResolveStatusCode: the switch, in order
	var table [][2]string
	dflt := ".unknown_no_default"
	if fd := funcDecl(api, "ResolveStatusCode"); fd != nil {
		ast.Inspect(fd.Body, func(n ast.Node) bool {
			cc, ok := n.(*ast.CaseClause)
			if !ok {
				return true
			}
			status := ".unknown_no_return"
			for _, st := range cc.Body {
				if r, ok := st.(*ast.ReturnStmt); ok && len(r.Results) == 1 {
					status = c16Status(r.Results[0])
				}
			}
			if cc.List == nil {
				dflt = status
				return false
			}
			for _, e := range cc.List {
				name := ".unknown_case"
				if c, ok := e.(*ast.CallExpr); ok && exprString(c.Fun) == "errors.Is" && len(c.Args) == 2 {
					if sel, ok := c.Args[1].(*ast.SelectorExpr); ok {
						name = sel.Sel.Name
					}
				}
				table = append(table, [2]string{name, status})
			}
			return false
		})
	}
	l.def("statusTable", "List (String × Nat)", c16PairList(table, func(s string) string { return s }), table)
	l.def("statusDefault", "Nat", dflt, dflt)

	// ---- GetPresentations: the timestamp default
	var tsDefault []string
	if fd := funcDecl(api, "GetPresentations"); fd != nil {
		for _, st := range fd.Body.List {
			switch x := st.(type) {
			case *ast.DeclStmt:
				tsDefault = append(tsDefault, c16ExprSrc(x))
			case *ast.IfStmt:
				if strings.Contains(c16ExprSrc(x.Cond), "Timestamp") {
					tsDefault = append(tsDefault, "if "+c16ExprSrc(x.Cond))
					for _, b := range x.Body.List {
						tsDefault = append(tsDefault, c16ExprSrc(b))
					}
				}
			}
		}
	}
	l.def("apiTimestampDefault", "List String", leanStrList(tsDefault), tsDefault)

	// ---- routing heads of Register / Get / Search
	rr := c16Routing(funcDecl(module, "Register"), "verifyRegistration")
	l.def("registerRouting", "List String", leanStrList(rr), rr)
	gr := c16Routing(funcDecl(module, "Get"), "store.get")
	l.def("getRouting", "List String", leanStrList(gr), gr)
	sr := c16Routing(funcDecl(module, "Search"), "store.search")
	l.def("searchRouting", "List String", leanStrList(sr), sr)
	// cycleDetected: conditions and results
	var cyc []string
	if fd := funcDecl(module, "cycleDetected"); fd != nil {
		ast.Inspect(fd.Body, func(n ast.Node) bool {
			switch x := n.(type) {
			case *ast.IfStmt:
				cyc = append(cyc, "if "+c16ExprSrc(x.Cond))
			case *ast.ReturnStmt:
				cyc = append(cyc, "return "+c16Exprs(x.Results))
			case *ast.AssignStmt:
				cyc = append(cyc, c16ExprSrc(x))
			}
			return true
		})
	}
	l.def("cycleDetectedBody", "List String", leanStrList(cyc), cyc)

	// ---- loadDefinitions(directory): loop shape; Module.loadDefinitions: conditions
	var load []string
	suffix := ""
	for _, d := range module.Decls {
		fd, ok := d.(*ast.FuncDecl)
		if !ok || fd.Name.Name != "loadDefinitions" || fd.Recv != nil {
			continue
		}
		ast.Inspect(fd.Body, func(n ast.Node) bool {
			switch x := n.(type) {
			case *ast.IfStmt:
				s := "if "
				if x.Init != nil {
					s += c16ExprSrc(x.Init) + "; "
				}
				load = append(load, s+c16ExprSrc(x.Cond))
			case *ast.BranchStmt:
				load = append(load, x.Tok.String())
			case *ast.CallExpr:
				f := exprString(x.Fun)
				if f == "os.ReadDir" || f == "os.ReadFile" || f == "ParseServiceDefinition" {
					load = append(load, f)
				}
				if f == "strings.HasSuffix" && len(x.Args) == 2 {
					if b, ok := x.Args[1].(*ast.BasicLit); ok {
						suffix, _ = strconv.Unquote(b.Value)
					}
				}
			case *ast.AssignStmt:
				if len(x.Lhs) == 1 && strings.HasPrefix(c16ExprSrc(x.Lhs[0]), "result[") {
					load = append(load, c16ExprSrc(x))
				}
			}
			return true
		})
	}
	l.def("loadDirShape", "List String", leanStrList(load), load)
	l.def("definitionSuffix", "String", fmt.Sprintf("%q", suffix), suffix)
	var mload []string
	for _, d := range module.Decls {
		fd, ok := d.(*ast.FuncDecl)
		if !ok || fd.Name.Name != "loadDefinitions" || fd.Recv == nil {
			continue
		}
		ast.Inspect(fd.Body, func(n ast.Node) bool {
			switch x := n.(type) {
			case *ast.IfStmt:
				s := "if "
				if x.Init != nil {
					s += c16ExprSrc(x.Init) + "; "
				}
				mload = append(mload, s+c16ExprSrc(x.Cond))
			case *ast.RangeStmt:
				mload = append(mload, "range "+c16ExprSrc(x.X))
			case *ast.AssignStmt:
				if len(x.Lhs) == 1 && (strings.HasPrefix(c16ExprSrc(x.Lhs[0]), "serverDefinitions[") || strings.HasPrefix(c16ExprSrc(x.Lhs[0]), "m.serverDefinitions")) {
					mload = append(mload, c16ExprSrc(x))
				}
			}
			return true
		})
	}
	l.def("moduleLoadShape", "List String", leanStrList(mload), mload)
	// DefaultConfig().Definitions.Directory
	dir, found := "", false
	if fd := funcDecl(config, "DefaultConfig"); fd != nil {
		ast.Inspect(fd.Body, func(n ast.Node) bool {
			if kv, ok := n.(*ast.KeyValueExpr); ok && exprString(kv.Key) == "Directory" {
				if b, ok := kv.Value.(*ast.BasicLit); ok && b.Kind == token.STRING {
					dir, _ = strconv.Unquote(b.Value)
					found = true
				}
			}
			return true
		})
	}
	if found {
		l.def("defaultDefinitionsDir", "String", fmt.Sprintf("%q", dir), dir)
	} else {
		l.def("defaultDefinitionsDir", "String", ".unknown_default_directory", "missing")
	}

	// ---- clientUpdater.update: the loop over the services
	_, client := parseFile("discovery/client.go")
	var upd []string
	for _, d := range client.Decls {
		fd, ok := d.(*ast.FuncDecl)
		if !ok || fd.Name.Name != "update" || fd.Recv == nil || !strings.Contains(c16ExprSrc(fd.Recv.List[0].Type), "clientUpdater") {
			continue
		}
		ast.Inspect(fd.Body, func(n ast.Node) bool {
			switch x := n.(type) {
			case *ast.RangeStmt:
				upd = append(upd, "range "+c16ExprSrc(x.X))
			case *ast.IfStmt:
				upd = append(upd, "if "+c16ExprSrc(x.Cond))
			case *ast.BranchStmt:
				upd = append(upd, x.Tok.String())
			case *ast.ReturnStmt:
				upd = append(upd, "return "+c16Exprs(x.Results))
			case *ast.AssignStmt:
				upd = append(upd, c16ExprSrc(x))
			}
			return true
		})
	}
	l.def("updateAllShape", "List String", leanStrList(upd), upd)

	// ---- updateService: under which condition the freshly stored row is flagged validated (every if / else-if whose
	// body calls updateValidated: its init statement and condition)
	var guard []string
	if fd := funcDecl(client, "updateService"); fd != nil {
		ast.Inspect(fd.Body, func(n ast.Node) bool {
			ifs, ok := n.(*ast.IfStmt)
			if !ok {
				return true
			}
			calls := false
			ast.Inspect(ifs.Body, func(m ast.Node) bool {
				if c, ok := m.(*ast.CallExpr); ok && strings.HasSuffix(exprString(c.Fun), "updateValidated") {
					calls = true
				}
				return true
			})
			if calls {
				g := ""
				if ifs.Init != nil {
					g = c16ExprSrc(ifs.Init) + "; "
				}
				guard = append(guard, g+c16ExprSrc(ifs.Cond))
			}
			return true
		})
	}
	l.def("updateValidatedGuard", "List String", leanStrList(guard), guard)

	// ---- Module.update: what one refresh cycle does, in order, and whether a failing step ends the cycle
	var cyc2 []string
	for _, d := range module.Decls {
		fd, ok := d.(*ast.FuncDecl)
		if !ok || fd.Name.Name != "update" || fd.Recv == nil {
			continue
		}
		ast.Inspect(fd.Body, func(n ast.Node) bool {
			fl, ok := n.(*ast.FuncLit)
			if !ok {
				return true
			}
			ast.Inspect(fl.Body, func(m ast.Node) bool {
				switch x := m.(type) {
				case *ast.CallExpr:
					f := exprString(x.Fun)
					if strings.HasPrefix(f, "m.registrationManager.") || strings.HasPrefix(f, "m.clientUpdater.") {
						cyc2 = append(cyc2, f)
					}
				case *ast.ReturnStmt:
					cyc2 = append(cyc2, "return")
				}
				return true
			})
			return false
		})
	}
	l.def("updateCycleCalls", "List String", leanStrList(cyc2), cyc2)

	// ---- applyQuery: the column map, the comparison operators in source order, the joins
	_, store := parseFile("discovery/store.go")
	var cols [][2]string
	var qops, joins, qconds []string
	if fd := funcDecl(store, "applyQuery"); fd != nil {
		ast.Inspect(fd.Body, func(n ast.Node) bool {
			switch x := n.(type) {
			case *ast.IfStmt:
				g := "if "
				if x.Init != nil {
					g += c16ExprSrc(x.Init) + "; "
				}
				qconds = append(qconds, g+c16ExprSrc(x.Cond))
			case *ast.CompositeLit:
				if strings.HasPrefix(c16ExprSrc(x.Type), "map[string]string") {
					for _, e := range x.Elts {
						if kv, ok := e.(*ast.KeyValueExpr); ok {
							k, _ := strconv.Unquote(c16ExprSrc(kv.Key))
							v, _ := strconv.Unquote(c16ExprSrc(kv.Value))
							cols = append(cols, [2]string{k, v})
						}
					}
				}
			case *ast.ValueSpec:
				if len(x.Names) == 1 && x.Names[0].Name == "op" && len(x.Values) == 1 {
					if v, err := strconv.Unquote(c16ExprSrc(x.Values[0])); err == nil {
						qops = append(qops, v)
					}
				}
			case *ast.AssignStmt:
				if len(x.Lhs) == 1 && c16ExprSrc(x.Lhs[0]) == "op" {
					if v, err := strconv.Unquote(c16ExprSrc(x.Rhs[0])); err == nil {
						qops = append(qops, v)
					}
				}
			case *ast.CallExpr:
				if strings.HasSuffix(exprString(x.Fun), ".Joins") && len(x.Args) == 1 {
					if v, err := strconv.Unquote(c16ExprSrc(x.Args[0])); err == nil {
						joins = append(joins, v)
					}
				}
			}
			return true
		})
	}
	l.def("queryColumns", "List (String × String)", c16PairList(cols, func(s string) string { return fmt.Sprintf("%q", s) }), cols)
	l.def("queryOps", "List String", leanStrList(qops), qops)
	l.def("queryJoins", "List String", leanStrList(joins), joins)
	l.def("queryConditions", "List String", leanStrList(qconds), qconds)
}
