package main

// C03 (deepening round 3): crypto/cmd/cmd.go — exportToOtherStorage (loop statements + the two error wordings),
// fsToOtherStorage (which source), fs2VaultCommand (is the target wrapped before it is handed over?).
// Dumb printer: statements are printed in source order with a kind tag; expectations are Lean theorems.

import (
	"go/ast"
	"go/token"
	"strings"
)

func c03FuncDecl(f *ast.File, name string) *ast.FuncDecl {
	for _, d := range f.Decls {
		if fd, ok := d.(*ast.FuncDecl); ok && fd.Recv == nil && fd.Name.Name == name {
			return fd
		}
	}
	return nil
}

// statements of a block, nested blocks flattened with a depth prefix
func c03FlatStmts(fset *token.FileSet, list []ast.Stmt, depth int, out *[]string) {
	pre := strings.Repeat(">", depth)
	for _, st := range list {
		switch x := st.(type) {
		case *ast.IfStmt:
			*out = append(*out, pre+"if:"+c03Src(fset, x.Init)+";"+c03Src(fset, x.Cond))
			c03FlatStmts(fset, x.Body.List, depth+1, out)
			if x.Else != nil {
				*out = append(*out, pre+"else")
				if b, ok := x.Else.(*ast.BlockStmt); ok {
					c03FlatStmts(fset, b.List, depth+1, out)
				} else {
					c03FlatStmts(fset, []ast.Stmt{x.Else}, depth+1, out)
				}
			}
		case *ast.RangeStmt:
			*out = append(*out, pre+"range:"+c03Src(fset, x.Key)+","+c03Src(fset, x.Value)+":"+c03Src(fset, x.X))
			c03FlatStmts(fset, x.Body.List, depth+1, out)
		case *ast.ForStmt, *ast.SwitchStmt, *ast.TypeSwitchStmt, *ast.SelectStmt, *ast.GoStmt, *ast.DeferStmt, *ast.LabeledStmt, *ast.BlockStmt:
			*out = append(*out, pre+"other:"+c03Src(fset, st))
		case *ast.AssignStmt:
			*out = append(*out, pre+"assign:"+c03Src(fset, x))
		case *ast.ReturnStmt:
			*out = append(*out, pre+"return:"+c03Src(fset, x))
		case *ast.BranchStmt:
			*out = append(*out, pre+"branch:"+c03Src(fset, x))
		case *ast.DeclStmt:
			*out = append(*out, pre+"decl:"+c03Src(fset, x))
		case *ast.ExprStmt:
			*out = append(*out, pre+"expr:"+c03Src(fset, x))
		default:
			*out = append(*out, pre+"other:"+c03Src(fset, st))
		}
	}
}

// "<a>%s<b>%w<c>" -> (a, b, c); anything else -> a Lean term that does not elaborate
func c03ErrParts(format string) string {
	i := strings.Index(format, "%s")
	j := strings.Index(format, "%w")
	if i < 0 || j < i || strings.Count(format, "%") != 2 {
		return ".unknown_format_" + c03Str(format)
	}
	return c03Tuple(c03Str(format[:i]), c03Str(format[i+2:j]), c03Str(format[j+2:]))
}

func c03ExportFacts(l *lean) {
	fset, f := parseFile("crypto/cmd/cmd.go")
	var loop []string
	getErr, saveErr := ".missing_get_error", ".missing_save_error"
	var errArgs []string
	if fd := c03FuncDecl(f, "exportToOtherStorage"); fd != nil {
		c03FlatStmts(fset, fd.Body.List, 0, &loop)
		ast.Inspect(fd.Body, func(n ast.Node) bool {
			if c, ok := n.(*ast.CallExpr); ok && exprString(c.Fun) == "fmt.Errorf" && len(c.Args) == 3 {
				if s, ok := c03Unquote(c.Args[0]); ok {
					errArgs = append(errArgs, s+"|"+exprString(c.Args[1])+"|"+exprString(c.Args[2]))
					if strings.Contains(s, "retrieve") {
						getErr = c03ErrParts(s)
					} else {
						saveErr = c03ErrParts(s)
					}
				}
			}
			return true
		})
	}
	l.def("exportLoopStmts", "List String", c03StrList(loop), loop)
	l.def("exportErrCalls", "List String", c03StrList(errArgs), errArgs)
	l.def("exportGetErr", "String × String × String", getErr, getErr)
	l.def("exportSaveErr", "String × String × String", saveErr, saveErr)

	var src []string
	if fd := c03FuncDecl(f, "fsToOtherStorage"); fd != nil {
		c03FlatStmts(fset, fd.Body.List, 0, &src)
	}
	l.def("fsToOtherStmts", "List String", c03StrList(src), src)

	// fs2VaultCommand: the statements of the RunE closure that mention `target`, in source order
	var steps []string
	if fd := c03FuncDecl(f, "fs2VaultCommand"); fd != nil {
		ast.Inspect(fd.Body, func(n ast.Node) bool {
			fl, ok := n.(*ast.FuncLit)
			if !ok {
				return true
			}
			var all []string
			c03FlatStmts(fset, fl.Body.List, 0, &all)
			for _, s := range all {
				if strings.Contains(s, "target") {
					steps = append(steps, s)
				}
			}
			return false
		})
	}
	l.def("fs2vaultTargetSteps", "List String", c03StrList(steps), steps)
	// the commands registered by ServerCmd
	var cmds []string
	if fd := c03FuncDecl(f, "ServerCmd"); fd != nil {
		ast.Inspect(fd.Body, func(n ast.Node) bool {
			if c, ok := n.(*ast.CallExpr); ok && exprString(c.Fun) == "cmd.AddCommand" {
				for _, a := range c.Args {
					cmds = append(cmds, exprString(a))
				}
			}
			return true
		})
	}
	l.def("cryptoServerCmds", "List String", c03StrList(cmds), cmds)
}
