package main

import (
	"fmt"
	"go/ast"
	"go/token"
	"os"
	"path/filepath"
	"sort"
	"strconv"
	"strings"
)

func init() { extractors["C05"] = extractC05 }

// c05Pkg is a parsed package directory (non-test files)
type c05Pkg struct {
	files  []*ast.File
	consts map[string]ast.Expr // package-level const / var initialisers
	funcs  map[string]*ast.FuncDecl
}

func c05Load(rel string) *c05Pkg {
	p := &c05Pkg{consts: map[string]ast.Expr{}, funcs: map[string]*ast.FuncDecl{}}
	names, err := filepath.Glob(filepath.Join(repo, rel, "*.go"))
	must(err)
	for _, n := range names {
		if strings.HasSuffix(n, "_test.go") || strings.Contains(filepath.Base(n), "zz_verif") {
			continue
		}
		r, _ := filepath.Rel(repo, n)
		_, f := parseFile(r)
		p.files = append(p.files, f)
		for _, d := range f.Decls {
			switch x := d.(type) {
			case *ast.GenDecl:
				if x.Tok != token.CONST && x.Tok != token.VAR {
					continue
				}
				for _, s := range x.Specs {
					vs := s.(*ast.ValueSpec)
					for i, nm := range vs.Names {
						if i < len(vs.Values) {
							p.consts[nm.Name] = vs.Values[i]
						}
					}
				}
			case *ast.FuncDecl:
				// methods of Wrapper and plain functions; methods of other (generated) types are keyed Type.Name
				name := x.Name.Name
				if x.Recv != nil && len(x.Recv.List) == 1 {
					rt := strings.TrimPrefix(exprString(x.Recv.List[0].Type), "*")
					if rt != "Wrapper" {
						name = rt + "." + name
					}
				}
				p.funcs[name] = x
			}
		}
	}
	return p
}

// durSeconds evaluates a constant duration expression to whole seconds; ok=false when it cannot
func (p *c05Pkg) durSeconds(e ast.Expr) (int64, bool) {
	ns, ok := p.durNanos(e, 0)
	if !ok || ns%1e9 != 0 {
		return 0, false
	}
	return ns / 1e9, true
}

func (p *c05Pkg) durNanos(e ast.Expr, depth int) (int64, bool) {
	if depth > 8 {
		return 0, false
	}
	switch x := e.(type) {
	case *ast.BasicLit:
		if x.Kind == token.INT {
			v, err := strconv.ParseInt(x.Value, 0, 64)
			return v, err == nil
		}
	case *ast.ParenExpr:
		return p.durNanos(x.X, depth+1)
	case *ast.SelectorExpr:
		switch exprString(x) {
		case "time.Nanosecond":
			return 1, true
		case "time.Millisecond":
			return 1e6, true
		case "time.Second":
			return 1e9, true
		case "time.Minute":
			return 60e9, true
		case "time.Hour":
			return 3600e9, true
		}
	case *ast.Ident:
		if v, ok := p.consts[x.Name]; ok {
			return p.durNanos(v, depth+1)
		}
	case *ast.BinaryExpr:
		a, ok1 := p.durNanos(x.X, depth+1)
		b, ok2 := p.durNanos(x.Y, depth+1)
		if !ok1 || !ok2 {
			return 0, false
		}
		switch x.Op {
		case token.ADD:
			return a + b, true
		case token.SUB:
			return a - b, true
		case token.MUL:
			return a * b, true
		}
	}
	return 0, false
}

// strList evaluates a []string literal, an identifier bound to one, or string literals
func (p *c05Pkg) strList(args []ast.Expr) ([]string, bool) {
	var r []string
	for _, a := range args {
		switch x := a.(type) {
		case *ast.BasicLit:
			if x.Kind != token.STRING {
				return nil, false
			}
			s, err := strconv.Unquote(x.Value)
			if err != nil {
				return nil, false
			}
			r = append(r, s)
		case *ast.Ident:
			v, ok := p.consts[x.Name]
			if !ok {
				return nil, false
			}
			var sub []string
			switch vv := v.(type) {
			case *ast.CompositeLit:
				sub, ok = p.strList(vv.Elts)
			case *ast.CallExpr: // append(otherKey, "x", …)
				if id, isID := vv.Fun.(*ast.Ident); isID && id.Name == "append" {
					sub, ok = p.strList(vv.Args)
				} else {
					ok = false
				}
			case *ast.BasicLit:
				sub, ok = p.strList([]ast.Expr{vv})
			default:
				ok = false
			}
			if !ok {
				return nil, false
			}
			r = append(r, sub...)
		default:
			return nil, false
		}
	}
	return r, true
}

// c05StoreDef finds `return r.storageEngine.GetSessionDatabase().GetStore(ttl, keys...)` in a store accessor
func (p *c05Pkg) storeDef(fn string) (ttl int64, prefix []string, ok bool) {
	fd := p.funcs[fn]
	if fd == nil || fd.Body == nil {
		return 0, nil, false
	}
	ast.Inspect(fd.Body, func(n ast.Node) bool {
		c, isCall := n.(*ast.CallExpr)
		if !isCall || ok {
			return true
		}
		sel, isSel := c.Fun.(*ast.SelectorExpr)
		if !isSel || sel.Sel.Name != "GetStore" || len(c.Args) < 1 {
			return true
		}
		t, ok1 := p.durSeconds(c.Args[0])
		pre, ok2 := p.strList(c.Args[1:])
		if ok1 && ok2 {
			ttl, prefix, ok = t, pre, true
		}
		return true
	})
	return
}

// storeCalls lists, in source order, the calls `r.<accessor>().<Method>(…)` made in fn ("accessor.Method", ":defer" appended
// inside a defer statement)
func (p *c05Pkg) storeCalls(fn string) []string {
	fd := p.funcs[fn]
	if fd == nil || fd.Body == nil {
		return []string{fn + ":MISSING"}
	}
	var res []string
	inGo := 0
	var walk func(n ast.Node, deferred bool)
	walk = func(n ast.Node, deferred bool) {
		ast.Inspect(n, func(m ast.Node) bool {
			switch x := m.(type) {
			case *ast.DeferStmt:
				if m == n {
					return true
				}
				walk(x.Call, true)
				return false
			case *ast.GoStmt:
				// a store call made from a goroutine the function starts: not part of the request any more
				inGo++
				ast.Inspect(x.Call, func(k ast.Node) bool {
					if k != nil && k != ast.Node(x.Call) {
						walk(k, deferred)
						return false
					}
					return true
				})
				inGo--
				return false
			case *ast.CallExpr:
				if sel, ok := x.Fun.(*ast.SelectorExpr); ok {
					if inner, ok := sel.X.(*ast.CallExpr); ok {
						if isel, ok := inner.Fun.(*ast.SelectorExpr); ok && strings.HasSuffix(isel.Sel.Name, "Store") && len(inner.Args) == 0 {
							s := isel.Sel.Name + "." + sel.Sel.Name
							if deferred {
								s += ":defer"
							}
							if inGo > 0 {
								s += ":go"
							}
							res = append(res, s)
						}
					}
				}
			}
			return true
		})
	}
	walk(fd.Body, false)
	return res
}

// c05Expr renders an expression including call arguments (main.go's exprString drops them)
func c05Expr(e ast.Expr) string {
	if c, ok := e.(*ast.CallExpr); ok {
		var args []string
		for _, a := range c.Args {
			args = append(args, c05Expr(a))
		}
		return exprString(c.Fun) + "(" + strings.Join(args, ", ") + ")"
	}
	return exprString(e)
}

// storeCallKeys lists `accessor.Method(<key expression>)` for the calls r.<accessor>().<Method>(key, …) in fn, in source order
func (p *c05Pkg) storeCallKeys(fn string) []string {
	fd := p.funcs[fn]
	if fd == nil || fd.Body == nil {
		return []string{fn + ":MISSING"}
	}
	var res []string
	ast.Inspect(fd.Body, func(m ast.Node) bool {
		if x, ok := m.(*ast.CallExpr); ok {
			if sel, ok := x.Fun.(*ast.SelectorExpr); ok {
				if inner, ok := sel.X.(*ast.CallExpr); ok {
					if isel, ok := inner.Fun.(*ast.SelectorExpr); ok && strings.HasSuffix(isel.Sel.Name, "Store") && len(inner.Args) == 0 && len(x.Args) > 0 {
						res = append(res, isel.Sel.Name+"."+sel.Sel.Name+"("+c05Expr(x.Args[0])+")")
					}
				}
			}
		}
		return true
	})
	return res
}

// assignedFrom returns the right-hand side of the first assignment in fn whose first left-hand side is `name`
func (p *c05Pkg) assignedFrom(fn, name string) string {
	fd := p.funcs[fn]
	res := "NOT-FOUND"
	if fd == nil || fd.Body == nil {
		return res
	}
	found := false
	ast.Inspect(fd.Body, func(m ast.Node) bool {
		if as, ok := m.(*ast.AssignStmt); ok && !found && len(as.Lhs) > 0 && len(as.Rhs) > 0 && exprString(as.Lhs[0]) == name {
			res = c05Expr(as.Rhs[0])
			found = true
		}
		return true
	})
	return res
}

// callSites lists "Caller: call(args) [in range X]" for every call of method/function `name` in the package
func (p *c05Pkg) callSites(name string) []string {
	var res []string
	for caller, fd := range p.funcs {
		if fd.Body == nil {
			continue
		}
		var walk func(n ast.Node, loop string)
		walk = func(n ast.Node, loop string) {
			ast.Inspect(n, func(m ast.Node) bool {
				switch x := m.(type) {
				case *ast.RangeStmt:
					if m == n {
						return true
					}
					walk(x.Body, "range "+exprString(x.X))
					return false
				case *ast.CallExpr:
					fn := ""
					switch f := x.Fun.(type) {
					case *ast.SelectorExpr:
						fn = f.Sel.Name
					case *ast.Ident:
						fn = f.Name
					}
					if fn == name {
						s := caller + ": " + c05Expr(x)
						if loop != "" {
							s += " [in " + loop + "]"
						}
						res = append(res, s)
					}
				}
				return true
			})
		}
		walk(fd.Body, "")
	}
	sort.Strings(res)
	return res
}

func extractC05() *lean {
	l := newLean("C05", "NutsModel.C05.OneTime")
	l.sb.WriteString("open Nuts.C05\n")

	// ---- storage/session.go: how GetAndDelete and PutIfAbsent are built (calls on the receiver + lock calls, in source order)
	_, sess := parseFile("storage/session.go")
	methodCalls := func(name string) (seq []string, raw bool) {
		fd := funcDecl(sess, name)
		if fd == nil || fd.Body == nil {
			return []string{"MISSING"}, false
		}
		ast.Inspect(fd.Body, func(n ast.Node) bool {
			c, ok := n.(*ast.CallExpr)
			if !ok {
				return true
			}
			sel, ok := c.Fun.(*ast.SelectorExpr)
			if !ok {
				return true
			}
			full := exprString(sel)
			switch sel.Sel.Name {
			case "Lock", "Unlock", "RLock", "RUnlock":
				seq = append(seq, sel.Sel.Name)
			case "Get", "Delete", "Set", "Put", "Exists", "GetAndDelete", "GetDel", "SetNX", "Add":
				if strings.HasPrefix(full, "s.") {
					seq = append(seq, sel.Sel.Name)
					if sel.Sel.Name == "Delete" && strings.Contains(full, "underlying") {
						raw = true
					}
				}
			}
			return true
		})
		return
	}
	seq, raw := methodCalls("GetAndDelete")
	shape := ""
	switch strings.Join(seq, ",") {
	case "Get,Delete":
		shape = ".twoCalls"
	case "Lock,Unlock,Get,Delete":
		shape = ".locked"
	case "GetDel":
		shape = ".singleCall"
	default:
		shape = ".unknown_" + strings.Join(seq, "_") // does not elaborate: the model has to be revisited
	}
	l.def("gadCalls", "List String", leanStrList(seq), seq)
	l.def("gadShape", "GadShape", shape, shape)
	l.def("gadRawDelete", "Bool", fmt.Sprint(raw), raw)
	pseq, _ := methodCalls("PutIfAbsent")
	pshape := ""
	switch strings.Join(pseq, ",") {
	case "Get,Put", "Exists,Put":
		pshape = ".getThenPut"
	case "Lock,Unlock,Get,Put", "Lock,Unlock,Exists,Put":
		pshape = ".locked"
	case "SetNX", "Add":
		pshape = ".putIfAbsent"
	default:
		pshape = ".unknown_" + strings.Join(pseq, "_")
	}
	l.def("pifCalls", "List String", leanStrList(pseq), pseq)
	l.def("pifShape", "MarkShape", pshape, pshape)

	// storage/engine.go: one session database per engine, built in Configure, handed out as is
	stor := c05Load("storage")
	ret := "NOT-FOUND"
	if fd := stor.funcs["engine.GetSessionDatabase"]; fd != nil && fd.Body != nil && len(fd.Body.List) == 1 {
		if r, ok := fd.Body.List[0].(*ast.ReturnStmt); ok && len(r.Results) == 1 {
			ret = c05Expr(r.Results[0])
		}
	}
	l.def("engineGetSessionDatabase", "String", fmt.Sprintf("%q", ret), ret)
	var ctor []string
	for _, c := range []string{"NewInMemorySessionDatabase", "NewRedisSessionDatabase", "NewMemcachedSessionDatabase"} {
		for _, site := range stor.callSites(c) {
			ctor = append(ctor, site[:strings.Index(site, ":")]+":"+c)
		}
	}
	sort.Strings(ctor)
	l.def("sessionDbConstructions", "List String", leanStrList(ctor), ctor)

	// Put's early returns (conditions under which it silently stores nothing), and the literal expression every back-end
	// builds a full key with
	var early0 []string
	if fd := funcDecl(sess, "Put"); fd != nil && fd.Body != nil {
		ast.Inspect(fd.Body, func(n ast.Node) bool {
			if is, ok := n.(*ast.IfStmt); ok && len(is.Body.List) == 1 {
				if r, ok := is.Body.List[0].(*ast.ReturnStmt); ok && len(r.Results) == 1 && exprString(r.Results[0]) == "nil" {
					early0 = append(early0, exprString(is.Cond))
				}
			}
			return true
		})
	} else {
		early0 = []string{"MISSING"}
	}
	l.def("putSilentSkips", "List String", leanStrList(early0), early0)
	for _, f := range []struct{ name, file string }{{"joinExprMem", "storage/session_inmemory.go"}, {"joinExprMemcached", "storage/session_memcached.go"}, {"joinExprRedis", "storage/session_redis.go"}} {
		_, af := parseFile(f.file)
		expr := "NOT-FOUND"
		if fd := funcDecl(af, "getFullKey"); fd != nil && fd.Body != nil && len(fd.Body.List) == 1 {
			if r, ok := fd.Body.List[0].(*ast.ReturnStmt); ok && len(r.Results) == 1 {
				expr = c05Expr(r.Results[0])
			}
		}
		l.def(f.name, "String", fmt.Sprintf("%q", expr), expr)
	}

	// in-memory and redis key construction: strings.Join(append(prefixes, key), sep)
	for _, f := range []struct{ name, file string }{{"memKeySep", "storage/session_inmemory.go"}, {"redisKeySep", "storage/session_redis.go"}} {
		_, af := parseFile(f.file)
		sep := "?"
		if fd := funcDecl(af, "getFullKey"); fd != nil {
			ast.Inspect(fd, func(n ast.Node) bool {
				if c, ok := n.(*ast.CallExpr); ok && exprString(c.Fun) == "strings.Join" && len(c.Args) == 2 {
					if b, ok := c.Args[1].(*ast.BasicLit); ok {
						sep, _ = strconv.Unquote(b.Value)
					}
				}
				return true
			})
		}
		l.def(f.name, "String", fmt.Sprintf("%q", sep), sep)
	}

	// ---- auth/api/iam: stores (ttl, prefix) and the store calls of each consumer
	iam := c05Load("auth/api/iam")
	vciEarly := c05Load("vcr/issuer")
	storEarly := c05Load("storage")
	for _, st := range []string{"oauthCodeStore", "authzRequestObjectStore", "oauthNonceStore", "userRedirectStore", "s2sNonceStore", "useNonceOnceStore"} {
		ttl, prefix, ok := iam.storeDef(st)
		if !ok {
			l.sb.WriteString(fmt.Sprintf("-- store accessor %s: GetStore(ttl, keys...) not found or not constant\n", st))
			l.facts["ttl_"+st] = "NOT-FOUND"
			continue
		}
		l.def("ttl_"+st, "Nat", fmt.Sprint(ttl), ttl)
		l.def("prefix_"+st, "List String", leanStrList(prefix), prefix)
	}
	for _, c := range []struct{ name, fn string }{
		{"callsCode", "handleAccessTokenRequest"}, {"callsReqObjGet", "RequestJWTByGet"}, {"callsReqObjPost", "RequestJWTByPost"},
		{"callsVpNonce", "validatePresentationNonce"}, {"callsRedirect", "handleUserLanding"},
		{"callsS2S", "validateS2SPresentationNonce"}, {"callsJti", "ValidateDPoPProof"}} {
		calls := iam.storeCalls(c.fn)
		l.def(c.name, "List String", leanStrList(calls), calls)
	}
	// under which key each consumer looks its secret up / registers it (the secret itself, nothing the requester can vary)
	for _, c := range []struct{ name, fn string }{
		{"keysCode", "handleAccessTokenRequest"}, {"keysReqObjGet", "RequestJWTByGet"}, {"keysReqObjPost", "RequestJWTByPost"},
		{"keysVpNonce", "validatePresentationNonce"}, {"keysRedirect", "handleUserLanding"},
		{"keysS2S", "validateS2SPresentationNonce"}, {"keysJti", "ValidateDPoPProof"}} {
		keys := iam.storeCallKeys(c.fn)
		l.def(c.name, "List String", leanStrList(keys), keys)
	}
	var arity []string
	for _, fn := range []string{"validateS2SPresentationNonce", "ValidateDPoPProof"} {
		if fd := iam.funcs[fn]; fd != nil && fd.Body != nil {
			ast.Inspect(fd.Body, func(m ast.Node) bool {
				if x, ok := m.(*ast.CallExpr); ok {
					if sel, ok := x.Fun.(*ast.SelectorExpr); ok && sel.Sel.Name == "PutIfAbsent" {
						arity = append(arity, fmt.Sprintf("%s:%d", fn, len(x.Args)))
					}
				}
				return true
			})
		}
	}
	l.def("pifCallArity", "List String", leanStrList(arity), arity)
	src := iam.assignedFrom("validateS2SPresentationNonce", "nonce")
	l.def("s2sNonceSource", "String", fmt.Sprintf("%q", src), src)

	// where the consumers are called from, and with what
	for _, c := range []struct{ name, fn string }{
		{"sitesCode", "handleAccessTokenRequest"}, {"sitesS2S", "handleS2SAccessTokenRequest"},
		{"sitesVpNonce", "validatePresentationNonce"}, {"sitesS2SNonce", "validateS2SPresentationNonce"},
		{"sitesExtractNonce", "extractNonce"}, {"sitesExtractChallenge", "extractChallenge"}} {
		sites := iam.callSites(c.fn)
		l.def(c.name, "List String", leanStrList(sites), sites)
	}

	// the loop that checks the nonce of every presentation of an s2s envelope: its statements that leave it early
	var early []string
	if fd := iam.funcs["handleS2SAccessTokenRequest"]; fd != nil && fd.Body != nil {
		ast.Inspect(fd.Body, func(n ast.Node) bool {
			rs, ok := n.(*ast.RangeStmt)
			if !ok {
				return true
			}
			has := false
			ast.Inspect(rs.Body, func(m ast.Node) bool {
				if c, ok := m.(*ast.CallExpr); ok {
					if sel, ok := c.Fun.(*ast.SelectorExpr); ok && sel.Sel.Name == "validateS2SPresentationNonce" {
						has = true
					}
				}
				return true
			})
			if has {
				ast.Inspect(rs.Body, func(m ast.Node) bool {
					switch x := m.(type) {
					case *ast.BranchStmt:
						early = append(early, x.Tok.String())
					case *ast.ReturnStmt:
						var rr []string
						for _, e := range x.Results {
							rr = append(rr, c05Expr(e))
						}
						early = append(early, "return "+strings.Join(rr, ", "))
					}
					return true
				})
			}
			return true
		})
	}
	l.def("s2sNonceLoopExits", "List String", leanStrList(early), early)

	// goroutines started by, and package-level synchronisation / coalescing state of, the packages that handle one-time secrets:
	// a request's store calls are made by the request itself, and no request waits for or shares the result of another one
	var gos, globals []string
	for _, pk := range []struct {
		name string
		pkg  *c05Pkg
	}{{"iam", iam}, {"issuer", vciEarly}, {"storage", storEarly}} {
		for fname, fd := range pk.pkg.funcs {
			if fd.Body == nil {
				continue
			}
			ast.Inspect(fd.Body, func(n ast.Node) bool {
				if _, ok := n.(*ast.GoStmt); ok {
					gos = append(gos, pk.name+"."+fname)
				}
				return true
			})
		}
		for _, f := range pk.pkg.files {
			for _, d := range f.Decls {
				gd, ok := d.(*ast.GenDecl)
				if !ok || gd.Tok != token.VAR {
					continue
				}
				for _, sp := range gd.Specs {
					vs := sp.(*ast.ValueSpec)
					desc := ""
					if vs.Type != nil {
						desc = exprString(vs.Type)
					}
					for _, v := range vs.Values {
						desc += " " + c05Expr(v)
					}
					for _, frag := range []string{"sync.", "singleflight.", "atomic.", "lru.", "Cache", "chan "} {
						if strings.Contains(desc, frag) {
							for _, nm := range vs.Names {
								globals = append(globals, pk.name+"."+nm.Name+":"+strings.TrimSpace(desc))
							}
							break
						}
					}
				}
			}
		}
	}
	sort.Strings(gos)
	sort.Strings(globals)
	l.def("goStatements", "List String", leanStrList(gos), gos)
	l.def("syncGlobals", "List String", leanStrList(globals), globals)

	// every function of the package that touches one of the one-time stores (a new consumer needs a model)
	users := map[string]bool{}
	for name := range iam.funcs {
		for _, c := range iam.storeCalls(name) {
			for _, st := range []string{"oauthCodeStore", "authzRequestObjectStore", "oauthNonceStore", "userRedirectStore", "s2sNonceStore", "useNonceOnceStore"} {
				if strings.HasPrefix(c, st+".") {
					users[name+":"+strings.TrimSuffix(c, ":defer")] = true
				}
			}
		}
	}
	l.def("storeUsers", "List String", leanStrList(sortedKeys(users)), sortedKeys(users))

	// ---- the s2s presentation acceptance window
	for _, c := range []string{"s2sMaxPresentationValidity", "s2sMaxClockSkew", "oAuthFlowTimeout", "accessTokenValidity", "userRedirectTimeout"} {
		if v, ok := iam.consts[c]; ok {
			if s, ok := iam.durSeconds(v); ok {
				l.def(c, "Nat", fmt.Sprint(s), s)
				continue
			}
		}
		l.sb.WriteString("-- constant " + c + " not found\n")
	}
	// ---- vcr/issuer: the OpenID4VCI pre-authorized code
	vci := c05Load("vcr/issuer")
	identCalls := func(fd *ast.FuncDecl) []string {
		var res []string
		if fd == nil || fd.Body == nil {
			return []string{"MISSING"}
		}
		ast.Inspect(fd.Body, func(n ast.Node) bool {
			if c, ok := n.(*ast.CallExpr); ok {
				if sel, ok := c.Fun.(*ast.SelectorExpr); ok {
					full := exprString(sel.X)
					if strings.HasSuffix(full, "tore") { // i.store, refStore, flowStore
						res = append(res, full[strings.LastIndex(full, ".")+1:]+"."+sel.Sel.Name)
					}
				}
			}
			return true
		})
		return res
	}
	tokenCalls := identCalls(vci.funcs["openidHandler.HandleAccessTokenRequest"])
	l.def("vciTokenCalls", "List String", leanStrList(tokenCalls), tokenCalls)
	fad := vci.funcs["openidMemoryStore.FindAndDeleteReference"]
	fadCalls := identCalls(fad)
	l.def("vciFindAndDeleteCalls", "List String", leanStrList(fadCalls), fadCalls)
	if fad != nil {
		// refStore := o.sessionDatabase.GetStore(TokenTTL, "openid4vci", refType)
		done := false
		ast.Inspect(fad.Body, func(n ast.Node) bool {
			as, ok := n.(*ast.AssignStmt)
			if !ok || done || len(as.Lhs) != 1 || len(as.Rhs) != 1 || exprString(as.Lhs[0]) != "refStore" {
				return true
			}
			c, ok := as.Rhs[0].(*ast.CallExpr)
			if !ok || len(c.Args) < 2 {
				return true
			}
			if t, ok := vci.durSeconds(c.Args[0]); ok {
				l.def("vciTokenTTL", "Nat", fmt.Sprint(t), t)
			}
			var pre []string
			for _, a := range c.Args[1:] {
				if b, ok := a.(*ast.BasicLit); ok {
					v, _ := strconv.Unquote(b.Value)
					pre = append(pre, v)
				} else {
					pre = append(pre, "<"+exprString(a)+">")
				}
			}
			l.def("vciRefPrefix", "List String", leanStrList(pre), pre)
			done = true
			return true
		})
	}
	if v, ok := vci.consts["preAuthCodeRefType"]; ok {
		if b, ok := v.(*ast.BasicLit); ok {
			rt, _ := strconv.Unquote(b.Value)
			l.def("vciPreAuthRefType", "String", fmt.Sprintf("%q", rt), rt)
		}
	}

	// ---- the key space of the session database: EVERY store of the packages that use it (prefix segments), and the
	// character paths "seg<sep>seg<sep>" the full keys of a store start with (getFullKey joins prefixes and key with the
	// separator and does not escape the key)
	var allPrefixes [][]string
	seenPrefix := map[string]bool{}
	var refTypes []string
	for name, v := range vci.consts {
		if strings.HasSuffix(name, "RefType") {
			if b, ok := v.(*ast.BasicLit); ok {
				rt, _ := strconv.Unquote(b.Value)
				refTypes = append(refTypes, rt)
			}
		}
	}
	sort.Strings(refTypes)
	l.def("vciRefTypes", "List String", leanStrList(refTypes), refTypes)
	for _, pkg := range []*c05Pkg{iam, vci} {
		for _, f := range pkg.files {
			ast.Inspect(f, func(n ast.Node) bool {
				c, ok := n.(*ast.CallExpr)
				if !ok {
					return true
				}
				sel, ok := c.Fun.(*ast.SelectorExpr)
				if !ok || sel.Sel.Name != "GetStore" || len(c.Args) < 2 {
					return true
				}
				var variants [][]string
				pre, ok := pkg.strList(c.Args[1:])
				if ok {
					variants = [][]string{pre}
				} else {
					// a non-constant segment: the reference type of the OpenID4VCI stores ranges over the *RefType constants
					for _, rt := range refTypes {
						var v []string
						good := true
						for _, a := range c.Args[1:] {
							if one, ok := pkg.strList([]ast.Expr{a}); ok {
								v = append(v, one...)
							} else if exprString(a) == "refType" {
								v = append(v, rt)
							} else {
								good = false
							}
						}
						if good {
							variants = append(variants, v)
						}
					}
					if len(variants) == 0 {
						variants = [][]string{{"UNRESOLVED:" + c05Expr(c)}}
					}
				}
				for _, v := range variants {
					k := strings.Join(v, "\x00")
					if !seenPrefix[k] {
						seenPrefix[k] = true
						allPrefixes = append(allPrefixes, v)
					}
				}
				return true
			})
		}
	}
	sort.Slice(allPrefixes, func(i, j int) bool { return strings.Join(allPrefixes[i], "/") < strings.Join(allPrefixes[j], "/") })
	var pl []string
	for _, v := range allPrefixes {
		pl = append(pl, leanStrList(v))
	}
	l.def("allStorePrefixes", "List (List String)", "["+strings.Join(pl, ", ")+"]", allPrefixes)
	// the same, every segment as a list of characters (what the Lean key-space theorems compute with)
	var segLists []string
	for _, v := range allPrefixes {
		var segs []string
		for _, seg := range v {
			var cs []string
			for _, r := range seg {
				cs = append(cs, fmt.Sprintf("Char.ofNat %d", r))
			}
			segs = append(segs, "["+strings.Join(cs, ", ")+"]")
		}
		segLists = append(segLists, "["+strings.Join(segs, ", ")+"]")
	}
	l.def("allStorePrefixChars", "List (List (List Char))", "["+strings.Join(segLists, ",\n  ")+"]", "allStorePrefixes, characters")
	sepCode := func(s string) string {
		if len(s) == 1 {
			return fmt.Sprintf("Char.ofNat %d", s[0])
		}
		return "Char.ofNat 0" // no single-character separator found: the fact theorems pin the expected one
	}
	chars := func(sep string) string {
		var paths []string
		for _, v := range allPrefixes {
			var cs []string
			for _, r := range strings.Join(v, sep) + sep {
				cs = append(cs, fmt.Sprintf("Char.ofNat %d", r))
			}
			paths = append(paths, "["+strings.Join(cs, ", ")+"]")
		}
		return "[" + strings.Join(paths, ",\n  ") + "]"
	}
	memSep, _ := l.facts["memKeySep"].(string)
	redisSep, _ := l.facts["redisKeySep"].(string)
	l.def("memKeySepChar", "Char", sepCode(memSep), memSep)
	l.def("redisKeySepChar", "Char", sepCode(redisSep), redisSep)
	l.def("storePathsMem", "List (List Char)", chars(memSep), "chars of strings.Join(prefix, memKeySep)+memKeySep per store")
	l.def("storePathsRedis", "List (List Char)", chars(redisSep), "chars of strings.Join(prefix, redisKeySep)+redisKeySep per store")

	ver := c05Load("vcr/verifier")
	if v, ok := ver.consts["maxSkew"]; ok {
		if s, ok := ver.durSeconds(v); ok {
			l.def("verifierMaxSkew", "Nat", fmt.Sprint(s), s)
		}
	}
	_ = os.Stderr
	extractC05Forms(l)
	extractC05Vci(l)
	return l
}
