package main

import (
	"fmt"
	"go/ast"
	"go/token"
	"strconv"
	"strings"
)

func init() { extractors["C11"] = extractC11 }

// c11Consts evaluates the integer constant declarations of the given files (time.Duration in seconds).
// An expression it cannot evaluate yields -1 printed as a Lean term that does not elaborate.
type c11Consts struct {
	exprs map[string]ast.Expr
	bad   map[string]bool
}

func (c *c11Consts) add(f *ast.File) {
	for _, d := range f.Decls {
		gd, ok := d.(*ast.GenDecl)
		if !ok || gd.Tok != token.CONST {
			continue
		}
		for _, s := range gd.Specs {
			vs := s.(*ast.ValueSpec)
			for i, n := range vs.Names {
				if i < len(vs.Values) {
					c.exprs[n.Name] = vs.Values[i]
				}
			}
		}
	}
}

// eval returns the value as a rational num/den in seconds or plain units
func (c *c11Consts) eval(e ast.Expr) (int64, bool) {
	switch x := e.(type) {
	case *ast.BasicLit:
		if x.Kind == token.INT {
			v, err := strconv.ParseInt(x.Value, 0, 64)
			return v, err == nil
		}
	case *ast.ParenExpr:
		return c.eval(x.X)
	case *ast.Ident:
		if d, ok := c.exprs[x.Name]; ok {
			return c.eval(d)
		}
	case *ast.SelectorExpr:
		switch exprString(x) {
		case "time.Second":
			return 1, true
		case "time.Minute":
			return 60, true
		case "time.Hour":
			return 3600, true
		}
	case *ast.BinaryExpr:
		a, ok1 := c.eval(x.X)
		b, ok2 := c.eval(x.Y)
		if !ok1 || !ok2 {
			return 0, false
		}
		switch x.Op {
		case token.MUL:
			return a * b, true
		case token.ADD:
			return a + b, true
		case token.SUB:
			return a - b, true
		case token.QUO:
			if b != 0 && a%b == 0 {
				return a / b, true
			}
		}
	}
	return 0, false
}

func (c *c11Consts) nat(l *lean, name string) {
	e, ok := c.exprs[name]
	if ok {
		if v, ok := c.eval(e); ok && v >= 0 {
			l.def(name, "Nat", fmt.Sprint(v), v)
			return
		}
	}
	l.def(name, "Nat", ".unknown_constant_"+name, nil) // does not elaborate
}

// c11Conds lists, in source order, the conditions of all if statements and the callee names of all calls of fn
func c11Conds(fn *ast.FuncDecl) (conds []string, calls []string) {
	if fn == nil {
		return []string{"MISSING"}, []string{"MISSING"}
	}
	ast.Inspect(fn, func(n ast.Node) bool {
		switch x := n.(type) {
		case *ast.IfStmt:
			conds = append(conds, c11Call(x.Cond))
		case *ast.CallExpr:
			calls = append(calls, exprString(x.Fun))
		}
		return true
	})
	return
}

func c11Filter(l []string, keep ...string) []string {
	var out []string
	for _, s := range l {
		for _, k := range keep {
			if strings.Contains(s, k) {
				out = append(out, s)
				break
			}
		}
	}
	return out
}

func c11Method(f *ast.File, recv, name string) *ast.FuncDecl {
	for _, d := range f.Decls {
		fd, ok := d.(*ast.FuncDecl)
		if !ok || fd.Name.Name != name {
			continue
		}
		if recv == "" {
			if fd.Recv == nil {
				return fd
			}
			continue
		}
		if fd.Recv != nil && len(fd.Recv.List) == 1 && strings.TrimPrefix(exprString(fd.Recv.List[0].Type), "*") == recv {
			return fd
		}
	}
	return nil
}

func extractC11() *lean {
	l := newLean("C11")
	_, bitF := parseFile("vcr/revocation/bitstring.go")
	_, issF := parseFile("vcr/revocation/statuslist2021_issuer.go")
	_, verF := parseFile("vcr/revocation/statuslist2021_verifier.go")
	_, vvF := parseFile("vcr/verifier/verifier.go")
	_, revF := parseFile("vcr/credential/revocation.go")
	_, ambF := parseFile("vcr/ambassador.go")

	c := &c11Consts{exprs: map[string]ast.Expr{}}
	c.add(bitF)
	c.add(issF)
	c.add(verF)
	for _, n := range []string{"defaultBitstringLengthInBytes", "maxBitstringIndex", "statusListValidity", "minTimeUntilExpired", "maxAgeExternal"} {
		c.nat(l, n)
	}

	// bitstring.go: the statements of bit / setBit / isSet, as text
	stmts := func(fn *ast.FuncDecl) []string {
		if fn == nil {
			return []string{"MISSING"}
		}
		var out []string
		ast.Inspect(fn.Body, func(n ast.Node) bool {
			switch x := n.(type) {
			case *ast.AssignStmt:
				var lhs, rhs []string
				for _, e := range x.Lhs {
					lhs = append(lhs, c11Call(e))
				}
				for _, e := range x.Rhs {
					rhs = append(rhs, c11Call(e))
				}
				out = append(out, strings.Join(lhs, ",")+" "+x.Tok.String()+" "+strings.Join(rhs, ","))
			case *ast.IfStmt:
				out = append(out, "if "+c11Call(x.Cond))
			case *ast.ReturnStmt:
				var r []string
				for _, e := range x.Results {
					r = append(r, c11Call(e))
				}
				out = append(out, "return "+strings.Join(r, ","))
			}
			return true
		})
		return out
	}
	for _, fn := range []string{"bit", "setBit"} {
		s := stmts(c11Method(bitF, "bitstring", fn))
		l.def("bitstring_"+fn, "List String", leanStrList(s), s)
	}
	s := stmts(c11Method(bitF, "", "isSet"))
	l.def("bitstring_isSet", "List String", leanStrList(s), s)
	s = stmts(c11Method(bitF, "", "newBitstring"))
	l.def("bitstring_new", "List String", leanStrList(s), s)

	s = stmts(c11Method(issF, "StatusList2021", "statusListURL"))
	l.def("statusListURL", "List String", leanStrList(s), s)

	// Entry: conditions, the first-time literal, retry on duplicate key, row lock
	entry := c11Method(issF, "StatusList2021", "Entry")
	conds, calls := c11Conds(entry)
	ec := c11Filter(conds, "LastIssuedIndex", "ErrDuplicatedKey", "ErrRecordNotFound", "purpose")
	l.def("entryConds", "List String", leanStrList(ec), ec)
	var lits, assigns []string
	hasLock, hasContinue, hasFor := false, false, false
	if entry != nil {
		ast.Inspect(entry, func(n ast.Node) bool {
			switch x := n.(type) {
			case *ast.KeyValueExpr:
				k := exprString(x.Key)
				if k == "LastIssuedIndex" || k == "Page" {
					lits = append(lits, k+":"+exprString(x.Value))
				}
				if k == "Strength" && exprString(x.Value) == "clause.LockingStrengthUpdate" {
					hasLock = true
				}
			case *ast.AssignStmt:
				if len(x.Lhs) == 1 && strings.HasPrefix(exprString(x.Lhs[0]), "credentialIssuer.") && len(x.Rhs) == 1 {
					assigns = append(assigns, exprString(x.Lhs[0])+" "+x.Tok.String()+" "+c11Call(x.Rhs[0]))
				}
			case *ast.IncDecStmt:
				assigns = append(assigns, exprString(x.X)+x.Tok.String())
			case *ast.BranchStmt:
				if x.Tok == token.CONTINUE {
					hasContinue = true
				}
			case *ast.ForStmt:
				if x.Cond == nil && x.Init == nil && x.Post == nil {
					hasFor = true
				}
			}
			return true
		})
	}
	l.def("entryFirstTimeLiteral", "List String", leanStrList(lits), lits)
	l.def("entryAssignments", "List String", leanStrList(assigns), assigns)
	l.def("entrySelectsForUpdate", "Bool", fmt.Sprint(hasLock), hasLock)
	l.def("entryRetriesInLoop", "Bool", fmt.Sprint(hasContinue && hasFor), hasContinue && hasFor)
	ecalls := c11Filter(calls, "Create", "UpdateColumn", "updateCredential", "Transaction", "ResolveKey")
	l.def("entryCalls", "List String", leanStrList(ecalls), ecalls)

	// Revoke
	rconds, rcalls := c11Conds(c11Method(issF, "StatusList2021", "Revoke"))
	rc := c11Filter(rconds, "statusListIndex", "StatusPurpose", "isManaged", "ErrDuplicatedKey")
	l.def("revokeConds", "List String", leanStrList(rc), rc)
	rcl := c11Filter(rcalls, "Create", "updateCredential", "Transaction", "lockCredentialRecord", "Delete", "Update", "Preload")
	l.def("revokeCalls", "List String", leanStrList(rcl), rcl)

	// Credential
	cconds, ccalls := c11Conds(c11Method(issF, "StatusList2021", "Credential"))
	cc := c11Filter(cconds, "isManaged", "minTimeUntilExpired")
	l.def("credentialConds", "List String", leanStrList(cc), cc)
	ccl := c11Filter(ccalls, "Create", "updateCredential", "Transaction", "lockCredentialRecord", "loadCredential", "Preload", "isManaged")
	l.def("credentialCalls", "List String", leanStrList(ccl), ccl)

	// buildAndSignVC: exp := iss.Add(statusListValidity)
	var exps []string
	if fd := c11Method(issF, "StatusList2021", "buildAndSignVC"); fd != nil {
		ast.Inspect(fd, func(n ast.Node) bool {
			if as, ok := n.(*ast.AssignStmt); ok && len(as.Lhs) == 1 && len(as.Rhs) == 1 {
				if nm := exprString(as.Lhs[0]); nm == "iss" || nm == "exp" {
					exps = append(exps, nm+" := "+c11Call(as.Rhs[0]))
				}
			}
			return true
		})
	}
	l.def("signValidity", "List String", leanStrList(exps), exps)

	// primary keys of revocationRecord (struct tags)
	var pks []string
	for _, d := range issF.Decls {
		gd, ok := d.(*ast.GenDecl)
		if !ok || gd.Tok != token.TYPE {
			continue
		}
		for _, sp := range gd.Specs {
			ts := sp.(*ast.TypeSpec)
			st, ok := ts.Type.(*ast.StructType)
			if !ok {
				continue
			}
			for _, f := range st.Fields.List {
				if f.Tag != nil && strings.Contains(f.Tag.Value, "primaryKey") {
					for _, n := range f.Names {
						pks = append(pks, ts.Name.Name+"."+n.Name)
					}
				}
			}
		}
	}
	l.def("primaryKeys", "List String", leanStrList(pks), pks)

	// verifier side of the status list
	vconds, _ := c11Conds(c11Method(verF, "StatusList2021", "Verify"))
	vc := c11Filter(vconds, "Type", "StatusPurpose", "revoked", "CredentialStatus")
	l.def("statusVerifyConds", "List String", leanStrList(vc), vc)
	// operator tree of statusList's refresh condition (prefix form; parentheses of the source are the tree itself)
	refreshTree := "MISSING"
	if fd := c11Method(verF, "StatusList2021", "statusList"); fd != nil {
		ast.Inspect(fd, func(n ast.Node) bool {
			if is, ok := n.(*ast.IfStmt); ok && strings.Contains(c11Call(is.Cond), "maxAgeExternal") {
				refreshTree = c11Tree(is.Cond)
			}
			return true
		})
	}
	l.def("statusListRefreshTree", "String", fmt.Sprintf("%q", refreshTree), refreshTree)
	sconds, _ := c11Conds(c11Method(verF, "StatusList2021", "statusList"))
	l.def("statusListConds", "List String", leanStrList(sconds), sconds)
	uconds, ucalls := c11Conds(c11Method(verF, "StatusList2021", "update"))
	uc := c11Filter(uconds, "credSubject.ID")
	l.def("updateConds", "List String", leanStrList(uc), uc)
	ucl := c11Filter(ucalls, "cs.download", "cs.verify", "Create")
	l.def("updateCalls", "List String", leanStrList(ucl), ucl)
	_, vcalls := c11Conds(c11Method(verF, "StatusList2021", "verify"))
	vcl := c11Filter(vcalls, "cs.validate", "expand", "VerifySignature")
	l.def("verifyListCalls", "List String", leanStrList(vcl), vcl)
	valconds, _ := c11Conds(c11Method(verF, "StatusList2021", "validate"))
	l.def("validateConds", "List String", leanStrList(valconds), valconds)

	// vcr/verifier: RegisterRevocation and Verify
	rrconds, rrcalls := c11Conds(c11Method(vvF, "verifier", "RegisterRevocation"))
	rrc := c11Filter(rrconds, "subjectIssuer", "vmIssuer", "ValidateRevocation")
	l.def("registerConds", "List String", leanStrList(rrc), rrc)
	rrcl := c11Filter(rrcalls, "ValidateRevocation", "ResolveKeyByID", "ldProof.Verify", "StoreRevocation", "strings.Split")
	l.def("registerCalls", "List String", leanStrList(rrcl), rrcl)
	vvconds, vvcalls := c11Conds(c11Method(vvF, "verifier", "Verify"))
	vvc := c11Filter(vvconds, "revoked", "ErrRevoked", "credentialToVerify.ID")
	l.def("verifyConds", "List String", leanStrList(vvc), vvc)
	vvcl := c11Filter(vvcalls, "IsRevoked", "credentialStatus.Verify", "IsTrusted", "VerifySignature")
	l.def("verifyCalls", "List String", leanStrList(vvcl), vvcl)
	irconds, ircalls := c11Conds(c11Method(vvF, "verifier", "IsRevoked"))
	l.def("isRevokedConds", "List String", leanStrList(irconds), irconds)
	ircl := c11Filter(ircalls, "GetRevocations")
	l.def("isRevokedCalls", "List String", leanStrList(ircl), ircl)

	vrconds, _ := c11Conds(c11Method(revF, "", "ValidateRevocation"))
	l.def("validateRevocationConds", "List String", leanStrList(vrconds), vrconds)

	// wiring and sibling sites (coverage audit): issuer.Revoke routing, revokeStatusList loop, buildRevocation, the constructors
	// that inject Sign / ResolveKey / VerifySignature, the ambassador's subscriptions, the revocation store's query
	_, iF := parseFile("vcr/issuer/issuer.go")
	_, lsF := parseFile("vcr/verifier/leia_store.go")
	full := func(fn *ast.FuncDecl) []string {
		if fn == nil {
			return []string{"MISSING"}
		}
		var out []string
		ast.Inspect(fn.Body, func(n ast.Node) bool {
			switch x := n.(type) {
			case *ast.AssignStmt:
				var lhs, rhs []string
				for _, e := range x.Lhs {
					lhs = append(lhs, c11Call(e))
				}
				for _, e := range x.Rhs {
					rhs = append(rhs, c11Call(e))
				}
				out = append(out, strings.Join(lhs, ",")+" "+x.Tok.String()+" "+strings.Join(rhs, ","))
			case *ast.IfStmt:
				out = append(out, "if "+c11Call(x.Cond))
			case *ast.BranchStmt:
				out = append(out, x.Tok.String())
			case *ast.RangeStmt:
				out = append(out, "range "+c11Call(x.X))
			case *ast.ReturnStmt:
				var r []string
				for _, e := range x.Results {
					r = append(r, c11Call(e))
				}
				out = append(out, "return "+strings.Join(r, ","))
			}
			return true
		})
		return out
	}
	for _, nf := range []struct {
		name string
		fn   *ast.FuncDecl
	}{
		{"revokeStmts", c11Method(issF, "StatusList2021", "Revoke")},
		{"credentialStmts", c11Method(issF, "StatusList2021", "Credential")},
		{"updateCredentialStmts", c11Method(issF, "StatusList2021", "updateCredential")},
		{"updateStmts", c11Method(verF, "StatusList2021", "update")},
		{"statusVerifyStmts", c11Method(verF, "StatusList2021", "Verify")},
		{"verifierVerifyStmts", c11Method(vvF, "verifier", "Verify")},
		{"issuerRevoke", c11Method(iF, "issuer", "Revoke")},
		{"issuerRevokeStatusList", c11Method(iF, "issuer", "revokeStatusList")},
		{"issuerRevokeDIDNuts", c11Method(iF, "issuer", "revokeDIDNuts")},
		{"ambassadorConfigure", c11Method(ambF, "ambassador", "Configure")},
		{"leiaGetRevocations", c11Method(lsF, "leiaVerifierStore", "GetRevocations")},
		{"verifierIsRevoked", c11Method(vvF, "verifier", "IsRevoked")},
	} {
		v := full(nf.fn)
		l.def(nf.name, "List String", leanStrList(v), v)
	}
	br := c11Filter(full(c11Method(iF, "issuer", "buildRevocation")), "issuer", "BuildRevocation", "Sign(")
	l.def("issuerBuildRevocation", "List String", leanStrList(br), br)
	iw := c11Filter(full(c11Method(iF, "", "NewIssuer")), "statusList.")
	l.def("issuerWiring", "List String", leanStrList(iw), iw)
	vw := c11Filter(full(c11Method(vvF, "", "NewVerifier")), "credentialStatus.")
	l.def("verifierWiring", "List String", leanStrList(vw), vw)
	bs := c11Filter(full(c11Method(iF, "issuer", "buildAndSignVC")), "statusList.Entry", "CredentialStatus", "WithStatusListRevocation", "credentialID :=")
	l.def("issuerStatusEntry", "List String", leanStrList(bs), bs)

	heconds, _ := c11Conds(c11Method(ambF, "ambassador", "handleError"))
	l.def("ambassadorHandleErrorConds", "List String", leanStrList(heconds), heconds)
	var heswitch []string
	if fd := c11Method(ambF, "ambassador", "handleError"); fd != nil {
		ast.Inspect(fd, func(n ast.Node) bool {
			if sw, ok := n.(*ast.SwitchStmt); ok {
				heswitch = append(heswitch, "switch "+c11Call(sw.Tag))
			}
			return true
		})
	}
	l.def("ambassadorHandleErrorSwitches", "List String", leanStrList(heswitch), heswitch)
	_, hrcalls := c11Conds(c11Method(ambF, "ambassador", "handleNetworkRevocations"))
	hrc := c11Filter(hrcalls, "jsonLDRevocationCallback", "handleError")
	l.def("ambassadorHandleRevocationCalls", "List String", leanStrList(hrc), hrc)
	_, acalls := c11Conds(c11Method(ambF, "ambassador", "jsonLDRevocationCallback"))
	acl := c11Filter(acalls, "RegisterRevocation")
	l.def("ambassadorRevocationCalls", "List String", leanStrList(acl), acl)
	extractC11Wire(l, issF, verF)
	return l
}

// c11Tree renders the boolean operator tree of an expression in prefix form: (|| (&& a b) c)
func c11Tree(e ast.Expr) string {
	switch x := e.(type) {
	case *ast.ParenExpr:
		return c11Tree(x.X)
	case *ast.BinaryExpr:
		if x.Op == token.LOR || x.Op == token.LAND {
			return "(" + x.Op.String() + " " + c11Tree(x.X) + " " + c11Tree(x.Y) + ")"
		}
	case *ast.UnaryExpr:
		if x.Op == token.NOT {
			return "(! " + c11Tree(x.X) + ")"
		}
	}
	return "[" + c11Call(e) + "]"
}

// c11Call renders an expression including call arguments (exprString drops them)
func c11Call(e ast.Expr) string {
	switch x := e.(type) {
	case *ast.CallExpr:
		var a []string
		for _, y := range x.Args {
			a = append(a, c11Call(y))
		}
		return c11Call(x.Fun) + "(" + strings.Join(a, ",") + ")"
	case *ast.SelectorExpr:
		return c11Call(x.X) + "." + x.Sel.Name
	case *ast.StarExpr:
		return "*" + c11Call(x.X)
	case *ast.IndexExpr:
		return c11Call(x.X) + "[" + c11Call(x.Index) + "]"
	case *ast.UnaryExpr:
		return x.Op.String() + c11Call(x.X)
	case *ast.BinaryExpr:
		return c11Call(x.X) + " " + x.Op.String() + " " + c11Call(x.Y)
	case *ast.ParenExpr:
		return "(" + c11Call(x.X) + ")"
	case *ast.CompositeLit:
		if len(x.Elts) > 6 {
			return c11Call(x.Type) + "{…}"
		}
		var el []string
		for _, y := range x.Elts {
			el = append(el, c11Call(y))
		}
		return c11Call(x.Type) + "{" + strings.Join(el, ",") + "}"
	case *ast.KeyValueExpr:
		return c11Call(x.Key) + ":" + c11Call(x.Value)
	case *ast.ArrayType:
		return "[]" + c11Call(x.Elt)
	}
	return exprString(e)
}
