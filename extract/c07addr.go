package main

// C07 deepening round 3: how the periodic Gossip message finds its connection (protocol.go `sendGossip`:
// `p.connectionList.Get(grpc.ByConnected(), grpc.ByPeer(transportPeer))`), the predicates of network/transport/grpc/predicate.go,
// the first-match loop of connection_list.go `get` and the peer key format of transport.Peer.Key — mirrored by
// NutsModel/C07/Addr.lean. Dumb: prints what the source says.

import (
	"go/ast"
	"sort"
	"strings"
)

// c07Flow lists conditions, ranges, labelled branches and returns of a body in source order
func c07Flow(n ast.Node) []string {
	if n == nil {
		return []string{"MISSING"}
	}
	var out []string
	ast.Inspect(n, func(m ast.Node) bool {
		switch x := m.(type) {
		case *ast.IfStmt:
			out = append(out, "if:"+c07Src(x.Cond))
		case *ast.RangeStmt:
			out = append(out, "range:"+c07Src(x.X))
		case *ast.BranchStmt:
			out = append(out, "branch:"+c07Src(x))
		case *ast.AssignStmt:
			out = append(out, "assign:"+c07Src(x))
		case *ast.ReturnStmt:
			var r []string
			for _, e := range x.Results {
				r = append(r, c07Src(e))
			}
			out = append(out, "return:"+strings.Join(r, ","))
		}
		return true
	})
	return out
}

func c07Addr(l *lean) {
	_, proto := parseFile("network/transport/v2/protocol.go")
	_, pred := parseFile("network/transport/grpc/predicate.go")
	_, clist := parseFile("network/transport/grpc/connection_list.go")
	_, types := parseFile("network/transport/types.go")

	// the query of sendGossip
	query := []string{}
	flow := []string{"MISSING"}
	if fd := c07Method(proto, "protocol", "sendGossip"); fd != nil {
		for _, c := range c07Calls(fd, "p.connectionList.Get") {
			if c07Src(c.Fun) == "p.connectionList.Get" {
				for _, a := range c.Args {
					query = append(query, c07Src(a))
				}
			}
		}
		flow = c07Flow(fd.Body)
	} else {
		query = append(query, "MISSING")
	}
	l.def("sendGossipQuery", "List String", leanStrList(query), query)
	l.def("sendGossipFlow", "List String", leanStrList(flow), flow)

	// predicate constructors and Match bodies
	ctors, matches := []string{}, []string{}
	for _, d := range pred.Decls {
		fd, ok := d.(*ast.FuncDecl)
		if !ok || fd.Body == nil {
			continue
		}
		if fd.Recv == nil && strings.HasPrefix(fd.Name.Name, "By") {
			ctors = append(ctors, fd.Name.Name+":"+strings.Join(c07Flow(fd.Body), ";"))
		}
		if fd.Recv != nil && fd.Name.Name == "Match" {
			t := fd.Recv.List[0].Type
			if s, ok := t.(*ast.StarExpr); ok {
				t = s.X
			}
			matches = append(matches, c07Src(t)+":"+strings.Join(c07Flow(fd.Body), ";"))
		}
	}
	sort.Strings(ctors)
	sort.Strings(matches)
	l.def("predicateCtors", "List String", leanStrList(ctors), ctors)
	l.def("predicateMatches", "List String", leanStrList(matches), matches)

	get := c07Flow(func() ast.Node {
		if fd := c07Method(clist, "connectionList", "get"); fd != nil {
			return fd.Body
		}
		return nil
	}())
	l.def("connListGetFlow", "List String", leanStrList(get), get)
	getW := c07Flow(func() ast.Node {
		if fd := c07Method(clist, "connectionList", "Get"); fd != nil {
			return fd.Body
		}
		return nil
	}())
	l.def("connListGetWrapper", "List String", leanStrList(getW), getW)

	key := c07Flow(func() ast.Node {
		if fd := c07Method(types, "Peer", "Key"); fd != nil {
			return fd.Body
		}
		return nil
	}())
	l.def("peerKeyFlow", "List String", leanStrList(key), key)
}
