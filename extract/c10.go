package main

import (
	"go/ast"
	"strings"
)

func init() { extractors["C10"] = extractC10 }

var c10FieldCtor = map[string]string{
	"Context": ".ctx", "Controller": ".controller", "VerificationMethod": ".vm", "Authentication": ".auth",
	"AssertionMethod": ".assertion", "CapabilityInvocation": ".capInv", "CapabilityDelegation": ".capDel",
	"KeyAgreement": ".keyAgr", "Service": ".service",
}

func c10Fields(names []string) string {
	var l []string
	for _, n := range names {
		if c, ok := c10FieldCtor[n]; ok {
			l = append(l, c)
		} else {
			l = append(l, ".unknown_"+n) // does not elaborate: a new field needs a model update
		}
	}
	return "[" + strings.Join(l, ", ") + "]"
}

func extractC10() *lean {
	l := newLean("C10", "NutsModel.C10.DidStore")
	l.sb.WriteString("open Nuts.C10\n")
	_, merge := parseFile("vdr/didnuts/didstore/merge.go")
	sorted := map[string]bool{}
	mapBuilt := map[string]bool{}
	for _, d := range merge.Decls {
		fd, ok := d.(*ast.FuncDecl)
		if !ok || !strings.HasPrefix(fd.Name.Name, "merge") {
			continue
		}
		maps := mapVars(fd)
		ast.Inspect(fd, func(n ast.Node) bool {
			switch x := n.(type) {
			case *ast.CallExpr:
				// sort.Slice(result.F, ...), sort.SliceStable(result.F, ...)
				if s := exprString(x.Fun); (s == "sort.Slice" || s == "sort.SliceStable") && len(x.Args) > 0 {
					if sel, ok := x.Args[0].(*ast.SelectorExpr); ok && exprString(sel.X) == "result" {
						sorted[sel.Sel.Name] = true
					}
				}
			case *ast.RangeStmt:
				// for ... := range <mapvar> { result.F = append(result.F, ...) }
				if id, ok := x.X.(*ast.Ident); ok && maps[id.Name] {
					ast.Inspect(x.Body, func(m ast.Node) bool {
						if as, ok := m.(*ast.AssignStmt); ok && len(as.Lhs) == 1 {
							if sel, ok := as.Lhs[0].(*ast.SelectorExpr); ok && exprString(sel.X) == "result" {
								mapBuilt[sel.Sel.Name] = true
							}
						}
						return true
					})
				}
			}
			return true
		})
	}
	l.def("mergeSortedFields", "List Field", c10Fields(sortedKeys(sorted)), sortedKeys(sorted))
	l.def("mergeMapBuiltFields", "List Field", c10Fields(sortedKeys(mapBuilt)), sortedKeys(mapBuilt))

	// writer.go: ranges over Go maps (iteration order is random) in the functions that derive state
	_, writer := parseFile("vdr/didnuts/didstore/writer.go")
	var ranges []string
	for _, fname := range []string{"applyFrom", "applyEvent", "applyDocument", "writeEventList"} {
		fd := funcDecl(writer, fname)
		if fd == nil {
			ranges = append(ranges, fname+":MISSING")
			continue
		}
		maps := mapVars(fd)
		ast.Inspect(fd, func(n ast.Node) bool {
			if r, ok := n.(*ast.RangeStmt); ok {
				if id, ok := r.X.(*ast.Ident); ok && maps[id.Name] {
					ranges = append(ranges, fname+":"+id.Name)
				}
			}
			return true
		})
	}
	l.def("writerMapRanges", "List String", leanStrList(ranges), ranges)

	// applyFrom: is the conflicted-shelf flag read outside `if base != nil`?
	uncond := false
	if fd := funcDecl(writer, "applyFrom"); fd != nil {
		var walk func(n ast.Node, guarded bool)
		walk = func(n ast.Node, guarded bool) {
			if n == nil {
				return
			}
			switch x := n.(type) {
			case *ast.IfStmt:
				g := guarded || strings.Contains(exprString(x.Cond), "base != nil")
				walk(x.Init, guarded)
				walk(x.Body, g)
				walk(x.Else, guarded)
				return
			case *ast.CallExpr:
				if exprString(x.Fun) == "conflictedWriter.Get" && !guarded {
					uncond = true
				}
			}
			ast.Inspect(n, func(m ast.Node) bool {
				if m == n || m == nil {
					return true
				}
				walk(m, guarded)
				return false
			})
		}
		walk(fd.Body, false)
	}
	l.def("conflictedFlagReadUnconditional", "Bool", map[bool]string{true: "true", false: "false"}[uncond], uncond)
	return l
}
