package main

import (
	"bytes"
	"crypto/sha256"
	"fmt"
	"go/ast"
	"go/printer"
	"go/token"
	"reflect"
	"sort"
	"strings"
)

func init() { extractors["C10"] = extractC10 }

var c10FieldCtor = map[string]string{
	"Context": ".ctx", "Controller": ".controller", "VerificationMethod": ".vm", "Authentication": ".auth",
	"AssertionMethod": ".assertion", "CapabilityInvocation": ".capInv", "CapabilityDelegation": ".capDel",
	"KeyAgreement": ".keyAgr", "Service": ".service",
}

func c10Fields(names []string) string {
	var l []string
	for _, n := range names {
		if c, ok := c10FieldCtor[n]; ok {
			l = append(l, c)
		} else {
			l = append(l, ".unknown_"+n) // does not elaborate: a new field needs a model update
		}
	}
	return "[" + strings.Join(l, ", ") + "]"
}

func extractC10() *lean {
	l := newLean("C10", "NutsModel.C10.DidStore")
	l.sb.WriteString("open Nuts.C10\n")
	_, merge := parseFile("vdr/didnuts/didstore/merge.go")
	sorted := map[string]bool{}
	mapBuilt := map[string]bool{}
	for _, d := range merge.Decls {
		fd, ok := d.(*ast.FuncDecl)
		if !ok || !strings.HasPrefix(fd.Name.Name, "merge") {
			continue
		}
		maps := mapVars(fd)
		ast.Inspect(fd, func(n ast.Node) bool {
			switch x := n.(type) {
			case *ast.CallExpr:
				// sort.Slice(result.F, ...), sort.SliceStable(result.F, ...)
				if s := exprString(x.Fun); (s == "sort.Slice" || s == "sort.SliceStable") && len(x.Args) > 0 {
					if sel, ok := x.Args[0].(*ast.SelectorExpr); ok && exprString(sel.X) == "result" {
						sorted[sel.Sel.Name] = true
					}
				}
			case *ast.RangeStmt:
				// for ... := range <mapvar> { result.F = append(result.F, ...) }
				if id, ok := x.X.(*ast.Ident); ok && maps[id.Name] {
					ast.Inspect(x.Body, func(m ast.Node) bool {
						if as, ok := m.(*ast.AssignStmt); ok && len(as.Lhs) == 1 {
							if sel, ok := as.Lhs[0].(*ast.SelectorExpr); ok && exprString(sel.X) == "result" {
								mapBuilt[sel.Sel.Name] = true
							}
						}
						return true
					})
				}
			}
			return true
		})
	}
	l.def("mergeSortedFields", "List Field", c10Fields(sortedKeys(sorted)), sortedKeys(sorted))
	l.def("mergeMapBuiltFields", "List Field", c10Fields(sortedKeys(mapBuilt)), sortedKeys(mapBuilt))

	// writer.go: ranges over Go maps (iteration order is random) in the functions that derive state
	_, writer := parseFile("vdr/didnuts/didstore/writer.go")
	var ranges []string
	for _, fname := range []string{"applyFrom", "applyEvent", "applyDocument", "writeEventList"} {
		fd := funcDecl(writer, fname)
		if fd == nil {
			ranges = append(ranges, fname+":MISSING")
			continue
		}
		maps := mapVars(fd)
		ast.Inspect(fd, func(n ast.Node) bool {
			if r, ok := n.(*ast.RangeStmt); ok {
				if id, ok := r.X.(*ast.Ident); ok && maps[id.Name] {
					ranges = append(ranges, fname+":"+id.Name)
				}
			}
			return true
		})
	}
	l.def("writerMapRanges", "List String", leanStrList(ranges), ranges)

	// applyFrom: is the conflicted-shelf flag read outside `if base != nil`?
	uncond := false
	if fd := funcDecl(writer, "applyFrom"); fd != nil {
		var walk func(n ast.Node, guarded bool)
		walk = func(n ast.Node, guarded bool) {
			if n == nil {
				return
			}
			switch x := n.(type) {
			case *ast.IfStmt:
				g := guarded || strings.Contains(exprString(x.Cond), "base != nil")
				walk(x.Init, guarded)
				walk(x.Body, g)
				walk(x.Else, guarded)
				return
			case *ast.CallExpr:
				if exprString(x.Fun) == "conflictedWriter.Get" && !guarded {
					uncond = true
				}
			}
			ast.Inspect(n, func(m ast.Node) bool {
				if m == n || m == nil {
					return true
				}
				walk(m, guarded)
				return false
			})
		}
		walk(fd.Body, false)
	}
	l.def("conflictedFlagReadUnconditional", "Bool", map[bool]string{true: "true", false: "false"}[uncond], uncond)
	c10More(l)
	c10Deep(l)
	return l
}

// c10Src renders a node as normalised source text (no comments, whitespace runs collapsed)
func c10Src(fset *token.FileSet, n interface{}) string {
	var buf bytes.Buffer
	if err := printer.Fprint(&buf, fset, n); err != nil {
		return "<unprintable>"
	}
	return strings.Join(strings.Fields(buf.String()), " ")
}

func c10PairList(ps [][2]string) string {
	var q []string
	for _, p := range ps {
		q = append(q, fmt.Sprintf("(%q, %q)", p[0], p[1]))
	}
	return "[" + strings.Join(q, ", ") + "]"
}

// c10StructFields: (field name, json tag or "") of a struct type declared in f
func c10StructFields(f *ast.File, name string) [][2]string {
	var out [][2]string
	ast.Inspect(f, func(n ast.Node) bool {
		ts, ok := n.(*ast.TypeSpec)
		if !ok || ts.Name.Name != name {
			return true
		}
		st, ok := ts.Type.(*ast.StructType)
		if !ok {
			return false
		}
		for _, fl := range st.Fields.List {
			tag := ""
			if fl.Tag != nil {
				tag = reflect.StructTag(strings.Trim(fl.Tag.Value, "`")).Get("json")
			}
			for _, nm := range fl.Names {
				out = append(out, [2]string{nm.Name, tag})
			}
		}
		return false
	})
	return out
}

// c10More: the sites around the core mechanism — ordering steps, persisted fields, key expressions, in-memory state,
// who touches the conflicted cache, and a digest of every function the model mirrors.
func c10More(l *lean) {
	dir := "vdr/didnuts/didstore/"
	files := map[string]*ast.File{}
	fsets := map[string]*token.FileSet{}
	for _, fn := range []string{"event.go", "writer.go", "store.go", "reader.go", "metadata.go", "merge.go", "finder.go"} {
		fsets[fn], files[fn] = parseFile(dir + fn)
	}
	// event.before: the sequence of "if cond { return v }" steps and the final return
	var steps []string
	if fd := funcDecl(files["event.go"], "before"); fd != nil {
		for _, st := range fd.Body.List {
			switch x := st.(type) {
			case *ast.IfStmt:
				ret := "<not-a-return>"
				if x.Init == nil && x.Else == nil && len(x.Body.List) == 1 {
					if r, ok := x.Body.List[0].(*ast.ReturnStmt); ok && len(r.Results) == 1 {
						ret = c10Src(fsets["event.go"], r.Results[0])
					}
				}
				steps = append(steps, c10Src(fsets["event.go"], x.Cond)+" => "+ret)
			case *ast.ReturnStmt:
				steps = append(steps, "return "+c10Src(fsets["event.go"], x.Results[0]))
			default:
				steps = append(steps, "<other statement>")
			}
		}
	} else {
		steps = []string{"before:MISSING"}
	}
	l.def("beforeSteps", "List String", leanStrList(steps), steps)
	eq := "equal:MISSING"
	if fd := funcDecl(files["event.go"], "equal"); fd != nil {
		eq = c10Src(fsets["event.go"], fd.Body)
	}
	l.def("equalBody", "String", fmt.Sprintf("%q", eq), eq)

	// persisted records: field -> json tag
	ev := c10StructFields(files["event.go"], "event")
	l.def("eventFields", "List (String × String)", c10PairList(ev), ev)
	md := c10StructFields(files["metadata.go"], "documentMetadata")
	l.def("metadataFields", "List (String × String)", c10PairList(md), md)
	var sf []string
	for _, p := range c10StructFields(files["store.go"], "store") {
		sf = append(sf, p[0])
	}
	l.def("storeFields", "List String", leanStrList(sf), sf)

	// every fmt.Sprintf in the package's modelled files: "function: format <- args" (the version-numbered keys)
	var keys []string
	for _, fn := range []string{"writer.go", "store.go", "reader.go"} {
		for _, d := range files[fn].Decls {
			fd, ok := d.(*ast.FuncDecl)
			if !ok || fd.Body == nil {
				continue
			}
			ast.Inspect(fd.Body, func(n ast.Node) bool {
				if c, ok := n.(*ast.CallExpr); ok && c10Src(fsets[fn], c.Fun) == "fmt.Sprintf" {
					var args []string
					for _, a := range c.Args {
						args = append(args, c10Src(fsets[fn], a))
					}
					keys = append(keys, fd.Name.Name+": "+strings.Join(args, " <- "))
				}
				return true
			})
		}
	}
	sort.Strings(keys)
	l.def("sprintfKeys", "List String", leanStrList(keys), keys)

	// who reads or writes the in-memory conflicted cache, and who calls the three cache functions
	touch := map[string]bool{}
	for _, fn := range []string{"writer.go", "store.go", "reader.go", "finder.go", "merge.go", "event.go", "metadata.go"} {
		for _, d := range files[fn].Decls {
			fd, ok := d.(*ast.FuncDecl)
			if !ok || fd.Body == nil {
				continue
			}
			ast.Inspect(fd.Body, func(n ast.Node) bool {
				switch x := n.(type) {
				case *ast.SelectorExpr:
					if x.Sel.Name == "conflictedDocuments" {
						touch[fd.Name.Name+" uses conflictedDocuments"] = true
					}
					for _, callee := range []string{"addCachedConflict", "removeCachedConflict", "loadConflictedDocuments"} {
						if x.Sel.Name == callee {
							touch[fd.Name.Name+" calls "+callee] = true
						}
					}
				}
				return true
			})
		}
	}
	l.def("cacheTouch", "List String", leanStrList(sortedKeys(touch)), sortedKeys(touch))

	// single conditions the model copies
	cond := func(file, fn, contains string) string {
		fd := funcDecl(files[file], fn)
		if fd == nil {
			return fn + ":MISSING"
		}
		var hits []string
		ast.Inspect(fd.Body, func(n ast.Node) bool {
			switch x := n.(type) {
			case *ast.IfStmt:
				if s := c10Src(fsets[file], x.Cond); strings.Contains(s, contains) {
					hits = append(hits, "if "+s)
				}
			case *ast.AssignStmt:
				if s := c10Src(fsets[file], x); strings.Contains(s, contains) && !strings.Contains(s, "{") {
					hits = append(hits, s)
				}
			case *ast.ReturnStmt:
				if s := c10Src(fsets[file], x); strings.Contains(s, contains) {
					hits = append(hits, s)
				}
			}
			return true
		})
		return strings.Join(hits, " ;; ")
	}
	one := func(name, v string) { l.def(name, "String", fmt.Sprintf("%q", v), v) }
	one("docCountCondition", cond("writer.go", "applyFrom", "metadata.Version"))
	one("deactivatedAssign", cond("writer.go", "applyDocument", "newMeta.Deactivated"))
	one("isDeactivatedBody", cond("writer.go", "isDeactivated", "return"))
	one("isConflictedBody", cond("metadata.go", "isConflicted", "return"))
	one("updatedOnlyIfDifferent", cond("metadata.go", "asVDRMetadata", "Updated"))
	one("historyCreated", cond("store.go", "HistorySinceVersion", "created :="))
	one("containsCheck", cond("store.go", "Add", "contains"))
	one("configureLoadsCache", cond("store.go", "Configure", "loadConflictedDocuments"))

	// wiring (cmd/root.go): one store object, handed to the network and the VDR, registered as an engine after the
	// storage engine (its Configure opens the database and loads the conflicted cache) and before its users
	rfset, root := parseFile("cmd/root.go")
	var engines, news, users []string
	ast.Inspect(root, func(n ast.Node) bool {
		c, ok := n.(*ast.CallExpr)
		if !ok {
			return true
		}
		fun := c10Src(rfset, c.Fun)
		if strings.HasSuffix(fun, ".RegisterEngine") && len(c.Args) == 1 {
			engines = append(engines, c10Src(rfset, c.Args[0]))
		}
		if fun == "didstore.New" {
			news = append(news, c10Src(rfset, c))
		}
		for _, a := range c.Args {
			if id, ok := a.(*ast.Ident); ok && id.Name == "didStore" && !strings.HasSuffix(fun, ".RegisterEngine") {
				users = append(users, fun)
			}
		}
		return true
	})
	l.def("engineOrder", "List String", leanStrList(engines), engines)
	l.def("didStoreConstructions", "List String", leanStrList(news), news)
	l.def("didStoreUsers", "List String", leanStrList(users), users)
	configurable := false
	for _, d := range files["store.go"].Decls {
		if g, ok := d.(*ast.GenDecl); ok {
			if s := c10Src(fsets["store.go"], g); strings.Contains(s, "core.Configurable = (*store)(nil)") {
				configurable = true
			}
		}
	}
	l.def("storeIsConfigurable", "Bool", map[bool]string{true: "true", false: "false"}[configurable], configurable)

	// store.Add: the sequence of write transactions (tl.db.Write calls in source order) with the package functions /
	// event-list methods each one calls, and what stands between them. The document + transaction index must be
	// COMMITTED before the event transaction reads the index (a backend need not show a transaction its own writes).
	var addTxs []string
	var between []string
	if fd := funcDecl(files["store.go"], "Add"); fd != nil {
		seenWrite := 0
		for _, st := range fd.Body.List {
			var call *ast.CallExpr
			if as, ok := st.(*ast.AssignStmt); ok && len(as.Rhs) == 1 {
				call, _ = as.Rhs[0].(*ast.CallExpr)
			}
			if call != nil && c10Src(fsets["store.go"], call.Fun) == "tl.db.Write" {
				seenWrite++
				var callees []string
				seen := map[string]bool{}
				ast.Inspect(call, func(n ast.Node) bool {
					if c, ok := n.(*ast.CallExpr); ok {
						name := ""
						switch f := c.Fun.(type) {
						case *ast.Ident:
							name = f.Name
						case *ast.SelectorExpr:
							if x := c10Src(fsets["store.go"], f.X); x == "tl" || x == "currentEventList" {
								name = f.Sel.Name
							}
						}
						for _, want := range []string{"writeDocument", "readEventList", "contains", "insert", "applyFrom", "writeEventList"} {
							if name == want && !seen[name] {
								seen[name] = true
								callees = append(callees, name)
							}
						}
					}
					return true
				})
				opts := ""
				if len(call.Args) > 2 {
					opts = " " + c10Src(fsets["store.go"], call.Args[2])
				}
				addTxs = append(addTxs, strings.Join(callees, ",")+opts)
				continue
			}
			if seenWrite == 1 {
				between = append(between, c10Src(fsets["store.go"], st))
			}
		}
	} else {
		addTxs = []string{"Add:MISSING"}
	}
	// read-only transactions inside Add (there must be none: what Add decides about the event list it decides inside the
	// write transaction that stores the list) and every call of readEventList / contains / insert / writeEventList in Add
	// that is NOT inside a tl.db.Write callback
	var addReads, outside []string
	if fd := funcDecl(files["store.go"], "Add"); fd != nil {
		var walk func(n ast.Node, inWrite bool)
		walk = func(n ast.Node, inWrite bool) {
			ast.Inspect(n, func(m ast.Node) bool {
				c, ok := m.(*ast.CallExpr)
				if !ok {
					return true
				}
				fun := c10Src(fsets["store.go"], c.Fun)
				if fun == "tl.db.Read" || fun == "tl.db.ReadShelf" {
					addReads = append(addReads, fun)
				}
				if fun == "tl.db.Write" && !inWrite {
					for _, a := range c.Args {
						walk(a, true)
					}
					return false
				}
				if !inWrite {
					for _, want := range []string{"readEventList", "contains", "insert", "applyFrom", "writeEventList"} {
						if fun == want || strings.HasSuffix(fun, "."+want) {
							outside = append(outside, want)
						}
					}
				}
				return true
			})
		}
		walk(fd.Body, false)
	}
	l.def("addReadTransactions", "List String", leanStrList(addReads), addReads)
	l.def("addEventListStepsOutsideWriteTx", "List String", leanStrList(outside), outside)
	l.def("addWriteTransactions", "List String", leanStrList(addTxs), addTxs)
	l.def("addBetweenTransactions", "List String", leanStrList(between), between)

	// digest of every function the model mirrors (normalised body text): an edit to any of them must be looked at
	var dig [][2]string
	for _, spec := range []struct {
		file  string
		funcs []string
	}{
		{"event.go", []string{"before", "equal", "insert", "contains"}},
		{"writer.go", []string{"writeEventList", "writeDocument", "writeLatest", "applyFrom", "incrementDocumentCount", "applyEvent", "applyDocument", "isDeactivated"}},
		{"store.go", []string{"Configure", "Add", "Resolve", "Iterate", "loadConflictedDocuments", "addCachedConflict", "removeCachedConflict", "Conflicted", "ConflictedCount", "DocumentCount", "matches", "latestNonDeactivatedRequested", "HistorySinceVersion"}},
		{"reader.go", []string{"readDocument", "readDocumentFromEvent", "readMetadata", "readEventList"}},
		{"metadata.go", []string{"asVDRMetadata", "isConflicted"}},
		{"merge.go", []string{"mergeDocuments", "mergeBasics", "mergeKeys", "mergeControllers", "mergeServices", "verificationMethodSort", "keyAgreementSort", "assertionSort", "authenticationSort", "capabilityInvocationSort", "capabilityDelegationSort", "controllerSort", "serviceSort", "contextSort"}},
		{"finder.go", []string{"Find"}},
	} {
		for _, fn := range spec.funcs {
			fd := funcDecl(files[spec.file], fn)
			d := "MISSING"
			if fd != nil {
				sum := sha256.Sum256([]byte(c10Src(fsets[spec.file], fd.Type) + " " + c10Src(fsets[spec.file], fd.Body)))
				d = fmt.Sprintf("%x", sum[:6])
			}
			dig = append(dig, [2]string{spec.file + ":" + fn, d})
		}
	}
	l.def("modelledSourceDigests", "List (String × String)", c10PairList(dig), dig)
}
