package main

// C03 (deepening round 3): crypto/util/pem.go — the block-type switches of PemToPrivateKey / PemToPublicKey as tables.

import (
	"go/ast"
	"strings"
)

func c03PemFacts(l *lean) {
	fset, f := parseFile("crypto/util/pem.go")
	var priv []string
	privDefault, pubDefault := "none", "none"
	var pub []string
	var firstGuard []string
	swOf := func(fd *ast.FuncDecl) *ast.SwitchStmt {
		for _, st := range fd.Body.List {
			if sw, ok := st.(*ast.SwitchStmt); ok {
				return sw
			}
		}
		return nil
	}
	if fd := c03FuncDecl(f, "PemToPrivateKey"); fd != nil {
		for _, st := range fd.Body.List {
			if is, ok := st.(*ast.IfStmt); ok {
				var b []string
				c03FlatStmts(fset, is.Body.List, 0, &b)
				firstGuard = append(firstGuard, "private:if "+c03Src(fset, is.Cond)+" -> "+strings.Join(b, "; "))
			}
		}
		if sw := swOf(fd); sw != nil && exprString(sw.Tag) == "block.Type" {
			for _, cc := range sw.Body.List {
				c := cc.(*ast.CaseClause)
				if c.List == nil {
					var b []string
					c03FlatStmts(fset, c.Body, 0, &b)
					privDefault = strings.Join(b, "; ")
					continue
				}
				how := "direct"
				for _, st := range c.Body {
					if ts, ok := st.(*ast.TypeSwitchStmt); ok {
						how = "typeswitch"
						for _, tc := range ts.Body.List {
							tcc := tc.(*ast.CaseClause)
							if tcc.List == nil {
								how = "typeswitch-with-default"
							}
						}
					}
				}
				for _, e := range c.List {
					if s, ok := c03Unquote(e); ok {
						priv = append(priv, c03Tuple(c03Str(s), c03Str(how)))
					} else {
						priv = append(priv, ".unknown_case_"+exprString(e))
					}
				}
			}
		} else {
			priv = append(priv, ".no_block_type_switch")
		}
	}
	if fd := c03FuncDecl(f, "PemToPublicKey"); fd != nil {
		for _, st := range fd.Body.List {
			if is, ok := st.(*ast.IfStmt); ok {
				var b []string
				c03FlatStmts(fset, is.Body.List, 0, &b)
				firstGuard = append(firstGuard, "public:if "+c03Src(fset, is.Cond)+" -> "+strings.Join(b, "; "))
			}
		}
		if sw := swOf(fd); sw != nil && exprString(sw.Tag) == "block.Type" {
			for _, cc := range sw.Body.List {
				c := cc.(*ast.CaseClause)
				if c.List == nil {
					var b []string
					c03FlatStmts(fset, c.Body, 0, &b)
					pubDefault = strings.Join(b, "; ")
					continue
				}
				for _, e := range c.List {
					if s, ok := c03Unquote(e); ok {
						pub = append(pub, c03Str(s))
					} else {
						pub = append(pub, ".unknown_case_"+exprString(e))
					}
				}
			}
		}
	}
	l.def("pemPrivateCases", "List (String × String)", "["+strings.Join(priv, ", ")+"]", priv)
	l.def("pemPrivateDefault", "String", c03Str(privDefault), privDefault)
	l.def("pemPublicCases", "List String", "["+strings.Join(pub, ", ")+"]", pub)
	l.def("pemPublicDefault", "String", c03Str(pubDefault), pubDefault)
	l.def("pemNilBlockGuards", "List String", c03StrList(firstGuard), firstGuard)
}
