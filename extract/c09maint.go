package main

// C09 deepening round 3: Manager.RemoveVerificationMethod (+ go-did Document.RemoveVerificationMethod from the module cache) and
// Manager.IsCommitted, printed statement by statement.

import (
	"go/ast"
	"go/parser"
	"go/token"
	"os"
	"os/exec"
	"path/filepath"
	"regexp"
	"strings"
)

// the statements of a function body that decide, in source order: assignments whose right side is a call / len(), expression
// statements, `if cond => return …` (one-statement bodies, recursively for nested ifs) and returns
func c09StmtList(body *ast.BlockStmt, keep func(string) bool) []string {
	var out []string
	var walk func(list []ast.Stmt)
	walk = func(list []ast.Stmt) {
		for _, st := range list {
			switch t := st.(type) {
			case *ast.AssignStmt:
				if len(t.Rhs) == 1 {
					if _, ok := t.Rhs[0].(*ast.CallExpr); ok {
						s := c09Src(t)
						if keep(s) {
							out = append(out, s)
						}
					}
				}
			case *ast.ExprStmt:
				if s := c09Src(t.X); keep(s) {
					out = append(out, s)
				}
			case *ast.IfStmt:
				var inner []ast.Stmt
				for _, b := range t.Body.List {
					if r, ok := b.(*ast.ReturnStmt); ok {
						var rs []string
						for _, x := range r.Results {
							rs = append(rs, c09Src(x))
						}
						if s := "if " + c09Src(t.Cond) + " => return " + strings.Join(rs, ", "); keep(s) {
							out = append(out, s)
						}
					} else {
						inner = append(inner, b)
					}
				}
				walk(inner)
			case *ast.ReturnStmt:
				var rs []string
				for _, x := range t.Results {
					rs = append(rs, c09Src(x))
				}
				if s := "return " + strings.Join(rs, ", "); keep(s) {
					out = append(out, s)
				}
			}
		}
	}
	walk(body.List)
	return out
}

func c09GoDidDir() string {
	gomod, err := os.ReadFile(filepath.Join(repo, "go.mod"))
	if err != nil {
		return ""
	}
	m := regexp.MustCompile(`github.com/nuts-foundation/go-did (v\S+)`).FindSubmatch(gomod)
	if m == nil {
		return ""
	}
	cache := os.Getenv("GOMODCACHE")
	if cache == "" {
		if o, err := exec.Command("go", "env", "GOMODCACHE").Output(); err == nil {
			cache = strings.TrimSpace(string(o))
		}
	}
	return filepath.Join(cache, "github.com", "nuts-foundation", "go-did@"+string(m[1]), "did")
}

func c09MaintFacts(l *lean) {
	_, mgr := parseFile("vdr/didnuts/manager.go")

	var steps []string
	if fd := c09Method(mgr, "Manager", "RemoveVerificationMethod"); fd != nil {
		for _, s := range c09StmtList(fd.Body, func(s string) bool { return !strings.Contains(s, "err != nil") }) {
			// `doc, _, err := m.resolver.Resolve(…)`: the call is what matters
			if i := strings.Index(s, ":= m.resolver.Resolve"); i >= 0 {
				s = s[i+3:]
			}
			steps = append(steps, s)
		}
	}
	l.def("removeVMSteps", "List String", leanStrList(steps), steps)

	var isc []string
	if fd := c09Method(mgr, "Manager", "IsCommitted"); fd != nil {
		// the outer `if err != nil { if ErrNotFound {return false, nil}; return false, err }` is walked into
		var walkErr func(list []ast.Stmt)
		walkErr = func(list []ast.Stmt) {
			for _, st := range list {
				if ifs, ok := st.(*ast.IfStmt); ok && c09Src(ifs.Cond) == "err != nil" {
					isc = append(isc, c09StmtList(ifs.Body, func(string) bool { return true })...)
					continue
				}
				isc = append(isc, c09StmtList(&ast.BlockStmt{List: []ast.Stmt{st}}, func(string) bool { return true })...)
			}
		}
		walkErr(fd.Body.List)
		for i, s := range isc {
			if j := strings.Index(s, ":= m.store.Resolve"); j >= 0 {
				isc[i] = s[j+3:]
			}
		}
	}
	l.def("isCommittedSteps", "List String", leanStrList(isc), isc)

	// go-did: Document.RemoveVerificationMethod and the two filter loops it relies on
	var fields, tests []string
	if dir := c09GoDidDir(); dir != "" {
		fset := token.NewFileSet()
		if f, err := parser.ParseFile(fset, filepath.Join(dir, "document.go"), nil, 0); err == nil {
			if fd := c09Method(f, "Document", "RemoveVerificationMethod"); fd != nil {
				for _, st := range fd.Body.List {
					if es, ok := st.(*ast.ExprStmt); ok {
						if ce, ok := es.X.(*ast.CallExpr); ok {
							fields = append(fields, strings.TrimPrefix(exprString(ce.Fun), "d."))
						}
					} else {
						fields = append(fields, "UNKNOWN:"+c09Src(st))
					}
				}
			}
			for _, rn := range [][2]string{{"VerificationMethods", "remove"}, {"VerificationRelationships", "Remove"}} {
				if fd := c09Method(f, rn[0], rn[1]); fd != nil {
					ast.Inspect(fd, func(n ast.Node) bool {
						if rs, ok := n.(*ast.RangeStmt); ok {
							for _, st := range rs.Body.List {
								if ifs, ok := st.(*ast.IfStmt); ok {
									keeps := false
									for _, b := range ifs.Body.List {
										if strings.Contains(c09Src(b), "append(filtered") {
											keeps = true
										}
									}
									if keeps {
										tests = append(tests, c09Src(ifs.Cond))
									} else {
										tests = append(tests, "NOT-A-KEEP-TEST:"+c09Src(ifs.Cond))
									}
								}
							}
						}
						return true
					})
				}
			}
		}
	}
	// wave 9: HOW verifyThumbprint compares the id fragment with the thumbprint (text against text)
	_, val := parseFile("vdr/didnuts/validators.go")
	cmp := []string{}
	if fd := c09Method(val, "verificationMethodValidator", "verifyThumbprint"); fd != nil {
		for _, st := range c09StmtList(fd.Body, func(s string) bool { return true }) {
			if strings.Contains(st, "does not match ID") || strings.Contains(st, "Fragment") || strings.Contains(st, "Decode") {
				cmp = append(cmp, st)
			}
		}
	}
	l.def("thumbprintIdComparison", "List String", leanStrList(cmp), cmp)
	l.def("removeVerificationMethodFields", "List String", leanStrList(fields), fields)
	l.def("removeLoopTests", "List String", leanStrList(tests), tests)
}
