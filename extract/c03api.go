package main

// C03 (deepening round): facts about the crypto REST wrapper crypto/api/v1/api.go —
//   * the `validate()` methods of the four request types as ordered check lists (field, test, arg, message),
//   * the error -> HTTP status table of Wrapper.ResolveStatusCode and the status of core.InvalidInputError,
//   * per handler: the error prefix of a validation failure and the order of the steps that matter for the key id
//     (validate, `headers["kid"] = request kid`, the key store call and its kid argument).
// Dumb printer: a construct it cannot map becomes a test / step named `unknown:<source>`; the Lean side refuses those.

import (
	"go/ast"
	"go/token"
	"sort"
	"strconv"
	"strings"
)

var c03HTTPStatus = map[string]int{"http.StatusBadRequest": 400, "http.StatusNotFound": 404, "http.StatusInternalServerError": 500,
	"http.StatusUnauthorized": 401, "http.StatusForbidden": 403, "http.StatusConflict": 409, "http.StatusOK": 200, "http.StatusPreconditionFailed": 412}

var c03HeaderConst = map[string]string{"jws.KeyIDKey": "kid", "jwk.KeyIDKey": "kid", "jws.JWKKey": "jwk", "jws.AlgorithmKey": "alg"}

// message of `return errors.New("…")` / `return fmt.Errorf("…: %w", err)` (first result of the first return in the block)
func c03ApiRetMsg(fset *token.FileSet, body *ast.BlockStmt) string {
	for _, st := range body.List {
		rs, ok := st.(*ast.ReturnStmt)
		if !ok || len(rs.Results) == 0 {
			continue
		}
		if call, ok := rs.Results[len(rs.Results)-1].(*ast.CallExpr); ok && len(call.Args) >= 1 {
			fn := exprString(call.Fun)
			if s, ok := c03Unquote(call.Args[0]); ok && (fn == "errors.New" || fn == "fmt.Errorf" || fn == "core.InvalidInputError") {
				return fn + ":" + s
			}
		}
		return "unknown:" + c03Src(fset, rs)
	}
	return "unknown:no-return"
}

// one `if` of a validate() method -> (field, test, arg)
func c03ApiCheck(fset *token.FileSet, recv string, is *ast.IfStmt) (string, string, string) {
	field := func(e ast.Expr) (string, bool) {
		if se, ok := e.(*ast.SelectorExpr); ok {
			if id, ok := se.X.(*ast.Ident); ok && id.Name == recv {
				return se.Sel.Name, true
			}
		}
		return "", false
	}
	unknown := func() (string, string, string) { return "?", "unknown:" + c03Src(fset, is.Init) + ";" + c03Src(fset, is.Cond), "" }
	if is.Init == nil {
		be, ok := is.Cond.(*ast.BinaryExpr)
		if !ok || be.Op != token.EQL {
			return unknown()
		}
		// len(x.F) == 0
		if call, ok := be.X.(*ast.CallExpr); ok && exprString(call.Fun) == "len" && len(call.Args) == 1 && exprString(be.Y) == "0" {
			if f, ok := field(call.Args[0]); ok {
				return f, "len0", ""
			}
		}
		// x.F == nil
		if f, ok := field(be.X); ok && exprString(be.Y) == "nil" {
			return f, "nil", ""
		}
		return unknown()
	}
	as, ok := is.Init.(*ast.AssignStmt)
	if !ok || len(as.Lhs) != 2 || len(as.Rhs) != 1 {
		return unknown()
	}
	// _, ok := x.F[const]; ok
	if ix, ok := as.Rhs[0].(*ast.IndexExpr); ok && exprString(as.Lhs[0]) == "_" && exprString(is.Cond) == exprString(as.Lhs[1]) {
		if f, ok := field(ix.X); ok {
			if name, ok := c03HeaderConst[exprString(ix.Index)]; ok {
				return f, "haskey", name
			}
		}
		return unknown()
	}
	// _, err := did.ParseDIDURL(x.F); err != nil
	if call, ok := as.Rhs[0].(*ast.CallExpr); ok && len(call.Args) == 1 && exprString(is.Cond) == exprString(as.Lhs[1])+" != nil" {
		if f, ok := field(call.Args[0]); ok {
			return f, "parse:" + exprString(call.Fun), ""
		}
	}
	return unknown()
}

func c03ApiFacts(l *lean) {
	fset, f := parseFile("crypto/api/v1/api.go")
	quad := func(a, b, c, d string) string {
		// d = "<constructor>:<text>"; a trailing %w (the wrapped parser error) is cut and flagged in the constructor name
		ctor, text := d, ""
		if i := strings.Index(d, ":"); i >= 0 {
			ctor, text = d[:i], d[i+1:]
		}
		if ctor == "fmt.Errorf" && strings.HasSuffix(text, "%w") {
			ctor, text = "fmt.Errorf%w", strings.TrimSuffix(text, "%w")
		}
		return c03Tuple(c03Str(a), c03Str(b), c03Str(c), c03Str(ctor), c03Str(text))
	}
	// ---- validate() methods
	var vals []string
	raw := map[string]interface{}{}
	var names []string
	byType := map[string]*ast.FuncDecl{}
	for _, d := range f.Decls {
		fd, ok := d.(*ast.FuncDecl)
		if !ok || fd.Name.Name != "validate" || fd.Recv == nil || len(fd.Recv.List) != 1 {
			continue
		}
		tn := strings.TrimPrefix(exprString(fd.Recv.List[0].Type), "*")
		names = append(names, tn)
		byType[tn] = fd
	}
	sort.Strings(names)
	for _, tn := range names {
		fd := byType[tn]
		recv := ""
		if len(fd.Recv.List[0].Names) == 1 {
			recv = fd.Recv.List[0].Names[0].Name
		}
		var checks []string
		var rawChecks [][]string
		skip := -1
		for i, st := range fd.Body.List {
			if i == skip {
				continue
			}
			switch s := st.(type) {
			case *ast.IfStmt:
				fld, test, arg := c03ApiCheck(fset, recv, s)
				if s.Else != nil {
					test = "unknown:else-branch"
				}
				msg := c03ApiRetMsg(fset, s.Body)
				checks = append(checks, quad(fld, test, arg, msg))
				rawChecks = append(rawChecks, []string{fld, test, arg, msg})
			case *ast.AssignStmt:
				// `_, err := did.ParseDIDURL(x.F)` followed by `if err != nil { return … }`
				if i+1 < len(fd.Body.List) {
					if nx, ok := fd.Body.List[i+1].(*ast.IfStmt); ok && nx.Init == nil && len(s.Rhs) == 1 && len(s.Lhs) == 2 && exprString(nx.Cond) == exprString(s.Lhs[1])+" != nil" {
						merged := &ast.IfStmt{Init: s, Cond: nx.Cond, Body: nx.Body}
						fld, test, arg := c03ApiCheck(fset, recv, merged)
						msg := c03ApiRetMsg(fset, nx.Body)
						checks = append(checks, quad(fld, test, arg, msg))
						rawChecks = append(rawChecks, []string{fld, test, arg, msg})
						skip = i + 1
						continue
					}
				}
				checks = append(checks, quad("?", "unknown:"+c03Src(fset, s), "", ""))
			case *ast.ReturnStmt:
				if i != len(fd.Body.List)-1 || len(s.Results) != 1 || exprString(s.Results[0]) != "nil" {
					checks = append(checks, quad("?", "unknown:"+c03Src(fset, s), "", ""))
				}
			default:
				checks = append(checks, quad("?", "unknown:"+c03Src(fset, st), "", ""))
			}
		}
		kept := checks
		vals = append(vals, c03Tuple(c03Str(tn), "["+strings.Join(kept, ", ")+"]"))
		raw[tn] = rawChecks
	}
	l.def("apiValidate", "List (String × List (String × String × String × String × String))", "["+strings.Join(vals, ",\n  ")+"]", raw)

	// ---- ResolveStatusCode table
	var statusRows []string
	rawStatus := map[string]int{}
	if fd := c03Method(f, "Wrapper", "ResolveStatusCode"); fd != nil {
		ast.Inspect(fd, func(n ast.Node) bool {
			cl, ok := n.(*ast.CompositeLit)
			if !ok {
				return true
			}
			if _, ok := cl.Type.(*ast.MapType); !ok {
				return true
			}
			for _, e := range cl.Elts {
				kv, ok := e.(*ast.KeyValueExpr)
				if !ok {
					continue
				}
				code, known := c03HTTPStatus[exprString(kv.Value)]
				if !known {
					statusRows = append(statusRows, c03Tuple(c03Str(exprString(kv.Key)), ".unknown_status_"+strings.ReplaceAll(exprString(kv.Value), ".", "_")))
					continue
				}
				statusRows = append(statusRows, c03Tuple(c03Str(exprString(kv.Key)), strconv.Itoa(code)))
				rawStatus[exprString(kv.Key)] = code
			}
			return false
		})
	}
	sort.Strings(statusRows)
	l.def("apiStatusMap", "List (String × Nat)", "["+strings.Join(statusRows, ", ")+"]", rawStatus)
	// core.InvalidInputError -> Error(http.StatusBadRequest, …)
	_, ce := parseFile("core/echo_errors.go")
	inv := ".unknown_InvalidInputError"
	if fd := funcDecl(ce, "InvalidInputError"); fd != nil {
		ast.Inspect(fd, func(n ast.Node) bool {
			if call, ok := n.(*ast.CallExpr); ok && exprString(call.Fun) == "Error" && len(call.Args) >= 1 {
				if code, ok := c03HTTPStatus[exprString(call.Args[0])]; ok {
					inv = strconv.Itoa(code)
				}
			}
			return true
		})
	}
	l.def("apiInvalidInputStatus", "Nat", inv, inv)

	// ---- handlers: ordered steps
	var hs []string
	rawH := map[string][]string{}
	for _, hn := range []string{"SignJwt", "SignJws", "EncryptJwe", "DecryptJwe"} {
		fd := c03Method(f, "Wrapper", hn)
		var steps []string
		if fd != nil {
			type ev struct {
				pos token.Pos
				s   string
			}
			var evs []ev
			ast.Inspect(fd.Body, func(n ast.Node) bool {
				switch x := n.(type) {
				case *ast.CallExpr:
					fn := exprString(x.Fun)
					switch {
					case strings.HasSuffix(fn, ".validate"):
						evs = append(evs, ev{x.Pos(), "validate"})
					case fn == "core.InvalidInputError" && len(x.Args) >= 1:
						if s, ok := c03Unquote(x.Args[0]); ok {
							evs = append(evs, ev{x.Pos(), "invalid-input:" + s})
						}
					case strings.HasPrefix(fn, "w.C."):
						var args []string
						for _, a := range x.Args {
							args = append(args, c03Src(fset, a))
						}
						evs = append(evs, ev{x.Pos(), "store:" + strings.TrimPrefix(fn, "w.C.") + "(" + strings.Join(args, ",") + ")"})
					case fn == "fmt.Errorf" && len(x.Args) >= 1:
						if s, ok := c03Unquote(x.Args[0]); ok {
							evs = append(evs, ev{x.Pos(), "wrap:" + s})
						}
					}
				case *ast.AssignStmt:
					if len(x.Lhs) == 1 && len(x.Rhs) == 1 {
						if ix, ok := x.Lhs[0].(*ast.IndexExpr); ok {
							k := exprString(ix.Index)
							if c, ok := c03HeaderConst[k]; ok {
								k = c
							}
							evs = append(evs, ev{x.Pos(), "set-header:" + exprString(ix.X) + "[" + k + "]=" + c03Src(fset, x.Rhs[0])})
						} else if exprString(x.Lhs[0]) == "headers" || exprString(x.Lhs[0]) == "signRequest" || exprString(x.Lhs[0]) == "decryptRequest" {
							evs = append(evs, ev{x.Pos(), "bind:" + exprString(x.Lhs[0]) + ":=" + c03Src(fset, x.Rhs[0])})
						}
					}
				}
				return true
			})
			sort.Slice(evs, func(i, j int) bool { return evs[i].pos < evs[j].pos })
			for _, e := range evs {
				steps = append(steps, e.s)
			}
		}
		hs = append(hs, c03Tuple(c03Str(hn), c03StrList(steps)))
		rawH[hn] = steps
	}
	l.def("apiHandlerSteps", "List (String × List String)", "["+strings.Join(hs, ",\n  ")+"]", rawH)
}

// DPoP: the TOP-LEVEL statements of (*DPoP).Sign (an assignment nested in an `if` is not top level: it is printed as part
// of the `if:` entry only), and how Crypto.SignDPoP receives the token and calls Sign.
func c03DpopFacts(l *lean) {
	fset, f := parseFile("crypto/dpop/dpop.go")
	var stmts []string
	if fd := c03Method(f, "DPoP", "Sign"); fd != nil {
		for _, st := range fd.Body.List {
			switch x := st.(type) {
			case *ast.IfStmt:
				stmts = append(stmts, "if:"+c03Src(fset, x.Init)+";"+c03Src(fset, x.Cond)+"{"+strconv.Itoa(len(x.Body.List))+"}")
			case *ast.AssignStmt:
				stmts = append(stmts, "assign:"+c03Src(fset, x))
			case *ast.ReturnStmt:
				stmts = append(stmts, "return:"+c03Src(fset, x))
			default:
				stmts = append(stmts, "other:"+c03Src(fset, st))
			}
		}
	}
	l.def("dpopSignStmts", "List String", c03StrList(stmts), stmts)
	fset2, f2 := parseFile("crypto/dpop.go")
	var sd []string
	if fd := c03Method(f2, "Crypto", "SignDPoP"); fd != nil {
		for _, p := range fd.Type.Params.List {
			for _, n := range p.Names {
				sd = append(sd, "param:"+n.Name+":"+c03Src(fset2, p.Type))
			}
		}
		ast.Inspect(fd.Body, func(n ast.Node) bool {
			if call, ok := n.(*ast.CallExpr); ok {
				fn := exprString(call.Fun)
				if strings.HasSuffix(fn, ".Sign") || strings.HasSuffix(fn, ".getPrivateKey") {
					var args []string
					for _, a := range call.Args {
						args = append(args, c03Src(fset2, a))
					}
					sd = append(sd, "call:"+fn+"("+strings.Join(args, ",")+")")
				}
			}
			return true
		})
	}
	l.def("signDPoPShape", "List String", c03StrList(sd), sd)
}

// fs.ListPrivateKeys: the walk callback's condition, the `upper` expression, its guard and the slice that becomes the key name
func c03FsListFacts(l *lean) {
	fset, f := parseFile("crypto/storage/fs/fs.go")
	var facts []string
	if fd := c03Method(f, "fileSystemBackend", "ListPrivateKeys"); fd != nil {
		ast.Inspect(fd.Body, func(n ast.Node) bool {
			switch x := n.(type) {
			case *ast.CallExpr:
				if fn := exprString(x.Fun); strings.HasPrefix(fn, "filepath.Walk") && len(x.Args) >= 1 {
					facts = append(facts, "walk:"+fn+"("+c03Src(fset, x.Args[0])+")")
				}
			case *ast.IfStmt:
				facts = append(facts, "if:"+c03Src(fset, x.Cond))
			case *ast.AssignStmt:
				if len(x.Lhs) == 1 && exprString(x.Lhs[0]) == "upper" {
					facts = append(facts, "upper:"+c03Src(fset, x.Rhs[0]))
				}
			case *ast.KeyValueExpr:
				facts = append(facts, "field:"+exprString(x.Key)+"="+c03Src(fset, x.Value))
			}
			return true
		})
	}
	l.def("fsListCallback", "List String", c03StrList(facts), facts)
}

// external secret store backend: how each SPI method hands the key name to the generated client, and the path formats of
// the generated request builders that take a key
func c03ExternalFacts(l *lean) {
	fset, f := parseFile("crypto/storage/external/client.go")
	var uses []string
	for _, m := range []string{"GetPrivateKey", "PrivateKeyExists", "SavePrivateKey", "DeletePrivateKey"} {
		fd := c03Method(f, "APIClient", m)
		if fd == nil {
			uses = append(uses, m+":MISSING")
			continue
		}
		ast.Inspect(fd.Body, func(n ast.Node) bool {
			if call, ok := n.(*ast.CallExpr); ok {
				fn := exprString(call.Fun)
				if strings.HasPrefix(fn, "c.httpClient.") && len(call.Args) >= 2 {
					uses = append(uses, m+":"+strings.TrimPrefix(fn, "c.httpClient.")+":"+c03Src(fset, call.Args[1]))
				}
			}
			return true
		})
	}
	l.def("externalNameUses", "List String", c03StrList(uses), uses)
	fset2, g := parseFile("crypto/storage/external/generated.go")
	var paths []string
	for _, d := range g.Decls {
		fd, ok := d.(*ast.FuncDecl)
		if !ok || fd.Recv != nil || !strings.HasPrefix(fd.Name.Name, "New") || !strings.Contains(fd.Name.Name, "Request") {
			continue
		}
		ast.Inspect(fd.Body, func(n ast.Node) bool {
			as, ok := n.(*ast.AssignStmt)
			if !ok || len(as.Lhs) != 1 || len(as.Rhs) != 1 {
				return true
			}
			switch exprString(as.Lhs[0]) {
			case "operationPath":
				if call, ok := as.Rhs[0].(*ast.CallExpr); ok && exprString(call.Fun) == "fmt.Sprintf" {
					paths = append(paths, fd.Name.Name+":"+c03Src(fset2, call))
				}
			case "pathParam0, err":
			}
			return true
		})
		ast.Inspect(fd.Body, func(n ast.Node) bool {
			if call, ok := n.(*ast.CallExpr); ok && exprString(call.Fun) == "runtime.StyleParamWithLocation" {
				var args []string
				for _, a := range call.Args {
					args = append(args, c03Src(fset2, a))
				}
				paths = append(paths, fd.Name.Name+":style("+strings.Join(args, ",")+")")
			}
			return true
		})
	}
	sort.Strings(paths)
	l.def("externalRequestPaths", "List String", c03StrList(paths), paths)
}
