package main

import (
	"bytes"
	"go/ast"
	"go/printer"
	"go/token"
	"strings"
)

// source text of an expression (one line)
func c08Src(fset *token.FileSet, e ast.Node) string {
	var b bytes.Buffer
	_ = printer.Fprint(&b, fset, e)
	return strings.Join(strings.Fields(b.String()), " ")
}

// all calls `name(...)` in fn, as source text
func c08CallsSrc(fset *token.FileSet, fn *ast.FuncDecl, name string) []string {
	var r []string
	if fn == nil {
		return []string{"MISSING"}
	}
	ast.Inspect(fn, func(n ast.Node) bool {
		if c, ok := n.(*ast.CallExpr); ok && exprString(c.Fun) == name {
			r = append(r, c08Src(fset, c))
		}
		return true
	})
	return r
}

// method `name` with receiver type `recv` (pointer or value)
func c08Method(f *ast.File, recv, name string) *ast.FuncDecl {
	for _, d := range f.Decls {
		fd, ok := d.(*ast.FuncDecl)
		if !ok || fd.Name.Name != name || fd.Recv == nil || len(fd.Recv.List) == 0 {
			continue
		}
		t := fd.Recv.List[0].Type
		if st, ok := t.(*ast.StarExpr); ok {
			t = st.X
		}
		if id, ok := t.(*ast.Ident); ok && id.Name == recv {
			return fd
		}
	}
	return nil
}

func init() { extractors["C08"] = extractC08 }

// constant value of `name` in file f as source text ("" when absent)
func c08Const(f *ast.File, name string) string {
	for _, d := range f.Decls {
		gd, ok := d.(*ast.GenDecl)
		if !ok || (gd.Tok != token.CONST && gd.Tok != token.VAR) {
			continue
		}
		for _, s := range gd.Specs {
			vs := s.(*ast.ValueSpec)
			for i, n := range vs.Names {
				if n.Name == name && i < len(vs.Values) {
					return c08Lit(vs.Values[i])
				}
			}
		}
	}
	return ""
}

// uint32(512) -> 512 ; "x" -> x ; 44 -> 44
func c08Lit(e ast.Expr) string {
	switch x := e.(type) {
	case *ast.BasicLit:
		return strings.Trim(x.Value, "\"")
	case *ast.CallExpr:
		if len(x.Args) == 1 {
			return c08Lit(x.Args[0])
		}
	}
	return "<" + exprString(e) + ">"
}

// the conditions of all if/for statements in fn, in source order
func c08Conds(fn *ast.FuncDecl) []string {
	var r []string
	if fn == nil {
		return []string{"MISSING"}
	}
	ast.Inspect(fn, func(n ast.Node) bool {
		switch x := n.(type) {
		case *ast.IfStmt:
			r = append(r, exprString(x.Cond))
		case *ast.ForStmt:
			if x.Cond != nil {
				r = append(r, "for "+exprString(x.Cond))
			}
		}
		return true
	})
	return r
}

// selector-call names (a.b.c) in fn, in source order
func c08Calls(fn *ast.FuncDecl, prefix string) []string {
	var r []string
	if fn == nil {
		return []string{"MISSING"}
	}
	ast.Inspect(fn, func(n ast.Node) bool {
		if c, ok := n.(*ast.CallExpr); ok {
			if s := exprString(c.Fun); strings.HasPrefix(s, prefix) {
				r = append(r, s)
			}
		}
		return true
	})
	return r
}

func extractC08() *lean {
	l := newLean("C08")
	stFset, st := parseFile("network/dag/state.go")
	_, nw := parseFile("network/network.go")
	_, tr := parseFile("network/dag/tree/tree.go")
	_, ib := parseFile("network/dag/tree/iblt.go")
	_, dg := parseFile("network/dag/dag.go")
	_, cs := parseFile("network/dag/consistency.go")
	_, ts := parseFile("network/dag/treestore.go")

	num := func(name, v string) {
		ok := v != ""
		for _, c := range v {
			if c < '0' || c > '9' {
				ok = false
			}
		}
		if !ok {
			v = ".unknown_" + name // does not elaborate
		}
		l.def(name, "Nat", v, v)
	}
	num("pageSize", c08Const(st, "PageSize"))
	num("ibltNumBuckets", c08Const(st, "IbltNumBuckets"))
	num("ibltK", c08Const(ib, "ibltK"))
	num("bucketBytes", c08Const(ib, "bucketBytes"))
	for _, s := range []string{"xorShelf", "ibltShelf"} {
		v := c08Const(st, s)
		l.def(s, "String", leanStrList([]string{v})[1:len(leanStrList([]string{v}))-1], v)
	}

	// tree.Load: does the "no leaves" branch reset the tree?
	resets := false
	if fd := funcDecl(tr, "Load"); fd != nil {
		for _, s := range fd.Body.List {
			if is, ok := s.(*ast.IfStmt); ok && exprString(is.Cond) == "len() == 0" {
				ast.Inspect(is.Body, func(n ast.Node) bool {
					if c, ok := n.(*ast.CallExpr); ok && exprString(c.Fun) == "t.resetDefaults" {
						resets = true
					}
					return true
				})
				break
			}
		}
	}
	l.def("loadEmptyResets", "Bool", map[bool]string{true: "true", false: "false"}[resets], resets)

	// state.Add: which context does the OnRollback hook give to loadState?
	var rollbackCtx []string
	if fd := funcDecl(st, "Add"); fd != nil {
		ast.Inspect(fd, func(n ast.Node) bool {
			c, ok := n.(*ast.CallExpr)
			if !ok || exprString(c.Fun) != "stoabs.OnRollback" {
				return true
			}
			ast.Inspect(c, func(m ast.Node) bool {
				if c2, ok := m.(*ast.CallExpr); ok && exprString(c2.Fun) == "s.loadState" && len(c2.Args) == 1 {
					rollbackCtx = append(rollbackCtx, exprString(c2.Args[0]))
				}
				return true
			})
			return false
		})
	}
	l.def("rollbackReloadContexts", "List String", leanStrList(rollbackCtx), rollbackCtx)
	// state.Add: the write transaction and its rollback handler form one critical section (addMutex)
	{
		addFn := funcDecl(st, "Add")
		mu := c08Calls(addFn, "s.addMutex.")
		l.def("addMutexCalls", "List String", leanStrList(mu), mu)
		firstAfter := []string{}
		var defers []string
		if addFn != nil {
			ast.Inspect(addFn, func(n ast.Node) bool {
				switch x := n.(type) {
				case *ast.CallExpr:
					if exprString(x.Fun) == "stoabs.AfterCommit" && len(firstAfter) == 0 && len(x.Args) == 1 {
						if id, ok := x.Args[0].(*ast.Ident); ok {
							firstAfter = append(firstAfter, id.Name)
						} else {
							firstAfter = append(firstAfter, "<func>")
						}
					}
				case *ast.DeferStmt:
					defers = append(defers, c08Src(stFset, x.Call))
				}
				return true
			})
		}
		// the rollback handlers of Add in registration order (go-stoabs calls them in this order), and where addMutex is
		// taken: at the top level of Add (not inside a closure), before the call of s.db.Write
		var handlers, shape []string
		if addFn != nil {
			var writePos token.Pos
			ast.Inspect(addFn, func(n ast.Node) bool {
				if c, ok := n.(*ast.CallExpr); ok {
					switch exprString(c.Fun) {
					case "s.db.Write":
						if writePos == 0 && len(c.Args) >= 2 {
							if _, isLit := c.Args[1].(*ast.FuncLit); isLit && len(c.Args) > 2 {
								writePos = c.Pos()
							}
						}
					case "stoabs.OnRollback":
						if len(c.Args) == 1 {
							if id, ok := c.Args[0].(*ast.Ident); ok {
								handlers = append(handlers, id.Name)
							} else {
								var calls []string
								ast.Inspect(c.Args[0], func(m ast.Node) bool {
									if c2, ok := m.(*ast.CallExpr); ok && strings.HasPrefix(exprString(c2.Fun), "s.") {
										calls = append(calls, exprString(c2.Fun))
									}
									return true
								})
								handlers = append(handlers, "func:"+strings.Join(calls, ","))
							}
						}
					}
				}
				return true
			})
			for _, st := range addFn.Body.List { // top-level statements only
				switch x := st.(type) {
				case *ast.ExprStmt:
					if c, ok := x.X.(*ast.CallExpr); ok && exprString(c.Fun) == "s.addMutex.Lock" {
						if writePos != 0 && c.Pos() < writePos {
							shape = append(shape, "Lock:top-level:before-db.Write")
						} else {
							shape = append(shape, "Lock:top-level:NOT-before-db.Write")
						}
					}
				case *ast.DeferStmt:
					shape = append(shape, "defer:top-level:"+c08Src(stFset, x.Call))
				}
			}
		}
		l.def("addRollbackHandlers", "List String", leanStrList(handlers), handlers)
		l.def("addMutexShape", "List String", leanStrList(shape), shape)
		l.def("addFirstAfterCommit", "List String", leanStrList(firstAfter), firstAfter)
		l.def("addDefers", "List String", leanStrList(defers), defers)
	}
	// state.Add: the steps of the write function, in order (which of them write to the store is what the model's
	// `putFails` counts: writePayload 1, markPayloadEventSaved 1, graph.add 4-5, updateState 2)
	{
		var steps []string
		if addFn := funcDecl(st, "Add"); addFn != nil {
			ast.Inspect(addFn, func(n ast.Node) bool {
				c, ok := n.(*ast.CallExpr)
				if !ok || exprString(c.Fun) != "s.db.Write" || len(c.Args) < 2 {
					return true
				}
				if fl, ok := c.Args[1].(*ast.FuncLit); ok {
					ast.Inspect(fl.Body, func(m ast.Node) bool {
						if c2, ok := m.(*ast.CallExpr); ok {
							switch nm := exprString(c2.Fun); {
							case strings.HasPrefix(nm, "s.") || nm == "markPayloadEventSaved" || strings.HasPrefix(nm, "tx."):
								steps = append(steps, nm)
							}
						}
						return true
					})
				}
				return false
			})
		}
		l.def("addWriteSteps", "List String", leanStrList(steps), steps)
		us2 := c08Calls(funcDecl(dg, "add"), "d.")
		l.def("dagAddSteps", "List String", leanStrList(us2), us2)
	}
	l.def("addTxOptions", "List String", leanStrList(c08Calls(funcDecl(st, "Add"), "stoabs.")), c08Calls(funcDecl(st, "Add"), "stoabs."))

	// comparison operators / call structure the model mirrors
	conds := func(name string, f *ast.File, fn string) {
		c := c08Conds(funcDecl(f, fn))
		l.def(name, "List String", leanStrList(c), c)
	}
	conds("condsZeroTo", tr, "ZeroTo")
	conds("condsGetNextNode", tr, "getNextNode")
	conds("condsUpdatePath", tr, "updateOrCreatePath")
	conds("condsNewBranch", tr, "newBranch")
	conds("condsXOR", st, "XOR")
	conds("condsIBLT", st, "IBLT")
	conds("condsDagAdd", dg, "add")
	conds("condsUpdateState", st, "updateState")
	us := c08Calls(funcDecl(st, "updateState"), "s.")
	l.def("updateStateCalls", "List String", leanStrList(us), us)
	ls := c08Calls(funcDecl(st, "loadState"), "s.")
	l.def("loadStateCalls", "List String", leanStrList(ls), ls)
	tw := c08Calls(funcDecl(ts, "write"), "store.")
	l.def("treeStoreWriteCalls", "List String", leanStrList(tw), tw)
	cp := c08Calls(funcDecl(cs, "checkPage"), "f.state.xorTree.")
	l.def("checkPageTreeCalls", "List String", leanStrList(cp), cp)

	// wiring: who loads the state at start-up, who starts the repair loop, what the loop calls, how the trees are set up,
	// what Diagnostics reports
	strs := func(name string, v []string) { l.def(name, "List String", leanStrList(v), v) }
	strs("networkConfigureStateCalls", c08Calls(c08Method(nw, "Network", "Configure"), "n.state."))
	strs("networkStartStateCalls", c08Calls(c08Method(nw, "Network", "Start"), "n.state."))
	strs("stateConfigureCalls", c08Calls(c08Method(st, "state", "Configure"), "s."))
	strs("stateStartRepairCalls", c08Calls(c08Method(st, "state", "Start"), "s.xorTreeRepair."))
	strs("repairLoopCalls", c08Calls(c08Method(cs, "xorTreeRepair", "start"), "f."))
	strs("condsCheckPage", c08Conds(funcDecl(cs, "checkPage")))
	strs("checkPageDbCalls", c08Calls(funcDecl(cs, "checkPage"), "f.state.graph.db."))
	{
		var body []string
		if fd := funcDecl(cs, "checkPage"); fd != nil {
			ast.Inspect(fd, func(n ast.Node) bool {
				c, ok := n.(*ast.CallExpr)
				if !ok || exprString(c.Fun) != "f.state.graph.db.Write" || len(c.Args) < 2 {
					return true
				}
				if fl, ok := c.Args[1].(*ast.FuncLit); ok {
					ast.Inspect(fl.Body, func(m ast.Node) bool {
						if c2, ok := m.(*ast.CallExpr); ok && strings.HasPrefix(exprString(c2.Fun), "f.state.") {
							body = append(body, exprString(c2.Fun))
						}
						return true
					})
				}
				return false
			})
		}
		strs("checkPageWriteBody", body)
		dirtyKeys := func(fn string) []string {
			var r []string
			if fd := funcDecl(tr, fn); fd != nil {
				ast.Inspect(fd, func(n ast.Node) bool {
					if as, ok := n.(*ast.AssignStmt); ok && len(as.Lhs) == 1 {
						if ix, ok := as.Lhs[0].(*ast.IndexExpr); ok && exprString(ix.X) == "t.dirtyLeaves" {
							r = append(r, exprString(ix.Index))
						}
					}
					return true
				})
			}
			return r
		}
		strs("replaceDirtyKeys", dirtyKeys("Replace"))
		strs("updatePathDirtyKeys", dirtyKeys("updateOrCreatePath"))
	}
	strs("signalCalls", append(c08Calls(c08Method(st, "state", "IncorrectStateDetected"), "s."), c08Calls(c08Method(st, "state", "CorrectStateDetected"), "s.")...))
	strs("newStateTreeStores", c08CallsSrc(stFset, funcDecl(st, "NewState"), "newTreeStore"))
	var diag []string
	if fd := c08Method(st, "state", "Diagnostics"); fd != nil {
		ast.Inspect(fd, func(n ast.Node) bool {
			if cl, ok := n.(*ast.CompositeLit); ok && strings.HasSuffix(c08Src(stFset, cl.Type), "GenericDiagnosticResult") {
				diag = append(diag, c08Src(stFset, cl))
			}
			return true
		})
	} else {
		diag = []string{"MISSING"}
	}
	strs("diagnosticsEntries", diag)
	dgFset, dg2 := parseFile("network/dag/dag.go")
	var stat []string
	if fd := funcDecl(dg2, "statistics"); fd != nil {
		ast.Inspect(fd, func(n ast.Node) bool {
			if as, ok := n.(*ast.AssignStmt); ok && len(as.Lhs) == 1 && exprString(as.Lhs[0]) == "result.NumberOfTransactions" {
				stat = append(stat, c08Src(dgFset, as.Rhs[0]))
			}
			return true
		})
	}
	strs("statisticsCountSource", stat)
	c08CodecFacts(l)
	c08PhaseFacts(l)
	return l
}
