package main

import (
	"go/ast"
	"go/token"
	"strings"
)

func init() { extractors["C08"] = extractC08 }

// constant value of `name` in file f as source text ("" when absent)
func c08Const(f *ast.File, name string) string {
	for _, d := range f.Decls {
		gd, ok := d.(*ast.GenDecl)
		if !ok || (gd.Tok != token.CONST && gd.Tok != token.VAR) {
			continue
		}
		for _, s := range gd.Specs {
			vs := s.(*ast.ValueSpec)
			for i, n := range vs.Names {
				if n.Name == name && i < len(vs.Values) {
					return c08Lit(vs.Values[i])
				}
			}
		}
	}
	return ""
}

// uint32(512) -> 512 ; "x" -> x ; 44 -> 44
func c08Lit(e ast.Expr) string {
	switch x := e.(type) {
	case *ast.BasicLit:
		return strings.Trim(x.Value, "\"")
	case *ast.CallExpr:
		if len(x.Args) == 1 {
			return c08Lit(x.Args[0])
		}
	}
	return "<" + exprString(e) + ">"
}

// the conditions of all if/for statements in fn, in source order
func c08Conds(fn *ast.FuncDecl) []string {
	var r []string
	if fn == nil {
		return []string{"MISSING"}
	}
	ast.Inspect(fn, func(n ast.Node) bool {
		switch x := n.(type) {
		case *ast.IfStmt:
			r = append(r, exprString(x.Cond))
		case *ast.ForStmt:
			if x.Cond != nil {
				r = append(r, "for "+exprString(x.Cond))
			}
		}
		return true
	})
	return r
}

// selector-call names (a.b.c) in fn, in source order
func c08Calls(fn *ast.FuncDecl, prefix string) []string {
	var r []string
	if fn == nil {
		return []string{"MISSING"}
	}
	ast.Inspect(fn, func(n ast.Node) bool {
		if c, ok := n.(*ast.CallExpr); ok {
			if s := exprString(c.Fun); strings.HasPrefix(s, prefix) {
				r = append(r, s)
			}
		}
		return true
	})
	return r
}

func extractC08() *lean {
	l := newLean("C08")
	_, st := parseFile("network/dag/state.go")
	_, tr := parseFile("network/dag/tree/tree.go")
	_, ib := parseFile("network/dag/tree/iblt.go")
	_, dg := parseFile("network/dag/dag.go")
	_, cs := parseFile("network/dag/consistency.go")
	_, ts := parseFile("network/dag/treestore.go")

	num := func(name, v string) {
		ok := v != ""
		for _, c := range v {
			if c < '0' || c > '9' {
				ok = false
			}
		}
		if !ok {
			v = ".unknown_" + name // does not elaborate
		}
		l.def(name, "Nat", v, v)
	}
	num("pageSize", c08Const(st, "PageSize"))
	num("ibltNumBuckets", c08Const(st, "IbltNumBuckets"))
	num("ibltK", c08Const(ib, "ibltK"))
	num("bucketBytes", c08Const(ib, "bucketBytes"))
	for _, s := range []string{"xorShelf", "ibltShelf"} {
		v := c08Const(st, s)
		l.def(s, "String", leanStrList([]string{v})[1:len(leanStrList([]string{v}))-1], v)
	}

	// tree.Load: does the "no leaves" branch reset the tree?
	resets := false
	if fd := funcDecl(tr, "Load"); fd != nil {
		for _, s := range fd.Body.List {
			if is, ok := s.(*ast.IfStmt); ok && exprString(is.Cond) == "len() == 0" {
				ast.Inspect(is.Body, func(n ast.Node) bool {
					if c, ok := n.(*ast.CallExpr); ok && exprString(c.Fun) == "t.resetDefaults" {
						resets = true
					}
					return true
				})
				break
			}
		}
	}
	l.def("loadEmptyResets", "Bool", map[bool]string{true: "true", false: "false"}[resets], resets)

	// state.Add: which context does the OnRollback hook give to loadState?
	var rollbackCtx []string
	if fd := funcDecl(st, "Add"); fd != nil {
		ast.Inspect(fd, func(n ast.Node) bool {
			c, ok := n.(*ast.CallExpr)
			if !ok || exprString(c.Fun) != "stoabs.OnRollback" {
				return true
			}
			ast.Inspect(c, func(m ast.Node) bool {
				if c2, ok := m.(*ast.CallExpr); ok && exprString(c2.Fun) == "s.loadState" && len(c2.Args) == 1 {
					rollbackCtx = append(rollbackCtx, exprString(c2.Args[0]))
				}
				return true
			})
			return false
		})
	}
	l.def("rollbackReloadContexts", "List String", leanStrList(rollbackCtx), rollbackCtx)
	l.def("addTxOptions", "List String", leanStrList(c08Calls(funcDecl(st, "Add"), "stoabs.")), c08Calls(funcDecl(st, "Add"), "stoabs."))

	// comparison operators / call structure the model mirrors
	conds := func(name string, f *ast.File, fn string) {
		c := c08Conds(funcDecl(f, fn))
		l.def(name, "List String", leanStrList(c), c)
	}
	conds("condsZeroTo", tr, "ZeroTo")
	conds("condsGetNextNode", tr, "getNextNode")
	conds("condsUpdatePath", tr, "updateOrCreatePath")
	conds("condsNewBranch", tr, "newBranch")
	conds("condsXOR", st, "XOR")
	conds("condsIBLT", st, "IBLT")
	conds("condsDagAdd", dg, "add")
	conds("condsUpdateState", st, "updateState")
	us := c08Calls(funcDecl(st, "updateState"), "s.")
	l.def("updateStateCalls", "List String", leanStrList(us), us)
	ls := c08Calls(funcDecl(st, "loadState"), "s.")
	l.def("loadStateCalls", "List String", leanStrList(ls), ls)
	tw := c08Calls(funcDecl(ts, "write"), "store.")
	l.def("treeStoreWriteCalls", "List String", leanStrList(tw), tw)
	cp := c08Calls(funcDecl(cs, "checkPage"), "f.state.xorTree.")
	l.def("checkPageTreeCalls", "List String", leanStrList(cp), cp)
	return l
}
