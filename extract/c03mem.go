package main

// C03 (wave 9): crypto/memory.go — the kid guards of MemoryJWTSigner.SignJWT / SignJWS and the method set of the type.

import (
	"go/ast"
	"sort"
	"strings"
)

func c03MemoryFacts(l *lean) {
	fset, f := parseFile("crypto/memory.go")
	var guards, methods []string
	for _, d := range f.Decls {
		fd, ok := d.(*ast.FuncDecl)
		if !ok || c03RecvName(fd) != "MemoryJWTSigner" {
			continue
		}
		methods = append(methods, fd.Name.Name)
		if fd.Name.Name != "SignJWT" && fd.Name.Name != "SignJWS" {
			continue
		}
		// every statement that mentions kid, in source order (top level; an if is printed with its body)
		for _, st := range fd.Body.List {
			src := c03Src(fset, st)
			if !strings.Contains(src, "kid") {
				continue
			}
			if is, ok := st.(*ast.IfStmt); ok {
				var b []string
				c03FlatStmts(fset, is.Body.List, 0, &b)
				guards = append(guards, fd.Name.Name+":if "+c03Src(fset, is.Cond)+" -> "+strings.Join(b, "; "))
			} else {
				guards = append(guards, fd.Name.Name+":"+src)
			}
		}
	}
	sort.Strings(methods)
	l.def("memoryKidStmts", "List String", c03StrList(guards), guards)
	l.def("memorySignerMethods", "List String", c03StrList(methods), methods)
}
