package main

// C06 deepening round: shape constants of isJWSSerialization (parser.go) and of the clock-shelf encoding (dag.go),
// regenerated as Lean numerals / lists. A construct that cannot be mapped yields an identifier that does not elaborate.

import (
	"bytes"
	"fmt"
	"go/ast"
	"go/printer"
	"go/token"
	"strconv"
	"strings"
)

// exact source text of a node (gofmt rendering, white space collapsed to single blanks)
var c06Fset *token.FileSet

func c06Src(n ast.Node) string {
	var b bytes.Buffer
	if err := printer.Fprint(&b, c06Fset, n); err != nil {
		return "<unprintable>"
	}
	return strings.Join(strings.Fields(b.String()), " ")
}

func c06CharLit(e ast.Expr) (int, bool) {
	if bl, ok := e.(*ast.BasicLit); ok && bl.Kind == token.CHAR {
		if len(bl.Value) >= 3 {
			r, _, _, err := strconv.UnquoteChar(bl.Value[1:len(bl.Value)-1], '\'')
			if err == nil {
				return int(r), true
			}
		}
	}
	return 0, false
}

func c06NatOr(v int, ok bool, name string) string {
	if ok {
		return strconv.Itoa(v)
	}
	return "unknown_" + name
}

// statements of a function body rendered one level deep (assignments / returns / expression statements / range headers), in source order
func c06Stmts(fd *ast.FuncDecl) []string {
	var out []string
	var walk func(list []ast.Stmt)
	walk = func(list []ast.Stmt) {
		for _, st := range list {
			switch s := st.(type) {
			case *ast.AssignStmt, *ast.ReturnStmt, *ast.ExprStmt, *ast.IncDecStmt, *ast.DeclStmt, *ast.BranchStmt:
				out = append(out, c06Src(st))
			case *ast.IfStmt:
				if s.Init != nil {
					walk([]ast.Stmt{s.Init})
				}
				out = append(out, "if "+c06Src(s.Cond))
				walk(s.Body.List)
				if s.Else != nil {
					out = append(out, "else")
					if b, ok := s.Else.(*ast.BlockStmt); ok {
						walk(b.List)
					} else {
						walk([]ast.Stmt{s.Else})
					}
				}
			case *ast.RangeStmt:
				out = append(out, "range "+c06Src(s.X))
				walk(s.Body.List)
			case *ast.ForStmt:
				h := "for"
				if s.Init != nil {
					h += " " + c06Src(s.Init) + ";"
				}
				if s.Cond != nil {
					h += " " + c06Src(s.Cond)
				}
				if s.Post != nil {
					h += "; " + c06Src(s.Post)
				}
				out = append(out, h)
				walk(s.Body.List)
			case *ast.BlockStmt:
				walk(s.List)
			default:
				out = append(out, fmt.Sprintf("<%T>", st))
			}
		}
	}
	if fd != nil && fd.Body != nil {
		walk(fd.Body.List)
	}
	return out
}

func extractC06Deep(l *lean, _, _ *ast.File) {
	var pf, df *ast.File
	c06Fset, pf = parseFile("network/dag/parser.go")
	fsd, df := parseFile("network/dag/dag.go")
	// ---- isJWSSerialization: separator byte, number of segments, first byte of the JSON serialization, the calls
	sep, sepOK := 0, false
	segs, segsOK := 0, false
	jb, jbOK := 0, false
	var calls []string
	if fd := funcDecl(pf, "isJWSSerialization"); fd != nil {
		calls = c06Calls(fd)
		ast.Inspect(fd, func(n ast.Node) bool {
			switch x := n.(type) {
			case *ast.CallExpr:
				if c06Expr(x.Fun) == "bytes.Split" && len(x.Args) == 2 {
					if cl, ok := x.Args[1].(*ast.CompositeLit); ok && len(cl.Elts) == 1 {
						sep, sepOK = c06CharLit(cl.Elts[0])
					}
				}
			case *ast.BinaryExpr:
				if c06Expr(x.X) == "len(segments)" && x.Op == token.NEQ {
					if bl, ok := x.Y.(*ast.BasicLit); ok && bl.Kind == token.INT {
						v, err := strconv.Atoi(bl.Value)
						segs, segsOK = v, err == nil
					}
				}
				if c06Expr(x.X) == "trimmed[0]" && x.Op == token.EQL {
					jb, jbOK = c06CharLit(x.Y)
				}
			}
			return true
		})
	}
	l.def("framingSep", "Nat", c06NatOr(sep, sepOK, "framingSep"), sep)
	l.def("framingSegments", "Nat", c06NatOr(segs, segsOK, "framingSegments"), segs)
	l.def("framingJsonByte", "Nat", c06NatOr(jb, jbOK, "framingJsonByte"), jb)
	l.def("framingCalls", "List String", leanStrList(calls), calls)
	l.def("framingStmts", "List String", leanStrList(c06Stmts(funcDecl(pf, "isJWSSerialization"))), c06Stmts(funcDecl(pf, "isJWSSerialization")))

	c06Fset = fsd
	// ---- dag.go: shelf and key names, and the bodies of the functions NutsModel/C06/Shelf.lean mirrors
	for _, n := range []string{"metadataShelf", "numberOfTransactionsKey", "highestClockValue", "headRefKey", "transactionsShelf", "clockShelf"} {
		v := c06ConstStr(df, n)
		l.def("dag_"+n, "String", fmt.Sprintf("%q", v), v)
	}
	for _, fn := range []string{"parseHashList", "appendHashList", "indexClockValue", "getRoots", "addSingle", "add", "visitBetweenLC", "setNumberOfTransactions", "setHighestClockValue", "setHead", "bytesToClock", "bytesToCount"} {
		var fd *ast.FuncDecl
		for _, d := range df.Decls {
			if x, ok := d.(*ast.FuncDecl); ok && x.Name.Name == fn {
				fd = x
			}
		}
		st := c06Stmts(fd)
		if fd == nil {
			st = []string{"<missing:" + fn + ">"}
		}
		l.def("dagBody_"+fn, "List String", leanStrList(st), st)
	}
	// ---- transaction.go NewTransaction, signing.go Sign: exact bodies; currentVersion
	fst, tf := parseFile("network/dag/transaction.go")
	c06Fset = fst
	nt := c06Stmts(funcDecl(tf, "NewTransaction"))
	l.def("body_NewTransaction", "List String", leanStrList(nt), nt)
	vp := c06Stmts(funcDecl(tf, "ValidatePayloadType"))
	l.def("body_ValidatePayloadType", "List String", leanStrList(vp), vp)
	cv, cvOK := 0, false
	ast.Inspect(tf, func(n ast.Node) bool {
		if vs, ok := n.(*ast.ValueSpec); ok {
			for i, id := range vs.Names {
				if id.Name == "currentVersion" && i < len(vs.Values) {
					if bl, ok := vs.Values[i].(*ast.BasicLit); ok && bl.Kind == token.INT {
						v, err := strconv.Atoi(bl.Value)
						cv, cvOK = v, err == nil
					}
				}
			}
		}
		return true
	})
	l.def("currentVersion", "Int", c06NatOr(cv, cvOK, "currentVersion"), cv)
	fss, sgf := parseFile("network/dag/signing.go")
	c06Fset = fss
	var signFd *ast.FuncDecl
	for _, d := range sgf.Decls {
		if x, ok := d.(*ast.FuncDecl); ok && x.Name.Name == "Sign" {
			signFd = x
		}
	}
	sb := c06Stmts(signFd)
	if signFd == nil {
		sb = []string{"<missing:Sign>"}
	}
	l.def("body_Sign", "List String", leanStrList(sb), sb)
	// hash.SHA256HashSize
	_, hf := parseFile("crypto/hash/sha256.go")
	hs, hsOK := 0, false
	ast.Inspect(hf, func(n ast.Node) bool {
		if vs, ok := n.(*ast.ValueSpec); ok {
			for i, id := range vs.Names {
				if id.Name == "SHA256HashSize" && i < len(vs.Values) {
					if bl, ok := vs.Values[i].(*ast.BasicLit); ok && bl.Kind == token.INT {
						v, err := strconv.Atoi(bl.Value)
						hs, hsOK = v, err == nil
					}
				}
			}
		}
		return true
	})
	l.def("sha256HashSize", "Nat", c06NatOr(hs, hsOK, "sha256HashSize"), hs)
	extractC06AlgFit(l)
}
