package main

// C09 entry layer: ambassador.Start's selection filter, handleNetworkEvent's error classification, the constants both
// compare with, and "the notifier applies its filters before the receiver". Called at the end of extractC09.

import (
	"go/ast"
	"go/token"
	"strconv"
	"strings"
)

// value of a string constant `name` declared at file level
func c09StringConst(f *ast.File, name string) (string, bool) {
	for _, d := range f.Decls {
		gd, ok := d.(*ast.GenDecl)
		if !ok || gd.Tok != token.CONST {
			continue
		}
		for _, sp := range gd.Specs {
			vs, ok := sp.(*ast.ValueSpec)
			if !ok {
				continue
			}
			for i, n := range vs.Names {
				if n.Name == name && i < len(vs.Values) {
					if bl, ok := vs.Values[i].(*ast.BasicLit); ok && bl.Kind == token.STRING {
						if s, err := strconv.Unquote(bl.Value); err == nil {
							return s, true
						}
					}
				}
			}
		}
	}
	return "", false
}

// a chain `a == b && c != d && ...` as its (lhs, operator, rhs) triples; ok=false when a conjunct is not a comparison
func c09EqConjuncts(e ast.Expr) (out [][3]string, ok bool) {
	if p, isP := e.(*ast.ParenExpr); isP {
		return c09EqConjuncts(p.X)
	}
	b, isB := e.(*ast.BinaryExpr)
	if !isB {
		return nil, false
	}
	switch b.Op {
	case token.LAND:
		l, ok1 := c09EqConjuncts(b.X)
		r, ok2 := c09EqConjuncts(b.Y)
		return append(l, r...), ok1 && ok2
	case token.EQL, token.NEQ, token.LSS, token.GTR, token.LEQ, token.GEQ:
		return [][3]string{{c09Src(b.X), b.Op.String(), c09Src(b.Y)}}, true
	}
	return nil, false
}

func c09EntryFacts(l *lean, amb *ast.File) {
	_, notif := parseFile("network/dag/notifier.go")

	if v, ok := c09StringConst(notif, "PayloadEventType"); ok {
		l.def("payloadEventType", "String", strconv.Quote(v), v)
	} else {
		l.def("payloadEventType", "String", ".unknown_PayloadEventType", nil)
	}
	if v, ok := c09StringConst(amb, "DIDDocumentType"); ok {
		l.def("didDocumentType", "String", strconv.Quote(v), v)
	} else {
		l.def("didDocumentType", "String", ".unknown_DIDDocumentType", nil)
	}

	// the closure handed to network.WithSelectionFilter in Start: structured
	var conj [][3]string
	conjOK := false
	nFilters := 0
	if fd := c09Method(amb, "ambassador", "Start"); fd != nil {
		ast.Inspect(fd, func(n ast.Node) bool {
			c, ok := n.(*ast.CallExpr)
			if !ok || !strings.HasSuffix(exprString(c.Fun), "WithSelectionFilter") || len(c.Args) != 1 {
				return true
			}
			nFilters++
			if fl, ok := c.Args[0].(*ast.FuncLit); ok && len(fl.Body.List) == 1 {
				if r, ok := fl.Body.List[0].(*ast.ReturnStmt); ok && len(r.Results) == 1 {
					conj, conjOK = c09EqConjuncts(r.Results[0])
				}
			}
			return true
		})
	}
	if conjOK && nFilters == 1 {
		var items []string
		for _, p := range conj {
			items = append(items, "("+strconv.Quote(p[0])+", "+strconv.Quote(p[1])+", "+strconv.Quote(p[2])+")")
		}
		l.def("startFilterConjuncts", "List (String × String × String)", "["+strings.Join(items, ", ")+"]", conj)
	} else {
		l.def("startFilterConjuncts", "List (String × String × String)", ".unknown_selection_filter_shape", nFilters)
	}

	// the options Start passes to Subscribe, in order (callee names only)
	var subOpts []string
	subName := ""
	if fd := c09Method(amb, "ambassador", "Start"); fd != nil {
		ast.Inspect(fd, func(n ast.Node) bool {
			c, ok := n.(*ast.CallExpr)
			if !ok || !strings.HasSuffix(exprString(c.Fun), "networkClient.Subscribe") || len(c.Args) < 2 {
				return true
			}
			subName = c09Src(c.Args[0]) + " -> " + c09Src(c.Args[1])
			for _, a := range c.Args[2:] {
				if oc, ok := a.(*ast.CallExpr); ok {
					subOpts = append(subOpts, exprString(oc.Fun))
				} else {
					subOpts = append(subOpts, c09Src(a))
				}
			}
			return false
		})
	}
	l.def("startSubscription", "String", strconv.Quote(subName), subName)
	l.def("startSubscribeOptions", "List String", leanStrList(subOpts), subOpts)

	// checkTransactionIntegrity's payload type test
	integ := ""
	if fd := funcDecl(amb, "checkTransactionIntegrity"); fd != nil {
		for _, st := range fd.Body.List {
			if is, ok := st.(*ast.IfStmt); ok && strings.Contains(c09Src(is.Cond), "PayloadType()") && integ == "" {
				integ = c09Src(is.Cond)
			}
		}
	}
	l.def("integrityPayloadTypeTest", "String", strconv.Quote(integ), integ)

	// handleNetworkEvent: `if err := n.callback(..); err != nil { if !errors.As(err, new(stoabs.ErrDatabase)) { return false,
	// dag.EventFatal{Err: err} }; return false, err }; return true, nil`
	var shape []string
	if fd := c09Method(amb, "ambassador", "handleNetworkEvent"); fd != nil {
		for _, st := range fd.Body.List {
			switch s := st.(type) {
			case *ast.IfStmt:
				shape = append(shape, "if "+c09Src(s.Init)+"; "+c09Src(s.Cond))
				for _, in := range s.Body.List {
					switch t := in.(type) {
					case *ast.IfStmt:
						shape = append(shape, "  if "+c09Src(t.Cond))
						for _, r := range t.Body.List {
							shape = append(shape, "    "+c09Src(r))
						}
						if t.Else != nil {
							shape = append(shape, "  else "+c09Src(t.Else))
						}
					default:
						shape = append(shape, "  "+c09Src(in))
					}
				}
				if s.Else != nil {
					shape = append(shape, "else "+c09Src(s.Else))
				}
			default:
				shape = append(shape, c09Src(st))
			}
		}
	}
	l.def("handleNetworkEventShape", "List String", leanStrList(shape), shape)
	want := []string{
		"if err := n.callback(event.Transaction, event.Payload); err != nil",
		"  if !errors.As(err, new(stoabs.ErrDatabase))",
		"    return false, dag.EventFatal{Err: err}",
		"  return false, err",
		"return true, nil",
	}
	fatalUnlessDb := len(shape) == len(want)
	for i := range want {
		if fatalUnlessDb && shape[i] != want[i] {
			fatalUnlessDb = false
		}
	}
	l.def("networkEventFatalUnlessDatabaseError", "Bool", map[bool]string{true: "true", false: "false"}[fatalUnlessDb], fatalUnlessDb)

	// handleUpdateDIDDocument: the head of the loop over transaction.Previous() — what happens with the lookup's error and
	// with "no version": (condition, what the branch does) in source order, up to the first statement that is not an `if`
	var loopHead []string
	if fd := c09Method(amb, "ambassador", "handleUpdateDIDDocument"); fd != nil {
		done := false
		ast.Inspect(fd, func(n ast.Node) bool {
			rs, ok := n.(*ast.RangeStmt)
			if done || !ok || c09Src(rs.X) != "transaction.Previous()" {
				return true
			}
			done = true
			for i, st := range rs.Body.List {
				if i == 0 {
					loopHead = append(loopHead, c09Src(st))
					continue
				}
				is, ok := st.(*ast.IfStmt)
				if !ok || is.Init != nil || is.Else != nil || len(is.Body.List) != 1 {
					break
				}
				what := c09Src(is.Body.List[0])
				if r, ok := is.Body.List[0].(*ast.ReturnStmt); ok && len(r.Results) == 1 {
					what = "return error"
					if !strings.Contains(c09Src(r.Results[0]), "err") {
						what = "return " + c09Src(r.Results[0])
					}
				}
				loopHead = append(loopHead, c09Src(is.Cond)+" => "+what)
				if c09Src(is.Cond) == "currentDIDDocument == nil" {
					break
				}
			}
			return false
		})
	}
	l.def("updateLookupLoopHead", "List String", leanStrList(loopHead), loopHead)

	// basicServiceValidator.Validate: the key the seen-set of service types is LOOKED UP with and the key it RECORDS
	look, rec := "", ""
	nLook, nRec := 0, 0
	_, vals := parseFile("vdr/didnuts/validators.go")
	if fd := c09Method(vals, "basicServiceValidator", "Validate"); fd != nil {
		ast.Inspect(fd, func(n ast.Node) bool {
			switch t := n.(type) {
			case *ast.IfStmt:
				if ix, ok := t.Cond.(*ast.IndexExpr); ok && c09Src(ix.X) == "knownServiceTypes" {
					look = c09Src(ix.Index)
					nLook++
				}
			case *ast.AssignStmt:
				if len(t.Lhs) == 1 {
					if ix, ok := t.Lhs[0].(*ast.IndexExpr); ok && c09Src(ix.X) == "knownServiceTypes" {
						rec = c09Src(ix.Index)
						nRec++
					}
				}
			}
			return true
		})
	}
	if nLook != 1 || nRec != 1 {
		look, rec = "<"+strconv.Itoa(nLook)+" lookups>", "<"+strconv.Itoa(nRec)+" records>"
	}
	l.def("serviceTypeLookupKey", "String", strconv.Quote(look), look)
	l.def("serviceTypeRecordKey", "String", strconv.Quote(rec), rec)

	// notifier.Notify: the filter loop is the first statement, the receiver is reached only after it
	filtersFirst := false
	if fd := c09Method(notif, "notifier", "Notify"); fd != nil && len(fd.Body.List) >= 2 {
		if rs, ok := fd.Body.List[0].(*ast.RangeStmt); ok && c09Src(rs.X) == "p.filters" && len(rs.Body.List) == 1 {
			if is, ok := rs.Body.List[0].(*ast.IfStmt); ok && c09Src(is.Cond) == "!f(event)" && len(is.Body.List) == 1 && c09Src(is.Body.List[0]) == "return" {
				filtersFirst = strings.Contains(c09Src(fd.Body.List[1]), "p.notifyNow(event)")
			}
		}
	}
	l.def("notifierFiltersBeforeReceiver", "Bool", map[bool]string{true: "true", false: "false"}[filtersFirst], filtersFirst)
}
