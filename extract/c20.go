package main

import (
	"fmt"
	"go/ast"
	"go/parser"
	"go/token"
	"io/fs"
	"path/filepath"
	"sort"
	"strconv"
	"strings"
)

func init() { extractors["C20"] = extractC20 }

func c20Bytes(s string) string {
	b := []byte(s)
	q := make([]string, len(b))
	for i, c := range b {
		q[i] = strconv.Itoa(int(c))
	}
	return "[" + strings.Join(q, ", ") + "]"
}

func c20BytesList(l []string) string {
	q := make([]string, len(l))
	for i, s := range l {
		q[i] = c20Bytes(s)
	}
	return "[" + strings.Join(q, ", ") + "]"
}

// c20Cond prints an expression keeping string literals, calls with arguments and index expressions
func c20Cond(e ast.Expr) string {
	switch x := e.(type) {
	case *ast.BinaryExpr:
		return c20Cond(x.X) + " " + x.Op.String() + " " + c20Cond(x.Y)
	case *ast.ParenExpr:
		return "(" + c20Cond(x.X) + ")"
	case *ast.UnaryExpr:
		return x.Op.String() + c20Cond(x.X)
	case *ast.CallExpr:
		args := make([]string, len(x.Args))
		for i, a := range x.Args {
			args[i] = c20Cond(a)
		}
		return c20Cond(x.Fun) + "(" + strings.Join(args, ", ") + ")"
	case *ast.SelectorExpr:
		return c20Cond(x.X) + "." + x.Sel.Name
	case *ast.IndexExpr:
		return c20Cond(x.X) + "[" + c20Cond(x.Index) + "]"
	}
	return exprString(e)
}

// c20StringSliceVar returns the string elements of `var name = []string{...}`
func c20StringSliceVar(f *ast.File, name string) ([]string, bool) {
	for _, d := range f.Decls {
		gd, ok := d.(*ast.GenDecl)
		if !ok || gd.Tok != token.VAR {
			continue
		}
		for _, sp := range gd.Specs {
			vs := sp.(*ast.ValueSpec)
			for i, n := range vs.Names {
				if n.Name != name || i >= len(vs.Values) {
					continue
				}
				cl, ok := vs.Values[i].(*ast.CompositeLit)
				if !ok {
					return nil, false
				}
				var res []string
				for _, e := range cl.Elts {
					bl, ok := e.(*ast.BasicLit)
					if !ok || bl.Kind != token.STRING {
						return nil, false
					}
					s, _ := strconv.Unquote(bl.Value)
					res = append(res, s)
				}
				return res, true
			}
		}
	}
	return nil, false
}

// c20StrictConds lists, per function, the conditions (if / case guards) that mention strict mode
func c20StrictConds(rel string) []string {
	_, f := parseFile(rel)
	var res []string
	for _, d := range f.Decls {
		fd, ok := d.(*ast.FuncDecl)
		if !ok || fd.Body == nil {
			continue
		}
		ast.Inspect(fd.Body, func(n ast.Node) bool {
			if is, ok := n.(*ast.IfStmt); ok {
				c := c20Cond(is.Cond)
				if strings.Contains(strings.ToLower(c), "strictmode") {
					res = append(res, fd.Name.Name+": "+c)
				}
			}
			return true
		})
	}
	return res
}

func c20Consts(f *ast.File, m map[string]string) {
	for _, d := range f.Decls {
		gd, ok := d.(*ast.GenDecl)
		if !ok || gd.Tok != token.CONST {
			continue
		}
		for _, sp := range gd.Specs {
			vs := sp.(*ast.ValueSpec)
			for i, n := range vs.Names {
				if i < len(vs.Values) {
					if bl, ok := vs.Values[i].(*ast.BasicLit); ok && bl.Kind == token.STRING {
						s, _ := strconv.Unquote(bl.Value)
						m[n.Name] = s
					}
				}
			}
		}
	}
}

var c20FlagMethods = map[string]bool{"String": true, "Bool": true, "Int": true, "Uint": true, "Int64": true, "Duration": true, "StringSlice": true,
	"StringToString": true, "IntSlice": true, "Float64": true, "Uint16": true, "Int32": true, "Uint32": true}

// c20Flags: names registered on a pflag.FlagSet in the FlagSet() function of the file
func c20Flags(rel string) []string {
	_, f := parseFile(rel)
	consts := map[string]string{}
	c20Consts(f, consts)
	var res []string
	fd := funcDecl(f, "FlagSet")
	if fd == nil {
		return []string{"?no-FlagSet-in-" + rel}
	}
	ast.Inspect(fd, func(n ast.Node) bool {
		c, ok := n.(*ast.CallExpr)
		if !ok {
			return true
		}
		sel, ok := c.Fun.(*ast.SelectorExpr)
		if !ok || !c20FlagMethods[sel.Sel.Name] || len(c.Args) < 2 {
			return true
		}
		if id, ok := sel.X.(*ast.Ident); !ok || (id.Name != "flagSet" && id.Name != "flags" && id.Name != "set") {
			return true
		}
		switch a := c.Args[0].(type) {
		case *ast.BasicLit:
			s, _ := strconv.Unquote(a.Value)
			res = append(res, s)
		case *ast.Ident:
			if v, ok := consts[a.Name]; ok {
				res = append(res, v)
			} else {
				res = append(res, "?"+a.Name)
			}
		default:
			res = append(res, "?"+exprString(a))
		}
		return true
	})
	return res
}

func cl0() *ast.File {
	_, f := parseFile("http/client/client.go")
	return f
}

func extractC20() *lean {
	l := newLean("C20")
	// core/url.go: reserved names
	_, urlf := parseFile("core/url.go")
	tlds, ok1 := c20StringSliceVar(urlf, "reservedTLDs")
	l2s, ok2 := c20StringSliceVar(urlf, "reservedAddresses")
	if !ok1 || !ok2 {
		l.sb.WriteString("def reservedTLDs : List (List Nat) := unknown_reserved_lists_shape\n")
	} else {
		l.def("reservedTLDs", "List (List Nat)", c20BytesList(tlds), tlds)
		l.def("reservedAddresses", "List (List Nat)", c20BytesList(l2s), l2s)
	}
	// ParsePublicURL: the two calls with their arguments
	var ppu []string
	if fd := funcDecl(urlf, "ParsePublicURL"); fd != nil {
		ast.Inspect(fd, func(n ast.Node) bool {
			switch x := n.(type) {
			case *ast.IfStmt:
				ppu = append(ppu, "if "+c20Cond(x.Cond))
			case *ast.ReturnStmt:
				for _, r := range x.Results {
					ppu = append(ppu, "return "+c20Cond(r))
				}
			}
			return true
		})
	}
	l.def("parsePublicURLBody", "List String", leanStrList(ppu), ppu)
	var ppws []string
	if fd := funcDecl(urlf, "ParsePublicURLWithScheme"); fd != nil {
		for _, st := range fd.Body.List {
			if is, ok := st.(*ast.IfStmt); ok {
				ppws = append(ppws, c20Cond(is.Cond))
			}
		}
	}
	l.def("parsePublicURLChecks", "List String", leanStrList(ppws), ppws)

	// core/server_config.go: defaults, moved keys, redacted keys
	_, sc := parseFile("core/server_config.go")
	defStrict := "unknown"
	if fd := funcDecl(sc, "NewServerConfig"); fd != nil {
		ast.Inspect(fd, func(n ast.Node) bool {
			if kv, ok := n.(*ast.KeyValueExpr); ok && exprString(kv.Key) == "Strictmode" {
				defStrict = exprString(kv.Value)
			}
			return true
		})
	}
	l.def("defaultStrictmode", "Bool", map[string]string{"true": "true", "false": "false"}[defStrict]+map[bool]string{true: "", false: "unknown_default_strictmode"}[defStrict == "true" || defStrict == "false"], defStrict)
	var loadConds []string
	for _, d := range sc.Decls {
		if fd, ok := d.(*ast.FuncDecl); ok && fd.Name.Name == "Load" && fd.Recv != nil && len(fd.Recv.List) == 1 && len(fd.Recv.List[0].Names) == 1 && fd.Recv.List[0].Names[0].Name == "ngc" {
			for _, st := range fd.Body.List {
				if is, ok := st.(*ast.IfStmt); ok && is.Init == nil {
					loadConds = append(loadConds, c20Cond(is.Cond))
				}
			}
		}
	}
	l.def("loadConds", "List String", leanStrList(loadConds), loadConds)
	redacted, _ := c20StringSliceVar(sc, "redactedConfigKeys")
	l.def("redactedConfigKeys", "List String", leanStrList(redacted), redacted)
	// core/config.go: the secret-flag rule
	_, cf := parseFile("core/config.go")
	var secretConds []string
	if fd := funcDecl(cf, "loadFromFlagSet"); fd != nil {
		ast.Inspect(fd, func(n ast.Node) bool {
			if is, ok := n.(*ast.IfStmt); ok {
				secretConds = append(secretConds, c20Cond(is.Cond))
			}
			return true
		})
	}
	l.def("secretFlagConds", "List String", leanStrList(secretConds), secretConds)

	// strict-mode conditions of every engine (decision-table rows)
	for _, e := range []struct{ name, file string }{
		{"strictCondsCrypto", "crypto/crypto.go"}, {"strictCondsStorage", "storage/engine.go"}, {"strictCondsNetwork", "network/network.go"},
		{"strictCondsAuth", "auth/auth.go"}, {"strictCondsNotary", "auth/services/notary/notary.go"}, {"strictCondsDummy", "auth/services/dummy/dummy.go"},
		{"strictCondsHTTPClient", "http/client/client.go"}, {"strictCondsURL", "core/url.go"}} {
		c := c20StrictConds(e.file)
		l.def(e.name, "List String", leanStrList(c), c)
	}
	// crypto: the `case "":` arm exists and holds the strict check; storage: the empty-connection guard
	_, cr := parseFile("crypto/crypto.go")
	cryptoCases := []string{}
	for _, d := range cr.Decls {
		if fd, ok := d.(*ast.FuncDecl); ok && fd.Name.Name == "Configure" {
			ast.Inspect(fd, func(n ast.Node) bool {
				if sw, ok := n.(*ast.SwitchStmt); ok && c20Cond(sw.Tag) == "client.config.Storage" {
					for _, st := range sw.Body.List {
						cc := st.(*ast.CaseClause)
						if cc.List == nil {
							cryptoCases = append(cryptoCases, "default")
						}
						for _, e := range cc.List {
							cryptoCases = append(cryptoCases, c20Cond(e))
						}
					}
				}
				return true
			})
		}
	}
	l.def("cryptoStorageCases", "List String", leanStrList(cryptoCases), cryptoCases)
	// jsonld: how the loader is told about strict mode
	_, jl := parseFile("jsonld/jsonld.go")
	var jcalls []string
	ast.Inspect(jl, func(n ast.Node) bool {
		if c, ok := n.(*ast.CallExpr); ok && exprString(c.Fun) == "NewContextLoader" {
			jcalls = append(jcalls, c20Cond(c))
		}
		return true
	})
	l.def("jsonldLoaderCalls", "List String", leanStrList(jcalls), jcalls)
	// http engine: where the strict client flag is set
	_, he := parseFile("http/engine.go")
	var hset []string
	ast.Inspect(he, func(n ast.Node) bool {
		if as, ok := n.(*ast.AssignStmt); ok && len(as.Lhs) == 1 && c20Cond(as.Lhs[0]) == "client.StrictMode" {
			hset = append(hset, c20Cond(as.Rhs[0]))
		}
		return true
	})
	l.def("clientStrictAssignments", "List String", leanStrList(hset), hset)
	// … and is that assignment unconditional: a top-level statement of its function, with no `return` anywhere before it,
	// in a function that Configure calls unconditionally (top-level call, no return-with-nil before it)
	uncond := false
	var holder string
	for _, d := range he.Decls {
		fd, ok := d.(*ast.FuncDecl)
		if !ok || fd.Body == nil {
			continue
		}
		seenReturn := false
		for _, st := range fd.Body.List {
			if as, ok := st.(*ast.AssignStmt); ok && len(as.Lhs) == 1 && c20Cond(as.Lhs[0]) == "client.StrictMode" {
				uncond = !seenReturn
				holder = fd.Name.Name
			}
			ast.Inspect(st, func(n ast.Node) bool {
				if _, ok := n.(*ast.ReturnStmt); ok {
					seenReturn = true
				}
				return true
			})
		}
	}
	calledFirst := holder == "Configure"
	if holder != "" && holder != "Configure" {
		for _, d := range he.Decls {
			if fd, ok := d.(*ast.FuncDecl); ok && fd.Name.Name == "Configure" && fd.Body != nil {
				for _, st := range fd.Body.List {
					if es, ok := st.(*ast.ExprStmt); ok {
						if c, ok := es.X.(*ast.CallExpr); ok && strings.HasSuffix(c20Cond(c.Fun), "."+holder) {
							calledFirst = true
						}
					}
					if _, ok := st.(*ast.ExprStmt); !ok {
						break // anything else (an if that may return, …) before the call makes it conditional
					}
				}
			}
		}
	}
	l.def("clientStrictAssignmentUnconditional", "Bool", fmt.Sprint(uncond && calledFirst), uncond && calledFirst)

	// auth.go: is the IAM client's strict flag (auth.strictMode) ever assigned, and from what?
	_, au := parseFile("auth/auth.go")
	var authAssign []string
	ast.Inspect(au, func(n ast.Node) bool {
		if as, ok := n.(*ast.AssignStmt); ok && len(as.Lhs) == 1 && len(as.Rhs) == 1 && c20Cond(as.Lhs[0]) == "auth.strictMode" {
			authAssign = append(authAssign, c20Cond(as.Rhs[0]))
		}
		return true
	})
	l.def("authStrictModeAssignments", "List String", leanStrList(authAssign), authAssign)
	var iamArgs []string
	ast.Inspect(au, func(n ast.Node) bool {
		if c, ok := n.(*ast.CallExpr); ok && c20Cond(c.Fun) == "iam.NewClient" {
			for _, a := range c.Args {
				iamArgs = append(iamArgs, c20Cond(a))
			}
		}
		return true
	})
	l.def("iamNewClientArgs", "List String", leanStrList(iamArgs), iamArgs)
	// is the redirect check a package-level function that reads the global at call time?
	readsGlobal := false
	if fd := funcDecl(cl0(), "checkRedirect"); fd != nil {
		ast.Inspect(fd.Body, func(n ast.Node) bool {
			if id, ok := n.(*ast.Ident); ok && id.Name == "StrictMode" {
				readsGlobal = true
			}
			return true
		})
	}
	l.def("checkRedirectReadsGlobalAtCallTime", "Bool", fmt.Sprint(readsGlobal), readsGlobal)
	// http/client: CheckRedirect of every http.Client literal and the check's refusing conditions
	_, cl := parseFile("http/client/client.go")
	var crs []string
	checkNames := map[string]bool{}
	for _, d := range cl.Decls {
		fd, ok := d.(*ast.FuncDecl)
		if !ok {
			continue
		}
		ast.Inspect(fd, func(n ast.Node) bool {
			c, ok := n.(*ast.CompositeLit)
			if !ok || exprString(c.Type) != "http.Client" {
				return true
			}
			cr := "none"
			for _, el := range c.Elts {
				if kv, ok := el.(*ast.KeyValueExpr); ok && exprString(kv.Key) == "CheckRedirect" {
					cr = exprString(kv.Value)
					checkNames[cr] = true
				}
			}
			crs = append(crs, cr)
			return true
		})
	}
	l.def("clientCheckRedirects", "List String", leanStrList(crs), crs)
	var conds []string
	for _, n := range sortedKeys(checkNames) {
		if fd := funcDecl(cl, n); fd != nil {
			for _, st := range fd.Body.List {
				if is, ok := st.(*ast.IfStmt); ok {
					conds = append(conds, c20Cond(is.Cond))
				}
			}
		}
	}
	l.def("checkRedirectConds", "List String", leanStrList(conds), conds)
	maxR := "none"
	for _, d := range cl.Decls {
		if gd, ok := d.(*ast.GenDecl); ok && gd.Tok == token.CONST {
			for _, sp := range gd.Specs {
				vs := sp.(*ast.ValueSpec)
				for i, n := range vs.Names {
					if n.Name == "maxRedirects" && i < len(vs.Values) {
						if bl, ok := vs.Values[i].(*ast.BasicLit); ok && bl.Kind == token.INT {
							maxR = "some " + bl.Value
						}
					}
				}
			}
		}
	}
	l.def("maxRedirectsConst", "Option Nat", maxR, maxR)
	c20ResponseCap(l, cl)
	c20Sources(l)
	c20CryptoTLS(l)
	c20Round3(l)

	// registered server flags
	var flags []string
	for _, f := range []string{"core/server_config.go", "crypto/cmd/cmd.go", "http/cmd/cmd.go", "storage/cmd/cmd.go", "network/cmd/cmd.go", "vcr/cmd/cmd.go",
		"jsonld/cmd.go", "auth/cmd/cmd.go", "events/cmd/cmd.go", "pki/cmd.go", "golden_hammer/cmd/cmd.go", "discovery/cmd/cmd.go", "policy/cmd.go"} {
		flags = append(flags, c20Flags(f)...)
	}
	sort.Strings(flags)
	l.def("registeredFlags", "List String", leanStrList(flags), flags)
	l.def("registeredFlagsB", "List (List Nat)", c20BytesList(flags), len(flags))
	// which flag sets the server command assembles
	_, root := parseFile("cmd/root.go")
	var sets []string
	if fd := funcDecl(root, "serverConfigFlags"); fd != nil {
		ast.Inspect(fd, func(n ast.Node) bool {
			if c, ok := n.(*ast.CallExpr); ok && c20Cond(c.Fun) == "set.AddFlagSet" && len(c.Args) == 1 {
				sets = append(sets, c20Cond(c.Args[0]))
			}
			return true
		})
	}
	l.def("serverFlagSets", "List String", leanStrList(sets), sets)
	// engine order
	var engines []string
	if fd := funcDecl(root, "CreateSystem"); fd != nil {
		ast.Inspect(fd, func(n ast.Node) bool {
			if c, ok := n.(*ast.CallExpr); ok && c20Cond(c.Fun) == "system.RegisterEngine" && len(c.Args) == 1 {
				engines = append(engines, c20Cond(c.Args[0]))
			}
			return true
		})
	}
	l.def("engineOrder", "List String", leanStrList(engines), engines)
	// outbound endpoints of the IAM client: functions that build a request, and those that check the URL first
	var iamChecked, iamAll []string
	for _, f := range []string{"auth/client/iam/client.go", "auth/client/iam/openid4vp.go"} {
		_, af := parseFile(f)
		for _, d := range af.Decls {
			fd, ok := d.(*ast.FuncDecl)
			if !ok || fd.Body == nil {
				continue
			}
			builds, checks := false, false
			ast.Inspect(fd.Body, func(n ast.Node) bool {
				if c, ok := n.(*ast.CallExpr); ok {
					switch c20Cond(c.Fun) {
					case "http.NewRequestWithContext", "http.NewRequest":
						builds = true
					case "core.ParsePublicURL", "oauth.IssuerIdToWellKnown":
						checks = true
					}
				}
				return true
			})
			if builds {
				iamAll = append(iamAll, fd.Name.Name)
			}
			if checks {
				iamChecked = append(iamChecked, fd.Name.Name)
			}
		}
	}
	// inventory of the IAM client's exported methods: does the method validate its endpoint argument with
	// ParsePublicURL / IssuerIdToWellKnown UNCONDITIONALLY (a top-level statement before any branch other than `if err != nil`),
	// only conditionally (nested), or does it hand the argument to an inner method (named)?
	var inventory []string
	for _, f := range []struct{ file, recv, pfx string }{{"auth/client/iam/client.go", "HTTPClient", "http."}, {"auth/client/iam/openid4vp.go", "OpenID4VPClient", "vp."}} {
		_, af := parseFile(f.file)
		for _, d := range af.Decls {
			fd, ok := d.(*ast.FuncDecl)
			if !ok || fd.Body == nil || fd.Recv == nil || len(fd.Recv.List) != 1 || !ast.IsExported(fd.Name.Name) {
				continue
			}
			if rt := strings.TrimPrefix(exprString(fd.Recv.List[0].Type), "*"); rt != f.recv {
				continue
			}
			isCheck := func(n ast.Node) bool {
				found := false
				ast.Inspect(n, func(m ast.Node) bool {
					if c, ok := m.(*ast.CallExpr); ok {
						if fn := c20Cond(c.Fun); fn == "core.ParsePublicURL" || fn == "oauth.IssuerIdToWellKnown" {
							found = true
						}
					}
					return true
				})
				return found
			}
			verdict := "none"
			if isCheck(fd.Body) {
				verdict = "conditional"
			}
			for _, st := range fd.Body.List {
				if is, ok := st.(*ast.IfStmt); ok {
					if c20Cond(is.Cond) == "err != nil" && is.Init == nil {
						continue
					}
					break
				}
				switch st.(type) {
				case *ast.ForStmt, *ast.RangeStmt, *ast.SwitchStmt, *ast.TypeSwitchStmt, *ast.SelectStmt, *ast.BlockStmt:
				default:
					if isCheck(st) {
						verdict = "unconditional"
					}
					continue
				}
				break
			}
			if verdict == "none" {
				var inner []string
				ast.Inspect(fd.Body, func(m ast.Node) bool {
					if c, ok := m.(*ast.CallExpr); ok {
						if sel, ok := c.Fun.(*ast.SelectorExpr); ok {
							if x := c20Cond(sel.X); x == "iamClient" || x == "c.httpClient" {
								inner = append(inner, sel.Sel.Name)
							}
						}
					}
					return true
				})
				if len(inner) > 0 {
					verdict = "delegates:" + strings.Join(inner, "+")
				}
			}
			inventory = append(inventory, f.pfx+fd.Name.Name+":"+verdict)
		}
	}
	l.def("iamMethodInventory", "List String", leanStrList(inventory), inventory)
	l.def("iamRequestBuilders", "List String", leanStrList(iamAll), iamAll)
	l.def("iamURLCheckers", "List String", leanStrList(iamChecked), iamChecked)
	// inventory over the whole repository (non-test, non-generated): raw net/http clients that bypass http/client,
	// users of the http/client constructors, callers of loadFromFlagSet
	var raw, ctorUsers, flagLoaders []string
	_ = filepath.WalkDir(repo, func(path string, d fs.DirEntry, err error) error {
		if err != nil {
			return nil
		}
		name := d.Name()
		if d.IsDir() {
			if name == ".git" || name == "docs" || name == "e2e-tests" || name == "test" || name == "vendor" || name == "node_modules" {
				return filepath.SkipDir
			}
			return nil
		}
		if !strings.HasSuffix(name, ".go") || strings.HasSuffix(name, "_test.go") || name == "generated.go" || strings.Contains(name, "mock") || name == "test.go" || strings.HasPrefix(name, "zz_verif") {
			return nil
		}
		rel, _ := filepath.Rel(repo, path)
		if strings.HasPrefix(rel, "vcr/pe/schema/gen") {
			return nil
		}
		fset := token.NewFileSet()
		f, perr := parser.ParseFile(fset, path, nil, 0)
		if perr != nil {
			return nil
		}
		ast.Inspect(f, func(n ast.Node) bool {
			switch x := n.(type) {
			case *ast.CompositeLit:
				if exprString(x.Type) == "http.Client" && !strings.HasPrefix(rel, "http/client/") {
					raw = append(raw, rel+":http.Client{}")
				}
			case *ast.SelectorExpr:
				if exprString(x) == "http.DefaultClient" {
					raw = append(raw, rel+":http.DefaultClient")
				}
			case *ast.CallExpr:
				fn := c20Cond(x.Fun)
				switch fn {
				case "http.Get", "http.Post", "http.PostForm", "http.Head":
					raw = append(raw, rel+":"+fn)
				case "client.New", "client.NewWithCache", "client.NewWithTLSConfig":
					ctorUsers = append(ctorUsers, rel+":"+fn)
				case "loadFromFlagSet":
					flagLoaders = append(flagLoaders, rel)
				}
			}
			return true
		})
		return nil
	})
	sort.Strings(raw)
	sort.Strings(ctorUsers)
	sort.Strings(flagLoaders)
	l.def("rawHTTPClientSites", "List String", leanStrList(raw), raw)
	l.def("strictClientUsers", "List String", leanStrList(ctorUsers), ctorUsers)
	l.def("flagSetLoaders", "List String", leanStrList(flagLoaders), flagLoaders)
	// jsonld: the comparison of the allow-list filter; notary: the comparison of hasContractValidator
	_, lu := parseFile("jsonld/ldutils.go")
	var filterConds []string
	for _, d := range lu.Decls {
		if fd, ok := d.(*ast.FuncDecl); ok && fd.Name.Name == "LoadDocument" && fd.Recv != nil && len(fd.Recv.List) == 1 && exprString(fd.Recv.List[0].Type) == "filteredDocumentLoader" {
			ast.Inspect(fd.Body, func(n ast.Node) bool {
				if is, ok := n.(*ast.IfStmt); ok {
					filterConds = append(filterConds, c20Cond(is.Cond))
				}
				return true
			})
		}
	}
	l.def("contextFilterConds", "List String", leanStrList(filterConds), filterConds)
	_, nt0 := parseFile("auth/services/notary/notary.go")
	var hcv []string
	if fd := funcDecl(nt0, "hasContractValidator"); fd != nil {
		ast.Inspect(fd.Body, func(n ast.Node) bool {
			if is, ok := n.(*ast.IfStmt); ok {
				hcv = append(hcv, c20Cond(is.Cond))
			}
			return true
		})
	}
	l.def("hasContractValidatorConds", "List String", leanStrList(hcv), hcv)
	var notaryAssigns []string // any rewriting of the configured validator list inside the notary
	ast.Inspect(nt0, func(n ast.Node) bool {
		if as, ok := n.(*ast.AssignStmt); ok && len(as.Lhs) == 1 && strings.HasSuffix(c20Cond(as.Lhs[0]), "ContractValidators") {
			notaryAssigns = append(notaryAssigns, c20Cond(as.Lhs[0]))
		}
		return true
	})
	l.def("notaryValidatorListRewrites", "List String", leanStrList(notaryAssigns), notaryAssigns)
	// notary: how IRMA's production mode is derived
	_, nt := parseFile("auth/services/notary/notary.go")
	var irmaProd []string
	ast.Inspect(nt, func(n ast.Node) bool {
		if kv, ok := n.(*ast.KeyValueExpr); ok && exprString(kv.Key) == "Production" {
			irmaProd = append(irmaProd, c20Cond(kv.Value))
		}
		return true
	})
	l.def("irmaProductionExprs", "List String", leanStrList(irmaProd), irmaProd)
	_ = fmt.Sprint
	return l
}
