package main

// C12 (deepening round): the verifier-side consumers of vcr/pe and ChooseVPFormat.
// Prints what the source says: the statement list of each modelled function (go/printer, whitespace collapsed, prose
// string literals blanked) and the preference list of ChooseVPFormat with go-did's constants resolved from the module
// cache. Expectations are Lean theorems (NutsProofs/Props/C12Consumer.lean).

import (
	"bytes"
	"go/ast"
	"go/parser"
	"go/printer"
	"go/token"
	"os"
	"os/exec"
	"path/filepath"
	"regexp"
	"strconv"
	"strings"
)

var c12ws = regexp.MustCompile(`\s+`)

// c12Shape: one string per top-level statement of the function body
func c12Shape(rel, name, recv string) []string {
	fset, f := parseFile(rel)
	var fd *ast.FuncDecl
	for _, d := range f.Decls {
		if x, ok := d.(*ast.FuncDecl); ok && x.Name.Name == name {
			r := ""
			if x.Recv != nil && len(x.Recv.List) == 1 {
				r = exprString(x.Recv.List[0].Type)
			}
			if r == recv {
				fd = x
			}
		}
	}
	if fd == nil || fd.Body == nil {
		return []string{"<not found: " + name + ">"}
	}
	ast.Inspect(fd, func(n ast.Node) bool {
		if bl, ok := n.(*ast.BasicLit); ok && bl.Kind == token.STRING && strings.Contains(bl.Value, " ") {
			bl.Value = `"..."`
		}
		if gd, ok := n.(*ast.GenDecl); ok {
			gd.Doc = nil
		}
		return true
	})
	out := []string{}
	for _, st := range fd.Body.List {
		var b bytes.Buffer
		cfg := printer.Config{Mode: printer.RawFormat}
		if err := cfg.Fprint(&b, fset, st); err != nil {
			out = append(out, "<unprintable>")
			continue
		}
		// comments are not part of the statement nodes; collapse whitespace
		out = append(out, strings.TrimSpace(c12ws.ReplaceAllString(b.String(), " ")))
	}
	return out
}

// go-did string constants of package vc (module version from /repo/go.mod)
func c12GoDidConsts() map[string]string {
	res := map[string]string{}
	gomod, err := os.ReadFile(filepath.Join(repo, "go.mod"))
	if err != nil {
		return res
	}
	m := regexp.MustCompile(`github.com/nuts-foundation/go-did (v\S+)`).FindSubmatch(gomod)
	if m == nil {
		return res
	}
	cache := os.Getenv("GOMODCACHE")
	if cache == "" {
		if o, err := exec.Command("go", "env", "GOMODCACHE").Output(); err == nil {
			cache = strings.TrimSpace(string(o))
		}
	}
	dir := filepath.Join(cache, "github.com", "nuts-foundation", "go-did@"+string(m[1]), "vc")
	fset := token.NewFileSet()
	pkgs, err := parser.ParseDir(fset, dir, func(fi os.FileInfo) bool { return !strings.HasSuffix(fi.Name(), "_test.go") }, 0)
	if err != nil {
		return res
	}
	for _, p := range pkgs {
		for _, f := range p.Files {
			for _, d := range f.Decls {
				gd, ok := d.(*ast.GenDecl)
				if !ok || gd.Tok != token.CONST {
					continue
				}
				for _, s := range gd.Specs {
					vs := s.(*ast.ValueSpec)
					for i, n := range vs.Names {
						if i < len(vs.Values) {
							if bl, ok := vs.Values[i].(*ast.BasicLit); ok && bl.Kind == token.STRING {
								if v, err := strconv.Unquote(bl.Value); err == nil {
									res["vc."+n.Name] = v
								}
							}
						}
					}
				}
			}
		}
	}
	return res
}

func c12LeanPairs(l [][2]string) string {
	parts := []string{}
	for _, p := range l {
		parts = append(parts, "("+p[0]+", "+p[1]+")")
	}
	return "[" + strings.Join(parts, ", ") + "]"
}

// every regexp2 compile call in vcr/pe (non-test files): (enclosing function, options argument as written)
func c12RegexSites(l *lean) {
	files, _ := filepath.Glob(filepath.Join(repo, "vcr", "pe", "*.go"))
	sites := [][2]string{}
	raw := []string{}
	for _, fn := range files {
		if strings.HasSuffix(fn, "_test.go") {
			continue
		}
		rel, _ := filepath.Rel(repo, fn)
		_, f := parseFile(rel)
		for _, d := range f.Decls {
			fd, ok := d.(*ast.FuncDecl)
			if !ok || fd.Body == nil {
				continue
			}
			ast.Inspect(fd.Body, func(n ast.Node) bool {
				ce, ok := n.(*ast.CallExpr)
				if !ok {
					return true
				}
				name := exprString(ce.Fun)
				if name == "regexp2.Compile" || name == "regexp2.MustCompile" {
					opt := "<missing>"
					if len(ce.Args) == 2 {
						opt = exprString(ce.Args[1])
					}
					sites = append(sites, [2]string{strconv.Quote(fd.Name.Name), strconv.Quote(opt)})
					raw = append(raw, fd.Name.Name+":"+opt)
				}
				return true
			})
		}
	}
	l.def("regexCompileSites", "List (String × String)", c12LeanPairs(sites), raw)
}

func c12ConsumerFacts(l *lean) {
	c12RegexSites(l)
	consts := c12GoDidConsts()
	val := func(e ast.Expr) string {
		if bl, ok := e.(*ast.BasicLit); ok && bl.Kind == token.STRING {
			return bl.Value
		}
		if v, ok := consts[exprString(e)]; ok {
			return strconv.Quote(v)
		}
		return ".unknown_const_" + strings.ReplaceAll(exprString(e), ".", "_")
	}
	// ChooseVPFormat: `if _, ok := formats[KEY]; ok { return VAL }` … `return ""`
	_, ff := parseFile("vcr/pe/format.go")
	prefs := [][2]string{}
	tail := ".unknown_tail"
	if fd := funcDecl(ff, "ChooseVPFormat"); fd != nil {
		for i, st := range fd.Body.List {
			switch x := st.(type) {
			case *ast.IfStmt:
				okShape := false
				if as, ok := x.Init.(*ast.AssignStmt); ok && len(as.Rhs) == 1 && exprString(x.Cond) == "ok" && x.Else == nil && len(x.Body.List) == 1 {
					if ie, ok := as.Rhs[0].(*ast.IndexExpr); ok && exprString(ie.X) == "formats" {
						if rs, ok := x.Body.List[0].(*ast.ReturnStmt); ok && len(rs.Results) == 1 {
							prefs = append(prefs, [2]string{val(ie.Index), val(rs.Results[0])})
							okShape = true
						}
					}
				}
				if !okShape {
					prefs = append(prefs, [2]string{".unknown_if_shape", `""`})
				}
			case *ast.ReturnStmt:
				if i == len(fd.Body.List)-1 && len(x.Results) == 1 {
					tail = val(x.Results[0])
				} else {
					prefs = append(prefs, [2]string{".unknown_early_return", `""`})
				}
			default:
				prefs = append(prefs, [2]string{".unknown_stmt", `""`})
			}
		}
	}
	l.def("vpFormatPreference", "List (String × String)", c12LeanPairs(prefs), prefs)
	l.def("vpFormatDefault", "String", tail, tail)

	for _, fn := range []struct{ lean, rel, name, recv string }{
		{"fulfillShape", "auth/api/iam/session.go", "fulfill", "*PEXConsumer"},
		{"nextShape", "auth/api/iam/session.go", "next", "*PEXConsumer"},
		{"isFulfilledShape", "auth/api/iam/session.go", "isFulfilled", "*PEXConsumer"},
		{"credentialMapShape", "auth/api/iam/session.go", "credentialMap", "*PEXConsumer"},
		{"newPEXConsumerShape", "auth/api/iam/session.go", "newPEXConsumer", ""},
		{"resolveInputDescriptorValuesShape", "auth/api/iam/s2s_vptoken.go", "resolveInputDescriptorValues", ""},
		{"validateRegistrationShape", "discovery/module.go", "validateRegistration", "*Module"},
		{"containsCredentialShape", "discovery/module.go", "containsCredential", ""},
		{"clientRegistrationShape", "discovery/client.go", "findCredentialsAndBuildPresentation", "*clientRegistrationManager"},
		{"clientActivateShape", "discovery/client.go", "activate", "*clientRegistrationManager"},
		{"presenterBuildSubmissionShape", "vcr/holder/presenter.go", "buildSubmission", "presenter"},
		{"formatsMatchShape", "vcr/credential/formats.go", "Match", "Formats"},
		{"normalizeFormatShape", "vcr/credential/formats.go", "normalizeFormat", "Formats"},
		{"normalizeParameterShape", "vcr/credential/formats.go", "normalizeParameter", "Formats"},
		{"normalizeParametersShape", "vcr/credential/formats.go", "normalizeParameters", "Formats"},
		{"difClaimFormatsShape", "vcr/credential/formats.go", "DIFClaimFormats", ""},
		{"openIDSupportedFormatsShape", "vcr/credential/formats.go", "OpenIDSupportedFormats", ""},
	} {
		sh := c12Shape(fn.rel, fn.name, fn.recv)
		l.def(fn.lean, "List String", leanStrList(sh), sh)
	}
}
