package main

// C09 change-log side of the publishing path: Manager.Commit's switch, onUpdate's steps, onCreate's template, getKIDName's
// assembly and the naming functions, NewDocument's key naming. Prints what the source says; expectations are Lean theorems.

import (
	"go/ast"
	"go/token"
	"strconv"
	"strings"
)

func c09PairList(ps [][2]string) string {
	var items []string
	for _, p := range ps {
		items = append(items, "("+strconv.Quote(p[0])+", "+strconv.Quote(p[1])+")")
	}
	return "[" + strings.Join(items, ", ") + "]"
}

// calls (by callee text) inside a function, in source order, printed with their arguments
func c09CallsIn(fd *ast.FuncDecl, wanted []string) []string {
	var calls []string
	if fd == nil {
		return calls
	}
	ast.Inspect(fd, func(n ast.Node) bool {
		if t, ok := n.(*ast.CallExpr); ok {
			f := exprString(t.Fun)
			for _, w := range wanted {
				if f == w {
					calls = append(calls, c09Src(t))
				}
			}
		}
		return true
	})
	return calls
}

func c09CommitFacts(l *lean, amb *ast.File) {
	_, mgr := parseFile("vdr/didnuts/manager.go")

	// Commit: switch change.Type { case X: err = f(...) ... default: err = ... }
	var sw [][2]string
	if fd := c09Method(mgr, "Manager", "Commit"); fd != nil {
		ast.Inspect(fd, func(n ast.Node) bool {
			s, ok := n.(*ast.SwitchStmt)
			if !ok || exprString(s.Tag) != "change.Type" {
				return true
			}
			for _, st := range s.Body.List {
				cc := st.(*ast.CaseClause)
				label := "default"
				if len(cc.List) > 0 {
					var ls []string
					for _, e := range cc.List {
						ls = append(ls, c09Src(e))
					}
					label = strings.Join(ls, ",")
				}
				body := "<unknown>"
				if len(cc.Body) == 1 {
					if as, ok := cc.Body[0].(*ast.AssignStmt); ok && len(as.Rhs) == 1 && exprString(as.Lhs[0]) == "err" {
						body = c09Src(as.Rhs[0])
					}
				}
				sw = append(sw, [2]string{label, body})
			}
			return false
		})
	}
	l.def("commitSwitch", "List (String × String)", c09PairList(sw), sw)

	onDeact := ""
	if fd := c09Method(mgr, "Manager", "onDeactivate"); fd != nil && len(fd.Body.List) == 1 {
		if r, ok := fd.Body.List[0].(*ast.ReturnStmt); ok && len(r.Results) == 1 {
			onDeact = c09Src(r.Results[0])
		}
	}
	l.def("onDeactivateIs", "String", strconv.Quote(onDeact), onDeact)

	// the change type constants (storage/orm/changelog.go)
	_, cl := parseFile("storage/orm/changelog.go")
	var consts [][2]string
	for _, d := range cl.Decls {
		gd, ok := d.(*ast.GenDecl)
		if !ok || gd.Tok != token.CONST {
			continue
		}
		for _, sp := range gd.Specs {
			vs := sp.(*ast.ValueSpec)
			for i, nm := range vs.Names {
				if strings.HasPrefix(nm.Name, "DIDChange") && i < len(vs.Values) {
					if bl, ok := vs.Values[i].(*ast.BasicLit); ok {
						v, _ := strconv.Unquote(bl.Value)
						consts = append(consts, [2]string{nm.Name, v})
					}
				}
			}
		}
	}
	l.def("changeTypeConstants", "List (String × String)", c09PairList(consts), consts)

	// onUpdate: deciding calls in source order, deactivation test, prevs, template
	onUpd := c09Method(mgr, "Manager", "onUpdate")
	calls := c09CallsIn(onUpd, []string{"m.store.Resolve", "m.resolver.Resolve", "resolver.IsDeactivated", "event.DIDDocumentVersion.ToDIDDocument",
		"ManagedDocumentValidator", "m.resolveControllerWithKey", "network.TransactionTemplate", "m.networkClient.CreateTransaction",
		"m.store.Add", "withJSONLDContext"})
	l.def("onUpdateCalls", "List String", leanStrList(calls), calls)
	prevsExpr, tmplExpr, deactTest := "", "", ""
	if onUpd != nil {
		ast.Inspect(onUpd, func(n ast.Node) bool {
			switch t := n.(type) {
			case *ast.AssignStmt:
				if len(t.Lhs) == 1 && len(t.Rhs) == 1 {
					switch exprString(t.Lhs[0]) {
					case "previousTransactions":
						prevsExpr = c09Src(t.Rhs[0])
					case "networkTransaction":
						tmplExpr = c09Src(t.Rhs[0])
					}
				}
			case *ast.IfStmt:
				if strings.Contains(c09Src(t.Cond), "Deactivated") && deactTest == "" {
					deactTest = c09Src(t.Cond)
					if len(t.Body.List) > 0 {
						if r, ok := t.Body.List[len(t.Body.List)-1].(*ast.ReturnStmt); ok && len(r.Results) == 1 {
							deactTest += " => return " + c09Src(r.Results[0])
						}
					}
				}
			}
			return true
		})
	}
	l.def("onUpdatePrevs", "String", strconv.Quote(prevsExpr), prevsExpr)
	l.def("onUpdateTemplate", "String", strconv.Quote(tmplExpr), tmplExpr)
	l.def("onUpdateDeactivatedTest", "String", strconv.Quote(deactTest), deactTest)

	// onCreate: calls, template, refs
	onCr := c09Method(mgr, "Manager", "onCreate")
	var crCalls []string
	crTmpl, crRefs := "", ""
	if onCr != nil {
		ast.Inspect(onCr, func(n ast.Node) bool {
			switch t := n.(type) {
			case *ast.CallExpr:
				f := exprString(t.Fun)
				if f == "event.DIDDocumentVersion.ToDIDDocument" || f == "network.TransactionTemplate" || f == "m.networkClient.CreateTransaction" ||
					strings.HasSuffix(f, ".PublicKey") || strings.Contains(f, "Validator") || strings.HasPrefix(f, "m.store.") || strings.HasPrefix(f, "m.resolver.") {
					crCalls = append(crCalls, c09Src(t))
				}
			case *ast.AssignStmt:
				if len(t.Lhs) == 1 && len(t.Rhs) == 1 {
					switch exprString(t.Lhs[0]) {
					case "networkTx":
						crTmpl = c09Src(t.Rhs[0])
					case "refs":
						crRefs = c09Src(t.Rhs[0])
					}
				}
			}
			return true
		})
	}
	l.def("onCreateCalls", "List String", leanStrList(crCalls), crCalls)
	l.def("onCreateTemplate", "String", strconv.Quote(crTmpl), crTmpl)
	l.def("onCreateRefs", "String", strconv.Quote(crRefs), crRefs)

	// getKIDName: the assignments to the fields of kid
	var asm [][2]string
	if fd := c09Method(mgr, "", "getKIDName"); fd != nil {
		ast.Inspect(fd, func(n ast.Node) bool {
			if as, ok := n.(*ast.AssignStmt); ok && len(as.Lhs) == 1 && len(as.Rhs) == 1 && strings.HasPrefix(exprString(as.Lhs[0]), "kid.") {
				asm = append(asm, [2]string{exprString(as.Lhs[0]), c09Src(as.Rhs[0])})
			}
			return true
		})
	}
	l.def("kidAssembly", "List (String × String)", c09PairList(asm), asm)

	// DIDKIDNamingFunc: getKIDName(pKey, <idFunc>)
	idf := ""
	if fd := c09Method(mgr, "", "DIDKIDNamingFunc"); fd != nil {
		for _, c := range c09CallsInExprs(fd, "getKIDName") {
			if len(c.Args) == 2 {
				idf = c09Src(c.Args[1])
			}
		}
	}
	l.def("didKIDNamingIdFunc", "String", strconv.Quote(idf), idf)
	// didSubKIDNamingFunc: the closure handed to getKIDName returns <expr>, nil
	subID := ""
	if fd := c09Method(mgr, "", "didSubKIDNamingFunc"); fd != nil {
		for _, c := range c09CallsInExprs(fd, "getKIDName") {
			if len(c.Args) == 2 {
				if fl, ok := c.Args[1].(*ast.FuncLit); ok && len(fl.Body.List) == 1 {
					if r, ok := fl.Body.List[0].(*ast.ReturnStmt); ok && len(r.Results) == 2 {
						subID = c09Src(r.Results[0])
					}
				}
			}
		}
	}
	l.def("didSubKIDNamingId", "String", strconv.Quote(subID), subID)

	// handleCreateDIDDocument: the function that computes signingKeyThumbprint
	thumbFn := ""
	if fd := c09Method(amb, "ambassador", "handleCreateDIDDocument"); fd != nil {
		ast.Inspect(fd, func(n ast.Node) bool {
			if as, ok := n.(*ast.AssignStmt); ok && len(as.Lhs) == 2 && len(as.Rhs) == 1 && exprString(as.Lhs[0]) == "signingKeyThumbprint" {
				if c, ok := as.Rhs[0].(*ast.CallExpr); ok {
					thumbFn = exprString(c.Fun)
				}
			}
			return true
		})
	}
	l.def("createThumbprintFunc", "String", strconv.Quote(thumbFn), thumbFn)

	// NewDocument: how the key is named and how the method is made
	nd := c09Method(mgr, "Manager", "NewDocument")
	naming, vm := "", ""
	for _, c := range c09CallsIn(nd, []string{"m.keyStore.New"}) {
		naming = c
	}
	for _, c := range c09CallsIn(nd, []string{"did.NewVerificationMethod"}) {
		vm = c
	}
	l.def("newDocumentNaming", "String", strconv.Quote(naming), naming)
	l.def("newDocumentVM", "String", strconv.Quote(vm), vm)

	// MethodName constant
	method := ""
	for _, d := range mgr.Decls {
		if gd, ok := d.(*ast.GenDecl); ok && gd.Tok == token.CONST {
			for _, sp := range gd.Specs {
				vs := sp.(*ast.ValueSpec)
				for i, nm := range vs.Names {
					if nm.Name == "MethodName" && i < len(vs.Values) {
						if bl, ok := vs.Values[i].(*ast.BasicLit); ok {
							method, _ = strconv.Unquote(bl.Value)
						}
					}
				}
			}
		}
	}
	l.def("methodName", "String", strconv.Quote(method), method)
}

func c09CallsInExprs(fd *ast.FuncDecl, callee string) []*ast.CallExpr {
	var out []*ast.CallExpr
	ast.Inspect(fd, func(n ast.Node) bool {
		if c, ok := n.(*ast.CallExpr); ok && exprString(c.Fun) == callee {
			out = append(out, c)
		}
		return true
	})
	return out
}
