package main

// C18 (deepening round 2): vdr/didx509 — the PolicyKey variables, the validatorMap (key -> which certificate attribute is
// compared and how), the policy-name switch of validatePolicy, the hash switch, the thumbprint headers with their
// algorithms and the order of the calls in Resolver.Resolve.

import (
	"fmt"
	"go/ast"
	"go/token"
	"strconv"
	"strings"
)

func c18xStrConsts(files ...*ast.File) map[string]string {
	res := map[string]string{}
	for _, f := range files {
		ast.Inspect(f, func(n ast.Node) bool {
			vs, ok := n.(*ast.ValueSpec)
			if !ok {
				return true
			}
			for i, nm := range vs.Names {
				if i < len(vs.Values) {
					v := vs.Values[i]
					if c, ok := v.(*ast.CallExpr); ok && len(c.Args) == 1 { // typed constant: T("text")
						if _, isIdent := c.Fun.(*ast.Ident); isIdent {
							v = c.Args[0]
						}
					}
					if bl, ok := v.(*ast.BasicLit); ok && bl.Kind == token.STRING {
						if v, err := strconv.Unquote(bl.Value); err == nil {
							res[nm.Name] = v
						}
					}
				}
			}
			return true
		})
	}
	return res
}

func c18xTriples(rows [][3]string) string {
	var parts []string
	for _, r := range rows {
		parts = append(parts, fmt.Sprintf("(%q, %q, %q)", r[0], r[1], r[2]))
	}
	return "[" + strings.Join(parts, ", ") + "]"
}

// c18xValidatorBody: how the function literal of one validatorMap entry compares `value`: (mode, attribute expression)
func c18xValidatorBody(fl *ast.FuncLit) (string, string) {
	mode, field := "unknown_", ""
	subjectAlias := false
	n := 0
	ast.Inspect(fl.Body, func(x ast.Node) bool {
		switch e := x.(type) {
		case *ast.AssignStmt:
			if len(e.Lhs) == 1 && len(e.Rhs) == 1 && exprString(e.Lhs[0]) == "subject" && exprString(e.Rhs[0]) == "cert.Subject" {
				subjectAlias = true
			}
			if len(e.Rhs) == 1 {
				if c, ok := e.Rhs[0].(*ast.CallExpr); ok && exprString(c.Fun) == "findOtherNameValues" && len(c.Args) == 1 && exprString(c.Args[0]) == "cert" {
					field = "findOtherNameValues(cert)"
				}
			}
		case *ast.UnaryExpr:
			if c, ok := e.X.(*ast.CallExpr); ok && e.Op == token.NOT && exprString(c.Fun) == "slices.Contains" && len(c.Args) == 2 && exprString(c.Args[1]) == "value" {
				n++
				mode = "contains"
				if a := exprString(c.Args[0]); a != "nameValues" {
					field = a
				} else if field != "findOtherNameValues(cert)" {
					mode = "unknown_"
				}
			}
		case *ast.BinaryExpr:
			if e.Op == token.NEQ && exprString(e.Y) == "value" {
				n++
				mode, field = "eq", exprString(e.X)
			}
			if e.Op == token.EQL && exprString(e.Y) == "value" && exprString(e.X) == "ip.String()" {
				n++
				mode = "ipstr"
			}
		case *ast.RangeStmt:
			if exprString(e.Value) == "ip" {
				field = exprString(e.X)
			}
		}
		return true
	})
	if n != 1 {
		mode = "unknown_"
	}
	if subjectAlias {
		field = strings.Replace(field, "subject.", "cert.Subject.", 1)
	}
	return mode, field
}

func c18xFacts(l *lean) {
	_, val := parseFile("vdr/didx509/validation.go")
	_, res := parseFile("vdr/didx509/resolver.go")
	_, utl := parseFile("vdr/didx509/x509_utils.go")
	consts := c18xStrConsts(val, res, utl)
	cv := func(e ast.Expr) string {
		s := exprString(e)
		if v, ok := consts[s]; ok {
			return v
		}
		return "unknown_" + s
	}
	// PolicyKey variables
	keys := map[string][2]string{}
	var keyRows [][3]string
	ast.Inspect(val, func(n ast.Node) bool {
		vs, ok := n.(*ast.ValueSpec)
		if !ok || len(vs.Names) != 1 || len(vs.Values) != 1 {
			return true
		}
		cl, ok := vs.Values[0].(*ast.CompositeLit)
		if !ok || exprString(cl.Type) != "PolicyKey" {
			return true
		}
		var name, key string
		for _, el := range cl.Elts {
			kv, ok := el.(*ast.KeyValueExpr)
			if !ok {
				continue
			}
			switch exprString(kv.Key) {
			case "name":
				name = cv(kv.Value)
			case "key":
				if bl, ok := kv.Value.(*ast.BasicLit); ok {
					key, _ = strconv.Unquote(bl.Value)
				} else {
					key = "unknown_" + exprString(kv.Value)
				}
			}
		}
		keys[vs.Names[0].Name] = [2]string{name, key}
		keyRows = append(keyRows, [3]string{vs.Names[0].Name, name, key})
		return true
	})
	// validatorMap: (policy name, key) -> (mode, attribute)
	var vm [][3]string
	var vmRaw []string
	ast.Inspect(val, func(n ast.Node) bool {
		vs, ok := n.(*ast.ValueSpec)
		if !ok || len(vs.Names) != 1 || vs.Names[0].Name != "validatorMap" || len(vs.Values) != 1 {
			return true
		}
		cl, ok := vs.Values[0].(*ast.CompositeLit)
		if !ok {
			return true
		}
		for _, el := range cl.Elts {
			kv, ok := el.(*ast.KeyValueExpr)
			if !ok {
				continue
			}
			k, known := keys[exprString(kv.Key)]
			if !known {
				k = [2]string{"unknown_" + exprString(kv.Key), ""}
			}
			mode, field := "unknown_", ""
			if fl, ok := kv.Value.(*ast.FuncLit); ok {
				mode, field = c18xValidatorBody(fl)
			}
			vm = append(vm, [3]string{k[0] + ":" + k[1], mode, field})
			vmRaw = append(vmRaw, k[0]+":"+k[1]+" "+mode+" "+field)
		}
		return false
	})
	l.def("x509ValidatorMap", "List (String × String × String)", c18xTriples(vm), vmRaw)
	var rowsB []string
	for _, r := range vm {
		nk := strings.SplitN(r[0], ":", 2)
		if len(nk) != 2 {
			nk = []string{r[0], ""}
		}
		rowsB = append(rowsB, fmt.Sprintf("((%s, %s), %q, %q)", leanBytes(nk[0]), leanBytes(nk[1]), r[1], r[2]))
	}
	l.def("x509ValidatorRows", "List ((List Nat × List Nat) × String × String)", "["+strings.Join(rowsB, ", ")+"]", len(rowsB))
	l.def("x509PolicyKeyCount", "Nat", fmt.Sprint(len(keyRows)), len(keyRows))
	// validatePolicy: the policy names that reach validate; default
	var names []string
	defaultErr := ""
	if fd := funcDecl(val, "validatePolicy"); fd != nil {
		ast.Inspect(fd, func(n ast.Node) bool {
			if cc, ok := n.(*ast.CaseClause); ok {
				body := ""
				for _, b := range cc.Body {
					body += exprString2(b)
				}
				if cc.List == nil {
					defaultErr = body
				} else if strings.Contains(body, "err=validate(&policy,cert);") {
					for _, e := range cc.List {
						names = append(names, cv(e))
					}
				} else {
					names = append(names, "unknown_body")
				}
			}
			return true
		})
	}
	l.def("x509PolicyNames", "List String", leanStrList(names), names)
	l.def("x509PolicyDefault", "String", strconv.Quote(defaultErr), defaultErr)
	// hash(): algorithms of the switch, lower-casing first
	var algs []string
	lowered := false
	if fd := funcDecl(utl, "hash"); fd != nil {
		ast.Inspect(fd, func(n ast.Node) bool {
			switch x := n.(type) {
			case *ast.CaseClause:
				for _, e := range x.List {
					algs = append(algs, cv(e))
				}
			case *ast.AssignStmt:
				if len(x.Lhs) == 1 && exprString(x.Lhs[0]) == "alg" && c18xExpr(x.Rhs[0]) == "HashAlgorithm(strings.ToLower(string(alg)))" {
					lowered = true
				}
			}
			return true
		})
	}
	l.def("x509HashAlgs", "List String", leanStrList(algs), algs)
	var algsB []string
	for _, a := range algs {
		algsB = append(algsB, leanBytes(a))
	}
	l.def("x509HashAlgsB", "List (List Nat)", "["+strings.Join(algsB, ", ")+"]", len(algsB))
	l.def("x509HashLowered", "Bool", fmt.Sprint(lowered), lowered)
	// findValidationCertificate: header -> algorithm, in order
	var hdr [][3]string
	var hdrRaw []string
	if fd := funcDecl(res, "findValidationCertificate"); fd != nil {
		last := ""
		ast.Inspect(fd, func(n ast.Node) bool {
			c, ok := n.(*ast.CallExpr)
			if !ok {
				return true
			}
			switch exprString(c.Fun) {
			case "metadata.GetProtectedHeaderString":
				if len(c.Args) == 1 {
					last = cv(c.Args[0])
				}
			case "findCertificateByHash":
				if len(c.Args) == 3 {
					hdr = append(hdr, [3]string{last, exprString(c.Args[1]), cv(c.Args[2])})
					hdrRaw = append(hdrRaw, last+" "+exprString(c.Args[1])+" "+cv(c.Args[2]))
				}
			}
			return true
		})
	}
	l.def("x509ThumbprintHeaders", "List (String × String × String)", c18xTriples(hdr), hdrRaw)
	// Resolve: the calls in statement order
	var order []string
	for _, d := range res.Decls {
		fd, ok := d.(*ast.FuncDecl)
		if !ok || fd.Name.Name != "Resolve" || fd.Recv == nil {
			continue
		}
		for _, st := range fd.Body.List {
			as, ok := st.(*ast.AssignStmt)
			if !ok || len(as.Rhs) != 1 {
				continue
			}
			if c, ok := as.Rhs[0].(*ast.CallExpr); ok {
				var args []string
				for _, a := range c.Args {
					args = append(args, exprString(a))
				}
				order = append(order, exprString(c.Fun)+"("+strings.Join(args, ",")+")")
			}
		}
	}
	l.def("x509ResolveOrder", "List String", leanStrList(order), order)
}

func exprString2(n ast.Node) string {
	switch x := n.(type) {
	case *ast.AssignStmt:
		var l, r []string
		for _, e := range x.Lhs {
			l = append(l, exprString(e))
		}
		for _, e := range x.Rhs {
			r = append(r, c18xExpr(e))
		}
		return strings.Join(l, ",") + x.Tok.String() + strings.Join(r, ",") + ";"
	case *ast.ExprStmt:
		return exprString(x.X) + ";"
	}
	return fmt.Sprintf("%T;", n)
}

// c18xExpr renders calls WITH their arguments (exprString drops them)
func c18xExpr(e ast.Expr) string {
	switch x := e.(type) {
	case *ast.CallExpr:
		var args []string
		for _, a := range x.Args {
			args = append(args, c18xExpr(a))
		}
		return exprString(x.Fun) + "(" + strings.Join(args, ",") + ")"
	case *ast.UnaryExpr:
		return x.Op.String() + c18xExpr(x.X)
	}
	return exprString(e)
}
