package main

import (
	"go/ast"
	"strconv"
	"strings"
)

// vcr.Resolve / vcr.Search: how the node answers for a credential of its own store (the Verify call, its arguments, and what
// is done with Verify's error)
func extractC11Resolve(l *lean) {
	_, vcrF := parseFile("vcr/vcr.go")
	rc, rr := c11IfChain(c11Method(vcrF, "vcr", "Resolve"))
	l.def("vcrResolveChain", "List String", leanStrList(rc), rc)
	_ = rr
	// revocation/types.go: the error `(cs *StatusList2021) Verify` returns for a set bit wraps types.ErrRevoked
	_, typF := parseFile("vcr/revocation/types.go")
	wrapped := "<not found>"
	for _, d := range typF.Decls {
		if gd, ok := d.(*ast.GenDecl); ok {
			for _, sp := range gd.Specs {
				if vs, ok := sp.(*ast.ValueSpec); ok {
					for i, n := range vs.Names {
						if n.Name == "errRevoked" && i < len(vs.Values) {
							wrapped = c11Call(vs.Values[i])
						}
					}
				}
			}
		}
	}
	l.def("statusListErrRevoked", "String", strconv.Quote(wrapped), wrapped)
	// the switch inside `if err = c.verifier.Verify(…); err != nil {`: tag (== comparison, not errors.Is), cases and what each returns
	var sw []string
	if fn := c11Method(vcrF, "vcr", "Resolve"); fn != nil {
		ast.Inspect(fn.Body, func(n ast.Node) bool {
			if x, ok := n.(*ast.SwitchStmt); ok {
				tag := "<none>"
				if x.Tag != nil {
					tag = c11Call(x.Tag)
				}
				sw = append(sw, "switch "+tag)
				for _, cs := range x.Body.List {
					cc := cs.(*ast.CaseClause)
					var vals []string
					for _, e := range cc.List {
						vals = append(vals, c11Call(e))
					}
					head := "default"
					if len(vals) > 0 {
						head = "case " + strings.Join(vals, ",")
					}
					for _, st := range cc.Body {
						head += " => " + c11Ret(st)
					}
					sw = append(sw, head)
				}
			}
			return true
		})
	}
	l.def("vcrResolveSwitch", "List String", leanStrList(sw), sw)
	_, seF := parseFile("vcr/search.go")
	var sites []string
	if fn := c11Method(seF, "vcr", "Search"); fn != nil {
		ast.Inspect(fn.Body, func(n ast.Node) bool {
			switch x := n.(type) {
			case *ast.IfStmt:
				s := ""
				if x.Init != nil {
					s = exprStringStmt(x.Init) + "; "
				}
				s += c11Call(x.Cond)
				if strings.Contains(s, "Verify(") {
					then := []string{}
					for _, st := range x.Body.List {
						then = append(then, exprStringStmt(st))
					}
					sites = append(sites, "if "+s+" {"+strings.Join(then, ";")+"}")
				}
			case *ast.ReturnStmt:
				sites = append(sites, c11Ret(x))
			}
			return true
		})
	}
	l.def("vcrSearchVerifySites", "List String", leanStrList(sites), sites)
}

func c11Ret(st ast.Stmt) string {
	if r, ok := st.(*ast.ReturnStmt); ok {
		var a []string
		for _, e := range r.Results {
			a = append(a, c11Call(e))
		}
		return "return " + strings.Join(a, ",")
	}
	return exprStringStmt(st)
}

// verifier.doVerifyVP: top-level statement chain, and every statement of the loop over the presented credentials
func extractC11VP(l *lean) {
	_, verF := parseFile("vcr/verifier/verifier.go")
	fn := c11Method(verF, "verifier", "doVerifyVP")
	conds, _ := c11IfChain(fn)
	if fn != nil {
		for _, st := range fn.Body.List {
			if is, ok := st.(*ast.IfStmt); ok {
				if ei, ok := is.Else.(*ast.IfStmt); ok {
					conds = append(conds, "else-if-of("+c11Call(is.Cond)+"): "+c11Call(ei.Cond))
				}
			}
		}
	}
	l.def("verifyVPChain", "List String", leanStrList(conds), conds)
	var loop []string
	if fn != nil {
		ast.Inspect(fn.Body, func(n ast.Node) bool {
			if rs, ok := n.(*ast.RangeStmt); ok {
				loop = append(loop, "range "+c11Call(rs.X))
				ast.Inspect(rs.Body, func(m ast.Node) bool {
					switch x := m.(type) {
					case *ast.AssignStmt:
						loop = append(loop, exprStringStmt(x))
					case *ast.IfStmt:
						loop = append(loop, "if "+c11Call(x.Cond))
					case *ast.ReturnStmt:
						loop = append(loop, c11Ret(x))
					}
					return true
				})
				return false
			}
			return true
		})
	}
	l.def("verifyVPLoop", "List String", leanStrList(loop), loop)
}
