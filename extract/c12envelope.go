package main

// C12 — facts about the envelope routing layer of vcr/pe/util.go (Envelope.UnmarshalJSON / MarshalJSON /
// ParseEnvelope / tryParseJSONArray / parseJSONArrayEnvelope). Dumb printer: the expectations are Lean theorems.

import (
	"go/ast"
	"go/token"
	"strings"
)

// c12EnvelopeAsIsBytes: the byte literals that `e.raw[0]` is compared with (==, joined by ||) in the condition of the
// if statement of MarshalJSON that returns e.raw. Anything else yields Lean that does not elaborate.
func c12EnvelopeAsIsBytes() []string {
	_, f := parseFile("vcr/pe/util.go")
	out := []string{}
	found := false
	for _, d := range f.Decls {
		fd, ok := d.(*ast.FuncDecl)
		if !ok || fd.Name.Name != "MarshalJSON" || fd.Recv == nil || exprString(fd.Recv.List[0].Type) != "Envelope" {
			continue
		}
		for _, st := range fd.Body.List {
			ifs, ok := st.(*ast.IfStmt)
			if !ok || found {
				continue
			}
			found = true
			var walk func(e ast.Expr)
			walk = func(e ast.Expr) {
				switch x := e.(type) {
				case *ast.ParenExpr:
					walk(x.X)
				case *ast.BinaryExpr:
					if x.Op == token.LOR {
						walk(x.X)
						walk(x.Y)
						return
					}
					lit, isLit := x.Y.(*ast.BasicLit)
					if x.Op == token.EQL && exprString(x.X) == "e.raw[0]" && isLit && lit.Kind == token.CHAR {
						out = append(out, lit.Value)
						return
					}
					out = append(out, ".unknown_comparison_"+strings.ReplaceAll(x.Op.String(), "=", "eq"))
				default:
					out = append(out, ".unknown_condition")
				}
			}
			walk(ifs.Cond)
		}
	}
	if !found {
		out = append(out, ".unknown_no_if_in_MarshalJSON")
	}
	return out
}

func c12EnvelopeFacts(l *lean) {
	bs := c12EnvelopeAsIsBytes()
	l.def("envelopeAsIsFirstBytes", "List Char", "["+strings.Join(bs, ", ")+"]", bs)
	for _, fn := range []struct{ lean, name, recv string }{
		{"envelopeUnmarshalShape", "UnmarshalJSON", "*Envelope"},
		{"envelopeMarshalShape", "MarshalJSON", "Envelope"},
		{"parseEnvelopeShape", "ParseEnvelope", ""},
		{"tryParseJSONArrayShape", "tryParseJSONArray", ""},
		{"parseJSONArrayEnvelopeShape", "parseJSONArrayEnvelope", ""},
		{"parseJSONObjectOrStringEnvelopeShape", "parseJSONObjectOrStringEnvelope", ""},
	} {
		sh := c12Shape("vcr/pe/util.go", fn.name, fn.recv)
		l.def(fn.lean, "List String", leanStrList(sh), sh)
	}
}
