package main

// C20 deepening round: facts REGENERATED AS LEAN DEFINITIONS (the model uses them, the theorems are proved about them)
//   - http/client/client.go: the response cap (constant, reader limit, comparison) and the body pipeline of Do
//   - core/config.go: environment-variable key/value normalisation, source order of loadConfigMap
//   - core/server_config.go: TLSConfig.Enabled, check order of Load
//   - crypto/crypto.go: the back-end switch of Configure

import (
	"bytes"
	"go/ast"
	"go/printer"
	"go/token"
	"strings"
)

// c20Src prints a node as one line of Go source (whitespace collapsed)
func c20Src(n ast.Node) string {
	var b bytes.Buffer
	_ = printer.Fprint(&b, token.NewFileSet(), n)
	return strings.Join(strings.Fields(b.String()), " ")
}

// c20Arith translates an integer / comparison expression into Lean; identifiers through env. ok=false: unknown shape.
func c20Arith(e ast.Expr, env map[string]string) (string, bool) {
	switch x := e.(type) {
	case *ast.BasicLit:
		if x.Kind == token.INT && !strings.ContainsAny(x.Value, "xXbBoO_") {
			return x.Value, true
		}
	case *ast.Ident:
		if v, ok := env[x.Name]; ok {
			return v, true
		}
	case *ast.ParenExpr:
		s, ok := c20Arith(x.X, env)
		return "(" + s + ")", ok
	case *ast.CallExpr:
		if v, ok := env[c20Src(x)]; ok {
			return v, true
		}
	case *ast.BinaryExpr:
		a, ok1 := c20Arith(x.X, env)
		b, ok2 := c20Arith(x.Y, env)
		op := map[token.Token]string{token.ADD: "+", token.SUB: "-", token.MUL: "*", token.GTR: ">", token.GEQ: "≥", token.LSS: "<", token.LEQ: "≤", token.EQL: "=", token.NEQ: "≠"}[x.Op]
		if ok1 && ok2 && op != "" {
			return "(" + a + " " + op + " " + b + ")", true
		}
	}
	return "unknown_shape", false
}

func c20ConstExpr(f *ast.File, name string) ast.Expr {
	for _, d := range f.Decls {
		if gd, ok := d.(*ast.GenDecl); ok && gd.Tok == token.CONST {
			for _, sp := range gd.Specs {
				vs := sp.(*ast.ValueSpec)
				for i, n := range vs.Names {
					if n.Name == name && i < len(vs.Values) {
						return vs.Values[i]
					}
				}
			}
		}
	}
	return nil
}

// c20Stmts prints the statements of a block, one line each, descending into if bodies ("if c {" … "}")
func c20Stmts(b *ast.BlockStmt) []string {
	var out []string
	if b == nil {
		return out
	}
	for _, st := range b.List {
		if is, ok := st.(*ast.IfStmt); ok && is.Else == nil {
			h := "if "
			if is.Init != nil {
				h += c20Src(is.Init) + "; "
			}
			out = append(out, h+c20Src(is.Cond)+" {")
			out = append(out, c20Stmts(is.Body)...)
			out = append(out, "}")
			continue
		}
		out = append(out, c20Src(st))
	}
	return out
}

func c20ResponseCap(l *lean, cl *ast.File) {
	env := map[string]string{}
	capS, ok := "unknown_response_cap", false
	if e := c20ConstExpr(cl, "DefaultMaxHttpResponseSize"); e != nil {
		capS, ok = c20Arith(e, env)
	}
	l.def("maxResponseSize", "Nat", capS, capS)
	env["DefaultMaxHttpResponseSize"] = "maxResponseSize"
	limS, cmpS := "unknown_limit_reader_shape", "unknown_cap_comparison_shape"
	var shape []string
	if fd := funcDecl(cl, "limitedReadAll"); fd != nil && ok {
		shape = c20Stmts(fd.Body)
		ast.Inspect(fd.Body, func(n ast.Node) bool {
			if c, ok := n.(*ast.CallExpr); ok && c20Src(c.Fun) == "io.LimitReader" && len(c.Args) == 2 {
				limS, _ = c20Arith(c.Args[1], env)
			}
			return true
		})
		env["len(result)"] = "n"
		for _, st := range fd.Body.List {
			if is, ok := st.(*ast.IfStmt); ok {
				cmpS, _ = c20Arith(is.Cond, env)
				break
			}
		}
	}
	l.def("responseReadLimit", "Nat", limS, limS)
	l.sb.WriteString("def responseTooLarge (n : Nat) : Bool := decide " + cmpS + "\n")
	l.facts["responseTooLarge"] = cmpS
	l.def("limitedReadAllShape", "List String", leanStrList(shape), shape)
	var do []string
	for _, d := range cl.Decls {
		if fd, ok := d.(*ast.FuncDecl); ok && fd.Name.Name == "Do" && fd.Recv != nil {
			do = c20Stmts(fd.Body)
		}
	}
	l.def("clientDoShape", "List String", leanStrList(do), do)
}
