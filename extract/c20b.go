package main

// C20 deepening round: facts REGENERATED AS LEAN DEFINITIONS (the model uses them, the theorems are proved about them)
//   - http/client/client.go: the response cap (constant, reader limit, comparison) and the body pipeline of Do
//   - core/config.go: environment-variable key/value normalisation, source order of loadConfigMap
//   - core/server_config.go: TLSConfig.Enabled, check order of Load
//   - crypto/crypto.go: the back-end switch of Configure

import (
	"bytes"
	"os"
	"path/filepath"
	"go/ast"
	"go/printer"
	"go/token"
	"strconv"
	"strings"
)

// c20Src prints a node as one line of Go source (whitespace collapsed)
func c20Src(n ast.Node) string {
	var b bytes.Buffer
	_ = printer.Fprint(&b, token.NewFileSet(), n)
	return strings.Join(strings.Fields(b.String()), " ")
}

// c20Arith translates an integer / comparison expression into Lean; identifiers through env. ok=false: unknown shape.
func c20Arith(e ast.Expr, env map[string]string) (string, bool) {
	switch x := e.(type) {
	case *ast.BasicLit:
		if x.Kind == token.INT && !strings.ContainsAny(x.Value, "xXbBoO_") {
			return x.Value, true
		}
	case *ast.Ident:
		if v, ok := env[x.Name]; ok {
			return v, true
		}
	case *ast.ParenExpr:
		s, ok := c20Arith(x.X, env)
		return "(" + s + ")", ok
	case *ast.CallExpr:
		if v, ok := env[c20Src(x)]; ok {
			return v, true
		}
	case *ast.BinaryExpr:
		a, ok1 := c20Arith(x.X, env)
		b, ok2 := c20Arith(x.Y, env)
		if x.Op == token.LOR || x.Op == token.LAND {
			a, ok1 := c20Arith(x.X, env)
			b, ok2 := c20Arith(x.Y, env)
			return "(" + a + map[token.Token]string{token.LOR: " ∨ ", token.LAND: " ∧ "}[x.Op] + b + ")", ok1 && ok2
		}
		op := map[token.Token]string{token.ADD: "+", token.SUB: "-", token.MUL: "*", token.GTR: ">", token.GEQ: "≥", token.LSS: "<", token.LEQ: "≤", token.EQL: "=", token.NEQ: "≠"}[x.Op]
		if ok1 && ok2 && op != "" {
			return "(" + a + " " + op + " " + b + ")", true
		}
	}
	return "unknown_shape", false
}

func c20ConstExpr(f *ast.File, name string) ast.Expr {
	for _, d := range f.Decls {
		if gd, ok := d.(*ast.GenDecl); ok && gd.Tok == token.CONST {
			for _, sp := range gd.Specs {
				vs := sp.(*ast.ValueSpec)
				for i, n := range vs.Names {
					if n.Name == name && i < len(vs.Values) {
						return vs.Values[i]
					}
				}
			}
		}
	}
	return nil
}

// c20Stmts prints the statements of a block, one line each, descending into if bodies ("if c {" … "}")
func c20Stmts(b *ast.BlockStmt) []string {
	var out []string
	if b == nil {
		return out
	}
	for _, st := range b.List {
		if is, ok := st.(*ast.IfStmt); ok && is.Else == nil {
			h := "if "
			if is.Init != nil {
				h += c20Src(is.Init) + "; "
			}
			out = append(out, h+c20Src(is.Cond)+" {")
			out = append(out, c20Stmts(is.Body)...)
			out = append(out, "}")
			continue
		}
		out = append(out, c20Src(st))
	}
	return out
}

func c20ResponseCap(l *lean, cl *ast.File) {
	env := map[string]string{}
	capS, ok := "unknown_response_cap", false
	if e := c20ConstExpr(cl, "DefaultMaxHttpResponseSize"); e != nil {
		capS, ok = c20Arith(e, env)
	}
	l.def("maxResponseSize", "Nat", capS, capS)
	env["DefaultMaxHttpResponseSize"] = "maxResponseSize"
	limS, cmpS := "unknown_limit_reader_shape", "unknown_cap_comparison_shape"
	var shape []string
	if fd := funcDecl(cl, "limitedReadAll"); fd != nil && ok {
		shape = c20Stmts(fd.Body)
		ast.Inspect(fd.Body, func(n ast.Node) bool {
			if c, ok := n.(*ast.CallExpr); ok && c20Src(c.Fun) == "io.LimitReader" && len(c.Args) == 2 {
				limS, _ = c20Arith(c.Args[1], env)
			}
			return true
		})
		env["len(result)"] = "n"
		for _, st := range fd.Body.List {
			if is, ok := st.(*ast.IfStmt); ok {
				cmpS, _ = c20Arith(is.Cond, env)
				break
			}
		}
	}
	l.def("responseReadLimit", "Nat", limS, limS)
	l.sb.WriteString("def responseTooLarge (n : Nat) : Bool := decide " + cmpS + "\n")
	l.facts["responseTooLarge"] = cmpS
	l.def("limitedReadAllShape", "List String", leanStrList(shape), shape)
	var do []string
	for _, d := range cl.Decls {
		if fd, ok := d.(*ast.FuncDecl); ok && fd.Name.Name == "Do" && fd.Recv != nil {
			do = c20Stmts(fd.Body)
		}
	}
	l.def("clientDoShape", "List String", leanStrList(do), do)
}

// c20StrConst returns the value of a string constant
func c20StrConst(f *ast.File, name string) (string, bool) {
	if e := c20ConstExpr(f, name); e != nil {
		if bl, ok := e.(*ast.BasicLit); ok && bl.Kind == token.STRING {
			v, err := strconv.Unquote(bl.Value)
			return v, err == nil
		}
	}
	return "", false
}

// c20Calls lists, in source order, the package-level functions of `names` called in a block
func c20Calls(b ast.Node, names map[string]bool) []string {
	var out []string
	ast.Inspect(b, func(n ast.Node) bool {
		if c, ok := n.(*ast.CallExpr); ok {
			if id, ok := c.Fun.(*ast.Ident); ok && names[id.Name] {
				out = append(out, id.Name)
			}
		}
		return true
	})
	return out
}

func c20Sources(l *lean) {
	_, sc := parseFile("core/server_config.go")
	_, cf := parseFile("core/config.go")
	for _, c := range [][2]string{{"defaultEnvPrefix", "envPrefix"}, {"defaultEnvDelimiter", "envDelimiter"}, {"defaultDelimiter", "keyDelimiter"}, {"configValueListSeparator", "listSeparator"}} {
		if v, ok := c20StrConst(sc, c[0]); ok {
			l.def(c[1], "List Nat", c20Bytes(v), v)
		} else {
			l.sb.WriteString("def " + c[1] + " : List Nat := unknown_const_" + c[0] + "\n")
		}
	}
	// loadFromEnv: the key callback expression, the value callback statements, the escape string
	var keyExpr, esc string
	var valStmts []string
	escOK := false
	if fd := funcDecl(cf, "loadFromEnv"); fd != nil {
		ast.Inspect(fd.Body, func(n ast.Node) bool {
			switch x := n.(type) {
			case *ast.FuncLit:
				valStmts = c20Stmts(x.Body)
			case *ast.AssignStmt:
				if len(x.Lhs) == 1 && c20Src(x.Lhs[0]) == "key" {
					keyExpr = c20Src(x.Rhs[0])
				}
			case *ast.CallExpr:
				if c20Src(x.Fun) == "splitWithEscaping" && len(x.Args) == 3 {
					if bl, ok := x.Args[2].(*ast.BasicLit); ok && bl.Kind == token.STRING && c20Src(x.Args[1]) == "configValueListSeparator" && c20Src(x.Args[0]) == "rawValue" {
						esc, _ = strconv.Unquote(bl.Value)
						escOK = true
					}
				}
			}
			return true
		})
	}
	l.def("envKeyExpr", "String", strconv.Quote(keyExpr), keyExpr)
	if escOK {
		l.def("listEscape", "List Nat", c20Bytes(esc), esc)
	} else {
		l.sb.WriteString("def listEscape : List Nat := unknown_split_with_escaping_call\n")
	}
	l.def("envValueShape", "List String", leanStrList(valStmts), valStmts)
	var sw []string
	if fd := funcDecl(cf, "splitWithEscaping"); fd != nil {
		sw = c20Stmts(fd.Body)
	}
	l.def("splitWithEscapingShape", "List String", leanStrList(sw), sw)
	// loadConfigMap: order of the sources; loadFromFlagSet: the provider call (its third argument makes defaults non-overwriting)
	var order, prov []string
	for _, d := range sc.Decls {
		if fd, ok := d.(*ast.FuncDecl); ok && fd.Name.Name == "loadConfigMap" {
			order = c20Calls(fd.Body, map[string]bool{"loadFromFile": true, "loadFromEnv": true, "loadFromFlagSet": true})
		}
	}
	l.def("loadSourceOrder", "List String", leanStrList(order), order)
	if fd := funcDecl(cf, "loadFromFlagSet"); fd != nil {
		ast.Inspect(fd.Body, func(n ast.Node) bool {
			if c, ok := n.(*ast.CallExpr); ok && c20Src(c.Fun) == "posflag.Provider" {
				prov = append(prov, c20Src(c))
			}
			return true
		})
	}
	l.def("flagProviderCalls", "List String", leanStrList(prov), prov)
	// Load: the sequence of checks (one entry per top-level statement that can return an error), logger formats accepted
	var steps, formats []string
	for _, d := range sc.Decls {
		fd, ok := d.(*ast.FuncDecl)
		if !ok || fd.Name.Name != "Load" || fd.Recv == nil || c20Src(fd.Recv.List[0].Type) != "*ServerConfig" {
			continue
		}
		for _, st := range fd.Body.List {
			switch x := st.(type) {
			case *ast.IfStmt:
				if x.Init != nil {
					steps = append(steps, "call:"+c20Src(x.Init.(*ast.AssignStmt).Rhs[0].(*ast.CallExpr).Fun))
				} else {
					steps = append(steps, "if:"+c20Src(x.Cond))
				}
			case *ast.AssignStmt:
				if c, ok := x.Rhs[0].(*ast.CallExpr); ok {
					steps = append(steps, "call:"+c20Src(c.Fun))
				}
			case *ast.SwitchStmt:
				steps = append(steps, "switch:"+c20Src(x.Tag))
				for _, cc := range x.Body.List {
					cl := cc.(*ast.CaseClause)
					returns := false
					for _, s := range cl.Body {
						if _, ok := s.(*ast.ReturnStmt); ok {
							returns = true
						}
					}
					if cl.List == nil && !returns {
						formats = append(formats, "<default accepts>")
					}
					for _, e := range cl.List {
						if bl, ok := e.(*ast.BasicLit); ok && !returns {
							v, _ := strconv.Unquote(bl.Value)
							formats = append(formats, v)
						}
					}
				}
			}
		}
	}
	l.def("loadSteps", "List String", leanStrList(steps), steps)
	l.def("loggerFormats", "List (List Nat)", c20BytesList(formats), formats)
}

// c20PkgStrConst resolves `pkg.Name` (pkg = import name in file f) to the string constant declared in that package
func c20PkgStrConst(f *ast.File, sel *ast.SelectorExpr) (string, bool) {
	pkg, ok := sel.X.(*ast.Ident)
	if !ok {
		return "", false
	}
	for _, im := range f.Imports {
		path, _ := strconv.Unquote(im.Path.Value)
		name := filepath.Base(path)
		if im.Name != nil {
			name = im.Name.Name
		}
		const mod = "github.com/nuts-foundation/nuts-node/"
		if name != pkg.Name || !strings.HasPrefix(path, mod) {
			continue
		}
		dir := strings.TrimPrefix(path, mod)
		ents, _ := os.ReadDir(filepath.Join(repo, dir))
		for _, e := range ents {
			if e.IsDir() || !strings.HasSuffix(e.Name(), ".go") || strings.HasSuffix(e.Name(), "_test.go") {
				continue
			}
			_, pf := parseFile(filepath.Join(dir, e.Name()))
			if v, ok := c20StrConst(pf, sel.Sel.Name); ok {
				return v, true
			}
		}
	}
	return "", false
}

// crypto.Configure: the back-end names that the switch accepts as explicit (resolved constants, case order);
// core.TLSConfig.Enabled as a Lean definition
func c20CryptoTLS(l *lean) {
	_, cr := parseFile("crypto/crypto.go")
	var names []string
	okAll := false
	for _, d := range cr.Decls {
		fd, ok := d.(*ast.FuncDecl)
		if !ok || fd.Name.Name != "Configure" || fd.Recv == nil {
			continue
		}
		ast.Inspect(fd.Body, func(n ast.Node) bool {
			sw, ok := n.(*ast.SwitchStmt)
			if !ok || c20Src(sw.Tag) != "client.config.Storage" {
				return true
			}
			okAll = true
			for _, cc := range sw.Body.List {
				for _, e := range cc.(*ast.CaseClause).List {
					switch x := e.(type) {
					case *ast.SelectorExpr:
						v, ok := c20PkgStrConst(cr, x)
						if !ok {
							okAll = false
						}
						names = append(names, v)
					case *ast.BasicLit:
						if v, _ := strconv.Unquote(x.Value); v != "" {
							names = append(names, v)
						}
					default:
						okAll = false
					}
				}
			}
			return false
		})
	}
	if okAll {
		l.def("cryptoBackendNames", "List (List Nat)", c20BytesList(names), names)
	} else {
		l.sb.WriteString("def cryptoBackendNames : List (List Nat) := unknown_crypto_storage_switch\n")
	}
	_, sc := parseFile("core/server_config.go")
	en := "unknown_tls_enabled_shape"
	for _, d := range sc.Decls {
		fd, ok := d.(*ast.FuncDecl)
		if !ok || fd.Name.Name != "Enabled" || fd.Recv == nil || c20Src(fd.Recv.List[0].Type) != "TLSConfig" || len(fd.Body.List) != 1 {
			continue
		}
		if rs, ok := fd.Body.List[0].(*ast.ReturnStmt); ok && len(rs.Results) == 1 {
			recv := fd.Recv.List[0].Names[0].Name
			en, _ = c20Arith(rs.Results[0], map[string]string{"len(" + recv + ".CertFile)": "certFileLen", "len(" + recv + ".CertKeyFile)": "certKeyFileLen", "len(" + recv + ".TrustStoreFile)": "trustStoreFileLen"})
		}
	}
	l.sb.WriteString("def tlsEnabled (certFileLen certKeyFileLen trustStoreFileLen : Nat) : Bool := decide " + en + "\n")
	l.facts["tlsEnabled"] = en
}
