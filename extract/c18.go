package main

import (
	"fmt"
	"go/ast"
	"go/token"
	"strconv"
	"strings"
)

func init() { extractors["C18"] = extractC18 }

// caseChars returns the character literals of the LAST `switch` with a case list of char literals in fn.
func caseChars(fn *ast.FuncDecl) ([]int, bool) {
	var res []int
	ok := false
	if fn == nil {
		return nil, false
	}
	ast.Inspect(fn, func(n ast.Node) bool {
		sw, is := n.(*ast.SwitchStmt)
		if !is {
			return true
		}
		var cur []int
		good := true
		for _, st := range sw.Body.List {
			cc := st.(*ast.CaseClause)
			for _, e := range cc.List {
				bl, isLit := e.(*ast.BasicLit)
				if !isLit || bl.Kind != token.CHAR {
					good = false
					continue
				}
				s, err := strconv.Unquote(bl.Value)
				if err != nil {
					good = false
					continue
				}
				cur = append(cur, int([]rune(s)[0]))
			}
		}
		if good && len(cur) > 0 {
			res, ok = cur, true
		}
		return true
	})
	return res, ok
}

func leanNatList(l []int) string {
	q := make([]string, len(l))
	for i, n := range l {
		q[i] = strconv.Itoa(n)
	}
	return "[" + strings.Join(q, ", ") + "]"
}

func leanBytes(s string) string {
	b := []byte(s)
	l := make([]int, len(b))
	for i, c := range b {
		l[i] = int(c)
	}
	return leanNatList(l)
}

// ifConds lists the conditions of the `if` statements directly in fn's body whose body returns a non-nil first result.
func ifConds(fn *ast.FuncDecl) []string {
	var res []string
	if fn == nil {
		return nil
	}
	for _, st := range fn.Body.List {
		is, ok := st.(*ast.IfStmt)
		if !ok {
			continue
		}
		refuses := false
		for _, b := range is.Body.List {
			if r, ok := b.(*ast.ReturnStmt); ok && len(r.Results) > 0 {
				if id, ok := r.Results[len(r.Results)-1].(*ast.Ident); !ok || id.Name != "nil" {
					refuses = true
				}
			}
		}
		if refuses {
			res = append(res, condString(is.Cond))
		}
	}
	return res
}

// condString prints a condition with string literals and index expressions intact.
func condString(e ast.Expr) string {
	switch x := e.(type) {
	case *ast.BinaryExpr:
		return condString(x.X) + " " + x.Op.String() + " " + condString(x.Y)
	case *ast.ParenExpr:
		return "(" + condString(x.X) + ")"
	case *ast.UnaryExpr:
		return x.Op.String() + condString(x.X)
	case *ast.CallExpr:
		args := make([]string, len(x.Args))
		for i, a := range x.Args {
			args[i] = condString(a)
		}
		return condString(x.Fun) + "(" + strings.Join(args, ", ") + ")"
	case *ast.SelectorExpr:
		return condString(x.X) + "." + x.Sel.Name
	case *ast.IndexExpr:
		return condString(x.X) + "[" + condString(x.Index) + "]"
	case *ast.SliceExpr:
		lo, hi := "", ""
		if x.Low != nil {
			lo = condString(x.Low)
		}
		if x.High != nil {
			hi = condString(x.High)
		}
		return condString(x.X) + "[" + lo + ":" + hi + "]"
	}
	return exprString(e)
}

func extractC18() *lean {
	l := newLean("C18", "NutsModel.C18.KeyAct")
	c18KeyFacts(l)
	c18xFacts(l)
	c18JwkFacts(l)
	_, util := parseFile("vdr/didweb/util.go")
	enc, ok1 := caseChars(funcDecl(util, "shouldPercentEncode"))
	dec, ok2 := caseChars(funcDecl(util, "percentDecodeChar"))
	if !ok1 {
		l.sb.WriteString("def encodeSet : List Nat := unknown_shouldPercentEncode_shape\n")
	} else {
		l.def("encodeSet", "List Nat", leanNatList(enc), enc)
	}
	if !ok2 {
		l.sb.WriteString("def decodeSet : List Nat := unknown_percentDecodeChar_shape\n")
	} else {
		l.def("decodeSet", "List Nat", leanNatList(dec), dec)
	}

	// web.go: accepted media types = string case labels of `switch ct` in Resolve
	_, web := parseFile("vdr/didweb/web.go")
	var cts []string
	var resolve *ast.FuncDecl
	for _, d := range web.Decls {
		if fd, ok := d.(*ast.FuncDecl); ok && fd.Name.Name == "Resolve" {
			resolve = fd
		}
	}
	idCheck := false
	if resolve != nil {
		ast.Inspect(resolve, func(n ast.Node) bool {
			switch x := n.(type) {
			case *ast.SwitchStmt:
				if id, ok := x.Tag.(*ast.Ident); ok && id.Name == "ct" {
					for _, st := range x.Body.List {
						for _, e := range st.(*ast.CaseClause).List {
							if bl, ok := e.(*ast.BasicLit); ok && bl.Kind == token.STRING {
								s, _ := strconv.Unquote(bl.Value)
								cts = append(cts, s)
							}
						}
					}
				}
			case *ast.IfStmt:
				if condString(x.Cond) == "!document.ID.Equals(id)" {
					idCheck = true
				}
			}
			return true
		})
	}
	var ctl []string
	for _, c := range cts {
		ctl = append(ctl, leanBytes(c))
	}
	l.def("contentTypes", "List (List Nat)", "["+strings.Join(ctl, ", ")+"]", cts)
	l.def("resolveChecksDocumentID", "Bool", fmt.Sprint(idCheck), idCheck)
	// every `.Equals(id)` comparison in Resolve, and what Resolve returns on success
	var eqChecks, rets []string
	if resolve != nil {
		ast.Inspect(resolve, func(n ast.Node) bool {
			switch x := n.(type) {
			case *ast.IfStmt:
				if c := condString(x.Cond); strings.Contains(c, ".Equals(") {
					eqChecks = append(eqChecks, c)
				}
			case *ast.ReturnStmt:
				if len(x.Results) == 3 && exprString(x.Results[2]) == "nil" {
					rets = append(rets, condString(x.Results[0]))
				}
			}
			return true
		})
	}
	l.def("resolveEqualsChecks", "List String", leanStrList(eqChecks), eqChecks)
	l.def("resolveReturnsDocument", "List String", leanStrList(rets), rets)
	// http/client/caching.go: the expressions that index the response cache
	_, ca := parseFile("http/client/caching.go")
	var idx, popKey []string
	ast.Inspect(ca, func(n ast.Node) bool {
		switch x := n.(type) {
		case *ast.IndexExpr:
			if exprString(x.X) == "h.entriesByURL" {
				if id, ok := x.Index.(*ast.Ident); !ok || id.Name != "requestURL" {
					idx = append(idx, condString(x.Index))
				}
			}
		case *ast.AssignStmt:
			if len(x.Lhs) == 1 && len(x.Rhs) == 1 && exprString(x.Lhs[0]) == "requestURL" {
				popKey = append(popKey, condString(x.Rhs[0]))
			}
		}
		return true
	})
	l.def("cacheIndexExprs", "List String", leanStrList(idx), idx)
	l.def("cachePopKey", "List String", leanStrList(popKey), popKey)
	// deepening round: the control flow of the stateful cache core (conditions of every if/for, assignments, in source order)
	for _, fnName := range []string{"get", "insert", "removeExpiredEntries", "pop", "RoundTrip", "cacheResponse"} {
		var flow []string
		if fd := funcDecl(ca, fnName); fd != nil {
			ast.Inspect(fd.Body, func(n ast.Node) bool {
				switch x := n.(type) {
				case *ast.IfStmt:
					flow = append(flow, "if "+condString(x.Cond))
				case *ast.ForStmt:
					if x.Cond != nil {
						flow = append(flow, "for "+condString(x.Cond))
					} else {
						flow = append(flow, "for")
					}
				case *ast.RangeStmt:
					flow = append(flow, "range "+condString(x.X))
				case *ast.AssignStmt:
					ls, rs := make([]string, len(x.Lhs)), make([]string, len(x.Rhs))
					for i, e := range x.Lhs {
						ls[i] = condString(e)
					}
					for i, e := range x.Rhs {
						rs[i] = condString(e)
					}
					flow = append(flow, strings.Join(ls, ", ")+" "+x.Tok.String()+" "+strings.Join(rs, ", "))
				case *ast.ExprStmt:
					if cs := condString(x.X); !strings.HasPrefix(cs, "log.") { // logging is not control flow
						flow = append(flow, "call "+cs)
					}
				case *ast.DeferStmt:
					return false
				case *ast.BranchStmt:
					flow = append(flow, x.Tok.String())
				case *ast.ReturnStmt:
					rs := make([]string, len(x.Results))
					for i, r := range x.Results {
						rs[i] = condString(r)
					}
					flow = append(flow, "return "+strings.Join(rs, ", "))
				case *ast.CompositeLit:
					return false
				}
				return true
			})
		}
		l.def("cacheFlow_"+fnName, "List String", leanStrList(flow), flow)
	}
	maxCache := "absent"
	ast.Inspect(ca, func(n ast.Node) bool {
		if vs, ok := n.(*ast.ValueSpec); ok && len(vs.Names) == 1 && vs.Names[0].Name == "maxCacheTime" && len(vs.Values) == 1 {
			maxCache = condString(vs.Values[0])
		}
		return true
	})
	l.def("maxCacheTimeExpr", "String", fmt.Sprintf("%q", maxCache), maxCache)

	// web.go NewResolver: redirect check installed on the client, and that function's refusing conditions
	var webConds []string
	webCheck := "none"
	if nr := funcDecl(web, "NewResolver"); nr != nil {
		ast.Inspect(nr, func(n ast.Node) bool {
			if c, ok := n.(*ast.CallExpr); ok {
				if sel, ok := c.Fun.(*ast.SelectorExpr); ok && sel.Sel.Name == "WithRedirectCheck" && len(c.Args) == 1 {
					webCheck = exprString(c.Args[0])
				}
			}
			return true
		})
	}
	if webCheck != "none" {
		webConds = ifConds(funcDecl(web, webCheck))
	}
	l.def("didwebRedirectCheck", "String", fmt.Sprintf("%q", webCheck), webCheck)
	l.def("didwebRedirectConds", "List String", leanStrList(webConds), webConds)

	// http/client/client.go: every http.Client literal and its CheckRedirect; the check's refusing conditions
	_, cl := parseFile("http/client/client.go")
	var ctors []string
	checkNames := map[string]bool{}
	for _, d := range cl.Decls {
		fd, ok := d.(*ast.FuncDecl)
		if !ok {
			continue
		}
		ast.Inspect(fd, func(n ast.Node) bool {
			cl, ok := n.(*ast.CompositeLit)
			if !ok || exprString(cl.Type) != "http.Client" {
				return true
			}
			cr := "none"
			for _, el := range cl.Elts {
				if kv, ok := el.(*ast.KeyValueExpr); ok && exprString(kv.Key) == "CheckRedirect" {
					cr = exprString(kv.Value)
					checkNames[cr] = true
				}
			}
			ctors = append(ctors, fd.Name.Name+":"+cr)
			return true
		})
	}
	l.def("clientConstructors", "List String", leanStrList(ctors), ctors)
	var crs []string
	for _, c := range ctors {
		crs = append(crs, c[strings.Index(c, ":")+1:])
	}
	l.def("clientCheckRedirects", "List String", leanStrList(crs), crs)
	var conds []string
	for _, n := range sortedKeys(checkNames) {
		conds = append(conds, ifConds(funcDecl(cl, n))...)
	}
	l.def("checkRedirectConds", "List String", leanStrList(conds), conds)
	// const maxRedirects and WithRedirectCheck (does the wrapper keep the package policy?)
	maxR := "none"
	for _, d := range cl.Decls {
		if gd, ok := d.(*ast.GenDecl); ok && gd.Tok == token.CONST {
			for _, sp := range gd.Specs {
				vs := sp.(*ast.ValueSpec)
				for i, n := range vs.Names {
					if n.Name == "maxRedirects" && i < len(vs.Values) {
						if bl, ok := vs.Values[i].(*ast.BasicLit); ok && bl.Kind == token.INT {
							maxR = "some " + bl.Value
						}
					}
				}
			}
		}
	}
	l.def("maxRedirectsConst", "Option Nat", maxR, maxR)
	var wrapper []string
	if w := funcDecl(cl, "WithRedirectCheck"); w != nil {
		ast.Inspect(w, func(n ast.Node) bool {
			if fl, ok := n.(*ast.FuncLit); ok {
				for _, st := range fl.Body.List {
					switch x := st.(type) {
					case *ast.IfStmt:
						if as, ok := x.Init.(*ast.AssignStmt); ok && len(as.Rhs) == 1 {
							wrapper = append(wrapper, "if-err:"+condString(as.Rhs[0]))
						}
					case *ast.ReturnStmt:
						if len(x.Results) == 1 {
							wrapper = append(wrapper, "return:"+condString(x.Results[0]))
						}
					}
				}
				return false
			}
			return true
		})
	}
	l.def("withRedirectCheckBody", "List String", leanStrList(wrapper), wrapper)
	// StrictHTTPClient.Do: the first-request scheme check
	var doConds []string
	for _, d := range cl.Decls {
		if fd, ok := d.(*ast.FuncDecl); ok && fd.Name.Name == "Do" {
			doConds = ifConds(fd)
		}
	}
	l.def("strictDoConds", "List String", leanStrList(doConds), doConds)

	// vdr.go: order of the did:web resolver chain
	_, vdr := parseFile("vdr/vdr.go")
	var chain []string
	ast.Inspect(vdr, func(n ast.Node) bool {
		as, ok := n.(*ast.AssignStmt)
		if !ok || len(as.Lhs) != 1 || exprString(as.Lhs[0]) != "webResolver" {
			return true
		}
		ast.Inspect(as.Rhs[0], func(m ast.Node) bool {
			if kv, ok := m.(*ast.KeyValueExpr); ok && exprString(kv.Key) == "Resolvers" {
				if cl, ok := kv.Value.(*ast.CompositeLit); ok {
					for _, e := range cl.Elts {
						chain = append(chain, exprString(e))
					}
				}
			}
			return true
		})
		return true
	})
	l.def("webResolverChain", "List String", leanStrList(chain), chain)
	// methods registered unconditionally / conditionally on the router
	var regs []string
	if cf := funcDecl(vdr, "Configure"); cf != nil {
		var walk func(n ast.Node, guard string)
		walk = func(n ast.Node, guard string) {
			ast.Inspect(n, func(m ast.Node) bool {
				if m == nil {
					return false
				}
				if is, ok := m.(*ast.IfStmt); ok && m != n {
					walk(is.Body, condString(is.Cond))
					if is.Else != nil {
						walk(is.Else, "else")
					}
					return false
				}
				if c, ok := m.(*ast.CallExpr); ok {
					if sel, ok := c.Fun.(*ast.SelectorExpr); ok && sel.Sel.Name == "Register" && len(c.Args) == 2 {
						regs = append(regs, exprString(c.Args[0])+" if "+guard)
					}
				}
				return true
			})
		}
		walk(cf.Body, "true")
	}
	l.def("routerRegistrations", "List String", leanStrList(regs), regs)

	// didsubject/resolver.go: the deactivation branch
	_, ds := parseFile("vdr/didsubject/resolver.go")
	var deact []string
	for _, d := range ds.Decls {
		if fd, ok := d.(*ast.FuncDecl); ok && fd.Name.Name == "Resolve" {
			ast.Inspect(fd, func(n ast.Node) bool {
				if is, ok := n.(*ast.IfStmt); ok {
					c := condString(is.Cond)
					if strings.Contains(c, "IsDeactivated") || strings.Contains(c, "AllowDeactivated") {
						deact = append(deact, c)
					}
				}
				return true
			})
		}
	}
	l.def("deactivationConds", "List String", leanStrList(deact), deact)
	// didsubject/resolver.go: what Resolve returns when the store lookup fails (the chain only moves on for ErrNotFound)
	var errReturns []string
	for _, d := range ds.Decls {
		if fd, ok := d.(*ast.FuncDecl); ok && fd.Name.Name == "Resolve" {
			for _, st := range fd.Body.List {
				is, ok := st.(*ast.IfStmt)
				if !ok || condString(is.Cond) != "err != nil" {
					continue
				}
				ast.Inspect(is.Body, func(n ast.Node) bool {
					if r, ok := n.(*ast.ReturnStmt); ok && len(r.Results) == 3 {
						g := ""
						errReturns = append(errReturns, g+condString(r.Results[2]))
					}
					return true
				})
				break
			}
		}
	}
	l.def("localResolverErrorReturns", "List String", leanStrList(errReturns), errReturns)
	// the time bound of the local lookup: Resolve passes nil unless the caller asked for a time; Latest then bounds by now+1h
	var latestArgs, notAfterDecl, latestDefault []string
	for _, d := range ds.Decls {
		if fd, ok := d.(*ast.FuncDecl); ok && fd.Name.Name == "Resolve" {
			ast.Inspect(fd, func(n ast.Node) bool {
				switch x := n.(type) {
				case *ast.CallExpr:
					if sel, ok := x.Fun.(*ast.SelectorExpr); ok && sel.Sel.Name == "Latest" {
						for _, a := range x.Args {
							latestArgs = append(latestArgs, condString(a))
						}
					}
				case *ast.ValueSpec:
					for i, nm := range x.Names {
						v := "<zero value>"
						if i < len(x.Values) {
							v = condString(x.Values[i])
						}
						notAfterDecl = append(notAfterDecl, nm.Name+" "+condString(x.Type)+" = "+v)
					}
				case *ast.AssignStmt:
					if len(x.Lhs) == 1 && len(x.Rhs) == 1 && (condString(x.Lhs[0]) == "notAfter" || condString(x.Lhs[0]) == "resolveTime") {
						notAfterDecl = append(notAfterDecl, condString(x.Lhs[0])+" "+x.Tok.String()+" "+condString(x.Rhs[0]))
					}
				}
				return true
			})
		}
	}
	_, dd := parseFile("vdr/didsubject/did_document.go")
	for _, d := range dd.Decls {
		if fd, ok := d.(*ast.FuncDecl); ok && fd.Name.Name == "Latest" {
			for _, st := range fd.Body.List {
				if as, ok := st.(*ast.AssignStmt); ok && len(as.Lhs) == 1 && condString(as.Lhs[0]) == "notAfter" {
					latestDefault = append(latestDefault, condString(as.Rhs[0]))
				}
			}
		}
	}
	// the SQL lookup of Latest: every Where / Order / First clause of the query chain, with its arguments (wave 8: the
	// document key is compared with `=`, on the exact DID string)
	var latestQuery []string
	for _, d := range dd.Decls {
		if fd, ok := d.(*ast.FuncDecl); ok && fd.Name.Name == "Latest" {
			ast.Inspect(fd.Body, func(n ast.Node) bool {
				if c, ok := n.(*ast.CallExpr); ok {
					if sel, ok := c.Fun.(*ast.SelectorExpr); ok && (sel.Sel.Name == "Where" || sel.Sel.Name == "Order" || sel.Sel.Name == "First" || sel.Sel.Name == "Or" || sel.Sel.Name == "Not" || sel.Sel.Name == "Raw" || sel.Sel.Name == "Joins") {
						args := make([]string, len(c.Args))
						for i, a := range c.Args {
							args[i] = condString(a)
						}
						latestQuery = append(latestQuery, sel.Sel.Name+"("+strings.Join(args, ", ")+")")
					}
				}
				return true
			})
		}
	}
	l.def("latestQuery", "List String", leanStrList(latestQuery), latestQuery)
	l.def("localLatestArgs", "List String", leanStrList(latestArgs), latestArgs)
	l.def("localNotAfterAssignments", "List String", leanStrList(notAfterDecl), notAfterDecl)
	l.def("latestDefaultBound", "List String", leanStrList(latestDefault), latestDefault)
	return l
}
