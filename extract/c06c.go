package main

// C06 deepening round 3: jwx.AlgorithmFitsKey (crypto/jwx/algorithm.go) regenerated as Lean data — the type switch
// (which Go key types are looked at, and what each clause does) and the curve switch (curve name -> required algorithm) —
// plus the exact statement text of NewTransactionSignatureVerifier (which key the guard is applied to, and where).

import (
	"fmt"
	"go/ast"
	"strings"
)

func extractC06AlgFit(l *lean) {
	fsa, af := parseFile("crypto/jwx/algorithm.go")
	c06Fset = fsa
	var typeCases, curves, curveAlgs []string
	curveDefault := "<missing>"
	if fd := funcDecl(af, "AlgorithmFitsKey"); fd != nil {
		for _, st := range fd.Body.List {
			switch s := st.(type) {
			case *ast.TypeSwitchStmt:
				for _, c := range s.Body.List {
					cc := c.(*ast.CaseClause)
					var ts []string
					for _, e := range cc.List {
						ts = append(ts, c06Src(e))
					}
					if cc.List == nil {
						ts = []string{"default"}
					}
					var body []string
					for _, b := range cc.Body {
						body = append(body, c06Src(b))
					}
					typeCases = append(typeCases, strings.Join(ts, ", ")+" => "+strings.Join(body, "; "))
				}
			case *ast.SwitchStmt:
				if c06Src(s.Tag) != "curve" {
					curves = append(curves, "<unmapped switch:"+c06Src(s.Tag)+">")
					continue
				}
				for _, c := range s.Body.List {
					cc := c.(*ast.CaseClause)
					ret := "<unmapped>"
					if len(cc.Body) == 1 {
						if r, ok := cc.Body[0].(*ast.ReturnStmt); ok && len(r.Results) == 1 {
							ret = c06Src(r.Results[0])
						}
					}
					if cc.List == nil {
						curveDefault = ret
						continue
					}
					for _, e := range cc.List {
						bl, ok := e.(*ast.BasicLit)
						if !ok {
							curves = append(curves, "<unmapped:"+c06Src(e)+">")
						} else {
							curves = append(curves, strings.Trim(bl.Value, `"`))
						}
						// `alg == jwa.ES256` -> ES256 (the jwa constant's name is its JWS "alg" value)
						if be, ok := cc.Body[0].(*ast.ReturnStmt).Results[0].(*ast.BinaryExpr); len(cc.Body) == 1 && ok && c06Src(be.X) == "alg" && be.Op.String() == "==" {
							if sel, ok := be.Y.(*ast.SelectorExpr); ok && c06Src(sel.X) == "jwa" {
								curveAlgs = append(curveAlgs, sel.Sel.Name)
								continue
							}
						}
						curveAlgs = append(curveAlgs, "<unmapped:"+ret+">")
					}
				}
			}
		}
	} else {
		typeCases = []string{"<missing:AlgorithmFitsKey>"}
	}
	l.def("algFitsTypeCases", "List String", leanStrList(typeCases), typeCases)
	l.def("algFitsCurves", "List String", leanStrList(curves), curves)
	l.def("algFitsCurveAlgs", "List String", leanStrList(curveAlgs), curveAlgs)
	l.def("algFitsCurveDefault", "String", fmt.Sprintf("%q", curveDefault), curveDefault)

	fsv, vf := parseFile("network/dag/verifier.go")
	c06Fset = fsv
	fd := funcDecl(vf, "NewTransactionSignatureVerifier")
	sb := []string{"<missing:NewTransactionSignatureVerifier>"}
	if fd != nil {
		// the verifier is the function literal it returns
		ast.Inspect(fd, func(n ast.Node) bool {
			if fl, ok := n.(*ast.FuncLit); ok {
				sb = c06Stmts(&ast.FuncDecl{Name: fd.Name, Type: fl.Type, Body: fl.Body})
				return false
			}
			return true
		})
	}
	l.def("body_sigVerifier", "List String", leanStrList(sb), sb)

	// state.Add: the closure handed to s.db.Write, statement by statement, and the other arguments of that call (rollback /
	// after-commit hooks, write lock) as exact source text
	fss, sf := parseFile("network/dag/state.go")
	c06Fset = fss
	wb := []string{"<missing:state.Add/s.db.Write>"}
	var hooks []string
	if fd := funcDecl(sf, "Add"); fd != nil {
		ast.Inspect(fd, func(n ast.Node) bool {
			if ce, ok := n.(*ast.CallExpr); ok && c06Src(ce.Fun) == "s.db.Write" && len(ce.Args) >= 2 {
				if fl, ok := ce.Args[1].(*ast.FuncLit); ok {
					wb = c06Stmts(&ast.FuncDecl{Name: fd.Name, Type: fl.Type, Body: fl.Body})
				}
				for _, a := range ce.Args[2:] {
					hooks = append(hooks, c06Src(a))
				}
				return false
			}
			return true
		})
	}
	l.def("body_addWrite", "List String", leanStrList(wb), wb)
	l.def("addWriteOptions", "List String", leanStrList(hooks), hooks)
}
