package main

// C18 (deepening round 3): vdr/didjwk/resolver.go — the whole statement sequence of Resolve and rawPrivateKeyOf
// (conditions, assignments, calls, returns in source order) and the messages of the refusing returns of Resolve in order.

import (
	"go/ast"
	"strconv"
	"strings"
)

func c18FlowOf(fd *ast.FuncDecl) []string {
	var flow []string
	if fd == nil {
		return flow
	}
	ast.Inspect(fd.Body, func(n ast.Node) bool {
		switch x := n.(type) {
		case *ast.IfStmt:
			if x.Init != nil {
				if as, ok := x.Init.(*ast.AssignStmt); ok {
					ls, rs := make([]string, len(as.Lhs)), make([]string, len(as.Rhs))
					for i, e := range as.Lhs {
						ls[i] = condString(e)
					}
					for i, e := range as.Rhs {
						rs[i] = condString(e)
					}
					flow = append(flow, "if-init "+strings.Join(ls, ", ")+" "+as.Tok.String()+" "+strings.Join(rs, ", "))
				}
			}
			flow = append(flow, "if "+condString(x.Cond))
			ast.Inspect(x.Body, func(m ast.Node) bool { return c18FlowVisit(m, &flow) })
			if x.Else != nil {
				flow = append(flow, "else")
				ast.Inspect(x.Else, func(m ast.Node) bool { return c18FlowVisit(m, &flow) })
			}
			return false
		}
		return c18FlowVisit(n, &flow)
	})
	return flow
}

func c18FlowVisit(n ast.Node, flow *[]string) bool {
	switch x := n.(type) {
	case *ast.IfStmt:
		*flow = append(*flow, "if "+condString(x.Cond))
	case *ast.ForStmt, *ast.RangeStmt, *ast.SwitchStmt, *ast.TypeSwitchStmt, *ast.GoStmt, *ast.SelectStmt:
		*flow = append(*flow, "unmapped-statement")
	case *ast.AssignStmt:
		ls, rs := make([]string, len(x.Lhs)), make([]string, len(x.Rhs))
		for i, e := range x.Lhs {
			ls[i] = condString(e)
		}
		for i, e := range x.Rhs {
			rs[i] = condString(e)
		}
		*flow = append(*flow, strings.Join(ls, ", ")+" "+x.Tok.String()+" "+strings.Join(rs, ", "))
	case *ast.ExprStmt:
		*flow = append(*flow, "call "+condString(x.X))
	case *ast.DeferStmt:
		*flow = append(*flow, "defer")
		return false
	case *ast.ReturnStmt:
		rs := make([]string, len(x.Results))
		for i, r := range x.Results {
			rs[i] = condString(r)
		}
		*flow = append(*flow, "return "+strings.Join(rs, ", "))
	case *ast.CompositeLit:
		return false
	}
	return true
}

func c18JwkFacts(l *lean) {
	_, f := parseFile("vdr/didjwk/resolver.go")
	res := funcDecl(f, "Resolve")
	flow := c18FlowOf(res)
	l.def("jwkFlow_Resolve", "List String", leanStrList(flow), flow)
	flow2 := c18FlowOf(funcDecl(f, "rawPrivateKeyOf"))
	l.def("jwkFlow_rawPrivateKeyOf", "List String", leanStrList(flow2), flow2)
	// the message (first argument of fmt.Errorf / errors.New) of every `return nil, nil, <error>` of Resolve, in source order
	var msgs []string
	if res != nil {
		ast.Inspect(res.Body, func(n ast.Node) bool {
			r, ok := n.(*ast.ReturnStmt)
			if !ok || len(r.Results) != 3 || exprString(r.Results[0]) != "nil" {
				return true
			}
			msg := "unmapped:" + condString(r.Results[2])
			if c, ok := r.Results[2].(*ast.CallExpr); ok && len(c.Args) > 0 {
				if bl, ok := c.Args[0].(*ast.BasicLit); ok {
					if s, err := strconv.Unquote(bl.Value); err == nil {
						msg = s
					}
				}
			}
			msgs = append(msgs, msg)
			return true
		})
	}
	l.def("jwkRefusals", "List String", leanStrList(msgs), msgs)
	// vdr/didsubject/resolver.go: how the resolve time reaches Latest
	_, sf := parseFile("vdr/didsubject/resolver.go")
	var rtFlow []string
	for _, line := range c18FlowOf(funcDecl(sf, "Resolve")) {
		if strings.Contains(line, "ResolveTime") || strings.Contains(line, "Latest(") {
			rtFlow = append(rtFlow, line)
		}
	}
	l.def("localResolveTimeFlow", "List String", leanStrList(rtFlow), rtFlow)
	// vdr/resolver/did.go: the chain loop, the router lookup / registration, deactivatedError.Is
	_, rf := parseFile("vdr/resolver/did.go")
	for _, d := range rf.Decls {
		fd, ok := d.(*ast.FuncDecl)
		if !ok || fd.Recv == nil || len(fd.Recv.List) != 1 {
			continue
		}
		recv := strings.TrimPrefix(exprString(fd.Recv.List[0].Type), "*")
		var name string
		switch recv + "." + fd.Name.Name {
		case "ChainedDIDResolver.Resolve":
			name = "chainFlow_Resolve"
		case "DIDResolverRouter.Resolve":
			name = "routerFlow_Resolve"
		case "DIDResolverRouter.Register":
			name = "routerFlow_Register"
		case "deactivatedError.Is":
			name = "deactivatedIsFlow"
		default:
			continue
		}
		fl := c18FlowOfLoops(fd)
		l.def(name, "List String", leanStrList(fl), fl)
	}
}

// c18FlowOfLoops: like c18FlowOf, with range / for / continue / break spelled out
func c18FlowOfLoops(fd *ast.FuncDecl) []string {
	var flow []string
	var visit func(n ast.Node) bool
	visit = func(n ast.Node) bool {
		switch x := n.(type) {
		case *ast.RangeStmt:
			flow = append(flow, "range "+condString(x.X))
			return true
		case *ast.ForStmt:
			if x.Cond != nil {
				flow = append(flow, "for "+condString(x.Cond))
			} else {
				flow = append(flow, "for")
			}
			return true
		case *ast.BranchStmt:
			flow = append(flow, x.Tok.String())
			return true
		case *ast.IfStmt:
			flow = append(flow, "if "+condString(x.Cond))
			ast.Inspect(x.Body, visit)
			if x.Else != nil {
				flow = append(flow, "else")
				ast.Inspect(x.Else, visit)
			}
			return false
		}
		return c18FlowVisit(n, &flow)
	}
	ast.Inspect(fd.Body, visit)
	return flow
}
