package main

// C11 wire layer (deepening round): StatusList2021Entry.Validate check order, the literal returned by Entry(),
// the strconv.Atoi call sites of Revoke / Verify, the validateCredentialStatus loop of vcr/credential/validator.go.

import (
	"go/ast"
	"strconv"
	"strings"
)

// c11IfChain: the top-level `if` statements of a function body, each as "<init>; <cond>" (init omitted when absent),
// and what each one returns — in source order. Anything else at top level is reported as "stmt:<text>" so that a new
// statement between the checks changes the list.
func c11IfChain(fn *ast.FuncDecl) (conds []string, rets []string) {
	if fn == nil {
		return []string{"MISSING"}, []string{"MISSING"}
	}
	return c11IfChainBlock(fn.Body.List)
}

func c11IfChainBlock(list []ast.Stmt) (conds []string, rets []string) {
	for _, st := range list {
		switch x := st.(type) {
		case *ast.IfStmt:
			c := c11Call(x.Cond)
			if as, ok := x.Init.(*ast.AssignStmt); ok {
				var lhs, rhs []string
				for _, e := range as.Lhs {
					lhs = append(lhs, c11Call(e))
				}
				for _, e := range as.Rhs {
					rhs = append(rhs, c11Call(e))
				}
				c = strings.Join(lhs, ",") + " " + as.Tok.String() + " " + strings.Join(rhs, ",") + "; " + c
			} else if x.Init != nil {
				c = "init?; " + c
			}
			if x.Else != nil {
				c += " else?"
			}
			conds = append(conds, c)
			r := "no-return"
			if len(x.Body.List) == 1 {
				if rs, ok := x.Body.List[0].(*ast.ReturnStmt); ok && len(rs.Results) == 1 {
					if ce, ok := rs.Results[0].(*ast.CallExpr); ok {
						r = "return " + c11Call(ce.Fun) + "(…)"
					} else {
						r = "return " + c11Call(rs.Results[0])
					}
				}
			}
			rets = append(rets, r)
		case *ast.ReturnStmt:
			var r []string
			for _, e := range x.Results {
				r = append(r, c11Call(e))
			}
			conds = append(conds, "return "+strings.Join(r, ","))
		case *ast.RangeStmt:
			conds = append(conds, "range "+c11Call(x.X)+" {")
			c, r := c11IfChainBlock(x.Body.List)
			conds = append(append(conds, c...), "}")
			rets = append(rets, r...)
		case *ast.SwitchStmt:
			conds = append(conds, "switch "+c11Call(x.Tag)+" {")
			for _, cc := range x.Body.List {
				if cl, ok := cc.(*ast.CaseClause); ok {
					var vs []string
					for _, e := range cl.List {
						vs = append(vs, c11Call(e))
					}
					conds = append(conds, "case "+strings.Join(vs, ",")+":")
					c, r := c11IfChainBlock(cl.Body)
					conds = append(conds, c...)
					rets = append(rets, r...)
				}
			}
			conds = append(conds, "}")
		case *ast.DeclStmt:
			conds = append(conds, "decl")
		default:
			conds = append(conds, "stmt:"+exprStringStmt(st))
		}
	}
	return
}

func exprStringStmt(st ast.Stmt) string {
	switch x := st.(type) {
	case *ast.ExprStmt:
		return c11Call(x.X)
	case *ast.AssignStmt:
		var lhs, rhs []string
		for _, e := range x.Lhs {
			lhs = append(lhs, c11Call(e))
		}
		for _, e := range x.Rhs {
			rhs = append(rhs, c11Call(e))
		}
		return strings.Join(lhs, ",") + " " + x.Tok.String() + " " + strings.Join(rhs, ",")
	}
	return "?"
}

func extractC11Wire(l *lean, issF, verF *ast.File) {
	extractC11Resolve(l)
	extractC11VP(l)
	_, typF := parseFile("vcr/revocation/types.go")
	conds, rets := c11IfChain(c11Method(typF, "StatusList2021Entry", "Validate"))
	l.def("entryValidateChain", "List String", leanStrList(conds), conds)
	l.def("entryValidateReturns", "List String", leanStrList(rets), rets)

	// vcr/credential/validator.go: the default validator's check chain and the credentialStatus loop
	_, valF := parseFile("vcr/credential/validator.go")
	dconds, _ := c11IfChain(c11Method(valF, "defaultCredentialValidator", "Validate"))
	l.def("defaultValidatorChain", "List String", leanStrList(dconds), dconds)
	sconds, _ := c11IfChain(c11Method(valF, "", "validateCredentialStatus"))
	l.def("validateCredentialStatusChain", "List String", leanStrList(sconds), sconds)

	// vcr/ambassador.go: the REPROCESS path (content-type switch of getCallbackFn, top-level chain of handleReprocessEvent)
	_, ambF := parseFile("vcr/ambassador.go")
	cb, _ := c11IfChain(c11Method(ambF, "ambassador", "getCallbackFn"))
	l.def("ambassadorCallbackSwitch", "List String", leanStrList(cb), cb)
	rp, _ := c11IfChain(c11Method(ambF, "ambassador", "handleReprocessEvent"))
	l.def("ambassadorReprocessChain", "List String", leanStrList(rp), rp)
	_, tcF := parseFile("vcr/types/constants.go")
	for _, d := range tcF.Decls {
		gd, ok := d.(*ast.GenDecl)
		if !ok {
			continue
		}
		for _, sp := range gd.Specs {
			if vs, ok := sp.(*ast.ValueSpec); ok {
				for i, n := range vs.Names {
					if (n.Name == "VcDocumentType" || n.Name == "RevocationLDDocumentType") && i < len(vs.Values) {
						if bl, ok := vs.Values[i].(*ast.BasicLit); ok {
							v := strings.Trim(bl.Value, "\"")
							l.def("const_"+n.Name, "String", strconv.Quote(v), v)
						}
					}
				}
			}
		}
	}

	// the literal returned by Entry(): field:value pairs in source order
	var lit []string
	if fn := c11Method(issF, "StatusList2021", "Entry"); fn != nil {
		ast.Inspect(fn.Body, func(n ast.Node) bool {
			if cl, ok := n.(*ast.CompositeLit); ok {
				if id, ok := cl.Type.(*ast.Ident); ok && id.Name == "StatusList2021Entry" {
					for _, e := range cl.Elts {
						lit = append(lit, c11Call(e))
					}
				}
			}
			return true
		})
	}
	l.def("entryLiteral", "List String", leanStrList(lit), lit)

	// Entry(): the key and the value of every Where / UpdateColumn / First / Last in the method, in source order (which row the
	// counter UPDATE addresses: the LOADED record's subject id, not a URL recomputed from the current configuration)
	var keys []string
	if fn := c11Method(issF, "StatusList2021", "Entry"); fn != nil {
		ast.Inspect(fn.Body, func(n ast.Node) bool {
			if ce, ok := n.(*ast.CallExpr); ok {
				if se, ok := ce.Fun.(*ast.SelectorExpr); ok && (se.Sel.Name == "Where" || se.Sel.Name == "UpdateColumn") {
					var a []string
					for _, y := range ce.Args {
						a = append(a, c11Call(y))
					}
					keys = append(keys, se.Sel.Name+"("+strings.Join(a, ",")+")")
				}
			}
			return true
		})
	}
	l.def("entryUpdateKey", "List String", leanStrList(keys), keys)

	// every strconv.Atoi / strconv.Itoa call in the two files, with the enclosing function
	var sites []string
	for _, f := range []*ast.File{issF, verF, typF} {
		for _, d := range f.Decls {
			fd, ok := d.(*ast.FuncDecl)
			if !ok || fd.Body == nil {
				continue
			}
			ast.Inspect(fd.Body, func(n ast.Node) bool {
				if ce, ok := n.(*ast.CallExpr); ok {
					s := c11Call(ce)
					if strings.HasPrefix(s, "strconv.") {
						sites = append(sites, fd.Name.Name+":"+s)
					}
				}
				return true
			})
		}
	}
	l.def("strconvSites", "List String", leanStrList(sites), sites)

	// string constants the wire model compares against
	for _, f := range []*ast.File{typF} {
		for _, d := range f.Decls {
			gd, ok := d.(*ast.GenDecl)
			if !ok {
				continue
			}
			for _, sp := range gd.Specs {
				vs, ok := sp.(*ast.ValueSpec)
				if !ok {
					continue
				}
				for i, n := range vs.Names {
					if (n.Name == "StatusList2021EntryType" || n.Name == "StatusPurposeRevocation") && i < len(vs.Values) {
						if bl, ok := vs.Values[i].(*ast.BasicLit); ok {
							v := strings.Trim(bl.Value, "\"")
							l.def("const_"+n.Name, "String", strconv.Quote(v), v)
						}
					}
				}
			}
		}
	}
}
