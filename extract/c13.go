package main

import (
	"fmt"
	"go/ast"
	"sort"
	"go/token"
	"strings"
)

func init() { extractors["C13"] = extractC13 }

func c13Method(f *ast.File, recv, name string) *ast.FuncDecl {
	for _, d := range f.Decls {
		fd, ok := d.(*ast.FuncDecl)
		if !ok || fd.Name.Name != name || fd.Recv == nil || len(fd.Recv.List) == 0 {
			continue
		}
		t := fd.Recv.List[0].Type
		if s, ok := t.(*ast.StarExpr); ok {
			t = s.X
		}
		if id, ok := t.(*ast.Ident); ok && id.Name == recv {
			return fd
		}
	}
	return nil
}

func c13Bool(b bool) string {
	if b {
		return "true"
	}
	return "false"
}

// c13Seconds maps a duration expression to seconds, or "" when it is not understood
func c13Seconds(e ast.Expr) string {
	units := map[string]string{"time.Second": "1", "time.Minute": "60", "time.Hour": "3600"}
	s := exprString(e)
	if u, ok := units[s]; ok {
		return u
	}
	if b, ok := e.(*ast.BinaryExpr); ok && b.Op == token.MUL {
		x, y := exprString(b.X), exprString(b.Y)
		if u, ok := units[y]; ok {
			if lit, ok := b.X.(*ast.BasicLit); ok && lit.Kind == token.INT {
				return "(" + lit.Value + " * " + u + ")"
			}
		}
		if u, ok := units[x]; ok {
			if lit, ok := b.Y.(*ast.BasicLit); ok && lit.Kind == token.INT {
				return "(" + lit.Value + " * " + u + ")"
			}
		}
	}
	return ""
}

// c13ReturnsOnly reports whether the function body is exactly `return <vals...>`
func c13ReturnsOnly(fd *ast.FuncDecl, vals ...string) bool {
	if fd == nil || fd.Body == nil || len(fd.Body.List) != 1 {
		return false
	}
	r, ok := fd.Body.List[0].(*ast.ReturnStmt)
	if !ok || len(r.Results) != len(vals) {
		return false
	}
	for i, v := range vals {
		if exprString(r.Results[i]) != v {
			return false
		}
	}
	return true
}

func extractC13() *lean {
	l := newLean("C13")
	_, mgr := parseFile("vdr/didsubject/manager.go")

	// ---- Rollback: threshold and comparison
	threshold := ".unknown_threshold"
	direction := "MISSING"
	cmp := ""
	rb := c13Method(mgr, "SqlManager", "Rollback")
	rbCallsDelete := false
	if rb != nil {
		ast.Inspect(rb, func(n ast.Node) bool {
			switch x := n.(type) {
			case *ast.CallExpr:
				// time.Now().Add(-<dur>)
				if exprString(x.Fun) == "time.Now().Add" && len(x.Args) == 1 {
					arg := x.Args[0]
					direction = "future" // Add(d): a threshold AFTER now
					if u, ok := arg.(*ast.UnaryExpr); ok && u.Op == token.SUB {
						direction = "past" // Add(-d): a threshold BEFORE now
						arg = u.X
					}
					// a named constant of this file
					if id, ok := arg.(*ast.Ident); ok {
						ast.Inspect(mgr, func(k ast.Node) bool {
							if vs, ok := k.(*ast.ValueSpec); ok {
								for i, nm := range vs.Names {
									if nm.Name == id.Name && i < len(vs.Values) {
										arg = vs.Values[i]
										if u, ok := arg.(*ast.UnaryExpr); ok && u.Op == token.SUB {
											arg = u.X
											if direction == "past" {
												direction = "future"
											} else {
												direction = "past"
											}
										}
									}
								}
							}
							return true
						})
					}
					if s := c13Seconds(arg); s != "" {
						threshold = s
					}
				}
				if exprString(x.Fun) == "deleteUncommittedChange" {
					rbCallsDelete = true
				}
			case *ast.BasicLit:
				if x.Kind == token.STRING && strings.Contains(x.Value, "updated_at") {
					cmp = strings.Trim(x.Value, "\"`")
				}
			}
			return true
		})
	}
	// does the grouping loop load all changes of the transaction (Where("transaction_id = ?", change.TransactionID).Find(&x); groupedChanges[...] = x)?
	whole := false
	if rb != nil {
		ast.Inspect(rb, func(n ast.Node) bool {
			rs, ok := n.(*ast.RangeStmt)
			if !ok || exprString(rs.X) != "changes" {
				return true
			}
			loads, assigns := false, false
			ast.Inspect(rs.Body, func(m ast.Node) bool {
				switch y := m.(type) {
				case *ast.CallExpr:
					if sel, ok := y.Fun.(*ast.SelectorExpr); ok && sel.Sel.Name == "Where" && len(y.Args) == 2 {
						if lit, ok := y.Args[0].(*ast.BasicLit); ok && strings.Contains(lit.Value, "transaction_id = ?") && exprString(y.Args[1]) == "change.TransactionID" {
							loads = true
						}
					}
				case *ast.AssignStmt:
					if len(y.Lhs) == 1 && exprString(y.Lhs[0]) == "groupedChanges[change.TransactionID]" && len(y.Rhs) == 1 {
						if _, isCall := y.Rhs[0].(*ast.CallExpr); !isCall {
							assigns = true
						}
					}
				}
				return true
			})
			if loads && assigns {
				whole = true
			}
			return true
		})
	}
	l.def("sweepLoadsWholeTransaction", "Bool", c13Bool(whole), whole)
	l.def("sweepThresholdSeconds", "Nat", threshold, threshold)
	l.def("sweepThresholdDirection", "String", fmt.Sprintf("%q", direction), direction)
	l.def("sweepSelection", "String", fmt.Sprintf("%q", cmp), cmp)

	// ---- transactionHelper: order tx1 -> range r.MethodManagers { Commit; break on error } -> tx2
	var shape []string
	thCallsDelete := false
	if th := c13Method(mgr, "SqlManager", "transactionHelper"); th != nil {
		for _, st := range th.Body.List {
			// a plain top-level `if … { return … }` (a way out between the steps)
			if is, ok := st.(*ast.IfStmt); ok && is.Init == nil {
				for _, b := range is.Body.List {
					if _, ok := b.(*ast.ReturnStmt); ok {
						shape = append(shape, "if("+exprString(is.Cond)+"):return")
					}
				}
			}
			ast.Inspect(st, func(n ast.Node) bool {
				switch x := n.(type) {
				case *ast.CallExpr:
					if exprString(x.Fun) == "r.DB.Transaction" {
						shape = append(shape, "tx")
						// look inside the second transaction for the delete helper
						ast.Inspect(x, func(m ast.Node) bool {
							if c, ok := m.(*ast.CallExpr); ok && exprString(c.Fun) == "deleteUncommittedChange" {
								thCallsDelete = true
							}
							return true
						})
						return false
					}
				case *ast.RangeStmt:
					item := "range:" + exprString(x.X)
					commits, breaks := false, false
					ast.Inspect(x.Body, func(m ast.Node) bool {
						switch y := m.(type) {
						case *ast.CallExpr:
							if exprString(y.Fun) == "manager.Commit" {
								commits = true
							}
						case *ast.BranchStmt:
							if y.Tok == token.BREAK {
								breaks = true
							}
						}
						return true
					})
					if commits {
						item += ":Commit"
					}
					if breaks {
						item += ":break"
					}
					shape = append(shape, item)
					return false
				}
				return true
			})
		}
	} else {
		shape = append(shape, "MISSING")
	}
	l.def("transactionHelperShape", "List String", leanStrList(shape), shape)

	// ---- Create: where is the "subject already exists" check made?
	inside := false
	var outside []string
	if fd := c13Method(mgr, "SqlManager", "Create"); fd != nil {
		isCheck := func(c *ast.CallExpr) string {
			f := exprString(c.Fun)
			for _, suffix := range []string{".FindBySubject", ".SubjectExists", ".Exists", ".ListDIDs"} {
				if strings.HasSuffix(f, suffix) {
					return f
				}
			}
			return ""
		}
		var walk func(n ast.Node, inTx bool)
		walk = func(n ast.Node, inTx bool) {
			ast.Inspect(n, func(m ast.Node) bool {
				c, ok := m.(*ast.CallExpr)
				if !ok {
					return true
				}
				if exprString(c.Fun) == "r.transactionHelper" && !inTx {
					for _, a := range c.Args {
						if fl, ok := a.(*ast.FuncLit); ok {
							// the check must be the tx-bound one and lead to ErrSubjectAlreadyExists
							returnsExists := false
							ast.Inspect(fl, func(k ast.Node) bool {
								if r, ok := k.(*ast.ReturnStmt); ok {
									for _, e := range r.Results {
										if exprString(e) == "ErrSubjectAlreadyExists" {
											returnsExists = true
										}
									}
								}
								return true
							})
							ast.Inspect(fl, func(k ast.Node) bool {
								if cc, ok := k.(*ast.CallExpr); ok && exprString(cc.Fun) == "NewDIDManager().FindBySubject" && returnsExists {
									if inner, ok := cc.Fun.(*ast.SelectorExpr); ok {
										if ctor, ok := inner.X.(*ast.CallExpr); ok && len(ctor.Args) == 1 && exprString(ctor.Args[0]) == "tx" {
											inside = true
										}
									}
								}
								return true
							})
						}
					}
					return false
				}
				if f := isCheck(c); f != "" && !inTx {
					outside = append(outside, f)
				}
				return true
			})
		}
		walk(fd.Body, false)
	}
	if outside == nil {
		outside = []string{}
	}
	l.def("createChecksSubjectInsideTransaction", "Bool", c13Bool(inside), inside)
	l.def("createSubjectChecksOutsideTransaction", "List String", leanStrList(outside), outside)

	// ---- Create: which subject does the stored DID row get, and in which loop is it stored?
	storedDID, storeLoop := "MISSING", "MISSING"
	if fd := c13Method(mgr, "SqlManager", "Create"); fd != nil {
		lits := map[string]string{}
		ast.Inspect(fd, func(n ast.Node) bool {
			if as, ok := n.(*ast.AssignStmt); ok && len(as.Lhs) == 1 && len(as.Rhs) == 1 {
				if cl, ok := as.Rhs[0].(*ast.CompositeLit); ok && exprString(cl.Type) == "orm.DID" {
					var kv []string
					for _, e := range cl.Elts {
						if k, ok := e.(*ast.KeyValueExpr); ok {
							kv = append(kv, exprString(k.Key)+": "+exprString(k.Value))
						}
					}
					lits[exprString(as.Lhs[0])] = "orm.DID{" + strings.Join(kv, ", ") + "}"
				}
			}
			return true
		})
		ast.Inspect(fd, func(n ast.Node) bool {
			rs, ok := n.(*ast.RangeStmt)
			if !ok {
				return true
			}
			ast.Inspect(rs.Body, func(m ast.Node) bool {
				if c, ok := m.(*ast.CallExpr); ok && strings.HasSuffix(exprString(c.Fun), ".CreateOrUpdate") && len(c.Args) > 0 {
					a := exprString(c.Args[0])
					if l, ok := lits[a]; ok {
						a = l
					}
					storedDID, storeLoop = a, exprString(rs.X)
				}
				return true
			})
			return true
		})
	}
	l.def("createStoresDID", "String", fmt.Sprintf("%q", storedDID), storedDID)
	l.def("createStoresInLoopOver", "String", fmt.Sprintf("%q", storeLoop), storeLoop)

	// ---- transactionHelper: are the change records saved with the transaction handle inside the first Transaction closure?
	savedInside := false
	var savesOutside []string
	if th := c13Method(mgr, "SqlManager", "transactionHelper"); th != nil {
		txIndex := 0
		var walk func(n ast.Node, inTx int)
		walk = func(n ast.Node, inTx int) {
			ast.Inspect(n, func(m ast.Node) bool {
				switch x := m.(type) {
				case *ast.CallExpr:
					f := exprString(x.Fun)
					if f == "r.DB.Transaction" && inTx == 0 {
						txIndex++
						for _, a := range x.Args {
							if fl, ok := a.(*ast.FuncLit); ok {
								walk(fl.Body, txIndex)
							}
						}
						return false
					}
					if strings.HasSuffix(f, ".Save") || strings.HasSuffix(f, ".Create") {
						if inTx == 0 {
							savesOutside = append(savesOutside, f)
						}
					}
				case *ast.RangeStmt:
					if inTx == 1 && exprString(x.X) == "changes" {
						ast.Inspect(x.Body, func(k ast.Node) bool {
							if c, ok := k.(*ast.CallExpr); ok && exprString(c.Fun) == "tx.Save" {
								savedInside = true
							}
							return true
						})
					}
				}
				return true
			})
		}
		walk(th.Body, 0)
	}
	if savesOutside == nil {
		savesOutside = []string{}
	}
	l.def("changeLogSavedInsideFirstTransaction", "Bool", c13Bool(savedInside), savedInside)
	l.def("savesOutsideTransaction", "List String", leanStrList(savesOutside), savesOutside)

	// ---- deleteUncommittedChange: deletes the version, and the DID when the change created it
	delVersion, delDID := false, false
	if fd := funcDecl(mgr, "deleteUncommittedChange"); fd != nil {
		var walk func(n ast.Node, created bool)
		walk = func(n ast.Node, created bool) {
			if n == nil {
				return
			}
			switch x := n.(type) {
			case *ast.IfStmt:
				c := created || strings.Contains(exprString(x.Cond), "change.Type == orm.DIDChangeCreated")
				walk(x.Init, created)
				walk(x.Body, c)
				walk(x.Else, created)
				return
			case *ast.CompositeLit:
				switch exprString(x.Type) {
				case "orm.DidDocument":
					if !created {
						delVersion = true
					}
				case "orm.DID":
					if created {
						delDID = true
					}
				}
			}
			ast.Inspect(n, func(m ast.Node) bool {
				if m == n || m == nil {
					return true
				}
				walk(m, created)
				return false
			})
		}
		walk(fd.Body, false)
	}
	l.def("rollbackDeletesVersion", "Bool", c13Bool(delVersion && thCallsDelete && rbCallsDelete), delVersion && thCallsDelete && rbCallsDelete)
	l.def("rollbackDeletesCreatedDID", "Bool", c13Bool(delDID && thCallsDelete && rbCallsDelete), delDID && thCallsDelete && rbCallsDelete)

	// ---- CreateOrUpdate: version = latest + 1, starting from -1
	_, dd := parseFile("vdr/didsubject/did_document.go")
	verInit, verNext := "", ""
	if fd := c13Method(dd, "SqlDIDDocumentManager", "CreateOrUpdate"); fd != nil {
		ast.Inspect(fd, func(n ast.Node) bool {
			if kv, ok := n.(*ast.KeyValueExpr); ok && exprString(kv.Key) == "Version" {
				s := exprString(kv.Value)
				if strings.HasPrefix(s, "-") {
					verInit = s
				} else {
					verNext = s
				}
			}
			return true
		})
	}
	l.def("createOrUpdateVersion", "List String", leanStrList([]string{verInit, verNext}), []string{verInit, verNext})

	// ---- the JSON-LD contexts of a generated (stored) document vs. the empty document did:nuts publishes for a deactivation
	c13Contexts := func(fd *ast.FuncDecl) ([]string, int) {
		var ctxs []string
		appends := 0
		if fd == nil {
			return []string{"MISSING"}, 0
		}
		ast.Inspect(fd, func(n ast.Node) bool {
			switch x := n.(type) {
			case *ast.KeyValueExpr:
				if exprString(x.Key) == "Context" {
					if cl, ok := x.Value.(*ast.CompositeLit); ok {
						for _, e := range cl.Elts {
							ctxs = append(ctxs, exprString(e))
						}
					} else {
						ctxs = append(ctxs, "<not a literal>")
					}
				}
			case *ast.AssignStmt:
				for _, l := range x.Lhs {
					if strings.HasSuffix(exprString(l), ".Context") {
						appends++
					}
				}
			}
			return true
		})
		return ctxs, appends
	}
	_, ormDoc := parseFile("storage/orm/did_document.go")
	genCtx, genAssign := c13Contexts(c13Method(ormDoc, "DidDocument", "GenerateDIDDocument"))
	_, nutsMgr := parseFile("vdr/didnuts/manager.go")
	nutsCtx, nutsAssign := c13Contexts(funcDecl(nutsMgr, "CreateDocument"))
	l.def("generatedDocumentContexts", "List String", leanStrList(genCtx), genCtx)
	l.def("generatedDocumentContextAssignments", "Nat", fmt.Sprint(genAssign), genAssign)
	l.def("nutsEmptyDocumentContexts", "List String", leanStrList(nutsCtx), nutsCtx)
	l.def("nutsEmptyDocumentContextAssignments", "Nat", fmt.Sprint(nutsAssign), nutsAssign)

	// ---- vdr/vdr.go: who calls Rollback, and which manager is registered for which method
	_, vdrF := parseFile("vdr/vdr.go")
	var loop []string
	if fd := c13Method(vdrF, "Module", "rollbackLoop"); fd != nil {
		var walk func(n ast.Node, where string)
		walk = func(n ast.Node, where string) {
			ast.Inspect(n, func(m ast.Node) bool {
				switch x := m.(type) {
				case *ast.CallExpr:
					switch exprString(x.Fun) {
					case "time.NewTicker":
						sec := ".unknown"
						if len(x.Args) == 1 {
							if v := c13Seconds(x.Args[0]); v != "" {
								sec = v
							}
						}
						loop = append(loop, where+"ticker:"+sec)
					case "r.Rollback":
						loop = append(loop, where+"Rollback")
					}
				case *ast.ForStmt:
					loop = append(loop, where+"for")
					walk(x.Body, where+"for/")
					return false
				case *ast.CommClause:
					c := "default"
					if x.Comm != nil {
						if es, ok := x.Comm.(*ast.ExprStmt); ok {
							c = exprString(es.X)
						}
					}
					for _, st := range x.Body {
						walk(st, where+"case "+c+"/")
						if _, ok := st.(*ast.ReturnStmt); ok {
							loop = append(loop, where+"case "+c+"/return")
						}
					}
					return false
				}
				return true
			})
		}
		walk(fd.Body, "")
	} else {
		loop = []string{"MISSING"}
	}
	l.def("rollbackLoopShape", "List String", leanStrList(loop), loop)
	startsLoop, guarded := false, ""
	if fd := c13Method(vdrF, "Module", "Start"); fd != nil {
		ast.Inspect(fd, func(n ast.Node) bool {
			switch x := n.(type) {
			case *ast.GoStmt:
				ast.Inspect(x, func(m ast.Node) bool {
					if c, ok := m.(*ast.CallExpr); ok && exprString(c.Fun) == "r.rollbackLoop" {
						startsLoop = true
					}
					return true
				})
			case *ast.IfStmt:
				for _, st := range x.Body.List {
					if _, ok := st.(*ast.ReturnStmt); ok && guarded == "" && !startsLoop {
						guarded = exprString(x.Cond)
					}
				}
			}
			return true
		})
	}
	l.def("startLaunchesRollbackLoop", "Bool", c13Bool(startsLoop), startsLoop)
	l.def("startReturnsEarlyWhen", "String", fmt.Sprintf("%q", guarded), guarded)
	var regs []string
	newArgs := ""
	ctor := map[string]string{}
	if fd := c13Method(vdrF, "Module", "Configure"); fd != nil {
		ast.Inspect(fd, func(n ast.Node) bool {
			as, ok := n.(*ast.AssignStmt)
			if !ok || len(as.Lhs) != 1 || len(as.Rhs) != 1 {
				return true
			}
			lhs := exprString(as.Lhs[0])
			if ix, ok := as.Lhs[0].(*ast.IndexExpr); ok && exprString(ix.X) == "methodManagers" {
				v := exprString(as.Rhs[0])
				if c, ok := ctor[v]; ok {
					v = c
				}
				regs = append(regs, exprString(ix.Index)+"="+v)
			}
			if c, ok := as.Rhs[0].(*ast.CallExpr); ok {
				f := exprString(c.Fun)
				if f == "didnuts.NewManager" || f == "didweb.NewManager" {
					ctor[lhs] = f
				}
				if f == "didsubject.New" && lhs == "r.Manager" {
					var a []string
					for _, e := range c.Args {
						a = append(a, exprString(e))
					}
					newArgs = strings.Join(a, ",")
				}
			}
			return true
		})
	}
	l.def("methodManagerRegistrations", "List String", leanStrList(regs), regs)
	l.def("subjectManagerConstruction", "String", fmt.Sprintf("%q", newArgs), newArgs)
	l.def("moduleOverridesRollback", "Bool", c13Bool(c13Method(vdrF, "Module", "Rollback") != nil), c13Method(vdrF, "Module", "Rollback") != nil)

	// ---- method names, DIDChangeLog.Method, and the queries behind "latest version"
	c13Const := func(rel, name string) string {
		_, f := parseFile(rel)
		val := "MISSING"
		ast.Inspect(f, func(n ast.Node) bool {
			if vs, ok := n.(*ast.ValueSpec); ok {
				for i, id := range vs.Names {
					if id.Name == name && i < len(vs.Values) {
						val = strings.Trim(exprString(vs.Values[i]), "\"")
					}
				}
			}
			return true
		})
		return val
	}
	names := []string{c13Const("vdr/didnuts/manager.go", "MethodName"), c13Const("vdr/didweb/web.go", "MethodName")}
	l.def("methodNames", "List String", leanStrList(names), names)
	_, clog := parseFile("storage/orm/changelog.go")
	var methodReturns []string
	if fd := c13Method(clog, "DIDChangeLog", "Method"); fd != nil {
		ast.Inspect(fd, func(n ast.Node) bool {
			if r, ok := n.(*ast.ReturnStmt); ok && len(r.Results) == 1 {
				methodReturns = append(methodReturns, exprString(r.Results[0]))
			}
			if c, ok := n.(*ast.CallExpr); ok && exprString(c.Fun) == "did.ParseDID" && len(c.Args) == 1 {
				methodReturns = append(methodReturns, "parse:"+exprString(c.Args[0]))
			}
			return true
		})
	}
	l.def("changeLogMethod", "List String", leanStrList(methodReturns), methodReturns)
	c13Query := func(fd *ast.FuncDecl) []string {
		var q []string
		if fd == nil {
			return []string{"MISSING"}
		}
		ast.Inspect(fd, func(n ast.Node) bool {
			if c, ok := n.(*ast.CallExpr); ok {
				if sel, ok := c.Fun.(*ast.SelectorExpr); ok && len(c.Args) >= 1 {
					switch sel.Sel.Name {
					case "Order", "Preload", "Where":
						if lit, ok := c.Args[0].(*ast.BasicLit); ok {
							q = append(q, sel.Sel.Name+":"+strings.Trim(lit.Value, "\"`"))
						}
					}
				}
			}
			return true
		})
		sort.Strings(q)
		return q
	}
	latestQ := c13Query(c13Method(dd, "SqlDIDDocumentManager", "Latest"))
	couQ := c13Query(c13Method(dd, "SqlDIDDocumentManager", "CreateOrUpdate"))
	l.def("latestQuery", "List String", leanStrList(latestQ), latestQ)
	l.def("createOrUpdateQuery", "List String", leanStrList(couQ), couQ)

	// ---- CreateOrUpdate: every way out, and the insert
	var couReturns, couInserts []string
	if fd := c13Method(dd, "SqlDIDDocumentManager", "CreateOrUpdate"); fd != nil {
		var walk func(n ast.Node, cond string)
		walk = func(n ast.Node, cond string) {
			ast.Inspect(n, func(m ast.Node) bool {
				switch x := m.(type) {
				case *ast.IfStmt:
					c := exprString(x.Cond)
					if cond != "" {
						c = cond + " && " + c
					}
					walk(x.Body, c)
					if x.Else != nil {
						walk(x.Else, "else("+c+")")
					}
					return false
				case *ast.ReturnStmt:
					var rs []string
					for _, e := range x.Results {
						rs = append(rs, exprString(e))
					}
					r := strings.Join(rs, ", ")
					if cond != "" {
						r = "if " + cond + ": " + r
					}
					couReturns = append(couReturns, r)
				case *ast.CallExpr:
					if f := exprString(x.Fun); strings.HasSuffix(f, ".Create") || strings.HasSuffix(f, ".Save") {
						a := ""
						if len(x.Args) == 1 {
							a = exprString(x.Args[0])
						}
						ins := f + "(" + a + ")"
						if cond != "" {
							ins = "if " + cond + ": " + ins
						}
						couInserts = append(couInserts, ins)
					}
				}
				return true
			})
		}
		walk(fd.Body, "")
	}
	l.def("createOrUpdateReturns", "List String", leanStrList(couReturns), couReturns)
	l.def("createOrUpdateInserts", "List String", leanStrList(couInserts), couInserts)

	// ---- did:web: Commit is a no-op that cannot fail, IsCommitted is always true
	_, web := parseFile("vdr/didweb/manager.go")
	l.def("webCommitReturnsNil", "Bool", c13Bool(c13ReturnsOnly(c13Method(web, "Manager", "Commit"), "nil")), c13ReturnsOnly(c13Method(web, "Manager", "Commit"), "nil"))
	l.def("webIsCommittedAlwaysTrue", "Bool", c13Bool(c13ReturnsOnly(c13Method(web, "Manager", "IsCommitted"), "true", "nil")), c13ReturnsOnly(c13Method(web, "Manager", "IsCommitted"), "true", "nil"))

	// ---- did:nuts IsCommitted: resolver.ErrNotFound => (false, nil)
	_, nuts := parseFile("vdr/didnuts/manager.go")
	nf := false
	if fd := c13Method(nuts, "Manager", "IsCommitted"); fd != nil {
		ast.Inspect(fd, func(n ast.Node) bool {
			if is, ok := n.(*ast.IfStmt); ok && exprString(is.Cond) == "errors.Is()" {
				if c, ok := is.Cond.(*ast.CallExpr); ok && len(c.Args) == 2 && exprString(c.Args[1]) == "resolver.ErrNotFound" {
					for _, st := range is.Body.List {
						if r, ok := st.(*ast.ReturnStmt); ok && len(r.Results) == 2 && exprString(r.Results[0]) == "false" && exprString(r.Results[1]) == "nil" {
							nf = true
						}
					}
				}
			}
			return true
		})
	}
	l.def("nutsIsCommittedNotFoundIsUncommitted", "Bool", c13Bool(nf), nf)
	extractC13b(l) // request layer (c13b.go)
	extractC13c(l) // request context + subject look-up (c13c.go)
	return l
}
