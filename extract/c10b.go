package main

// C10 deepening round: facts about the content-addressed shelves, the statistics codec, the error handling of every
// shelf Get and the decision tables of Resolve's filters. Dumb printing; the expectations are fact_* theorems.

import (
	"fmt"
	"go/ast"
	"go/token"
	"strings"
)

// c10Puts: every `<writer>.Put(key, value)` of fd as "shelfConst[key] = value", prefixed by the conditions of the
// enclosing if statements (a Put in the Init of `if err = w.Put(..); err != nil` is not "inside" that if)
func c10Puts(fset *token.FileSet, fd *ast.FuncDecl) []string {
	if fd == nil {
		return []string{"MISSING"}
	}
	shelf := map[string]string{}
	ast.Inspect(fd, func(n ast.Node) bool {
		if as, ok := n.(*ast.AssignStmt); ok && len(as.Lhs) == 1 && len(as.Rhs) == 1 {
			if c, ok := as.Rhs[0].(*ast.CallExpr); ok {
				if sel, ok := c.Fun.(*ast.SelectorExpr); ok && (sel.Sel.Name == "GetShelfWriter" || sel.Sel.Name == "GetShelfReader") && len(c.Args) == 1 {
					if id, ok := as.Lhs[0].(*ast.Ident); ok {
						shelf[id.Name] = c10Src(fset, c.Args[0])
					}
				}
			}
		}
		return true
	})
	var out []string
	var walk func(n ast.Node, conds []string)
	putOf := func(n ast.Node, conds []string) {
		ast.Inspect(n, func(m ast.Node) bool {
			if c, ok := m.(*ast.CallExpr); ok {
				if sel, ok := c.Fun.(*ast.SelectorExpr); ok && sel.Sel.Name == "Put" && len(c.Args) == 2 {
					w := exprString(sel.X)
					s, ok := shelf[w]
					if !ok {
						s = "<unknown writer " + w + ">"
					}
					pre := ""
					if len(conds) > 0 {
						pre = "if " + strings.Join(conds, " && ") + ": "
					}
					out = append(out, pre+s+"["+c10Src(fset, c.Args[0])+"] = "+c10Src(fset, c.Args[1]))
				}
			}
			return true
		})
	}
	walk = func(n ast.Node, conds []string) {
		switch x := n.(type) {
		case *ast.BlockStmt:
			for _, st := range x.List {
				walk(st, conds)
			}
		case *ast.IfStmt:
			if x.Init != nil {
				putOf(x.Init, conds)
			}
			walk(x.Body, append(append([]string{}, conds...), c10Src(fset, x.Cond)))
			if x.Else != nil {
				walk(x.Else, append(append([]string{}, conds...), "!("+c10Src(fset, x.Cond)+")"))
			}
		case *ast.ForStmt:
			walk(x.Body, append(append([]string{}, conds...), "<for>"))
		case *ast.RangeStmt:
			walk(x.Body, append(append([]string{}, conds...), "<range "+c10Src(fset, x.X)+">"))
		default:
			if n != nil {
				putOf(n, conds)
			}
		}
	}
	walk(fd.Body, nil)
	return out
}

// c10GetGuards: for every `x, err := <reader>.Get(..)` statement of fd: the statement that follows it in the same block
func c10GetGuards(fset *token.FileSet, name string, fd *ast.FuncDecl) []string {
	if fd == nil {
		return []string{name + ":MISSING"}
	}
	var out []string
	ast.Inspect(fd, func(n ast.Node) bool {
		b, ok := n.(*ast.BlockStmt)
		if !ok {
			return true
		}
		for i, st := range b.List {
			as, ok := st.(*ast.AssignStmt)
			if !ok || len(as.Rhs) != 1 {
				continue
			}
			c, ok := as.Rhs[0].(*ast.CallExpr)
			if !ok {
				continue
			}
			sel, ok := c.Fun.(*ast.SelectorExpr)
			if !ok || sel.Sel.Name != "Get" {
				continue
			}
			next := "<nothing follows>"
			if i+1 < len(b.List) {
				if is, ok := b.List[i+1].(*ast.IfStmt); ok {
					next = "if " + c10Src(fset, is.Cond) + " " + c10Src(fset, is.Body)
				} else {
					next = "<not an if: " + c10Src(fset, b.List[i+1]) + ">"
				}
			}
			out = append(out, name+": "+c10Src(fset, as)+" ; "+next)
		}
		return true
	})
	return out
}

func c10Deep(l *lean) {
	dir := "vdr/didnuts/didstore/"
	fsS, store := parseFile(dir + "store.go")
	fsW, writer := parseFile(dir + "writer.go")
	fsR, reader := parseFile(dir + "reader.go")

	// latestNonDeactivatedRequested as a decision table: (what is tested, answer); the final return
	type step struct {
		k string
		v bool
	}
	var steps []step
	final := "MISSING"
	if fd := funcDecl(store, "latestNonDeactivatedRequested"); fd != nil {
		for _, st := range fd.Body.List {
			switch x := st.(type) {
			case *ast.IfStmt:
				key, val, okv := "<unknown: "+c10Src(fsS, x.Cond)+">", false, false
				if be, ok := x.Cond.(*ast.BinaryExpr); ok && exprString(be.Y) == "nil" {
					switch {
					case be.Op == token.EQL && exprString(be.X) == "resolveMetadata":
						key = "nil"
					case be.Op == token.NEQ && strings.HasPrefix(exprString(be.X), "resolveMetadata."):
						key = strings.TrimPrefix(exprString(be.X), "resolveMetadata.")
					}
				}
				if x.Init == nil && x.Else == nil && len(x.Body.List) == 1 {
					if r, ok := x.Body.List[0].(*ast.ReturnStmt); ok && len(r.Results) == 1 {
						switch exprString(r.Results[0]) {
						case "true":
							val, okv = true, true
						case "false":
							val, okv = false, true
						}
					}
				}
				if !okv {
					key = "<unknown body: " + c10Src(fsS, x.Body) + ">"
				}
				steps = append(steps, step{key, val})
			case *ast.ReturnStmt:
				final = c10Src(fsS, x.Results[0])
			default:
				steps = append(steps, step{"<other statement>", false})
			}
		}
	}
	var sl []string
	var raw [][2]string
	for _, s := range steps {
		sl = append(sl, fmt.Sprintf("(%q, %v)", s.k, s.v))
		raw = append(raw, [2]string{s.k, fmt.Sprint(s.v)})
	}
	l.def("lndSteps", "List (String × Bool)", "["+strings.Join(sl, ", ")+"]", raw)
	l.def("lndFinal", "String", fmt.Sprintf("%q", final), final)

	// matches: the top-level statements in order (condition => what the body does)
	var ms []string
	if fd := funcDecl(store, "matches"); fd != nil {
		for _, st := range fd.Body.List {
			switch x := st.(type) {
			case *ast.IfStmt:
				ms = append(ms, c10Src(fsS, x.Cond)+" => "+c10Src(fsS, x.Body))
			case *ast.ReturnStmt:
				ms = append(ms, "return "+c10Src(fsS, x.Results[0]))
			default:
				ms = append(ms, "<other: "+c10Src(fsS, st)+">")
			}
		}
	} else {
		ms = []string{"MISSING"}
	}
	l.def("matchesSteps", "List String", leanStrList(ms), ms)

	// the Puts of writeDocument / applyEvent / writeLatest / applyFrom / incrementDocumentCount / writeEventList
	var puts []string
	for _, fn := range []string{"writeDocument", "applyEvent", "writeLatest", "writeEventList", "applyFrom", "incrementDocumentCount"} {
		for _, p := range c10Puts(fsW, funcDecl(writer, fn)) {
			puts = append(puts, fn+": "+p)
		}
	}
	l.def("shelfPuts", "List String", leanStrList(puts), puts)

	// every shelf Get and the statement that handles its error
	var guards []string
	for _, fn := range []string{"Resolve", "loadConflictedDocuments", "ConflictedCount", "DocumentCount", "HistorySinceVersion"} {
		guards = append(guards, c10GetGuards(fsS, fn, funcDecl(store, fn))...)
	}
	for _, fn := range []string{"readDocument", "readMetadata", "readEventList"} {
		guards = append(guards, c10GetGuards(fsR, fn, funcDecl(reader, fn))...)
	}
	for _, fn := range []string{"applyFrom", "incrementDocumentCount", "applyDocument"} {
		guards = append(guards, c10GetGuards(fsW, fn, funcDecl(writer, fn))...)
	}
	l.def("getGuards", "List String", leanStrList(guards), guards)

	// the statistics codec: every binary.* call and every make([]byte, n) of the counter code
	var codec []string
	for _, spec := range []struct {
		fs *token.FileSet
		f  *ast.File
		fn string
	}{{fsW, writer, "applyFrom"}, {fsW, writer, "incrementDocumentCount"}, {fsS, store, "ConflictedCount"}, {fsS, store, "DocumentCount"}} {
		fd := funcDecl(spec.f, spec.fn)
		if fd == nil {
			codec = append(codec, spec.fn+":MISSING")
			continue
		}
		ast.Inspect(fd, func(n ast.Node) bool {
			if c, ok := n.(*ast.CallExpr); ok {
				s := exprString(c.Fun)
				if strings.HasPrefix(s, "binary.") {
					codec = append(codec, spec.fn+": "+s)
				}
				if s == "make" && len(c.Args) == 2 {
					codec = append(codec, spec.fn+": "+c10Src(spec.fs, c))
				}
			}
			return true
		})
	}
	l.def("statsCodec", "List String", leanStrList(codec), codec)

	// the shelf name constants (seven shelves, two statistics keys)
	var consts []string
	for _, d := range store.Decls {
		gd, ok := d.(*ast.GenDecl)
		if !ok || gd.Tok != token.CONST {
			continue
		}
		for _, sp := range gd.Specs {
			vs := sp.(*ast.ValueSpec)
			for i, n := range vs.Names {
				if i < len(vs.Values) {
					consts = append(consts, n.Name+"="+c10Src(fsS, vs.Values[i]))
				}
			}
		}
	}
	l.def("storeConsts", "List String", leanStrList(consts), consts)

	// HistorySinceVersion's first statement; readDocumentFromEvent
	hist := "MISSING"
	if fd := funcDecl(store, "HistorySinceVersion"); fd != nil && len(fd.Body.List) > 0 {
		hist = c10Src(fsS, fd.Body.List[0])
	}
	l.def("historyFirstStatement", "String", fmt.Sprintf("%q", hist), hist)
	rde := "MISSING"
	if fd := funcDecl(reader, "readDocumentFromEvent"); fd != nil {
		rde = c10Src(fsR, fd.Body)
	}
	l.def("readDocumentFromEventBody", "String", fmt.Sprintf("%q", rde), rde)
	// round 3: where the in-memory conflicted map is changed: the two branches of applyFrom's `if metadata.isConflicted()`
	// (statement by statement, in order), and the bodies of the three functions that touch the map / answer the counter
	var cb []string
	if fd := funcDecl(writer, "applyFrom"); fd != nil {
		found := false
		for _, st := range fd.Body.List {
			if is, ok := st.(*ast.IfStmt); ok && c10Src(fsW, is.Cond) == "metadata.isConflicted()" {
				found = true
				for _, b := range is.Body.List {
					cb = append(cb, "then: "+c10Src(fsW, b))
				}
				if eb, ok := is.Else.(*ast.BlockStmt); ok {
					for _, b := range eb.List {
						cb = append(cb, "else: "+c10Src(fsW, b))
					}
				} else {
					cb = append(cb, "else: <not a block>")
				}
			}
		}
		if !found {
			cb = append(cb, "MISSING isConflicted branch")
		}
	} else {
		cb = []string{"MISSING"}
	}
	for _, fn := range []string{"addCachedConflict", "removeCachedConflict", "Conflicted"} {
		if fd := funcDecl(store, fn); fd != nil {
			cb = append(cb, fn+": "+c10Src(fsS, fd.Body))
		} else {
			cb = append(cb, fn+": MISSING")
		}
	}
	if fd := funcDecl(store, "ConflictedCount"); fd != nil && len(fd.Body.List) >= 2 {
		cb = append(cb, "ConflictedCount: "+c10Src(fsS, fd.Body.List[0])+" ; "+fmt.Sprint(len(fd.Body.List))+" statements ; last: "+c10Src(fsS, fd.Body.List[len(fd.Body.List)-1]))
	} else {
		cb = append(cb, "ConflictedCount: MISSING")
	}
	l.def("cacheBranches", "List String", leanStrList(cb), cb)
}
