package main

// C08 deepening round: facts about the byte layer (key encodings, hash list, leaf codecs, Load's assignment order).

import (
	"go/ast"
	"go/token"
	"strings"
)

func c08NoSpace(s string) string { return strings.ReplaceAll(s, " ", "") }

// the `binary.X.Y` calls of fn, without the package prefix, joined by ","
func c08BinaryCalls(fset *token.FileSet, fn *ast.FuncDecl) string {
	if fn == nil {
		return "MISSING"
	}
	var r []string
	ast.Inspect(fn, func(n ast.Node) bool {
		if c, ok := n.(*ast.CallExpr); ok {
			s := c08Src(fset, c.Fun)
			if strings.HasPrefix(s, "binary.") {
				r = append(r, strings.TrimPrefix(s, "binary."))
			}
		}
		return true
	})
	if len(r) == 0 {
		return "NONE"
	}
	return strings.Join(r, ",")
}

func c08SliceBounds(fset *token.FileSet, e ast.Expr) (string, string, bool) {
	se, ok := e.(*ast.SliceExpr)
	if !ok {
		return "", "", false
	}
	lo, hi := "", ""
	if se.Low != nil {
		lo = c08Src(fset, se.Low)
	}
	if se.High != nil {
		hi = c08Src(fset, se.High)
	}
	return lo, hi, true
}

// if-conditions of fn as full source text
func c08CondsSrc(fset *token.FileSet, fn *ast.FuncDecl) []string {
	if fn == nil {
		return []string{"MISSING"}
	}
	var r []string
	ast.Inspect(fn, func(n ast.Node) bool {
		if is, ok := n.(*ast.IfStmt); ok {
			r = append(r, c08Src(fset, is.Cond))
		}
		return true
	})
	return r
}

func c08CodecFacts(l *lean) {
	str := func(name, v string) { l.def(name, "String", leanStrList([]string{v})[1:len(leanStrList([]string{v}))-1], v) }
	strs := func(name string, v []string) { l.def(name, "List String", leanStrList(v), v) }
	tsF, ts := parseFile("network/dag/treestore.go")
	dgF, dg := parseFile("network/dag/dag.go")
	ibF, ib := parseFile("network/dag/tree/iblt.go")
	xoF, xo := parseFile("network/dag/tree/xor.go")
	trF, tr := parseFile("network/dag/tree/tree.go")
	_, hs := parseFile("crypto/hash/sha256.go")

	str("treeKeyPut", c08BinaryCalls(tsF, funcDecl(ts, "clockToKey")))
	str("treeKeyGet", c08BinaryCalls(tsF, funcDecl(ts, "keyToClock")))
	str("bytesToClockFn", c08BinaryCalls(dgF, funcDecl(dg, "bytesToClock")))
	str("bytesToCountFn", c08BinaryCalls(dgF, funcDecl(dg, "bytesToCount")))
	str("setHighestClockPut", c08BinaryCalls(dgF, c08Method(dg, "dag", "setHighestClockValue")))
	str("setCountPut", c08BinaryCalls(dgF, c08Method(dg, "dag", "setNumberOfTransactions")))

	// var byteOrder = binary.LittleEndian
	bo := "MISSING"
	for _, d := range ib.Decls {
		if gd, ok := d.(*ast.GenDecl); ok && gd.Tok == token.VAR {
			for _, s := range gd.Specs {
				vs := s.(*ast.ValueSpec)
				for i, n := range vs.Names {
					if n.Name == "byteOrder" && i < len(vs.Values) {
						bo = strings.TrimPrefix(c08Src(ibF, vs.Values[i]), "binary.")
					}
				}
			}
		}
	}
	str("ibltByteOrder", bo)

	var ml []string
	if fn := c08Method(ib, "bucket", "MarshalBinary"); fn != nil {
		ast.Inspect(fn, func(n ast.Node) bool {
			c, ok := n.(*ast.CallExpr)
			if !ok || len(c.Args) == 0 {
				return true
			}
			lo, _, isSlice := c08SliceBounds(ibF, c.Args[0])
			if !isSlice {
				return true
			}
			if sel, ok := c.Fun.(*ast.SelectorExpr); ok && exprString(sel.X) == "byteOrder" {
				ml = append(ml, sel.Sel.Name+"@"+lo)
			} else if id, ok := c.Fun.(*ast.Ident); ok && id.Name == "copy" {
				ml = append(ml, "copy@"+lo)
			}
			return true
		})
	}
	strs("bucketMarshalLayout", ml)

	var ul []string
	if fn := c08Method(ib, "bucket", "UnmarshalBinary"); fn != nil {
		ast.Inspect(fn, func(n ast.Node) bool {
			c, ok := n.(*ast.CallExpr)
			if !ok || len(c.Args) != 1 {
				return true
			}
			lo, hi, isSlice := c08SliceBounds(ibF, c.Args[0])
			if !isSlice {
				return true
			}
			if sel, ok := c.Fun.(*ast.SelectorExpr); ok && exprString(sel.X) == "byteOrder" {
				ul = append(ul, sel.Sel.Name+"@"+lo+":"+hi)
			} else if strings.Contains(c08Src(ibF, c.Fun), "SHA256Hash") {
				ul = append(ul, "hash@"+lo+":"+hi)
			}
			return true
		})
	}
	strs("bucketUnmarshalLayout", ul)

	v := c08Const(hs, "SHA256HashSize")
	if v == "" {
		v = ".unknown_hashSize"
	}
	l.def("hashSize", "Nat", v, v)

	var lc []string
	for _, x := range []struct {
		fs   *token.FileSet
		f    *ast.File
		recv string
	}{{ibF, ib, "bucket"}, {ibF, ib, "Iblt"}, {xoF, xo, "Xor"}} {
		fn := c08Method(x.f, x.recv, "UnmarshalBinary")
		s := x.recv + ".UnmarshalBinary:MISSING"
		if fn != nil {
			ast.Inspect(fn, func(n ast.Node) bool {
				if is, ok := n.(*ast.IfStmt); ok && strings.HasSuffix(s, "MISSING") {
					s = x.recv + ".UnmarshalBinary:" + c08NoSpace(c08Src(x.fs, is.Cond))
					return false
				}
				return true
			})
		}
		lc = append(lc, s)
	}
	strs("lengthChecks", lc)

	ck := "MISSING"
	if fn := funcDecl(dg, "indexClockValue"); fn != nil {
		ast.Inspect(fn, func(n ast.Node) bool {
			if as, ok := n.(*ast.AssignStmt); ok && len(as.Lhs) == 1 && exprString(as.Lhs[0]) == "clockKey" {
				if c, ok := as.Rhs[0].(*ast.CallExpr); ok {
					ck = c08Src(dgF, c.Fun)
				}
			}
			return true
		})
	}
	str("clockShelfKey", ck)

	// tree.Load assigns t.root (once) only after every UnmarshalBinary / Add call that can fail
	okAssign := "false"
	if fn := c08Method(tr, "tree", "Load"); fn != nil {
		var assigns, fallible []token.Pos
		ast.Inspect(fn, func(n ast.Node) bool {
			switch v := n.(type) {
			case *ast.AssignStmt:
				for _, lhs := range v.Lhs {
					s := c08Src(trF, lhs)
					if s == "t.root" || s == "t.leafSize" || s == "t.treeSize" {
						assigns = append(assigns, v.Pos())
					}
				}
			case *ast.CallExpr:
				if sel, ok := v.Fun.(*ast.SelectorExpr); ok && (sel.Sel.Name == "UnmarshalBinary" || sel.Sel.Name == "Add") {
					fallible = append(fallible, v.Pos())
				}
			}
			return true
		})
		good := len(assigns) > 0 && len(fallible) >= 2
		for _, a := range assigns {
			for _, f := range fallible {
				if a < f {
					good = false
				}
			}
		}
		if good {
			okAssign = "true"
		}
	}
	l.def("loadAssignsAfterUnmarshal", "Bool", okAssign, okAssign)

	// NewIblt's clamp, DropLeaves / dropLeavesR conditions, order of Delete / Put in writeWithoutLock
	strs("newIbltConds", c08CondsSrc(ibF, funcDecl(ib, "NewIblt")))
	strs("dropLeavesConds", c08Conds(c08Method(tr, "tree", "DropLeaves")))
	strs("dropLeavesRConds", c08Conds(funcDecl(tr, "dropLeavesR")))
	var dl []string
	if fn := c08Method(tr, "tree", "DropLeaves"); fn != nil {
		ast.Inspect(fn, func(n ast.Node) bool {
			if as, ok := n.(*ast.AssignStmt); ok && len(as.Lhs) == 1 && strings.HasPrefix(c08Src(trF, as.Lhs[0]), "t.") {
				dl = append(dl, c08NoSpace(c08Src(trF, as)))
			}
			return true
		})
	}
	strs("dropLeavesAssigns", dl)
	strs("writeWithoutLockWriterCalls", c08Calls(c08Method(ts, "treeStore", "writeWithoutLock"), "writer."))
	strs("metaGetterConds", append(append(c08CondsSrc(dgF, c08Method(dg, "dag", "getHighestClockValue")), c08CondsSrc(dgF, c08Method(dg, "dag", "getNumberOfTransactions"))...), c08CondsSrc(dgF, c08Method(dg, "dag", "getHead"))...))
}
