package main

// C16, deepening round 3: the guards at the head of the loop of clientUpdater.updateService (fix bb52a33), the arguments
// with which Register / updateService call sqlStore.add (seed, timestamp) and where a seed is drawn.

import (
	"go/ast"
	"strings"
)

// what the first statement of an if-body does
func c16Jump(b *ast.BlockStmt) string {
	if b == nil || len(b.List) == 0 {
		return "empty"
	}
	switch x := b.List[0].(type) {
	case *ast.ReturnStmt:
		mark := ""
		ast.Inspect(x, func(n ast.Node) bool {
			if id, ok := n.(*ast.Ident); ok {
				if m, ok := c16Marks[id.Name]; ok && mark == "" {
					mark = ":" + m
				}
			}
			return true
		})
		return "return" + mark
	case *ast.BranchStmt:
		return x.Tok.String()
	}
	return "other"
}

func c16Round3Facts(l *lean) {
	_, client := parseFile("discovery/client.go")
	_, module := parseFile("discovery/module.go")
	_, store := parseFile("discovery/store.go")

	// ---- updateService: the top-level statements of the loop over the response, in source order
	var guards []string
	var updAdd []string
	if fd := funcDecl(client, "updateService"); fd != nil {
		ast.Inspect(fd.Body, func(n ast.Node) bool {
			rs, ok := n.(*ast.RangeStmt)
			if !ok || c16ExprSrc(rs.X) != "presentations" {
				return true
			}
			for _, st := range rs.Body.List {
				switch x := st.(type) {
				case *ast.IfStmt:
					g := ""
					if x.Init != nil {
						g = c16ExprSrc(x.Init) + "; "
					}
					guards = append(guards, "if "+g+c16ExprSrc(x.Cond)+" -> "+c16Jump(x.Body))
				case *ast.AssignStmt:
					if len(x.Rhs) == 1 {
						if c, ok := x.Rhs[0].(*ast.CallExpr); ok {
							guards = append(guards, "call "+exprString(c.Fun))
						}
					}
				}
			}
			return false
		})
		ast.Inspect(fd.Body, func(n ast.Node) bool {
			if c, ok := n.(*ast.CallExpr); ok && strings.HasSuffix(exprString(c.Fun), "store.add") {
				for _, a := range c.Args {
					updAdd = append(updAdd, c16ExprSrc(a))
				}
			}
			return true
		})
	}
	l.def("updateLoopGuards", "List String", leanStrList(guards), guards)
	l.def("updateAddArgs", "List String", leanStrList(updAdd), updAdd)

	// ---- Register: the arguments of store.add (seed "" = draw one, timestamp 0 = server mode)
	var regAdd []string
	if fd := funcDecl(module, "Register"); fd != nil {
		ast.Inspect(fd.Body, func(n ast.Node) bool {
			if c, ok := n.(*ast.CallExpr); ok && strings.HasSuffix(exprString(c.Fun), "store.add") {
				for _, a := range c.Args {
					regAdd = append(regAdd, c16ExprSrc(a))
				}
			}
			return true
		})
	}
	l.def("registerAddArgs", "List String", leanStrList(regAdd), regAdd)

	// ---- where a seed comes from: every assignment to `seed` / `service.Seed` in add, incrementTimestamp (with the
	// condition of the enclosing if)
	var draw []string
	for _, fn := range []string{"add", "incrementTimestamp"} {
		fd := funcDecl(store, fn)
		if fd == nil {
			draw = append(draw, "?missing:"+fn)
			continue
		}
		ast.Inspect(fd.Body, func(n ast.Node) bool {
			ifs, ok := n.(*ast.IfStmt)
			if !ok {
				return true
			}
			for _, st := range ifs.Body.List {
				if as, ok := st.(*ast.AssignStmt); ok && len(as.Lhs) == 1 {
					lhs := c16ExprSrc(as.Lhs[0])
					if lhs == "seed" || lhs == "service.Seed" {
						draw = append(draw, fn+": if "+c16ExprSrc(ifs.Cond)+" { "+c16ExprSrc(as)+" }")
					}
				}
			}
			return true
		})
		// unconditional assignments at the top level of the function body
		for _, st := range fd.Body.List {
			if as, ok := st.(*ast.AssignStmt); ok && len(as.Lhs) == 1 {
				lhs := c16ExprSrc(as.Lhs[0])
				if lhs == "seed" || lhs == "service.Seed" {
					draw = append(draw, fn+": "+c16ExprSrc(as))
				}
			}
		}
	}
	l.def("seedDraw", "List String", leanStrList(draw), draw)

	// ---- wave 9: api.go GetPresentations, every top-level statement of the body (it forwards Server.Get's map, seed and
	// timestamp unchanged; anything between the call and the return shows here)
	_, api := parseFile("discovery/api/server/api.go")
	var gp []string
	if fd := funcDecl(api, "GetPresentations"); fd != nil {
		for _, st := range fd.Body.List {
			gp = append(gp, strings.Join(strings.Fields(c16ExprSrc(st)), " "))
		}
	} else {
		gp = []string{"?missing"}
	}
	l.def("getPresentationsBody", "List String", leanStrList(gp), gp)
}
